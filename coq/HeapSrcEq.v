(* C09: the hand-written model functions equal, for all inputs in the stated ranges, the Gallina text that
   tools/c2coq.py regenerates from lib/loop_timerlist.c (which includes include/tlist.h) on every run
   (gen/Src_tlist.v): the heap index functions, timerlist_entry_cmp and timerlist_msec_duration_to_expire.
   qb_loop_timer_msec_duration_to_expire (the int32_t narrowing) is outside the translator's subset
   (`&my_src->timerlist': address of a struct member) and is reported as not translated; it stays tied by
   the correspondence run and the monitor only. *)
From Coq Require Import ZArith List Bool Lia.
Require Verif.LoopTimerArith.
Require Import Verif.gen.Consts_looptimer Verif.gen.Src_tlist Verif.C2CoqPrelude Verif.HeapModel Verif.HeapProofs
               Verif.LoopTimerModel.
Local Open Scope Z_scope.
Ltac Zify.zify_post_hook ::= Z.div_mod_to_equations.

Ltac unwrap := unfold u8, s8, u16, s16, u32, s32, u64, s64, uwrap, swrap in *;
  change (2 ^ 32) with 4294967296 in *; change (2 ^ 64) with 18446744073709551616 in *;
  change (2 ^ (32 - 1)) with 2147483648 in *; change (2 ^ (64 - 1)) with 9223372036854775808 in *.

(* size_t index arithmetic: no wrap for any array that fits in memory (index < 2^62) *)
Theorem src_index_left : forall i, 0 <= i < 2 ^ 62 -> timerlist_heap_index_left i = index_left i.
Proof.
  intros i H. change (2 ^ 62) with 4611686018427387904 in H.
  unfold timerlist_heap_index_left, index_left. unwrap.
  rewrite (Z.mod_small 2), (Z.mod_small 1) by lia. rewrite (Z.mod_small (2 * i)) by lia. rewrite Z.mod_small by lia. reflexivity.
Qed.

Theorem src_index_right : forall i, 0 <= i < 2 ^ 62 -> timerlist_heap_index_right i = index_right i.
Proof.
  intros i H. change (2 ^ 62) with 4611686018427387904 in H.
  unfold timerlist_heap_index_right, index_right. unwrap.
  rewrite (Z.mod_small 2) by lia. rewrite (Z.mod_small (2 * i)) by lia. rewrite Z.mod_small by lia. reflexivity.
Qed.

(* the parent of the root is never computed by the model: sift_up tests item_pos > 0 first, like the C loop
   condition (in C, (0 - 1) / 2 wraps to 2^63 - 1 and is not used) *)
Theorem src_index_parent : forall i, 0 < i < 2 ^ 62 -> timerlist_heap_index_parent i = index_parent i.
Proof.
  intros i H. change (2 ^ 62) with 4611686018427387904 in H.
  unfold timerlist_heap_index_parent, index_parent. unwrap.
  rewrite (Z.mod_small 1), (Z.mod_small 2) by lia. rewrite (Z.mod_small (i - 1)) by lia.
  apply Z.quot_div_nonneg; lia.
Qed.

Theorem src_entry_cmp : forall p1 p2 a b, timerlist_entry_cmp p1 p2 (t_exp a) (t_exp b) = entry_cmp a b.
Proof. intros. unfold timerlist_entry_cmp, entry_cmp. destruct (_ =? _); [reflexivity|]. destruct (_ <? _); reflexivity. Qed.

(* timerlist_msec_duration_to_expire = tl_msec_to_expire: the mutex is free (lock returns 0), relative timer,
   the clock oracle answers clk, timerlist_hertz = hz *)
Theorem src_msec_to_expire : forall st tlp c1 c2 c3 c4 olock onow oepoch oget r,
  olock c1 = 0 -> onow c2 = clk st -> at_ (ents (heap st)) 0 r ->
  0 <= clk st < 2 ^ 64 -> 0 <= t_exp r < 2 ^ 64 -> 0 < hz st < 2 ^ 63 ->
  fst (fst (fst (fst (timerlist_msec_duration_to_expire tlp c1 c2 c3 c4 (hz st) olock onow oepoch oget (t_exp r) 0 (size (heap st))))))
  = fst (tl_msec_to_expire st).
Proof.
  intros st tlp c1 c2 c3 c4 olock onow oepoch oget r Hl Hn Hr Hc He Hz.
  change (2 ^ 64) with 18446744073709551616 in *. change (2 ^ 63) with 9223372036854775808 in *.
  pose proof (at_lt _ _ _ Hr) as L.
  unfold timerlist_msec_duration_to_expire, tl_msec_to_expire. rewrite Hl, Hn.
  assert (S0 : s32 0 = 0) by reflexivity. rewrite S0. change (0 =? 0) with true. cbv [negb].
  assert (U0 : u64 0 = 0) by reflexivity. rewrite U0.
  replace (size (heap st) =? 0) with false by (symmetry; apply Z.eqb_neq; unfold size; lia).
  rewrite (proj2 (entry_get_at (heap st) 0 r) Hr). unfold read_clock.
  assert (Uc : u64 (u64 (clk st)) = clk st)
    by (rewrite (u64_small (clk st)) by (change (2 ^ 64) with 18446744073709551616; lia);
        apply u64_small; change (2 ^ 64) with 18446744073709551616; lia).
  cbn [fst snd]. rewrite Uc.
  destruct (t_exp r <? clk st) eqn:E; cbn [fst snd]; [reflexivity|].
  apply Z.ltb_ge in E. unfold LT_NS_IN_MSEC, two64.
  assert (S1 : s64 1000 = 1000) by reflexivity. rewrite S1.
  assert (Q1 : Z.quot 1000 (hz st) = 1000 / hz st) by (apply Z.quot_div_nonneg; lia).
  assert (0 <= 1000 / hz st <= 1000) by (split; [apply Z.div_pos; lia|apply Z.div_le_upper_bound; nia]).
  rewrite Q1. rewrite (s64_small (1000 / hz st)) by (change (2 ^ 63) with 9223372036854775808; lia).
  rewrite (u64_small (t_exp r - clk st)) by (change (2 ^ 64) with 18446744073709551616; lia).
  rewrite (u64_small (t_exp r - clk st)) by (change (2 ^ 64) with 18446744073709551616; lia).
  rewrite (Z.quot_div_nonneg (t_exp r - clk st) 1000000) by lia.
  rewrite (u64_small (1000 / hz st)) by (change (2 ^ 64) with 18446744073709551616; lia).
  assert (R : 0 <= (t_exp r - clk st) / 1000000 + 1000 / hz st < 18446744073709551616).
  { assert (A1 : 0 <= (t_exp r - clk st) / 1000000) by (apply Z.div_pos; clear - E; lia).
    assert (A2 : (t_exp r - clk st) / 1000000 <= 18446744073710) by (apply Z.div_le_upper_bound; clear - E He Hc; lia).
    clear - A1 A2 H. generalize dependent ((t_exp r - clk st) / 1000000). generalize dependent (1000 / hz st). intros. lia. }
  rewrite (u64_small ((t_exp r - clk st) / 1000000 + 1000 / hz st)) by (change (2 ^ 64) with 18446744073709551616; exact R).
  rewrite (u64_small ((t_exp r - clk st) / 1000000 + 1000 / hz st)) by (change (2 ^ 64) with 18446744073709551616; exact R).
  rewrite (u64_small ((t_exp r - clk st) / 1000000 + 1000 / hz st)) by (change (2 ^ 64) with 18446744073709551616; exact R).
  unfold advance, set_clk. cbn [hz]. rewrite Z.mod_small by exact R. reflexivity.
Qed.

(* the empty heap: (uint64_t)-1 *)
Theorem src_msec_to_expire_empty : forall st tlp c1 c2 c3 c4 olock onow oepoch oget e a,
  olock c1 = 0 -> ents (heap st) = nil ->
  fst (fst (fst (fst (timerlist_msec_duration_to_expire tlp c1 c2 c3 c4 (hz st) olock onow oepoch oget e a (size (heap st))))))
  = fst (tl_msec_to_expire st).
Proof.
  intros st tlp c1 c2 c3 c4 olock onow oepoch oget e a Hl He.
  unfold timerlist_msec_duration_to_expire, tl_msec_to_expire, size. rewrite Hl, He.
  assert (S0 : s32 0 = 0) by reflexivity. rewrite S0. change (0 =? 0) with true. cbv [negb].
  cbn [length Z.of_nat]. assert (U0 : u64 0 = 0) by reflexivity. rewrite U0. change (0 =? 0) with true.
  cbn [fst]. vm_compute. reflexivity.
Qed.

(* ---- addendum (session 4): the loop-level msec_duration_to_expire, translatable since c2coq passes `&path' of a struct member to a translated callee as an opaque pointer input ---- *)
Lemma s32_to_i32 : forall x, s32 x = to_i32 x.
Proof.
  intros x. unfold s32, swrap, to_i32, two32, two31. change (2 ^ 32) with 4294967296. change (2 ^ (32 - 1)) with 2147483648.
  destruct (x mod 4294967296 <? 2147483648) eqn:E; [apply Z.ltb_lt in E|apply Z.ltb_ge in E]; lia.
Qed.

(* the int32_t narrowing of the repaired qb_loop_timer_msec_duration_to_expire, on any uint64_t value *)
Lemma src_narrow : forall left, 0 <= left < 2 ^ 64 ->
  s32 (let l := u64 left in if negb (l =? u64 (s32 (- 1))) && (l >? u64 2147483647) then u64 (u64 2147483647) else l)
  = narrow_timeout fixed left.
Proof.
  intros left H. change (2 ^ 64) with 18446744073709551616 in H.
  rewrite (u64_small left) by (change (2 ^ 64) with 18446744073709551616; lia).
  assert (A : u64 (s32 (- 1)) = LT_UINT64_MAX) by (vm_compute; reflexivity).
  assert (B : u64 2147483647 = LT_INT32_MAX) by (vm_compute; reflexivity).
  rewrite A, B. unfold narrow_timeout. cbn [f_clamp fixed].
  destruct (negb (left =? LT_UINT64_MAX) && (left >? LT_INT32_MAX)).
  - rewrite (u64_small LT_INT32_MAX) by (vm_compute; split; congruence). vm_compute. reflexivity.
  - apply s32_to_i32.
Qed.

Theorem src_loop_msec_to_expire : forall st ts c1 c2 c3 c4 olock onow oepoch oget r tp,
  olock c1 = 0 -> onow c2 = clk st -> at_ (ents (heap st)) 0 r ->
  0 <= clk st < 2 ^ 64 -> 0 <= t_exp r < 2 ^ 64 -> 0 < hz st < 2 ^ 63 ->
  fst (fst (fst (fst (qb_loop_timer_msec_duration_to_expire ts c1 c2 c3 c4 (hz st) olock onow oepoch oget (t_exp r) 0 tp (size (heap st))))))
  = fst (msec_to_expire fixed st).
Proof.
  intros st ts c1 c2 c3 c4 olock onow oepoch oget r tp Hl Hn Hr Hc He Hz.
  pose proof (src_msec_to_expire st tp c1 c2 c3 c4 olock onow oepoch oget r Hl Hn Hr Hc He Hz) as X.
  unfold qb_loop_timer_msec_duration_to_expire.
  destruct (timerlist_msec_duration_to_expire tp c1 c2 c3 c4 (hz st) olock onow oepoch oget (t_exp r) 0 (size (heap st))) as [[[[r1 a] b] c] d].
  cbn [fst] in *. unfold msec_to_expire. destruct (tl_msec_to_expire st) as [left st'] eqn:T. cbn [fst] in *. subst r1.
  apply src_narrow.
  destruct (LoopTimerArith.tl_msec_value st r Hr) as [_ [R _]]; [unfold LoopTimerArith.u64, LT_UINT64_MAX; change (2 ^ 64) with 18446744073709551616 in *; lia|unfold LoopTimerArith.u64, LT_UINT64_MAX; change (2 ^ 64) with 18446744073709551616 in *; lia|lia|].
  rewrite T in R. cbn [fst] in R. unfold LT_UINT64_MAX in R. change (2 ^ 64) with 18446744073709551616. lia.
Qed.
