(* C17 / C18 (hashtable) - source-tie obligation for the hash function.  gen/Src_maphash.v is regenerated from
   lib/hashtable.c by tools/c2coq.py on every run (hash_fnv walks the key with a byte-pointer cursor, which the translator
   represents by its offset; value_bytes = the bytes the key pointer points to).  Statement: on the bytes of any key k
   (every byte < 256, length below 2^32) and any table order 1..30, the translated hash_fnv returns exactly the bucket number
   the model runs with - (hash_fnv_raw prime order k) mod 2^order, prime = the regenerated FNV_32_PRIME of the tree.
   (The C17/C18 theorems themselves hold for EVERY hash function; this obligation ties the extracted instance used by the
   correspondence run, and the bucket layout it produces, to the code.)  Statement only, closed by `exact'. *)
From Coq Require Import ZArith NArith List Bool.
Import ListNotations.
Require Import Verif.C2CoqPrelude Verif.gen.Consts_map Verif.gen.Src_maphash Verif.MapSpec Verif.MapHashModel Verif.MapHashFnvSrcEq.
Local Open Scope Z_scope.

Theorem C17_src_hash_fnv : forall prime (k : key) (order : nat) (fuel : nat) (value : Z),
  Z.of_N prime = 16777619 -> (length k < fuel)%nat -> Z.of_nat (length k) < 2 ^ 32 -> (1 <= order <= 30)%nat ->
  Forall (fun b => (b < 256)%N) k ->
  hash_fnv fuel value (Z.of_nat (length k)) (Z.of_nat order) (bytes_of k)
  = Some (Z.of_N (hash_fnv_raw prime order k mod 2 ^ N.of_nat order)).
Proof. exact src_hash_fnv. Qed.
Print Assumptions C17_src_hash_fnv.

Theorem C17_src_hash_prime : Z.of_N (Z.to_N MAP_FNV_32_PRIME) = 16777619.
Proof. exact map_prime_ok. Qed.
Print Assumptions C17_src_hash_prime.

(* non-vacuity: the key "abc" in a table of order 5, evaluated on the translated source *)
Example C17_src_hash_fnv_example :
  hash_fnv 10 0 3 5 (bytes_of [97; 98; 99]%N) = Some (Z.of_N (hash_fnv_raw (Z.to_N MAP_FNV_32_PRIME) 5 [97; 98; 99]%N mod 32)).
Proof. vm_compute. reflexivity. Qed.
