(* Extraction of the ring-buffer model for C07.  ExtrOcamlBasic only: bool/option/unit/list/prod/sumbool
   map to the OCaml types of the same shape; Z, positive, nat stay inductive; no Extract Constant. *)
From Coq Require Import ExtrOcamlBasic.
Require Import Verif.RbModel.
Extraction "model_C07.ml" rb_open step run.
