(* Timed waits add nothing to the sequential behaviour: with a consistent notifier answer qb_rb_chunk_read / _peek with
   any ms_timeout are exactly the ms_timeout = 0 operations of RbModel.v (so every C07 / C11 theorem about op lists
   covers them); a failing semaphore (other -errno) is passed through and changes nothing. *)
From Coq Require Import ZArith List Bool Lia ZifyBool.
Import ListNotations.
Require Import Verif.gen.Consts_rb Verif.gen.Consts_rbow Verif.RbModel Verif.RbSpec Verif.RbMem Verif.RbProofs Verif.RbRefine Verif.RbOwWaitModel.
Local Open Scope Z_scope.

Lemma etimedout_facts : forall eidrm, eidrm <> RB_ETIMEDOUT -> 0 < eidrm ->
  ((- RB_ETIMEDOUT <? 0) && negb (- RB_ETIMEDOUT =? - eidrm)) = true.
Proof.
  intros eidrm Hne Hpos. destruct neg_errno_lt0 as (Lt & _). rewrite Lt.
  destruct (- RB_ETIMEDOUT =? - eidrm) eqn:E; [lia | reflexivity].
Qed.

Theorem read_w_is_read : forall eidrm b n res, eidrm <> RB_ETIMEDOUT -> 0 < eidrm -> wait_consistent b res ->
  read_w eidrm b n res = read b n.
Proof.
  intros eidrm b n res Hne Hpos Hc. unfold read_w, read, sem_wait_res, sem_trywait, wait_consistent in *.
  destruct (sem b) as [c|] eqn:Es; [|reflexivity].
  destruct Hc as [(Hc & ->) | (Hc & ->)].
  - change (0 =? 0) with true. cbv iota. destruct (0 <? c) eqn:E; [|lia].
    change (0 <? 0) with false. cbn [andb]. reflexivity.
  - destruct (- RB_ETIMEDOUT =? 0) eqn:E0; [destruct neg_errno_lt0 as (Lt & _); lia|].
    destruct (0 <? c) eqn:E; [lia|].
    rewrite (etimedout_facts eidrm Hne Hpos). destruct neg_errno_lt0 as (Lt & _). rewrite Lt. reflexivity.
Qed.

Theorem peek_w_is_peek : forall eidrm b res, eidrm <> RB_ETIMEDOUT -> 0 < eidrm -> wait_consistent b res ->
  peek_w eidrm b res = peek b.
Proof.
  intros eidrm b res Hne Hpos Hc. unfold peek_w, peek, sem_wait_res, sem_trywait, wait_consistent in *.
  destruct (sem b) as [c|] eqn:Es; [|reflexivity].
  destruct Hc as [(Hc & ->) | (Hc & ->)].
  - change (0 =? 0) with true. cbv iota. destruct (0 <? c) eqn:E; [|lia].
    change (0 <? 0) with false. cbn [andb]. reflexivity.
  - destruct (- RB_ETIMEDOUT =? 0) eqn:E0; [destruct neg_errno_lt0 as (Lt & _); lia|].
    destruct (0 <? c) eqn:E; [lia|].
    rewrite (etimedout_facts eidrm Hne Hpos). destruct neg_errno_lt0 as (Lt & _). rewrite Lt.
    rewrite Z.eqb_refl. reflexivity.
Qed.

(* a failing semaphore: the error is returned, nothing is delivered, nothing changes *)
Theorem read_w_error_pure : forall eidrm b n res c, sem b = Some c -> res < 0 -> res <> - eidrm ->
  read_w eidrm b n res = (b, res, []).
Proof.
  intros eidrm b n res c Hs Hneg Hne. unfold read_w, sem_wait_res. rewrite Hs.
  destruct (res =? 0) eqn:E0; [lia|].
  destruct (res <? 0) eqn:E1; [|lia]. destruct (res =? - eidrm) eqn:E2; [lia|]. reflexivity.
Qed.

Theorem peek_w_error_pure : forall eidrm b res c, sem b = Some c -> res < 0 -> res <> - eidrm ->
  peek_w eidrm b res = (b, if res =? - RB_ETIMEDOUT then 0 else res, []).
Proof.
  intros eidrm b res c Hs Hneg Hne. unfold peek_w, sem_wait_res. rewrite Hs.
  destruct (res =? 0) eqn:E0; [lia|].
  destruct (res <? 0) eqn:E1; [|lia]. destruct (res =? - eidrm) eqn:E2; [lia|]. reflexivity.
Qed.

Lemma eidrm_ok : RBO_EIDRM <> RB_ETIMEDOUT /\ 0 < RBO_EIDRM.
Proof. vm_compute. split; [discriminate | reflexivity]. Qed.

(* an operation list with timed waits behaves exactly like the list with the waits replaced by ms_timeout = 0:
   C07_refines_fifo / C11's theorems about `run' therefore cover it *)
Theorem wrun_is_run : forall eidrm ops b, eidrm <> RB_ETIMEDOUT -> 0 < eidrm -> wconsistent eidrm b ops ->
  wrun eidrm b ops = run b (map untimed ops).
Proof.
  intros eidrm. induction ops as [|o t IH]; intros b Hne Hpos Hc; cbn [wrun run map]; [reflexivity|].
  cbn [wconsistent] in Hc. destruct Hc as (Hco & Hct).
  assert (Hstep : wstep eidrm b o = step b (untimed o)).
  { destruct o as [o | n res | res]; cbn [wstep untimed step]; [reflexivity | |].
    - rewrite (read_w_is_read eidrm b n res Hne Hpos Hco). reflexivity.
    - rewrite (peek_w_is_peek eidrm b res Hne Hpos Hco). reflexivity. }
  rewrite Hstep in *. destruct (step b (untimed o)) as (b1, x). cbn [fst] in Hct.
  rewrite (IH b1 Hne Hpos Hct). reflexivity.
Qed.

Lemma consistent_answer_ok : forall b, wait_consistent b (consistent_answer b).
Proof.
  intros b. unfold wait_consistent, consistent_answer. destruct (sem b) as [c|]; [|exact I].
  destruct (0 <? c) eqn:E; [left | right]; split; try reflexivity; lia.
Qed.
