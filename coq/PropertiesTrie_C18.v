(* C18, trie part: what is machine-checked about iterators on the trie.  The ..._refuted statements are about the
   code BEFORE fixes/C18-trie-removed-parked.patch and fixes/C18-trie-split-keeps-node.patch (FX_REPO; each witness
   was replayed on the real library, reports/maptrie.md); the ..._repaired statements show the same histories on
   the repaired code (FX_ALL).  The guards the monitor of vlib/maptrie.py evaluates on every script:
     C18-trie-removed-parked : get / put / rm (or another iterator) reaches a key that was removed while an
                               iterator is parked on it
     C18-trie-split-parked   : an insertion splits the node an iterator is parked on (guard_split)
     C18-trie-split-prefix-root : an insertion splits the root node of an open prefix iterator (guard_split_root)
   No universally quantified iterator theorem is proved for the trie yet (C18 for the trie is PARTIAL): inside
   the guards the claims of C18 are checked on generated interleavings only (correspondence + monitor + ASan). *)
From Coq Require Import List ZArith.
Require Import Verif.gen.Consts_trie Verif.MapTrieModel Verif.MapTrieSpec Verif.MapTrieGuards Verif.MapTrieRefuted.
Import ListNotations.

(* a removed-but-parked key is still returned by get, and a put on it is lost when the iterator moves on *)
Theorem C18T_removed_parked_key_refuted :
  outs_of FX_REPO w_zombie = [RUnit; RUnit; RKV (Some (Some kabc, Some 1)); RInt TRIE_QB_TRUE; RVal (Some 1); RUnit;
                           RKV None; RUnit; RVal None; RInt 0].
Proof. exact removed_parked_refuted. Qed.
Print Assumptions C18T_removed_parked_key_refuted.

(* a second rm of it succeeds again and frees the node under the iterator: freed memory is read *)
Theorem C18T_no_freed_memory_refuted :
  snd (run FX_REPO trie_init [OPut kabc 1; OIterCreate 0 None; OIterNext 0; ORm kabc; ORm kabc; OIterNext 0])
  = Err (UseAfterFree 1).
Proof. exact removed_parked_uaf_refuted. Qed.
Print Assumptions C18T_no_freed_memory_refuted.

(* an insertion under an iterator that splits the parked node strands the iterator's reference: once the
   iterator is gone rm succeeds but the key stays (get returns the value, count is off) *)
Theorem C18T_dictionary_after_iterators_refuted :
  outs_of FX_REPO w_split = [RUnit; RUnit; RKV (Some (Some kabc, Some 1)); RUnit; RKV (Some (Some kabc, Some 1));
                          RKV (Some (Some kabd, Some 2)); RKV None; RUnit; RInt TRIE_QB_TRUE; RVal (Some 1); RInt 1] /\
  guard_split (match snd (run FX_REPO trie_init [OPut kabc 1; OIterCreate 0 None; OIterNext 0]) with Ok t => t | Err _ => trie_init end)
              (OPut kabd 2) = false.
Proof. exact split_parked_refuted. Qed.
Print Assumptions C18T_dictionary_after_iterators_refuted.

(* an insertion that splits the root node of an open prefix iterator above the end of the prefix makes the
   iterator return a key without the prefix ("abx" for prefix "abc") *)
Theorem C18T_prefix_restriction_under_insertion_refuted :
  outs_of FX_REPO w_split_root = [RUnit; RUnit; RUnit; RKV (Some (Some [97;98;99;100], Some 1)); RUnit;
                               RKV (Some (Some [97;98;99;101], Some 2)); RKV (Some (Some [97;98;120], Some 3)); RKV None] /\
  guard_split_root (match snd (run FX_REPO trie_init (firstn 4 w_split_root)) with Ok t => t | Err _ => trie_init end)
                   (OPut [97;98;120] 3) = false.
Proof. exact split_prefix_root_refuted. Qed.
Print Assumptions C18T_prefix_restriction_under_insertion_refuted.

(* ---------- the repaired code (FX_ALL) on the same histories ---------- *)
Theorem C18T_removed_parked_key_repaired :
  outs_of FX_ALL w_zombie = [RUnit; RUnit; RKV (Some (Some kabc, Some 1)); RInt TRIE_QB_TRUE; RVal None; RUnit;
                             RKV None; RUnit; RVal (Some 9); RInt 1].
Proof. exact removed_parked_repaired. Qed.
Print Assumptions C18T_removed_parked_key_repaired.

Theorem C18T_second_rm_refused_repaired :
  outs_of FX_ALL [OPut kabc 1; OIterCreate 0 None; OIterNext 0; ORm kabc; ORm kabc; OIterNext 0; OIterFree 0; OCount]
  = [RUnit; RUnit; RKV (Some (Some kabc, Some 1)); RInt TRIE_QB_TRUE; RInt TRIE_QB_FALSE; RKV None; RUnit; RInt 0].
Proof. exact removed_parked_uaf_repaired_outs. Qed.
Print Assumptions C18T_second_rm_refused_repaired.

Theorem C18T_split_of_parked_node_repaired :
  outs_of FX_ALL w_split = [RUnit; RUnit; RKV (Some (Some kabc, Some 1)); RUnit; RKV (Some (Some kabd, Some 2));
                            RKV None; RKV None; RUnit; RInt TRIE_QB_TRUE; RVal None; RInt 1].
Proof. exact split_parked_repaired. Qed.
Print Assumptions C18T_split_of_parked_node_repaired.

Theorem C18T_split_of_prefix_root_repaired :
  outs_of FX_ALL w_split_root = [RUnit; RUnit; RUnit; RKV (Some (Some [97;98;99;100], Some 1)); RUnit;
                                 RKV (Some (Some [97;98;99;101], Some 2)); RKV None; RKV None].
Proof. exact split_prefix_root_repaired. Qed.
Print Assumptions C18T_split_of_prefix_root_repaired.
