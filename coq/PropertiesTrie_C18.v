(* C18, trie part: what is machine-checked about iterators on the trie.  The ..._refuted statements are about the
   code BEFORE fixes/C18-trie-removed-parked.patch and fixes/C18-trie-split-keeps-node.patch (FX_REPO; each witness
   was replayed on the real library, reports/maptrie.md); the ..._repaired statements show the same histories on
   the repaired code (FX_ALL).  The guards the monitor of vlib/maptrie.py evaluates on every script:
     C18-trie-removed-parked : get / put / rm (or another iterator) reaches a key that was removed while an
                               iterator is parked on it
     C18-trie-split-parked   : an insertion splits the node an iterator is parked on (guard_split)
     C18-trie-split-prefix-root : an insertion splits the root node of an open prefix iterator (guard_split_root)
   For the REPAIRED code the safety half of C18 is proved for all interleavings (C18T_no_freed_memory_all_interleavings,
   no guard needed) and so is the dictionary half (C18T_dictionary_all_interleavings); the "present throughout =>
   returned, exactly once under removals" clause and prefix iterators are checked on generated interleavings only
   (correspondence + monitor + ASan). *)
From Coq Require Import List ZArith.
Require Import Verif.gen.Consts_trie Verif.MapTrieModel Verif.MapTrieSpec Verif.MapTrieGuards Verif.MapTrieRefuted
               Verif.MapTrieProofs Verif.MapTrieView Verif.MapTrieSafe2 Verif.MapTrieSafe4 Verif.MapTrieSafe5 Verif.MapTrieSafe6
               Verif.MapTrieSafe8.
Import ListNotations.

(* a removed-but-parked key is still returned by get, and a put on it is lost when the iterator moves on *)
Theorem C18T_removed_parked_key_refuted :
  outs_of FX_REPO w_zombie = [RUnit; RUnit; RKV (Some (Some kabc, Some 1)); RInt TRIE_QB_TRUE; RVal (Some 1); RUnit;
                           RKV None; RUnit; RVal None; RInt 0].
Proof. exact removed_parked_refuted. Qed.
Print Assumptions C18T_removed_parked_key_refuted.

(* a second rm of it succeeds again and frees the node under the iterator: freed memory is read *)
Theorem C18T_no_freed_memory_refuted :
  snd (run FX_REPO trie_init [OPut kabc 1; OIterCreate 0 None; OIterNext 0; ORm kabc; ORm kabc; OIterNext 0])
  = Err (UseAfterFree 1).
Proof. exact removed_parked_uaf_refuted. Qed.
Print Assumptions C18T_no_freed_memory_refuted.

(* an insertion under an iterator that splits the parked node strands the iterator's reference: once the
   iterator is gone rm succeeds but the key stays (get returns the value, count is off) *)
Theorem C18T_dictionary_after_iterators_refuted :
  outs_of FX_REPO w_split = [RUnit; RUnit; RKV (Some (Some kabc, Some 1)); RUnit; RKV (Some (Some kabc, Some 1));
                          RKV (Some (Some kabd, Some 2)); RKV None; RUnit; RInt TRIE_QB_TRUE; RVal (Some 1); RInt 1] /\
  guard_split (match snd (run FX_REPO trie_init [OPut kabc 1; OIterCreate 0 None; OIterNext 0]) with Ok t => t | Err _ => trie_init end)
              (OPut kabd 2) = false.
Proof. exact split_parked_refuted. Qed.
Print Assumptions C18T_dictionary_after_iterators_refuted.

(* an insertion that splits the root node of an open prefix iterator above the end of the prefix makes the
   iterator return a key without the prefix ("abx" for prefix "abc") *)
Theorem C18T_prefix_restriction_under_insertion_refuted :
  outs_of FX_REPO w_split_root = [RUnit; RUnit; RUnit; RKV (Some (Some [97;98;99;100], Some 1)); RUnit;
                               RKV (Some (Some [97;98;99;101], Some 2)); RKV (Some (Some [97;98;120], Some 3)); RKV None] /\
  guard_split_root (match snd (run FX_REPO trie_init (firstn 4 w_split_root)) with Ok t => t | Err _ => trie_init end)
                   (OPut [97;98;120] 3) = false.
Proof. exact split_prefix_root_refuted. Qed.
Print Assumptions C18T_prefix_restriction_under_insertion_refuted.

(* ---------- the repaired code (FX_ALL) on the same histories ---------- *)
Theorem C18T_removed_parked_key_repaired :
  outs_of FX_ALL w_zombie = [RUnit; RUnit; RKV (Some (Some kabc, Some 1)); RInt TRIE_QB_TRUE; RVal None; RUnit;
                             RKV None; RUnit; RVal (Some 9); RInt 1].
Proof. exact removed_parked_repaired. Qed.
Print Assumptions C18T_removed_parked_key_repaired.

Theorem C18T_second_rm_refused_repaired :
  outs_of FX_ALL [OPut kabc 1; OIterCreate 0 None; OIterNext 0; ORm kabc; ORm kabc; OIterNext 0; OIterFree 0; OCount]
  = [RUnit; RUnit; RKV (Some (Some kabc, Some 1)); RInt TRIE_QB_TRUE; RInt TRIE_QB_FALSE; RKV None; RUnit; RInt 0].
Proof. exact removed_parked_uaf_repaired_outs. Qed.
Print Assumptions C18T_second_rm_refused_repaired.

Theorem C18T_split_of_parked_node_repaired :
  outs_of FX_ALL w_split = [RUnit; RUnit; RKV (Some (Some kabc, Some 1)); RUnit; RKV (Some (Some kabd, Some 2));
                            RKV None; RKV None; RUnit; RInt TRIE_QB_TRUE; RVal None; RInt 1].
Proof. exact split_parked_repaired. Qed.
Print Assumptions C18T_split_of_parked_node_repaired.

Theorem C18T_split_of_prefix_root_repaired :
  outs_of FX_ALL w_split_root = [RUnit; RUnit; RUnit; RKV (Some (Some [97;98;99;100], Some 1)); RUnit;
                                 RKV (Some (Some [97;98;99;101], Some 2)); RKV None; RKV None].
Proof. exact split_prefix_root_repaired. Qed.
Print Assumptions C18T_split_of_prefix_root_repaired.

(* ---------- SAFETY, all interleavings (repaired code FX_ALL) ----------
   the reference-count accounting invariant (Saf, MapTrieSafe2.v): every node's refcount covers its presence
   reference and every iterator positioned on it; it holds initially and every operation keeps it *)
Theorem C18T_iter_next_keeps_accounting : forall t h it, SafT t -> iters_get (t_iters t) h = Some it ->
  exists r it' kv evs, iter_next FX_ALL (t_root t) it = Ok (r, it', kv, evs) /\
                       Saf r (iters_set (t_iters t) h it') (t_next t) /\
                       forall q, dview (obs_t r q) = dview (obs_t (t_root t) q).
Proof. exact saf_iter_next. Qed.
Print Assumptions C18T_iter_next_keeps_accounting.

(* for ALL interleavings of put / get / rm / count with iterator create / next / free on any number of simultaneously
   open iterators (no prefix), in any order - removing the entry an iterator stands on, the last one, all of them,
   removing twice, inserting (incl. insertions that split the node an iterator stands on), abandoning iterators
   part-way - no error state is reached: no use after free, no stray pointer, no loop out of fuel *)
Theorem C18T_no_freed_memory_all_interleavings : forall hs, hv [] hs ->
  exists outs t', run FX_ALL trie_init (map sop_op hs) = (outs, Ok t').
Proof. exact trie_c18_no_freed_memory. Qed.
Print Assumptions C18T_no_freed_memory_all_interleavings.

(* ... and the map stays a dictionary all the time: every get, rm and count of every such interleaving returns what the
   dictionary of the entries put and not removed returns - with iterators open on removed entries, after they moved
   on, after they are gone ("once the iterators are gone the map again behaves exactly like a dictionary holding the
   surviving entries", and more) *)
Theorem C18T_dictionary_all_interleavings : forall hs, hv [] hs ->
  exists outs t', run FX_ALL trie_init (map sop_op hs) = (outs, Ok t') /\
                  sdict_outs hs (map fst outs) = fst (spec_run [] (sdict_part hs)).
Proof. exact trie_c18_dictionary_under_iterators. Qed.
Print Assumptions C18T_dictionary_all_interleavings.

(* non-vacuity: the use-after-free witness of the unrepaired code is such an interleaving *)
Example C18T_all_interleavings_example :
  hv [] [SPut kabc 1; SCreate 0; SNext 0; SRm kabc; SRm kabc; SPut kabd 2; SNext 0; SCreate 1; SNext 1; SFree 0; SNext 1; SFree 1].
Proof.
  simpl. unfold kvalid, kabc, kabd. repeat split; auto; try discriminate; repeat constructor; discriminate.
Qed.
