(* C02 - source-tie obligations.  gen/Src_ipcs.v is regenerated from lib/ipcs.c by tools/c2coq.py on every run; these
   theorems are about the translated server-side send calls and the dispatch batch limit themselves (for every answer of
   the transport functions and notification helpers, which are oracle streams in the translation):
   each of qb_ipcs_response_send / _sendv / qb_ipcs_event_send / _sendv refuses a message above the negotiated maximum
   with -EMSGSIZE BEFORE anything else happens - the transport's send function is not called (its call counter is
   unchanged), no notification is attempted, no statistic moves - which is the model's `v_sendchk' guard (s_resp, s_evt in
   IpcDataModel.v); the iovec total is the sum of the element lengths; a message within the maximum is handed to the
   transport; _request_q_len_get computes the model's per-priority batch limit q_len_limit.
   Statements only, each closed by `exact'. *)
From Coq Require Import ZArith List Bool.
Import ListNotations.
Require Import Verif.gen.Consts_ipcdata Verif.gen.Src_ipcs Verif.gen.Src_ipcc Verif.C2CoqPrelude Verif.IpcDataModel Verif.IpcSrcEq.
Local Open Scope Z_scope.

Theorem C02_src_response_send_oversize : forall c data size mx nresp nretry k1 k2 k3 o1 o2 o3,
  c <> 0 -> mx < size ->
  qb_ipcs_response_send c data size mx nresp nretry k1 k2 k3 o1 o2 o3 = (- IPC_EMSGSIZE, nresp, nretry, k1, k2, k3).
Proof. exact src_response_send_oversize. Qed.
Print Assumptions C02_src_response_send_oversize.

Theorem C02_src_event_send_oversize : forall c data size mx outst nevt nretry k1 k2 k3 k4 k5 en o1 o2 o3 o4 o5,
  c <> 0 -> mx < size ->
  qb_ipcs_event_send c data size mx outst nevt nretry k1 k2 k3 k4 k5 en o1 o2 o3 o4 o5
  = (- IPC_EMSGSIZE, nevt, nretry, k1, k2, k3, k4, k5, en).
Proof. exact src_event_send_oversize. Qed.
Print Assumptions C02_src_event_send_oversize.

Theorem C02_src_response_sendv_oversize : forall fuel c iov n mx nresp nretry k1 k2 k3 lens o1 o2 o3 total,
  c <> 0 -> _iov_total_size_ fuel iov n lens = Some total -> mx < total ->
  qb_ipcs_response_sendv fuel c iov n mx nresp nretry k1 k2 k3 lens o1 o2 o3
  = Some (- IPC_EMSGSIZE, nresp, nretry, k1, k2, k3).
Proof. exact src_response_sendv_oversize. Qed.
Print Assumptions C02_src_response_sendv_oversize.

Theorem C02_src_event_sendv_oversize : forall fuel c iov n mx outst nevt nretry k1 k2 k3 k4 k5 en lens o1 o2 o3 o4 o5 total,
  c <> 0 -> _iov_total_size_ fuel iov n lens = Some total -> mx < total ->
  qb_ipcs_event_sendv fuel c iov n mx outst nevt nretry k1 k2 k3 k4 k5 en lens o1 o2 o3 o4 o5
  = Some (- IPC_EMSGSIZE, nevt, nretry, k1, k2, k3, k4, k5, en).
Proof. exact src_event_sendv_oversize. Qed.
Print Assumptions C02_src_event_sendv_oversize.

Theorem C02_src_iov_total : forall lens n fuel iov,
  (n < fuel)%nat -> Z.of_nat n < 2 ^ 64 -> (forall j, 0 <= lens j) -> sum_lens lens 0 n < 2 ^ 64 ->
  _iov_total_size_ fuel iov (Z.of_nat n) lens = Some (sum_lens lens 0 n).
Proof. exact src_iov_total. Qed.
Print Assumptions C02_src_iov_total.

Theorem C02_src_response_send_passes : forall c data size mx nresp nretry k1 k2 k3 o1 o2 o3,
  c <> 0 -> size <= mx ->
  let '(_, _, _, _, k2', _) := qb_ipcs_response_send c data size mx nresp nretry k1 k2 k3 o1 o2 o3 in k2' = k2 + 1.
Proof. exact src_response_send_passes. Qed.
Print Assumptions C02_src_response_send_passes.

Theorem C02_src_q_len_limit : forall c fq prio_ k oq (s : st),
  fq <> 0 -> prio (sv s) = prio_ -> 0 <= prio_ < 2 ^ 32 ->
  s64 (s64 (oq k)) = Z.of_nat (length (q_req (ch s))) ->
  fst (_request_q_len_get c fq prio_ k oq) = q_len_limit s.
Proof. exact src_q_len_limit. Qed.
Print Assumptions C02_src_q_len_limit.

(* client side (gen/Src_ipcc.v, regenerated from lib/ipcc.c): qb_ipcc_send / qb_ipcc_sendv refuse an oversize message before
   the flow-control word is read or the transport called (the four call counters are unchanged).  For sendv the statement
   needs the iovec total below 2^31: the C code accumulates it in an int32_t (DESIGN.md section 9, suspected finding) *)
Theorem C02_src_ipcc_send_oversize : forall fuel c p len fcmax ffc nsp mx k1 k2 k3 k4 o1 o2 o3 o4,
  c <> 0 -> mx < len ->
  qb_ipcc_send fuel c p len fcmax ffc nsp mx k1 k2 k3 k4 o1 o2 o3 o4 = Some (- IPC_EMSGSIZE, k1, k2, k3, k4).
Proof. exact src_ipcc_send_oversize. Qed.
Print Assumptions C02_src_ipcc_send_oversize.

Theorem C02_src_ipcc_sendv_oversize_partial : forall fuel c iov (n : nat) fcmax ffc nsp mx k1 k2 k3 k4 lens o1 o2 o3 o4 o5,
  c <> 0 -> (n < fuel)%nat -> Z.of_nat n < 2 ^ 31 -> (forall j, 0 <= lens j) -> sum_lens lens 0 n < 2 ^ 31 ->
  mx < sum_lens lens 0 n ->
  qb_ipcc_sendv fuel c iov (Z.of_nat n) fcmax ffc nsp mx k1 k2 k3 k4 lens o1 o2 o3 o4 o5
  = Some (- IPC_EMSGSIZE, k1, k2, k3, k4).
Proof. exact src_ipcc_sendv_oversize. Qed.
Print Assumptions C02_src_ipcc_sendv_oversize_partial.

(* non-vacuity: negotiated maximum 12328, a 14000-byte event (the design round's finding 6.3 #4) is refused untouched;
   a 3-element iovec of 5000 bytes each totals 15000 and is refused as well; 12328 bytes pass to the transport *)
Example C02_src_example :
  qb_ipcs_event_send 1 0 14000 12328 0 3 4 0 0 0 0 0 0 (fun _ => 0) (fun _ => 14000) (fun _ => 0) (fun _ => 0) (fun _ => 0)
    = (- IPC_EMSGSIZE, 3, 4, 0, 0, 0, 0, 0, 0) /\
  qb_ipcs_response_sendv 10 1 0 3 12328 3 4 0 0 0 (fun _ => 5000) (fun _ => 0) (fun _ => 15000) (fun _ => 0)
    = Some (- IPC_EMSGSIZE, 3, 4, 0, 0, 0) /\
  (let '(_, _, _, _, k2', _) := qb_ipcs_response_send 1 0 12328 12328 3 4 0 0 0 (fun _ => 0) (fun _ => 12328) (fun _ => 0) in k2') = 1.
Proof. repeat split; vm_compute; reflexivity. Qed.
