(* C17 / C18 - source-tie obligations for the hashtable and the skiplist.  gen/Src_maphash.v and gen/Src_mapskip.v are
   regenerated from lib/hashtable.c and lib/skiplist.c by tools/c2coq.py on every run (harness/c2coq/maphash.json,
   mapskip.json); these theorems state that the hand-written model functions compute, for all inputs in the stated
   ranges, what the translated C functions compute.  Statements only, each closed by `exact'.
   Not translatable by the tool (reported, not skipped): hash_fnv (pointer arithmetic), skiplist_level_generate
   (local enum declaration) - tied by the correspondence run only. *)
From Coq Require Import ZArith List Bool.
Require Import Verif.C2CoqPrelude Verif.gen.Src_maphash Verif.gen.Src_mapskip Verif.MapSpec Verif.MapHashModel
  Verif.MapSkipModel Verif.MapHashSrcEq.
Local Open Scope Z_scope.

(* qb_hashtable_create: count = 0, order = max(bit length of max_size, 3) = the model's order_of, 2^order buckets =
   the model's h_create, for every max_size below 2^30, every non-NULL allocator answer, enough loop fuel *)
Theorem C17_src_hashtable_create : forall (m : N) fuel cc f1 f2 f3 f4 f5 f6 f7 f8 f9 f10 a1 a2 a3 a4 a5 a6 a7 a8 a9 a10 a11 a12 a13 orc,
  Z.of_N m < 2 ^ 30 -> 0 < orc cc < 2 ^ 64 -> (2 ^ order_of m + 40 < fuel)%nat ->
  create_order (qb_hashtable_create fuel (Z.of_N m) cc f1 f2 f3 f4 f5 f6 f7 f8 f9 f10 a1 a2 a3 a4 a5 a6 a7 a8 a9 a10 a11 a12 a13 orc) =
  Some (0, Z.of_nat (length (h_buckets (h_create m))), Z.of_nat (order_of m)).
Proof. exact src_hashtable_create. Qed.
Print Assumptions C17_src_hashtable_create.

(* hashtable_node_deref: the count goes from r+1 to r and hashtable_node_destroy is called exactly when r = 0 *)
Theorem C17_src_hash_node_deref : forall map node cnt (r : nat) orc, Z.of_nat (S r) < 2 ^ 32 ->
  hashtable_node_deref map node cnt (Z.of_nat (S r)) orc = ((if Nat.eqb r 0 then cnt + 1 else cnt), Z.of_nat r).
Proof. exact src_hash_node_deref. Qed.
Print Assumptions C17_src_hash_node_deref.

(* ... and the model's node_deref takes the same decision on every heap: the cell is freed exactly when the C code
   calls the destructor, otherwise it holds the C code's new count *)
Theorem C17_src_hash_node_deref_model : forall s id n r map node cnt orc,
  deref (h_heap s) id = Ok n -> hn_ref n = S r -> Z.of_nat (S r) < 2 ^ 32 ->
  exists s' ns, node_deref s id = Ok (s', ns) /\
    if fst (hashtable_node_deref map node cnt (Z.of_nat (hn_ref n)) orc) =? cnt + 1
    then deref (h_heap s') id = Err (UseAfterFree id)
    else exists n', deref (h_heap s') id = Ok n' /\
                    Z.of_nat (hn_ref n') = snd (hashtable_node_deref map node cnt (Z.of_nat (hn_ref n)) orc).
Proof. exact src_hash_node_deref_model. Qed.
Print Assumptions C17_src_hash_node_deref_model.

Theorem C17_src_skip_node_deref : forall node list cnt (r : nat) orc, Z.of_nat (S r) < 2 ^ 32 ->
  skiplist_node_deref node list cnt (Z.of_nat (S r)) orc = ((if Nat.eqb r 0 then cnt + 1 else cnt), Z.of_nat r).
Proof. exact src_skip_node_deref. Qed.
Print Assumptions C17_src_skip_node_deref.

Theorem C17_src_count_get : forall map c, hashtable_count_get map c = c /\ skiplist_count_get map c = c.
Proof. exact (fun map c => conj (src_hash_count_get map c) (src_skip_count_get map c)). Qed.

(* non-vacuity: qb_hashtable_create(100) evaluated on the translated code: count 0, 128 buckets, order 7 *)
Example C17_src_example :
  create_order (qb_hashtable_create 400 100 0 1 2 3 4 5 6 7 8 9 10 0 0 0 0 0 0 0 0 0 0 0 0 0 (fun _ => 4096)) = Some (0, 128, 7).
Proof. exact src_create_example. Qed.
