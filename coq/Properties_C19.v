(* C19 property theorems: statements only, each closed by `exact' (Examples by computation).
   The definitions they speak about (create, step, run, spec_step, ...) are exactly the ones
   extracted by Extract_C19.v and run against lib/array.c by the correspondence check. *)
From Coq Require Import ZArith List NArith.
Require Import Verif.gen.Consts_array Verif.ArrayModel Verif.ArrayProofs Verif.ArrayRefine.
Require Import Verif.ArrayConcModel Verif.ArrayConcProofs.
Import ListNotations.
Local Open Scope Z_scope.

(* index = 16 * bin + slot with slot < 16, for EVERY non-negative index (stronger than the 65536-sweep
   planned in DESIGN.md; the constants 16 / 4 come from the regenerated Consts_array.v) *)
Theorem C19_bit_slicing : forall idx,
  idx = ARRAY_ELEMS_PER_BIN * bin_of idx + elem_of idx /\ 0 <= elem_of idx < ARRAY_ELEMS_PER_BIN.
Proof. exact bin_slot. Qed.
Print Assumptions C19_bit_slicing.

(* Address stability: whatever happens between two successful qb_array_index calls for the same
   index - any index/grow/store/load history ops2, including growth that reallocates the table -
   both return the same address.  All element sizes, initial sizes, autogrow settings. *)
Theorem C19_address_stable :
  forall max es auto cb w0 ops1 ops2 i w1 o1 w2 rc1 a1 cbs1 w3 o3 w4 rc2 a2 cbs2,
  0 <= max -> create max es auto cb = Some w0 ->
  run w0 ops1 = (w1, o1) -> step w1 (Index i) = (w2, OIndex rc1 (Some a1) cbs1) ->
  run w2 ops2 = (w3, o3) -> step w3 (Index i) = (w4, OIndex rc2 (Some a2) cbs2) ->
  a1 = a2.
Proof. exact addr_stable_trace. Qed.
Print Assumptions C19_address_stable.

(* Disjointness: the byte ranges [a, a+es) and [b, b+es) returned for two different indices at any
   two points of any history never overlap, and both lie inside their (still allocated) blocks. *)
Theorem C19_addresses_disjoint :
  forall max es auto cb w0 ops1 ops2 i j w1 o1 w2 rc1 a cbs1 w3 o3 w4 rc2 b cbs2,
  0 <= max -> create max es auto cb = Some w0 ->
  run w0 ops1 = (w1, o1) -> step w1 (Index i) = (w2, OIndex rc1 (Some a) cbs1) ->
  run w2 ops2 = (w3, o3) -> step w3 (Index j) = (w4, OIndex rc2 (Some b) cbs2) ->
  i <> j ->
  disjoint_ranges es a b /\
  (exists bl, nth_error (heap w4) (Z.to_nat (fst a)) = Some bl /\ 0 <= snd a /\ snd a + es <= b_size bl) /\
  (exists bl, nth_error (heap w4) (Z.to_nat (fst b)) = Some bl /\ 0 <= snd b /\ snd b + es <= b_size bl).
Proof. exact addr_disjoint_trace. Qed.
Print Assumptions C19_addresses_disjoint.

(* Refinement: for every configuration and every history, the return codes of index/grow and the
   bytes a caller reads and writes THROUGH THE FIRST POINTER IT GOT for an index are exactly those
   of the abstract specification (an unbounded zero-initialised array with a current size). *)
Theorem C19_refines_spec : forall max es auto cb w0 ops, 0 <= max -> create max es auto cb = Some w0 ->
  abs_outs ops (snd (run w0 ops)) = snd (spec_run es auto (spec_init max) ops).
Proof. exact refines_spec. Qed.
Print Assumptions C19_refines_spec.

(* What the specification says about content: a byte changes only by a store to that very byte -
   not by index calls, not by any amount of growth, not by stores to other indices or offsets;
   it starts as zero; a store is read back. *)
Theorem C19_spec_content_frame : forall es auto ops s i k, no_store_to i k ops ->
  sp_mem (fst (spec_run es auto s ops)) i k = sp_mem s i k.
Proof. exact spec_mem_frame. Qed.
Print Assumptions C19_spec_content_frame.

Theorem C19_spec_zero_init : forall max i k, sp_mem (spec_init max) i k = 0%N.
Proof. exact spec_zero_init. Qed.

Theorem C19_spec_store_then_load : forall es auto s idx k v s1 y,
  spec_step es auto s (Store idx k v) = (s1, y) -> y = SRc 0 ->
  sp_mem s1 idx k = v /\ sp_seen s1 idx = true /\ 0 <= k < es /\
  snd (spec_step es auto s1 (Load idx k)) = SVal (Some v).
Proof. exact spec_store_load. Qed.

Theorem C19_spec_load_reads_content : forall es auto s idx k, sp_seen s idx = true -> 0 <= k < es ->
  spec_step es auto s (Load idx k) = (s, SVal (Some (sp_mem s idx k))).
Proof. exact spec_load. Qed.
Print Assumptions C19_spec_load_reads_content.

(* Range errors, in every reachable state w: an index outside [0, 65536) always fails and changes
   nothing; an index at or beyond the current size fails with -ERANGE when autogrow is off; an index
   inside the current size - or any index in [0, 65536) when autogrow is on - succeeds. *)
Theorem C19_range_errors : forall max es auto cb w0 ops idx, 0 <= max -> create max es auto cb = Some w0 ->
  let w := fst (run w0 ops) in
  autog w = auto /\
  (idx < 0 \/ ARRAY_MAX_ELEMENTS <= idx ->
     exists rc, step w (Index idx) = (w, OIndex rc None []) /\ rc < 0) /\
  (maxel w <= idx -> auto = 0 -> step w (Index idx) = (w, OIndex (- ARRAY_ERANGE) None [])) /\
  (0 <= idx -> idx < maxel w \/ (auto <> 0 /\ idx < ARRAY_MAX_ELEMENTS) ->
     exists w' a cbs, step w (Index idx) = (w', OIndex 0 (Some a) cbs) /\ maxel w' = Z.max (maxel w) (idx + 1)).
Proof. exact index_range_reachable. Qed.
Print Assumptions C19_range_errors.

(* Non-vacuity: a concrete array (20 elements of 8 bytes, no autogrow, callback installed) and a
   history with growth across a table reallocation meet the hypotheses above. *)
Definition ex_outs : list out :=
  match create 20 8 0 true with
  | Some w0 => snd (run w0 [Index 19; Store 19 7 200%N; Index 20; Grow 4000; NumBins; Index 19; Index 3999;
                            Load 19 7; Load 3999 0; Index 65536; Index (-1)])
  | None => []
  end.
Example C19_example_history :
  ex_outs = [OIndex 0 (Some (0, 24)) [1]; ORc 0; OIndex (-34) None []; ORc 0; ORc 252;
             OIndex 0 (Some (0, 24)) []; OIndex 0 (Some (1, 120)) [249];
             OVal (Some 200%N); OVal (Some 0%N); OIndex (-34) None []; OIndex (-34) None []].
Proof. vm_compute. reflexivity. Qed.

(* ======================================================================================== *)
(* Concurrent callers (interleaving model ArrayConcModel.v; `exec fixed sched' runs ANY schedule). *)

(* REFUTED for lib/array.c as found (fixed = false): two threads, 13 scheduling steps, and thread 0 reads
   the bin table after thread 1's qb_array_grow has reallocated and freed it.  The same programs and
   schedule are in the corpus of the check (vlib/arrconc.py) and reproduce the read of the freed table on
   the real library; repaired by fixes/C19-index-bin-read-under-lock.patch. *)
Theorem C19_conc_refuted_before_fix : exists s, refute_run false = Some s /\ c_err s = true /\ In (EUaf 0 1) (c_log s).
Proof. exact unfixed_uaf. Qed.
Print Assumptions C19_conc_refuted_before_fix.

(* The repaired code (fixed = true), for all thread counts, programs and schedules: no freed table is
   ever read, the sequential invariant holds in every reachable state, and every return event satisfies
   ret_ok (a successful index returns the address where the index lives in the shared state). *)
Theorem C19_conc_safe : forall max es auto w0 progs sched, 0 <= max -> create max es auto false = Some w0 ->
  let s := exec true sched (cinit w0 progs) in
  c_err s = false /\ Inv (c_w s) /\ (forall e, In e (c_log s) -> ret_ok (c_w s) e) /\ forallb quiet (c_log s) = true.
Proof. exact conc_safe. Qed.
Print Assumptions C19_conc_safe.

(* ... hence, over all threads and all times of any interleaved execution: one address per index,
   disjoint storage for different indices, addresses inside live blocks, and no success outside [0, 65536). *)
Theorem C19_conc_addresses : forall max es auto w0 progs sched, 0 <= max -> create max es auto false = Some w0 ->
  let s := exec true sched (cinit w0 progs) in
  (forall t1 k1 t2 k2 i rc1 rc2 a1 a2,
     In (ERet t1 k1 (CIndex i) rc1 (Some a1)) (c_log s) -> In (ERet t2 k2 (CIndex i) rc2 (Some a2)) (c_log s) ->
     a1 = a2) /\ (forall t1 k1 t2 k2 i j rc1 rc2 a b,
     In (ERet t1 k1 (CIndex i) rc1 (Some a)) (c_log s) -> In (ERet t2 k2 (CIndex j) rc2 (Some b)) (c_log s) ->
     i <> j -> disjoint_ranges es a b) /\ (forall t k i rc blk off, In (ERet t k (CIndex i) rc (Some (blk, off))) (c_log s) ->
     exists bl, nth_error (heap (c_w s)) (Z.to_nat blk) = Some bl /\ 0 <= off /\ off + es <= b_size bl) /\ (forall t k i rc addr, In (ERet t k (CIndex i) rc addr) (c_log s) ->
     (i < 0 \/ ARRAY_MAX_ELEMENTS <= i -> rc < 0) /\ (rc <> 0 -> rc < 0 /\ addr = None) /\ (rc = 0 -> addr <> None)).
Proof. exact conc_addresses. Qed.
Print Assumptions C19_conc_addresses.

(* No step taken outside a critical section touches a location that a critical section writes (this is
   what justifies treating lock-protected sections as atomic steps, in the model and in the scheduler). *)
Theorem C19_conc_race_free : forall max es auto w0 progs sched, 0 <= max -> create max es auto false = Some w0 ->
  forall t l, In (EStep t l) (c_log (exec true sched (cinit w0 progs))) -> racy_label l = false.
Proof. exact conc_race_free. Qed.
Print Assumptions C19_conc_race_free.

(* Non-vacuity: on the repaired model the witness schedule completes index 17 with a real address,
   while the code as found makes racy steps on it. *)
Example C19_conc_example : exists s, refute_run true = Some s /\ c_err s = false /\
  filter is_ret (c_log s) = [ERet 1 0 (CGrow 100) 0 None; ERet 0 0 (CIndex 17) 0 (Some (0, 8))].
Proof. eexists. split; [reflexivity|]. split; vm_compute; reflexivity. Qed.
Example C19_conc_unfixed_is_racy : exists s, refute_run false = Some s /\ existsb is_step_racy (c_log s) = true.
Proof. exact unfixed_racy. Qed.
