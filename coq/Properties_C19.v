(* C19 property theorems: statements only, each closed by `exact'. *)
From Coq Require Import ZArith List NArith.
Require Import Verif.gen.Consts_array Verif.ArrayModel Verif.ArrayProofs.
Import ListNotations.
Local Open Scope Z_scope.

(* index = 16 * bin + slot, slot < 16, for every non-negative index *)
Theorem C19_bit_slicing : forall idx,
  idx = ARRAY_ELEMS_PER_BIN * bin_of idx + elem_of idx /\ 0 <= elem_of idx < ARRAY_ELEMS_PER_BIN.
Proof. exact bin_slot. Qed.
Print Assumptions C19_bit_slicing.
