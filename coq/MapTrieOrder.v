(* C17 trie part: the traversal order is ascending in the order of (signed char) strings. *)
From Coq Require Import List ZArith Bool Arith Lia Sorted.
Import ListNotations.
Require Import Verif.gen.Consts_trie Verif.MapTrieModel Verif.MapTrieSpec Verif.MapTrieProofs Verif.MapTrieProofs2
               Verif.MapTrieIter Verif.MapTrieIter2 Verif.MapTrieIter5.

(* a before b: at the first difference the byte of a has the larger child index (= the smaller signed char);
   a proper prefix comes first *)
Fixpoint klt (a b : key) : Prop :=
  match a, b with
  | [], _ :: _ => True
  | _, [] => False
  | x :: a', y :: b' => c2i y < c2i x \/ (x = y /\ klt a' b')
  end.

(* on byte values this is the order of the signed char values *)
Definition sgn (b : byte) : Z := if b <? 128 then Z.of_nat b else (Z.of_nat b - 256)%Z.
Lemma c2i_signed : forall x y, x < 256 -> y < 256 -> (c2i y < c2i x <-> (sgn x < sgn y)%Z).
Proof.
  intros x y Hx Hy. unfold c2i, sgn.
  destruct (Nat.ltb_spec x 128); destruct (Nat.ltb_spec y 128);
  destruct (Nat.ltb_spec x 256); destruct (Nat.ltb_spec y 256); lia.
Qed.

Lemma klt_pre : forall m a b, klt a b -> klt (m ++ a) (m ++ b).
Proof. induction m; simpl; intros; auto. Qed.

Lemma klt_prefix : forall a c b, klt a (a ++ c :: b).
Proof. induction a; simpl; intros; auto. Qed.

(* present nodes below t with their strings (relative to t, t's segment included) *)
Definition pre (m : key) (e : key * ninfo) : key * ninfo := (m ++ fst e, snd e).

Fixpoint als_t (t : tnode) {struct t} : list (key * ninfo) :=
  match t with TN _ s f => map (pre s) (als_f f 0) end
with als_f (f : forest) (base : nat) {struct f} : list (key * ninfo) :=
  match f with
  | FNil => []
  | FCons c f' =>
    als_f f' (S base) ++
    match c with
    | Some t => map (pre [i2c base]) ((if alive t then [(t_seg t, t_info t)] else []) ++ als_t t)
    | None => []
    end
  end.

Lemma map_snd_pre : forall m l, map snd (map (pre m) l) = map snd l.
Proof. induction l; simpl; auto. rewrite IHl. reflexivity. Qed.

Lemma als_infos : (forall t, map snd (als_t t) = al_t t) /\ (forall f base, map snd (als_f f base) = al_f f).
Proof.
  apply tnode_forest_ind.
  - intros i s f IH. simpl. rewrite map_snd_pre. apply IH.
  - reflexivity.
  - intros f IH base. simpl. rewrite !app_nil_r. apply IH.
  - intros t f IHt IHf base. cbn [als_f al_f]. rewrite map_app, IHf. f_equal.
    rewrite map_snd_pre. rewrite map_app. f_equal; [destruct (alive t); reflexivity | exact IHt].
Qed.

(* every string starts (after the node's segment) with the index character of a child slot >= base *)
Definition first_ge (base : nat) (e : key * ninfo) : Prop :=
  match fst e with c :: _ => base <= c2i c | [] => False end.

Lemma als_f_first : forall f base e, In e (als_f f base) -> first_ge base e.
Proof.
  induction f; intros base e H; simpl in H; [destruct H|].
  apply in_app_or in H. destruct H as [H|H].
  - apply IHf in H. unfold first_ge in *. destruct (fst e); auto. lia.
  - destruct o; [|destruct H]. apply in_map_iff in H. destruct H as [x [E _]]. subst e.
    unfold first_ge, pre. simpl. rewrite c2i_i2c. lia.
Qed.

Definition elt (a b : key * ninfo) : Prop := klt (fst a) (fst b).

Lemma sorted_app : forall (l1 l2 : list (key * ninfo)), StronglySorted elt l1 -> StronglySorted elt l2 ->
  (forall x y, In x l1 -> In y l2 -> elt x y) -> StronglySorted elt (l1 ++ l2).
Proof.
  induction l1; simpl; intros; auto. inversion H; subst. constructor.
  - apply IHl1; auto.
  - apply Forall_app. split; auto. apply Forall_forall. intros. apply H1; auto.
Qed.

Lemma sorted_map_pre : forall m l, StronglySorted elt l -> StronglySorted elt (map (pre m) l).
Proof.
  induction l; simpl; intros; constructor; inversion H; subst; auto.
  apply Forall_forall. intros x Hx. apply in_map_iff in Hx. destruct Hx as [y [E Hy]]. subst x.
  unfold elt, pre. simpl. apply klt_pre. rewrite Forall_forall in H3. apply H3; auto.
Qed.

Lemma als_sorted : (forall t, StronglySorted elt (als_t t)) /\ (forall f base, StronglySorted elt (als_f f base)).
Proof.
  apply tnode_forest_ind.
  - intros i s f IH. simpl. apply sorted_map_pre. apply IH.
  - intros. constructor.
  - intros f IH base. simpl. rewrite app_nil_r. apply IH.
  - intros t f IHt IHf base. cbn [als_f]. apply sorted_app.
    + apply IHf.
    + apply sorted_map_pre. destruct (alive t); simpl; auto.
      constructor; auto. apply Forall_forall. intros x Hx. destruct t as [i s fc]. simpl in *.
      apply in_map_iff in Hx. destruct Hx as [y [E Hy]]. subst x. unfold elt, pre. simpl.
      pose proof (als_f_first _ _ _ Hy) as F. unfold first_ge in F. destruct (fst y) eqn:Y; [contradiction|].
      apply klt_prefix.
    + intros x y Hx Hy. apply als_f_first in Hx. apply in_map_iff in Hy. destruct Hy as [z [E _]]. subst y.
      unfold elt, first_ge, pre in *. simpl. destruct (fst x); [contradiction|]. simpl. left. rewrite c2i_i2c. lia.
Qed.

(* the string listed with a node is the string of its path *)
Lemma als_qstr :
  (forall t e, In e (als_t t) -> exists p tn, p <> [] /\ get_at t p = Some tn /\ t_info tn = snd e /\ fst e = qstr t p) /\
  (forall f base e, In e (als_f f base) -> exists j p c tn, fget f j = Some c /\ get_at c p = Some tn /\
                                             t_info tn = snd e /\ fst e = i2c (base + j) :: qstr c p).
Proof.
  apply tnode_forest_ind.
  - intros i s f IH e H. simpl in H. apply in_map_iff in H. destruct H as [x [E Hx]]. subst e.
    destruct (IH 0 x Hx) as [j [p [c [tn [F [G [I Q]]]]]]].
    exists (j :: p), tn. split; [discriminate|]. simpl. rewrite F. split; auto. split; auto. rewrite Q. reflexivity.
  - intros base e H. destruct H.
  - intros f IH base e H. simpl in H. rewrite app_nil_r in H.
    destruct (IH (S base) e H) as [j [p [c [tn [F [G [I Q]]]]]]].
    exists (S j), p, c, tn. simpl. repeat split; auto. rewrite Q. f_equal. f_equal. lia.
  - intros t f IHt IHf base e H. cbn [als_f] in H. apply in_app_or in H. destruct H as [H|H].
    + destruct (IHf (S base) e H) as [j [p [c [tn [F [G [I Q]]]]]]].
      exists (S j), p, c, tn. simpl. repeat split; auto. rewrite Q. f_equal. f_equal. lia.
    + apply in_map_iff in H. destruct H as [x [E Hx]]. subst e. apply in_app_or in Hx. destruct Hx as [Hx|Hx].
      * destruct (alive t); [|destruct Hx]. destruct Hx as [Hx|[]]. subst x.
        exists 0, [], t, t. simpl. repeat split; auto. rewrite Nat.add_0_r. reflexivity.
      * destruct (IHt x Hx) as [p [tn [Hp [G [I Q]]]]].
        exists 0, p, t, tn. simpl. repeat split; auto. rewrite Nat.add_0_r, Q. reflexivity.
Qed.

(* the keys handed out by a complete traversal of a map state are strictly ascending in klt *)
Lemma visit_keys_sorted : forall t d, Inv t d ->
  StronglySorted klt (map fst (map (fun i => match n_key i, n_val i with Some k, Some v => (k, v) | _, _ => ([], 0) end)
                                   (al_t (t_root t)))).
Proof.
  intros t d HI. rewrite <- (proj1 als_infos (t_root t)). rewrite !map_map.
  assert (E : forall e, In e (als_t (t_root t)) ->
            fst (match n_key (snd e), n_val (snd e) with Some k, Some v => (k, v) | _, _ => ([], 0) end) = fst e).
  { intros e He. destruct (proj1 als_qstr _ _ He) as [p [tn [Hp [G [I Q]]]]].
    assert (A : In (snd e) (al_t (t_root t))).
    { rewrite <- (proj1 als_infos (t_root t)). apply in_map. exact He. }
    destruct (al_sound t d _ HI A) as [k [v [K [V _]]]]. rewrite K, V. simpl.
    pose proof (obs_qstr _ _ _ G) as O. pose proof (qstr_nonempty p (t_root t) Hp) as QN.
    pose proof (inv_key _ _ HI _ QN) as KK. rewrite O in KK. unfold core_of in KK. simpl in KK.
    rewrite I in KK. rewrite K in KK. rewrite V in KK. assert (X : Some k = Some (qstr (t_root t) p)) by (apply KK; discriminate).
    inversion X. congruence. }
  rewrite (map_ext_in _ fst _ E).
  pose proof (proj1 als_sorted (t_root t)) as S. clear E.
  induction S; simpl; constructor; auto.
  apply Forall_forall. intros x Hx. apply in_map_iff in Hx. destruct Hx as [y [E Hy]]. subst x.
  rewrite Forall_forall in H. apply H; auto.
Qed.
