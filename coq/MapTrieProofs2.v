(* C17 trie part: the trie model refines the dictionary specification for every history of
   put / get / rm / count (no open iterators). *)
From Coq Require Import List ZArith Bool Arith Lia.
Import ListNotations.
Require Import Verif.gen.Consts_trie Verif.MapTrieModel Verif.MapTrieSpec Verif.MapTrieProofs.

Definition c_key (c : core) := match c with (k, _, _, _, _) => k end.
Definition c_val (c : core) := match c with (_, v, _, _, _) => v end.
Definition c_rc (c : core) := match c with (_, _, r, _, _) => r end.
Definition c_nots (c : core) := match c with (_, _, _, n, _) => n end.
Definition c_rem (c : core) := match c with (_, _, _, _, b) => b end.

Lemma look_none_obs : forall sz n, size_t n <= sz -> forall k, look_t n k true = None -> obs_t n k = blank.
Proof.
  induction sz; intros n Hsz k H.
  { destruct n; simpl in Hsz; lia. }
  destruct n as [i seg f]. cbn [look_t] in H. cbn [obs_t].
  destruct (strip seg k 0) eqn:S; auto.
  - destruct (sc <? length seg); auto. simpl in H. discriminate.
  - rewrite look_f_fget in H. rewrite obs_f_fget. destruct (fget f (c2i c)) as [t|] eqn:G; auto.
    apply IHsz.
    + apply size_fget in G. simpl in Hsz. lia.
    + destruct (look_t t k' true); auto. discriminate.
Qed.

Lemma all_get_at : forall P p n t, all_t P n -> get_at n p = Some t -> P (t_info t) (t_seg t).
Proof.
  induction p; intros n t H G; simpl in G.
  - inversion G; subst. destruct t. simpl in *. tauto.
  - destruct n as [i seg f]. simpl in G. destruct (fget f a) as [c|] eqn:F; [|discriminate].
    destruct H as [_ Hf]. eapply IHp; eauto. eapply all_f_fget; eauto.
Qed.

Lemma upd_seg : forall n p g, t_seg (upd_t n p g) = t_seg n.
Proof. destruct n, p; reflexivity. Qed.

Lemma hdr_look : forall i f k p, k <> [] -> look_t (TN i [] f) k true = Some p -> p <> [].
Proof.
  intros. cbn [look_t] in H0. destruct k; [congruence|]. simpl in H0.
  destruct (look_f f (c2i b) k true); inversion H0. discriminate.
Qed.

Lemma hdr_ins : forall fx i f k nid n' p nid', k <> [] -> ins_t fx (TN i [] f) k true nid = (n', p, nid') -> t_seg n' = [].
Proof.
  intros. cbn [ins_t] in H0. destruct k; [congruence|]. simpl in H0.
  destruct (ins_f fx f (c2i b) k nid) as [[[f' p0] nid0]|]; inversion H0; reflexivity.
Qed.

Lemma fset_fset : forall f j x y, fset (fset f j x) j y = fset f j y.
Proof. induction f; simpl; intros; auto. destruct j; simpl; auto. rewrite IHf. reflexivity. Qed.

(* two updates of the same node = one update with the composed function *)
Lemma upd_upd : forall p n g1 g2, upd_t (upd_t n p g1) p g2 = upd_t n p (fun i => g2 (g1 i)).
Proof.
  induction p; intros n g1 g2; destruct n as [i seg f]; cbn [upd_t]; auto.
  f_equal. rewrite !upd_f_fget. destruct (fget f a) as [t|] eqn:G.
  - rewrite fget_fset_same by (eapply fget_some_lt; eauto). rewrite fset_fset, IHp. reflexivity.
  - rewrite G. reflexivity.
Qed.

Lemma get_at_upd : forall p n g i sg fc, get_at n p = Some (TN i sg fc) ->
  get_at (upd_t n p g) p = Some (TN (g i) sg fc).
Proof.
  induction p; intros n g i sg fc H; destruct n as [i0 seg f]; cbn [upd_t]; simpl in *.
  - inversion H; subst. reflexivity.
  - rewrite upd_f_fget. destruct (fget f a) as [t|] eqn:G; [|discriminate].
    rewrite fget_fset_same by (eapply fget_some_lt; eauto). apply IHp; auto.
Qed.


Lemma hdr_ins_info : forall fx i f k nid n' p nid', k <> [] -> ins_t fx (TN i [] f) k true nid = (n', p, nid') -> t_info n' = i.
Proof.
  intros. cbn [ins_t] in H0. destruct k; [congruence|]. simpl in H0.
  destruct (ins_f fx f (c2i b) k nid) as [[[f' p0] nid0]|]; inversion H0; reflexivity.
Qed.

Lemma upd_root_info : forall n p g, p <> [] -> t_info (upd_t n p g) = t_info n.
Proof. destruct n, p; simpl; congruence. Qed.

Lemma rel_info : forall p n hdr, match rel_t n p hdr with Some n' => t_info n' = t_info n | None => True end.
Proof.
  destruct p as [|j p]; intros n hdr; destruct n as [i s f]; cbn [rel_t].
  - destruct (releasable i f hdr); auto.
  - destruct (rel_f f j p) as [[f' b]|]; auto. destruct b; auto. destruct (releasable i f' hdr); auto.
Qed.

Record Inv (t : trie) (d : dict) : Prop := {
  inv_wf : all_t wfi (t_root t);
  inv_hdr : t_seg (t_root t) = [];
  inv_hval : n_val (t_info (t_root t)) = None;
  inv_key : forall q, q <> [] -> c_val (obs_t (t_root t) q) <> None -> c_key (obs_t (t_root t) q) = Some q;
  inv_obs : forall q, q <> [] -> c_val (obs_t (t_root t) q) = d_get d q /\
                                 c_rem (obs_t (t_root t) q) = false /\
                                 (c_val (obs_t (t_root t) q) <> None -> c_rc (obs_t (t_root t) q) = 1);
  inv_len : t_len t = Z.of_nat (length d);
  inv_nodup : NoDup (map fst d)
}.

Lemma inv_init : Inv trie_init [].
Proof.
  constructor; simpl; auto.
  - split; [|exact I]. unfold wfi. simpl. auto.
  - intros. destruct q; [congruence|]. simpl in *. congruence.
  - intros. destruct q; [congruence|]. simpl. split; [reflexivity|]. split; [reflexivity|congruence].
  - constructor.
Qed.

(* ---------- put ---------- *)
Lemma put_refines : forall fx t d k v, Inv t d -> kvalid k ->
  Inv (fst (do_put fx t k v)) (d_put d k v).
Proof.
  intros fx t d k v HI [Hne Hnz]. destruct HI as [Hwf Hhdr Hhv Hkey Hobs Hlen Hnd].
  unfold do_put. destruct (ins_t fx (t_root t) k true (t_next t)) as [[r1 p] nid] eqn:I.
  destruct (ins_ok fx _ _ (le_n _) _ _ _ _ _ _ Hwf Hnz I) as [O1 [L1 W1]].
  assert (Hs1 : t_seg r1 = []).
  { destruct (t_root t) as [i0 s0 f0]. simpl in Hhdr. subst s0. eapply hdr_ins; eauto. }
  assert (Hp : p <> []).
  { destruct r1 as [i1 s1 f1]. simpl in Hs1. subst s1. eapply hdr_look; eauto. }
  assert (Hi1 : n_val (t_info r1) = None).
  { destruct (t_root t) as [i0 s0 f0]. simpl in Hhdr. subst s0. rewrite (hdr_ins_info _ _ _ _ _ _ _ _ Hne I). exact Hhv. }
  destruct (upd_ok _ _ (le_n _) _ _ L1) as [tn [G1 [G2 [G3 [G4 G5]]]]].
  rewrite G1. destruct tn as [i sg fc]. simpl in G2.
  destruct (Hobs k Hne) as [Ok1 [Ok3 Ok2]]. rewrite <- O1 in Ok1, Ok2, Ok3. rewrite <- G2 in Ok1, Ok2, Ok3.
  simpl in Ok1, Ok2, Ok3. rewrite Ok3.
  pose proof (all_get_at _ _ _ _ W1 G1) as Wi. simpl in Wi.
  set (g1 := fun i0 : ninfo => set_removed false (set_kv (Some k) (Some v) i0)).
  destruct (n_val i) eqn:V.
  - (* replace *)
    simpl. constructor; simpl.
    + apply G5; auto. simpl. intros [A [B C]]. unfold wfi. simpl. repeat split; auto; congruence.
    + rewrite upd_seg. exact Hs1.
    + rewrite upd_root_info by auto. exact Hi1.
    + intros q Hq. rewrite G4. destruct (list_eq_dec Nat.eq_dec q k) as [e|e].
      * subst q. reflexivity.
      * rewrite O1. apply Hkey; auto.
    + intros q Hq. rewrite G4. simpl. destruct (list_eq_dec Nat.eq_dec q k) as [e|e].
      * subst q. simpl. destruct (key_dec k k); [|congruence]. split; [reflexivity|]. split; [reflexivity|]. intros _. apply Ok2. congruence.
      * rewrite O1. destruct (key_dec k q); [congruence|]. rewrite d_get_rm_other by auto. apply Hobs; auto.
    + symmetry in Ok1. rewrite <- (d_rm_len _ _ _ Ok1) in Hlen. simpl. rewrite Hlen. reflexivity.
    + constructor; [apply d_rm_notin; auto | apply d_rm_nodup; auto].
  - (* insert *)
    destruct Wi as [Wv [Wk Wseg]]. destruct (Wv V) as [Wk0 [Wr0 Wm0]].
    unfold node_ref. destruct p as [|j p']; [congruence|].
    rewrite upd_upd.
    set (g2 := fun i0 : ninfo => set_rc (S (n_rc (g1 i0))) (g1 i0)).
    simpl. constructor; simpl.
    + apply G5; auto. unfold wfi, g2, g1, set_rc, set_removed, set_kv. simpl. intros [A [B C]].
      repeat split; auto; congruence.
    + rewrite upd_seg. exact Hs1.
    + rewrite upd_root_info by discriminate. exact Hi1.
    + intros q Hq. fold g2. rewrite G4. destruct (list_eq_dec Nat.eq_dec q k) as [e|e].
      * subst q. reflexivity.
      * rewrite O1. apply Hkey; auto.
    + intros q Hq. fold g2. rewrite G4. destruct (list_eq_dec Nat.eq_dec q k) as [e|e].
      * subst q. unfold g2, g1, set_rc, set_removed, set_kv, core_of. simpl.
        destruct (key_dec k k); [|congruence]. split; [reflexivity|]. split; [reflexivity|]. intros _. rewrite Wr0. reflexivity.
      * rewrite O1. destruct (key_dec k q); [congruence|]. rewrite d_get_rm_other by auto. apply Hobs; auto.
    + rewrite d_rm_absent by (symmetry; exact Ok1). rewrite Hlen. lia.
    + constructor; [apply d_rm_notin; auto | apply d_rm_nodup; auto].
Qed.

(* ---------- get ---------- *)
Lemma obs_of_lookup : forall r k,
  obs_t r k = match look_t r k true with
              | Some p => match get_at r p with Some n => core_of (t_info n) | None => blank end
              | None => blank
              end.
Proof.
  intros. destruct (look_t r k true) as [p|] eqn:L.
  - destruct (upd_ok _ _ (le_n _) _ _ L) as [tn [G1 [G2 _]]]. rewrite G1, <- G2. reflexivity.
  - rewrite (look_none_obs _ _ (le_n _) _ L). reflexivity.
Qed.

Lemma get_refines : forall t d k, Inv t d -> kvalid k -> do_get t k = d_get d k.
Proof.
  intros t d k HI [Hne _]. destruct (inv_obs _ _ HI k Hne) as [A [B _]]. rewrite <- A.
  rewrite obs_of_lookup in *.
  unfold do_get, lookup. destruct k; [congruence|].
  destruct (look_t (t_root t) (b :: k) true) as [p|]; auto.
  destruct (get_at (t_root t) p) as [n|]; auto. simpl in *. rewrite B. reflexivity.
Qed.

(* ---------- rm (with the node test of the fix; with or without the removed flag) ---------- *)
Lemma rm_refines : forall fx t d k, f_rm fx = true -> Inv t d -> kvalid k ->
  snd (fst (do_rm fx t k)) = (match d_get d k with Some _ => TRIE_QB_TRUE | None => TRIE_QB_FALSE end) /\
  Inv (fst (fst (do_rm fx t k))) (d_rm d k).
Proof.
  intros fx t d k Hfx HI [Hne Hnz]. pose proof HI as HI0. destruct HI as [Hwf Hhdr Hhv Hkey Hobs Hlen Hnd].
  destruct (Hobs k Hne) as [Ok1 [Ok3 Ok2]].
  unfold do_rm, lookup. rewrite Hfx. destruct k as [|b k0] eqn:Ek; [congruence|]. rewrite <- Ek in *. clear Ek b k0.
  destruct (look_t (t_root t) k true) as [p|] eqn:L.
  2:{ rewrite (look_none_obs _ _ (le_n _) _ L) in Ok1. simpl in Ok1. rewrite <- Ok1. simpl.
      split; auto. rewrite d_rm_absent by auto. exact HI0. }
  destruct (upd_ok _ _ (le_n _) _ _ L) as [tn [G1 [G2 [G3 [G4 G5]]]]].
  rewrite G1. destruct tn as [i sg fc]. simpl in G2. rewrite <- G2 in Ok1, Ok2, Ok3. simpl in Ok1, Ok2, Ok3.
  unfold alive. simpl. unfold present_i, alive_i. rewrite Ok3.
  destruct (n_val i) as [v|] eqn:V.
  2:{ simpl. rewrite <- Ok1. split; auto. rewrite d_rm_absent by auto. exact HI0. }
  assert (Hrc : n_rc i = 1) by (apply Ok2; congruence).
  rewrite Hrc. simpl.
  set (g0 := fun i0 : ninfo => if f_removed fx then set_removed true i0 else i0).
  assert (E0 : (if f_removed fx then upd_t (t_root t) p (set_removed true) else t_root t) = upd_t (t_root t) p g0).
  { unfold g0. destruct (f_removed fx); auto.
    clear. generalize (t_root t). induction p; intros n; destruct n as [i seg f]; cbn [upd_t]; auto.
    f_equal. rewrite upd_f_fget. destruct (fget f a) as [t0|] eqn:G; auto.
    rewrite <- IHp. clear IHp. revert a G. induction f; simpl; intros; [discriminate|].
    destruct a; simpl in *; [subst; reflexivity|]. f_equal. apply IHf; auto. }
  rewrite E0. clear E0.
  assert (Hg0 : n_val (g0 i) = Some v /\ n_rc (g0 i) = 1 /\ n_key (g0 i) = n_key i /\ n_nots (g0 i) = n_nots i).
  { unfold g0. destruct (f_removed fx); simpl; auto. }
  destruct Hg0 as [Hg0v [Hg0r [Hg0k Hg0n]]].
  unfold node_deref. rewrite (get_at_upd _ _ g0 _ _ _ G1). unfold alive_i. rewrite Hg0v, Hg0r. simpl.
  rewrite upd_upd.
  unfold node_destroy. rewrite (get_at_upd _ _ _ _ _ _ G1). cbn [set_rc n_val]. rewrite Hg0v.
  rewrite upd_upd.
  set (G := fun i0 : ninfo => set_removed false (set_kv None None (set_rc (n_rc (g0 i0) - 1) (g0 i0)))).
  assert (W2 : all_t wfi (upd_t (t_root t) p G)).
  { apply G5; auto. unfold wfi, G, set_removed, set_kv, set_rc. simpl. intros [A [B C]]. repeat split; auto.
    rewrite Hg0r. reflexivity. }
  pose proof (rel_ok p _ true W2) as R. pose proof (rel_info p (upd_t (t_root t) p G) true) as RI.
  unfold release. fold G.
  destruct (rel_t (upd_t (t_root t) p G) p true) as [r'|].
  2:{ destruct R as [_ X]. discriminate. }
  destruct R as [R1 [R2 R3]].
  rewrite <- Ok1. simpl. split; auto.
  assert (Hp : p <> []).
  { destruct (t_root t) as [i1 s1 f1]. simpl in Hhdr. subst s1. eapply hdr_look; eauto. }
  constructor; simpl.
  - exact R2.
  - rewrite R3, !upd_seg. exact Hhdr.
  - rewrite RI. rewrite upd_root_info by auto. exact Hhv.
  - intros q Hq. rewrite R1. rewrite G4. destruct (list_eq_dec Nat.eq_dec q k) as [e|e].
    + simpl. congruence.
    + apply Hkey; auto.
  - intros q Hq. rewrite R1. rewrite G4. destruct (list_eq_dec Nat.eq_dec q k) as [e|e].
    + subst q. simpl. rewrite d_get_rm_same by auto. split; [reflexivity|]. split; [reflexivity|congruence].
    + rewrite d_get_rm_other by auto. apply Hobs; auto.
  - symmetry in Ok1. rewrite <- (d_rm_len _ _ _ Ok1) in Hlen. rewrite Hlen. lia.
  - apply d_rm_nodup; auto.
Qed.

(* ---------- every history of dictionary operations ---------- *)
Lemma step_refines : forall fx t d o, f_rm fx = true -> Inv t d -> dop_valid o ->
  exists t' evs, step fx t (to_op o) = Ok (t', snd (spec_step d o), evs) /\ Inv t' (fst (spec_step d o)).
Proof.
  intros fx t d o Hfx HI Hv. destruct o as [k v|k|k|]; simpl in *.
  - pose proof (put_refines fx t d k v HI Hv) as P. destruct (do_put fx t k v) as [t' evs]. simpl in P. eauto.
  - rewrite (get_refines t d k HI Hv). eauto.
  - destruct (rm_refines fx t d k Hfx HI Hv) as [A B]. destruct (do_rm fx t k) as [[t' z] evs]. simpl in *. subst z. eauto.
  - unfold do_count. rewrite (inv_len _ _ HI). eauto.
Qed.

Lemma run_refines : forall fx ops t d, f_rm fx = true -> Inv t d -> Forall dop_valid ops ->
  exists outs t', run fx t (map to_op ops) = (outs, Ok t') /\ map fst outs = fst (spec_run d ops) /\
                  Inv t' (snd (spec_run d ops)).
Proof.
  intros fx. induction ops as [|o ops]; intros t d Hfx HI Hv; simpl.
  - exists [], t. auto.
  - inversion Hv; subst. destruct (step_refines fx t d o Hfx HI H1) as [t' [evs [S I']]]. rewrite S.
    destruct (spec_step d o) as [d' r]. simpl in *.
    destruct (IHops t' d' Hfx I' H2) as [outs [t'' [R [M I'']]]]. rewrite R.
    destruct (spec_run d' ops) as [souts fin]. simpl in *.
    exists ((r, evs) :: outs), t''. simpl. rewrite M. auto.
Qed.

(* C17 (trie, dictionary part): for every history of put / get / rm / count with C-string keys, the trie with the
   trie_rm repair (and with or without the later repairs) never reaches an error state and answers exactly what the
   dictionary answers *)
Theorem trie_refines_dict : forall fx ops, f_rm fx = true -> Forall dop_valid ops ->
  exists outs t', run fx trie_init (map to_op ops) = (outs, Ok t') /\ map fst outs = fst (spec_run [] ops).
Proof.
  intros fx ops Hfx Hv. destruct (run_refines fx ops trie_init [] Hfx inv_init Hv) as [outs [t' [R [M _]]]]. eauto.
Qed.
