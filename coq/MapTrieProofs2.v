(* C17 trie part: the trie model refines the dictionary specification for every history of
   put / get / rm / count (no open iterators). *)
From Coq Require Import List ZArith Bool Arith Lia.
Import ListNotations.
Require Import Verif.gen.Consts_trie Verif.MapTrieModel Verif.MapTrieSpec Verif.MapTrieProofs.

Definition c_key (c : core) := match c with (k, _, _, _) => k end.
Definition c_val (c : core) := match c with (_, v, _, _) => v end.
Definition c_rc (c : core) := match c with (_, _, r, _) => r end.
Definition c_nots (c : core) := match c with (_, _, _, n) => n end.

Lemma look_none_obs : forall sz n, size_t n <= sz -> forall k, look_t n k true = None -> obs_t n k = blank.
Proof.
  induction sz; intros n Hsz k H.
  { destruct n; simpl in Hsz; lia. }
  destruct n as [i seg f]. cbn [look_t] in H. cbn [obs_t].
  destruct (strip seg k 0) eqn:S; auto.
  - destruct (sc <? length seg); auto. simpl in H. discriminate.
  - rewrite look_f_fget in H. rewrite obs_f_fget. destruct (fget f (c2i c)) as [t|] eqn:G; auto.
    apply IHsz.
    + apply size_fget in G. simpl in Hsz. lia.
    + destruct (look_t t k' true); auto. discriminate.
Qed.

Lemma all_get_at : forall P p n t, all_t P n -> get_at n p = Some t -> P (t_info t) (t_seg t).
Proof.
  induction p; intros n t H G; simpl in G.
  - inversion G; subst. destruct t. simpl in *. tauto.
  - destruct n as [i seg f]. simpl in G. destruct (fget f a) as [c|] eqn:F; [|discriminate].
    destruct H as [_ Hf]. eapply IHp; eauto. eapply all_f_fget; eauto.
Qed.

Lemma upd_seg : forall n p g, t_seg (upd_t n p g) = t_seg n.
Proof. destruct n, p; reflexivity. Qed.

Lemma hdr_look : forall i f k p, k <> [] -> look_t (TN i [] f) k true = Some p -> p <> [].
Proof.
  intros. cbn [look_t] in H0. destruct k; [congruence|]. simpl in H0.
  destruct (look_f f (c2i b) k true); inversion H0. discriminate.
Qed.

Lemma hdr_ins : forall i f k nid n' p nid', k <> [] -> ins_t (TN i [] f) k true nid = (n', p, nid') -> t_seg n' = [].
Proof.
  intros. cbn [ins_t] in H0. destruct k; [congruence|]. simpl in H0.
  destruct (ins_f f (c2i b) k nid) as [[[f' p0] nid0]|]; inversion H0; reflexivity.
Qed.

Record Inv (t : trie) (d : dict) : Prop := {
  inv_wf : all_t wfi (t_root t);
  inv_hdr : t_seg (t_root t) = [];
  inv_obs : forall q, q <> [] -> c_val (obs_t (t_root t) q) = d_get d q /\
                                 (c_val (obs_t (t_root t) q) <> None -> c_rc (obs_t (t_root t) q) = 1);
  inv_len : t_len t = Z.of_nat (length d);
  inv_nodup : NoDup (map fst d)
}.

Lemma inv_init : Inv trie_init [].
Proof.
  constructor; simpl; auto.
  - split; [|exact I]. unfold wfi. simpl. auto.
  - intros. destruct q; [congruence|]. simpl. split; [reflexivity|congruence].
  - constructor.
Qed.

Lemma core_eta : forall c, c = (c_key c, c_val c, c_rc c, c_nots c).
Proof. intros [[[a b] c] d]. reflexivity. Qed.

(* ---------- put ---------- *)
Lemma put_refines : forall t d k v, Inv t d -> kvalid k ->
  Inv (fst (do_put t k v)) (d_put d k v).
Proof.
  intros t d k v HI [Hne Hnz]. destruct HI as [Hwf Hhdr Hobs Hlen Hnd].
  unfold do_put. destruct (ins_t (t_root t) k true (t_next t)) as [[r1 p] nid] eqn:I.
  destruct (ins_ok _ _ (le_n _) _ _ _ _ _ _ Hwf Hnz I) as [O1 [L1 W1]].
  assert (Hs1 : t_seg r1 = []).
  { destruct (t_root t) as [i0 s0 f0]. simpl in Hhdr. subst s0. eapply hdr_ins; eauto. }
  assert (Hp : p <> []).
  { destruct r1 as [i1 s1 f1]. simpl in Hs1. subst s1. eapply hdr_look; eauto. }
  destruct (upd_ok _ _ (le_n _) _ _ L1) as [tn [G1 [G2 [G3 [G4 G5]]]]].
  rewrite G1. destruct tn as [i sg fc]. simpl in G2.
  destruct (Hobs k Hne) as [Ok1 Ok2]. rewrite <- O1 in Ok1, Ok2. rewrite <- G2 in Ok1, Ok2. simpl in Ok1, Ok2.
  pose proof (all_get_at _ _ _ _ W1 G1) as Wi. simpl in Wi.
  set (g1 := fun i0 : ninfo => {| n_id := n_id i0; n_key := Some k; n_val := Some v; n_rc := n_rc i0; n_nots := n_nots i0 |}).
  assert (W2 : all_t wfi (upd_t r1 p g1)).
  { apply G5; auto. simpl. intros [A [B C]]. unfold wfi. simpl. repeat split; auto; congruence. }
  destruct (n_val i) eqn:V.
  - (* replace *)
    simpl. constructor; simpl.
    + exact W2.
    + rewrite upd_seg. exact Hs1.
    + intros q Hq. rewrite G4. simpl. destruct (list_eq_dec Nat.eq_dec q k) as [e|e].
      * subst q. simpl. destruct (key_dec k k); [|congruence]. split; auto. intros _. apply Ok2. congruence.
      * rewrite O1. destruct (key_dec k q); [congruence|]. rewrite d_get_rm_other by auto. apply Hobs; auto.
    + symmetry in Ok1. rewrite <- (d_rm_len _ _ _ Ok1) in Hlen. simpl. rewrite Hlen. reflexivity.
    + constructor; [apply d_rm_notin; auto | apply d_rm_nodup; auto].
  - (* insert *)
    destruct Wi as [Wv [Wk Wseg]]. destruct (Wv V) as [Wk0 Wr0].
    unfold node_ref. destruct p as [|j p']; [congruence|].
    assert (L2 : look_t (upd_t r1 (j :: p') g1) k true = Some (j :: p')) by (rewrite G3; exact L1).
    destruct (upd_ok _ _ (le_n _) _ _ L2) as [tn2 [H1 [H2 [H3 [H4 H5]]]]].
    rewrite G4 in H2. destruct (list_eq_dec Nat.eq_dec k k) as [_|x]; [|congruence]. simpl in H2.
    set (g2 := fun i0 : ninfo => set_rc (S (n_rc i0)) i0).
    simpl. constructor; simpl.
    + apply H5; auto. unfold wfi, g2, set_rc. simpl. intros [A [B C]]. 
      unfold core_of in H2. inversion H2. repeat split; auto; try congruence.
    + rewrite !upd_seg. exact Hs1.
    + intros q Hq. fold g2. rewrite H4. destruct (list_eq_dec Nat.eq_dec q k) as [e|e].
      * subst q. unfold core_of in H2. inversion H2. unfold g2, set_rc, core_of. simpl.
        destruct (key_dec k k); [|congruence]. rewrite H6. split; auto. intros _. rewrite H7, Wr0. reflexivity.
      * rewrite G4. destruct (list_eq_dec Nat.eq_dec q k); [congruence|].
        rewrite O1. destruct (key_dec k q); [congruence|]. rewrite d_get_rm_other by auto. apply Hobs; auto.
    + rewrite d_rm_absent by (symmetry; exact Ok1). rewrite Hlen. lia.
    + constructor; [apply d_rm_notin; auto | apply d_rm_nodup; auto].
Qed.

(* ---------- get ---------- *)
Lemma obs_of_lookup : forall r k, 
  c_val (obs_t r k) = match look_t r k true with
                      | Some p => match get_at r p with Some n => n_val (t_info n) | None => None end
                      | None => None
                      end.
Proof.
  intros. destruct (look_t r k true) as [p|] eqn:L.
  - destruct (upd_ok _ _ (le_n _) _ _ L) as [tn [G1 [G2 _]]]. rewrite G1, <- G2. reflexivity.
  - rewrite (look_none_obs _ _ (le_n _) _ L). reflexivity.
Qed.

Lemma get_refines : forall t d k, Inv t d -> kvalid k -> do_get t k = d_get d k.
Proof.
  intros t d k HI [Hne _]. destruct (inv_obs _ _ HI k Hne) as [A _]. rewrite <- A.
  unfold do_get, lookup. destruct k; [congruence|]. symmetry. apply obs_of_lookup.
Qed.

(* ---------- rm (with the trie_node_alive test of the fix) ---------- *)
Lemma rm_refines : forall t d k, Inv t d -> kvalid k ->
  snd (fst (do_rm true t k)) = (match d_get d k with Some _ => TRIE_QB_TRUE | None => TRIE_QB_FALSE end) /\
  Inv (fst (fst (do_rm true t k))) (d_rm d k).
Proof.
  intros t d k HI [Hne Hnz]. pose proof HI as HI0. destruct HI as [Hwf Hhdr Hobs Hlen Hnd].
  destruct (Hobs k Hne) as [Ok1 Ok2].
  unfold do_rm, lookup. destruct k as [|b k0] eqn:Ek; [congruence|]. rewrite <- Ek in *. clear Ek b k0.
  destruct (look_t (t_root t) k true) as [p|] eqn:L.
  2:{ rewrite (look_none_obs _ _ (le_n _) _ L) in Ok1. simpl in Ok1. rewrite <- Ok1. simpl.
      split; auto. rewrite d_rm_absent by auto. exact HI0. }
  destruct (upd_ok _ _ (le_n _) _ _ L) as [tn [G1 [G2 [G3 [G4 G5]]]]].
  rewrite G1. destruct tn as [i sg fc]. simpl in G2. rewrite <- G2 in Ok1, Ok2. simpl in Ok1, Ok2.
  unfold alive. simpl. unfold alive_i.
  destruct (n_val i) as [v|] eqn:V.
  2:{ simpl. rewrite <- Ok1. split; auto. rewrite d_rm_absent by auto. exact HI0. }
  assert (Hrc : n_rc i = 1) by (apply Ok2; congruence).
  rewrite Hrc. simpl.
  unfold node_deref. rewrite G1. unfold alive_i. rewrite V, Hrc. simpl.
  set (g1 := fun i0 : ninfo => set_rc (n_rc i0 - 1) i0).
  assert (L2 : look_t (upd_t (t_root t) p g1) k true = Some p) by (rewrite G3; exact L).
  destruct (upd_ok _ _ (le_n _) _ _ L2) as [tn2 [H1 [H2 [H3 [H4 H5]]]]].
  rewrite G4 in H2. destruct (list_eq_dec Nat.eq_dec k k) as [_|x]; [|congruence]. simpl in H2.
  unfold node_destroy. rewrite H1. destruct tn2 as [i2 sg2 fc2]. simpl in H2.
  unfold core_of, g1, set_rc in H2. simpl in H2. inversion H2 as [[E1 E2 E3 E4]].
  rewrite E2, V.
  set (g2 := fun i0 : ninfo => {| n_id := n_id i0; n_key := None; n_val := None; n_rc := n_rc i0; n_nots := n_nots i0 |}).
  assert (W1 : all_t wfi (upd_t (t_root t) p g1)).
  { apply G5; auto. unfold wfi, g1, set_rc. simpl. intros [A [B C]]. repeat split; auto; congruence. }
  assert (W2 : all_t wfi (upd_t (upd_t (t_root t) p g1) p g2)).
  { apply H5; auto. unfold wfi, g2. simpl. intros [A [B C]]. repeat split; auto. rewrite E3, Hrc. reflexivity. }
  pose proof (rel_ok p _ true W2) as R. unfold release.
  destruct (rel_t (upd_t (upd_t (t_root t) p g1) p g2) p true) as [r'|].
  2:{ destruct R as [_ X]. discriminate. }
  destruct R as [R1 [R2 R3]].
  rewrite <- Ok1. simpl. split; auto.
  constructor; simpl.
  - exact R2.
  - rewrite R3, !upd_seg. exact Hhdr.
  - intros q Hq. rewrite R1. rewrite H4. destruct (list_eq_dec Nat.eq_dec q k) as [e|e].
    + subst q. simpl. rewrite d_get_rm_same by auto. split; [reflexivity|congruence].
    + rewrite G4. destruct (list_eq_dec Nat.eq_dec q k); [congruence|].
      rewrite d_get_rm_other by auto. apply Hobs; auto.
  - symmetry in Ok1. rewrite <- (d_rm_len _ _ _ Ok1) in Hlen. rewrite Hlen. lia.
  - apply d_rm_nodup; auto.
Qed.

(* ---------- every history of dictionary operations ---------- *)
Lemma step_refines : forall t d o, Inv t d -> dop_valid o ->
  exists t' evs, step true t (to_op o) = Ok (t', snd (spec_step d o), evs) /\ Inv t' (fst (spec_step d o)).
Proof.
  intros t d o HI Hv. destruct o as [k v|k|k|]; simpl in *.
  - pose proof (put_refines t d k v HI Hv) as P. destruct (do_put t k v) as [t' evs]. simpl in P. eauto.
  - rewrite (get_refines t d k HI Hv). eauto.
  - destruct (rm_refines t d k HI Hv) as [A B]. destruct (do_rm true t k) as [[t' z] evs]. simpl in *. subst z. eauto.
  - unfold do_count. rewrite (inv_len _ _ HI). eauto.
Qed.

Lemma run_refines : forall ops t d, Inv t d -> Forall dop_valid ops ->
  exists outs t', run true t (map to_op ops) = (outs, Ok t') /\ map fst outs = fst (spec_run d ops) /\
                  Inv t' (snd (spec_run d ops)).
Proof.
  induction ops as [|o ops]; intros t d HI Hv; simpl.
  - exists [], t. auto.
  - inversion Hv; subst. destruct (step_refines t d o HI H1) as [t' [evs [S I']]]. rewrite S.
    destruct (spec_step d o) as [d' r]. simpl in *.
    destruct (IHops t' d' I' H2) as [outs [t'' [R [M I'']]]]. rewrite R.
    destruct (spec_run d' ops) as [souts fin]. simpl in *.
    exists ((r, evs) :: outs), t''. simpl. rewrite M. auto.
Qed.

(* C17 (trie, dictionary part): for every history of put / get / rm / count with C-string keys, the repaired
   trie never reaches an error state and answers exactly what the dictionary answers *)
Theorem trie_refines_dict : forall ops, Forall dop_valid ops ->
  exists outs t', run true trie_init (map to_op ops) = (outs, Ok t') /\ map fst outs = fst (spec_run [] ops).
Proof.
  intros ops Hv. destruct (run_refines ops trie_init [] inv_init Hv) as [outs [t' [R [M _]]]]. eauto.
Qed.
