(* MapHashProofs6 - C18 for the pointer-level hashtable model (repaired variant), the coverage clauses:
   "every key that is present for the whole duration of an iteration is returned by it - exactly once if only
   removals happened meanwhile".
   Per open iterator a ghost record is kept next to the run (exactly what the Python monitor of vlib/maphs.py keeps):
   stable = keys present since the iterator was created and never removed since, seen = keys it returned,
   ins = some key was inserted since its creation.  The theorem: at every iter_next that returns a key, if ins is
   false the key was not seen before; at the iter_next that reports the end, every stable key has been seen.
   Invariant per iterator, over its remaining sequence Rl (the rest of its bucket after the node it is parked on,
   then the following buckets): every live node with a stable key is still in Rl or its key is seen; without
   insertions no live node of Rl has a seen key; stable keys are keys of live nodes. *)
From Coq Require Import List NArith ZArith Bool Arith Lia Permutation.
Require Import Verif.MapSpec Verif.MapHashModel Verif.MapRefModel Verif.MapRefProofs Verif.MapHashProofs2
  Verif.MapHashProofs3 Verif.MapHashProofs4 Verif.MapHashProofs5.
Import ListNotations.

Definition Rl (s : hstate) (hi : hiter) : list nat :=
  if Nat.ltb (hi_bucket hi) (nb s) then cands_hi s hi ++ concat (skipn (S (hi_bucket hi)) (h_buckets s)) else [].
Definition lkeys (s : hstate) : list key := map (key_of (h_heap s)) (live_ids s).

Record cov := { c_stable : list key; c_seen : list key; c_ins : bool }.
Definition key_in (k : key) (l : list key) : bool := existsb (key_eqb k) l.
Definition key_remove (k : key) (l : list key) : list key := filter (fun x => negb (key_eqb k x)) l.

Lemma key_in_iff : forall k l, key_in k l = true <-> In k l.
Proof.
  unfold key_in. intros. rewrite existsb_exists. split.
  - intros [x [H1 H2]]. apply key_eqb_eq in H2. subst. auto.
  - intros. exists k. split; auto. apply key_eqb_refl.
Qed.
Lemma key_remove_in : forall k l x, In x (key_remove k l) <-> In x l /\ x <> k.
Proof.
  unfold key_remove. intros. rewrite filter_In. rewrite negb_true_iff. split; intros [A B]; split; auto.
  - intro; subst. rewrite key_eqb_refl in B. discriminate.
  - apply key_eqb_neq. auto.
Qed.

Record CovOne (s : hstate) (hi : hiter) (c : cov) : Prop := {
  v_cover : forall x, In x (live_ids s) -> In (key_of (h_heap s) x) (c_stable c) ->
                      In x (Rl s hi) \/ In (key_of (h_heap s) x) (c_seen c);
  v_once : c_ins c = false -> forall x, In x (Rl s hi) -> is_live_id (h_heap s) x = true -> ~ In (key_of (h_heap s) x) (c_seen c);
  v_stable : forall k, In k (c_stable c) -> In k (lkeys s)
}.

(* ---------- the primitive state changes ---------- *)
(* P1: same buckets, same keys and liveness of the linked nodes *)
Lemma cov_same_view : forall s h' hi c, same_view s h' -> CovOne s hi c -> CovOne (set_heap s h') hi c.
Proof.
  intros s h' hi c V [A B C].
  assert (LV : live_ids (set_heap s h') = live_ids s) by (apply (live_ids_same_view s h' V)).
  assert (KO : forall x, In x (linked s) -> key_of h' x = key_of (h_heap s) x) by (intros; apply V; auto).
  assert (LO : forall x, In x (linked s) -> is_live_id h' x = is_live_id (h_heap s) x) by (intros; apply V; auto).
  assert (LL : forall x, In x (live_ids s) -> In x (linked s)) by (intros x Hx; unfold live_ids in Hx; apply filter_In in Hx; apply Hx).
  assert (RL : forall x, In x (Rl s hi) -> In x (linked s)).
  { unfold Rl. intros x Hx. destruct (Nat.ltb (hi_bucket hi) (nb s)); [|contradiction]. apply in_app_or in Hx. destruct Hx as [Hx|Hx].
    - unfold cands_hi in Hx. destruct (hi_node hi); [apply after_id_incl in Hx|]; eapply in_bucket_linked; eauto.
    - apply in_concat_skipn in Hx. destruct Hx as [b' [_ Hx]]. eapply in_bucket_linked; eauto. }
  constructor.
  - intros x Hx. rewrite LV in Hx. simpl. rewrite (KO x (LL x Hx)). apply A; auto.
  - intros I x Hx L. change (Rl (set_heap s h') hi) with (Rl s hi) in Hx. simpl in *. rewrite (KO x (RL x Hx)). rewrite (LO x (RL x Hx)) in L. apply B; auto.
  - intros k Hk. unfold lkeys. rewrite LV. simpl. erewrite map_ext_in. apply C; auto. intros x Hx. apply KO. apply LL. auto.
Qed.

Lemma cov_count : forall s c0 hi c, CovOne s hi c -> CovOne (set_count s c0) hi c.
Proof. intros s c0 hi c [A B C]. constructor; auto. Qed.

Lemma rl_linked : forall s hi x, In x (Rl s hi) -> In x (linked s).
Proof.
  unfold Rl. intros s hi x Hx. destruct (Nat.ltb (hi_bucket hi) (nb s)); [|contradiction]. apply in_app_or in Hx. destruct Hx as [Hx|Hx].
  - unfold cands_hi in Hx. destruct (hi_node hi); [apply after_id_incl in Hx|]; eapply in_bucket_linked; eauto.
  - apply in_concat_skipn in Hx. destruct Hx as [b' [_ Hx]]. eapply in_bucket_linked; eauto.
Qed.

Lemma live_linked : forall s x, In x (live_ids s) -> In x (linked s) /\ is_live_id (h_heap s) x = true.
Proof. intros. unfold live_ids in H. apply filter_In in H. auto. Qed.

Section Cov.
Variable hf : key -> N.

(* P2: qb_map_rm marks a live node as removed; its key leaves the stable sets *)
Lemma cov_mark : forall s hi c id n, GoodQ hf s -> In id (linked s) -> deref (h_heap s) id = Ok n -> hn_removed n = false ->
  CovOne s hi c ->
  CovOne (set_heap s (store (h_heap s) id {| hn_key := hn_key n; hn_val := hn_val n; hn_ref := hn_ref n; hn_removed := true; hn_subs := hn_subs n |}))
         hi {| c_stable := key_remove (hn_key n) (c_stable c); c_seen := c_seen c; c_ins := c_ins c |}.
Proof.
  intros s hi c id n Q Hin Hd Hr [A B C].
  set (n1 := {| hn_key := hn_key n; hn_val := hn_val n; hn_ref := hn_ref n; hn_removed := true; hn_subs := hn_subs n |}).
  set (h1 := store (h_heap s) id n1).
  assert (Hlt : id < length (h_heap s)) by (eapply deref_lt; eauto).
  assert (EN : forall y, y <> id -> ent h1 y = ent (h_heap s) y).
  { intros. unfold h1. rewrite ent_store by auto. replace (Nat.eqb id y) with false; auto. symmetry. apply Nat.eqb_neq. auto. }
  assert (EI : ent h1 id = mk_ent id n1) by (unfold h1; rewrite ent_store by auto; rewrite Nat.eqb_refl; auto).
  assert (KO : forall y, key_of h1 y = key_of (h_heap s) y).
  { intros. unfold key_of. destruct (Nat.eq_dec y id). subst. rewrite EI, (deref_ent _ _ _ Hd). reflexivity. rewrite EN; auto. }
  assert (LI : forall y, is_live_id h1 y = if Nat.eqb y id then false else is_live_id (h_heap s) y).
  { intros. unfold is_live_id. destruct (Nat.eqb y id) eqn:E. apply Nat.eqb_eq in E. subst. rewrite EI. reflexivity.
    apply Nat.eqb_neq in E. rewrite EN; auto. }
  assert (LV : forall y, In y (live_ids (set_heap s h1)) <-> In y (live_ids s) /\ y <> id).
  { intros. unfold live_ids. simpl. change (linked (set_heap s h1)) with (linked s). rewrite !filter_In, LI.
    destruct (Nat.eqb y id) eqn:E. apply Nat.eqb_eq in E. subst. split. intros [_ Q1]. discriminate. intros [_ Q1]. contradiction.
    apply Nat.eqb_neq in E. tauto. }
  assert (KID : key_of (h_heap s) id = hn_key n) by (apply key_of_deref; auto).
  constructor; simpl.
  - intros x Hx Hk. apply LV in Hx. destruct Hx as [Hx1 Hx2]. rewrite KO in *. apply key_remove_in in Hk. destruct Hk as [Hk _].
    change (Rl (set_heap s h1) hi) with (Rl s hi). apply A; auto.
  - intros I x Hx L. change (Rl (set_heap s h1) hi) with (Rl s hi) in Hx. rewrite KO. rewrite LI in L.
    destruct (Nat.eqb x id); [discriminate|]. apply B; auto.
  - intros k Hk. apply key_remove_in in Hk. destruct Hk as [Hk1 Hk2]. apply C in Hk1. unfold lkeys in *. apply in_map_iff in Hk1.
    destruct Hk1 as [x [X1 X2]]. apply in_map_iff. exists x. simpl. rewrite KO. split; auto. apply LV. split; auto.
    intro; subst x. rewrite KID in X1. congruence.
Qed.

Lemma remove_id_app : forall y a b, remove_id y (a ++ b) = remove_id y a ++ remove_id y b.
Proof. intros. unfold remove_id. apply filter_app. Qed.

(* the remaining sequence after a removed node was unlinked *)
Lemma rl_unlink : forall s h' y hi, hi_node hi <> Some y ->
  Rl (set_heap (set_buckets s (map (remove_id y) (h_buckets s))) h') hi = remove_id y (Rl s hi).
Proof.
  intros. unfold Rl, nb, cands_hi, bucket. cbn [h_buckets set_heap set_buckets]. rewrite map_length.
  destruct (Nat.ltb (hi_bucket hi) (length (h_buckets s))); auto.
  rewrite nth_map_remove, skipn_map'. rewrite remove_id_app. f_equal.
  - destruct (hi_node hi) as [cur|] eqn:E; auto. apply after_id_remove. intro; subst. congruence.
  - unfold remove_id. rewrite concat_filter. reflexivity.
Qed.

(* P3: a removed node that nobody is parked on is unlinked and freed *)
Lemma cov_unlink : forall s h' y hi c, In y (linked s) -> is_live_id (h_heap s) y = false -> hi_node hi <> Some y ->
  (forall x, x <> y -> nth_error h' x = nth_error (h_heap s) x) ->
  CovOne s hi c -> CovOne (set_heap (set_buckets s (map (remove_id y) (h_buckets s))) h') hi c.
Proof.
  intros s h' y hi c Hin Hl Hn AG [A B C].
  set (s' := set_heap (set_buckets s (map (remove_id y) (h_buckets s))) h').
  assert (EN : forall x, x <> y -> ent h' x = ent (h_heap s) x) by (intros; unfold ent; rewrite AG; auto).
  assert (LK : forall x, In x (linked s') <-> In x (linked s) /\ x <> y).
  { intros. unfold s', linked. simpl. unfold remove_id. rewrite concat_filter, filter_In, negb_true_iff, Nat.eqb_neq. tauto. }
  assert (LV : forall x, In x (live_ids s') <-> In x (live_ids s)).
  { intros. unfold live_ids. rewrite !filter_In, LK. simpl. split.
    - intros [[X1 X2] X3]. unfold is_live_id in *. rewrite EN in X3; auto.
    - intros [X1 X2]. assert (x <> y) by (intro; subst; congruence). unfold is_live_id in *. rewrite EN; auto. }
  assert (NY : forall x, In x (live_ids s) -> x <> y). { intros x Hx Q. subst. apply live_linked in Hx. destruct Hx. congruence. }
  assert (RL : Rl s' hi = remove_id y (Rl s hi)) by (apply rl_unlink; auto).
  constructor.
  - intros x Hx Hk. apply LV in Hx. assert (x <> y) by (apply NY; auto). simpl in *. unfold key_of in *. rewrite EN in * by auto.
    destruct (A x Hx Hk) as [Q|Q]; auto. left. rewrite RL. unfold remove_id. apply filter_In. split; auto. apply negb_true_iff. apply Nat.eqb_neq. auto.
  - intros I x Hx L. rewrite RL in Hx. unfold remove_id in Hx. apply filter_In in Hx. destruct Hx as [X1 X2]. apply negb_true_iff in X2. apply Nat.eqb_neq in X2.
    simpl in *. unfold key_of, is_live_id in *. rewrite EN in * by auto. apply B; auto.
  - intros k Hk. apply C in Hk. unfold lkeys in *. apply in_map_iff in Hk. destruct Hk as [x [X1 X2]]. apply in_map_iff. exists x.
    split. simpl. unfold key_of in *. rewrite EN; auto. apply LV. auto.
Qed.

(* P4: a new node is linked at the tail of bucket b *)
Lemma after_id_app_incl : forall l l' cur x, In x (after_id cur l) -> In x (after_id cur (l ++ l')).
Proof. induction l; simpl; intros. contradiction. destruct (Nat.eqb a cur). apply in_or_app; auto. auto. Qed.

Lemma in_concat_skipn_conv : forall (ls : list (list nat)) n b' x, n <= b' -> In x (nth b' ls []) -> In x (concat (skipn n ls)).
Proof.
  induction ls; intros. destruct b'; contradiction.
  destruct n; simpl.
  - change (In x (concat (a :: ls))). apply in_concat_nth. exists b'. auto.
  - destruct b'. exfalso; lia. simpl in H0. apply (IHls n b' x); auto. lia.
Qed.

Lemma rl_link_mono : forall s h' c0 b id hi x, b < nb s -> In x (Rl s hi) ->
  In x (Rl (set_buckets (set_count (set_heap s h') c0) (upd (h_buckets s) b (nth b (h_buckets s) [] ++ [id]))) hi).
Proof.
  intros s h' c0 b id hi x Hb. unfold Rl, nb, cands_hi, bucket. cbn [h_buckets set_heap set_buckets set_count]. rewrite upd_length.
  destruct (Nat.ltb (hi_bucket hi) (length (h_buckets s))); auto. intro Hx. apply in_app_or in Hx. apply in_or_app. destruct Hx as [Hx|Hx].
  - left. rewrite nth_upd. destruct (Nat.eqb b (hi_bucket hi) && Nat.ltb b (length (h_buckets s))) eqn:E.
    + apply andb_true_iff in E. destruct E as [E _]. apply Nat.eqb_eq in E. subst b.
      destruct (hi_node hi). apply after_id_app_incl; auto. apply in_or_app; auto.
    + auto.
  - right. apply in_concat_skipn in Hx. destruct Hx as [b' [B1 B2]]. apply (in_concat_skipn_conv _ _ b'); auto.
    rewrite nth_upd. destruct (Nat.eqb b b' && Nat.ltb b (length (h_buckets s))) eqn:E; auto.
    apply andb_true_iff in E. destruct E as [E _]. apply Nat.eqb_eq in E. subst b'. apply in_or_app; auto.
Qed.

Lemma cov_link : forall s P c0 b k x hi c, GoodP s P -> b < nb s -> ~ In k (lkeys s) -> CovOne s hi c ->
  let id := length (h_heap s) in
  let n := {| hn_key := k; hn_val := x; hn_ref := 1; hn_removed := false; hn_subs := [] |} in
  CovOne (set_buckets (set_count (set_heap s (h_heap s ++ [{| c_live := true; c_node := n |}])) c0)
                      (upd (h_buckets s) b (nth b (h_buckets s) [] ++ [id])))
         hi {| c_stable := c_stable c; c_seen := c_seen c; c_ins := true |}.
Proof.
  intros s P c0 b k x hi c G Hb NK [A B C] id n.
  set (h' := h_heap s ++ [{| c_live := true; c_node := n |}]).
  set (s' := set_buckets (set_count (set_heap s h') c0) (upd (h_buckets s) b (nth b (h_buckets s) [] ++ [id]))).
  assert (FR : forall y, In y (linked s) -> y < id).
  { intros y Hy. destruct (p_node _ _ G y Hy) as [m [M1 _]]. eapply deref_lt; eauto. }
  assert (EN : forall y, In y (linked s) -> ent h' y = ent (h_heap s) y) by (intros; apply ent_app; apply FR; auto).
  assert (EI : ent h' id = mk_ent id n) by apply ent_app_new.
  assert (LK : forall y, In y (linked s') <-> y = id \/ In y (linked s)).
  { intros. unfold s', linked. simpl. rewrite linked_put_new by exact Hb. fold id. unfold linked. rewrite (concat_split (h_buckets s) b) by exact Hb.
    rewrite ?in_app_iff. simpl. rewrite ?in_app_iff. intuition congruence. }
  assert (LV : forall y, In y (live_ids s') <-> y = id \/ In y (live_ids s)).
  { intros. unfold live_ids. rewrite !filter_In, LK. simpl. split.
    - intros [[Q|Q] L]; auto. right. split; auto. unfold is_live_id in *. rewrite EN in L; auto.
    - intros [Q|[Q L]]. subst. split; auto. unfold is_live_id. fold h'. rewrite EI. reflexivity.
      split; auto. unfold is_live_id in *. fold h'. rewrite EN; auto. }
  constructor; simpl.
  - intros y Hy Hk. apply LV in Hy. destruct Hy as [Hy|Hy].
    + subst y. unfold key_of in Hk. fold h' in Hk. rewrite EI in Hk. simpl in Hk. exfalso. apply NK. apply C. auto.
    + assert (YL : In y (linked s)) by (apply live_linked in Hy; apply Hy).
      unfold key_of in *. fold h' in Hk. fold h'. rewrite EN in * by auto. destruct (A y Hy Hk) as [Q|Q]; auto. left. apply rl_link_mono; auto.
  - intro; discriminate.
  - intros k0 Hk. apply C in Hk. unfold lkeys in *. apply in_map_iff in Hk. destruct Hk as [y [Y1 Y2]]. apply in_map_iff. exists y.
    split. simpl. unfold key_of in *. fold h'. rewrite EN; auto. apply live_linked in Y2. apply Y2. apply LV. auto.
Qed.

(* ---------- what hashtable_iter_next finds: the first live node of the remaining sequence ---------- *)
Lemma scan_find : forall h l, all_live h l -> scan v_fixed h l = Ok (find (is_live_id h) l).
Proof.
  induction l; simpl; intros; auto. destruct (H a) as [n N]. left; auto. rewrite N. simpl.
  unfold eligible. simpl. rewrite (is_live_deref _ _ _ N). destruct (negb (hn_removed n)); auto. apply IHl. intros x Hx. apply H. right; auto.
Qed.

Lemma scan_buckets_find : forall h rest b cands, all_live h (cands ++ concat rest) ->
  exists r, scan_buckets v_fixed h b cands rest = Ok r /\ option_map fst r = find (is_live_id h) (cands ++ concat rest).
Proof.
  induction rest; simpl; intros b cands H.
  - rewrite scan_find by (intros x Hx; apply H; apply in_or_app; auto). simpl. rewrite app_nil_r.
    destruct (find (is_live_id h) cands); eexists; split; reflexivity.
  - rewrite scan_find by (intros x Hx; apply H; apply in_or_app; auto). simpl. rewrite find_app.
    destruct (find (is_live_id h) cands).
    + eexists; split; reflexivity.
    + apply IHrest. intros x Hx. apply H. apply in_or_app; auto.
Qed.

Lemma after_id_app_in : forall l1 l2 x, In x l1 -> after_id x (l1 ++ l2) = after_id x l1 ++ l2.
Proof. induction l1; simpl; intros. contradiction. destruct (Nat.eqb a x) eqn:E; auto. destruct H. subst. rewrite Nat.eqb_refl in E. discriminate. auto. Qed.
Lemma after_id_app_notin : forall l1 l2 x, ~ In x l1 -> after_id x (l1 ++ l2) = after_id x l2.
Proof.
  induction l1; simpl; intros; auto. destruct (Nat.eqb a x) eqn:E. apply Nat.eqb_eq in E. subst. exfalso. apply H. left; auto.
  apply IHl1. intro. apply H. right; auto.
Qed.

Lemma find_split : forall {A} (p : A -> bool) l x, find p l = Some x -> exists l1 l2, l = l1 ++ x :: l2 /\ (forall y, In y l1 -> p y = false) /\ p x = true.
Proof.
  induction l; simpl; intros. discriminate. destruct (p a) eqn:E.
  - inversion H; subst. exists [], l. repeat split; auto. intros y [].
  - destruct (IHl x H) as [l1 [l2 [Q1 [Q2 Q3]]]]. exists (a :: l1), l2. subst. repeat split; auto. intros y [Hy|Hy]; subst; auto.
Qed.

Lemma find_none_all : forall {A} (p : A -> bool) l, find p l = None -> forall y, In y l -> p y = false.
Proof. intros. eapply find_none in H; eauto. Qed.

(* the remaining sequence of the new position is what followed the node found *)
Lemma rl_after : forall s b0 cands id b', NoDup (linked s) -> b0 < nb s ->
  (exists l, nth b0 (h_buckets s) [] = l /\ (cands = l \/ exists cur, cands = after_id cur l)) ->
  ((In id cands /\ b' = b0) \/ (exists j, b' = S (b0 + j) /\ In id (nth j (skipn (S b0) (h_buckets s)) []))) ->
  b' < nb s ->
  after_id id (nth b' (h_buckets s) []) ++ concat (skipn (S b') (h_buckets s)) =
  after_id id (cands ++ concat (skipn (S b0) (h_buckets s))).
Proof.
  intros s b0 cands id b' ND Hb0 [l [HL HC]] POS Hb'.
  assert (NDl : NoDup l) by (subst l; apply nodup_concat_nth; auto).
  (* the bucket b0 and the later buckets are disjoint *)
  assert (DIS : forall x, In x l -> ~ In x (concat (skipn (S b0) (h_buckets s)))).
  { intros x Hx Q. apply in_concat_skipn in Q. destruct Q as [b1 [B1 B2]]. subst l.
    assert (b0 = b1) by (eapply nodup_concat_unique; eauto). lia. }
  assert (CL : forall x, In x cands -> In x l).
  { intros x Hx. destruct HC as [HC|[cur HC]]; subst cands; auto. eapply after_id_incl; eauto. }
  destruct POS as [[P1 P2]|[j [P1 P2]]].
  - subst b'. rewrite after_id_app_in by auto. f_equal. rewrite HL.
    destruct HC as [HC|[cur HC]]; subst cands; auto. apply after_id_after; auto.
  - subst b'. assert (NC : ~ In id cands).
    { intro Q. apply (DIS id (CL id Q)). apply (in_concat_skipn_conv _ (S b0) (S b0 + j)). lia. rewrite nth_skipn' in P2. exact P2. }
    rewrite after_id_app_notin by auto.
    set (rest := skipn (S b0) (h_buckets s)) in *.
    assert (J : j < length rest). { destruct (le_lt_dec (length rest) j); auto. rewrite nth_overflow in P2 by auto. contradiction. }
    replace (nth (S (b0 + j)) (h_buckets s) []) with (nth j rest []) by (unfold rest; rewrite nth_skipn'; f_equal; lia).
    replace (skipn (S (S (b0 + j))) (h_buckets s)) with (skipn (S j) rest) by (unfold rest; rewrite skipn_skipn'; f_equal; lia).
    rewrite (concat_split rest j J).
    assert (NDR : NoDup (concat rest)). { unfold rest. unfold linked in ND. rewrite (concat_split (h_buckets s) b0) in ND by auto. apply nodup_app_r in ND. apply nodup_app_r in ND. auto. }
    rewrite (concat_split rest j J) in NDR.
    rewrite after_id_app_notin. rewrite after_id_app_in by auto. reflexivity.
    intro Q. eapply nodup_app_disj. exact NDR. exact Q. apply in_or_app. left. auto.
Qed.

Lemma iter_next_sem : forall s P hi s' hi' r ns, GoodP s (hi :: P) ->
  h_iter_next v_fixed s hi = Ok (s', hi', r, ns) ->
  (find (is_live_id (h_heap s)) (Rl s hi) = None /\ r = None /\ hi' = {| hi_node := None; hi_bucket := nb s |}) \/
  (exists nx b', find (is_live_id (h_heap s)) (Rl s hi) = Some nx /\ hi' = {| hi_node := Some nx; hi_bucket := b' |} /\ b' < nb s /\
     (exists e, r = Some e) /\
     after_id nx (nth b' (h_buckets s) []) ++ concat (skipn (S b') (h_buckets s)) = after_id nx (Rl s hi)).
Proof.
  intros s P hi s' hi' r ns G. unfold h_iter_next.
  set (b0 := hi_bucket hi).
  assert (F : (match hi_node hi with
               | Some cur => do _ <- deref (h_heap s) cur; Ok (after_id cur (bucket s b0))
               | None => Ok (bucket s b0) end) = Ok (cands_hi s hi)).
  { unfold cands_hi. fold b0. destruct (hi_node hi) as [cur|] eqn:Hc; auto.
    assert (Hb : In cur (bucket s b0)) by (apply (p_iter _ _ G hi cur); auto; left; auto).
    destruct (p_node _ _ G cur (in_bucket_linked _ _ _ Hb)) as [n [N1 _]]. rewrite N1. reflexivity. }
  rewrite F. cbn [bind]. unfold Rl. fold b0.
  destruct (Nat.ltb b0 (nb s)) eqn:LT.
  2:{ cbn [bind find]. destruct (hi_node hi) as [cur|]; simpl.
      - destruct (node_deref s cur) as [[s2 ns2]|]; simpl; intro Q; inversion Q; subst. left. auto.
      - intro Q; inversion Q; subst. left. auto. }
  assert (AL : all_live (h_heap s) (cands_hi s hi ++ concat (skipn (S b0) (h_buckets s)))).
  { intros id Hid. apply (goodp_all_live _ _ G). apply in_app_or in Hid. destruct Hid as [Hid|Hid].
    - unfold cands_hi in Hid. fold b0 in Hid. destruct (hi_node hi); [apply after_id_incl in Hid|]; eapply in_bucket_linked; eauto.
    - apply in_concat_skipn in Hid. destruct Hid as [b' [_ Hid]]. eapply in_bucket_linked; eauto. }
  destruct (scan_buckets_find (h_heap s) (skipn (S b0) (h_buckets s)) b0 (cands_hi s hi) AL) as [r0 [R1 R2]].
  destruct (scan_buckets_safe (h_heap s) (skipn (S b0) (h_buckets s)) b0 (cands_hi s hi) AL) as [r1 [R3 R4]].
  rewrite R1 in R3. inversion R3; subst r1. clear R3. rewrite R1. cbn [bind]. rewrite <- R2.
  destruct r0 as [[id b']|]; cbn [option_map fst].
  2:{ cbn [bind]. destruct (hi_node hi) as [cur|]; simpl.
      - destruct (node_deref s cur) as [[s2 ns2]|]; simpl; intro Q; inversion Q; subst. left. auto.
      - intro Q; inversion Q; subst. left. auto. }
  assert (POS : (In id (cands_hi s hi) /\ b' = b0) \/ (exists j, b' = S (b0 + j) /\ In id (nth j (skipn (S b0) (h_buckets s)) []))) by (apply R4; auto).
  assert (Hin : In id (bucket s b')).
  { destruct POS as [[Q1 Q2]|[j [Q1 Q2]]].
    - subst. unfold cands_hi in Q1. fold b0 in Q1. destruct (hi_node hi); auto. eapply after_id_incl; eauto.
    - subst. rewrite nth_skipn' in Q2. unfold bucket. replace (S (b0 + j)) with (S b0 + j) by lia. auto. }
  assert (Hb' : b' < nb s).
  { unfold nb. destruct (le_lt_dec (length (h_buckets s)) b'); auto. unfold bucket in Hin. rewrite nth_overflow in Hin by auto. contradiction. }
  assert (RA : after_id id (nth b' (h_buckets s) []) ++ concat (skipn (S b') (h_buckets s)) =
               after_id id (cands_hi s hi ++ concat (skipn (S b0) (h_buckets s)))).
  { apply (rl_after s b0 (cands_hi s hi) id b'); auto. apply (p_nodup _ _ G). apply Nat.ltb_lt; auto.
    exists (bucket s b0). split; auto. unfold cands_hi. fold b0. destruct (hi_node hi); eauto. }
  destruct (p_node _ _ G id (in_bucket_linked _ _ _ Hin)) as [n [N1 _]]. rewrite N1. cbn [bind].
  intro Q. right. exists id, b'. split; auto.
  destruct (hi_node hi) as [cur|].
  - destruct (node_deref _ cur) as [[s2 ns2]|]; [cbn [bind] in Q|discriminate].
    destruct (deref (h_heap s2) id); simpl in Q; inversion Q; subst. repeat split; eauto.
  - simpl in Q. rewrite deref_store in Q by (eapply deref_lt; eauto). rewrite Nat.eqb_refl in Q. simpl in Q. inversion Q; subst. repeat split; eauto.
Qed.

(* ---------- releasing a node (hashtable_node_deref) and the iterators parked elsewhere ---------- *)
Lemma cov_unpark : forall s P hi0 cur s' ns hi c, GoodP s (hi0 :: P) -> hi_node hi0 = Some cur ->
  node_deref s cur = Ok (s', ns) -> In hi P -> CovOne s hi c -> CovOne s' hi c.
Proof.
  intros s P hi0 cur s' ns hi c G Hc ND HP CV.
  assert (Hb : In cur (bucket s (hi_bucket hi0))) by (apply (p_iter _ _ G hi0 cur); auto; left; auto).
  assert (Hl : In cur (linked s)) by (eapply in_bucket_linked; eauto).
  destruct (p_node _ _ G cur Hl) as [n [N1 [N2 N3]]].
  rewrite pcount_cons in N2. unfold parked_on in N2. rewrite Hc, Nat.eqb_refl in N2.
  assert (Hlt : cur < length (h_heap s)) by (eapply deref_lt; eauto).
  unfold node_deref in ND. rewrite N1 in ND. simpl in ND. destruct (hn_ref n) as [|r] eqn:R. lia. destruct r.
  - inversion ND; subst. clear ND.
    assert (B0 : hn_removed n = true). { unfold base in N2. destruct (hn_removed n); auto. lia. }
    assert (P0 : pcount P cur = 0) by (unfold base in N2; rewrite B0 in N2; lia).
    apply (cov_unlink s _ cur hi c); auto.
    + unfold is_live_id. rewrite (deref_ent _ _ _ N1). simpl. rewrite B0. auto.
    + intro Q. generalize (pcount_pos P hi cur HP Q). lia.
    + intros. rewrite nth_error_free_cell by auto. rewrite nth_error_store_other by auto. auto.
  - inversion ND; subst. clear ND. apply cov_same_view; auto. eapply same_view_store; eauto.
Qed.

(* hashtable_iter_next by one iterator, seen from another iterator *)
Lemma cov_next_other : forall s P hi s' hi' r ns hi2 c, GoodP s (hi :: P) ->
  h_iter_next v_fixed s hi = Ok (s', hi', r, ns) -> In hi2 P -> CovOne s hi2 c -> CovOne s' hi2 c.
Proof.
  intros s P hi s' hi' r ns hi2 c G E HP CV.
  destruct (iter_next_safe s P hi G) as [s0 [hi0 [r0 [ns0 [E0 [_ [_ [s1 [S1 [G1 S2]]]]]]]]]].
  rewrite E in E0. inversion E0; subst. clear E0.
  assert (C1 : CovOne s1 hi2 c).
  { destruct S1 as [S1|[id [n [I1 [I2 S1]]]]]; subst; auto. apply cov_same_view; auto. eapply same_view_store; eauto. }
  destruct (hi_node hi) as [cur|] eqn:Hc.
  - destruct S2 as [ns1 S2]. eapply (cov_unpark s1 _ hi cur _ ns1 hi2 c G1 Hc S2); auto. right; auto.
  - subst. auto.
Qed.

Lemma cov_free_other : forall s P hi s' ns hi2 c, GoodP s (hi :: P) ->
  h_iter_free v_fixed s hi = Ok (s', ns) -> In hi2 P -> CovOne s hi2 c -> CovOne s' hi2 c.
Proof.
  unfold h_iter_free. simpl. intros. destruct (hi_node hi) as [cur|] eqn:Hc.
  - eapply cov_unpark; eauto.
  - inversion H0; subst; auto.
Qed.

Lemma nodup_map_inj : forall {A B} (f : A -> B) l x y, NoDup (map f l) -> In x l -> In y l -> f x = f y -> x = y.
Proof.
  induction l; simpl; intros. contradiction. inversion H; subst. destruct H0, H1; subst; auto.
  - exfalso. apply H5. rewrite H2. apply in_map; auto.
  - exfalso. apply H5. rewrite <- H2. apply in_map; auto.
Qed.

(* ---------- the iterator's own step ---------- *)
Lemma nodup_after_id_app : forall l cur Y, NoDup (l ++ Y) -> NoDup (after_id cur l ++ Y).
Proof. induction l; simpl; intros; auto. inversion H; subst. destruct (Nat.eqb a cur); auto. Qed.

Lemma nodup_rl : forall s hi, NoDup (linked s) -> NoDup (Rl s hi).
Proof.
  intros. unfold Rl. destruct (Nat.ltb (hi_bucket hi) (nb s)) eqn:E; [|constructor]. apply Nat.ltb_lt in E.
  unfold linked in H. rewrite (concat_split (h_buckets s) (hi_bucket hi)) in H by exact E. apply nodup_app_r in H.
  unfold cands_hi, bucket. destruct (hi_node hi); auto. apply nodup_after_id_app. auto.
Qed.

Lemma node_deref_nb : forall s cur s' ns, node_deref s cur = Ok (s', ns) -> nb s' = nb s.
Proof.
  unfold node_deref. intros. destruct (deref (h_heap s) cur); simpl in H; try discriminate.
  destruct (hn_ref a); try discriminate. destruct n; inversion H; subst; unfold nb; simpl; auto. apply map_length.
Qed.

Lemma rl_end : forall s n, nb s <= n -> Rl s {| hi_node := None; hi_bucket := n |} = [].
Proof. intros. unfold Rl. simpl. replace (Nat.ltb n (nb s)) with false; auto. symmetry. apply Nat.ltb_ge. auto. Qed.

Lemma cov_next_own : forall s P hi c s' hi' r ns, GoodP s (hi :: P) -> GoodQ hf s -> CovOne s hi c ->
  h_iter_next v_fixed s hi = Ok (s', hi', r, ns) ->
  match r with
  | None => (forall k, In k (c_stable c) -> In k (c_seen c)) /\ CovOne s' hi' c
  | Some (k, _) => (c_ins c = false -> ~ In k (c_seen c)) /\
                   CovOne s' hi' {| c_stable := c_stable c; c_seen := k :: c_seen c; c_ins := c_ins c |}
  end.
Proof.
  intros s P hi c s' hi' r ns G Q CV E.
  destruct (iter_next_safe s P hi G) as [s0 [hi0 [r0 [ns0 [E0 [_ [_ [s1 [S1 [G1 S2]]]]]]]]]].
  rewrite E in E0. inversion E0; subst s0 hi0 r0 ns0. clear E0.
  (* transfer of a fact about the new position from s to s' *)
  assert (TR : forall c', CovOne s hi' c' -> CovOne s' hi' c').
  { intros c' C0.
    assert (C1 : CovOne s1 hi' c').
    { destruct S1 as [S1|[id [n [I1 [I2 S1]]]]]; subst; auto. apply cov_same_view; auto. eapply same_view_store; eauto. }
    destruct (hi_node hi) as [cur|] eqn:Hc.
    - destruct S2 as [ns1 S2]. eapply (cov_unpark s1 _ hi cur _ ns1 hi' c' G1 Hc S2); auto. left; auto.
    - subst. auto. }
  destruct CV as [A B C].
  destruct (iter_next_sem s P hi s' hi' r ns G E) as [[F [R1 R2]]|[nx [b' [F [R1 [R2 [[e R3] R4]]]]]]].
  - subst r hi'. split.
    + intros k Hk. assert (Hk2 := C k Hk). unfold lkeys in Hk2. apply in_map_iff in Hk2. destruct Hk2 as [x [X1 X2]]. subst k. destruct (A x X2 Hk) as [Q1|Q1]; auto.
      exfalso. apply live_linked in X2. destruct X2 as [_ X2]. rewrite (find_none_all _ _ F x Q1) in X2. discriminate.
    + apply TR. constructor.
      * intros x Hx Hk. destruct (A x Hx Hk) as [Q1|Q1]; auto.
        exfalso. apply live_linked in Hx. destruct Hx as [_ Hx]. rewrite (find_none_all _ _ F x Q1) in Hx. discriminate.
      * intros _ x Hx. rewrite rl_end in Hx by lia. contradiction.
      * exact C.
  - subst r hi'. destruct e as [k v].
    destruct (iter_next_returns_present s hi s' _ k v ns E) as [id [n [N1 [N2 [N3 [N4 N5]]]]]]. simpl in N5. inversion N5; subst id. clear N5.
    destruct (find_split _ _ _ F) as [zs [rest [RS [ZS NL]]]].
    assert (KN : key_of (h_heap s) nx = k) by (rewrite (key_of_deref _ _ _ N1); auto).
    assert (NXR : In nx (Rl s hi)) by (rewrite RS; apply in_or_app; right; left; auto).
    assert (NDR : NoDup (Rl s hi)) by (apply nodup_rl; apply (p_nodup _ _ G)).
    assert (RN : Rl s {| hi_node := Some nx; hi_bucket := b' |} = rest).
    { unfold Rl at 1. unfold cands_hi, bucket. cbn [hi_node hi_bucket]. apply Nat.ltb_lt in R2. rewrite R2. rewrite R4, RS.
      rewrite after_id_app_notin. cbn [after_id]. rewrite Nat.eqb_refl. reflexivity.
      intro Q1. rewrite (ZS nx Q1) in NL. discriminate. }
    split.
    + intros I Q1. apply (B I nx NXR NL). rewrite KN. auto.
    + apply TR. constructor; simpl.
      * intros x Hx Hk. destruct (A x Hx Hk) as [Q1|Q1]; auto. rewrite RS in Q1. apply in_app_or in Q1. destruct Q1 as [Q1|[Q1|Q1]].
        { exfalso. apply live_linked in Hx. destruct Hx as [_ Hx]. rewrite (ZS x Q1) in Hx. discriminate. }
        { subst x. right. left. auto. }
        { left. rewrite RN. auto. }
      * intros I x Hx L [Q1|Q1].
        { (* two live nodes with the same key *)
          rewrite RN in Hx. assert (x <> nx). { intro; subst x. rewrite RS in NDR. apply NoDup_remove_2 in NDR. apply NDR. apply in_or_app; auto. }
          apply H. assert (XL : In x (live_ids s)). { unfold live_ids. apply filter_In. split; auto. apply rl_linked with (hi := hi). rewrite RS. apply in_or_app. right; right; auto. }
          assert (NL2 : In nx (live_ids s)). { unfold live_ids. apply filter_In. split; auto. eapply rl_linked; eauto. }
          apply (nodup_map_inj (key_of (h_heap s)) (live_ids s)); auto. apply (q_keys _ _ Q). congruence. }
        { rewrite RN in Hx. apply (B I x); auto. rewrite RS. apply in_or_app. right; right; auto. }
      * exact C.
Qed.

(* ---------- put / rm / notify / foreach, seen from an open iterator ---------- *)
Lemma absent_key : forall s P k, GoodP s P -> GoodQ hf s ->
  find_node v_fixed (h_heap s) (bucket s (bucket_ix hf s k)) k = Ok None -> ~ In k (lkeys s).
Proof.
  intros s P k G Q F Hk. unfold lkeys in Hk. apply in_map_iff in Hk. destruct Hk as [y [Ky Hy]].
  generalize (find_node_spec _ _ _ _ (bucket_all_live s P _ G) F). intro NONE.
  apply live_linked in Hy. destruct Hy as [Hy1 Hy2]. apply linked_bucket in Hy1. destruct Hy1 as [b1 Hy1].
  generalize (q_place _ _ Q b1 y Hy1). rewrite Ky. intro Bq.
  assert (b1 = bucket_ix hf s k) by (unfold bucket_ix, bix in *; lia). subst b1.
  destruct (NONE y Hy1) as [m [M1 [M2|M2]]].
  - rewrite (is_live_deref _ _ _ M1), M2 in Hy2. discriminate.
  - rewrite (key_of_deref _ _ _ M1) in Ky. contradiction.
Qed.

Definition c_set_ins (c : cov) (b : bool) : cov := {| c_stable := c_stable c; c_seen := c_seen c; c_ins := c_ins c || b |}.
Definition c_rm (c : cov) (k : key) : cov := {| c_stable := key_remove k (c_stable c); c_seen := c_seen c; c_ins := c_ins c |}.
Definition c_see (c : cov) (k : key) : cov := {| c_stable := c_stable c; c_seen := k :: c_seen c; c_ins := c_ins c |}.

Lemma cov_put : forall s P k x s' ns hi c, GoodP s P -> GoodQ hf s -> h_put v_fixed hf s k x = Ok (s', ns) ->
  CovOne s hi c -> CovOne s' hi (c_set_ins c (negb (key_in k (lkeys s)))).
Proof.
  intros s P k x s' ns hi c G Q E CV. unfold h_put in E.
  destruct (find_node v_fixed (h_heap s) (bucket s (bucket_ix hf s k)) k) as [r|] eqn:F; simpl in E; [|discriminate].
  generalize (find_node_spec _ _ _ _ (bucket_all_live s P _ G) F). destruct r as [id|].
  - intros [Hin [n [N1 [N2 N3]]]]. rewrite N1 in E. simpl in E. inversion E; subst. clear E.
    assert (KL : key_in (hn_key n) (lkeys s) = true).
    { apply key_in_iff. unfold lkeys. apply in_map_iff. exists id. split. apply key_of_deref; auto.
      unfold live_ids. apply filter_In. split. eapply in_bucket_linked; eauto. rewrite (is_live_deref _ _ _ N1), N2. auto. }
    rewrite KL. simpl. unfold c_set_ins. rewrite orb_false_r. destruct c. simpl.
    apply cov_same_view; auto. eapply same_view_store; eauto.
  - intros _. inversion E; subst. clear E.
    assert (NK : ~ In k (lkeys s)) by (eapply absent_key; eauto).
    assert (KL : key_in k (lkeys s) = false). { destruct (key_in k (lkeys s)) eqn:Z; auto. apply key_in_iff in Z. contradiction. }
    rewrite KL. simpl. unfold c_set_ins. rewrite orb_true_r.
    apply (cov_link s P _ (bucket_ix hf s k) k x hi c G); auto. apply bix_lt. apply (q_nb _ _ Q).
Qed.

Lemma cov_shrink_stable : forall s hi c k, CovOne s hi c -> CovOne s hi (c_rm c k).
Proof.
  intros s hi c k [A B C]. constructor; simpl; auto.
  - intros x Hx Hk. apply key_remove_in in Hk. apply A; auto. apply Hk.
  - intros k0 Hk. apply key_remove_in in Hk. apply C. apply Hk.
Qed.

Lemma cov_rm : forall s P k s' b ns hi c, GoodP s P -> GoodQ hf s -> h_rm v_fixed hf s k = Ok (s', b, ns) -> In hi P ->
  CovOne s hi c -> CovOne s' hi (c_rm c k).
Proof.
  intros s P k s' bb ns hi c G Q E HP CV. unfold h_rm in E. set (b := bucket_ix hf s k) in *.
  destruct (find_node v_fixed (h_heap s) (bucket s b) k) as [r|] eqn:F; simpl in E; [|discriminate].
  generalize (find_node_spec _ _ _ _ (bucket_all_live s P _ G) F). destruct r as [id|].
  2:{ intros _. inversion E; subst. apply cov_shrink_stable; auto. }
  intros [Hin [n [N1 [N2 N3]]]]. rewrite N1 in E. simpl in E.
  assert (Hl : In id (linked s)) by (eapply in_bucket_linked; eauto).
  assert (Hlt : id < length (h_heap s)) by (eapply deref_lt; eauto).
  set (n1 := {| hn_key := hn_key n; hn_val := hn_val n; hn_ref := hn_ref n; hn_removed := true; hn_subs := hn_subs n |}) in *.
  set (s1 := set_heap s (store (h_heap s) id n1)) in *.
  destruct (node_deref s1 id) as [[s2 ns2]|] eqn:ND; simpl in E; [|discriminate]. inversion E; subst. clear E.
  apply cov_count.
  assert (C1 : CovOne s1 hi (c_rm c (hn_key n))). { unfold s1, n1, c_rm. apply cov_mark; auto. }
  assert (G1 : GoodP s1 ({| hi_node := Some id; hi_bucket := b |} :: P)).
  { constructor; simpl.
    - apply (p_nodup _ _ G).
    - intros y Hy. change (In y (linked s)) in Hy. unfold s1. simpl. rewrite deref_store by auto. rewrite pcount_cons. unfold parked_on. simpl.
      destruct (p_node _ _ G y Hy) as [m [M1 [M2 M3]]]. destruct (Nat.eqb id y) eqn:E1.
      + apply Nat.eqb_eq in E1. subst y. rewrite N1 in M1. inversion M1; subst m. exists n1. split; auto.
        unfold base in *. simpl. rewrite N2 in M2. split; auto; try lia.
      + exists m. auto.
    - intros h y [Hh|Hh] Hn. subst h. simpl in *. inversion Hn; subst. exact Hin. apply (p_iter _ _ G h y Hh Hn). }
  eapply (cov_unpark s1 P _ id s2 ns hi _ G1 eq_refl ND HP C1).
Qed.

Lemma cov_notify_add : forall e1 e2 e3 s P k fn ev ud s' z hi c, GoodP s P ->
  h_notify_add v_fixed hf e1 e2 e3 s k fn ev ud = Ok (s', z) -> CovOne s hi c -> CovOne s' hi c.
Proof.
  intros e1 e2 e3 s P k fn ev ud s' z hi c G E CV. unfold h_notify_add in E. destruct k as [kk|].
  - destruct (has_bit ev EV_FREE). { inversion E; subst; auto. }
    destruct (find_node v_fixed (h_heap s) (bucket s (bucket_ix hf s kk)) kk) as [r|] eqn:F; simpl in E; [|discriminate].
    generalize (find_node_spec _ _ _ _ (bucket_all_live s P _ G) F). destruct r as [id|].
    2:{ intros _. inversion E; subst; auto. }
    intros [Hin [n [N1 [N2 N3]]]]. rewrite N1 in E. simpl in E.
    destruct (nsub_conflict (hn_subs n) fn ev ud); inversion E; subst; auto.
    apply cov_same_view; auto. eapply same_view_store; eauto.
  - destruct (nsub_conflict (h_subs s) fn ev ud); inversion E; subst; auto. destruct CV as [A B C]. constructor; auto.
Qed.

Lemma cov_notify_del : forall e2 s P k fn ev ud s' z hi c, GoodP s P ->
  h_notify_del v_fixed hf e2 s k fn ev ud = Ok (s', z) -> CovOne s hi c -> CovOne s' hi c.
Proof.
  intros e2 s P k fn ev ud s' z hi c G E CV. unfold h_notify_del in E. destruct k as [kk|].
  - destruct (find_node v_fixed (h_heap s) (bucket s (bucket_ix hf s kk)) kk) as [r|] eqn:F; simpl in E; [|discriminate].
    generalize (find_node_spec _ _ _ _ (bucket_all_live s P _ G) F). destruct r as [id|].
    2:{ intros _. inversion E; subst; auto. }
    intros [Hin [n [N1 [N2 N3]]]]. rewrite N1 in E. simpl in E.
    destruct (existsb (nsub_match fn ev ud) (hn_subs n)); inversion E; subst; auto.
    apply cov_same_view; auto. eapply same_view_store; eauto.
  - destruct (existsb (nsub_match fn ev ud) (h_subs s)); inversion E; subst; auto. destruct CV as [A B C]. constructor; auto.
Qed.

Lemma cov_foreach_loop : forall fuel s P hit stop calls acc nacc s' hi' l ns hi c, GoodP s (hit :: P) ->
  foreach_loop v_fixed fuel s hit stop calls acc nacc = Ok (s', hi', l, ns) -> In hi P -> CovOne s hi c ->
  CovOne s' hi c /\ GoodP s' (hi' :: P).
Proof.
  induction fuel; simpl; intros. discriminate.
  destruct (iter_next_safe s P hit H) as [s1 [hi1 [r [ns1 [E [G1 _]]]]]]. rewrite E in H0. simpl in H0.
  assert (C1 : CovOne s1 hi c) by (apply (cov_next_other s P hit s1 hi1 r ns1 hi c H E H1 H2)).
  destruct r as [e|].
  - destruct (negb (Nat.eqb stop 0) && Nat.leb stop (S calls)).
    + inversion H0; subst. auto.
    + eapply IHfuel; eauto.
  - inversion H0; subst. auto.
Qed.

Lemma cov_foreach : forall s P stop s' l ns hi c, GoodP s P -> h_foreach v_fixed s stop = Ok (s', l, ns) -> In hi P ->
  CovOne s hi c -> CovOne s' hi c.
Proof.
  unfold h_foreach. intros.
  destruct (foreach_loop v_fixed (S (S (length (h_heap s)))) s h_iter_create stop 0 [] []) as [[[[s1 hi1] l1] ns1]|] eqn:E; simpl in H0; try discriminate.
  destruct (cov_foreach_loop _ _ P _ _ _ _ _ _ _ _ _ hi c (goodp_none_add s P 0 H) E H1 H2) as [C1 G1].
  destruct (h_iter_free v_fixed s1 hi1) as [[s2 ns2]|] eqn:F; simpl in H0; try discriminate. inversion H0; subst.
  eapply cov_free_other; eauto.
Qed.

(* ---------- the ghost records next to a run ---------- *)
Definition ghost := list (nat * cov).
Definition gmap (f : cov -> cov) (g : ghost) : ghost := map (fun q => (fst q, f (snd q))) g.
Definition gset (it : nat) (f : cov -> cov) (g : ghost) : ghost :=
  map (fun q => if Nat.eqb (fst q) it then (it, f (snd q)) else q) g.
Definition gremove (it : nat) (g : ghost) : ghost := filter (fun q => negb (Nat.eqb (fst q) it)) g.
Fixpoint glookup (g : ghost) (it : nat) : option cov :=
  match g with [] => None | (i, c) :: t => if Nat.eqb i it then Some c else glookup t it end.

Definition g_step (s : hstate) (o : op) (x : out) (g : ghost) : ghost :=
  if negb (h_alive s) then g else
  match o, x with
  | Put k _, _ => gmap (fun c => c_set_ins c (negb (key_in k (lkeys s)))) g
  | Rm k, _ => gmap (fun c => c_rm c k) g
  | Destroy, _ => []
  | IterCreate it _, ONone => (it, {| c_stable := lkeys s; c_seen := []; c_ins := false |}) :: g
  | IterNext it, ONext (Some (k, _)) => gset it (fun c => c_see c k) g
  | IterFree it, ONone => gremove it g
  | _, _ => g
  end.

(* the two coverage clauses, checked at every iter_next *)
Definition g_check (s : hstate) (o : op) (x : out) (g : ghost) : Prop :=
  h_alive s = true ->
  match o, x with
  | IterNext it, ONext (Some (k, _)) => forall c, glookup g it = Some c -> c_ins c = false -> ~ In k (c_seen c)
  | IterNext it, ONext None => forall c, glookup g it = Some c -> forall k', In k' (c_stable c) -> In k' (c_seen c)
  | _, _ => True
  end.

Definition CovAll (s : hstate) (g : ghost) : Prop :=
  Forall2 (fun p q => fst p = fst q /\ CovOne s (snd p) (snd q)) (h_iters s) g.

Lemma forall2_map_r : forall {A B} (R R' : A -> B -> Prop) (G : B -> B) l g,
  Forall2 R l g -> (forall p q, In p l -> R p q -> R' p (G q)) -> Forall2 R' l (map G g).
Proof.
  induction 1; simpl; intros. constructor. constructor.
  - apply H1; auto.
  - apply IHForall2. intros. apply H1; auto.
Qed.

Lemma cov_ctl : forall s s' hi c, h_heap s' = h_heap s -> h_buckets s' = h_buckets s -> CovOne s hi c -> CovOne s' hi c.
Proof.
  intros s s' hi c H1 H2 [A B C].
  assert (LI : live_ids s' = live_ids s) by (unfold live_ids, linked; rewrite H1, H2; auto).
  assert (RL : Rl s' hi = Rl s hi) by (unfold Rl, nb, cands_hi, bucket; rewrite H2; auto).
  constructor.
  - intros x. rewrite LI, RL, H1. apply A.
  - intros I x. rewrite RL, H1. apply B; auto.
  - intros k. unfold lkeys. rewrite LI, H1. apply C.
Qed.

Lemma covall_others : forall s s' g (f : cov -> cov), CovAll s g -> h_iters s' = h_iters s ->
  (forall it hi c, In (it, hi) (h_iters s) -> CovOne s hi c -> CovOne s' hi (f c)) -> CovAll s' (gmap f g).
Proof.
  intros. unfold CovAll, gmap. rewrite H0. eapply forall2_map_r. exact H.
  intros [it hi] [it2 c] Hin [Q1 Q2]. simpl in *. split; auto. eapply H1; eauto.
Qed.

Lemma gmap_id : forall g, gmap (fun c => c) g = g.
Proof. unfold gmap. induction g as [|[i c] g]; simpl; auto. rewrite IHg. auto. Qed.

Lemma in_its : forall s it hi, In (it, hi) (h_iters s) -> In hi (its s).
Proof. intros. unfold its. apply in_map_iff. exists (it, hi). auto. Qed.

Lemma forall2_fst : forall s l g, Forall2 (fun (p : nat * hiter) (q : nat * cov) => fst p = fst q /\ CovOne s (snd p) (snd q)) l g -> map fst l = map fst g.
Proof. induction 1; simpl; auto. destruct H. congruence. Qed.

Lemma glookup_split : forall g1 it c g2, ~ In it (map fst g1) -> glookup (g1 ++ (it, c) :: g2) it = Some c.
Proof.
  induction g1 as [|[i c0] g1]; simpl; intros. rewrite Nat.eqb_refl. auto.
  destruct (Nat.eqb i it) eqn:E. apply Nat.eqb_eq in E. subst. exfalso. apply H. left; auto. apply IHg1. intro. apply H. right; auto.
Qed.

Lemma gset_split : forall g1 g2 it c (f : cov -> cov), ~ In it (map fst g1) -> ~ In it (map fst g2) ->
  gset it f (g1 ++ (it, c) :: g2) = g1 ++ (it, f c) :: g2 /\ gremove it (g1 ++ (it, c) :: g2) = g1 ++ g2.
Proof.
  intros. unfold gset, gremove. rewrite map_app, filter_app. simpl. rewrite Nat.eqb_refl. simpl.
  assert (A : forall g, ~ In it (map fst g) ->
              map (fun q : nat * cov => if Nat.eqb (fst q) it then (it, f (snd q)) else q) g = g /\
              filter (fun q : nat * cov => negb (Nat.eqb (fst q) it)) g = g).
  { induction g as [|[i c0] g]; simpl; intros; auto. destruct (Nat.eqb i it) eqn:E.
    - apply Nat.eqb_eq in E. subst. exfalso. apply H1. left; auto.
    - simpl. destruct IHg as [I1 I2]. intro. apply H1. right; auto. rewrite I1, I2. auto. }
  destruct (A g1 H) as [A1 A2]. destruct (A g2 H0) as [B1 B2]. rewrite A1, A2, B1, B2. auto.
Qed.

Lemma forall2_impl_in : forall {A B} (R R' : A -> B -> Prop) l g,
  (forall p q, In p l -> In q g -> R p q -> R' p q) -> Forall2 R l g -> Forall2 R' l g.
Proof.
  intros A B R R' l g H F. induction F; constructor.
  - apply H; auto. left; auto. left; auto.
  - apply IHF. intros. apply H; auto. right; auto. right; auto.
Qed.

Lemma forall2_cons_inv : forall {A B} (R : A -> B -> Prop) a l g, Forall2 R (a :: l) g -> exists b g', g = b :: g' /\ R a b /\ Forall2 R l g'.
Proof. intros. inversion H; subst. eauto. Qed.

Lemma rl_start : forall s y, In y (linked s) -> In y (Rl s {| hi_node := None; hi_bucket := 0 |}).
Proof.
  intros s y Hy. unfold Rl, cands_hi, bucket. cbn [hi_node hi_bucket]. destruct (Nat.ltb 0 (nb s)) eqn:NB.
  - apply Nat.ltb_lt in NB. unfold linked in Hy. rewrite (concat_split (h_buckets s) 0) in Hy by exact NB. exact Hy.
  - apply Nat.ltb_ge in NB. unfold nb in NB. unfold linked in Hy. destruct (h_buckets s); simpl in *. contradiction. lia.
Qed.

Section Step.
Variable rc : Z * Z * Z.

Lemma covall_transfer : forall s s' g, CovAll s g -> h_iters s' = h_iters s ->
  (forall it hi c, In (it, hi) (h_iters s) -> CovOne s hi c -> CovOne s' hi c) -> CovAll s' g.
Proof. intros. rewrite <- (gmap_id g). eapply covall_others; eauto. Qed.

Theorem cov_step : forall s o s' x ns g, Top s -> GoodQ hf s -> CovAll s g ->
  h_step v_fixed hf rc s o = Ok (s', x, ns) ->
  g_check s o x g /\ (h_alive s' = true -> CovAll s' (g_step s o x g)).
Proof.
  intros s o s' x ns g T Q CA E. destruct rc as [[e1 e2] e3]. unfold h_step in E. unfold g_check, g_step.
  rewrite (q_alive _ _ Q) in *. simpl in E. cbn [negb].
  generalize (t_good _ T). intro G.
  destruct o.
  - (* Put *)
    destruct (h_put v_fixed hf s k v) as [[s1 ns1]|] eqn:E1; simpl in E; inversion E; subst. split; auto. intros _.
    destruct (put_safe hf s (its s) k v G) as [s2 [ns2 [E2 [_ [C1 _]]]]]. rewrite E1 in E2. inversion E2; subst.
    eapply covall_others; eauto. intros. eapply cov_put; eauto.
  - destruct (h_get v_fixed hf s k); simpl in E; inversion E; subst. split; auto.
  - (* Rm *)
    destruct (h_rm v_fixed hf s k) as [[[s1 b1] ns1]|] eqn:E1; simpl in E; inversion E; subst. split; auto. intros _.
    destruct (rm_safe hf s (its s) k G) as [s2 [b2 [ns2 [E2 [_ [C1 _]]]]]]. rewrite E1 in E2. inversion E2; subst.
    eapply covall_others; eauto. intros. eapply cov_rm; eauto. eapply in_its; eauto.
  - inversion E; subst. split; auto.
  - (* Foreach *)
    destruct (h_foreach v_fixed s stop) as [[[s1 l1] ns1]|] eqn:E1; simpl in E; inversion E; subst. split; auto. intros _.
    generalize (foreach_safe s (its s) stop G). rewrite E1. intros [_ [C1 _]].
    eapply covall_transfer; eauto. intros. eapply cov_foreach; eauto. eapply in_its; eauto.
  - destruct (h_notify_add v_fixed hf e1 e2 e3 s k fn ev ud) as [[s1 z]|] eqn:E1; simpl in E; inversion E; subst. split; auto. intros _.
    destruct (notify_add_safe hf e1 e2 e3 s (its s) k fn ev ud G) as [s2 [z2 [E2 [_ [C1 _]]]]]. rewrite E1 in E2. inversion E2; subst.
    eapply covall_transfer; eauto. intros. eapply cov_notify_add; eauto.
  - destruct (h_notify_del v_fixed hf e2 s k fn ev ud) as [[s1 z]|] eqn:E1; simpl in E; inversion E; subst. split; auto. intros _.
    destruct (notify_del_safe hf e2 s (its s) k fn ev ud G) as [s2 [z2 [E2 [_ [C1 _]]]]]. rewrite E1 in E2. inversion E2; subst.
    eapply covall_transfer; eauto. intros. eapply cov_notify_del; eauto.
  - (* Destroy *)
    unfold h_destroy in E. destruct (destroy_nodes s (concat (h_buckets s))) as [[s1 ns1]|]; simpl in E; inversion E; subst. split; auto.
    simpl. intro; discriminate.
  - (* IterCreate *)
    destruct (existsb (Nat.eqb it) (h_used s)) eqn:U; inversion E; subst. { split; auto. } split; auto. intros _.
    unfold CovAll. simpl. constructor.
    + simpl. split; auto. constructor; simpl.
      * intros y Hy _. left. apply live_linked in Hy. destruct Hy as [Hy _]. apply rl_start. exact Hy.
      * intros _ y _ _ [].
      * auto.
    + eapply forall2_impl_in. 2: exact CA. intros [i1 h1] [i2 c2] _ _ [Q1 Q2]. split; auto. apply (cov_ctl s); auto.
  - (* IterNext *)
    destruct (iter_lookup (h_iters s) it) as [hi|] eqn:L. 2:{ inversion E; subst. split; auto. }
    destruct (h_iter_next v_fixed s hi) as [[[[s1 hi1] r] ns1]|] eqn:E1; simpl in E; inversion E; subst. clear E.
    destruct (iter_split _ _ _ L) as [l1 [l2 [Q1 Q2]]].
    assert (Q3 : ~ In it (map fst l2)).
    { generalize (t_ids _ T). rewrite Q1, map_app. simpl. intro ND. apply nodup_app_r in ND. inversion ND; auto. }
    unfold CovAll in CA. rewrite Q1 in CA. apply Forall2_app_inv_l in CA. destruct CA as [g1 [g2' [CA1 [CA2 GE]]]].
    destruct (forall2_cons_inv _ _ _ _ CA2) as [[it' c] [g2 [GE2 [[CQ1 CQ2] CA3]]]]. simpl in CQ1, CQ2. subst it' g2'. subst g.
    assert (F1 : map fst l1 = map fst g1) by (eapply forall2_fst; eauto).
    assert (F2 : map fst l2 = map fst g2) by (eapply forall2_fst; eauto).
    assert (GL : glookup (g1 ++ (it, c) :: g2) it = Some c) by (apply glookup_split; rewrite <- F1; auto).
    set (Prest := map snd l1 ++ map snd l2).
    assert (GP : GoodP s (hi :: Prest)).
    { eapply goodp_perm. 2: exact G. unfold its. rewrite Q1, map_app. simpl. apply Permutation_sym. apply Permutation_middle. }
    generalize (cov_next_own s Prest hi c s1 hi1 r ns GP Q CQ2 E1). intro OWN.
    destruct (iter_next_safe s Prest hi GP) as [s0 [hi0 [r0 [ns0 [E0 [_ [[C1 _] _]]]]]]]. rewrite E1 in E0. inversion E0; subst s0 hi0 r0 ns0. clear E0.
    assert (OTH : forall (l : list (nat * hiter)) (g : list (nat * cov)), Forall2 (fun (p : nat * hiter) (q : nat * cov) => fst p = fst q /\ CovOne s (snd p) (snd q)) l g -> (forall p, In p l -> In (snd p) Prest) ->
                  Forall2 (fun (p : nat * hiter) (q : nat * cov) => fst p = fst q /\ CovOne (set_iters s1 (l1 ++ (it, hi1) :: l2)) (snd p) (snd q)) l g).
    { intros l g0 FA HP. eapply forall2_impl_in. 2: exact FA. intros [i2 h2] [j2 c2] I1 _ [R1 R2]. split; auto. simpl in *.
      apply (cov_ctl s1); auto. eapply cov_next_other; eauto. apply (HP (i2, h2)); auto. }
    assert (O1 := OTH l1 g1 CA1). assert (O2 := OTH l2 g2 CA3).
    destruct (iter_set_split l1 l2 it hi hi1 Q2 Q3) as [S1 _].
    destruct r as [[k v]|].
    + destruct OWN as [W1 W2]. split.
      * intros _ c0 GL0. rewrite GL in GL0. inversion GL0; subst c0. auto.
      * intros _. destruct (gset_split g1 g2 it c (fun c0 => c_see c0 k)) as [GS _]. rewrite <- F1; auto. rewrite <- F2; auto.
        rewrite GS. unfold CovAll. simpl. rewrite C1, Q1, S1. apply Forall2_app.
        { apply O1. intros p Hp. unfold Prest. apply in_or_app. left. apply in_map. auto. }
        constructor.
        { simpl. split; auto. apply (cov_ctl s1); auto. }
        { apply O2. intros p Hp. unfold Prest. apply in_or_app. right. apply in_map. auto. }
    + destruct OWN as [W1 W2]. split.
      * intros _ c0 GL0. rewrite GL in GL0. inversion GL0; subst c0. auto.
      * intros _. unfold CovAll. simpl. rewrite C1, Q1, S1. apply Forall2_app.
        { apply O1. intros p Hp. unfold Prest. apply in_or_app. left. apply in_map. auto. }
        constructor.
        { simpl. split; auto. apply (cov_ctl s1); auto. }
        { apply O2. intros p Hp. unfold Prest. apply in_or_app. right. apply in_map. auto. }
  - (* IterFree *)
    destruct (iter_lookup (h_iters s) it) as [hi|] eqn:L. 2:{ inversion E; subst. split; auto. }
    destruct (h_iter_free v_fixed s hi) as [[s1 ns1]|] eqn:E1; simpl in E; inversion E; subst. clear E. split; auto. intros _.
    destruct (iter_split _ _ _ L) as [l1 [l2 [Q1 Q2]]].
    assert (Q3 : ~ In it (map fst l2)).
    { generalize (t_ids _ T). rewrite Q1, map_app. simpl. intro ND. apply nodup_app_r in ND. inversion ND; auto. }
    unfold CovAll in CA. rewrite Q1 in CA. apply Forall2_app_inv_l in CA. destruct CA as [g1 [g2' [CA1 [CA2 GE]]]].
    destruct (forall2_cons_inv _ _ _ _ CA2) as [[it' c] [g2 [GE2 [[CQ1 CQ2] CA3]]]]. simpl in CQ1, CQ2. subst it' g2'. subst g.
    assert (F1 : map fst l1 = map fst g1) by (eapply forall2_fst; eauto).
    assert (F2 : map fst l2 = map fst g2) by (eapply forall2_fst; eauto).
    set (Prest := map snd l1 ++ map snd l2).
    assert (GP : GoodP s (hi :: Prest)).
    { eapply goodp_perm. 2: exact G. unfold its. rewrite Q1, map_app. simpl. apply Permutation_sym. apply Permutation_middle. }
    destruct (iter_free_safe s Prest hi GP) as [s0 [ns0 [E0 [_ [C1 _]]]]]. rewrite E1 in E0. inversion E0; subst s0 ns0. clear E0.
    assert (OTH : forall (l : list (nat * hiter)) (g : list (nat * cov)), Forall2 (fun (p : nat * hiter) (q : nat * cov) => fst p = fst q /\ CovOne s (snd p) (snd q)) l g -> (forall p, In p l -> In (snd p) Prest) ->
                  Forall2 (fun (p : nat * hiter) (q : nat * cov) => fst p = fst q /\ CovOne (set_iters s1 (l1 ++ l2)) (snd p) (snd q)) l g).
    { intros l g0 FA HP. eapply forall2_impl_in. 2: exact FA. intros [i2 h2] [j2 c2] I1 _ [R1 R2]. split; auto. simpl in *.
      apply (cov_ctl s1); auto. eapply cov_free_other; eauto. apply (HP (i2, h2)); auto. }
    destruct (iter_set_split l1 l2 it hi hi Q2 Q3) as [_ S2].
    destruct (gset_split g1 g2 it c (fun c0 => c0)) as [_ GR]. rewrite <- F1; auto. rewrite <- F2; auto.
    rewrite GR. unfold CovAll. simpl. rewrite C1, Q1, S2. apply Forall2_app.
    + apply OTH; auto. intros p Hp. unfold Prest. apply in_or_app. left. apply in_map. auto.
    + apply OTH; auto. intros p Hp. unfold Prest. apply in_or_app. right. apply in_map. auto.
Qed.
End Step.
End Cov.

(* ---------- all histories ---------- *)
Fixpoint g_run (hf : key -> N) (rc : Z * Z * Z) (s : hstate) (g : ghost) (ops : list op) : Prop :=
  match ops with
  | [] => True
  | o :: t =>
    match h_step v_fixed hf rc s o with
    | Err _ => False
    | Ok (s', x, _) => g_check s o x g /\ g_run hf rc s' (g_step s o x g) t
    end
  end.

Theorem hash_c18_coverage_from : forall hf rc ops s g, TopQ hf s -> (h_alive s = true -> CovAll s g) -> g_run hf rc s g ops.
Proof.
  induction ops; simpl; intros s g TQ CA; auto.
  assert (TI : TopInv s). { destruct TQ as [D|[T _]]; [left|right]; auto. }
  destruct (hash_step_total hf rc s a TI) as [s' [x [ns [E _]]]]. rewrite E.
  assert (TQ' : TopQ hf s') by (eapply hash_step_q; eauto).
  destruct TQ as [D|[T Q]].
  - split. intro; congruence. apply IHops; auto. intro A'.
    unfold h_step in E. destruct rc as [[e1 e2] e3]. rewrite D in E. simpl in E. inversion E; subst. congruence.
  - destruct (cov_step hf rc s a s' x ns g T Q (CA (q_alive _ _ Q)) E) as [CK CA']. split; auto.
Qed.

(* C18, coverage clauses, pointer-level hashtable model: along EVERY history, at every iter_next that returns a key the
   key was not returned before by that iterator unless some key was inserted since the iterator was created, and at
   every iter_next that reports the end every key that was present when the iterator was created and has not been
   removed since has been returned by it *)
Theorem hash_c18_coverage : forall hf rc m ops, g_run hf rc (h_create m) [] ops.
Proof.
  intros. apply hash_c18_coverage_from. apply topq_create. intros _. unfold CovAll. simpl. constructor.
Qed.
