(* C14 - byte-level model of lib/log_format.c: qb_vsnprintf_serialize / qb_vsnprintf_deserialize(_n),
   my_strlcpy / my_strlcat, lib/strlcpy.c, lib/strlcat.c.   MODEL ONLY - no proofs in this file.

   One flag, [fx], selects the code as found in the repository ([fx = false]; kept for the
   [_refuted] witnesses) or the code with the repairs proposed in fixes/C14-*.patch ([fx = true]; the
   code the theorems are about).  Each place where the two differ is marked "fix:".

   Conventions: bytes, lengths, positions are Z; C strings are lists of bytes where a 0 byte (or the end
   of the list) ends the string; [uint32_t location / data_pos] wrap with [wrap32], size_t expressions
   with [wrapsz], exactly where the C types do.  Every write into the record buffer, the caller's string
   buffer and the decoder's fmt[MINI_FORMAT_STR_LEN] goes through the bounds-checked [store]/[store_bytes]
   and yields [OutOfBounds] when outside; reads of the serialized record in the decoder are counted in a
   high-water mark ([d_hw] = 1 + largest index read).  libc's rendering of ONE conversion is an oracle
   [snp fmt arg n = (return value, bytes written)]; the uninitialised content of the caller's buffers is
   an argument ([garbage]). *)
From Coq Require Import List ZArith Bool Lia.
Require Import Verif.gen.Consts_logfmt.
Import ListNotations.
Open Scope Z_scope.

(* ------------------------------------------------------------------ machine arithmetic *)
Definition wrap32 (x : Z) : Z := x mod 4294967296.
Definition SIZE_MOD : Z := 2 ^ (8 * LF_SIZEOF_SIZE_T).
Definition wrapsz (x : Z) : Z := x mod SIZE_MOD.
Definition SIZE_MAX : Z := SIZE_MOD - 1.

Definition zlen {A} (l : list A) : Z := Z.of_nat (length l).

(* ------------------------------------------------------------------ byte buffers *)
Fixpoint upd (l : list Z) (i : nat) (v : Z) : list Z :=
  match l, i with
  | [], _ => []
  | _ :: t, O => v :: t
  | x :: t, S k => x :: upd t k v
  end.

Definition store (buf : list Z) (i v : Z) : option (list Z) :=
  if (0 <=? i) && (i <? zlen buf) then Some (upd buf (Z.to_nat i) v) else None.

Fixpoint store_bytes (buf : list Z) (i : Z) (bs : list Z) : option (list Z) :=
  match bs with
  | [] => Some buf
  | b :: t => match store buf i b with
              | Some buf' => store_bytes buf' (i + 1) t
              | None => None
              end
  end.

(* firstn / skipn with a Z count (no conversion of a possibly huge count to unary nat) *)
Fixpoint takeZ (k : Z) (l : list Z) : list Z :=
  match l with [] => [] | x :: t => if k <=? 0 then [] else x :: takeZ (k - 1) t end.
Fixpoint dropZ (k : Z) (l : list Z) : list Z :=
  match l with [] => [] | x :: t => if k <=? 0 then l else dropZ (k - 1) t end.

(* read with default 0 (used on the serialized record, whose reads are tracked by the high-water mark,
   and on data already known to be inside a buffer) *)
Definition rd (l : list Z) (i : Z) : Z := if i <? 0 then 0 else hd 0 (dropZ i l).

Fixpoint rd_bytes (l : list Z) (i : Z) (k : nat) : list Z :=
  match k with O => [] | S k' => rd l i :: rd_bytes l (i + 1) k' end.

(* the C string starting at the head of a list: bytes up to the first 0 *)
Fixpoint cstr (l : list Z) : list Z :=
  match l with
  | [] => []
  | c :: t => if c =? 0 then [] else c :: cstr t
  end.

Definition cstr_at (l : list Z) (i : Z) : list Z := if i <? 0 then [] else cstr (dropZ i l).

(* little-endian bytes of the low [k] bytes of a value *)
Fixpoint le_bytes (k : nat) (v : Z) : list Z :=
  match k with O => [] | S k' => (v mod 256) :: le_bytes k' (v / 256) end.

Fixpoint le_val (bs : list Z) : Z :=
  match bs with [] => 0 | b :: t => b + 256 * le_val t end.

Definition to_signed (bits : Z) (v : Z) : Z :=
  let m := 2 ^ bits in let w := v mod m in if w <? m / 2 then w else w - m.

(* decimal text of an int ("%d"), used when the decoder rebuilds a '*' width / precision *)
Fixpoint udec (fuel : nat) (z : Z) (acc : list Z) : list Z :=
  match fuel with
  | O => acc
  | S k => let acc' := (48 + z mod 10) :: acc in
           if z / 10 =? 0 then acc' else udec k (z / 10) acc'
  end.
Definition dec (z : Z) : list Z := if z <? 0 then 45 :: udec 24 (- z) [] else udec 24 z [].

(* ------------------------------------------------------------------ outcome *)
(* tags of the buffers: 1 = serialized record (write), 2 = caller's string (write),
   3 = fmt[MINI_FORMAT_STR_LEN] (write), 4 = serialized record buffer (read, serializer side),
   5 = caller's string (read by strlen in strlcat) *)
Inductive outcome :=
| Done (ret : Z) (buf : list Z) (hw : Z)
| OutOfBounds (tag : Z).

(* ------------------------------------------------------------------ character classes of the two scanners *)
Inductive cls :=
| CNul | CFlag | CDot | CDigit | CStar | CEll | CZee | CTee | CJay
| CInt | CDbl | CChr | CStr | CPtr | CPct | COther.

Definition classify (c : Z) : cls :=
  if c =? 0 then CNul
  else if (c =? 35) || (c =? 45) || (c =? 32) || (c =? 43) || (c =? 39) || (c =? 73) then CFlag
  else if c =? 46 then CDot
  else if (48 <=? c) && (c <=? 57) then CDigit
  else if c =? 42 then CStar
  else if c =? 108 then CEll
  else if c =? 122 then CZee
  else if c =? 116 then CTee
  else if c =? 106 then CJay
  else if (c =? 100) || (c =? 105) || (c =? 111) || (c =? 117) || (c =? 120) || (c =? 88) then CInt
  else if (c =? 101) || (c =? 69) || (c =? 102) || (c =? 70) || (c =? 103) || (c =? 71) || (c =? 97) || (c =? 65)
       then CDbl
  else if c =? 99 then CChr
  else if c =? 115 then CStr
  else if c =? 112 then CPtr
  else if c =? 37 then CPct
  else COther.

(* ------------------------------------------------------------------ arguments (the va_list) *)
Inductive arg :=
| AInt (v : Z)        (* int (also the promoted char of %c and the int of '*') *)
| ALong (v : Z)
| ALLong (v : Z)      (* long long, size_t, ptrdiff_t, intmax_t *)
| ADouble (bits : Z)  (* 8 opaque bytes *)
| APtr (v : Z)
| AStr (s : list Z)   (* char * to this C string *)
| ANull.              (* (char * )NULL *)

(* va_arg(ap, T) for a scalar T of [sz] bytes: the low bytes of the next argument.  (Reading an argument
   with the wrong type is undefined in C; the model is total - it takes the value's low bytes, 0 for a
   string - so that the bounds theorem can be stated for every format / argument list.) *)
Definition arg_raw (a : arg) : Z :=
  match a with
  | AInt v | ALong v | ALLong v | ADouble v | APtr v => v
  | AStr _ | ANull => 0
  end.

Definition va_scalar (args : list arg) : Z * list arg :=
  match args with [] => (0, []) | a :: t => (arg_raw a, t) end.

Definition va_string (args : list arg) : option (list Z) * list arg :=
  match args with
  | [] => (None, [])
  | AStr s :: t => (Some (cstr s), t)
  | _ :: t => (None, t)
  end.

(* ------------------------------------------------------------------ lib/strlcpy.c, my_strlcpy *)
(* strlcpy(dest = &buf[pos], src, maxlen): (buffer, return value) *)
Definition strlcpy_m (tag : Z) (buf : list Z) (pos : Z) (src : list Z) (maxlen : Z) : option (list Z) * Z :=
  let srclen := zlen src in
  if maxlen =? 0 then (Some buf, srclen)
  else
    let len2cpy := Z.min (maxlen - 1) srclen in
    (store_bytes buf pos (takeZ len2cpy src ++ [0]), srclen).

(* my_strlcpy: "the number of characters written".   fix: maxlen = 0 writes nothing and returns 0
   (as found, QB_MIN(rc, maxlen-1) with maxlen-1 = SIZE_MAX returns strlen(src)). *)
Definition my_strlcpy_m (fx : bool) (tag : Z) (buf : list Z) (pos : Z) (src : list Z) (maxlen : Z)
  : option (list Z) * Z :=
  if fx && (maxlen =? 0) then (Some buf, 0)
  else
    let '(b, rc) := strlcpy_m tag buf pos src maxlen in
    (b, Z.min rc (wrapsz (maxlen - 1))).

(* ------------------------------------------------------------------ qb_vsnprintf_serialize *)
Record sst := mkS {
  s_buf : list Z;      (* serialize[0 .. max_len) *)
  s_loc : Z;           (* uint32_t location *)
  s_len : Z;           (* size_t sformat_length *)
  s_prec : bool;       (* sformat_precision *)
  s_args : list arg    (* ap *)
}.

Inductive smode :=
| SScan                       (* for(;;) top: p = strchrnul(format, '%') *)
| SDir (tl tll : bool).       (* after reprocess: with type_long / type_longlong *)

(* store a scalar argument of [sz] bytes: the "if (location + sizeof(T) > max_len) return max_len" pattern *)
Definition ser_scalar (max : Z) (sz : Z) (st : sst) (k : sst -> outcome) : outcome :=
  if max <? s_loc st + sz then Done max (s_buf st) 0
  else
    let '(v, args') := va_scalar (s_args st) in
    match store_bytes (s_buf st) (s_loc st) (le_bytes (Z.to_nat sz) v) with
    | None => OutOfBounds 1
    | Some b => k (mkS b (wrap32 (s_loc st + sz)) (s_len st) (s_prec st) args')
    end.

(* the loop of qb_vsnprintf_serialize over the caller's format [f] (a suffix of fmt).
   'c', 's', 'p' do not advance [format]: the conversion character is then skipped as literal text by the
   next strchrnul, which is the same as advancing.  '%' does not advance either (as found): the next
   strchrnul stops at this very '%', which then opens a new directive.   fix: "%%" advances. *)
Fixpoint ser_go (fx : bool) (max : Z) (f : list Z) (m : smode) (st : sst) : outcome :=
  match f with
  | [] => Done (s_loc st) (s_buf st) 0
  | c :: f' =>
    match m with
    | SScan =>
      match classify c with
      | CNul => Done (s_loc st) (s_buf st) 0
      | CPct =>
        (* fix: a precision belongs to one conversion only *)
        ser_go fx max f' (SDir false false)
               (if fx then mkS (s_buf st) (s_loc st) 0 false (s_args st) else st)
      | _ => ser_go fx max f' SScan st
      end
    | SDir tl tll =>
      match classify c with
      | CNul => Done (s_loc st) (s_buf st) 0
      | CFlag => ser_go fx max f' (SDir tl tll) st
      | CDot => ser_go fx max f' (SDir tl tll) (mkS (s_buf st) (s_loc st) (s_len st) true (s_args st))
      | CDigit =>
        ser_go fx max f' (SDir tl tll)
               (if s_prec st
                then mkS (s_buf st) (s_loc st) (wrapsz (wrapsz (s_len st * 10) + (c - 48))) true (s_args st)
                else st)
      | CStar =>
        (* va_arg first, then the room test *)
        let '(v, args') := va_scalar (s_args st) in
        if max <? s_loc st + LF_SIZEOF_INT then Done max (s_buf st) 0
        else match store_bytes (s_buf st) (s_loc st) (le_bytes (Z.to_nat LF_SIZEOF_INT) v) with
             | None => OutOfBounds 1
             | Some b => ser_go fx max f' (SDir tl tll)
                                (mkS b (wrap32 (s_loc st + LF_SIZEOF_INT)) (s_len st) (s_prec st) args')
             end
      | CEll =>
        match f' with
        | 108 :: f'' => ser_go fx max f'' (SDir false true) st
        | _ => ser_go fx max f' (SDir true tll) st
        end
      | CZee =>
        if LF_SIZEOF_SIZE_T =? LF_SIZEOF_LLONG then ser_go fx max f' (SDir tl true) st
        else ser_go fx max f' (SDir true tll) st
      | CTee =>
        if LF_SIZEOF_PTRDIFF =? LF_SIZEOF_LLONG then ser_go fx max f' (SDir tl true) st
        else ser_go fx max f' (SDir true tll) st
      | CJay =>
        if LF_SIZEOF_INTMAX =? LF_SIZEOF_LLONG then ser_go fx max f' (SDir tl true) st
        else ser_go fx max f' (SDir true tll) st
      | CInt =>
        let sz := if tl then LF_SIZEOF_LONG else if tll then LF_SIZEOF_LLONG else LF_SIZEOF_INT in
        ser_scalar max sz st (fun st' => ser_go fx max f' SScan st')
      | CDbl => ser_scalar max LF_SIZEOF_DOUBLE st (fun st' => ser_go fx max f' SScan st')
      | CChr => ser_scalar max LF_SIZEOF_UCHAR st (fun st' => ser_go fx max f' SScan st')
      | CPtr =>
        let '(v, args') := va_scalar (s_args st) in
        if max <? s_loc st + LF_SIZEOF_PTRDIFF then Done max (s_buf st) 0
        else match store_bytes (s_buf st) (s_loc st) (le_bytes (Z.to_nat LF_SIZEOF_PTRDIFF) v) with
             | None => OutOfBounds 1
             | Some b => ser_go fx max f' SScan
                                (mkS b (wrap32 (s_loc st + LF_SIZEOF_PTRDIFF)) (s_len st) (s_prec st) args')
             end
      | CStr =>
        let '(sv, args') := va_string (s_args st) in
        (* fix: room for at least the terminating NUL, as for every other argument *)
        if fx && (max <? s_loc st + 1) then Done max (s_buf st) 0
        else
          let room := wrapsz (max - s_loc st) in
          let '(src, n) :=
              match sv with
              | None => ([40; 110; 117; 108; 108; 41], Z.min (6 + 1) room)            (* "(null)" *)
              | Some s => if s_len st =? 0 then (s, Z.min (wrapsz (zlen s + 1)) room)
                          else (s, Z.min (wrapsz (s_len st + 1)) room)
              end in
          let '(ob, k) := my_strlcpy_m fx 1 (s_buf st) (s_loc st) src n in
          match ob with
          | None => OutOfBounds 1
          | Some b =>
            ser_go fx max f' SScan
                   (mkS b (wrap32 (wrap32 (s_loc st + k) + 1)) (s_len st) (s_prec st) args')
          end
      | CPct =>
        if fx then ser_go fx max f' SScan st          (* fix: nothing stored, format++ *)
        else
          if max <? s_loc st + 1 then Done max (s_buf st) 0
          else match store (s_buf st) (s_loc st) 37 with
               | None => OutOfBounds 1
               | Some b =>
                 (* format not advanced: this '%' opens the next directive *)
                 ser_go fx max f' (SDir false false) (mkS b (wrap32 (s_loc st + 1)) 0 false (s_args st))
               end
      | COther => ser_go fx max f' SScan st
      end
    end
  end.

(* index of the first byte equal to [c] before the terminating NUL of the string at the head of [l] *)
Fixpoint strchr_m (l : list Z) (c : Z) (i : Z) : option (option Z) :=
  (* None = ran off the buffer (out-of-bounds read); Some None = not found; Some (Some i) = found *)
  match l with
  | [] => None
  | x :: t => if x =? c then Some (Some i) else if x =? 0 then Some None else strchr_m t c (i + 1)
  end.

(* qb_vsnprintf_serialize(serialize, max_len, fmt, ap); [garbage] = prior content of serialize[0..max_len) *)
Definition serialize (fx : bool) (max : Z) (fmt : list Z) (args : list arg) (garbage : list Z) : outcome :=
  let '(ob, k) := my_strlcpy_m fx 1 garbage 0 (cstr fmt) max in
  match ob with
  | None => OutOfBounds 1
  | Some b0 =>
    let loc := wrap32 (k + 1) in
    match strchr_m b0 LF_XC 0 with
    | None => OutOfBounds 4
    | Some found =>
      (* QB_XC: '|' when extended information follows, end of the format otherwise.
         fix: in the second case the arguments start right after the new end of the format *)
      let b1 := match found with
                | None => Some b0
                | Some i => store b0 i (if rd b0 (i + 1) =? 0 then 0 else 124)
                end in
      let loc1 := match found with
                  | Some i => if fx && (rd b0 (i + 1) =? 0) then wrap32 (i + 1) else loc
                  | None => loc
                  end in
      match b1 with
      | None => OutOfBounds 1
      | Some b => ser_go fx max fmt SScan (mkS b loc1 0 false args)
      end
    end
  end.

(* ------------------------------------------------------------------ qb_vsnprintf_deserialize(_n) *)
(* kinds of the argument handed to snprintf: 1 integer (int / long / long long: the number of argument bytes
   tells which - libc sees the same register content for a long and a long long of equal size), 4 double, 5 unsigned char,
   6 string, 7 ptrdiff_t; the argument itself is the raw bytes taken from the record *)
Definition oracle := list Z -> Z -> list Z -> Z -> Z * list Z.   (* fmt, kind, arg bytes, n -> (ret, written) *)

Record dst := mkD {
  d_buf : list Z;     (* string[0 .. str_len) *)
  d_loc : Z;          (* uint32_t location *)
  d_pos : Z;          (* uint32_t data_pos *)
  d_hw : Z            (* 1 + largest index of the record read so far *)
}.

Inductive dmode :=
| DScan (lit : list Z)                                (* inside literal text; [lit] = bytes since [format], reversed *)
| DDir (mini : list Z) (fpos : Z) (tl tll : bool).    (* after reprocess:, fmt[] and fmt_pos *)

Definition blank_mini : list Z := repeat 0 (Z.to_nat LF_MINI_FORMAT_STR_LEN).

(* "goto stop" of the repaired decoder: string[location] = 0; return location + 1 *)
Definition des_stop (st : dst) : outcome :=
  match store (d_buf st) (d_loc st) 0 with
  | None => OutOfBounds 2
  | Some b => Done (d_loc st + 1) b (d_hw st)
  end.

(* strlen(string) as strlcat does it on the caller's buffer: None = runs off the buffer *)
Fixpoint strlen_m (l : list Z) (i : Z) : option Z :=
  match l with [] => None | x :: t => if x =? 0 then Some i else strlen_m t (i + 1) end.

(* end of the format: the rest of the literal text [lit] goes out.
   as found: my_strlcat(string, format, str_len) + 1 - appended after the first NUL of string[], wherever
   that is;   fix: copied to string[location]. *)
Definition des_finish (fx : bool) (n : Z) (lit : list Z) (st : dst) : outcome :=
  if fx then
    let '(ob, k) := my_strlcpy_m fx 2 (d_buf st) (d_loc st) lit (wrapsz (n - d_loc st)) in
    match ob with
    | None => OutOfBounds 2
    | Some b => Done (d_loc st + k + 1) b (d_hw st)
    end
  else
    match strlen_m (d_buf st) 0 with
    | None => OutOfBounds 5
    | Some curlen =>
      let addlen := zlen lit in
      let appendlen := wrapsz (n - curlen) in
      let ob := if 0 <? appendlen then fst (strlcpy_m 2 (d_buf st) curlen lit appendlen) else Some (d_buf st) in
      match ob with
      | None => OutOfBounds 2
      | Some b => Done (Z.min (curlen + addlen) (wrapsz (n - 1)) + 1) b (d_hw st)
      end
    end.

(* fix: top of the for(;;) loop: "if (location >= str_len) { string[str_len-1] = 0; return str_len; }" *)
Definition des_top (fx : bool) (n : Z) (st : dst) (k : dst -> outcome) : outcome :=
  if fx && (n <=? d_loc st) then
    match store (d_buf st) (n - 1) 0 with
    | None => OutOfBounds 2
    | Some b => Done n b (d_hw st)
    end
  else k st.

(* one conversion: "fmt[fmt_pos++] = *format; fmt[fmt_pos++] = 0; memcpy(&arg, &buf[data_pos], size);
   location += snprintf(&string[location], str_len - location, fmt, arg); data_pos += adv" *)
Definition des_conv (fx : bool) (snp : oracle) (rec : list Z) (blen n : Z)
           (mini : list Z) (fpos : Z) (c : Z) (kind : Z) (size adv : Z) (st : dst) (k : dst -> outcome) : outcome :=
  (* fix: the argument must lie inside the record *)
  if fx && (blen <? d_pos st + size) then des_stop st
  else
    match store mini fpos c with
    | None => OutOfBounds 3
    | Some m1 =>
      match store m1 (fpos + 1) 0 with
      | None => OutOfBounds 3
      | Some m2 =>
        let a := rd_bytes rec (d_pos st) (Z.to_nat size) in
        let '(r, w) := snp (cstr m2) kind a (wrapsz (n - d_loc st)) in
        match store_bytes (d_buf st) (d_loc st) w with
        | None => OutOfBounds 2
        | Some b =>
          des_top fx n (mkD b (wrap32 (d_loc st + r)) (wrap32 (d_pos st + adv)) (Z.max (d_hw st) (d_pos st + size))) k
        end
      end
    end.

(* put one character into fmt[] and stay in the directive *)
Definition des_put (mini : list Z) (fpos : Z) (c : Z) (k : list Z -> Z -> outcome) : outcome :=
  match store mini fpos c with
  | None => OutOfBounds 3
  | Some m1 => k m1 (fpos + 1)
  end.

Fixpoint des_go (fx : bool) (snp : oracle) (rec : list Z) (blen n : Z)
         (f : list Z) (m : dmode) (st : dst) : outcome :=
  match m with
  | DScan lit =>
    match f with
    | [] => des_finish fx n (rev lit) st
    | c :: f' =>
      match classify c with
      | CNul => des_finish fx n (rev lit) st
      | CPct =>
        (* copy from current to the next %   fix: bounded by the room left in string[] *)
        let l := rev lit in
        if fx && (wrapsz (n - d_loc st) <=? zlen l) then
          match store_bytes (d_buf st) (d_loc st) (takeZ (n - d_loc st - 1) l ++ [0]) with
          | None => OutOfBounds 2
          | Some b => Done n b (d_hw st)
          end
        else
          match store_bytes (d_buf st) (d_loc st) l with
          | None => OutOfBounds 2
          | Some b =>
            match store blank_mini 0 37 with
            | None => OutOfBounds 3
            | Some m0 =>
              des_go fx snp rec blen n f' (DDir m0 1 false false)
                     (mkD b (wrap32 (d_loc st + zlen l)) (d_pos st) (d_hw st))
            end
          end
      | _ => des_go fx snp rec blen n f' (DScan (c :: lit)) st
      end
    end
  | DDir mini fpos tl tll =>
    (* fix: "if (fmt_pos + 2 > MINI_FORMAT_STR_LEN) goto stop" at reprocess: *)
    if fx && (LF_MINI_FORMAT_STR_LEN <? fpos + 2) then des_stop st
    else
    match f with
    | [] => des_top fx n st (fun st' => des_finish fx n [] st')
    | c :: f' =>
      let next := fun st' => des_go fx snp rec blen n f' (DScan []) st' in
      match classify c with
      | CNul => des_top fx n st (fun st' => des_finish fx n [] st')
      | CFlag | CDot | CDigit =>
        des_put mini fpos c (fun m1 p1 => des_go fx snp rec blen n f' (DDir m1 p1 tl tll) st)
      | CStar =>
        if fx && (blen <? d_pos st + LF_SIZEOF_INT) then des_stop st
        else
          let v := to_signed (8 * LF_SIZEOF_INT) (le_val (rd_bytes rec (d_pos st) (Z.to_nat LF_SIZEOF_INT))) in
          let digits := dec v in
          let nn := wrapsz (LF_MINI_FORMAT_STR_LEN - fpos) in
          let w := if nn =? 0 then [] else takeZ (nn - 1) digits ++ [0] in
          match store_bytes mini fpos w with
          | None => OutOfBounds 3
          | Some m1 =>
            des_go fx snp rec blen n f' (DDir m1 (fpos + zlen digits) tl tll)
                   (mkD (d_buf st) (d_loc st) (wrap32 (d_pos st + LF_SIZEOF_INT))
                        (Z.max (d_hw st) (d_pos st + LF_SIZEOF_INT)))
          end
      | CEll =>
        des_put mini fpos c (fun m1 p1 =>
          match f' with
          | 108 :: _ => des_go fx snp rec blen n f' (DDir m1 p1 false true) st
          | _ => des_go fx snp rec blen n f' (DDir m1 p1 true tll) st
          end)
      | CZee =>
        des_put mini fpos c (fun m1 p1 =>
          if LF_SIZEOF_SIZE_T =? LF_SIZEOF_LLONG then des_go fx snp rec blen n f' (DDir m1 p1 false true) st
          else des_go fx snp rec blen n f' (DDir m1 p1 true false) st)
      | CTee =>
        des_put mini fpos c (fun m1 p1 =>
          if LF_SIZEOF_PTRDIFF =? LF_SIZEOF_LLONG then des_go fx snp rec blen n f' (DDir m1 p1 tl true) st
          else des_go fx snp rec blen n f' (DDir m1 p1 true tll) st)
      | CJay =>
        des_put mini fpos c (fun m1 p1 =>
          if LF_SIZEOF_INTMAX =? LF_SIZEOF_LLONG then des_go fx snp rec blen n f' (DDir m1 p1 tl true) st
          else des_go fx snp rec blen n f' (DDir m1 p1 true tll) st)
      | CInt =>
        if tl then des_conv fx snp rec blen n mini fpos c 1 LF_SIZEOF_LONG LF_SIZEOF_LONG st next
        else if tll then des_conv fx snp rec blen n mini fpos c 1 LF_SIZEOF_LLONG LF_SIZEOF_LLONG st next
        else des_conv fx snp rec blen n mini fpos c 1 LF_SIZEOF_INT LF_SIZEOF_INT st next
      | CDbl => des_conv fx snp rec blen n mini fpos c 4 LF_SIZEOF_DOUBLE LF_SIZEOF_DOUBLE st next
      | CChr => des_conv fx snp rec blen n mini fpos c 5 LF_SIZEOF_UCHAR LF_SIZEOF_UCHAR st next
      | CPtr => des_conv fx snp rec blen n mini fpos c 7 LF_SIZEOF_PTRDIFF LF_SIZEOF_VOIDP st next
      | CStr =>
        (* fix: the string must be NUL-terminated inside the record *)
        let s := cstr_at rec (d_pos st) in
        if fx && ((blen <? d_pos st + 1) || (blen - d_pos st <=? zlen s)) then
          (* strnlen read up to the end of the record (or nothing at all) *)
          des_stop (mkD (d_buf st) (d_loc st) (d_pos st)
                        (if blen <? d_pos st + 1 then d_hw st else Z.max (d_hw st) blen))
        else
          match store mini fpos c with
          | None => OutOfBounds 3
          | Some m1 =>
            match store m1 (fpos + 1) 0 with
            | None => OutOfBounds 3
            | Some m2 =>
              let '(r, w) := snp (cstr m2) 6 s (wrapsz (n - d_loc st)) in
              match store_bytes (d_buf st) (d_loc st) w with
              | None => OutOfBounds 2
              | Some b =>
                des_top fx n (mkD b (wrap32 (d_loc st + r)) (wrap32 (d_pos st + zlen s + 1))
                                  (Z.max (d_hw st) (d_pos st + zlen s + 1))) next
              end
            end
          end
      | CPct =>
        match store (d_buf st) (d_loc st) 37 with
        | None => OutOfBounds 2
        | Some b => des_top fx n (mkD b (wrap32 (d_loc st + 1)) (d_pos st) (d_hw st)) next
        end
      | COther =>
        (* no case: the switch is left, the character is the first byte of the next literal run *)
        des_top fx n st (fun st' => des_go fx snp rec blen n f' (DScan [c]) st')
      end
    end
  end.

(* qb_vsnprintf_deserialize_n(string, str_len, buf, buf_len); the classic entry point is buf_len = SIZE_MAX
   (as found there is no buf_len at all: [fx = false] ignores it).  [rec] = the memory from buf onwards,
   [garbage] = prior content of string[0..str_len). *)
Definition deserialize (fx : bool) (snp : oracle) (rec : list Z) (blen n : Z) (garbage : list Z) : outcome :=
  match store garbage 0 0 with
  | None => OutOfBounds 2
  | Some b0 =>
    let fm := cstr rec in
    if fx && (blen <=? zlen fm) then
      (* fix: strnlen(buf, buf_len) == buf_len: no terminated format inside the record *)
      Done 1 b0 blen
    else
      let fl := zlen fm in
      des_top fx n (mkD b0 0 (wrap32 (fl + 1)) (fl + 1))
              (fun st => des_go fx snp rec blen n fm (DScan []) st)
  end.

(* ------------------------------------------------------------------ snprintf as the decoder sees it *)
(* an oracle that renders like C's snprintf from an un-truncated rendering [render1] *)
Definition snp_of (render1 : list Z -> Z -> list Z -> list Z) : oracle :=
  fun fmt kind a n =>
    let r := render1 fmt kind a in
    (zlen r, if n =? 0 then [] else takeZ (n - 1) r ++ [0]).

(* weakest contract the bounds theorem needs: never more than n bytes are written *)
Definition snp_writes_at_most_n (snp : oracle) : Prop :=
  forall fmt kind a n, 0 <= n -> zlen (snd (snp fmt kind a n)) <= n.

(* ------------------------------------------------------------------ reference: what printf prints *)
(* printf_spec walks the format with the C grammar  % flags* width? (. precision?)? length? conversion ;
   a '*' takes an int argument and stands for its decimal text; one conversion is rendered by
   [render1 directive-text kind argument-bytes]; "%%" is '%'.  A %s with a literal precision P > 0 is
   rendered from the first P bytes of the string (ISO C: no more than P bytes are read or written), a
   NULL string as the text "(null)" (what the serializer stores by design).  Formats / arguments outside the
   supported grammar are excluded by [args_match] (SerSpec), not given a meaning here. *)
Record pdir := mkP {
  p_acc : list Z;      (* text of the directive so far, '*' replaced by the decimal text of its argument *)
  p_l : Z;             (* number of 'l' seen; 2 also for z, t, j *)
  p_prec : bool;       (* a '.' was seen *)
  p_plen : Z           (* value of the literal precision digits *)
}.

Inductive pmode := PLit | PDir (d : pdir).

Definition null_text : list Z := [40; 110; 117; 108; 108; 41].

(* the next argument of the list (an exhausted list yields int 0, as the model's va_arg does) *)
Definition next_arg (args : list arg) : arg * list arg :=
  match args with [] => (AInt 0, []) | a :: t => (a, t) end.

(* the bytes of a scalar argument of [size] bytes *)
Definition scalar_bytes (size : Z) (a : arg) : list Z := le_bytes (Z.to_nat size) (arg_raw a).

Definition int_size (d : pdir) : Z :=
  if p_l d =? 0 then LF_SIZEOF_INT else if p_l d =? 1 then LF_SIZEOF_LONG else LF_SIZEOF_LLONG.

Definition str_arg (d : pdir) (a : arg) : list Z :=
  match a with
  | AStr s => if p_plen d =? 0 then cstr s else takeZ (p_plen d) (cstr s)
  | _ => null_text
  end.

Definition pd_add (d : pdir) (t : list Z) : pdir := mkP (p_acc d ++ t) (p_l d) (p_prec d) (p_plen d).

Fixpoint printf_spec (render1 : list Z -> Z -> list Z -> list Z) (f : list Z) (m : pmode) (args : list arg) : list Z :=
  match f with
  | [] => []
  | c :: f' =>
    match m with
    | PLit =>
      match classify c with
      | CNul => []
      | CPct => printf_spec render1 f' (PDir (mkP [37] 0 false 0)) args
      | _ => c :: printf_spec render1 f' PLit args
      end
    | PDir d =>
      let '(a, args') := next_arg args in
      let conv := fun kind (bytes : list Z) => render1 (p_acc d ++ [c]) kind bytes ++ printf_spec render1 f' PLit args' in
      match classify c with
      | CFlag => printf_spec render1 f' (PDir (pd_add d [c])) args
      | CDot => printf_spec render1 f' (PDir (mkP (p_acc d ++ [c]) (p_l d) true (p_plen d))) args
      | CDigit =>
        printf_spec render1 f'
                    (PDir (mkP (p_acc d ++ [c]) (p_l d) (p_prec d)
                               (if p_prec d then p_plen d * 10 + (c - 48) else p_plen d))) args
      | CStar => printf_spec render1 f' (PDir (pd_add d (dec (to_signed (8 * LF_SIZEOF_INT) (arg_raw a))))) args'
      | CEll => printf_spec render1 f' (PDir (mkP (p_acc d ++ [c]) (p_l d + 1) (p_prec d) (p_plen d))) args
      | CZee | CTee | CJay => printf_spec render1 f' (PDir (mkP (p_acc d ++ [c]) 2 (p_prec d) (p_plen d))) args
      | CInt => conv 1 (scalar_bytes (int_size d) a)
      | CDbl => conv 4 (scalar_bytes LF_SIZEOF_DOUBLE a)
      | CChr => conv 5 (scalar_bytes LF_SIZEOF_UCHAR a)
      | CPtr => conv 7 (scalar_bytes LF_SIZEOF_PTRDIFF a)
      | CStr => conv 6 (str_arg d a)
      | CPct => 37 :: printf_spec render1 f' PLit args
      | CNul | COther => []
      end
    end
  end.

(* the decoded text: the bytes before the terminating NUL that the return value points at *)
Definition out_text (o : outcome) : list Z :=
  match o with Done ret buf _ => takeZ (ret - 1) buf | OutOfBounds _ => [] end.

Definition out_record (max : Z) (o : outcome) : list Z :=
  match o with Done ret buf _ => takeZ (Z.min ret max) buf | OutOfBounds _ => [] end.

Definition is_oob (o : outcome) : bool := match o with OutOfBounds _ => true | Done _ _ _ => false end.
Definition out_ret (o : outcome) : Z := match o with Done ret _ _ => ret | OutOfBounds _ => -1 end.
