(* MapSkipModel - executable transcription of lib/skiplist.c behind lib/map.c (C17 / C18).  Model only.

   Layer B (this file, first part): the pointer structure.  Nodes and their SEPARATELY allocated forward
   arrays are heap cells with an allocation status; every access goes through [dnode] / [darr], which yield
   UseAfterFree / UseAfterFreeArr for a freed cell.  Levels come from the random() oracle: the answers the
   implementation drew are an argument of [k_step].
   Three repairs are modelled as flags (variant [kv_orig] = repository code at the time of writing,
   [kv_fixed] = with fixes/C17-skiplist-iter-free-release.patch (kx_iter_free),
   fixes/C17-skiplist-destroy-header-notify.patch (kx_hdr_notify) and
   fixes/C18-skiplist-removed-node-successor.patch (kx_removed) applied).

   Layer A (second part): the skiplist seen as a sorted association list; an iterator is the last key it
   returned.  The C17 / C18 theorems for the skiplist are proved about layer A (MapSkipProofs.v); BOTH layers
   are run against the implementation by the correspondence check.                                        *)
From Coq Require Import List NArith ZArith Bool Arith.
Require Import Verif.MapSpec Verif.MapHashModel.
Import ListNotations.

Record kvariant := { kx_iter_free : bool; kx_hdr_notify : bool; kx_removed : bool }.
Definition kv_orig := {| kx_iter_free := false; kx_hdr_notify := false; kx_removed := false |}.
Definition kv_fixed := {| kx_iter_free := true; kx_hdr_notify := true; kx_removed := true |}.

(* struct skiplist_node; key = None for the header (NULL) *)
Record snode := { sn_key : option key; sn_val : val; sn_level : Z; sn_ref : nat; sn_subs : list nsub; sn_fwd : nat }.
Record scell := { sc_live : bool; sc_node : snode }.
Record farr := { fa_live : bool; fa_ptrs : list (option nat) }.

Record kstate := {
  k_nodes : list scell;
  k_arrs : list farr;
  k_length : Z;                        (* size_t length *)
  k_level : Z;                         (* int8_t level *)
  k_iters : list (nat * option nat);   (* caller-held iterators: si->n *)
  k_used : list nat;
  k_alive : bool
}.
Definition HEADER : nat := 0.
Definition LEVEL_MAX : nat := 8.

Definition dnode (s : kstate) (id : nat) : res snode :=
  match nth_error (k_nodes s) id with
  | Some c => if sc_live c then Ok (sc_node c) else Err (UseAfterFree id)
  | None => Err (OutOfBounds id)
  end.
Definition darr (s : kstate) (a : nat) : res (list (option nat)) :=
  match nth_error (k_arrs s) a with
  | Some c => if fa_live c then Ok (fa_ptrs c) else Err (UseAfterFreeArr a)
  | None => Err (OutOfBounds a)
  end.
(* node->forward[lvl] *)
Definition fwd (s : kstate) (id : nat) (lvl : nat) : res (option nat) :=
  do n <- dnode s id; do a <- darr s (sn_fwd n);
  match nth_error a lvl with Some p => Ok p | None => Err (OutOfBounds lvl) end.

Definition set_nodes (s : kstate) (x : list scell) : kstate :=
  {| k_nodes := x; k_arrs := k_arrs s; k_length := k_length s; k_level := k_level s; k_iters := k_iters s;
     k_used := k_used s; k_alive := k_alive s |}.
Definition set_arrs (s : kstate) (x : list farr) : kstate :=
  {| k_nodes := k_nodes s; k_arrs := x; k_length := k_length s; k_level := k_level s; k_iters := k_iters s;
     k_used := k_used s; k_alive := k_alive s |}.
Definition set_level (s : kstate) (x : Z) : kstate :=
  {| k_nodes := k_nodes s; k_arrs := k_arrs s; k_length := k_length s; k_level := x; k_iters := k_iters s;
     k_used := k_used s; k_alive := k_alive s |}.
Definition set_length (s : kstate) (x : Z) : kstate :=
  {| k_nodes := k_nodes s; k_arrs := k_arrs s; k_length := x; k_level := k_level s; k_iters := k_iters s;
     k_used := k_used s; k_alive := k_alive s |}.
Definition set_kiters (s : kstate) (x : list (nat * option nat)) : kstate :=
  {| k_nodes := k_nodes s; k_arrs := k_arrs s; k_length := k_length s; k_level := k_level s; k_iters := x;
     k_used := k_used s; k_alive := k_alive s |}.

Definition put_node (s : kstate) (id : nat) (n : snode) : kstate :=
  set_nodes s (upd (k_nodes s) id {| sc_live := true; sc_node := n |}).
(* node->forward[lvl] = p *)
Definition set_fwd (s : kstate) (id : nat) (lvl : nat) (p : option nat) : res kstate :=
  do n <- dnode s id; do a <- darr s (sn_fwd n);
  if Nat.ltb lvl (length a) then Ok (set_arrs s (upd (k_arrs s) (sn_fwd n) {| fa_live := true; fa_ptrs := upd a lvl p |}))
  else Err (OutOfBounds lvl).
Definition free_arr (s : kstate) (a : nat) : res kstate :=
  do ptrs <- darr s a;       (* free() of a freed block is an error too *)
  Ok (set_arrs s (upd (k_arrs s) a {| fa_live := false; fa_ptrs := ptrs |})).
Definition free_node (s : kstate) (id : nat) : res kstate :=
  do n <- dnode s id; Ok (set_nodes s (upd (k_nodes s) id {| sc_live := false; sc_node := n |})).

(* skiplist_node_new *)
Definition node_new (s : kstate) (level : Z) (k : option key) (x : val) : kstate * nat :=
  let a := length (k_arrs s) in
  let id := length (k_nodes s) in
  let n := {| sn_key := k; sn_val := x; sn_level := level; sn_ref := 1; sn_subs := []; sn_fwd := a |} in
  (set_nodes (set_arrs s (k_arrs s ++ [{| fa_live := true; fa_ptrs := repeat None (S LEVEL_MAX) |}]))
             (k_nodes s ++ [{| sc_live := true; sc_node := n |}]), id).

(* qb_skiplist_create *)
Definition k_create : kstate :=
  fst (node_new {| k_nodes := []; k_arrs := []; k_length := 0; k_level := 0; k_iters := []; k_used := []; k_alive := true |}
                (Z.of_nat LEVEL_MAX) None 0%N).

(* skiplist_level_generate: count the leading answers with (uint16_t)random() < P_CEIL = UINT16_MAX / 4 *)
Definition P_CEIL : Z := 16383.
Fixpoint level_generate (oracle : list Z) (acc : nat) : nat :=
  match oracle with
  | [] => acc
  | r :: t => if Z.ltb (r mod 65536) P_CEIL then level_generate t (S acc) else acc
  end.
Definition new_level (oracle : list Z) : nat := Nat.min (level_generate oracle 0) LEVEL_MAX.

Inductive sop := GotoNextLevel | GotoNextNode | Finish.
(* op_search *)
Definition op_search (s : kstate) (f : option nat) (k : key) : res sop :=
  match f with
  | None => Ok GotoNextLevel
  | Some id =>
    do n <- dnode s id;
    match sn_key n with
    | None => Err NullDeref       (* strcmp(NULL, ..): only the header has no key and it is never a forward node *)
    | Some nk => if key_ltb nk k then Ok GotoNextNode else if key_eqb nk k then Ok Finish else Ok GotoNextLevel
    end
  end.

(* the common search loop of skiplist_lookup / skiplist_put / skiplist_rm.
   stop_at_match = true: OP_FINISH ends the search (lookup, put); false: it is treated as "next level" (rm).
   Returns (match, cur_node, update vector as level -> node). *)
Definition upd_vec := list (nat * nat).
Definition uv_get (u : upd_vec) (lvl : nat) : option nat :=
  match find (fun p => Nat.eqb (fst p) lvl) u with Some p => Some (snd p) | None => None end.

Fixpoint search (fuel : nat) (s : kstate) (stop_at_match : bool) (k : key) (cur : nat) (level : Z) (u : upd_vec)
  : res (option nat * nat * upd_vec) :=
  match fuel with
  | O => Err OutOfFuel
  | S fuel' =>
    if Z.ltb level 0 then Ok (None, cur, u) else
    let lv := Z.to_nat level in
    do f <- fwd s cur lv;
    do o <- op_search s f k;
    match o with
    | Finish => if stop_at_match then Ok (f, cur, u)
                else search fuel' s stop_at_match k cur (level - 1) ((lv, cur) :: u)
    | GotoNextNode => match f with
                      | Some fid => search fuel' s stop_at_match k fid level ((lv, fid) :: u)
                      | None => Err NullDeref
                      end
    | GotoNextLevel => search fuel' s stop_at_match k cur (level - 1) ((lv, cur) :: u)
    end
  end.
Definition search_fuel (s : kstate) : nat := 12 * (length (k_nodes s) + 2).

(* skiplist_lookup *)
Definition k_lookup (s : kstate) (k : key) : res (option nat) :=
  do '(m, _, _) <- search (search_fuel s) s true k HEADER (k_level s) []; Ok m.

(* skiplist_node_next: forward[0], skipping nodes with refcount 0 *)
Fixpoint node_next (fuel : nat) (s : kstate) (id : nat) : res (option nat) :=
  match fuel with
  | O => Err OutOfFuel
  | S fuel' =>
    do f <- fwd s id 0;
    match f with
    | None => Ok None
    | Some x => do n <- dnode s x; if Nat.eqb (sn_ref n) 0 then node_next fuel' s x else Ok (Some x)
    end
  end.

(* skiplist_lookup_after (added by the repair): first node with a key greater than k *)
Fixpoint lookup_after_level (fuel : nat) (s : kstate) (k : key) (cur : nat) (lv : nat) : res nat :=
  match fuel with
  | O => Err OutOfFuel
  | S fuel' =>
    do f <- fwd s cur lv;
    match f with
    | None => Ok cur
    | Some x =>
      do n <- dnode s x;
      match sn_key n with
      | None => Err NullDeref
      | Some nk => if key_ltb k nk then Ok cur else lookup_after_level fuel' s k x lv     (* strcmp(nk, k) <= 0: advance *)
      end
    end
  end.
Fixpoint lookup_after_levels (s : kstate) (k : key) (cur : nat) (lvls : list nat) : res nat :=
  match lvls with
  | [] => Ok cur
  | lv :: t => do c <- lookup_after_level (search_fuel s) s k cur lv; lookup_after_levels s k c t
  end.
Definition levels_down (level : Z) : list nat := if Z.ltb level 0 then [] else rev (seq 0 (S (Z.to_nat level))).
Definition k_lookup_after (s : kstate) (k : key) : res (option nat) :=
  do c <- lookup_after_levels s k HEADER (levels_down (k_level s)); fwd s c 0.

(* skiplist_notify: node callbacks, then the header's (= global) callbacks *)
Definition k_notify (s : kstate) (n : snode) (ev : N) (k : key) (old new : val) : res (list notif) :=
  do h <- dnode s HEADER;
  Ok (notify_node (sn_subs n) ev k old new ++ notify_global (sn_subs h) ev k old new).

Section Skip.
Variable v : kvariant.

(* skiplist_node_destroy *)
Definition k_node_destroy (s : kstate) (id : nat) : res (kstate * list notif) :=
  do n <- dnode s id;
  do ns <- (if kx_hdr_notify v && Nat.eqb id HEADER then Ok []
            else match sn_key n with
                 | Some k => k_notify s n EV_DELETED k (sn_val n) 0%N
                 | None =>
                   (* the header: key NULL, value NULL - reported with the empty key marker by the harness ("-") *)
                   do h <- dnode s HEADER;
                   Ok (map (fun x => {| n_fn := n_fn x; n_ud := n_ud x; n_event := n_event x; n_key := [256%N];
                                        n_old := n_old x; n_new := n_new x |})
                           (notify_node (sn_subs n) EV_DELETED [] (sn_val n) 0%N ++
                            notify_global (sn_subs h) EV_DELETED [] (sn_val n) 0%N))
                 end);
  do s1 <- (if kx_removed v then free_arr s (sn_fwd n)
            else if Z.leb 0 (sn_level n) || Z.ltb (k_level s) 0 then free_arr s (sn_fwd n) else Ok s);
  do s2 <- free_node s1 id;
  Ok (s2, ns).

(* skiplist_node_deref *)
Definition k_node_deref (s : kstate) (id : nat) : res (kstate * list notif) :=
  do n <- dnode s id;
  match sn_ref n with
  | O => Err (RefUnderflow id)
  | S r =>
    let s1 := put_node s id {| sn_key := sn_key n; sn_val := sn_val n; sn_level := sn_level n; sn_ref := r;
                               sn_subs := sn_subs n; sn_fwd := sn_fwd n |} in
    match r with O => k_node_destroy s1 id | S _ => Ok (s1, []) end
  end.

Definition k_get (s : kstate) (k : key) : res val :=
  do m <- k_lookup s k;
  match m with Some id => do n <- dnode s id; Ok (sn_val n) | None => Ok 0%N end.

(* linking loop of skiplist_put: for level = 0 .. new_level *)
Fixpoint link_levels (s : kstate) (u : upd_vec) (new : nat) (lvls : list nat) : res kstate :=
  match lvls with
  | [] => Ok s
  | lv :: t =>
    match uv_get u lv with
    | None => Err NullDeref                    (* update[level] uninitialised *)
    | Some p =>
      do f <- fwd s p lv;
      do s1 <- set_fwd s new lv f;
      do s2 <- set_fwd s1 p lv (Some new);
      link_levels s2 u new t
    end
  end.

(* skiplist_put *)
Definition k_put (s : kstate) (k : key) (x : val) (oracle : list Z) : res (kstate * list notif) :=
  do '(m, _, u) <- search (search_fuel s) s true k HEADER (k_level s) [];
  match m with
  | Some id =>
    do n <- dnode s id;
    let n' := {| sn_key := Some k; sn_val := x; sn_level := sn_level n; sn_ref := sn_ref n; sn_subs := sn_subs n;
                 sn_fwd := sn_fwd n |} in
    let s1 := put_node s id n' in
    match sn_key n with
    | Some ok => do ns <- k_notify s1 n' EV_REPLACED ok (sn_val n) x; Ok (s1, ns)
    | None => Err NullDeref
    end
  | None =>
    let nl := new_level oracle in
    let '(u1, s1) :=
      if Z.ltb (k_level s) (Z.of_nat nl)
      then (map (fun l => (l, HEADER)) (seq (Z.to_nat (k_level s + 1)) (S nl - Z.to_nat (k_level s + 1))) ++ u,
            set_level s (Z.of_nat nl))
      else (u, s) in
    let '(s2, id) := node_new s1 (Z.of_nat nl) (Some k) x in
    do n <- dnode s2 id;
    do ns <- k_notify s2 n EV_INSERTED k 0%N x;
    do s3 <- link_levels s2 u1 id (seq 0 (S nl));
    Ok (set_length s3 (wrap64 (k_length s3 + 1)), ns)
  end.

(* the splice loop of skiplist_rm: for level = 0 .. list->level *)
Fixpoint splice_levels (s : kstate) (u : upd_vec) (found : nat) (lvls : list nat) : res kstate :=
  match lvls with
  | [] => Ok s
  | lv :: t =>
    match uv_get u lv with
    | None => Err NullDeref
    | Some p =>
      do f <- fwd s p lv;
      do s1 <- (if match f with Some x => Nat.eqb x found | None => false end
                then do g <- fwd s found lv; set_fwd s p lv g else Ok s);
      splice_levels s1 u found t
    end
  end.

(* the takeover loop of the unrepaired skiplist_rm: found->forward[l] = cur->forward[l], l = 0 .. found->level *)
Fixpoint takeover_levels (s : kstate) (found cur : nat) (lvls : list nat) : res kstate :=
  match lvls with
  | [] => Ok s
  | lv :: t => do f <- fwd s cur lv; do s1 <- set_fwd s found lv f; takeover_levels s1 found cur t
  end.

(* "remove unused levels" loop *)
Fixpoint shrink_levels (s : kstate) (lvls : list nat) : res kstate :=
  match lvls with
  | [] => Ok s
  | lv :: t => do f <- fwd s HEADER lv;
               match f with Some _ => Ok s | None => shrink_levels (set_level s (k_level s - 1)) t end
  end.

(* skiplist_rm *)
Definition k_rm (s : kstate) (k : key) : res (kstate * bool * list notif) :=
  do '(_, cur, u) <- search (search_fuel s) s false k HEADER (k_level s) [];
  do fo <- node_next (search_fuel s) s cur;
  match fo with
  | None => Ok (s, false, [])
  | Some found =>
    do fn <- dnode s found;
    match sn_key fn with
    | None => Err NullDeref
    | Some fk =>
      if negb (key_eqb fk k) then Ok (s, false, []) else
      do s1 <- splice_levels s u found (seq 0 (S (Z.to_nat (k_level s))));
      do s2 <-
        (if kx_removed v then
           do fn1 <- dnode s1 found;
           Ok (put_node s1 found {| sn_key := sn_key fn1; sn_val := sn_val fn1; sn_level := -1; sn_ref := sn_ref fn1;
                                    sn_subs := sn_subs fn1; sn_fwd := sn_fwd fn1 |})
         else
           do fn1 <- dnode s1 found;
           do cn <- dnode s1 cur;
           if Nat.ltb 1 (sn_ref fn1) || match sn_key cn with None => true | Some _ => false end then
             do sa <- takeover_levels s1 found cur (if Z.ltb (sn_level fn1) 0 then [] else seq 0 (S (Z.to_nat (sn_level fn1))));
             do fn2 <- dnode sa found;
             let sb := put_node sa found {| sn_key := sn_key fn2; sn_val := sn_val fn2; sn_level := -1; sn_ref := sn_ref fn2;
                                            sn_subs := sn_subs fn2; sn_fwd := sn_fwd fn2 |} in
             do cn2 <- dnode sb cur;
             do sc <- free_arr sb (sn_fwd cn2);
             Ok (put_node sc cur {| sn_key := sn_key cn2; sn_val := sn_val cn2; sn_level := sn_level cn2; sn_ref := sn_ref cn2;
                                    sn_subs := sn_subs cn2; sn_fwd := sn_fwd fn2 |})
           else Ok s1);
      do '(s3, ns) <- k_node_deref s2 found;
      do s4 <- shrink_levels s3 (if Z.ltb (k_level s3) 0 then [] else rev (seq 0 (S (Z.to_nat (k_level s3)))));
      Ok (set_length s4 (wrap64 (k_length s4 - 1)), true, ns)
    end
  end.

(* skiplist_notify_add behind qb_map_notify_add *)
Definition k_notify_add (rc_einval rc_eexist : Z) (s : kstate) (k : option key) (fn ev ud : N) : res (kstate * Z) :=
  let f := {| ns_fn := fn; ns_events := ev; ns_ud := ud |} in
  if match k with Some _ => has_bit ev EV_FREE | None => false end then Ok (s, rc_einval) else
  do tgt <- match k with Some kk => k_lookup s kk | None => Ok (Some HEADER) end;
  match tgt with
  | None => Ok (s, rc_einval)
  | Some id =>
    do n <- dnode s id;
    if nsub_conflict (sn_subs n) fn ev ud then Ok (s, rc_eexist)
    else Ok (put_node s id {| sn_key := sn_key n; sn_val := sn_val n; sn_level := sn_level n; sn_ref := sn_ref n;
                              sn_subs := nsub_insert (sn_subs n) f; sn_fwd := sn_fwd n |}, 0%Z)
  end.

(* skiplist_notify_del *)
Definition k_notify_del (rc_enoent : Z) (s : kstate) (k : option key) (fn ev : N) (ud : option N) : res (kstate * Z) :=
  do tgt <- match k with Some kk => k_lookup s kk | None => Ok (Some HEADER) end;
  match tgt with
  | None => Ok (s, rc_enoent)
  | Some id =>
    do n <- dnode s id;
    if existsb (nsub_match fn ev ud) (sn_subs n)
    then Ok (put_node s id {| sn_key := sn_key n; sn_val := sn_val n; sn_level := sn_level n; sn_ref := sn_ref n;
                              sn_subs := filter (fun f => negb (nsub_match fn ev ud f)) (sn_subs n); sn_fwd := sn_fwd n |}, 0%Z)
    else Ok (s, rc_enoent)
  end.

(* skiplist_iter_create: i->n = header; refcount++ *)
Definition k_iter_create (s : kstate) : res kstate :=
  do h <- dnode s HEADER;
  Ok (put_node s HEADER {| sn_key := sn_key h; sn_val := sn_val h; sn_level := sn_level h; sn_ref := S (sn_ref h);
                           sn_subs := sn_subs h; sn_fwd := sn_fwd h |}).

(* skiplist_iter_next on position [pos] (= si->n) *)
Definition k_iter_next (s : kstate) (pos : option nat) : res (kstate * option nat * option (key * val) * list notif) :=
  match pos with
  | None => Ok (s, None, None, [])
  | Some p =>
    do pn <- dnode s p;
    do nx <- (if kx_removed v && Z.ltb (sn_level pn) 0
              then match sn_key pn with Some pk => k_lookup_after s pk | None => Err NullDeref end
              else node_next (search_fuel s) s p);
    match nx with
    | None => do '(s1, ns) <- k_node_deref s p; Ok (s1, None, None, ns)
    | Some x =>
      do xn <- dnode s x;
      let s1 := put_node s x {| sn_key := sn_key xn; sn_val := sn_val xn; sn_level := sn_level xn; sn_ref := S (sn_ref xn);
                                sn_subs := sn_subs xn; sn_fwd := sn_fwd xn |} in
      do '(s2, ns) <- k_node_deref s1 p;
      do xn2 <- dnode s2 x;
      match sn_key xn2 with
      | Some xk => Ok (s2, Some x, Some (xk, sn_val xn2), ns)
      | None => Err NullDeref
      end
    end
  end.

Definition k_iter_free (s : kstate) (pos : option nat) : res (kstate * list notif) :=
  if kx_iter_free v then match pos with Some p => k_node_deref s p | None => Ok (s, []) end
  else Ok (s, []).

Fixpoint k_foreach_loop (fuel : nat) (s : kstate) (pos : option nat) (stop calls : nat) (acc : list (key * val)) (nacc : list notif)
  : res (kstate * option nat * list (key * val) * list notif) :=
  match fuel with
  | O => Err OutOfFuel
  | S fuel' =>
    do '(s1, pos1, r, ns) <- k_iter_next s pos;
    match r with
    | None => Ok (s1, pos1, rev acc, nacc ++ ns)
    | Some e =>
      let calls' := S calls in
      if negb (Nat.eqb stop 0) && Nat.leb stop calls' then Ok (s1, pos1, rev (e :: acc), nacc ++ ns)
      else k_foreach_loop fuel' s1 pos1 stop calls' (e :: acc) (nacc ++ ns)
    end
  end.
Definition k_foreach (s : kstate) (stop : nat) : res (kstate * list (key * val) * list notif) :=
  do s0 <- k_iter_create s;
  do '(s1, pos1, l, ns) <- k_foreach_loop (S (S (length (k_nodes s)))) s0 (Some HEADER) stop 0 [] [];
  do '(s2, ns2) <- k_iter_free s1 pos1;
  Ok (s2, l, ns ++ ns2).

(* skiplist_destroy *)
Fixpoint k_destroy_loop (fuel : nat) (s : kstate) (cur : option nat) : res (kstate * list notif) :=
  match fuel with
  | O => Err OutOfFuel
  | S fuel' =>
    match cur with
    | None => Ok (s, [])
    | Some c =>
      do f <- node_next (search_fuel s) s c;
      do '(s1, ns) <- k_node_destroy s c;
      do '(s2, ns2) <- k_destroy_loop fuel' s1 f;
      Ok (s2, ns ++ ns2)
    end
  end.
Definition k_destroy (s : kstate) : res (kstate * list notif) :=
  let s0 := if kx_removed v then s else set_level s (-1) in
  do first <- node_next (search_fuel s0) s0 HEADER;
  do '(s1, ns) <- k_destroy_loop (S (length (k_nodes s0))) s0 first;
  do '(s2, ns2) <- k_node_destroy s1 HEADER;
  Ok ({| k_nodes := k_nodes s2; k_arrs := k_arrs s2; k_length := k_length s2; k_level := k_level s2; k_iters := [];
         k_used := k_used s2; k_alive := false |}, ns ++ ns2).

Fixpoint kiter_lookup (l : list (nat * option nat)) (it : nat) : option (option nat) :=
  match l with
  | [] => None
  | (i, p) :: t => if Nat.eqb i it then Some p else kiter_lookup t it
  end.

Definition k_step (rc : Z * Z * Z) (s : kstate) (o : op) (oracle : list Z) : res (kstate * out * list notif) :=
  let '(rc_einval, rc_enoent, rc_eexist) := rc in
  if negb (k_alive s) then Ok (s, OIgnored, []) else
  match o with
  | Put k x => do '(s', ns) <- k_put s k x oracle; Ok (s', ONone, ns)
  | Get k => do x <- k_get s k; Ok (s, OVal x, [])
  | Rm k => do '(s', b, ns) <- k_rm s k; Ok (s', OBool b, ns)
  | Count => Ok (s, OCount (Z.to_N (k_length s)), [])
  | Foreach stop => do '(s', l, ns) <- k_foreach s stop; Ok (s', OEntries l, ns)
  | NotifyAdd k fn ev ud => do '(s', r) <- k_notify_add rc_einval rc_eexist s k fn ev ud; Ok (s', ORc r, [])
  | NotifyDel k fn ev ud => do '(s', r) <- k_notify_del rc_enoent s k fn ev ud; Ok (s', ORc r, [])
  | Destroy => do '(s', ns) <- k_destroy s; Ok (s', ONone, ns)
  | IterCreate it _ =>
    if existsb (Nat.eqb it) (k_used s) then Ok (s, OIgnored, [])
    else do s1 <- k_iter_create s;
         Ok ({| k_nodes := k_nodes s1; k_arrs := k_arrs s1; k_length := k_length s1; k_level := k_level s1;
                k_iters := (it, Some HEADER) :: k_iters s1; k_used := it :: k_used s1; k_alive := true |}, ONone, [])
  | IterNext it =>
    match kiter_lookup (k_iters s) it with
    | None => Ok (s, OIgnored, [])
    | Some pos =>
      do '(s1, pos1, r, ns) <- k_iter_next s pos;
      Ok (set_kiters s1 (map (fun p => if Nat.eqb (fst p) it then (it, pos1) else p) (k_iters s1)), ONext r, ns)
    end
  | IterFree it =>
    match kiter_lookup (k_iters s) it with
    | None => Ok (s, OIgnored, [])
    | Some pos =>
      do '(s1, ns) <- k_iter_free s pos;
      Ok (set_kiters s1 (filter (fun p => negb (Nat.eqb (fst p) it)) (k_iters s1)), ONone, ns)
    end
  end.

End Skip.

Require Import Verif.gen.Consts_map.
Definition skip_exec_step (fixed : bool) : kstate -> op -> list Z -> res (kstate * out * list notif) :=
  k_step (if fixed then kv_fixed else kv_orig) rc_consts.
