(* C08 - descriptors and signals, step lemmas: a ready watched descriptor is queued; after its callback it is watched
   again unless it was deleted or the callback returned a negative value; one clone per delivered signal and matching
   registration. *)
Require Import ZArith List Bool Lia.
Require Import Verif.gen.Consts_loop Verif.LoopModel Verif.LoopProofs_C08a.
Import ListNotations.
Open Scope Z_scope.

Lemma handle_split : forall c i, 0 <= Z.of_nat i < TWO32 ->
  (c * TWO32 + Z.of_nat i) mod TWO32 = Z.of_nat i /\ (c * TWO32 + Z.of_nat i) / TWO32 = c.
Proof.
  intros c i B. assert (T : 0 < TWO32) by (unfold TWO32; lia). split.
  - rewrite Z.add_comm, Z_mod_plus_full. apply Z.mod_small. lia.
  - rewrite Z.add_comm, Z.div_add by lia. rewrite Z.div_small by lia. lia.
Qed.

(* an event for an ACTIVE entry carrying the entry's own check word puts the entry on the job list of its priority *)
Lemma fd_event_queues : forall st i e bits n, nth_error (polls st) i = Some e ->
  p_state e = Active -> p_fn e = true -> p_sig e = false -> p_fd e <> -1 -> Z.of_nat i < TWO32 ->
  exists st', poll_event (p_check e * TWO32 + Z.of_nat i, bits) (n, st) = (n + 1, st') /\
    jobq (lv st' (p_p e)) = jobq (lv st (p_p e)) ++ [QFd i] /\
    (exists e', nth_error (polls st') i = Some e' /\ p_state e' = Joblist /\ p_uid e' = p_uid e /\ p_check e' = p_check e /\
                p_revents e' = Z.lor (p_revents e) (epoll_to_poll bits)) /\
    kset st' = kset st.
Proof.
  intros st i e bits n N SA FN SG FD B. unfold poll_event.
  destruct (handle_split (p_check e) i ltac:(lia)) as [E1 E2]. rewrite E1, E2, Nat2Z.id, N, Z.eqb_refl. cbn [negb].
  assert (FD' : (p_fd e =? -1) = false) by (apply Z.eqb_neq; exact FD). rewrite FD', SA, FN, SG. cbn [orb est_eqb negb].
  eexists. split; [reflexivity|]. split; [|split; [|reflexivity]].
  - unfold item_add, upd_level, set_lv. cbn. destruct (p_p e); reflexivity.
  - eexists. split.
    + cbn. erewrite nth_upd_nth_same; [reflexivity|]. erewrite nth_upd_nth_same; [reflexivity|exact N].
    + cbn. auto.
Qed.
(* an event whose entry is already on a job list only accumulates the event bits *)
Lemma fd_event_while_queued : forall st i e bits n, nth_error (polls st) i = Some e ->
  p_state e = Joblist -> p_fd e <> -1 -> Z.of_nat i < TWO32 ->
  exists st', poll_event (p_check e * TWO32 + Z.of_nat i, bits) (n, st) = (n, st') /\ lv st' = lv st.
Proof.
  intros st i e bits n N SA FD B. unfold poll_event.
  destruct (handle_split (p_check e) i ltac:(lia)) as [E1 E2]. rewrite E1, E2, Nat2Z.id, N, Z.eqb_refl. cbn [negb].
  assert (FD' : (p_fd e =? -1) = false) by (apply Z.eqb_neq; exact FD). rewrite FD', SA. cbn [orb est_eqb].
  eexists. split; reflexivity.
Qed.

(* after the callback: negative return => the entry is a tombstone; otherwise, unless deleted from inside the callback,
   it is ACTIVE again with the same descriptor, check word and registration, its events cleared, the kernel's
   interest list untouched by the dispatcher *)
Lemma fd_after_callback : forall beh i st e, nth_error (polls st) i = Some e ->
  forall r s3, callback beh 2 (p_key e) (p_fd e) (p_revents e) (emit (EvInv 2 (p_uid e)) st) = (r, s3) ->
  forall e3, nth_error (polls s3) i = Some e3 ->
  exists e4, nth_error (polls (dispatch beh (QFd i) st)) i = Some e4 /\ kset (dispatch beh (QFd i) st) = kset s3 /\
    (r < 0 -> p_state e4 = Deleted /\ p_fd e4 = -1 /\ p_check e4 = 0) /\
    (0 <= r -> p_state e3 <> Deleted ->
       p_state e4 = Active /\ p_fd e4 = p_fd e3 /\ p_check e4 = p_check e3 /\ p_uid e4 = p_uid e3 /\ p_events e4 = p_events e3 /\ p_revents e4 = 0) /\
    (0 <= r -> p_state e3 = Deleted -> e4 = e3).
Proof.
  intros beh i st e N r s3 CB e3 N3. cbn [dispatch]. rewrite N, CB. destruct (r <? 0) eqn:R.
  - apply Z.ltb_lt in R. rewrite N3. exists (mark_deleted e3). split.
    + destruct (est_eqb (p_state e3) Deleted); cbn; apply nth_upd_nth_same; exact N3.
    + split; [destruct (est_eqb (p_state e3) Deleted); reflexivity|]. split; [intros _; cbn; auto|]. split; intros; lia.
  - apply Z.ltb_ge in R. eexists. split; [cbn; apply nth_upd_nth_same; exact N3|]. split; [reflexivity|].
    split; [intros; lia|]. split.
    + intros _ ND. destruct (est_eqb (p_state e3) Deleted) eqn:D; [destruct (p_state e3); cbn in D; congruence|]. cbn. repeat split; reflexivity.
    + intros _ D. rewrite D. reflexivity.
Qed.

(* one clone per registration of the delivered signal, in registration order, each at the registration's priority *)
Lemma clone_all_count : forall signo l n st,
  fst (clone_all signo l n st) = n + zlen (filter (fun s => s_signo s =? signo) l) /\
  next_uid (snd (clone_all signo l n st)) = next_uid st + zlen (filter (fun s => s_signo s =? signo) l) /\
  sigs (snd (clone_all signo l n st)) = sigs st.
Proof.
  induction l as [|s l IH]; intros n st; cbn [clone_all filter].
  - unfold zlen; cbn. repeat split; lia.
  - destruct (s_signo s =? signo).
    + unfold fresh_uid. destruct (IH (n + 1) (item_add (s_p s) (QSig (next_uid st) (s_id s) signo (s_key s)) (set_next_uid (next_uid st + 1) st))) as (A & B & C).
      rewrite A, B, C. unfold zlen. cbn [length]. rewrite Nat2Z.inj_succ. cbn. repeat split; lia.
    + apply IH.
Qed.
(* the pipe entry's turn reads exactly one delivered signal *)
Lemma signal_read_one : forall i st g rest, sigpipe st = g :: rest ->
  sigpipe (snd (signal_add_to_jobs i st)) = rest /\
  fst (signal_add_to_jobs i st) = zlen (filter (fun s => s_signo s =? g) (sigs st)).
Proof.
  intros i st g rest H. unfold signal_add_to_jobs. rewrite H. split.
  - assert (forall l n s, sigpipe (snd (clone_all g l n s)) = sigpipe s).
    { induction l as [|x l IH]; intros n s; cbn [clone_all]; [reflexivity|]. destruct (s_signo x =? g); [|apply IH].
      unfold fresh_uid. rewrite IH. reflexivity. }
    rewrite H0. reflexivity.
  - destruct (clone_all_count g (sigs (set_polls (upd_nth i (set_prevents 0) (polls (set_sigpipe rest st))) (set_sigpipe rest st))) 0
                (set_polls (upd_nth i (set_prevents 0) (polls (set_sigpipe rest st))) (set_sigpipe rest st))) as (A & _).
    rewrite A. cbn. lia.
Qed.
