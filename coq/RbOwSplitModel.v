(* C07 gap "alloc and commit are exercised as one composite operation": qb_rb_chunk_alloc, the caller's copy through the
   returned pointer, and qb_rb_chunk_commit as SEPARATE operations (the blackbox pattern: reserve rlen, fill, commit
   len <= rlen), with the owner's reads / peeks / reclaims allowed in between.  No proofs in this file.

   Transcribed from lib/ringbuffer.c: qb_rb_chunk_alloc = RbModel.alloc (both modes), qb_rb_chunk_commit = RbModel.commit;
   the copy is memcpy(ptr, d, |d|) at the pointer the last alloc returned (byte address 4 * word index, mod 4 * W). *)
From Coq Require Import ZArith List Bool.
Import ListNotations.
Require Import Verif.gen.Consts_rb Verif.RbModel Verif.RbSpec.
Local Open Scope Z_scope.

Record xst := { xb : rb;
                xpend : option (Z * Z) }.        (* pointer (word index of the chunk data) and length of the open reservation *)

Inductive xop :=
| XOp (o : op)            (* an operation of RbModel.step *)
| XAlloc (rlen : Z)       (* p = qb_rb_chunk_alloc(rb, rlen) *)
| XFill (d : list Z)      (* memcpy(p, d, |d|) *)
| XCommit (len : Z).      (* qb_rb_chunk_commit(rb, len) *)

Definition xstep (s : xst) (o : xop) : xst * out :=
  match o with
  | XOp o => let '(b', x) := step (xb s) o in ({| xb := b'; xpend := xpend s |}, x)
  | XAlloc rlen =>
      match alloc (xb s) rlen with
      | AOk b1 p => ({| xb := b1; xpend := Some (p, rlen) |}, ORet 0 [])
      | AErr b1 e => ({| xb := b1; xpend := xpend s |}, ORet (- e) [])
      | AFuel => (s, OFuel)
      end
  | XFill d =>
      match xpend s with
      | Some (p, _) =>
          let b := xb s in
          ({| xb := set_data b (write_bytes (data b) (4 * rW b) (4 * p) d); xpend := xpend s |}, ORet 0 [])
      | None => (s, ORet 0 [])
      end
  | XCommit len => let '(b', r) := commit (xb s) len in ({| xb := b'; xpend := None |}, ORet r [])
  end.

Fixpoint xrun (s : xst) (ops : list xop) : xst * list out :=
  match ops with
  | [] => (s, [])
  | o :: t => let '(s1, x) := xstep s o in let '(s2, xs) := xrun s1 t in (s2, x :: xs)
  end.

(* ------------------------------------------------------------------ specification: the FIFO queue plus an open reservation *)
Record xspec := { xs : spec;
                  xres : option (Z * option chunk) }.     (* reserved length; the bytes copied so far *)

Definition xspec_step (ow : bool) (W : Z) (a : xspec) (o : xop) : xspec * obs :=
  match o with
  | XOp o => let '(s', y) := (if ow then ow_spec_step W (xs a) o else spec_step W (xs a) o) in
             ({| xs := s'; xres := xres a |}, y)
  | XAlloc rlen =>
      let q1 := if ow then drop_until W (sq (xs a)) rlen else sq (xs a) in
      let s1 := {| sq := q1; stok := stok (xs a) |} in
      if has_room W q1 rlen
      then ({| xs := s1; xres := Some (rlen, None) |}, Some (0, []))
      else ({| xs := s1; xres := xres a |}, Some (if ow then - RB_EINVAL else - RB_EAGAIN, []))
  | XFill d =>
      match xres a with
      | Some (rlen, _) => ({| xs := xs a; xres := Some (rlen, Some d) |}, Some (0, []))
      | None => (a, Some (0, []))
      end
  | XCommit len =>
      match xres a with
      | Some (_, Some d) => ({| xs := {| sq := sq (xs a) ++ [d]; stok := tok_add (xs a) 1 |}; xres := None |}, Some (0, []))
      | _ => (a, None)                                    (* outside the well-formed histories: not specified *)
      end
  end.

Fixpoint xspec_run (ow : bool) (W : Z) (a : xspec) (ops : list xop) : xspec * list obs :=
  match ops with
  | [] => (a, [])
  | o :: t => let '(a1, y) := xspec_step ow W a o in let '(a2, ys) := xspec_run ow W a1 t in (a2, y :: ys)
  end.

(* well-formed use of the API, judged along the history: no second writer call while a reservation is open,
   copy at most what was reserved, commit exactly what was copied *)
Definition xwf (a : xspec) (o : xop) : Prop :=
  match o with
  | XOp o => match o with OAllocCommit rlen d => zlen d <= rlen | _ => True end /\
             (xres a <> None -> match o with OWrite _ | OAllocCommit _ _ => False | _ => True end)
  | XAlloc rlen => xres a = None /\ 0 <= rlen
  | XFill d => exists rlen od, xres a = Some (rlen, od) /\ zlen d <= rlen
  | XCommit len => exists rlen d, xres a = Some (rlen, Some d) /\ len = zlen d
  end.

Fixpoint xwf_run (ow : bool) (W : Z) (a : xspec) (ops : list xop) : Prop :=
  match ops with
  | [] => True
  | o :: t => xwf a o /\ xwf_run ow W (fst (xspec_step ow W a o)) t
  end.
