(* MapHashProofs2 - layer B (MapHashModel, repaired variant v_fixed) refines layer A (MapRefModel) for all
   iterator-free histories: representation invariant [Good] + abstraction function [abs]; every API call of the
   pointer-level hashtable model succeeds (no error state) and equals the layer-A step on the abstraction.
   Part 1: list / heap lemmas, the invariant, lookup. *)
From Coq Require Import List NArith ZArith Bool Arith Lia.
Require Import Verif.MapSpec Verif.MapHashModel Verif.MapRefModel Verif.MapRefProofs.
Import ListNotations.

(* ---------- lists ---------- *)
Lemma nth_error_upd : forall {A} (l : list A) i x j,
  nth_error (upd l i x) j = if Nat.eqb i j then (if Nat.ltb i (length l) then Some x else None) else nth_error l j.
Proof.
  induction l; simpl; intros.
  - destruct (Nat.eqb i j); destruct j; auto.
  - destruct i, j; simpl; auto. rewrite IHl. destruct (Nat.eqb i j); auto.
Qed.

Lemma upd_length : forall {A} (l : list A) i x, length (upd l i x) = length l.
Proof. induction l; simpl; intros; auto. destruct i; simpl; auto. Qed.

Lemma nth_upd : forall {A} (l : list A) i x j d,
  nth j (upd l i x) d = if Nat.eqb i j && Nat.ltb i (length l) then x else nth j l d.
Proof.
  induction l; simpl; intros.
  - rewrite andb_false_r. destruct j; auto.
  - destruct i, j; simpl; auto. rewrite IHl. reflexivity.
Qed.

Lemma list_ext : forall {A} (l l' : list A), (forall i, nth_error l i = nth_error l' i) -> l = l'.
Proof.
  induction l; destruct l'; simpl; intros; auto.
  - specialize (H 0). discriminate.
  - specialize (H 0). discriminate.
  - f_equal. specialize (H 0). simpl in H. congruence. apply IHl. intros. apply (H (S i)).
Qed.

Lemma concat_filter : forall {A} (p : A -> bool) ls, concat (map (filter p) ls) = filter p (concat ls).
Proof. induction ls; simpl; auto. rewrite filter_app, IHls. auto. Qed.

Lemma concat_repeat_nil : forall {A} n, concat (repeat (@nil A) n) = [].
Proof. induction n; simpl; auto. Qed.

Lemma concat_split : forall {A} (ls : list (list A)) b,
  b < length ls -> concat ls = concat (firstn b ls) ++ nth b ls [] ++ concat (skipn (S b) ls).
Proof.
  induction ls; simpl; intros. lia. destruct b; simpl. auto. rewrite (IHls b) at 1 by lia. rewrite app_assoc. auto.
Qed.

Lemma firstn_upd : forall {A} (l : list A) i x, firstn i (upd l i x) = firstn i l.
Proof. induction l; simpl; intros; auto. destruct i; simpl; auto. rewrite IHl; auto. Qed.

Lemma skipn_upd : forall {A} (l : list A) i x, skipn (S i) (upd l i x) = skipn (S i) l.
Proof. induction l; simpl; intros; auto. destruct i; simpl; auto. apply IHl. Qed.

Lemma in_concat_nth : forall (ls : list (list nat)) x, In x (concat ls) <-> exists b, In x (nth b ls []).
Proof.
  induction ls; simpl; intros.
  - split; intros. contradiction. destruct H as [b H]. destruct b; contradiction.
  - rewrite in_app_iff, IHls. split; intros.
    + destruct H as [H|[b H]]. exists 0; auto. exists (S b); auto.
    + destruct H as [b H]. destruct b. auto. right. exists b; auto.
Qed.

Lemma nodup_app_l : forall {A} (l1 l2 : list A), NoDup (l1 ++ l2) -> NoDup l1.
Proof.
  induction l1; simpl; intros. constructor. inversion H; subst. constructor; eauto. intro. apply H2. apply in_or_app; auto.
Qed.
Lemma nodup_app_r : forall {A} (l1 l2 : list A), NoDup (l1 ++ l2) -> NoDup l2.
Proof. induction l1; simpl; intros; auto. inversion H; subst. eauto. Qed.

Lemma nodup_concat_nth : forall (ls : list (list nat)) b, NoDup (concat ls) -> NoDup (nth b ls []).
Proof.
  induction ls; simpl; intros. destruct b; constructor.
  destruct b. eapply nodup_app_l; eauto. apply IHls. eapply nodup_app_r; eauto.
Qed.

Lemma nodup_app_disj : forall {A} (l1 l2 : list A) x, NoDup (l1 ++ l2) -> In x l1 -> In x l2 -> False.
Proof.
  induction l1; simpl; intros. contradiction. inversion H; subst. destruct H0.
  - subst. apply H4. apply in_or_app. auto.
  - eapply IHl1; eauto.
Qed.

(* an element lives in one bucket only *)
Lemma nodup_concat_unique : forall (ls : list (list nat)) b b' x,
  NoDup (concat ls) -> In x (nth b ls []) -> In x (nth b' ls []) -> b = b'.
Proof.
  induction ls; simpl; intros. destruct b; contradiction.
  destruct b, b'; auto.
  - exfalso. eapply nodup_app_disj; eauto. apply in_concat_nth. eauto.
  - exfalso. eapply nodup_app_disj; eauto. apply in_concat_nth. eauto.
  - f_equal. eapply IHls; eauto. eapply nodup_app_r; eauto.
Qed.

Lemma find_app : forall {A} (p : A -> bool) l1 l2,
  find p (l1 ++ l2) = match find p l1 with Some x => Some x | None => find p l2 end.
Proof. induction l1; simpl; intros; auto. destruct (p a); auto. Qed.

Lemma find_all_false : forall {A} (p : A -> bool) l, (forall x, In x l -> p x = false) -> find p l = None.
Proof. induction l; simpl; intros; auto. rewrite H by auto. apply IHl. intros. apply H. auto. Qed.

Lemma find_ext' : forall {A} (p q : A -> bool) l, (forall x, In x l -> p x = q x) -> find p l = find q l.
Proof. induction l; simpl; intros; auto. rewrite H by auto. rewrite IHl; auto. Qed.

Lemma find_concat_bucket : forall (p : nat -> bool) (ls : list (list nat)) b,
  (forall b' x, b' <> b -> In x (nth b' ls []) -> p x = false) -> find p (concat ls) = find p (nth b ls []).
Proof.
  induction ls; simpl; intros. destruct b; auto.
  rewrite find_app. destruct b.
  - rewrite (find_all_false p (concat ls)).
    + destruct (find p a); auto.
    + intros x Hx. apply in_concat_nth in Hx. destruct Hx as [b' Hx]. apply (H (S b') x); auto.
  - rewrite (find_all_false p a). 2:{ intros. apply (H 0 x); auto. }
    apply IHls. intros. apply (H (S b') x); auto.
Qed.

Lemma find_map_ent : forall {A B} (g : A -> B) (p : B -> bool) l, find p (map g l) = option_map g (find (fun x => p (g x)) l).
Proof. induction l; simpl; auto. destruct (p (g a)); auto. Qed.

(* ---------- abstraction ---------- *)
Definition mk_ent (id : nat) (n : hnode) : rentry :=
  {| re_id := id; re_key := hn_key n; re_val := hn_val n; re_removed := hn_removed n; re_subs := hn_subs n |}.
Definition ent (h : heap) (id : nat) : rentry :=
  match nth_error h id with
  | Some c => mk_ent id (c_node c)
  | None => {| re_id := id; re_key := []; re_val := 0%N; re_removed := true; re_subs := [] |}
  end.
Definition linked (s : hstate) : list nat := concat (h_buckets s).
Definition abs (s : hstate) : rstate :=
  {| r_ents := map (ent (h_heap s)) (linked s); r_next := length (h_heap s); r_subs := h_subs s; r_iters := [];
     r_used := h_used s; r_alive := h_alive s |}.

Lemma deref_ok : forall h id n, deref h id = Ok n <-> exists c, nth_error h id = Some c /\ c_live c = true /\ c_node c = n.
Proof.
  unfold deref. intros. destruct (nth_error h id) as [c|].
  - destruct (c_live c) eqn:L; split; intros.
    + inversion H; subst. eauto.
    + destruct H as [c' [H1 [H2 H3]]]. inversion H1; subst. auto.
    + discriminate.
    + destruct H as [c' [H1 [H2 H3]]]. inversion H1; subst. congruence.
  - split; intros. discriminate. destruct H as [c' [H1 _]]. discriminate.
Qed.

Lemma deref_ent : forall h id n, deref h id = Ok n -> ent h id = mk_ent id n.
Proof. intros. apply deref_ok in H. destruct H as [c [H1 [H2 H3]]]. unfold ent. rewrite H1, H3. auto. Qed.

Lemma deref_lt : forall h id n, deref h id = Ok n -> id < length h.
Proof. intros. apply deref_ok in H. destruct H as [c [H1 _]]. apply nth_error_Some. congruence. Qed.

Section HR.
Variable hf : key -> N.

Definition bix (NB : nat) (k : key) : nat := N.to_nat (hf k mod N.of_nat NB).
Definition hbefore (NB : nat) (k x : key) : bool := Nat.ltb (bix NB k) (bix NB x).

Lemma bix_lt : forall NB k, 0 < NB -> bix NB k < NB.
Proof.
  intros. unfold bix. assert (N.of_nat NB <> 0%N) by lia. generalize (N.mod_upper_bound (hf k) _ H0). lia.
Qed.

Record Good (s : hstate) : Prop := {
  g_nb : 0 < nb s;
  g_nodup : NoDup (linked s);
  g_node : forall b id, In id (bucket s b) ->
           exists n, deref (h_heap s) id = Ok n /\ hn_ref n = 1 /\ hn_removed n = false /\ bix (nb s) (hn_key n) = b;
  g_keys : NoDup (map (fun id => re_key (ent (h_heap s) id)) (linked s));
  g_count : h_count s = wrap64 (Z.of_nat (length (linked s)));
  g_iters : h_iters s = [];
  g_alive : h_alive s = true
}.

Lemma linked_bucket : forall s id, In id (linked s) <-> exists b, In id (bucket s b).
Proof. intros. unfold linked, bucket. apply in_concat_nth. Qed.

Lemma good_linked : forall s id, Good s -> In id (linked s) ->
  exists n, deref (h_heap s) id = Ok n /\ hn_ref n = 1 /\ hn_removed n = false /\ In id (bucket s (bix (nb s) (hn_key n))).
Proof.
  intros. apply linked_bucket in H0. destruct H0 as [b H0]. destruct (g_node _ H b id H0) as [n [H1 [H2 [H3 H4]]]].
  exists n. subst b. auto.
Qed.

(* the list walk of lookup / put / rm in a well-formed bucket *)
Lemma find_node_good : forall s l k,
  (forall id, In id l -> exists n, deref (h_heap s) id = Ok n /\ hn_removed n = false) ->
  find_node v_fixed (h_heap s) l k = Ok (find (fun id => key_eqb (re_key (ent (h_heap s) id)) k) l).
Proof.
  induction l; simpl; intros; auto.
  destruct (H a) as [n [H1 H2]]; auto. rewrite H1. simpl. unfold node_matches. simpl. rewrite H2. simpl.
  rewrite (deref_ent _ _ _ H1). simpl. destruct (key_eqb (hn_key n) k); auto.
Qed.

Lemma all_live_abs : forall s, Good s -> forallb is_live (r_ents (abs s)) = true.
Proof.
  intros. apply forallb_forall. intros e He. simpl in He. apply in_map_iff in He. destruct He as [id [He1 He2]].
  destruct (good_linked s id H He2) as [n [H1 [_ [H3 _]]]]. rewrite (deref_ent _ _ _ H1) in He1. subst e.
  unfold is_live. simpl. rewrite H3. auto.
Qed.

(* lookup in the bucket of k = lookup over the whole entry list *)
Lemma lookup_abs : forall s k, Good s ->
  find_node v_fixed (h_heap s) (bucket s (bucket_ix hf s k)) k = Ok (find (fun id => key_eqb (re_key (ent (h_heap s) id)) k) (linked s)) /\
  find_live (r_ents (abs s)) k = option_map (ent (h_heap s)) (find (fun id => key_eqb (re_key (ent (h_heap s) id)) k) (linked s)).
Proof.
  intros. split.
  - rewrite find_node_good.
    + f_equal. unfold linked, bucket. symmetry. apply find_concat_bucket. intros b' x Hb Hx.
      destruct (g_node _ H b' x Hx) as [n [H1 [_ [_ H4]]]]. rewrite (deref_ent _ _ _ H1). simpl.
      apply key_eqb_neq. intro. subst. apply Hb. reflexivity.
    + intros. destruct (g_node _ H _ id H0) as [n [H1 [_ [H3 _]]]]. eauto.
  - unfold find_live. simpl. rewrite find_map_ent. f_equal. apply find_ext'. intros id Hid.
    destruct (good_linked s id H Hid) as [n [H1 [_ [H3 _]]]]. rewrite (deref_ent _ _ _ H1). unfold is_live. simpl. rewrite H3. auto.
Qed.

Definition rc4 (rc : Z * Z * Z) : Z * Z * Z * Z := let '(a, b, c) := rc in (a, b, b, c).
Definition out_wrap (o : out) : out :=
  match o with OCount n => OCount (n mod 18446744073709551616)%N | _ => o end.

(* what one step of the pointer-level model has to achieve *)
Definition step_ok (rc : Z * Z * Z) (s : hstate) (o : op) : Prop :=
  exists s' x x' ns,
    h_step v_fixed hf rc s o = Ok (s', x, ns) /\
    a_step (hbefore (nb s)) (rc4 rc) (abs s) o = (abs s', x', ns) /\
    x = out_wrap x' /\ nb s' = nb s /\ (Good s' \/ h_alive s' = false).

Lemma find_some_linked : forall s k id, Good s ->
  find (fun id => key_eqb (re_key (ent (h_heap s) id)) k) (linked s) = Some id ->
  In id (linked s) /\ exists n, deref (h_heap s) id = Ok n /\ hn_key n = k /\ hn_ref n = 1 /\ hn_removed n = false.
Proof.
  intros. apply find_some in H0. destruct H0 as [H0 H1]. split; auto.
  destruct (good_linked s id H H0) as [n [Q1 [Q2 [Q3 _]]]]. exists n. rewrite (deref_ent _ _ _ Q1) in H1. simpl in H1.
  apply key_eqb_eq in H1. auto.
Qed.

Lemma step_get : forall rc s k, Good s -> step_ok rc s (Get k).
Proof.
  intros. destruct rc as [[e1 e2] e3]. destruct (lookup_abs s k H) as [L1 L2].
  unfold step_ok, h_step, a_step. simpl. rewrite (g_alive _ H). simpl.
  unfold h_get, a_get. rewrite L1, L2. simpl.
  destruct (find _ (linked s)) as [id|] eqn:F; simpl.
  - destruct (find_some_linked s k id H F) as [_ [n [Q1 _]]]. rewrite Q1. simpl.
    exists s, (OVal (hn_val n)), (OVal (hn_val n)), []. rewrite (deref_ent _ _ _ Q1). simpl. repeat split; auto.
  - exists s, (OVal 0%N), (OVal 0%N), []. repeat split; auto.
Qed.

Lemma wrap_count : forall n, Z.to_N (wrap64 (Z.of_nat n)) = (N.of_nat n mod 18446744073709551616)%N.
Proof.
  intros. unfold wrap64. rewrite <- nat_N_Z. rewrite <- (N2Z.id (N.of_nat n mod 18446744073709551616)).
  f_equal. rewrite N2Z.inj_mod. reflexivity.
Qed.

Lemma live_abs : forall s, Good s -> live (abs s) = r_ents (abs s).
Proof. intros. unfold live. apply filter_all_true. apply all_live_abs; auto. Qed.

Lemma step_count : forall rc s, Good s -> step_ok rc s Count.
Proof.
  intros. destruct rc as [[e1 e2] e3]. unfold step_ok, h_step, a_step. simpl. rewrite (g_alive _ H). simpl.
  exists s, (OCount (Z.to_N (h_count s))), (OCount (N.of_nat (length (live (abs s))))), []. repeat split; auto.
  simpl. rewrite (g_count _ H), wrap_count, live_abs by auto. simpl. rewrite map_length. auto.
Qed.

(* ---------- updating one node in place ---------- *)
Lemma deref_store : forall h id n' x, id < length h ->
  deref (store h id n') x = if Nat.eqb id x then Ok n' else deref h x.
Proof.
  intros. unfold deref, store. rewrite nth_error_upd. destruct (Nat.eqb id x) eqn:E; auto.
  apply Nat.ltb_lt in H. rewrite H. simpl. auto.
Qed.

Lemma ent_store : forall h id n' x, id < length h ->
  ent (store h id n') x = if Nat.eqb id x then mk_ent id n' else ent h x.
Proof.
  intros. unfold ent, store. rewrite nth_error_upd. destruct (Nat.eqb id x) eqn:E; auto.
  apply Nat.ltb_lt in H. rewrite H. simpl. apply Nat.eqb_eq in E. subst. auto.
Qed.

Lemma ent_id : forall h x, re_id (ent h x) = x.
Proof. intros. unfold ent. destruct (nth_error h x); auto. Qed.

Lemma map_ent_store : forall h id n n' f L, deref h id = Ok n -> f (mk_ent id n) = mk_ent id n' ->
  map (ent (store h id n')) L = upd_entry (map (ent h) L) id f.
Proof.
  intros. unfold upd_entry. rewrite map_map. apply map_ext. intros x.
  rewrite ent_store by (eapply deref_lt; eauto). rewrite ent_id. rewrite (Nat.eqb_sym x id).
  destruct (Nat.eqb id x) eqn:E; auto. apply Nat.eqb_eq in E. subst. rewrite (deref_ent _ _ _ H). auto.
Qed.

Lemma good_store : forall s id n n', Good s -> In id (linked s) -> deref (h_heap s) id = Ok n ->
  hn_key n' = hn_key n -> hn_ref n' = 1 -> hn_removed n' = false ->
  Good (set_heap s (store (h_heap s) id n')).
Proof.
  intros s id n n' G Hin Hd Hk Hr Hrm. assert (Hlt : id < length (h_heap s)) by (eapply deref_lt; eauto).
  constructor; simpl; try apply G.
  - intros b x Hx. unfold bucket in Hx. simpl in Hx. rewrite deref_store by auto.
    destruct (g_node _ G b x Hx) as [m [Q1 [Q2 [Q3 Q4]]]].
    destruct (Nat.eqb id x) eqn:E.
    + apply Nat.eqb_eq in E. subst x. exists n'. repeat split; auto. unfold nb in *. simpl. rewrite Hk.
      rewrite Q1 in Hd. inversion Hd; subst. auto.
    + exists m. unfold nb in *. simpl. auto.
  - unfold linked. simpl. erewrite map_ext. apply (g_keys _ G). intros x. simpl.
    rewrite ent_store by auto. destruct (Nat.eqb id x) eqn:E; auto. apply Nat.eqb_eq in E. subst.
    rewrite (deref_ent _ _ _ Hd). simpl. auto.
Qed.

Lemma abs_store : forall s id n n' f, deref (h_heap s) id = Ok n -> f (mk_ent id n) = mk_ent id n' ->
  abs (set_heap s (store (h_heap s) id n')) = set_ents (abs s) (upd_entry (r_ents (abs s)) id f).
Proof.
  intros. unfold abs, set_ents. simpl. unfold linked. simpl. erewrite map_ent_store; eauto.
  f_equal. unfold store. apply upd_length.
Qed.

Lemma good_set_subs : forall s x, Good s -> Good (set_subs s x).
Proof. intros. constructor; simpl; try apply H. Qed.

Lemma step_notify_add : forall rc s k fn ev ud, Good s -> step_ok rc s (NotifyAdd k fn ev ud).
Proof.
  intros. destruct rc as [[e1 e2] e3]. unfold step_ok, h_step, a_step. simpl. rewrite (g_alive _ H). simpl.
  unfold h_notify_add, a_notify_add. destruct k as [kk|].
  - destruct (has_bit ev EV_FREE).
    { exists s, (ORc e1), (ORc e1), []. repeat split; auto. }
    destruct (lookup_abs s kk H) as [L1 L2]. rewrite L1, L2. simpl.
    destruct (find _ (linked s)) as [id|] eqn:F; simpl.
    + destruct (find_some_linked s kk id H F) as [Hin [n [Q1 [Q2 [Q3 Q4]]]]]. rewrite Q1. simpl.
      rewrite (deref_ent _ _ _ Q1). simpl.
      destruct (nsub_conflict (hn_subs n) fn ev ud).
      { exists s, (ORc e3), (ORc e3), []. repeat split; auto. }
      eexists _, (ORc 0), (ORc 0), []. split; [reflexivity|]. split; [|split; [reflexivity|split; [reflexivity|]]].
      * f_equal. f_equal. symmetry. erewrite abs_store; eauto; try reflexivity.
      * left. eapply good_store; eauto.
    + exists s, (ORc e2), (ORc e2), []. repeat split; auto.
  - change (r_subs (abs s)) with (h_subs s). destruct (nsub_conflict (h_subs s) fn ev ud).
    { exists s, (ORc e3), (ORc e3), []. repeat split; auto. }
    eexists _, (ORc 0), (ORc 0), []. split; [reflexivity|]. split; [reflexivity|]. repeat split; auto.
    left. apply good_set_subs; auto.
Qed.

Lemma step_notify_del : forall rc s k fn ev ud, Good s -> step_ok rc s (NotifyDel k fn ev ud).
Proof.
  intros. destruct rc as [[e1 e2] e3]. unfold step_ok, h_step, a_step. simpl. rewrite (g_alive _ H). simpl.
  unfold h_notify_del, a_notify_del. destruct k as [kk|].
  - destruct (lookup_abs s kk H) as [L1 L2]. rewrite L1, L2. simpl.
    destruct (find _ (linked s)) as [id|] eqn:F; simpl.
    + destruct (find_some_linked s kk id H F) as [Hin [n [Q1 [Q2 [Q3 Q4]]]]]. rewrite Q1. simpl.
      rewrite (deref_ent _ _ _ Q1). simpl.
      destruct (existsb (nsub_match fn ev ud) (hn_subs n)).
      * eexists _, (ORc 0), (ORc 0), []. split; [reflexivity|]. split; [|split; [reflexivity|split; [reflexivity|]]].
        { f_equal. f_equal. symmetry. erewrite abs_store; eauto; try reflexivity. }
        { left. eapply good_store; eauto. }
      * exists s, (ORc e2), (ORc e2), []. repeat split; auto.
    + exists s, (ORc e2), (ORc e2), []. repeat split; auto.
  - change (r_subs (abs s)) with (h_subs s). destruct (existsb (nsub_match fn ev ud) (h_subs s)).
    + eexists _, (ORc 0), (ORc 0), []. split; [reflexivity|]. split; [reflexivity|]. repeat split; auto.
      left. apply good_set_subs; auto.
    + exists s, (ORc e2), (ORc e2), []. repeat split; auto.
Qed.

(* ---------- put ---------- *)
Lemma ins_before_app : forall p e la l2,
  (forall x, In x la -> p x = false) -> (forall x, In x l2 -> p x = true) -> ins_before p e (la ++ l2) = la ++ e :: l2.
Proof.
  induction la; simpl; intros.
  - destruct l2; simpl; auto. rewrite H0; auto. left; auto.
  - rewrite H by auto. f_equal. apply IHla; auto.
Qed.

Lemma in_concat_firstn : forall (ls : list (list nat)) b x, In x (concat (firstn b ls)) -> exists b', b' < b /\ In x (nth b' ls []).
Proof.
  induction ls; simpl; intros. destruct b; contradiction.
  destruct b; simpl in H. contradiction. apply in_app_or in H. destruct H.
  - exists 0. split; auto. lia.
  - apply IHls in H. destruct H as [b' [H1 H2]]. exists (S b'). split; auto. lia.
Qed.

Lemma in_concat_skipn : forall (ls : list (list nat)) b x, In x (concat (skipn b ls)) -> exists b', b <= b' /\ In x (nth b' ls []).
Proof.
  induction ls; simpl; intros. destruct b; contradiction.
  destruct b; simpl in H.
  - apply in_app_or in H. destruct H. exists 0; split; auto. apply in_concat_nth in H. destruct H as [b' H]. exists (S b'). split; auto. lia.
  - apply IHls in H. destruct H as [b' [H1 H2]]. exists (S b'). split; auto. lia.
Qed.

Lemma ent_app : forall h c x, x < length h -> ent (h ++ [c]) x = ent h x.
Proof. intros. unfold ent. rewrite nth_error_app1; auto. Qed.
Lemma deref_app : forall h c x, x < length h -> deref (h ++ [c]) x = deref h x.
Proof. intros. unfold deref. rewrite nth_error_app1; auto. Qed.
Lemma ent_app_new : forall h n, ent (h ++ [{| c_live := true; c_node := n |}]) (length h) = mk_ent (length h) n.
Proof. intros. unfold ent. rewrite nth_error_app2 by lia. rewrite Nat.sub_diag. auto. Qed.
Lemma deref_app_new : forall h n, deref (h ++ [{| c_live := true; c_node := n |}]) (length h) = Ok n.
Proof. intros. unfold deref. rewrite nth_error_app2 by lia. rewrite Nat.sub_diag. auto. Qed.

Lemma linked_lt : forall s x, Good s -> In x (linked s) -> x < length (h_heap s).
Proof. intros. destruct (good_linked s x H H0) as [n [Q _]]. eapply deref_lt; eauto. Qed.

Lemma wrap64_succ : forall z, wrap64 (wrap64 z + 1) = wrap64 (z + 1).
Proof. intros. unfold wrap64. rewrite Zplus_mod_idemp_l. auto. Qed.
Lemma wrap64_pred : forall z, wrap64 (wrap64 z - 1) = wrap64 (z - 1).
Proof. intros. unfold wrap64. rewrite Zminus_mod_idemp_l. auto. Qed.

Lemma linked_put_new : forall s b id, b < nb s ->
  concat (upd (h_buckets s) b (nth b (h_buckets s) [] ++ [id])) =
  (concat (firstn b (h_buckets s)) ++ nth b (h_buckets s) []) ++ id :: concat (skipn (S b) (h_buckets s)).
Proof.
  intros. unfold nb in H. rewrite (concat_split (upd _ _ _) b) by (rewrite upd_length; auto).
  rewrite firstn_upd, skipn_upd, nth_upd. rewrite Nat.eqb_refl. apply Nat.ltb_lt in H. rewrite H. simpl.
  rewrite <- !app_assoc. simpl. auto.
Qed.

Lemma step_put : forall rc s k x, Good s -> step_ok rc s (Put k x).
Proof.
  intros rc s k x G. destruct rc as [[e1 e2] e3]. unfold step_ok, h_step, a_step. simpl. rewrite (g_alive _ G). simpl.
  unfold h_put, a_put. destruct (lookup_abs s k G) as [L1 L2]. rewrite L1, L2. simpl.
  destruct (find _ (linked s)) as [id|] eqn:F; simpl.
  - destruct (find_some_linked s k id G F) as [Hin [n [Q1 [Q2 [Q3 Q4]]]]]. rewrite Q1. simpl.
    rewrite (deref_ent _ _ _ Q1). simpl.
    eexists _, ONone, ONone, _. split; [reflexivity|]. split; [|split; [reflexivity|split; [reflexivity|]]].
    + f_equal. f_equal.
      symmetry. erewrite abs_store; eauto. simpl. unfold mk_ent. simpl. rewrite Q4. reflexivity.
    + left. eapply good_store; eauto.
  - set (b := bucket_ix hf s k).
    assert (Hb : b < nb s) by (apply bix_lt; apply (g_nb _ G)).
    set (n := {| hn_key := k; hn_val := x; hn_ref := 1; hn_removed := false; hn_subs := [] |}).
    set (id := length (h_heap s)).
    assert (NK : forall y, In y (linked s) -> re_key (ent (h_heap s) y) <> k).
    { intros y Hy Q. eapply find_none in F; eauto. simpl in F. rewrite Q, key_eqb_refl in F. discriminate. }
    assert (E : map (ent (h_heap s ++ [{| c_live := true; c_node := n |}]))
                    (concat (upd (h_buckets s) b (nth b (h_buckets s) [] ++ [id]))) =
                ins_before (fun y => hbefore (nb s) k (re_key y)) (mk_ent id n) (map (ent (h_heap s)) (linked s))).
    { rewrite linked_put_new by auto. unfold linked. rewrite (concat_split (h_buckets s) b) by auto.
      rewrite app_assoc. rewrite !map_app. simpl. rewrite ent_app_new.
      rewrite ins_before_app.
      - f_equal. + rewrite <- !map_app. apply map_ext_in. intros y Hy. apply ent_app. apply linked_lt; auto.
          unfold linked. rewrite (concat_split (h_buckets s) b) by auto. rewrite app_assoc. apply in_or_app; auto.
        + f_equal. apply map_ext_in. intros y Hy. apply ent_app. apply linked_lt; auto.
          unfold linked. rewrite (concat_split (h_buckets s) b) by auto. rewrite app_assoc. apply in_or_app; auto.
      - intros y Hy. rewrite <- map_app in Hy. apply in_map_iff in Hy. destruct Hy as [z [Hz1 Hz2]]. subst y.
        unfold hbefore. apply Nat.ltb_ge. apply in_app_or in Hz2. destruct Hz2 as [Hz2|Hz2].
        + apply in_concat_firstn in Hz2. destruct Hz2 as [b' [Hb1 Hb2]].
          destruct (g_node _ G b' z Hb2) as [m [M1 [_ [_ M4]]]]. rewrite (deref_ent _ _ _ M1). simpl. rewrite M4. unfold b, bucket_ix, bix in *. lia.
        + destruct (g_node _ G b z Hz2) as [m [M1 [_ [_ M4]]]]. rewrite (deref_ent _ _ _ M1). simpl. rewrite M4. unfold b, bucket_ix, bix in *. lia.
      - intros y Hy. apply in_map_iff in Hy. destruct Hy as [z [Hz1 Hz2]]. subst y.
        unfold hbefore. apply Nat.ltb_lt. apply (in_concat_skipn (h_buckets s) (S b)) in Hz2. destruct Hz2 as [b' [Hb1 Hb2]].
        destruct (g_node _ G b' z Hb2) as [m [M1 [_ [_ M4]]]]. rewrite (deref_ent _ _ _ M1). simpl. rewrite M4. unfold b, bucket_ix, bix in *. lia. }
    eexists _, ONone, ONone, _. split; [reflexivity|]. split; [|split; [reflexivity|split]].
    + f_equal. f_equal. unfold abs. simpl. unfold linked. simpl. unfold bucket. simpl. fold b. fold id. rewrite E.
      f_equal. rewrite app_length. simpl. lia.
    + unfold nb. simpl. apply upd_length.
    + left. constructor; simpl.
      * unfold nb. simpl. rewrite upd_length. apply (g_nb _ G).
      * unfold linked, bucket. simpl. fold b. fold id. rewrite linked_put_new by auto.
        apply NoDup_map_inv with (f := ent (h_heap s ++ [{| c_live := true; c_node := n |}])).
        rewrite <- linked_put_new by auto. rewrite E.
        apply NoDup_map_inv with (f := re_id). apply nodup_map_ins_before.
        { simpl. intro Q. rewrite map_map in Q. apply in_map_iff in Q. destruct Q as [z [Q1 Q2]]. rewrite ent_id in Q1. subst z.
          apply linked_lt in Q2; auto. unfold id in Q2. lia. }
        { rewrite map_map. erewrite map_ext. 2:{ intros. apply ent_id. } rewrite map_id. apply (g_nodup _ G). }
      * intros b' y Hy. unfold bucket in Hy. simpl in Hy. fold b in Hy. unfold nb. simpl. rewrite upd_length. fold (nb s).
        rewrite nth_upd in Hy. unfold bucket in Hy. simpl in Hy.
        destruct (Nat.eqb b b' && Nat.ltb b (length (h_buckets s))) eqn:E1.
        { apply andb_true_iff in E1. destruct E1 as [E1 _]. apply Nat.eqb_eq in E1. subst b'.
          apply in_app_or in Hy. destruct Hy as [Hy|[Hy|[]]].
          - destruct (g_node _ G b y Hy) as [m [M1 M2]]. exists m. rewrite deref_app; auto. eapply deref_lt; eauto.
          - subst y. exists n. fold id. rewrite deref_app_new. repeat split; auto. }
        { destruct (g_node _ G b' y Hy) as [m [M1 M2]]. exists m. rewrite deref_app; auto. eapply deref_lt; eauto. }
      * unfold linked, bucket. simpl. fold b. fold id.
        rewrite <- map_map. rewrite E. apply nodup_map_ins_before.
        { simpl. intro Q. rewrite map_map in Q. apply in_map_iff in Q. destruct Q as [z [Q1 Q2]]. apply (NK z); auto. }
        { rewrite map_map. apply (g_keys _ G). }
      * rewrite (g_count _ G), wrap64_succ. f_equal. unfold linked, bucket. simpl. fold b. fold id.
        rewrite linked_put_new by auto. unfold linked. rewrite (concat_split (h_buckets s) b) at 1 by auto.
        rewrite !app_length. simpl. lia.
      * apply (g_iters _ G).
      * apply (g_alive _ G).
Qed.

(* ---------- rm ---------- *)
Lemma nth_error_free_cell : forall h id x, id <> x -> nth_error (free_cell h id) x = nth_error h x.
Proof.
  intros. unfold free_cell. destruct (nth_error h id); auto. rewrite nth_error_upd.
  destruct (Nat.eqb id x) eqn:E; auto. apply Nat.eqb_eq in E. contradiction.
Qed.
Lemma free_cell_length : forall h id, length (free_cell h id) = length h.
Proof. intros. unfold free_cell. destruct (nth_error h id); auto. apply upd_length. Qed.
Lemma nth_error_store_other : forall h id n x, id <> x -> nth_error (store h id n) x = nth_error h x.
Proof. intros. unfold store. rewrite nth_error_upd. destruct (Nat.eqb id x) eqn:E; auto. apply Nat.eqb_eq in E. contradiction. Qed.
Lemma store_length : forall h id n, length (store h id n) = length h.
Proof. intros. apply upd_length. Qed.

Lemma remove_id_length : forall l x, NoDup l -> In x l -> S (length (remove_id x l)) = length l.
Proof.
  unfold remove_id. induction l; simpl; intros. contradiction. inversion H; subst. destruct H0.
  - subst. rewrite Nat.eqb_refl. simpl. f_equal. rewrite filter_all_true; auto. apply forallb_forall. intros.
    apply negb_true_iff. apply Nat.eqb_neq. intro. subst. contradiction.
  - destruct (Nat.eqb a x) eqn:E. apply Nat.eqb_eq in E. subst. contradiction. simpl. f_equal. apply IHl; auto.
Qed.

Lemma nth_map_remove : forall (B : list (list nat)) id b, nth b (map (remove_id id) B) [] = remove_id id (nth b B []).
Proof. intros. change (@nil nat) with (remove_id id []) at 1. apply map_nth. Qed.

(* a heap that agrees with h everywhere except at id *)
Definition agrees_except (h h' : heap) (id : nat) : Prop :=
  length h' = length h /\ forall x, x <> id -> nth_error h' x = nth_error h x.

Lemma good_remove : forall s id h', Good s -> In id (linked s) -> agrees_except (h_heap s) h' id ->
  Good (set_count (set_heap (set_buckets s (map (remove_id id) (h_buckets s))) h') (wrap64 (h_count s - 1))) /\
  map (ent h') (concat (map (remove_id id) (h_buckets s))) = del_entry (map (ent (h_heap s)) (linked s)) id.
Proof.
  intros s id h' G Hin [Hlen Hag].
  assert (Hent : forall x, x <> id -> ent h' x = ent (h_heap s) x). { intros. unfold ent. rewrite Hag; auto. }
  assert (Hder : forall x, x <> id -> deref h' x = deref (h_heap s) x). { intros. unfold deref. rewrite Hag; auto. }
  assert (Hin' : forall x, In x (concat (map (remove_id id) (h_buckets s))) -> In x (linked s) /\ x <> id).
  { intros. unfold remove_id in H. rewrite concat_filter in H. apply filter_In in H. destruct H. split; auto.
    apply negb_true_iff in H0. apply Nat.eqb_neq in H0. auto. }
  split.
  - constructor; simpl.
    + unfold nb. simpl. rewrite map_length. apply (g_nb _ G).
    + unfold linked. simpl. unfold remove_id. rewrite concat_filter. apply NoDup_filter. apply (g_nodup _ G).
    + intros b x Hx. unfold bucket in Hx. simpl in Hx. rewrite nth_map_remove in Hx. unfold remove_id in Hx. apply filter_In in Hx.
      destruct Hx as [Hx1 Hx2]. apply negb_true_iff in Hx2. apply Nat.eqb_neq in Hx2.
      destruct (g_node _ G b x Hx1) as [m M]. exists m. rewrite Hder by auto. unfold nb in *. simpl. rewrite map_length. auto.
    + unfold linked. simpl. erewrite map_ext_in. 2:{ intros x Hx. apply Hin' in Hx. destruct Hx. rewrite Hent by auto. reflexivity. }
      unfold remove_id. rewrite concat_filter. apply (nodup_map_filter (fun x => re_key (ent (h_heap s) x))). apply (g_keys _ G).
    + rewrite (g_count _ G), wrap64_pred. f_equal. unfold linked. simpl. unfold remove_id at 1. rewrite concat_filter.
      generalize (remove_id_length (linked s) id (g_nodup _ G) Hin). unfold remove_id, linked. lia.
    + apply (g_iters _ G).
    + apply (g_alive _ G).
  - erewrite map_ext_in. 2:{ intros x Hx. apply Hin' in Hx. destruct Hx. apply Hent; auto. }
    unfold remove_id. rewrite concat_filter. unfold del_entry, linked. rewrite filter_map_comm. f_equal.
    apply filter_ext_in'. intros. rewrite ent_id. auto.
Qed.

Lemma step_rm : forall rc s k, Good s -> step_ok rc s (Rm k).
Proof.
  intros rc s k G. destruct rc as [[e1 e2] e3]. unfold step_ok, h_step, a_step. simpl. rewrite (g_alive _ G). simpl.
  unfold h_rm, a_rm. destruct (lookup_abs s k G) as [L1 L2]. rewrite L1, L2. simpl.
  destruct (find _ (linked s)) as [id|] eqn:F; simpl.
  2:{ exists s, (OBool false), (OBool false), []. repeat split; auto. }
  destruct (find_some_linked s k id G F) as [Hin [n [Q1 [Q2 [Q3 Q4]]]]]. rewrite Q1. simpl.
  assert (Hlt : id < length (h_heap s)) by (eapply deref_lt; eauto).
  unfold node_deref. simpl. rewrite deref_store by auto. rewrite Nat.eqb_refl. simpl. rewrite Q3. simpl.
  match goal with |- context [free_cell ?h id] => set (h' := free_cell h id) end.
  assert (AG : agrees_except (h_heap s) h' id).
  { unfold h'. split. rewrite free_cell_length, !store_length. auto.
    intros. rewrite nth_error_free_cell by auto. rewrite !nth_error_store_other by auto. auto. }
  destruct (good_remove s id h' G Hin AG) as [G' E].
  eexists _, (OBool true), (OBool true), _. split; [reflexivity|]. split; [|split; [reflexivity|split]].
  - rewrite (deref_ent _ _ _ Q1). simpl. f_equal. f_equal.
    unfold a_destroy_entry, abs, set_ents. simpl. unfold linked at 2. simpl. rewrite E. f_equal.
    destruct AG as [AG _]. auto.
  - unfold nb. simpl. apply map_length.
  - left. exact G'.
Qed.

(* ---------- destroy ---------- *)
Definition del_notifs (h : heap) (subs : list nsub) (id : nat) : list notif :=
  match nth_error h id with
  | Some c => notify_node (hn_subs (c_node c)) EV_DELETED (hn_key (c_node c)) (hn_val (c_node c)) 0%N ++
              notify_global subs EV_DELETED (hn_key (c_node c)) (hn_val (c_node c)) 0%N
  | None => []
  end.

Definition not_in (l : list nat) (x : nat) : bool := negb (existsb (Nat.eqb x) l).

Lemma filter_filter_and : forall {A} (p q r : A -> bool) l, (forall x, r x = q x && p x) -> filter p (filter q l) = filter r l.
Proof.
  induction l; simpl; intros; auto. rewrite H. destruct (q a) eqn:Q; simpl; rewrite IHl; auto.
Qed.

Lemma destroy_nodes_ok : forall l s, NoDup l ->
  (forall id, In id l -> exists n, deref (h_heap s) id = Ok n /\ hn_ref n = 1) ->
  exists s', destroy_nodes s l = Ok (s', flat_map (del_notifs (h_heap s) (h_subs s)) l) /\
    concat (h_buckets s') = filter (not_in l) (concat (h_buckets s)) /\
    length (h_heap s') = length (h_heap s) /\ h_subs s' = h_subs s /\ h_used s' = h_used s /\
    length (h_buckets s') = length (h_buckets s).
Proof.
  induction l; simpl; intros s ND Hall.
  - exists s. repeat split; auto. rewrite filter_all_true; auto. apply forallb_forall. auto.
  - inversion ND; subst. destruct (Hall a) as [n [Q1 Q2]]; auto.
    assert (Hlt : a < length (h_heap s)) by (eapply deref_lt; eauto).
    unfold node_deref. rewrite Q1. simpl. rewrite Q2. simpl.
    match goal with |- context [destroy_nodes ?st l] => set (s1 := st) end.
    assert (AG : forall x, x <> a -> nth_error (h_heap s1) x = nth_error (h_heap s) x).
    { intros. unfold s1. simpl. rewrite nth_error_free_cell by auto. rewrite nth_error_store_other by auto. auto. }
    destruct (IHl s1) as [s' [E1 [E2 [E3 [E4 [E5 E6]]]]]]; auto.
    { intros id Hid. assert (id <> a) by (intro; subst; contradiction).
      destruct (Hall id) as [m [M1 M2]]; auto. exists m. unfold deref. rewrite AG by auto. auto. }
    exists s'. rewrite E1. simpl. split; [|split; [|split; [|split; [|split]]]].
    + f_equal. f_equal. f_equal.
      * unfold del_notifs, h_notify. simpl. apply deref_ok in Q1. destruct Q1 as [c [C1 [C2 C3]]]. rewrite C1, C3. reflexivity.
      * apply flat_map_ext'. intros x Hx. unfold del_notifs. rewrite AG. reflexivity. intro; subst; contradiction.
    + rewrite E2. unfold s1. simpl. unfold remove_id. rewrite concat_filter.
      apply filter_filter_and. intros x. unfold not_in. simpl. rewrite negb_orb. reflexivity.
    + rewrite E3. unfold s1. simpl. rewrite free_cell_length, store_length. auto.
    + rewrite E4. reflexivity.
    + rewrite E5. reflexivity.
    + rewrite E6. unfold s1. simpl. apply map_length.
Qed.

Lemma step_destroy : forall rc s, Good s -> step_ok rc s Destroy.
Proof.
  intros rc s G. destruct rc as [[e1 e2] e3]. unfold step_ok, h_step, a_step. simpl. rewrite (g_alive _ G). simpl.
  unfold h_destroy.
  destruct (destroy_nodes_ok (concat (h_buckets s)) s (g_nodup _ G)) as [s' [E1 [E2 [E3 [E4 [E5 E6]]]]]].
  { intros id Hid. destruct (good_linked s id G Hid) as [n [Q1 [Q2 _]]]. eauto. }
  rewrite E1. simpl.
  eexists _, ONone, ONone, _. split; [reflexivity|]. split; [|split; [reflexivity|split]].
  - f_equal. f_equal.
    + unfold abs. simpl. unfold linked. simpl. rewrite E2, E3, E5.
      rewrite (filter_ext_in' _ (fun _ => false)). 2:{ intros x Hx. unfold not_in. apply negb_false_iff. apply existsb_exists. exists x. split; auto. apply Nat.eqb_refl. }
      replace (filter (fun _ => false) (concat (h_buckets s))) with (@nil nat). reflexivity.
      clear. induction (concat (h_buckets s)); simpl; auto.
    + rewrite live_abs by auto. simpl. rewrite flat_map_map. apply flat_map_ext'. intros id Hid.
      destruct (good_linked s id G Hid) as [n [Q1 _]]. unfold del_notifs, r_notify. rewrite (deref_ent _ _ _ Q1).
      apply deref_ok in Q1. destruct Q1 as [c [C1 [C2 C3]]]. rewrite C1, C3. reflexivity.
  - unfold nb. simpl. auto.
  - right. reflexivity.
Qed.

(* ---------- traversal (qb_map_foreach = iter_create; iter_next ...; iter_free) ---------- *)
Definition all_ok (h : heap) (l : list nat) : Prop :=
  forall id, In id l -> exists n, deref h id = Ok n /\ hn_removed n = false.

Lemma scan_good : forall h l, all_ok h l -> scan v_fixed h l = Ok (hd_error l).
Proof.
  intros. destruct l; simpl; auto. destruct (H n) as [m [M1 M2]]. left; auto. rewrite M1. simpl.
  unfold eligible. simpl. rewrite M2. auto.
Qed.

Fixpoint first_ne (b : nat) (rest : list (list nat)) : option (nat * nat) :=
  match rest with
  | [] => None
  | l :: r => match l with x :: _ => Some (x, S b) | [] => first_ne (S b) r end
  end.

Lemma scan_buckets_good : forall h rest b cands, all_ok h (cands ++ concat rest) ->
  scan_buckets v_fixed h b cands rest = Ok (match cands with x :: _ => Some (x, b) | [] => first_ne b rest end).
Proof.
  induction rest; simpl; intros.
  - rewrite scan_good. destruct cands; auto. intros id Hid. apply H. apply in_or_app; auto.
  - rewrite scan_good by (intros id Hid; apply H; apply in_or_app; auto).
    destruct cands; simpl; auto.
Qed.

Lemma first_ne_spec : forall rest b,
  match first_ne b rest with
  | None => concat rest = []
  | Some (x, b') => exists j t, b' = S (b + j) /\ nth j rest [] = x :: t /\ concat rest = x :: t ++ concat (skipn (S j) rest)
  end.
Proof.
  induction rest; simpl; intros; auto. destruct a.
  - specialize (IHrest (S b)). destruct (first_ne (S b) rest) as [[x b']|]; auto.
    destruct IHrest as [j [t [J1 [J2 J3]]]]. exists (S j), t. repeat split; auto; lia.
  - exists 0, a. repeat split; auto; lia.
Qed.

Lemma nth_skipn' : forall {A} (l : list A) n j d, nth j (skipn n l) d = nth (n + j) l d.
Proof. induction l; simpl; intros. destruct n, j; auto. destruct n; simpl; auto. Qed.
Lemma skipn_skipn' : forall {A} (l : list A) n m, skipn m (skipn n l) = skipn (n + m) l.
Proof. induction l; simpl; intros. destruct n, m; auto. destruct n; simpl; auto. Qed.

Lemma after_id_next : forall l cur nx t, NoDup l -> after_id cur l = nx :: t -> after_id nx l = t.
Proof.
  induction l; simpl; intros. discriminate. inversion H; subst.
  destruct (Nat.eqb a cur) eqn:E.
  - subst l. inversion H4; subst. destruct (Nat.eqb a nx) eqn:E2.
    + apply Nat.eqb_eq in E2. subst. exfalso. apply H3. left; auto.
    + simpl. rewrite Nat.eqb_refl. auto.
  - destruct (Nat.eqb a nx) eqn:E2.
    + apply Nat.eqb_eq in E2. subst. exfalso. apply H3.
      clear - H0. revert H0. induction l; simpl; intros. discriminate. destruct (Nat.eqb a cur). subst. right; left; auto. right; auto.
    + eapply IHl; eauto.
Qed.

Lemma after_id_incl : forall l cur x, In x (after_id cur l) -> In x l.
Proof. induction l; simpl; intros. contradiction. destruct (Nat.eqb a cur); auto. right. eapply IHl; eauto. Qed.

Definition bumpn (n : hnode) : hnode :=
  {| hn_key := hn_key n; hn_val := hn_val n; hn_ref := S (hn_ref n); hn_removed := hn_removed n; hn_subs := hn_subs n |}.
Definition parked_at (s : hstate) (p : option (nat * hnode)) : hstate :=
  match p with Some (cur, n) => set_heap s (store (h_heap s) cur (bumpn n)) | None => s end.
Definition cands_of (s : hstate) (p : option (nat * hnode)) (b0 : nat) : list nat :=
  match p with Some (cur, _) => after_id cur (bucket s b0) | None => bucket s b0 end.
Definition rem_of (s : hstate) (p : option (nat * hnode)) (b0 : nat) : list nat :=
  cands_of s p b0 ++ concat (skipn (S b0) (h_buckets s)).

Lemma rem_incl : forall s p b0 x, In x (rem_of s p b0) -> In x (linked s).
Proof.
  unfold rem_of. intros. apply in_app_or in H. destruct H.
  - apply linked_bucket. exists b0. destruct p as [[cur n]|]; simpl in H; auto. eapply after_id_incl; eauto.
  - apply in_concat_skipn in H. destruct H as [b' [_ H]]. apply linked_bucket. exists b'. auto.
Qed.

Lemma node_eta : forall n, hn_ref n = 1 ->
  {| hn_key := hn_key n; hn_val := hn_val n; hn_ref := 1; hn_removed := hn_removed n; hn_subs := hn_subs n |} = n.
Proof. destruct n; simpl; intros; subst; auto. Qed.

Lemma store_same : forall h id n, deref h id = Ok n -> store h id n = h.
Proof.
  intros. apply deref_ok in H. destruct H as [c [C1 [C2 C3]]]. apply list_ext. intros i. unfold store. rewrite nth_error_upd.
  destruct (Nat.eqb id i) eqn:E; auto. apply Nat.eqb_eq in E. subst i.
  assert (id < length h) by (apply nth_error_Some; congruence). apply Nat.ltb_lt in H. rewrite H, C1. destruct c; simpl in *; subst; auto.
Qed.

Lemma store_store : forall h id n n', store (store h id n) id n' = store h id n'.
Proof.
  intros. apply list_ext. intros i. unfold store. rewrite !nth_error_upd, upd_length. destruct (Nat.eqb id i); auto.
Qed.

Lemma store_comm : forall h a b n m, a <> b -> store (store h a n) b m = store (store h b m) a n.
Proof.
  intros. apply list_ext. intros i. unfold store. rewrite !nth_error_upd, !upd_length.
  destruct (Nat.eqb a i) eqn:E1, (Nat.eqb b i) eqn:E2; auto. apply Nat.eqb_eq in E1, E2. subst. contradiction.
Qed.

Lemma node_deref_bumped : forall st cur n, deref (h_heap st) cur = Ok (bumpn n) -> hn_ref n = 1 ->
  node_deref st cur = Ok (set_heap st (store (h_heap st) cur n), []).
Proof.
  intros. unfold node_deref. rewrite H. simpl. rewrite H0. simpl. destruct n; simpl in *; subst. reflexivity.
Qed.

Lemma set_heap_same : forall s, set_heap s (h_heap s) = s.
Proof. destruct s; reflexivity. Qed.

Lemma after_id_notin : forall l cur, NoDup l -> ~ In cur (after_id cur l).
Proof.
  induction l; simpl; intros; auto. inversion H; subst. destruct (Nat.eqb a cur) eqn:E.
  - apply Nat.eqb_eq in E. subst. auto.
  - apply IHl; auto.
Qed.

(* leaving the parked node restores the table *)
Lemma unpark : forall s cur n, deref (h_heap s) cur = Ok n -> hn_ref n = 1 ->
  node_deref (parked_at s (Some (cur, n))) cur = Ok (s, []).
Proof.
  intros. assert (cur < length (h_heap s)) by (eapply deref_lt; eauto).
  rewrite (node_deref_bumped _ cur n); auto.
  - simpl. unfold set_heap at 1. simpl. rewrite store_store, store_same by auto. f_equal. f_equal. destruct s; reflexivity.
  - simpl. rewrite deref_store by auto. rewrite Nat.eqb_refl. auto.
Qed.

(* the tail of hashtable_iter_next once the next node nx has been found *)
Lemma iter_tail : forall s p nx m b', Good s ->
  (match p with Some (cur, n) => deref (h_heap s) cur = Ok n /\ hn_ref n = 1 /\ cur <> nx | None => True end) ->
  deref (h_heap s) nx = Ok m ->
  (do '(s1, fv) <- (do n <- deref (h_heap (parked_at s p)) nx;
                    Ok (set_heap (parked_at s p) (store (h_heap (parked_at s p)) nx
                          {| hn_key := hn_key n; hn_val := hn_val n; hn_ref := S (hn_ref n); hn_removed := hn_removed n; hn_subs := hn_subs n |}),
                        hn_val n));
   do '(s2, ns) <- match option_map fst p with Some cur => node_deref s1 cur | None => Ok (s1, []) end;
   do n <- deref (h_heap s2) nx;
   Ok (s2, {| hi_node := Some nx; hi_bucket := b' |}, Some (hn_key n, fv), ns)) =
  Ok (parked_at s (Some (nx, m)), {| hi_node := Some nx; hi_bucket := b' |}, Some (hn_key m, hn_val m), []).
Proof.
  intros s p nx m b' G Hp Hm. assert (Hlt : nx < length (h_heap s)) by (eapply deref_lt; eauto).
  destruct p as [[cur n]|]; simpl.
  - destruct Hp as [Hc [Hr Hne]]. assert (Hlc : cur < length (h_heap s)) by (eapply deref_lt; eauto).
    rewrite deref_store by auto. apply Nat.eqb_neq in Hne. rewrite Hne. rewrite Hm. simpl.
    rewrite (node_deref_bumped _ cur n); auto.
    2:{ simpl. rewrite deref_store by (rewrite store_length; auto). rewrite Nat.eqb_sym, Hne.
        rewrite deref_store by auto. rewrite Nat.eqb_refl. auto. }
    simpl. apply Nat.eqb_neq in Hne.
    assert (E : store (store (store (h_heap s) cur (bumpn n)) nx (bumpn m)) cur n = store (h_heap s) nx (bumpn m)).
    { rewrite (store_comm _ cur nx) by auto. rewrite store_store.
      rewrite (store_comm _ nx cur) by auto. rewrite (store_same (h_heap s) cur n); auto. }
    fold (bumpn m). rewrite E. rewrite deref_store by auto. rewrite Nat.eqb_refl. simpl. reflexivity.
  - rewrite Hm. simpl. rewrite deref_store by auto. rewrite Nat.eqb_refl. simpl. reflexivity.
Qed.

(* one hashtable_iter_next from a position of a traversal over an otherwise untouched, well-formed table *)
Lemma iter_next_core : forall s p b0, Good s ->
  (match p with Some (cur, n) => deref (h_heap s) cur = Ok n /\ In cur (bucket s b0) | None => True end) ->
  match rem_of s p b0 with
  | [] => h_iter_next v_fixed (parked_at s p) {| hi_node := option_map fst p; hi_bucket := b0 |} =
          Ok (s, {| hi_node := None; hi_bucket := nb s |}, None, [])
  | nx :: R' => exists b' m, deref (h_heap s) nx = Ok m /\ In nx (bucket s b') /\ rem_of s (Some (nx, m)) b' = R' /\
          h_iter_next v_fixed (parked_at s p) {| hi_node := option_map fst p; hi_bucket := b0 |} =
          Ok (parked_at s (Some (nx, m)), {| hi_node := Some nx; hi_bucket := b' |}, Some (hn_key m, hn_val m), [])
  end.
Proof.
  intros s p b0 G Hp.
  set (sp := parked_at s p).
  assert (Hb : h_buckets sp = h_buckets s) by (destruct p as [[c n]|]; reflexivity).
  assert (Hnb : nb sp = nb s) by (unfold nb; rewrite Hb; auto).
  assert (Hbk : forall b, bucket sp b = bucket s b) by (intros; unfold bucket; rewrite Hb; auto).
  (* every linked node is still there and not removed in the parked heap *)
  assert (OK : all_ok (h_heap sp) (linked s)).
  { intros id Hid. destruct (good_linked s id G Hid) as [m [M1 [_ [M3 _]]]].
    destruct p as [[cur n]|]; simpl; eauto. destruct Hp as [Hp1 _].
    rewrite deref_store by (eapply deref_lt; eauto). destruct (Nat.eqb cur id) eqn:E; eauto.
    apply Nat.eqb_eq in E. subst. rewrite Hp1 in M1. inversion M1; subst. exists (bumpn m). split; auto. }
  assert (OKR : all_ok (h_heap sp) (rem_of s p b0)). { intros id Hid. apply OK. eapply rem_incl; eauto. }
  unfold h_iter_next. fold sp. simpl hi_node. simpl hi_bucket. rewrite Hnb, Hb, Hbk.
  (* first *)
  assert (FIRST : (match option_map fst p with
                   | Some cur => do _ <- deref (h_heap sp) cur; Ok (after_id cur (bucket s b0))
                   | None => Ok (bucket s b0) end) = Ok (cands_of s p b0)).
  { destruct p as [[cur n]|]; simpl; auto. destruct Hp as [Hp1 Hp2].
    destruct (OK cur) as [m [M1 _]]. apply linked_bucket; eauto. unfold sp in M1. simpl in M1. rewrite M1. auto. }
  rewrite FIRST. simpl.
  destruct (Nat.ltb b0 (nb s)) eqn:LT.
  2:{ (* beyond the table: nothing remains *)
      apply Nat.ltb_ge in LT. unfold nb in LT.
      assert (rem_of s p b0 = []).
      { unfold rem_of, cands_of, bucket. rewrite nth_overflow by auto. rewrite skipn_all2 by lia.
        destruct p as [[c n]|]; auto. }
      rewrite H. simpl. destruct p as [[cur n]|]; simpl; auto.
      destruct Hp as [_ Hp2]. unfold bucket in Hp2. rewrite nth_overflow in Hp2 by auto. contradiction. }
  (* facts about the parked node *)
  assert (HP : forall nx, In nx (rem_of s p b0) ->
               match p with Some (cur, n) => deref (h_heap s) cur = Ok n /\ hn_ref n = 1 /\ cur <> nx | None => True end).
  { intros nx Hnx. destruct p as [[cur n]|]; auto. destruct Hp as [Hp1 Hp2].
    destruct (g_node _ G b0 cur Hp2) as [n' [N1 [N2 _]]]. rewrite Hp1 in N1. inversion N1; subst n'.
    split; auto. split; auto. intro; subst nx. unfold rem_of, cands_of in Hnx. apply in_app_or in Hnx. destruct Hnx as [Hnx|Hnx].
    - eapply after_id_notin; eauto. apply nodup_concat_nth. apply (g_nodup _ G).
    - apply in_concat_skipn in Hnx. destruct Hnx as [b' [Hb1 Hb2]].
      assert (b' = b0) by (eapply nodup_concat_unique; eauto; apply (g_nodup _ G)). lia. }
  rewrite scan_buckets_good by exact OKR.
  change (match h_buckets s with [] => [] | _ :: l => skipn b0 l end) with (skipn (S b0) (h_buckets s)).
  generalize (first_ne_spec (skipn (S b0) (h_buckets s)) b0).
  unfold rem_of in *. destruct (cands_of s p b0) as [|nx c'] eqn:CE.
  - destruct (first_ne b0 (skipn (S b0) (h_buckets s))) as [[nx b']|].
    + intros [j [t [J1 [J2 J3]]]]. rewrite J3 in *. cbn [app].
      rewrite nth_skipn' in J2. replace (S b0 + j) with b' in J2 by lia.
      assert (Hin : In nx (bucket s b')). { unfold bucket. rewrite J2. left; auto. }
      destruct (g_node _ G b' nx Hin) as [m [M1 [M2 [M3 M4]]]].
      exists b', m. split; auto. split; auto. split.
      { assert (Q : forall B, after_id nx (nx :: t) ++ concat (skipn (S b') B) = t ++ concat (skipn (S j) (skipn (S b0) B))).
        { intros. cbn [after_id]. rewrite Nat.eqb_refl. f_equal. rewrite skipn_skipn'. f_equal. f_equal. lia. }
        unfold cands_of, bucket. rewrite J2. apply Q. }
      simpl. apply (iter_tail s p nx m b' G); auto. apply HP. left; auto.
    + intros E. rewrite E in *. cbn [app]. simpl.
      destruct p as [[cur n]|]; simpl.
      * destruct Hp as [Hp1 Hp2]. destruct (g_node _ G b0 cur Hp2) as [n' [N1 [N2 _]]]. rewrite Hp1 in N1. inversion N1; subst n'.
        unfold sp. rewrite (unpark s cur n Hp1 N2). reflexivity.
      * reflexivity.
  - intros _. cbn [app].
    assert (Hin : In nx (bucket s b0)).
    { destruct p as [[cur n]|]; simpl in CE. eapply after_id_incl. rewrite CE. left; auto. rewrite CE. left; auto. }
    destruct (g_node _ G b0 nx Hin) as [m [M1 [M2 [M3 M4]]]].
    exists b0, m. split; auto. split; auto. split.
    { f_equal. unfold cands_of. destruct p as [[cur n]|]; simpl in CE.
      - eapply after_id_next; eauto. apply nodup_concat_nth. apply (g_nodup _ G).
      - rewrite CE. simpl. rewrite Nat.eqb_refl. auto. }
    simpl. apply (iter_tail s p nx m b0 G); auto. apply HP. left; auto.
Qed.

Fixpoint takeL (stop calls : nat) (l : list nat) : list nat :=
  match l with
  | [] => []
  | e :: t => if negb (Nat.eqb stop 0) && Nat.leb stop (S calls) then [e] else e :: takeL stop (S calls) t
  end.

Lemma takeL_spec : forall l stop c, (stop = 0 \/ c < stop) ->
  takeL stop c l = match stop with 0 => l | _ => firstn (stop - c) l end.
Proof.
  induction l; simpl; intros.
  - destruct stop; auto. destruct (S stop - c); auto.
  - destruct H.
    + subst. simpl. f_equal. rewrite IHl by auto. auto.
    + destruct stop. lia. simpl negb. cbn [andb].
      destruct (Nat.leb (S stop) (S c)) eqn:E.
      * apply Nat.leb_le in E. replace (S stop - c) with 1 by lia. reflexivity.
      * apply Nat.leb_gt in E. rewrite IHl by lia. replace (S stop - c) with (S (S stop - S c)) by lia. reflexivity.
Qed.

Definition kv_of (s : hstate) (id : nat) : key * val := kv (ent (h_heap s) id).

Lemma foreach_loop_ok : forall R s p b0 fuel stop calls acc nacc, Good s ->
  (match p with Some (cur, n) => deref (h_heap s) cur = Ok n /\ In cur (bucket s b0) | None => True end) ->
  rem_of s p b0 = R -> length R < fuel ->
  exists st' hi',
    foreach_loop v_fixed fuel (parked_at s p) {| hi_node := option_map fst p; hi_bucket := b0 |} stop calls acc nacc =
      Ok (st', hi', rev acc ++ map (kv_of s) (takeL stop calls R), nacc) /\
    h_iter_free v_fixed st' hi' = Ok (s, []).
Proof.
  induction R; intros s p b0 fuel stop calls acc nacc G Hp HR Hf.
  - destruct fuel. simpl in Hf. lia. simpl.
    generalize (iter_next_core s p b0 G Hp). rewrite HR. intro E. rewrite E. simpl.
    exists s, {| hi_node := None; hi_bucket := nb s |}. rewrite !app_nil_r. split; auto.
  - destruct fuel. simpl in Hf. lia. cbn [foreach_loop].
    generalize (iter_next_core s p b0 G Hp). rewrite HR. intros [b' [m [M1 [M2 [M3 E]]]]]. rewrite E. cbn [bind].
    destruct (g_node _ G b' a M2) as [m' [N1 [N2 _]]]. rewrite M1 in N1. inversion N1; subst m'.
    assert (KV : kv_of s a = (hn_key m, hn_val m)). { unfold kv_of. rewrite (deref_ent _ _ _ M1). reflexivity. }
    cbn [takeL].
    destruct (negb (Nat.eqb stop 0) && Nat.leb stop (S calls)) eqn:ST.
    + exists (parked_at s (Some (a, m))), {| hi_node := Some a; hi_bucket := b' |}. split.
      * rewrite app_nil_r. simpl. rewrite KV. reflexivity.
      * unfold h_iter_free. simpl fx_iter_free. cbn [hi_node]. apply unpark; auto.
    + destruct (IHR s (Some (a, m)) b' fuel stop (S calls) ((hn_key m, hn_val m) :: acc) (nacc ++ [])) as [st' [hi' [F1 F2]]]; auto.
      simpl in Hf. lia.
      exists st', hi'. split; auto. cbn [option_map fst] in F1. rewrite F1. rewrite app_nil_r. simpl. rewrite KV.
      rewrite <- app_assoc. reflexivity.
Qed.

Lemma nodup_bounded_length : forall (l : list nat) n, NoDup l -> (forall x, In x l -> x < n) -> length l <= n.
Proof.
  intros. rewrite <- (seq_length n 0). apply NoDup_incl_length; auto. intros x Hx. apply in_seq. apply H0 in Hx. lia.
Qed.

Lemma step_foreach : forall rc s stop, Good s -> step_ok rc s (Foreach stop).
Proof.
  intros rc s stop G. destruct rc as [[e1 e2] e3]. unfold step_ok, h_step, a_step. simpl. rewrite (g_alive _ G). simpl.
  unfold h_foreach.
  assert (R0 : rem_of s None 0 = linked s).
  { unfold rem_of, cands_of, bucket, linked. generalize (g_nb _ G). unfold nb. intro. rewrite (concat_split (h_buckets s) 0) by auto. reflexivity. }
  assert (LEN : length (linked s) < S (S (length (h_heap s)))).
  { generalize (nodup_bounded_length (linked s) (length (h_heap s)) (g_nodup _ G) (fun x Hx => linked_lt s x G Hx)). lia. }
  destruct (foreach_loop_ok (linked s) s None 0 (S (S (length (h_heap s)))) stop 0 [] [] G I R0 LEN) as [st' [hi' [F1 F2]]].
  simpl parked_at in F1. simpl option_map in F1. unfold h_iter_create. rewrite F1. cbn [bind]. rewrite F2. cbn [bind].
  eexists s, _, (OEntries (take_stop stop (live_kv (abs s)))), _. split; [reflexivity|]. split; [reflexivity|]. split; [|split; auto].
  simpl. f_equal. rewrite takeL_spec by (destruct stop; [left; auto | right; lia]).
  unfold live_kv. rewrite live_abs by auto. simpl. unfold kv_of. rewrite <- map_map.
  destruct stop; simpl; auto. destruct (linked s); simpl; auto. rewrite !firstn_map. reflexivity.
Qed.

(* ---------- any operation that is not an iterator operation; whole histories ---------- *)
Theorem hash_step_ok : forall rc s o, Good s -> is_iter_op o = false -> step_ok rc s o.
Proof.
  intros. destruct o; try discriminate.
  - apply step_put; auto.
  - apply step_get; auto.
  - apply step_rm; auto.
  - apply step_count; auto.
  - apply step_foreach; auto.
  - apply step_notify_add; auto.
  - apply step_notify_del; auto.
  - apply step_destroy; auto.
Qed.

Lemma dead_step : forall rc s o NB, h_alive s = false ->
  h_step v_fixed hf rc s o = Ok (s, OIgnored, []) /\ a_step (hbefore NB) (rc4 rc) (abs s) o = (abs s, OIgnored, []).
Proof.
  intros. destruct rc as [[e1 e2] e3]. unfold h_step, a_step. simpl. rewrite H. simpl. auto.
Qed.
End HR.

(* ---------- C17 for the pointer-level hashtable model ---------- *)
(* the pointer-level model and the dictionary specification in lock step; the specification's traversal order is
   the model's bucket-major order (each present key exactly once: C17_traversal), counts are compared modulo
   2^64 (size_t) *)
Fixpoint b_lockstep (hf : key -> N) (rc : Z * Z * Z) (s : hstate) (sp : sstate) (ops : list op) : Prop :=
  match ops with
  | [] => True
  | o :: t =>
    match h_step v_fixed hf rc s o with
    | Err _ => False
    | Ok (s', x, ns) =>
      let '(sp', x', ns') := spec_step (fl_of (rc4 rc) (abs s)) sp o in
      x = out_wrap x' /\ ns = ns' /\ b_lockstep hf rc s' sp' t
    end
  end.

Lemma good_create : forall hf m, Good hf (h_create m) /\ abs (h_create m) = r_init.
Proof.
  intros. assert (L : linked (h_create m) = []) by (unfold linked, h_create; simpl; apply concat_repeat_nil).
  split.
  - constructor; simpl; auto.
    + unfold nb. simpl. rewrite repeat_length. assert (2 ^ order_of m <> 0) by (apply Nat.pow_nonzero; lia). lia.
    + rewrite L. constructor.
    + intros b id Hid. exfalso. unfold bucket in Hid. simpl in Hid.
      assert (In id (concat (repeat [] (2 ^ order_of m)))). { apply in_concat_nth. exists b. auto. }
      rewrite concat_repeat_nil in H. contradiction.
    + rewrite L. constructor.
    + rewrite L. reflexivity.
  - unfold abs. rewrite L. reflexivity.
Qed.

Theorem hash_c17_from : forall hf rc ops s sp,
  (Good hf s \/ h_alive s = false) -> Inv17 (abs s) sp -> no_iter_ops ops = true -> b_lockstep hf rc s sp ops.
Proof.
  induction ops; simpl; intros s sp HG HI HN; auto.
  apply andb_true_iff in HN. destruct HN as [HN1 HN2]. apply negb_true_iff in HN1.
  destruct HG as [HG|HD].
  - destruct (hash_step_ok hf rc s a HG HN1) as [s' [x [x' [ns [E1 [E2 [E3 [E4 E5]]]]]]]]. rewrite E1.
    generalize (step17 (hbefore hf (nb s)) (rc4 rc) (abs s) sp a HI HN1). rewrite E2.
    destruct (spec_step (fl_of (rc4 rc) (abs s)) sp a) as [[sp' x''] ns'']. intros [Q1 [Q2 Q3]]. subst.
    split; auto.
  - destruct (dead_step hf rc s a (nb s) HD) as [E1 E2]. rewrite E1.
    generalize (step17 (hbefore hf (nb s)) (rc4 rc) (abs s) sp a HI HN1). rewrite E2.
    destruct (spec_step (fl_of (rc4 rc) (abs s)) sp a) as [[sp' x''] ns'']. intros [Q1 [Q2 Q3]]. subst.
    split; auto.
Qed.

Theorem hash_c17 : forall hf rc max_size ops, no_iter_ops ops = true -> b_lockstep hf rc (h_create max_size) s_init ops.
Proof.
  intros. destruct (good_create hf max_size) as [G A]. apply hash_c17_from; auto. rewrite A. apply inv17_init.
Qed.

(* corollary: no history without caller-held iterators reaches an error state (use after free, out of bounds,
   reference underflow, fuel) *)
Lemma b_lockstep_no_error : forall hf rc ops s sp, b_lockstep hf rc s sp ops -> snd (h_run v_fixed hf rc s ops) = None.
Proof.
  induction ops; simpl; intros; auto. destruct (h_step v_fixed hf rc s a) as [[[s' x] ns]|e]; try contradiction.
  destruct (spec_step (fl_of (rc4 rc) (abs s)) sp a) as [[sp' x'] ns']. destruct H as [_ [_ H]].
  apply IHops in H. destruct (h_run v_fixed hf rc s' ops). simpl in *. auto.
Qed.

Theorem hash_c17_no_error : forall hf rc max_size ops, no_iter_ops ops = true ->
  snd (h_run v_fixed hf rc (h_create max_size) ops) = None.
Proof. intros. eapply b_lockstep_no_error. apply hash_c17; auto. Qed.

(* in every state reached, a complete traversal (the specification's order used above) yields every present key once *)
Fixpoint b_after (hf : key -> N) (rc : Z * Z * Z) (s : hstate) (sp : sstate) (ops : list op) : hstate * sstate :=
  match ops with
  | [] => (s, sp)
  | o :: t =>
    match h_step v_fixed hf rc s o with
    | Err _ => (s, sp)
    | Ok (s', _, _) => b_after hf rc s' (fst (fst (spec_step (fl_of (rc4 rc) (abs s)) sp o))) t
    end
  end.

Theorem hash_c17_traversal : forall hf rc ops s sp,
  (Good hf s \/ h_alive s = false) -> Inv17 (abs s) sp -> no_iter_ops ops = true ->
  let s' := fst (b_after hf rc s sp ops) in let sp' := snd (b_after hf rc s sp ops) in
  NoDup (map fst (live_kv (abs s'))) /\ forall k v, In (k, v) (live_kv (abs s')) <-> d_get (s_dict sp') k = Some v.
Proof.
  induction ops; simpl; intros s sp HG HI HN.
  - apply ref_c17_traversal; auto.
  - apply andb_true_iff in HN. destruct HN as [HN1 HN2]. apply negb_true_iff in HN1.
    destruct HG as [HG|HD].
    + destruct (hash_step_ok hf rc s a HG HN1) as [s' [x [x' [ns [E1 [E2 [E3 [E4 E5]]]]]]]]. rewrite E1.
      generalize (step17 (hbefore hf (nb s)) (rc4 rc) (abs s) sp a HI HN1). rewrite E2.
      destruct (spec_step (fl_of (rc4 rc) (abs s)) sp a) as [[sp' x''] ns'']. intros [Q1 [Q2 Q3]]. simpl. apply IHops; auto.
    + destruct (dead_step hf rc s a (nb s) HD) as [E1 E2]. rewrite E1.
      generalize (step17 (hbefore hf (nb s)) (rc4 rc) (abs s) sp a HI HN1). rewrite E2.
      destruct (spec_step (fl_of (rc4 rc) (abs s)) sp a) as [[sp' x''] ns'']. intros [Q1 [Q2 Q3]]. simpl. apply IHops; auto.
Qed.
