(* C10 - event loop priorities are weak: no level is ever starved.  Statements only; each is closed by `exact`.
   The model (LoopModel.v) transcribes lib/loop.c, loop_job.c, loop_timerlist.c, loop_poll.c, loop_poll_epoll.c;
   [iteration beh e rs st] is one turn of the do-while of qb_loop_run in environment e (clock advance, signals,
   ready descriptors, external stop request) with user callbacks behaving as the table beh says; rs carries
   the locals p_stop and remaining_todo; the turninfo records, per level, whether it was admitted by the
   cut-off (and reached), how long its job list was when its turn came, and how many items were dispatched.
   All theorems hold for EVERY state (not only reachable ones), every behaviour table, every environment. *)
Require Import ZArith List Bool Lia.
Require Import Verif.gen.Consts_loop Verif.LoopModel Verif.LoopProofs_C10 Verif.LoopProofs_C10w Verif.LoopProofs_C10b Verif.LoopProofs_C10c.
Import ListNotations.
Open Scope Z_scope.

(* to_process, read from a created loop, is at least 1 (and the priorities are ordered LOW < MED < HIGH) *)
Theorem C10_consts : 1 <= LOOP_TO_PROCESS /\ LOOP_LOW < LOOP_MED /\ LOOP_MED < LOOP_HIGH /\ LOOP_LEVEL_PRIO_OK = 1.
Proof. exact (conj to_process_pos (conj (proj1 prio_order) (conj (proj2 prio_order) level_prio_ok))). Qed.

(* the cut-off rotates HIGH, MED, LOW, HIGH, ... with period 3 whatever the callbacks and the environment do *)
Theorem C10_rotation : forall beh e rs st,
  ti_pstop (snd (iteration beh e rs st)) = next_pstop (r_pstop rs) /\
  r_pstop (snd (fst (iteration beh e rs st))) = next_pstop (r_pstop rs) /\
  next_pstop (next_pstop (next_pstop (r_pstop rs))) = r_pstop rs.
Proof. exact rotation. Qed.

(* in every run, turn k (k = 0, 1, 2, ...) uses cut-off HIGH, MED, LOW according to k mod 3 *)
Theorem C10_rotation_in_run : forall beh envs st k t,
  nth_error (snd (loop_run beh envs st)) k = Some t -> ti_pstop t = phase k.
Proof. exact loop_run_pstops. Qed.

(* a level is admitted exactly when its priority is >= the cut-off; an admitted level with a non-empty job
   list when its turn comes dispatches between 1 and to_process items; a level that is not admitted none *)
Theorem C10_served_when_due : forall beh e rs st st' rs' ti p,
  iteration beh e rs st = (st', rs', ti) ->
  (ti_returned ti = false -> li_admitted (ti_lv ti p) = prio_geb p (next_pstop (r_pstop rs))) /\
  (li_admitted (ti_lv ti p) = true -> 0 < li_qlen (ti_lv ti p) ->
   1 <= li_disp (ti_lv ti p) <= LOOP_TO_PROCESS) /\
  (li_admitted (ti_lv ti p) = false -> li_disp (ti_lv ti p) = 0).
Proof. exact served_when_due. Qed.

(* qb_loop_run_level stops only when to_process items were dispatched, the list is empty, or stop was requested *)
Theorem C10_quota_exhaustive : forall beh p st st' n,
  run_level beh p st = (st', n) ->
  0 <= n <= LOOP_TO_PROCESS /\ (jobq (lv st p) <> [] -> 1 <= n) /\
  (stop st' = true \/ jobq (lv st' p) = [] \/ n = LOOP_TO_PROCESS).
Proof. exact quota_exhaustive. Qed.

(* no starvation, all behaviours (deleting callbacks included): in any three consecutive turns that are not
   cut short by stop, every level p has a turn in which it is admitted; if anything is on its job list when
   that turn comes, it dispatches between 1 and to_process items there *)
Theorem C10_no_starvation_all_behaviours : forall beh e1 e2 e3 rs st st' rs' ts p,
  three_turns beh e1 e2 e3 rs st = (st', rs', ts) ->
  (forall t, In t ts -> ti_returned t = false) ->
  exists t, In t ts /\ li_admitted (ti_lv t p) = true /\
            (0 < li_qlen (ti_lv t p) -> 1 <= li_disp (ti_lv t p) <= Z.max 1 LOOP_TO_PROCESS /\ 1 <= total_disp ts p).
Proof. exact no_starvation_general. Qed.

(* no starvation for the workloads the property names (callbacks that add jobs / timers / descriptors, modify,
   query, close, raise, in any mix and proportion - no deletions, no signal registrations): a level whose job
   list is non-empty at the start of any three consecutive full turns dispatches at least one item in them,
   however much is queued at the other levels *)
Theorem C10_no_starvation : forall beh e1 e2 e3 rs st st' rs' ts p,
  workload beh -> nosig st ->
  three_turns beh e1 e2 e3 rs st = (st', rs', ts) ->
  (forall t, In t ts -> ti_returned t = false) ->
  jq st p <> [] ->
  1 <= total_disp ts p.
Proof. exact no_starvation_workload. Qed.

(* bounded wait for those workloads: over any number of consecutive full turns ([turns] = that many [iteration]s) the
   items level p dispatched are exactly the first [total_disp] items of its job list as it was at the start extended by
   what was queued later (FIFO service), and at least min(length at the start, to_process * number of turns in which p
   was admitted) of them have been dispatched; p is admitted at least once in any three consecutive turns.  So the
   item at position k of level p is dispatched within 3 * (k / to_process + 1) turns. *)
Theorem C10_bounded_wait : forall beh envs rs st st' rs' ts p,
  workload beh -> nosig st -> turns beh envs rs st = (st', rs', ts) -> (forall t, In t ts -> ti_returned t = false) ->
  exists l pre, jq st p ++ l = pre ++ jq st' p /\ zlen pre = total_disp ts p /\
    Z.min (zlen (jq st p)) (LOOP_TO_PROCESS * admitted_count ts p) <= total_disp ts p.
Proof. exact turns_drain. Qed.
Theorem C10_admitted_every_three : forall beh e1 e2 e3 es rs st st' rs' ts p,
  turns beh (e1 :: e2 :: e3 :: es) rs st = (st', rs', ts) -> (forall t, In t ts -> ti_returned t = false) ->
  exists t1 t2 t3 rest, ts = t1 :: t2 :: t3 :: rest /\ 1 <= admitted_count [t1; t2; t3] p.
Proof. exact admitted_every_three. Qed.

(* the item at position k of a level's job list is handed to its dispatch function once to_process * (admitted turns) > k,
   in particular after 3 * (k / to_process + 1) consecutive full turns *)
Theorem C10_item_served_within : forall beh envs rs st st' rs' ts p k it,
  workload beh -> nosig st -> turns beh envs rs st = (st', rs', ts) -> (forall t, In t ts -> ti_returned t = false) ->
  nth_error (jq st p) k = Some it -> Z.of_nat k < LOOP_TO_PROCESS * admitted_count ts p ->
  exists l pre, jq st p ++ l = pre ++ jq st' p /\ zlen pre = total_disp ts p /\ nth_error pre k = Some it.
Proof. exact item_served_within. Qed.
Theorem C10_item_served_bound : forall beh envs rs st st' rs' ts p k it,
  workload beh -> nosig st -> length envs = (3 * (Z.to_nat (Z.of_nat k / LOOP_TO_PROCESS) + 1))%nat ->
  turns beh envs rs st = (st', rs', ts) -> (forall t, In t ts -> ti_returned t = false) ->
  nth_error (jq st p) k = Some it ->
  exists l pre, jq st p ++ l = pre ++ jq st' p /\ zlen pre = total_disp ts p /\ nth_error pre k = Some it.
Proof. exact item_served_bound. Qed.

(* no sleeping on queued work (every behaviour table): in every state reachable by a history the three todo counters add up to
   the number of items on the three job lists ([dd] = their difference); a full turn hands the next one a remaining_todo that
   is at least the number of items still queued; hence the next epoll_wait is called with timeout 0 while anything is queued *)
Theorem C10_todo_counts_queued : forall f beh h rnd, dd (run_history_fx f beh h rnd) = 0.
Proof. exact dd_all_histories. Qed.
Theorem C10_remaining_covers_queue : forall beh e rs st st' rs' ti, iteration beh e rs st = (st', rs', ti) ->
  dd st' = dd st /\ (ti_returned ti = false -> dd st = 0 -> qsum st' <= r_remaining rs').
Proof. exact iteration_dd. Qed.
Theorem C10_no_sleep_on_queued_work : forall beh e1 e2 rs st st1 rs1 t1,
  dd st = 0 -> iteration beh e1 rs st = (st1, rs1, t1) -> ti_returned t1 = false -> 0 < qsum st1 ->
  ti_timeout (snd (iteration beh e2 rs1 st1)) = 0.
Proof. exact no_sleep_on_queued_work. Qed.

(* opportunities: within every turn the admitted levels are upward closed (a level is admitted together with
   every higher one), hence over any span HIGH >= MED >= LOW; over three consecutive turns exactly 3 : 2 : 1 *)
Theorem C10_opportunities_turn : forall beh e rs st st' rs' ti p q,
  iteration beh e rs st = (st', rs', ti) -> ti_returned ti = false ->
  prio_z p <= prio_z q -> li_admitted (ti_lv ti p) = true -> li_admitted (ti_lv ti q) = true.
Proof. exact opportunities_turn. Qed.
Theorem C10_opportunities_321 : forall beh e1 e2 e3 rs st st' rs' ts,
  three_turns beh e1 e2 e3 rs st = (st', rs', ts) ->
  (forall t, In t ts -> ti_returned t = false) ->
  admitted_count ts High = 3 /\ admitted_count ts Med = 2 /\ admitted_count ts Low = 1.
Proof. exact opportunities_321. Qed.

(* ---- non-vacuity: a saturating workload (six self-re-adding HIGH jobs, a re-adding MED job, an always-ready
   MED descriptor, one LOW job), three turns starting in the middle of the rotation *)
Example C10_example_window :
  let ts := snd (three_turns ex_beh ex_env ex_env ex_env ex_rs ex_st) in
  map ti_returned ts = [false; false; false] /\ map ti_pstop ts = [Med; Low; High] /\
  map (fun t => li_disp (ti_lv t High)) ts = [4; 4; 4] /\ map (fun t => li_disp (ti_lv t Med)) ts = [2; 3; 0] /\
  map (fun t => li_disp (ti_lv t Low)) ts = [0; 1; 0] /\
  zlen (jq ex_st Low) = 1 /\ zlen (jq ex_st High) = 2 /\ total_disp ts Low = 1.
Proof. exact ex_window_ok. Qed.
Example C10_example_workload : workload ex_beh /\ nosig ex_st /\ jq ex_st Low <> [].
Proof. exact ex_workload_ok. Qed.

Print Assumptions C10_consts.
Print Assumptions C10_rotation.
Print Assumptions C10_rotation_in_run.
Print Assumptions C10_served_when_due.
Print Assumptions C10_quota_exhaustive.
Print Assumptions C10_no_starvation_all_behaviours.
Print Assumptions C10_no_starvation.
Print Assumptions C10_bounded_wait.
Print Assumptions C10_admitted_every_three.
Print Assumptions C10_item_served_within.
Print Assumptions C10_item_served_bound.
Print Assumptions C10_todo_counts_queued.
Print Assumptions C10_remaining_covers_queue.
Print Assumptions C10_no_sleep_on_queued_work.
Print Assumptions C10_opportunities_turn.
Print Assumptions C10_opportunities_321.
Print Assumptions C10_example_window.
Print Assumptions C10_example_workload.
