(* C10 / C08 - the log only grows, and what qb_loop_run_level hands to a job's dispatch function is logged as entered:
   so the bounded wait of C10b ends with the EvInv entry of the job in the log of the final state. *)
Require Import ZArith List Bool Lia.
Require Import Verif.gen.Consts_loop Verif.LoopModel Verif.LoopProofs_C10 Verif.LoopProofs_C10w Verif.LoopProofs_C10b.
Import ListNotations.
Open Scope Z_scope.

Definition og (st st' : state) : Prop := exists l, out st' = l ++ out st.
Lemma og_refl : forall st, og st st. Proof. intros. exists []. reflexivity. Qed.
Lemma og_trans : forall a b c, og a b -> og b c -> og a c.
Proof. intros a b c [l1 E1] [l2 E2]. exists (l2 ++ l1). rewrite E2, E1. now rewrite app_assoc. Qed.
Lemma og_same : forall st st', out st' = out st -> og st st'.
Proof. intros st st' E. exists []. now rewrite E. Qed.
Lemma og_emit : forall e st, og st (emit e st).
Proof. intros. exists [e]. reflexivity. Qed.
Lemma og_in : forall st st' e, og st st' -> In e (out st) -> In e (out st').
Proof. intros st st' e [l E] H. rewrite E. apply in_or_app. auto. Qed.
Ltac osame := apply og_same; reflexivity.

Lemma out_item_del : forall p it st, out (item_del p it st) = out st.
Proof. intros. unfold item_del. destruct (in_jobq it High st); [reflexivity|]. destruct (in_jobq it Med st); [reflexivity|]. destruct (in_jobq it Low st); reflexivity. Qed.
Lemma out_next_random : forall st, out (snd (next_random st)) = out st.
Proof. intros. unfold next_random. destruct (rand st); reflexivity. Qed.
Lemma out_draw_check : forall f c st, out (snd (draw_check f c st)) = out st.
Proof.
  induction f; intros; cbn [draw_check]; [reflexivity|]. pose proof (out_next_random st). destruct (next_random st) as [r s]. cbn [snd] in *.
  destruct (0 <? r); cbn [snd]; [exact H|]. rewrite IHf. exact H.
Qed.
Lemma out_draw_check_p : forall f c st, out (snd (draw_check_p f c st)) = out st.
Proof.
  induction f; intros; cbn [draw_check_p]; [reflexivity|]. pose proof (out_next_random st). destruct (next_random st) as [r s]. cbn [snd] in *.
  destruct (negb (r =? 0) && negb (r =? TWO32 - 1)); cbn [snd]; [exact H|]. rewrite IHf. exact H.
Qed.

Lemma og_job_del : forall p key st, og st (snd (job_del p key st)).
Proof.
  intros. unfold job_del. destruct (remove_first _ _) as [[it r]|]; cbn [snd]; [exists [EvDel 0 (item_uid it)]; reflexivity|].
  destruct (find _ _) as [it|]; cbn [snd]; [|apply og_refl]. exists [EvDel 0 (item_uid it)]. rewrite out_item_del. reflexivity.
Qed.
Lemma og_timer_add : forall p d k r st, og st (snd (timer_add p d k r st)).
Proof.
  intros. unfold timer_add, timer_slot, fresh_uid.
  destruct (find_idx _ _); cbn [fst snd];
    match goal with |- context [draw_check 200 0 ?s] => pose proof (out_draw_check 200 0 s) as H; destruct (draw_check 200 0 s) as [c s2] end;
    cbn [snd] in *; eexists [_]; cbn; rewrite H; reflexivity.
Qed.
Lemma og_timer_del : forall h st, og st (snd (timer_del h st)).
Proof.
  intros. unfold timer_del. destruct (timer_from_handle h st) as [[i t]|]; [|apply og_refl].
  destruct (t_state t); cbn [snd]; try apply og_refl.
  - exists [EvDel 1 (t_uid t)]. cbn. rewrite out_item_del. reflexivity.
  - exists [EvDel 1 (t_uid t)]. reflexivity.
Qed.
Lemma og_k : forall st (f : state -> Z * state), (forall s, out (snd (f s)) = out s) -> og st (snd (f st)).
Proof. intros. apply og_same. apply H. Qed.
Lemma out_k_add : forall a b c s, out (snd (k_add a b c s)) = out s.
Proof. intros. unfold k_add. destruct (kfind _ _); reflexivity. Qed.
Lemma out_k_mod : forall a b c s, out (snd (k_mod a b c s)) = out s.
Proof. intros. unfold k_mod. destruct (kfind _ _); reflexivity. Qed.
Lemma out_k_del : forall a s, out (snd (k_del a s)) = out s.
Proof. intros. unfold k_del. destruct (kfind _ _); reflexivity. Qed.
Lemma og_poll_add : forall g p fd ev key st, og st (snd (poll_add_gen g p fd ev key st)).
Proof.
  intros. unfold poll_add_gen. destruct (_ && _); [apply og_refl|]. unfold poll_slot, fresh_uid.
  assert (K : forall i s, out s = out st ->
     og st (snd (let '(c, st0) := draw_check_p 200 0 (set_next_uid (next_uid s + 1) s) in
                 let '(res, st1) := k_add fd (poll_to_epoll ev) (c * TWO32 + Z.of_nat i) st0 in
                 (res, set_polls (upd_nth i (fun old => if res =? 0 then
                     {| p_state := Active; p_check := c; p_fd := fd; p_events := ev; p_revents := 0; p_p := p; p_key := key; p_uid := next_uid s; p_sig := g; p_fn := true |}
                     else if fx_polladd (fx st1) then pslot_emptied else
                     {| p_state := Empty; p_check := c; p_fd := fd; p_events := ev; p_revents := 0; p_p := p; p_key := key; p_uid := next_uid s; p_sig := p_sig old; p_fn := p_fn old |})
                   (polls (if res =? 0 then emit (EvAdd 2 (next_uid s) p) st1 else st1))) (if res =? 0 then emit (EvAdd 2 (next_uid s) p) st1 else st1))))).
  { intros i s E. pose proof (out_draw_check_p 200 0 (set_next_uid (next_uid s + 1) s)) as H.
    destruct (draw_check_p 200 0 (set_next_uid (next_uid s + 1) s)) as [c s2]. cbn [snd] in H.
    pose proof (out_k_add fd (poll_to_epoll ev) (c * TWO32 + Z.of_nat i) s2) as H2.
    destruct (k_add fd (poll_to_epoll ev) (c * TWO32 + Z.of_nat i) s2) as [res s3]. cbn [snd] in *.
    destruct (res =? 0); [eexists [_]|exists []]; cbn; rewrite H2, H; cbn; rewrite E; reflexivity. }
  destruct (find_idx _ _) as [i|]; cbn [fst snd]; apply K; reflexivity.
Qed.
Lemma og_poll_mod : forall p fd ev key st, og st (snd (poll_mod p fd ev key st)).
Proof.
  intros. unfold poll_mod. destruct (find_idx _ _); [|apply og_refl]. destruct (nth_error _ _); [|apply og_refl].
  destruct (_ || _); [apply og_refl|]. destruct (p_events p0 =? ev); [osame|].
  match goal with |- context [k_mod ?a ?b ?d st] => pose proof (out_k_mod a b d st) as H2; destruct (k_mod a b d st) as [res s3] end.
  cbn [snd] in *. apply og_same. cbn. exact H2.
Qed.
Lemma og_poll_del : forall fd st, og st (snd (poll_del fd st)).
Proof.
  intros. unfold poll_del. destruct (find_idx _ _) as [i|]; [|apply og_refl]. destruct (nth_error _ _) as [e|]; [|apply og_refl].
  assert (K : forall s, out (snd (let '(res, s') := k_del fd (emit (EvDel 2 (p_uid e)) s) in (res, set_polls (upd_nth i mark_deleted (polls s')) s'))) = EvDel 2 (p_uid e) :: out s).
  { intros s. pose proof (out_k_del fd (emit (EvDel 2 (p_uid e)) s)) as H. destruct (k_del fd (emit (EvDel 2 (p_uid e)) s)) as [res s']. cbn [snd] in *. cbn. exact H. }
  destruct (p_state e); cbn [snd]; try apply og_refl.
  - exists [EvDel 2 (p_uid e)]. rewrite K, out_item_del. reflexivity.
  - exists [EvDel 2 (p_uid e)]. rewrite K. reflexivity.
Qed.
Lemma og_signal_del : forall h st, og st (snd (signal_del h st)).
Proof.
  intros. unfold signal_del. destruct (h =? 0); [apply og_refl|]. destruct (sig_find h st); cbn [snd]; [|unfold flag_uaf; eexists [_]; reflexivity].
  destruct (fx_sigdel (fx st)); [exists [EvDel 3 h]; reflexivity|]. destruct (find _ _); [|exists [EvDel 3 h]; reflexivity].
  exists [EvDel 3 h]. cbn. rewrite out_item_del. reflexivity.
Qed.
Lemma og_exec_op : forall o st, og st (exec_op o st).
Proof.
  intros o st. unfold exec_op. set (s0 := emit (EvOp o) st). assert (S0 : og st s0) by apply og_emit.
  assert (R : forall tag (r : Z * state), og s0 (snd r) -> og st (ret tag r)).
  { intros tag r H. unfold ret. eapply og_trans; [exact S0|]. eapply og_trans; [exact H|apply og_emit]. }
  destruct o; try (apply R).
  - unfold job_add, fresh_uid. cbn [snd]. eexists [_]. reflexivity.
  - apply og_job_del.
  - apply og_timer_add.
  - apply og_timer_del.
  - cbn. apply og_refl.
  - apply og_poll_add.
  - apply og_poll_mod.
  - apply og_poll_del.
  - unfold signal_add, fresh_uid. cbn. eexists [_]. reflexivity.
  - unfold signal_mod. destruct (_ =? 0); [apply og_refl|]. destruct (sig_find _ _); cbn; [osame|unfold flag_uaf; eexists [_]; reflexivity].
  - apply og_signal_del.
  - eapply og_trans; [exact S0|osame].
  - eapply og_trans; [exact S0|osame].
  - eapply og_trans; [exact S0|]. unfold raise_signal. destruct (existsb _ _); [osame|apply og_refl].
Qed.
Lemma og_exec_ops : forall ops st, og st (exec_ops ops st).
Proof. induction ops as [|o ops IH]; intros; [apply og_refl|]. unfold exec_ops. cbn [fold_left]. eapply og_trans; [apply og_exec_op|apply IH]. Qed.
Lemma og_callback : forall beh kind key a b st, og st (snd (callback beh kind key a b st)).
Proof.
  intros. unfold callback. destruct (beh key (assoc key (cnt st))) as [ops r]. cbn [snd].
  eapply og_trans; [|apply og_exec_ops]. eexists [_]. reflexivity.
Qed.
Lemma og_dispatch : forall beh it st, og st (dispatch beh it st) /\
  (forall u key, it = QJob u key -> In (EvInv 0 u) (out (dispatch beh it st))).
Proof.
  intros beh it st. destruct it as [u key|i|i|u f g k]; cbn [dispatch].
  - split; [eapply og_trans; [apply og_emit|apply og_callback]|]. intros u' k' E; inversion E; subst.
    eapply og_in; [apply og_callback|]. cbn. auto.
  - split; [|discriminate]. destruct (nth_error (timers st) i) as [t|]; [|apply og_refl].
    match goal with |- context [callback beh 1 ?k 0 0 ?s] => pose proof (og_callback beh 1 k 0 0 s) as H; destruct (callback beh 1 k 0 0 s) as [r s3] end.
    cbn [snd] in *. eapply og_trans; [|eapply og_trans; [exact H|osame]]. eexists [_]. reflexivity.
  - split; [|discriminate]. destruct (nth_error (polls st) i) as [e|]; [|apply og_refl].
    match goal with |- context [callback beh 2 ?k ?a ?b ?s] => pose proof (og_callback beh 2 k a b s) as H; destruct (callback beh 2 k a b s) as [r s3] end.
    cbn [snd] in *. eapply og_trans; [apply og_emit|]. eapply og_trans; [exact H|].
    destruct (r <? 0); [|osame]. destruct (nth_error (polls s3) i) as [e'|]; [destruct (est_eqb (p_state e') Deleted)|]; try osame. eexists [_]. reflexivity.
  - split; [|discriminate].
    match goal with |- context [callback beh 3 ?k ?a 0 ?s] => pose proof (og_callback beh 3 k a 0 s) as H; destruct (callback beh 3 k a 0 s) as [r s3] end.
    cbn [snd] in *. eapply og_trans; [apply og_emit|]. eapply og_trans; [exact H|].
    destruct (r =? 0); [apply og_refl|]. destruct (sig_find f s3); [apply og_signal_del|unfold flag_uaf; eexists [_]; reflexivity].
Qed.

(* ------------------------------------------------------------------ what run_level dispatched is in the log *)
Lemma run_level_go_logged : forall beh p, workload beh -> forall fuel processed st st' n,
  nosig st -> run_level_go beh p fuel processed st = (st', n) ->
  nosig st' /\ (forall q, q <> p -> jq st' q = jq st q) /\ (exists pre, jq st p = pre ++ jq st' p /\ zlen pre = n - processed /\
     (forall u key, In (QJob u key) pre -> In (EvInv 0 u) (out st')) /\ og st st').
Proof.
  intros beh p W. induction fuel as [|f IH]; intros processed st st' n N; cbn [run_level_go].
  - intros H; inversion H; subst. split; [auto|]. split; [auto|]. exists []. split; [reflexivity|split; [unfold zlen; cbn; lia|split; [intros ? ? []|apply og_refl]]].
  - destruct (jobq (lv st p)) as [|it rest] eqn:Q.
    + intros H; inversion H; subst. split; [auto|]. split; [auto|]. exists []. split; [reflexivity|split; [unfold zlen; cbn; lia|split; [intros ? ? []|apply og_refl]]].
    + set (s1 := upd_level p (fun l => {| wait := wait l; jobq := rest; todo := todo l |}) st).
      assert (J1 : forall q, jq s1 q = if prio_eqb q p then rest else jq st q).
      { intros q. unfold s1. rewrite jq_upd_level. reflexivity. }
      destruct N as (NA & NB & NC).
      assert (Sit : is_sig it = false) by (apply (NB p); unfold jq; rewrite Q; cbn; auto).
      assert (N1 : nosig s1).
      { split; [exact NA|]. split.
        - intros q x. rewrite J1. destruct (prio_eqb q p) eqn:E; [|apply NB].
          intros Hin. apply (NB p). unfold jq. rewrite Q. cbn; auto.
        - intros q x. unfold s1. rewrite wait_upd_level. destruct (prio_eqb q p) eqn:E; [|apply NC].
          apply prio_eqb_eq in E; subst. cbn. apply NC. }
      destruct (dispatch_workload beh it s1 W N1 Sit) as [N2 J2].
      set (s2 := dispatch beh it s1) in *.
      set (s3 := dec_todo p s2).
      assert (J3 : forall q, jq s3 q = jq s2 q).
      { intros q. unfold s3, dec_todo. rewrite jq_upd_level. destruct (prio_eqb q p) eqn:E; [|reflexivity].
        apply prio_eqb_eq in E; subst. reflexivity. }
      assert (N3 : nosig s3).
      { destruct N2 as (A & B & C). split; [exact A|]. split.
        - intros q x. rewrite J3. apply B.
        - intros q x. unfold s3, dec_todo. rewrite wait_upd_level. destruct (prio_eqb q p) eqn:E; [|apply C].
          apply prio_eqb_eq in E; subst. cbn. apply C. }
      assert (R : (forall q, q <> p -> jq s3 q = jq st q) /\ jq st p = [it] ++ jq s3 p).
      { split.
        - intros q Hq. rewrite J3, J2, J1. destruct (prio_eqb q p) eqn:E; [apply prio_eqb_eq in E; contradiction|reflexivity].
        - rewrite J3, J2, J1, prio_eqb_refl. unfold jq. rewrite Q. reflexivity. }
      destruct R as [R1 R2].
      assert (OG3 : og st s3) by (destruct (og_dispatch beh it s1) as [[l0 E0] _]; exists l0; exact E0).
      assert (LG3 : forall u key, it = QJob u key -> In (EvInv 0 u) (out s3)) by (intros u key E; exact (proj2 (og_dispatch beh it s1) u key E)).
      fold s1. fold s2. fold s3.
      destruct (stop s3).
      * intros H; inversion H; subst. split; [exact N3|]. split; [exact R1|]. exists [it]. split; [exact R2|split; [unfold zlen; cbn; lia|split; [intros u key [E|[]]; exact (LG3 u key E)|exact OG3]]].
      * destruct (processed + 1 <? LOOP_TO_PROCESS).
        -- intros H. apply IH in H; [|exact N3]. destruct H as (N4 & O4 & (pre & P4 & L4 & G4 & OG4)).
           split; [exact N4|]. split.
           ++ intros q Hq. rewrite O4 by auto. apply R1; auto.
           ++ exists ([it] ++ pre). split; [rewrite R2, P4; now rewrite app_assoc|]. split; [unfold zlen in *; rewrite app_length, Nat2Z.inj_add; change (Z.of_nat (length [it])) with 1; lia|].
              split; [|eapply og_trans; eauto]. intros u key Hin. apply in_app_or in Hin. destruct Hin as [[E|[]]|Hin]; [eapply og_in; [exact OG4|exact (LG3 u key E)]|exact (G4 u key Hin)].
        -- intros H; inversion H; subst. split; [exact N3|]. split; [exact R1|]. exists [it]. split; [exact R2|split; [unfold zlen; cbn; lia|split; [intros u key [E|[]]; exact (LG3 u key E)|exact OG3]]].
Qed.



(* the poll phases only add to the log *)
Lemma og_get_more_jobs : forall st, og st (snd (get_more_jobs st)).
Proof.
  intros. apply og_same. unfold get_more_jobs, more_jobs_level.
  destruct (wait (lv st Low)); cbn [snd];
  match goal with |- context [wait (lv ?s Med)] => destruct (wait (lv s Med)) end; cbn [snd];
  match goal with |- context [wait (lv ?s High)] => destruct (wait (lv s High)) end; reflexivity.
Qed.
Lemma og_expire_go : forall fuel n st, og st (snd (expire_go fuel n st)).
Proof.
  induction fuel as [|f IH]; intros n st; cbn [expire_go]; [apply og_refl|].
  destruct (heap_min st) as [[i e]|]; [|apply og_refl]. destruct (e <? now st); [|apply og_refl].
  destruct (nth_error (timers st) i) as [t|]; [|apply og_refl]. eapply og_trans; [|apply IH]. osame.
Qed.
Lemma og_clone_all : forall signo l n st, og st (snd (clone_all signo l n st)).
Proof.
  induction l as [|s l IH]; intros n st; cbn [clone_all]; [apply og_refl|].
  destruct (s_signo s =? signo); [|apply IH]. unfold fresh_uid. eapply og_trans; [|apply IH]. osame.
Qed.
Lemma og_poll_event : forall evt n st, og st (snd (poll_event evt (n, st))).
Proof.
  intros [data bits] n st. unfold poll_event.
  destruct (nth_error (polls st) _) as [e|]; [|eexists [_]; reflexivity].
  destruct (negb _); [eexists [_]; reflexivity|]. destruct (_ || _); [apply og_refl|].
  destruct (est_eqb (p_state e) Joblist); [osame|]. destruct (negb (p_fn e)); [unfold flag_uaf; eexists [_]; reflexivity|].
  destruct (p_sig e); [|osame].
  unfold signal_add_to_jobs. cbn [sigpipe set_polls]. destruct (sigpipe st) as [|g rest]; cbn [snd]; [osame|].
  match goal with |- context [clone_all ?a ?b ?c ?s] => pose proof (og_clone_all a b c s) as H; destruct (clone_all a b c s) as [k s'] end.
  cbn [snd] in *. eapply og_trans; [|exact H]. osame.
Qed.
Lemma og_fold_poll_event : forall evs n st, og st (snd (fold_left (fun acc evt => poll_event evt acc) evs (n, st))).
Proof.
  induction evs as [|evt evs IH]; intros n st; cbn [fold_left]; [apply og_refl|].
  pose proof (og_poll_event evt n st). destruct (poll_event evt (n, st)) as [n1 s1]. cbn [snd] in *. eapply og_trans; [exact H|apply IH].
Qed.
Lemma out_fold_raise : forall gs st, out (fold_left (fun s g => raise_signal g s) gs st) = out st.
Proof. induction gs as [|g gs IH]; intros st; cbn [fold_left]; [reflexivity|]. rewrite IH. unfold raise_signal. destruct (existsb _ _); reflexivity. Qed.
Lemma og_poll_and_add : forall e t st, og st (snd (poll_and_add_to_jobs e t st)).
Proof.
  intros. unfold poll_and_add_to_jobs. eapply og_trans; [|apply og_fold_poll_event]. eexists [_]. cbn [out emit set_out].
  destruct (e_stop e); cbn [out set_stop]; rewrite out_fold_raise; reflexivity.
Qed.

Lemma serve_logged : forall beh c p st st' i, workload beh -> nosig st -> serve beh c p st = (st', i) ->
  og st st' /\ exists pre, jq st p = pre ++ jq st' p /\ zlen pre = li_disp i /\
    (forall u key, In (QJob u key) pre -> In (EvInv 0 u) (out st')).
Proof.
  intros beh c p st st' i W N. unfold serve. destruct (prio_geb p c).
  - destruct (run_level beh p st) as [s n] eqn:R. intros H; inversion H; subst. cbn [li_disp].
    unfold run_level in R. apply run_level_go_logged in R; auto. destruct R as (_ & _ & (pre & P1 & L1 & G1 & O1)).
    split; [exact O1|]. exists pre. split; [exact P1|]. split; [lia|exact G1].
  - intros H; inversion H; subst. split; [apply og_refl|]. exists []. cbn. split; [reflexivity|]. split; [reflexivity|intros ? ? []].
Qed.

Definition logged (pre : list qitem) (st : state) : Prop := forall u key, In (QJob u key) pre -> In (EvInv 0 u) (out st).
Lemma logged_og : forall pre st st', og st st' -> logged pre st -> logged pre st'.
Proof. intros pre st st' O L u key H. eapply og_in; eauto. Qed.

Lemma turn_logged : forall beh e rs st st' rs' ti p,
  workload beh -> nosig st -> iteration beh e rs st = (st', rs', ti) -> ti_returned ti = false ->
  nosig st' /\ og st st' /\ exists l pre, jq st p ++ l = pre ++ jq st' p /\ zlen pre = li_disp (ti_lv ti p) /\ logged pre st'.
Proof.
  intros beh e rs st st' rs' ti p W N. unfold iteration.
  destruct (get_more_jobs_nosig st N) as [N1 G1]. pose proof (og_get_more_jobs st) as O1. destruct (get_more_jobs st) as [jt s1]. cbn [snd] in *.
  unfold expire_the_timers.
  destruct (expire_go_nosig (length (timers s1)) 0 s1 N1) as [N2 G2]. pose proof (og_expire_go (length (timers s1)) 0 s1) as O2.
  destruct (expire_go _ 0 s1) as [tt s2]. cbn [snd] in *.
  match goal with |- context [poll_and_add_to_jobs e ?t s2] =>
    destruct (poll_and_add_nosig e t s2 N2) as [N3 G3]; pose proof (og_poll_and_add e t s2) as O3; destruct (poll_and_add_to_jobs e t s2) as [x s3] end.
  cbn [snd] in *.
  assert (G : grows st s3) by (eapply grows_trans; [exact G1|]; eapply grows_trans; eauto).
  assert (OG : og st s3) by (eapply og_trans; [exact O1|]; eapply og_trans; eauto).
  destruct (G p) as [l EL]. clear G G1 G2 G3 N N1 N2 O1 O2 O3.
  intros H Hret.
  destruct (serve beh (next_pstop (r_pstop rs)) High s3) as [s4 ih] eqn:SH.
  destruct (serve_count _ _ _ _ _ _ W N3 SH) as (N4 & O4 & _ & _). destruct (serve_logged _ _ _ _ _ _ W N3 SH) as (OH & preH & PH & LH & GH).
  destruct (li_admitted ih && stop s4) eqn:EH; [inversion H; subst; discriminate Hret|].
  destruct (serve beh (next_pstop (r_pstop rs)) Med s4) as [s5 im] eqn:SM.
  destruct (serve_count _ _ _ _ _ _ W N4 SM) as (N5 & O5 & _ & _). destruct (serve_logged _ _ _ _ _ _ W N4 SM) as (OM & preM & PM & LM & GM).
  destruct (li_admitted im && stop s5) eqn:EM; [inversion H; subst; discriminate Hret|].
  destruct (serve beh (next_pstop (r_pstop rs)) Low s5) as [s6 il] eqn:SL.
  destruct (serve_count _ _ _ _ _ _ W N5 SL) as (N6 & O6 & _ & _). destruct (serve_logged _ _ _ _ _ _ W N5 SL) as (OL & preL & PL & LL & GL).
  destruct (li_admitted il && stop s6) eqn:EL6; [inversion H; subst; discriminate Hret|].
  inversion H; subst. split; [exact N6|]. split; [eapply og_trans; [exact OG|]; eapply og_trans; [exact OH|]; eapply og_trans; eauto|].
  destruct p; cbn [ti_lv ti_high ti_med ti_low].
  - exists l, preL. rewrite <- EL. rewrite <- (O4 Low) by discriminate. rewrite <- (O5 Low) by discriminate. split; [exact PL|]. split; [exact LL|exact GL].
  - exists l, preM. rewrite (O6 Med) by discriminate. rewrite <- EL. rewrite <- (O4 Med) by discriminate. split; [exact PM|]. split; [exact LM|].
    eapply logged_og; [exact OL|exact GM].
  - exists l, preH. rewrite (O6 High), (O5 High) by discriminate. rewrite <- EL. split; [exact PH|]. split; [exact LH|].
    eapply logged_og; [eapply og_trans; [exact OM|exact OL]|exact GH].
Qed.

Lemma turns_logged : forall beh envs rs st st' rs' ts p,
  workload beh -> nosig st -> turns beh envs rs st = (st', rs', ts) -> (forall t, In t ts -> ti_returned t = false) ->
  og st st' /\ exists l pre, jq st p ++ l = pre ++ jq st' p /\ zlen pre = total_disp ts p /\ logged pre st'.
Proof.
  intros beh. induction envs as [|e es IH]; intros rs st st' rs' ts p W N; cbn [turns].
  - intros H _; inversion H; subst. split; [apply og_refl|]. exists [], []. cbn. rewrite app_nil_r. split; [reflexivity|]. split; [reflexivity|intros ? ? []].
  - destruct (iteration beh e rs st) as [[s1 r1] t] eqn:I1. destruct (turns beh es r1 s1) as [[s2 r2] ts'] eqn:T2.
    intros H Hret; inversion H; subst.
    destruct (turn_logged _ _ _ _ _ _ _ p W N I1 (Hret t (or_introl eq_refl))) as (N1 & OG1 & l1 & pre1 & E1 & L1 & G1).
    destruct (IH r1 s1 st' rs' ts' p W N1 T2 (fun x hx => Hret x (or_intror hx))) as (OG2 & l2 & pre2 & E2 & L2 & G2).
    split; [eapply og_trans; eauto|]. exists (l1 ++ l2), (pre1 ++ pre2). cbn [total_disp fold_right]. fold (total_disp ts' p).
    split; [rewrite app_assoc, E1, <- !app_assoc, E2; reflexivity|]. split; [rewrite zlen_app; lia|].
    intros u key Hin. apply in_app_or in Hin. destruct Hin as [Hin|Hin]; [eapply og_in; [exact OG2|exact (G1 u key Hin)]|exact (G2 u key Hin)].
Qed.

(* a job at position k of its level's job list has entered its callback (EvInv in the log) after 3 * (k / to_process + 1)
   full turns of a loop that is not stopped (delete-free workloads) *)
Lemma job_entered_within : forall beh envs rs st st' rs' ts p k u key,
  workload beh -> nosig st -> length envs = (3 * (Z.to_nat (Z.of_nat k / LOOP_TO_PROCESS) + 1))%nat ->
  turns beh envs rs st = (st', rs', ts) -> (forall t, In t ts -> ti_returned t = false) ->
  nth_error (jq st p) k = Some (QJob u key) -> In (EvInv 0 u) (out st').
Proof.
  intros beh envs rs st st' rs' ts p k u key W N L T R Hk.
  destruct (turns_logged _ _ _ _ _ _ _ p W N T R) as (_ & l & pre & E & LP & G).
  destruct (item_served_bound _ _ _ _ _ _ _ p k _ W N L T R Hk) as (l' & pre' & E' & LP' & Nk).
  (* both prefixes have the length total_disp and agree with jq st p on its first positions *)
  assert (K : Z.of_nat k < zlen pre) by (rewrite LP, <- LP'; eapply nth_error_zlen; eauto).
  assert (H1 : nth_error (jq st p ++ l) k = Some (QJob u key)) by (rewrite nth_error_app1; [exact Hk|apply nth_error_Some; congruence]).
  rewrite E in H1. rewrite nth_error_app1 in H1 by (unfold zlen in K; lia).
  apply (G u key). eapply nth_error_In; eauto.
Qed.
