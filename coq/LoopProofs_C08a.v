(* C08 - basic lemmas: item identity and occurrence counting over the six item lists of the loop, list helpers
   (upd_nth, remove_first, find_idx), and how the level primitives change the counts. *)
Require Import ZArith List Bool Lia.
Require Import Verif.gen.Consts_loop Verif.LoopModel.
Import ListNotations.
Open Scope Z_scope.

(* ------------------------------------------------------------------ identity of queue items *)
Lemma qitem_eqb_refl : forall a, qitem_eqb a a = true.
Proof. destruct a; cbn; auto using Z.eqb_refl, Nat.eqb_refl. Qed.
Lemma qitem_eqb_sym : forall a b, qitem_eqb a b = qitem_eqb b a.
Proof. destruct a, b; cbn; auto using Z.eqb_sym, Nat.eqb_sym. Qed.
Lemma qitem_eqb_trans : forall a b c, qitem_eqb a b = true -> qitem_eqb b c = true -> qitem_eqb a c = true.
Proof.
  destruct a, b, c; cbn; try discriminate; intros H1 H2;
    try (apply Z.eqb_eq in H1; apply Z.eqb_eq in H2; apply Z.eqb_eq; congruence);
    try (apply Nat.eqb_eq in H1; apply Nat.eqb_eq in H2; apply Nat.eqb_eq; congruence).
Qed.
Lemma qitem_eqb_l : forall a b c, qitem_eqb a b = true -> qitem_eqb a c = qitem_eqb b c.
Proof.
  intros a b c H. destruct (qitem_eqb b c) eqn:E.
  - eapply qitem_eqb_trans; eauto.
  - destruct (qitem_eqb a c) eqn:F; [|reflexivity]. rewrite qitem_eqb_sym in H.
    rewrite (qitem_eqb_trans _ _ _ H F) in E. discriminate.
Qed.

(* occurrences of (the identity of) x in a list *)
Fixpoint occ (x : qitem) (l : list qitem) : Z :=
  match l with [] => 0 | it :: r => (if qitem_eqb x it then 1 else 0) + occ x r end.
Lemma occ_nonneg : forall x l, 0 <= occ x l.
Proof. induction l; cbn; [lia|]. destruct (qitem_eqb x a); lia. Qed.
Lemma occ_app : forall x a b, occ x (a ++ b) = occ x a + occ x b.
Proof. induction a; intros; cbn; [lia|]. rewrite IHa. lia. Qed.
Lemma occ_in : forall x it l, In it l -> qitem_eqb x it = true -> 1 <= occ x l.
Proof.
  induction l; cbn; [tauto|]. intros [->|H] E.
  - rewrite E. pose proof (occ_nonneg x l). lia.
  - specialize (IHl H E). destruct (qitem_eqb x a); lia.
Qed.
Lemma occ_zero : forall x l, occ x l = 0 -> forall it, In it l -> qitem_eqb x it = false.
Proof.
  intros x l H it Hin. destruct (qitem_eqb x it) eqn:E; [|reflexivity].
  pose proof (occ_in x it l Hin E). lia.
Qed.
Lemma occ_pos_in : forall x l, 1 <= occ x l -> exists it, In it l /\ qitem_eqb x it = true.
Proof.
  induction l; cbn; [lia|]. destruct (qitem_eqb x a) eqn:E.
  - intros _. exists a. auto.
  - intros H. destruct (IHl ltac:(lia)) as (it & A & B). exists it. auto.
Qed.
Lemma occ_eqb : forall x y l, qitem_eqb x y = true -> occ x l = occ y l.
Proof. induction l; intros; cbn; [reflexivity|]. rewrite (qitem_eqb_l x y a H). now rewrite IHl. Qed.

Lemma occ_filter_neg : forall x f l, (forall it, qitem_eqb x it = true -> f it = false) -> occ x (filter f l) = 0.
Proof.
  induction l; intros H; cbn; [reflexivity|]. destruct (f a) eqn:F; [|auto]. cbn.
  destruct (qitem_eqb x a) eqn:E; [rewrite (H a E) in F; discriminate|]. rewrite IHl; auto.
Qed.
Lemma occ_filter_pos : forall x f l, (forall it, qitem_eqb x it = true -> f it = true) -> occ x (filter f l) = occ x l.
Proof.
  induction l; intros H; cbn; [reflexivity|]. destruct (f a) eqn:F; cbn.
  - rewrite IHl; auto.
  - destruct (qitem_eqb x a) eqn:E; [rewrite (H a E) in F; discriminate|]. rewrite IHl; auto.
Qed.
Lemma occ_filter_le : forall x f l, occ x (filter f l) <= occ x l.
Proof. induction l; cbn; [lia|]. destruct (f a); cbn; destruct (qitem_eqb x a); lia. Qed.

(* remove_first *)
Lemma remove_first_spec : forall A (f : A -> bool) l x r, remove_first f l = Some (x, r) ->
  exists l1 l2, l = l1 ++ x :: l2 /\ r = l1 ++ l2 /\ f x = true /\ (forall y, In y l1 -> f y = false).
Proof.
  intros A f. induction l as [|a l IH]; cbn; [discriminate|]. intros x r. destruct (f a) eqn:F.
  - intros H; inversion H; subst. exists []. eexists. cbn. split; [reflexivity|]. split; [reflexivity|]. split; [assumption|]. intros ? [].
  - destruct (remove_first f l) as [[y r']|] eqn:R; [|discriminate]. intros H; inversion H; subst.
    destruct (IH _ _ eq_refl) as (l1 & l2 & E1 & E2 & Fx & Hl1). exists (a :: l1), l2. subst. cbn. repeat split; auto.
    intros z [<-|Hz]; auto.
Qed.
Lemma remove_first_none : forall A (f : A -> bool) l, remove_first f l = None -> forall y, In y l -> f y = false.
Proof.
  intros A f. induction l as [|a l IH]; cbn; [tauto|]. destruct (f a) eqn:F; [discriminate|].
  destruct (remove_first f l) as [[y r']|]; [discriminate|]. intros _ y [<-|H]; auto.
Qed.
Lemma remove_first_some : forall A (f : A -> bool) l y, In y l -> f y = true -> remove_first f l <> None.
Proof. intros A f l y H F E. rewrite (remove_first_none _ f l E y H) in F. discriminate. Qed.
Lemma occ_remove_first : forall x l y r, remove_first (qitem_eqb x) l = Some (y, r) ->
  qitem_eqb x y = true /\ occ x r = occ x l - 1 /\ (forall z, qitem_eqb z x = false -> occ z r = occ z l) /\
  (forall it, In it r -> In it l).
Proof.
  intros x l y r H. apply remove_first_spec in H. destruct H as (l1 & l2 & -> & -> & F & _).
  split; [exact F|]. split; [|split].
  - rewrite !occ_app. cbn. rewrite F. lia.
  - intros z Hz. rewrite !occ_app. cbn. replace (qitem_eqb z y) with false; [lia|].
    symmetry. rewrite qitem_eqb_sym. rewrite <- (qitem_eqb_l x y z F). now rewrite qitem_eqb_sym.
  - intros it Hin. apply in_app_or in Hin. apply in_or_app. cbn. tauto.
Qed.

(* upd_nth / nth_error *)
Lemma nth_upd_nth_same : forall A (f : A -> A) l i x, nth_error l i = Some x -> nth_error (upd_nth i f l) i = Some (f x).
Proof. induction l; destruct i; cbn; intros; try discriminate; [inversion H; reflexivity|auto]. Qed.
Lemma nth_upd_nth_other : forall A (f : A -> A) l i j, i <> j -> nth_error (upd_nth i f l) j = nth_error l j.
Proof. induction l; destruct i, j; cbn; intros; try congruence; auto. Qed.
Lemma nth_upd_nth_none : forall A (f : A -> A) l i, nth_error l i = None -> upd_nth i f l = l.
Proof. induction l; destruct i; cbn; intros; try discriminate; auto. f_equal; auto. Qed.
Lemma length_upd_nth : forall A (f : A -> A) l i, length (upd_nth i f l) = length l.
Proof. induction l; destruct i; cbn; auto. Qed.
Lemma nth_upd_nth : forall A (f : A -> A) l i j,
  nth_error (upd_nth i f l) j = if Nat.eqb i j then option_map f (nth_error l j) else nth_error l j.
Proof.
  intros. destruct (Nat.eqb i j) eqn:E.
  - apply Nat.eqb_eq in E; subst. destruct (nth_error l j) eqn:N; cbn.
    + now apply nth_upd_nth_same.
    + rewrite nth_upd_nth_none; auto.
  - apply Nat.eqb_neq in E. now apply nth_upd_nth_other.
Qed.
Lemma find_idx_some : forall A (f : A -> bool) l i, find_idx f l = Some i -> exists x, nth_error l i = Some x /\ f x = true.
Proof.
  induction l; cbn; [discriminate|]. intros i. destruct (f a) eqn:F.
  - intros H; inversion H; subst. exists a. auto.
  - destruct (find_idx f l); cbn; [|discriminate]. intros H; inversion H; subst. apply IHl. reflexivity.
Qed.
Lemma find_idx_none : forall A (f : A -> bool) l, find_idx f l = None -> forall i x, nth_error l i = Some x -> f x = false.
Proof.
  induction l; cbn; [intros _ [|i] x; discriminate|]. destruct (f a) eqn:F; [discriminate|].
  destruct (find_idx f l); cbn; [discriminate|]. intros _ [|i] x; cbn; [intros H; inversion H; subst; auto|apply IHl; auto].
Qed.
Lemma nth_error_app_new : forall A (l : list A) x i y, nth_error (l ++ [x]) i = Some y ->
  nth_error l i = Some y \/ (i = length l /\ y = x).
Proof.
  intros. destruct (Nat.lt_ge_cases i (length l)).
  - rewrite nth_error_app1 in H by auto. auto.
  - rewrite nth_error_app2 in H by auto. destruct (i - length l)%nat eqn:E; cbn in H.
    + inversion H; subst. right. split; [lia|reflexivity].
    + destruct n; discriminate.
Qed.

(* ------------------------------------------------------------------ the six lists *)
Lemma prio_eqb_eq : forall a b, prio_eqb a b = true <-> a = b.
Proof. destruct a, b; cbn; split; intros; congruence. Qed.

Definition all_items (st : state) : list qitem :=
  jobq (lv st High) ++ jobq (lv st Med) ++ jobq (lv st Low) ++ wait (lv st High) ++ wait (lv st Med) ++ wait (lv st Low).
Definition occ_all (x : qitem) (st : state) : Z := occ x (all_items st).

Lemma occ_all_split : forall x st,
  occ_all x st = occ x (jobq (lv st High)) + occ x (jobq (lv st Med)) + occ x (jobq (lv st Low)) +
                 occ x (wait (lv st High)) + occ x (wait (lv st Med)) + occ x (wait (lv st Low)).
Proof. intros. unfold occ_all, all_items. rewrite !occ_app. lia. Qed.
Lemma in_all_items : forall it st, In it (all_items st) <->
  exists p, In it (jobq (lv st p)) \/ In it (wait (lv st p)).
Proof.
  intros. unfold all_items. rewrite !in_app_iff. split.
  - intros [H|[H|[H|[H|[H|H]]]]]; [exists High|exists Med|exists Low|exists High|exists Med|exists Low]; auto.
  - intros [q [H|H]]; destruct q; tauto.
Qed.

(* same lists => same everything *)
Lemma all_items_lv : forall st st', lv st' = lv st -> all_items st' = all_items st.
Proof. intros. unfold all_items. now rewrite H. Qed.

(* effect of updating one level *)
Lemma occ_all_upd_level : forall x p f st,
  occ_all x (upd_level p f st) = occ_all x st
     - occ x (jobq (lv st p)) - occ x (wait (lv st p)) + occ x (jobq (f (lv st p))) + occ x (wait (f (lv st p))).
Proof. intros. rewrite !occ_all_split. destruct p; cbn; lia. Qed.
Lemma in_all_upd_level : forall it p f st, In it (all_items (upd_level p f st)) ->
  In it (all_items st) \/ In it (jobq (f (lv st p))) \/ In it (wait (f (lv st p))).
Proof.
  intros it p f st H. apply in_all_items in H. destruct H as (q & H).
  unfold upd_level, set_lv in H. cbn in H. destruct (prio_eqb q p) eqn:E.
  - tauto.
  - left. apply in_all_items. exists q. exact H.
Qed.
Lemma in_all_upd_level_keep : forall it p f st,
  (forall x, In x (jobq (lv st p)) -> In x (jobq (f (lv st p)))) ->
  (forall x, In x (wait (lv st p)) -> In x (wait (f (lv st p)))) ->
  In it (all_items st) -> In it (all_items (upd_level p f st)).
Proof.
  intros it p f st HJ HW H. apply in_all_items in H. destruct H as (q & H). apply in_all_items. exists q.
  unfold upd_level, set_lv. cbn. destruct (prio_eqb q p) eqn:E; [|exact H].
  apply prio_eqb_eq in E; subst. destruct H; auto.
Qed.

(* item_add *)
Lemma occ_all_item_add : forall x p it st,
  occ_all x (item_add p it st) = occ_all x st + (if qitem_eqb x it then 1 else 0).
Proof. intros. unfold item_add. rewrite occ_all_upd_level. cbn. rewrite occ_app. cbn. lia. Qed.
Lemma in_all_item_add : forall y p it st, In y (all_items (item_add p it st)) <-> In y (all_items st) \/ y = it.
Proof.
  intros. unfold item_add. split.
  - intros H. apply in_all_upd_level in H. cbn in H. rewrite in_app_iff in H. cbn in H.
    destruct H as [H|[[H|[H|[]]]|H]]; auto.
    + left. apply in_all_items. exists p. auto.
    + left. apply in_all_items. exists p. auto.
  - intros [H| ->].
    + apply in_all_upd_level_keep; auto. cbn. intros. apply in_or_app. auto.
    + apply in_all_items. exists p. left. unfold upd_level, set_lv. cbn.
      rewrite (proj2 (prio_eqb_eq p p) eq_refl). cbn. apply in_or_app. cbn. auto.
Qed.

(* unlink / item_del *)
Lemma in_jobq_true : forall it p st, in_jobq it p st = true -> 1 <= occ it (jobq (lv st p)).
Proof.
  intros. unfold in_jobq in H. apply existsb_exists in H. destruct H as (y & A & B). eapply occ_in; eauto.
Qed.
Lemma in_jobq_false : forall it p st, in_jobq it p st = false -> occ it (jobq (lv st p)) = 0.
Proof.
  intros. unfold in_jobq in H. pose proof (occ_nonneg it (jobq (lv st p))).
  destruct (Z.eq_dec (occ it (jobq (lv st p))) 0); [auto|]. destruct (occ_pos_in it (jobq (lv st p)) ltac:(lia)) as (y & A & B).
  assert (existsb (qitem_eqb it) (jobq (lv st p)) = true) by (apply existsb_exists; eauto). congruence.
Qed.
Lemma occ_all_unlink : forall x it p st, in_jobq it p st = true ->
  occ_all x (unlink it p st) = occ_all x st - (if qitem_eqb x it then 1 else 0).
Proof.
  intros x it p st H. unfold unlink. rewrite occ_all_upd_level. cbn [jobq wait].
  destruct (remove_first (qitem_eqb it) (jobq (lv st p))) as [[y r]|] eqn:R.
  - destruct (occ_remove_first _ _ _ _ R) as (A & B & C & _).
    destruct (qitem_eqb x it) eqn:E.
    + rewrite (occ_eqb x it r), (occ_eqb x it (jobq (lv st p))) by auto. lia.
    + rewrite (C x E). lia.
  - apply in_jobq_true in H. destruct (occ_pos_in _ _ H) as (y & A & B).
    exfalso. exact (remove_first_some _ _ _ y A B R).
Qed.
Lemma in_all_unlink : forall y it p st, In y (all_items (unlink it p st)) -> In y (all_items st).
Proof.
  intros y it p st H. unfold unlink in H. apply in_all_upd_level in H. cbn [jobq wait] in H.
  destruct H as [H|[H|H]]; auto.
  - destruct (remove_first (qitem_eqb it) (jobq (lv st p))) as [[z r]|] eqn:R.
    + destruct (occ_remove_first _ _ _ _ R) as (_ & _ & _ & D). apply in_all_items. exists p. left. auto.
    + apply in_all_items. exists p. auto.
  - apply in_all_items. exists p. auto.
Qed.
Lemma all_items_dec_todo : forall p st, all_items (dec_todo p st) = all_items st.
Proof. intros. unfold all_items, dec_todo, upd_level, set_lv. destruct p; cbn; reflexivity. Qed.

Lemma occ_all_item_del : forall x p it st,
  occ_all x (item_del p it st) = occ_all x st - (if qitem_eqb x it then (if 1 <=? occ it (jobq (lv st High)) + occ it (jobq (lv st Med)) + occ it (jobq (lv st Low)) then 1 else 0) else 0).
Proof.
  intros. unfold item_del.
  pose proof (occ_nonneg it (jobq (lv st High))). pose proof (occ_nonneg it (jobq (lv st Med))). pose proof (occ_nonneg it (jobq (lv st Low))).
  destruct (in_jobq it High st) eqn:EH.
  { unfold occ_all. rewrite all_items_dec_todo. fold (occ_all x (unlink it High st)). rewrite occ_all_unlink by auto. unfold occ_all.
    apply in_jobq_true in EH. destruct (qitem_eqb x it); [|lia]. replace (1 <=? _) with true; [lia|]. symmetry. apply Z.leb_le. lia. }
  apply in_jobq_false in EH.
  destruct (in_jobq it Med st) eqn:EM.
  { unfold occ_all. rewrite all_items_dec_todo. fold (occ_all x (unlink it Med st)). rewrite occ_all_unlink by auto. unfold occ_all.
    apply in_jobq_true in EM. destruct (qitem_eqb x it); [|lia]. replace (1 <=? _) with true; [lia|]. symmetry. apply Z.leb_le. lia. }
  apply in_jobq_false in EM.
  destruct (in_jobq it Low st) eqn:EL.
  { unfold occ_all. rewrite all_items_dec_todo. fold (occ_all x (unlink it Low st)). rewrite occ_all_unlink by auto. unfold occ_all.
    apply in_jobq_true in EL. destruct (qitem_eqb x it); [|lia]. replace (1 <=? _) with true; [lia|]. symmetry. apply Z.leb_le. lia. }
  apply in_jobq_false in EL.
  destruct (qitem_eqb x it); [|lia]. replace (1 <=? _) with false; [lia|]. symmetry. apply Z.leb_gt. lia.
Qed.
Lemma in_all_item_del : forall y p it st, In y (all_items (item_del p it st)) -> In y (all_items st).
Proof.
  intros y p it st. unfold item_del.
  destruct (in_jobq it High st); [rewrite all_items_dec_todo; apply in_all_unlink|].
  destruct (in_jobq it Med st); [rewrite all_items_dec_todo; apply in_all_unlink|].
  destruct (in_jobq it Low st); [rewrite all_items_dec_todo; apply in_all_unlink|]. auto.
Qed.

(* other components are not touched by the level primitives *)
Lemma item_del_frame : forall p it st,
  timers (item_del p it st) = timers st /\ polls (item_del p it st) = polls st /\ sigs (item_del p it st) = sigs st /\
  next_uid (item_del p it st) = next_uid st /\ out (item_del p it st) = out st /\ regs (item_del p it st) = regs st /\
  fx (item_del p it st) = fx st /\ rand (item_del p it st) = rand st /\ randn (item_del p it st) = randn st /\
  sregs (item_del p it st) = sregs st /\ kset (item_del p it st) = kset st /\ stop (item_del p it st) = stop st.
Proof.
  intros. unfold item_del. destruct (in_jobq it High st); [cbn; repeat split; reflexivity|].
  destruct (in_jobq it Med st); [cbn; repeat split; reflexivity|].
  destruct (in_jobq it Low st); cbn; repeat split; reflexivity.
Qed.
