(* C17 trie part, prefix iteration (3): a complete prefix iteration (create, next until NULL, free) as operations
   of a history. *)
From Coq Require Import List ZArith Bool Arith Lia.
Import ListNotations.
Require Import Verif.gen.Consts_trie Verif.MapTrieModel Verif.MapTrieProofs Verif.MapTrieProofs2 Verif.MapTrieIter
               Verif.MapTrieIter2 Verif.MapTrieIds Verif.MapTrieIter3 Verif.MapTrieIter4 Verif.MapTrieIter5
               Verif.MapTriePrefix1 Verif.MapTriePrefix2.

Definition mk (t0 : trie) (r : tnode) (its : list (nat * iter)) : trie :=
  {| t_root := r; t_len := t_len t0; t_next := t_next t0; t_iters := its |}.

Definition kvout (i : ninfo) : out * list ev := (RKV (Some (n_key i, n_val i)), []).

(* facts about the tree the iteration runs on *)
Record pctx (r0 : tnode) : Prop := {
  pc_uniq : forall x, cnt_t r0 x <= 1;
  pc_hdr : n_id (t_info r0) = 0;
  pc_hval : n_val (t_info r0) = None;
  pc_seg : t_seg r0 = [];
  pc_pres : forall pr s, get_at r0 pr = Some s -> pr <> [] ->
              present_i (t_info s) = match n_val (t_info s) with Some _ => true | None => false end
}.

Lemma step_next_one : forall fx t0 r h it, step fx (mk t0 r [(h, it)]) (OIterNext h) =
  match iter_next fx r it with
  | Err e => Err e
  | Ok (r', it', kv, evs) => Ok (mk t0 r' [(h, it')], RKV kv, evs)
  end.
Proof.
  intros. cbn [step mk t_iters t_root iters_get]. rewrite Nat.eqb_refl.
  destruct (iter_next fx r it) as [[[[r' it'] kv] evs]|e]; auto.
  unfold mk, iters_set. simpl. rewrite Nat.eqb_refl. reflexivity.
Qed.

Lemma run_cons : forall fx t o l, run fx t (o :: l) =
  match step fx t o with
  | Err e => ([], Err e)
  | Ok (t', r, evs) => ((r, evs) :: fst (run fx t' l), snd (run fx t' l))
  end.
Proof. intros. cbn [run]. destruct (step fx t o) as [[[t' r] evs]|e]; auto. destruct (run fx t' l). reflexivity. Qed.

(* the remaining trie_iter_next calls from position pr ++ rel *)
Lemma prefix_nexts : forall fx t0 r0 h pre pr sub rest, pctx r0 -> pr <> [] -> get_at r0 pr = Some sub ->
  forall L rel tcur, get_at r0 (pr ++ rel) = Some tcur -> present_i (t_info tcur) = true -> after_t sub rel = L ->
  run fx (mk t0 (node_ref r0 (pr ++ rel)) [(h, rit pre (Some (n_id (t_info tcur))) (n_id (t_info sub)))])
         (repeat (OIterNext h) (S (length L)) ++ rest)
  = (map kvout L ++ (RKV None, []) :: fst (run fx (mk t0 r0 [(h, rit pre None (n_id (t_info sub)))]) rest),
     snd (run fx (mk t0 r0 [(h, rit pre None (n_id (t_info sub)))]) rest)).
Proof.
  intros fx t0 r0 h pre pr sub rest PC Hpr Gs. induction L as [|x L' IH]; intros rel tcur Gc Pc E.
  - cbn [length repeat app]. rewrite run_cons, step_next_one.
    assert (C : iter_ctx r0 (pr ++ rel) tcur).
    { destruct PC. constructor; auto. }
    rewrite (riter_step fx r0 pre pr sub rel tcur C Hpr Gs Pc).
    pose proof (proj1 next_spec sub rel) as NS. destruct (next_t sub rel) as [p|].
    + destruct NS as [_ [tn [_ [_ X]]]]. rewrite E in X. discriminate.
    + reflexivity.
  - change (repeat (OIterNext h) (S (length (x :: L'))) ++ rest)
      with (OIterNext h :: (repeat (OIterNext h) (S (length L')) ++ rest)).
    rewrite run_cons, step_next_one.
    assert (C : iter_ctx r0 (pr ++ rel) tcur).
    { destruct PC. constructor; auto. }
    rewrite (riter_step fx r0 pre pr sub rel tcur C Hpr Gs Pc).
    pose proof (proj1 next_spec sub rel) as NS. destruct (next_t sub rel) as [p|].
    + destruct NS as [Hp [tn [Gn [An En]]]]. rewrite E in En. inversion En as [[X1 X2]]. subst x.
      assert (Gn0 : get_at r0 (pr ++ p) = Some tn) by (rewrite get_at_app, Gs; exact Gn).
      rewrite Gn0.
      rewrite <- X2. rewrite (IH p tn Gn0 An (eq_sym X2)). reflexivity.
    + rewrite E in NS. discriminate.
Qed.

(* the nodes a prefix iteration visits: the node the lookup of the prefix ends in (if it is present) and the
   present nodes below it *)
Definition prefix_nodes (r0 : tnode) (pre : key) : list ninfo :=
  match look_t r0 pre false with
  | None => []
  | Some pr => match get_at r0 pr with Some sub => self_l sub | None => [] end
  end.

Definition prefix_ops (h : nat) (pre : key) (n : nat) : list op :=
  OIterCreate h (Some pre) :: repeat (OIterNext h) (S n) ++ [OIterFree h].

Lemma mk_self : forall t, t_iters t = [] -> mk t (t_root t) [] = t.
Proof. intros. destruct t. simpl in *. subst. reflexivity. Qed.

Lemma free_ended : forall fx t0 r0 h pre rid rest,
  run fx (mk t0 r0 [(h, rit pre None rid)]) (OIterFree h :: rest) =
  ((RUnit, []) :: fst (run fx (mk t0 r0 []) rest), snd (run fx (mk t0 r0 []) rest)).
Proof.
  intros. rewrite run_cons. cbn [step mk t_iters t_root iters_get]. rewrite Nat.eqb_refl.
  unfold iter_free, rit. simpl. rewrite Nat.eqb_refl. reflexivity.
Qed.

(* a complete prefix iteration on a map nobody else touches: create, next until NULL, free *)
Lemma prefix_run : forall fx t h pre rest, pctx (t_root t) -> t_iters t = [] -> pre <> [] ->
  run fx t (prefix_ops h pre (length (prefix_nodes (t_root t) pre)) ++ rest) =
  ((RUnit, []) :: map kvout (prefix_nodes (t_root t) pre) ++ (RKV None, []) :: (RUnit, []) :: fst (run fx t rest),
   snd (run fx t rest)).
Proof.
  intros fx t h pre rest PC IT Hpre. set (r0 := t_root t) in *.
  assert (MAIN : run fx (mk t r0 [(h, rit pre (Some 0) 0)])
                   (repeat (OIterNext h) (S (length (prefix_nodes r0 pre))) ++ OIterFree h :: rest) =
                 (map kvout (prefix_nodes r0 pre) ++ (RKV None, []) :: (RUnit, []) :: fst (run fx t rest),
                  snd (run fx t rest))).
  { assert (DONE : forall rid, run fx (mk t r0 [(h, rit pre None rid)]) (OIterFree h :: rest) =
                               ((RUnit, []) :: fst (run fx t rest), snd (run fx t rest))).
    { intro rid. rewrite free_ended. unfold r0. rewrite mk_self by auto. reflexivity. }
    destruct PC as [U H0 HV SG PR].
    pose proof (riter_first fx r0 pre U H0 HV Hpre SG PR) as F1.
    unfold prefix_nodes.
    destruct (look_t r0 pre false) as [pr|] eqn:L.
    - destruct (look_false_get _ _ (le_n _) _ _ L) as [sub Gs]. rewrite Gs in *.
      assert (Hpr : pr <> []).
      { destruct r0 as [i0 s0 f0]. simpl in SG. subst s0. cbn [look_t] in L. destruct pre; [congruence|]. simpl in L.
        destruct (look_f f0 (c2i b) pre false); inversion L. discriminate. }
      pose proof (PR pr sub Gs Hpr) as Psub.
      unfold self_l. unfold alive. rewrite Psub.
      assert (PCX : pctx r0) by (constructor; auto).
      destruct (n_val (t_info sub)) as [v|] eqn:V.
      + cbn [app length].
        change (repeat (OIterNext h) (S (S (length (al_t sub)))) ++ OIterFree h :: rest)
          with (OIterNext h :: (repeat (OIterNext h) (S (length (al_t sub))) ++ OIterFree h :: rest)).
        rewrite run_cons, step_next_one, F1.
        pose proof (prefix_nexts fx t r0 h pre pr sub (OIterFree h :: rest) PCX Hpr Gs (al_t sub) [] sub) as PN.
        rewrite app_nil_r in PN. rewrite (PN Gs); [|rewrite Psub; reflexivity|apply after_t_nil].
        rewrite DONE. cbn [map fst snd app]. rewrite <- ?app_assoc. assert (KV : kvout (t_info sub) = (RKV (Some (n_key (t_info sub), Some v)), [])) by (unfold kvout; rewrite V; reflexivity).
        rewrite KV. reflexivity.
      + pose proof (proj1 first_spec sub) as FS. unfold first_spec_t in FS.
        assert (NT : next_t sub [] = first_t sub) by (destruct sub; reflexivity).
        rewrite NT in F1. cbn [app].
        destruct (first_t sub) as [p|].
        * destruct FS as [Hp [tn [Gn [An En]]]].
          assert (Gn0 : get_at r0 (pr ++ p) = Some tn) by (rewrite get_at_app, Gs; exact Gn).
          rewrite Gn0 in F1. rewrite En. cbn [length].
          change (repeat (OIterNext h) (S (S (length (after_t sub p)))) ++ OIterFree h :: rest)
            with (OIterNext h :: (repeat (OIterNext h) (S (length (after_t sub p))) ++ OIterFree h :: rest)).
          rewrite run_cons, step_next_one, F1.
          rewrite (prefix_nexts fx t r0 h pre pr sub (OIterFree h :: rest) PCX Hpr Gs (after_t sub p) p tn Gn0 An eq_refl).
          rewrite DONE. cbn [map fst snd app]. rewrite <- ?app_assoc. reflexivity.
        * rewrite FS. cbn [length repeat app map]. rewrite run_cons, step_next_one, F1. cbn [fst snd].
          rewrite DONE. reflexivity.
    - cbn [length repeat app map]. rewrite run_cons, step_next_one, F1. cbn [fst snd].
      rewrite DONE. reflexivity. }
  unfold prefix_ops. cbn [app]. rewrite run_cons. cbn [step]. rewrite IT. unfold iters_set. cbn [iters_del].
  change {| t_root := t_root t; t_len := t_len t; t_next := t_next t; t_iters := [(h, new_iter (Some pre))] |}
    with (mk t r0 [(h, rit pre (Some 0) 0)]).
  rewrite <- app_assoc. cbn [app]. rewrite MAIN. reflexivity.
Qed.
