(* Extraction of the C06 models (hostile handshake peers + the data path with raw requests).  ExtrOcamlBasic only:
   bool/option/unit/list/prod/sumbool map to the OCaml types of the same shape; Z, positive, nat stay inductive;
   no Extract Constant. *)
From Coq Require Import ExtrOcamlBasic.
Require Import Verif.IpcDataModel Verif.IpcHostileModel.
Extraction "model_C06.ml" init negotiate negotiate_enforced step fixed orig client_fd_readable server_fd_pollin evq_len
  hs_init hs_step census lab_step recv_write_extent.
