(* C17 trie part, iteration (2): every node is found by the lookup of its own string; node ids; updates of one node. *)
From Coq Require Import List ZArith Bool Arith Lia.
Import ListNotations.
Require Import Verif.gen.Consts_trie Verif.MapTrieModel Verif.MapTrieProofs Verif.MapTrieProofs2 Verif.MapTrieIter.

(* TRIE_INDEX2CHAR: the inverse of c2i *)
Definition i2c (j : nat) : byte := if j <? 128 then 127 - j else if j <? 256 then 383 - j else j.

Lemma c2i_i2c : forall j, c2i (i2c j) = j.
Proof.
  intro j. unfold c2i, i2c.
  destruct (j <? 128) eqn:A.
  - apply Nat.ltb_lt in A. replace (127 - j <? 128) with true by (symmetry; apply Nat.ltb_lt; lia). lia.
  - apply Nat.ltb_ge in A. destruct (j <? 256) eqn:B.
    + apply Nat.ltb_lt in B. replace (383 - j <? 128) with false by (symmetry; apply Nat.ltb_ge; lia).
      replace (383 - j <? 256) with true by (symmetry; apply Nat.ltb_lt; lia). lia.
    + apply Nat.ltb_ge in B. replace (j <? 128) with false by (symmetry; apply Nat.ltb_ge; lia).
      replace (j <? 256) with false by (symmetry; apply Nat.ltb_ge; lia). reflexivity.
Qed.

(* the string of the node at path p: segments and index characters on the way *)
Fixpoint qstr (n : tnode) (p : path) {struct p} : key :=
  match p with
  | [] => t_seg n
  | j :: p' => t_seg n ++ i2c j :: match fget (t_ch n) j with Some c => qstr c p' | None => [] end
  end.

Lemma look_qstr : forall p n tn, get_at n p = Some tn -> look_t n (qstr n p) true = Some p.
Proof.
  induction p; intros n tn G; destruct n as [i seg f]; simpl in *.
  - rewrite strip_self. simpl. rewrite Nat.ltb_irrefl. reflexivity.
  - rewrite strip_self_more. rewrite look_f_fget, c2i_i2c.
    destruct (fget f a) as [c|] eqn:F; [|discriminate]. rewrite (IHp c tn G). reflexivity.
Qed.

Lemma qstr_nonempty : forall p n, p <> [] -> qstr n p <> [].
Proof. intros. destruct p; [congruence|]. simpl. destruct (t_seg n); discriminate. Qed.

(* what the lookup of a node's own string observes is that node *)
Lemma obs_qstr : forall p n tn, get_at n p = Some tn -> obs_t n (qstr n p) = core_of (t_info tn).
Proof.
  intros. rewrite obs_of_lookup. rewrite (look_qstr _ _ _ H), H. reflexivity.
Qed.
