(* C03 - death of the IPC peer: executable model (NO proofs in this file).

   PART 1 (server side, client dies).  One service, one peer that may die, everything else of the service in an
   opaque frame.  The state joins
     - the kernel objects the two sides share for this peer (pending connection, the stream "setup" socket with its
       unread handshake / wake-up bytes and whether the client's end is still open, the request queue), and
     - the server's data for the peer: which resources it holds (descriptors, poll-table entries, ring files and
       mappings, control file, temporary directory, authentication record, connection object), the connection state,
       reference count, the callback log, the service's own reference count and statistics.
   Server code transcribed (function by function, see the comment on each definition):
     lib/ipc_setup.c  qb_ipcs_us_connection_acceptor, qb_ipcs_uc_recv_and_auth, process_auth, qb_ipc_us_recv_msghdr
                      (as used by process_auth), handle_new_connection, remove_tempdir
     lib/ipc_shm.c    qb_ipcs_shm_connect, qb_ipcs_shm_disconnect
     lib/ipc_socket.c qb_ipcs_us_connect, qb_ipcs_us_disconnect, _sock_connection_liveliness
     lib/ipcs.c       qb_ipcs_connection_alloc, qb_ipcs_connection_unref, qb_ipcs_disconnect,
                      qb_ipcs_dispatch_connection_request (HUP / empty-queue / message loop / wake-up byte read)
   The client is a PROGRAM: a list of steps, each the effect of one of its system calls (or of its ring write) on the
   shared kernel objects.  "The client dies after k steps" = the first k steps, then the kernel closes its
   descriptors.  The server's main loop makes passes over its poll table between client steps as a schedule says;
   after the death it runs to quiescence.  A pass may use readiness information from before the death
   ([turn_at snap s]: poll() returned, then the client died, then the handlers ran).

   What the kernel reports (POLLHUP / EOF on a stream socket whose peer closed, EPIPE on sending to it, accept()
   still returning a connection whose peer is gone) is written into [revents_*] / the handlers below as read from the
   recorded behaviour of the implementation runs; it is an oracle, not something proved.
   connection_closed() is taken to return 0 (re-runs are C04's subject); connection_accept()'s answer is a parameter.

   PART 2 (client side, server dies): decision logic of qb_ipcc_recv, qb_ipcc_sendv_recv, qb_ipcc_event_recv,
   qb_ipcc_send(v), _check_connection_state(_with), qb_ipc_us_sock_error_is_disconnected, qb_ipcc_shm_disconnect with
   model time in milliseconds; what the kernel answers is an environment record. *)
Require Import ZArith List Bool.
Require Import Verif.gen.Consts_ipcdeath.
Import ListNotations.
Open Scope Z_scope.

Inductive transport := Shm | Sock.
Inductive cstate := INACTIVE | ACTIVE | ESTABLISHED | SHUTTING_DOWN.
Inductive cb := CbAccept | CbCreated | CbMsg | CbClosed | CbDestroyed.

Definition cstate_code (c : cstate) : Z :=
  match c with INACTIVE => 0 | ACTIVE => 1 | ESTABLISHED => 2 | SHUTTING_DOWN => 3 end.

(* ------------------------------------------------------------------ resources held for one peer *)
Record res := mkRes {
  fd_setup : bool;     (* the accepted stream socket *)
  fd_req : bool;       (* socket transport: request/response datagram socket *)
  fd_evt : bool;       (* socket transport: event datagram socket *)
  pe_auth : bool;      (* poll entry of the setup socket -> process_auth *)
  pe_setup : bool;     (* poll entry of the setup socket -> dispatch_connection_request (shm) / liveliness (socket) *)
  pe_req : bool;       (* socket transport: poll entry of the request socket *)
  ring_req : bool;     (* shm: request ring (two files in the directory + two mappings) *)
  ring_rsp : bool;
  ring_evt : bool;
  ctl_map : bool;      (* socket transport: mapping of the control file *)
  ctl_file : bool;     (* socket transport: the control file in the directory *)
  names : bool;        (* socket transport: the two strdup'ed peer socket names *)
  dir : bool;          (* the mkdtemp directory *)
  authrec : bool;      (* struct ipc_auth_data (+ its reference on the service) *)
  connobj : bool       (* struct qb_ipcs_connection + receive_buf (+ its reference on the service) *)
}.
Definition no_res : res := mkRes false false false false false false false false false false false false false false false.

Definition res_eqb (a b : res) : bool :=
  eqb (fd_setup a) (fd_setup b) && eqb (fd_req a) (fd_req b) && eqb (fd_evt a) (fd_evt b) &&
  eqb (pe_auth a) (pe_auth b) && eqb (pe_setup a) (pe_setup b) && eqb (pe_req a) (pe_req b) &&
  eqb (ring_req a) (ring_req b) && eqb (ring_rsp a) (ring_rsp b) && eqb (ring_evt a) (ring_evt b) &&
  eqb (ctl_map a) (ctl_map b) && eqb (ctl_file a) (ctl_file b) && eqb (names a) (names b) &&
  eqb (dir a) (dir b) && eqb (authrec a) (authrec b) && eqb (connobj a) (connobj b).

(* where the server is with this peer BETWEEN handler invocations *)
Inductive phase :=
  | PNone                (* nothing accepted yet *)
  | PAuth (got : Z)      (* accepted, process_auth registered, [got] request bytes read so far *)
  | PConn                (* connection object exists and is ESTABLISHED *)
  | PStalled (need : Z)  (* shm: inside qb_ipcs_dispatch_connection_request, blocked in the INFINITE wait for [need]
                            wake-up bytes of requests it has already processed *)
  | PDone.               (* everything about the peer has been torn down (or it was rejected) *)

Record st (Fr : Type) := mkSt {
  (* kernel objects shared with the peer *)
  k_conn : bool;         (* the client has connect()ed *)
  k_open : bool;         (* the client's end of the setup socket is open *)
  k_auth : Z;            (* bytes sent on the setup socket that the server has not read, handshake phase *)
  k_notify : Z;          (* bytes on the setup socket not read, connection phase (shm wake-up bytes) *)
  k_reqq : Z;            (* requests queued: ring chunks (shm) / datagrams (socket) *)
  (* server *)
  ph : phase;
  held : res;
  cst : cstate;
  refc : Z;
  notified : bool;       (* c->closed_notified *)
  log : list cb;         (* callbacks invoked for this peer, oldest first *)
  svc_ref : Z;           (* s->ref_count *)
  active : Z;            (* s->stats.active_connections *)
  closedn : Z;           (* s->stats.closed_connections *)
  listening : bool;      (* the listening socket's poll entry *)
  others : Fr             (* every other connection, its descriptors, poll entries, files: never touched below *)
}.
Arguments mkSt {Fr}. Arguments k_conn {Fr}. Arguments k_open {Fr}. Arguments k_auth {Fr}. Arguments k_notify {Fr}.
Arguments k_reqq {Fr}. Arguments ph {Fr}. Arguments held {Fr}. Arguments cst {Fr}. Arguments refc {Fr}.
Arguments notified {Fr}. Arguments log {Fr}. Arguments svc_ref {Fr}. Arguments active {Fr}. Arguments closedn {Fr}.
Arguments listening {Fr}. Arguments others {Fr}.

Section Server.
Context {Fr : Type}.
Notation state := (st Fr).
Variable tr : transport.
Variable acc : Z.        (* what connection_accept() returns for this peer: 0 = admit *)

Definition init (r0 a0 c0 : Z) (o : Fr) : state :=
  mkSt false true 0 0 0 PNone no_res INACTIVE 0 false [] r0 a0 c0 true o.

(* field updates *)
Definition with_held (s : state) (h : res) : state :=
  mkSt (k_conn s) (k_open s) (k_auth s) (k_notify s) (k_reqq s) (ph s) h (cst s) (refc s) (notified s) (log s)
       (svc_ref s) (active s) (closedn s) (listening s) (others s).
Definition with_ph (s : state) (p : phase) : state :=
  mkSt (k_conn s) (k_open s) (k_auth s) (k_notify s) (k_reqq s) p (held s) (cst s) (refc s) (notified s) (log s)
       (svc_ref s) (active s) (closedn s) (listening s) (others s).
Definition with_cst (s : state) (c : cstate) : state :=
  mkSt (k_conn s) (k_open s) (k_auth s) (k_notify s) (k_reqq s) (ph s) (held s) c (refc s) (notified s) (log s)
       (svc_ref s) (active s) (closedn s) (listening s) (others s).
Definition with_refc (s : state) (r : Z) : state :=
  mkSt (k_conn s) (k_open s) (k_auth s) (k_notify s) (k_reqq s) (ph s) (held s) (cst s) r (notified s) (log s)
       (svc_ref s) (active s) (closedn s) (listening s) (others s).
Definition with_notified (s : state) (b : bool) : state :=
  mkSt (k_conn s) (k_open s) (k_auth s) (k_notify s) (k_reqq s) (ph s) (held s) (cst s) (refc s) b (log s)
       (svc_ref s) (active s) (closedn s) (listening s) (others s).
Definition add_log (s : state) (l : list cb) : state :=
  mkSt (k_conn s) (k_open s) (k_auth s) (k_notify s) (k_reqq s) (ph s) (held s) (cst s) (refc s) (notified s)
       (log s ++ l) (svc_ref s) (active s) (closedn s) (listening s) (others s).
Definition with_svc (s : state) (r a c : Z) : state :=
  mkSt (k_conn s) (k_open s) (k_auth s) (k_notify s) (k_reqq s) (ph s) (held s) (cst s) (refc s) (notified s) (log s)
       r a c (listening s) (others s).
Definition with_kern (s : state) (kc ko : bool) (ka kn kq : Z) : state :=
  mkSt kc ko ka kn kq (ph s) (held s) (cst s) (refc s) (notified s) (log s)
       (svc_ref s) (active s) (closedn s) (listening s) (others s).

(* ---- lib/ipc_setup.c: remove_tempdir = rmdir(), which only succeeds on an empty directory *)
Definition dir_empty (h : res) : bool :=
  negb (ring_req h) && negb (ring_rsp h) && negb (ring_evt h) && negb (ctl_file h).
Definition remove_tempdir (h : res) : res :=
  if dir_empty h then
    mkRes (fd_setup h) (fd_req h) (fd_evt h) (pe_auth h) (pe_setup h) (pe_req h) (ring_req h) (ring_rsp h) (ring_evt h)
          (ctl_map h) (ctl_file h) (names h) false (authrec h) (connobj h)
  else h.

(* ---- lib/ipc_shm.c: qb_ipcs_shm_disconnect *)
Definition shm_disconnect (c : cstate) (h : res) : res :=
  let h1 := match c with
            | SHUTTING_DOWN | ACTIVE =>       (* qb_rb_close of the three rings: the creator unlinks both files *)
              mkRes (fd_setup h) (fd_req h) (fd_evt h) (pe_auth h) (pe_setup h) (pe_req h) false false false
                    (ctl_map h) (ctl_file h) (names h) (dir h) (authrec h) (connobj h)
            | _ => h end in
  let h2 := match c with
            | ESTABLISHED | ACTIVE =>
              if fd_setup h1 then              (* c->setup.u.us.sock > 0: dispatch_del, shutdown+close, sock = -1 *)
                mkRes false (fd_req h1) (fd_evt h1) (pe_auth h1) false (pe_req h1) (ring_req h1) (ring_rsp h1)
                      (ring_evt h1) (ctl_map h1) (ctl_file h1) (names h1) (dir h1) (authrec h1) (connobj h1)
              else h1
            | _ => h1 end in
  remove_tempdir h2.

(* ---- lib/ipc_socket.c: qb_ipcs_us_disconnect *)
Definition us_disconnect (c : cstate) (h : res) : res :=
  let h1 := match c with
            | ESTABLISHED | ACTIVE =>         (* _sock_rm_from_mainloop, free names, close three sockets *)
              mkRes false false false (pe_auth h) false false (ring_req h) (ring_rsp h) (ring_evt h)
                    (ctl_map h) (ctl_file h) false (dir h) (authrec h) (connobj h)
            | _ => h end in
  let h2 := match c with
            | SHUTTING_DOWN | ACTIVE =>       (* munmap + unlink of the control file *)
              mkRes (fd_setup h1) (fd_req h1) (fd_evt h1) (pe_auth h1) (pe_setup h1) (pe_req h1) (ring_req h1)
                    (ring_rsp h1) (ring_evt h1) false false (names h1) (dir h1) (authrec h1) (connobj h1)
            | _ => h1 end in
  remove_tempdir h2.

Definition funcs_disconnect (c : cstate) (h : res) : res :=
  match tr with Shm => shm_disconnect c h | Sock => us_disconnect c h end.

(* ---- lib/ipcs.c: qb_ipcs_connection_unref *)
Definition conn_unref (s : state) : state :=
  let r := refc s - 1 in
  if r =? 0 then
    (* list del; connection_destroyed(); funcs.disconnect(); qb_ipcs_unref(service); free *)
    let s1 := add_log (with_refc s 0) [CbDestroyed] in
    let h := funcs_disconnect (cst s1) (held s1) in
    let h' := mkRes (fd_setup h) (fd_req h) (fd_evt h) (pe_auth h) (pe_setup h) (pe_req h) (ring_req h) (ring_rsp h)
                    (ring_evt h) (ctl_map h) (ctl_file h) (names h) (dir h) (authrec h) false in
    with_ph (with_svc (with_held s1 h') (svc_ref s1 - 1) (active s1) (closedn s1)) PDone
  else with_refc s r.

(* ---- lib/ipcs.c: qb_ipcs_disconnect (connection_closed() returns 0) *)
Definition conn_disconnect (s : state) : state :=
  match cst s with
  | ACTIVE =>
    let s1 := with_held s (funcs_disconnect ACTIVE (held s)) in
    let s2 := with_cst s1 INACTIVE in
    let s3 := with_svc s2 (svc_ref s2) (active s2) (closedn s2 + 1) in
    conn_unref s3
  | ESTABLISHED =>
    let s1 := with_held s (funcs_disconnect ESTABLISHED (held s)) in
    let s2 := with_cst s1 SHUTTING_DOWN in
    let s3 := with_svc s2 (svc_ref s2) (active s2 - 1) (closedn s2 + 1) in
    if notified s3 then s3
    else
      let s4 := add_log (with_notified s3 true) [CbClosed] in
      let s5 := with_held s4 (remove_tempdir (held s4)) in
      conn_unref s5
  | SHUTTING_DOWN =>
    if notified s then s
    else
      let s4 := add_log (with_notified s true) [CbClosed] in
      let s5 := with_held s4 (remove_tempdir (held s4)) in
      conn_unref s5
  | INACTIVE => s
  end.

(* ---- lib/ipc_shm.c: qb_ipcs_shm_connect / lib/ipc_socket.c: qb_ipcs_us_connect (success paths) *)
Definition funcs_connect (h : res) : res :=
  match tr with
  | Shm => mkRes (fd_setup h) (fd_req h) (fd_evt h) (pe_auth h) true (pe_req h) true true true
                 (ctl_map h) (ctl_file h) (names h) (dir h) (authrec h) (connobj h)
  | Sock => mkRes (fd_setup h) true true (pe_auth h) true true (ring_req h) (ring_rsp h) (ring_evt h)
                  true true true (dir h) (authrec h) (connobj h)
  end.

(* ---- lib/ipc_setup.c: handle_new_connection (auth_result = 0; allocation, mkdtemp, chmod succeed) *)
Definition handle_new_connection (s : state) : state :=
  (* qb_ipcs_connection_alloc: calloc (closed_notified = 0), refcount 1, reference on the service; receive_buf; mkdtemp *)
  let h0 := held s in
  let h1 := mkRes (fd_setup h0) (fd_req h0) (fd_evt h0) (pe_auth h0) (pe_setup h0) (pe_req h0) (ring_req h0)
                  (ring_rsp h0) (ring_evt h0) (ctl_map h0) (ctl_file h0) (names h0) true (authrec h0) true in
  let s1 := with_svc (with_refc (with_cst (with_held (with_notified s false) h1) INACTIVE) 1) (svc_ref s + 1) (active s) (closedn s) in
  let s2 := add_log s1 [CbAccept] in
  if acc =? 0 then
    let s3 := with_cst (with_held s2 (funcs_connect (held s2))) ACTIVE in
    (* send_response: res == 0 -> active_connections++ ; the send succeeds iff the client's end is still open *)
    let s4 := with_svc s3 (svc_ref s3) (active s3 + 1) (closedn s3) in
    if k_open s4 then
      (* ref; connection_created(); ACTIVE -> ESTABLISHED; unref *)
      let s5 := add_log (with_refc s4 (refc s4 + 1)) [CbCreated] in
      let s6 := with_cst s5 ESTABLISHED in
      with_ph (with_refc s6 (refc s6 - 1)) PConn
    else
      conn_disconnect s4
  else
    (* rejected: response sent (result ignored); state INACTIVE: unref drops the object, then the socket is closed *)
    let s3 := conn_unref s2 in
    let h := held s3 in
    with_held s3 (mkRes false (fd_req h) (fd_evt h) (pe_auth h) (pe_setup h) (pe_req h) (ring_req h) (ring_rsp h)
                        (ring_evt h) (ctl_map h) (ctl_file h) (names h) (dir h) (authrec h) (connobj h)).

(* ---- lib/ipc_setup.c: qb_ipcs_us_connection_acceptor + qb_ipcs_uc_recv_and_auth *)
Definition acceptor (s : state) : state :=
  let h := held s in
  let h' := mkRes true (fd_req h) (fd_evt h) true (pe_setup h) (pe_req h) (ring_req h) (ring_rsp h) (ring_evt h)
                  (ctl_map h) (ctl_file h) (names h) (dir h) true (connobj h) in
  with_ph (with_svc (with_held s h') (svc_ref s + 1) (active s) (closedn s)) (PAuth 0).

(* process_auth's cleanup_and_return: dispatch_del; destroy_ipc_auth_data *)
Definition auth_cleanup (s : state) (close_fd : bool) : state :=
  let h := held s in
  let h' := mkRes (if close_fd then false else fd_setup h) (fd_req h) (fd_evt h) false (pe_setup h) (pe_req h)
                  (ring_req h) (ring_rsp h) (ring_evt h) (ctl_map h) (ctl_file h) (names h) (dir h) false (connobj h) in
  with_svc (with_held s h') (svc_ref s - 1) (active s) (closedn s).

(* ---- lib/ipc_setup.c: process_auth (fd, revents) with qb_ipc_us_recv_msghdr *)
Definition process_auth (pollin pollhup : bool) (got : Z) (s : state) : state :=
  if pollhup then with_ph (auth_cleanup s true) PDone
  else if negb pollin then s
  else
    let take := Z.min (k_auth s) (D_AUTH_LEN - got) in
    let got' := got + take in
    let s1 := with_kern s (k_conn s) (k_open s) (k_auth s - take) (k_notify s) (k_reqq s) in
    if got' =? D_AUTH_LEN then
      (* whole request read: dispatch_del, handle_new_connection, destroy_ipc_auth_data;
         bytes sent beyond the request stay in the stream and are from now on read as wake-up bytes *)
      let s2 := with_kern s1 (k_conn s1) (k_open s1) 0 (k_notify s1 + k_auth s1) (k_reqq s1) in
      let s3 := auth_cleanup s2 false in
      handle_new_connection (with_ph s3 PDone)
    else if k_open s1 then
      (* recvmsg: EAGAIN -> yield to the main loop *)
      with_ph s1 (PAuth got')
    else
      (* recvmsg returned 0: -ENOTCONN, res != len: -EIO, close *)
      with_ph (auth_cleanup s1 true) PDone.

(* ---- lib/ipcs.c: qb_ipcs_dispatch_connection_request, tail after the message loop for the shm transport:
        qb_ipc_us_recv(&c->setup, bytes, recvd, -1) *)
Definition finish_wakeup_read (need : Z) (s : state) : state :=
  if need <=? k_notify s then
    with_ph (with_kern s (k_conn s) (k_open s) (k_auth s) (k_notify s - need) (k_reqq s)) PConn
  else if k_open s then
    with_ph s (PStalled need)          (* poll(-1) on the setup socket: the server waits for this client *)
  else
    (* recv 0 / POLLHUP: -ENOTCONN -> -ESHUTDOWN -> qb_ipcs_disconnect; then the dispatch reference is dropped *)
    conn_disconnect (with_ph s PConn).

Definition msgs_n (n : Z) : list cb := repeat CbMsg (Z.to_nat n).

(* ---- lib/ipcs.c: qb_ipcs_dispatch_connection_request (fd, revents), fc_enabled = 0, msg_process returns 0.
        The temporary reference taken by the function is released at its end; as no callback here touches the
        reference count it is folded into conn_disconnect's own accounting. *)
Definition dispatch_request (pollin pollhup : bool) (s : state) : state :=
  if pollhup then conn_disconnect s
  else if negb pollin then s
  else
    let avail := Z.min (k_reqq s) D_MAX_RECV_MSGS in
    match tr with
    | Shm =>
      if avail =? 0 then
        (* qb_ipc_us_recv(&c->setup, bytes, 1, 0) *)
        if 1 <=? k_notify s then with_kern s (k_conn s) (k_open s) (k_auth s) (k_notify s - 1) (k_reqq s)
        else if k_open s then s
        else conn_disconnect s
      else
        let s1 := add_log (with_kern s (k_conn s) (k_open s) (k_auth s) (k_notify s) (k_reqq s - avail)) (msgs_n avail) in
        finish_wakeup_read avail s1
    | Sock =>
      if avail =? 0 then s
      else add_log (with_kern s (k_conn s) (k_open s) (k_auth s) (k_notify s) (k_reqq s - avail)) (msgs_n avail)
    end.

(* ---- lib/ipc_socket.c: _sock_connection_liveliness *)
Definition liveliness (pollin pollhup : bool) (s : state) : state :=
  if pollhup then conn_disconnect s
  else if pollin then (if k_open s then s else conn_disconnect s)
  else s.

(* readiness of the setup socket as the kernel reports it (oracle): readable when bytes are queued or the peer closed
   (EOF), hung up when the peer closed *)
Definition setup_in (k : state) : bool := (0 <? k_auth k) || (0 <? k_notify k) || negb (k_open k).
Definition setup_hup (k : state) : bool := negb (k_open k).

(* ---- one pass of the main loop: poll() answered from [snap]'s kernel objects, handlers act on [s] *)
Definition turn_at (snap s : state) : state :=
  match ph s with
  | PStalled need => finish_wakeup_read need s          (* still inside the handler *)
  | PNone =>
    if listening s && k_conn snap && k_conn s then acceptor s else s
  | PAuth got =>
    match ph snap with
    | PAuth _ => process_auth (setup_in snap) (setup_hup snap) got s
    | _ => s                                            (* the entry did not exist when poll() was called *)
    end
  | PConn =>
    match ph snap with
    | PConn =>
      match tr with
      | Shm => dispatch_request (setup_in snap) (setup_hup snap) s
      | Sock =>
        let s1 := dispatch_request (0 <? k_reqq snap) false s in
        match ph s1 with
        | PConn => liveliness (setup_in snap) (setup_hup snap) s1
        | _ => s1
        end
      end
    | _ => s
    end
  | PDone => s
  end.
Definition turn (s : state) : state := turn_at s s.

(* ------------------------------------------------------------------ the client *)
Inductive cstep :=
  | CConnect             (* connect() on the stream socket *)
  | CSendAuth (n : Z)    (* n more bytes of the connection request *)
  | CReq                 (* a request queued: ring chunk committed (shm) / datagram sent (socket) *)
  | CNotify              (* shm: the wake-up byte *)
  | CLocal               (* any call without effect on what the server can see (open, mmap, recv, poll, ...) *)
  | CClose.              (* shutdown/close of the setup socket (qb_ipcc_disconnect, exit) *)

Definition client_step (c : cstep) (s : state) : state :=
  if negb (k_open s) then s else
  match c with
  | CConnect => with_kern s true (k_open s) (k_auth s) (k_notify s) (k_reqq s)
  | CSendAuth n =>
    if k_conn s && (0 <=? n) then
      match ph s with
      | PNone | PAuth _ => with_kern s (k_conn s) (k_open s) (k_auth s + n) (k_notify s) (k_reqq s)
      | _ => with_kern s (k_conn s) (k_open s) (k_auth s) (k_notify s + n) (k_reqq s)
      end
    else s
  | CReq =>
    match ph s with
    | PConn | PStalled _ => with_kern s (k_conn s) (k_open s) (k_auth s) (k_notify s) (k_reqq s + 1)
    | _ => s
    end
  | CNotify =>
    if k_conn s then
      match ph s with
      | PNone | PAuth _ => with_kern s (k_conn s) (k_open s) (k_auth s + 1) (k_notify s) (k_reqq s)
      | _ => with_kern s (k_conn s) (k_open s) (k_auth s) (k_notify s + 1) (k_reqq s)
      end
    else s
  | CLocal => s
  | CClose => with_kern s (k_conn s) false (k_auth s) (k_notify s) (k_reqq s)
  end.

(* the kernel closes the dead client's descriptors *)
Definition die (s : state) : state := with_kern s (k_conn s) false (k_auth s) (k_notify s) (k_reqq s).

(* schedule: after each client step, how many passes the server makes *)
Fixpoint turns (n : nat) (s : state) : state :=
  match n with O => s | S m => turns m (turn s) end.
Fixpoint run (prog : list cstep) (sched : list nat) (s : state) : state :=
  match prog with
  | [] => s
  | c :: p =>
    let s1 := client_step c s in
    match sched with
    | [] => run p [] s1
    | n :: sc => run p sc (turns n s1)
    end
  end.

Definition quiesce (s : state) : state := turns 4 s.

(* the client runs the first k steps of its program and dies; [stale]: the server's next pass uses a poll() result
   from just before the death *)
Definition client_dies_at (prog : list cstep) (sched : list nat) (k : nat) (stale : bool) (s0 : state) : state :=
  let s1 := run (firstn k prog) sched s0 in
  let s2 := die s1 in
  quiesce (if stale then turn_at s1 s2 else s2).

End Server.

(* ------------------------------------------------------------------ scenario programs (what harness/h_ipcdeath.c's
   client child does, as the steps the server can see; CLocal stands for the calls in between) *)
Definition connect_steps (tr : transport) : list cstep :=
  [CLocal; CLocal; CConnect; CLocal; CSendAuth D_AUTH_LEN; CLocal; CLocal; CLocal] ++
  match tr with Shm => repeat CLocal 24 | Sock => repeat CLocal 20 end.
Definition send_steps (tr : transport) : list cstep :=
  match tr with Shm => [CReq; CNotify] | Sock => [CReq] end.
Definition scenario (tr : transport) (n : nat) : list cstep :=
  match n with
  | O => connect_steps tr
  | 1%nat => connect_steps tr ++ send_steps tr ++ send_steps tr ++ send_steps tr
  | 2%nat => connect_steps tr ++ send_steps tr ++ [CLocal; CLocal]
  | 3%nat => connect_steps tr ++ send_steps tr ++ [CLocal; CLocal; CLocal; CLocal]
  | _ => connect_steps tr ++ send_steps tr ++ [CLocal; CLocal; CLocal; CClose; CLocal; CLocal]
  end.

(* ------------------------------------------------------------------ prediction used by the correspondence check:
   the server's knowledge about the peer at the cut is one of a few classes; a canonical program prefix reaches the
   class, then the client dies and the server quiesces *)
Inductive cutclass :=
  | CutNone | CutBacklog | CutAuth (sent : Z) (seen : bool)   (* [seen]: the server has already looked at the bytes *)
  | CutConn (reqq : Z) (notified : Z).

Definition reach {Fr} (tr : transport) (c : cutclass) (s0 : st Fr) : st Fr :=
  match c with
  | CutNone => s0
  | CutBacklog => client_step CConnect s0
  | CutAuth n seen =>
    let s1 := turn tr 0 (client_step CConnect s0) in
    let s2 := client_step (CSendAuth n) s1 in
    if seen then turn tr 0 s2 else s2
  | CutConn q nb =>
    let s1 := turn tr 0 (turn tr 0 (client_step (CSendAuth D_AUTH_LEN) (client_step CConnect s0))) in
    let s2 := fold_left (fun s _ => client_step CReq s) (repeat tt (Z.to_nat q)) s1 in
    fold_left (fun s _ => client_step CNotify s) (repeat tt (Z.to_nat nb)) s2
  end.

Definition predict {Fr} (tr : transport) (c : cutclass) (stale : bool) (s0 : st Fr) : st Fr :=
  let s1 := reach tr c s0 in
  let s2 := die s1 in
  quiesce tr 0 (if stale then turn_at tr 0 s1 s2 else s2).

Definition held_count (h : res) : Z :=
  let b (x : bool) := if x then 1 else 0 in
  b (fd_setup h) + b (fd_req h) + b (fd_evt h) + b (pe_auth h) + b (pe_setup h) + b (pe_req h) + b (ring_req h) +
  b (ring_rsp h) + b (ring_evt h) + b (ctl_map h) + b (ctl_file h) + b (names h) + b (dir h) + b (authrec h) + b (connobj h).
Definition fds_of (h : res) : Z :=
  let b (x : bool) := if x then 1 else 0 in b (fd_setup h) + b (fd_req h) + b (fd_evt h).
Definition entries_of (h : res) : Z :=
  let b (x : bool) := if x then 1 else 0 in b (pe_auth h) + b (pe_setup h) + b (pe_req h).
Definition files_of (h : res) : Z :=
  let b (x : bool) := if x then 1 else 0 in 2 * b (ring_req h) + 2 * b (ring_rsp h) + 2 * b (ring_evt h) + b (ctl_file h).
Definition dirs_of (h : res) : Z := if dir h then 1 else 0.

(* ================================================================== PART 2: the client when the server is dead *)

(* ---- lib/ipc_setup.c: qb_ipc_us_sock_error_is_disconnected *)
Definition is_disconnected (err : Z) : bool :=
  if 0 <=? err then false
  else if (err =? - D_EAGAIN) || (err =? - D_ETIMEDOUT) || (err =? - D_EINTR) || (err =? - D_EMSGSIZE) ||
          (err =? - D_ENOMSG) || (err =? - D_EINVAL) then false
  else true.

(* what the kernel / the shared memory answer (oracle).  Every answer comes with the time it took (ms);
   None = the call never returns (a wait without timeout that nothing will ever satisfy). *)
Record env := mkEnv {
  e_recv : Z -> option (Z * Z);     (* c->funcs.recv(&c->response, .., timeout) -> (result, waited) *)
  e_evrecv : Z -> option (Z * Z);   (* c->funcs.recv(&c->event, .., timeout) *)
  e_ready : Z -> option (Z * Z);    (* qb_ipc_us_ready(one_way, &c->setup, timeout, POLLIN) -> (result, waited) *)
  e_sendv : Z;                      (* qb_ipcc_sendv's raw result (channel write + wake-up byte) *)
  e_fc : Z;                         (* c->funcs.fc_get *)
  e_evbyte : Z                      (* qb_ipc_us_recv(&c->setup, &one_byte, 1, -1) after an event was read *)
}.

(* ---- lib/ipcc.c: _check_connection_state_with -> (result, is_connected', waited) *)
Definition check_state_with (e : env) (conn : bool) (res ms_timeout : Z) : option (Z * bool * Z) :=
  if 0 <=? res then Some (res, conn, 0)
  else
    let conn1 := if is_disconnected res then false else conn in
    if (res =? - D_EAGAIN) || (res =? - D_ETIMEDOUT) then
      let poll_ms := if res =? - D_ETIMEDOUT then 0 else ms_timeout in
      match e_ready e poll_ms with
      | None => None
      | Some (res2, w) =>
        if is_disconnected res2 then Some (res2, false, w)
        else if negb (res =? - D_ETIMEDOUT) then Some (res2, conn1, w)
        else Some (res, conn1, w)
      end
    else Some (res, conn1, 0).

(* ---- lib/ipcc.c: _check_connection_state *)
Definition check_state (conn : bool) (res : Z) : Z * bool :=
  if 0 <=? res then (res, conn) else (res, if is_disconnected res then false else conn).

(* ---- lib/ipcc.c: qb_ipcc_recv.  [fixed]: the repaired code (fixes/C03-ipcc-recv-after-disconnect.patch) does not wait
        once the connection is known to be down *)
Definition ipcc_recv (fixed : bool) (e : env) (conn : bool) (ms_timeout : Z) : option (Z * bool * Z) :=
  let t := if fixed && negb conn then 0 else ms_timeout in
  match e_recv e t with
  | None => None
  | Some (res, w) =>
    if 0 <=? res then Some (res, conn, w)
    else
      match check_state_with e conn res t with
      | None => None
      | Some (cres, conn', w2) => if cres <? 0 then Some (cres, conn', w + w2) else Some (res, conn', w + w2)
      end
  end.

(* ---- lib/ipcc.c: the receive loop of qb_ipcc_sendv_recv; fuel = iterations allowed.
        Result: None = never returns or out of fuel (the two are told apart by the theorems' fuel bound) *)
Fixpoint recv_loop (fuel : nat) (fixed : bool) (e : env) (conn : bool) (ms_timeout timeout_rem : Z) (elapsed : Z)
  : option (Z * bool * Z) :=
  match fuel with
  | O => None
  | S f =>
    let timeout_now := if (D_MAX_WAIT_MS <? timeout_rem) || (ms_timeout =? -1) then D_MAX_WAIT_MS else timeout_rem in
    match ipcc_recv fixed e conn timeout_now with
    | None => None
    | Some (res, conn', w) =>
      let '(res', rem') :=
        if res =? - D_ETIMEDOUT then
          if ms_timeout <? 0 then (- D_EAGAIN, timeout_rem)
          else let r := timeout_rem - timeout_now in (if 0 <? r then - D_EAGAIN else res, r)
        else (res, timeout_rem) in
      if (res' =? - D_EAGAIN) && conn' then recv_loop f fixed e conn' ms_timeout rem' (elapsed + w)
      else Some (res', conn', elapsed + w)
    end
  end.

(* ---- lib/ipcc.c: qb_ipcc_sendv_recv *)
Definition ipcc_sendv_recv (fuel : nat) (fixed : bool) (e : env) (conn : bool) (ms_timeout : Z) : option (Z * bool * Z) :=
  let fc := e_fc e in
  if fc <? 0 then Some (fc, conn, 0)
  else if (0 <? fc) && (fc <=? 1) then Some (- D_EAGAIN, conn, 0)
  else
    let '(sres, conn1) := check_state conn (e_sendv e) in
    if sres <? 0 then Some (sres, conn1, 0)
    else recv_loop fuel fixed e conn1 ms_timeout ms_timeout 0.

(* ---- lib/ipcc.c: qb_ipcc_send / qb_ipcc_sendv (after the size and flow-control tests) *)
Definition ipcc_send (e : env) (conn : bool) : Z * bool := check_state conn (e_sendv e).

(* ---- lib/ipcc.c: qb_ipcc_event_recv *)
Definition ipcc_event_recv (e : env) (conn : bool) (ms_timeout : Z) : option (Z * bool * Z) :=
  match check_state_with e conn (- D_EAGAIN) ms_timeout with
  | None => None
  | Some (res, conn1, w) =>
    if res <? 0 then Some (res, conn1, w)
    else
      match e_evrecv e ms_timeout with
      | None => None
      | Some (size, w2) =>
        let size' := if 0 <? size then (if e_evbyte e =? 1 then size else e_evbyte e) else size in
        let '(r, conn2) := check_state conn1 size' in
        Some (r, conn2, w + w2)
      end
  end.

(* ---- lib/ipcc.c: qb_ipcc_disconnect's own look at the connection + lib/ipc_shm.c: qb_ipcc_shm_disconnect:
        are the ring files unlinked by this client?  kill_esrch: kill(server_pid, 0) fails with ESRCH *)
Definition ipcc_disconnect_forces (e : env) (conn : bool) (server_pid_known kill_esrch : bool) : option bool :=
  match check_state_with e conn (- D_EAGAIN) 0 with
  | None => None
  | Some (_, conn1, _) =>
    Some (if negb conn1 && server_pid_known then kill_esrch
          else if negb conn1 && negb server_pid_known then true
          else false)
  end.

(* A dead (and reaped) server: nothing arrives any more, the setup socket reports the hang-up at once, sending on it
   fails with EPIPE (turned into ENOTCONN by qb_ipcc_sendv).  These are the answers recorded from the implementation
   runs (harness/h_ipcdeath.c, sdeath), stated as a predicate over environments so that the theorems hold for every
   environment of this kind: [rq]/[eq] say whether a response / an event was already queued at the death. *)
Definition wait_answer (queued : bool) (t : Z) (a : option (Z * Z)) : Prop :=
  if queued then exists n, a = Some (n, 0) /\ 0 < n
  else if t <? 0 then a = None                       (* sem_wait / poll(-1) that nothing will satisfy *)
  else exists r, a = Some (r, t) /\ (r = - D_ETIMEDOUT \/ is_disconnected r = true).
Definition dead_server (rq eq : bool) (e : env) : Prop :=
  (forall t, wait_answer rq t (e_recv e t)) /\
  (forall t, wait_answer eq t (e_evrecv e t)) /\
  (forall t, exists r, e_ready e t = Some (r, 0) /\ is_disconnected r = true) /\
  is_disconnected (e_sendv e) = true /\ 0 <= e_fc e /\
  (e_evbyte e = 1 \/ is_disconnected (e_evbyte e) = true).

(* a concrete such environment (shm transport; used by the Examples and by the driver) *)
Definition dead_env_shm (rq eq : bool) : env :=
  mkEnv (fun t => if rq then Some (80, 0) else if t <? 0 then None else Some (- D_ETIMEDOUT, t))
        (fun t => if eq then Some (80, 0) else if t <? 0 then None else Some (- D_ETIMEDOUT, t))
        (fun _ => Some (- D_ENOTCONN, 0))
        (- D_ENOTCONN) 0 (- D_ENOTCONN).

(* ================================================================== PART 3: how long a dead socket-transport client
   can hold up the server.  lib/ipc_socket.c: _finish_connecting (connect-on-send of the response / event channel):
       do { res = connect(..); if (res == -1) { retry++; usleep(100000); } } while (res == -1 && retry < 10);
   The two literals are not macros; the harness measures them on every run (library sleeps of the survivor server are
   counted, the monitor compares the count with FC_RETRIES * FC_SLEEP_MS per failed send). *)
Definition FC_RETRIES : Z := 10.
Definition FC_SLEEP_MS : Z := 100.

(* [conn_ok i]: does the i-th connect() succeed (oracle).  Result: (connected, ms slept); fuel = loop iterations *)
Fixpoint finish_connecting (fuel : nat) (retry : Z) (conn_ok : Z -> bool) (slept : Z) : option (bool * Z) :=
  match fuel with
  | O => None
  | S f =>
    if conn_ok retry then Some (true, slept)
    else
      let retry' := retry + 1 in
      let slept' := slept + FC_SLEEP_MS in
      if retry' <? FC_RETRIES then finish_connecting f retry' conn_ok slept' else Some (false, slept')
  end.

(* the sends of one pass for a peer: one response per processed request (harness/h_ipcdeath.c's msg_process), each of
   which runs _finish_connecting again while the channel is not connected (sock_name is only freed on success) *)
Fixpoint stall_of_sends (n : nat) (conn_ok : nat -> Z -> bool) : option Z :=
  match n with
  | O => Some 0
  | S m =>
    match finish_connecting 10 0 (conn_ok m) 0, stall_of_sends m conn_ok with
    | Some (_, ms), Some rest => Some (ms + rest)
    | _, _ => None
    end
  end.
