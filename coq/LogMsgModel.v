(* C13, second sentence of the property - a whole log call: model of cs_format (lib/log.c: vsnprintf into the line
   buffer, clamp, trailing-newline strip) and of the qb_do_extended macro (lib/log_int.h: the QB_XC marker that separates
   "extended information").   MODEL ONLY - no proofs in this file.
   [fx = false]: cs_format as found (reads str[len - 1] with len = 0); [fx = true]: with fixes/C13-4-cs-format-empty.patch.
   Oracle: [r] = the text vsnprintf would produce from the format and the arguments if it had unlimited room. *)
From Coq Require Import List ZArith Bool Lia.
Require Import Verif.gen.Consts_logfmt Verif.SerModel Verif.LogFmtModel.
Import ListNotations.
Open Scope Z_scope.

(* cs_format(str, maxlen, cs, ap); [garbage] = prior content of str[0 .. maxlen) *)
Definition cs_format_m (fx : bool) (r : list Z) (maxlen : Z) (garbage : list Z) : fres :=
  (* len = vsnprintf(str, maxlen, cs->format, ap_copy) *)
  let stored := if maxlen =? 0 then Some garbage else store_bytes garbage 0 (takeZ (maxlen - 1) r ++ [0]) in
  match stored with
  | None => FOob 1
  | Some b =>
    let len0 := to_signed (8 * LF_SIZEOF_INT) (zlen r) in                         (* int len *)
    (* if (len > maxlen) len = maxlen;   (the comparison is made in size_t) *)
    let len := if maxlen <? wrapsz len0 then to_signed (8 * LF_SIZEOF_INT) maxlen else len0 in
    (* if (str[len - 1] == '\n') str[len - 1] = '\0';     fix: only when len > 0 *)
    if fx && (len <=? 0) then FDone b
    else if (len - 1 <? 0) || (zlen b <=? len - 1) then FOob 2
    else if rd b (len - 1) =? 10 then
      match store b (len - 1) 0 with None => FOob 1 | Some b' => FDone b' end
    else FDone b
  end.

(* the message a target's logger is handed: what cs_format leaves, by specification *)
Definition strip_nl (t : list Z) : list Z :=
  if (0 <? zlen t) && (rd t (zlen t - 1) =? 10) then takeZ (zlen t - 1) t else t.
Definition cs_format_spec (r : list Z) (maxlen : Z) : list Z :=
  if zlen r <? maxlen then strip_nl r else takeZ (maxlen - 1) r.

(* qb_do_extended(str, extended, stmt): which text [stmt] (the target's logger) sees, if it runs at all, and the
   content of str afterwards.  None = the statement is not executed (the message starts with QB_XC and the target does
   not want extended information). *)
Definition do_extended_m (b : list Z) (extended : bool) : option (option (list Z) * list Z) :=
  (* None = strchr ran off the buffer *)
  match strchr_m b LF_XC 0 with
  | None => None
  | Some None => Some (Some (cstr b), b)
  | Some (Some i) =>
    if negb (i =? 0) || extended then
      let ch := if extended && negb (rd b (i + 1) =? 0) then 124 else 0 in
      match store b i ch with
      | None => None
      | Some b1 =>
        match store b1 i LF_XC with
        | None => None
        | Some b2 => Some (Some (cstr b1), b2)
        end
      end
    else Some (None, b)
  end.

(* specification on the message text: everything up to the marker; with extended information wanted and present, the
   marker reads '|' and the rest follows; a message that IS only extended information is dropped by a target that does
   not want it *)
Fixpoint index_of (c : Z) (l : list Z) (i : Z) : option Z :=
  match l with [] => None | x :: t => if x =? c then Some i else index_of c t (i + 1) end.

Definition do_extended_spec (m : list Z) (extended : bool) : option (list Z) :=
  match index_of LF_XC m 0 with
  | None => Some m
  | Some i =>
    if (i =? 0) && negb extended then None
    else Some (if extended && (i + 1 <? zlen m) then takeZ i m ++ [124] ++ dropZ (i + 1) m else takeZ i m)
  end.

(* the whole call for one target: format into the line buffer, then hand it over *)
Definition log_call (fx : bool) (r : list Z) (maxlen : Z) (extended : bool) (garbage : list Z)
  : option (option (list Z)) :=
  match cs_format_m fx r maxlen garbage with
  | FOob _ => None
  | FDone b => match do_extended_m b extended with
               | None => None
               | Some (seen, _) => Some seen
               end
  end.

Definition log_call_spec (r : list Z) (maxlen : Z) (extended : bool) : option (list Z) :=
  do_extended_spec (cs_format_spec r maxlen) extended.
