(* C04 - the application's actions, the callback interpreter at every nesting depth, whole histories. *)
Require Import ZArith List Bool Lia.
Require Import Verif.IpcLifeModel Verif.IpcLifeProofs Verif.IpcLifeProofs2 Verif.IpcLifeProofs3 Verif.IpcLifeProofs4
               Verif.IpcLifeProofs5 Verif.IpcLifeProofs6 Verif.IpcLifeTrace.
Import ListNotations.
Open Scope Z_scope.

Lemma CI_uref_to_h : forall h j d nj inl x, CI h j d nj inl x -> live x -> 0 < c_uref x ->
  CI (h + 1) j d nj inl (w_uref (c_uref x - 1) x).
Proof. intros. ci x. Qed.
Lemma CI_dead_uref : forall h j d nj inl x, CI h j d nj inl x -> c_ph x = PDead -> c_uref x = 0.
Proof. intros. ci x. Qed.
Lemma CI_reg_top : forall d nj inl x, CI 0 0 d nj inl x -> c_reg x = true -> live x /\ c_st x = ESTABLISHED.
Proof. intros. ci x. Qed.

Lemma allowed_live : forall H J (D : dctx) w c, GI H J D w -> allowed c w = true -> live (conns w c).
Proof.
  intros H J D w c (A & _ & _ & _) Ha. unfold allowed in Ha. apply andb_true_iff in Ha. destruct Ha as [_ Ha].
  unfold live. destruct (c_ph (conns w c)) eqn:P; try discriminate; auto.
  pose proof (CI_dead_uref _ _ _ _ _ _ (A c) P) as U. rewrite U in Ha. discriminate.
Qed.

Lemma GI_not_destroyed_alive : forall H J D w, GI H J D w -> destroy_called w = false -> s_creator w = true /\ s_alloc w = true.
Proof.
  intros H J D w G Nd. pose proof G as (_ & _ & _ & (_ & _ & S3 & _)). split; auto.
  apply (GI_svc_creator _ _ _ _ G); auto.
Qed.
Lemma GI_not_destroyed_frame : forall H J (D : dctx) w, GI H J D w -> destroy_called w = false -> dframe D = false.
Proof.
  intros H J D w (_ & _ & _ & (_ & _ & _ & S4)) Nd. destruct (dframe D); auto. destruct (S4 eq_refl). congruence.
Qed.

Section Actions.
  Variable shm : bool.
  Variable cb : kind -> nat -> world -> R.
  Hypothesis Hcb : cb_ok cb.

  Lemma on_conn_ok : forall H J (D : dctx) code t self w f,
    (forall c w', GI H J D w' -> live (conns w' c) -> safe (fun w'' _ => GI H J D w'') (f c w')) ->
    GI H J D w -> safe (fun w' _ => GI H J D w') (on_conn code t self w f).
  Proof.
    intros H J D code t self w f Hf G. unfold on_conn.
    destruct (tgt_id t self) as [c|]; [|simpl; apply logit_GI; auto].
    destruct (allowed c w) eqn:Ea; [|simpl; apply logit_GI; auto].
    apply Hf. apply logit_GI; auto. simpl. eapply allowed_live; eauto.
  Qed.

  Lemma do_action_ok : forall a self H J (D : dctx) w,
    GI H J D w -> safe (fun w' _ => GI H J D w') (do_action shm true cb a self w).
  Proof.
    intros a self H J D w G. destruct a; simpl.
    - (* disconnect *) apply on_conn_ok; auto. intros. apply disconnect_ok; auto.
    - (* take a reference *)
      apply on_conn_ok; auto. intros c w' G' L'. pose proof G' as (A' & _ & _).
      unfold conn_ref. apply safe_chk. { simpl. rewrite updf_same. simpl. eapply CI_live_alloc; eauto. }
      simpl. rewrite updf_same. simpl.
      eapply GI_ext with (w := put c (w_rc (c_rc (conns w' c) + 1) (w_uref (c_uref (conns w' c) + 1) (conns w' c))) w').
      + frame.
      + apply GI_put_same; auto. apply CI_uref_ref; auto. simpl; tauto.
    - (* drop a reference the application holds *)
      destruct (tgt_id t self) as [c|]; [|simpl; apply logit_GI; auto].
      destruct (allowed c w && (0 <? c_uref (conns w c))) eqn:Ea; [|simpl; apply logit_GI; auto].
      apply andb_true_iff in Ea. destruct Ea as [Ea Eu]. apply Z.ltb_lt in Eu.
      pose proof (allowed_live _ _ _ _ _ G Ea) as L. pose proof G as (A & _ & _).
      set (w1 := logit _ w). cbv zeta.
      apply unref_held_ok; auto.
      + eapply GI_ext with (w := put c (w_uref (c_uref (conns w c) - 1) (conns w c)) w); [frame|].
        eapply GI_put; [exact G | | | | auto | reflexivity | reflexivity].
        * intros i Hi. rewrite addf_other; auto.
        * rewrite addf_same. apply CI_uref_to_h; auto.
        * simpl; tauto.
      + eapply CI_h_nonneg; eauto.
    - (* event_send *)
      destruct (tgt_id t self) as [c|]; [|simpl; apply logit_GI; auto].
      destruct (allowed c w && (shm || negb (closed_seen c w))) eqn:Ea; [|simpl; apply logit_GI; auto].
      apply andb_true_iff in Ea. destruct Ea as [Ea _].
      apply srv_send_ok; [auto | apply logit_GI; auto | simpl; eapply allowed_live; eauto].
    - (* response_send *)
      destruct (tgt_id t self) as [c|]; [|simpl; apply logit_GI; auto].
      destruct (allowed c w && (shm || negb (closed_seen c w))) eqn:Ea; [|simpl; apply logit_GI; auto].
      apply andb_true_iff in Ea. destruct Ea as [Ea _].
      apply srv_send_ok; [auto | apply logit_GI; auto | simpl; eapply allowed_live; eauto].
    - (* qb_ipcs_destroy *)
      destruct (destroy_called w) eqn:Nd; [simpl; apply logit_GI; auto|].
      destruct (GI_not_destroyed_alive _ _ _ _ G Nd) as (Cr & Sv).
      pose proof (GI_not_destroyed_frame _ _ _ _ G Nd) as Df.
      apply destroy_ok; auto.
      destruct G as (A & B & C & (S1 & S2 & S3 & S4)). split; [|split; [|split]]; auto.
      split; [|split; [|split]]; auto; try (simpl; intros; discriminate); try (rewrite Df; intros; discriminate).
    - (* rate limit *)
      destruct (destroy_called w) eqn:Nd; [simpl; apply logit_GI; auto|]. cbn [orb].
      destruct ((rl <? 0) || (4 <? rl)); [simpl; apply logit_GI; auto|].
      destruct (GI_not_destroyed_alive _ _ _ _ G Nd) as (Cr & Sv).
      apply rate_limit_ok; auto.
    - destruct (destroy_called w) eqn:Nd; [simpl; apply logit_GI; auto|].
      destruct (GI_not_destroyed_alive _ _ _ _ G Nd) as (Cr & Sv).
      apply iterate_ok; auto.
    - destruct (destroy_called w) eqn:Nd; [simpl; apply logit_GI; auto|].
      destruct (GI_not_destroyed_alive _ _ _ _ G Nd) as (Cr & Sv).
      apply iterate_ok; auto.
  Qed.

  Lemma do_actions_ok : forall l self H J (D : dctx) w,
    GI H J D w -> safe (fun w' _ => GI H J D w') (do_actions shm true cb l self w).
  Proof.
    induction l; intros; simpl; auto.
    apply safe_bind. eapply safe_mono; [| apply do_action_ok; eauto].
    intros w1 z1 G1. cbv beta. apply IHl; auto.
  Qed.
End Actions.

(* the callback interpreter satisfies the contract at every nesting depth *)
Theorem invoke_ok : forall shm n, cb_ok (invoke shm true n).
Proof.
  intros shm n. induction n as [|n IH]; [apply invoke0_ok|].
  intros k c w Hleg Hu.
  set (b := match behs w k with [] => mkBeh 0 [] | b :: _ => b end).
  set (ret := match k with KCreated | KDestroyed => 0 | _ => b_ret b end).
  destruct (phase_step k ret (c_ph (conns w c))) as [p'|] eqn:E.
  2: { exfalso. eapply phase_step_ret_indep; eauto. }
  exists ret, p'. split; auto.
  intros H J D G. cbn [invoke]. fold b. fold ret. cbn [conns set_behs]. rewrite E.
  assert (U : (match k with KDestroyed => negb (c_uref (conns w c) =? 0) | _ => false end) = false).
  { destruct k; auto. rewrite Hu; auto. }
  rewrite U.
  apply safe_bind. eapply safe_mono; [| apply (do_actions_ok shm (invoke shm true n) IH (b_acts b) (Some c) H J D)].
  - intros w3 z3 G3. simpl. auto.
  - eapply GI_ext; [|exact G]. frame.
Qed.

(* ---- whole histories *)
Definition GI0 (w : world) : Prop := GI Z0f Z0f Ff w.

Section Whole.
  Variable shm : bool.
  Variable depth : nat.
  Let cb := invoke shm true depth.
  Let Hcb : cb_ok cb := invoke_ok shm depth.

  Lemma jobs_loop_ok : forall n w, GI0 w -> safe (fun w' _ => GI0 w') (jobs_loop shm true depth n w).
  Proof.
    induction n; intros w G; simpl; auto.
    destruct (jobs w) as [|c t] eqn:Ej; simpl; auto.
    apply safe_bind. eapply safe_mono; [| apply (job_run_ok cb Hcb Z0f Z0f Ff c t w G Ej)].
    intros w1 z1 G1. cbv beta. apply IHn; auto.
  Qed.

  Lemma step_ok : forall o w, GI0 w -> safe (fun w' _ => GI0 w') (step shm true depth o w).
  Proof.
    intros o w G. destruct o; simpl.
    - (* behaviour table entry *) eapply GI_ext; [|exact G]. frame.
    - (* connect *)
      destruct (Nat.ltb slot maxslots && negb (destroy_called w) && match slots w slot with None => true | Some _ => false end) eqn:Eg;
        simpl; auto.
      apply andb_true_iff in Eg. destruct Eg as [Eg _]. apply andb_true_iff in Eg. destruct Eg as [_ Eg].
      apply negb_true_iff in Eg.
      apply (handle_new_ok cb Hcb); auto. intros i. unfold Z0f. discriminate.
    - (* request *)
      destruct (if Nat.ltb slot maxslots then slots w slot else None) as [c|]; simpl; auto.
      destruct (accepted && c_alloc (conns w c) && st_eqb (c_st (conns w c)) ESTABLISHED && negb (c_fc (conns w c) =? 1));
        simpl; auto.
      apply GI_put_same; auto. apply CI_nreq. apply G. simpl; tauto.
    - (* client goes away *)
      destruct (if Nat.ltb slot maxslots then slots w slot else None) as [c|]; simpl; auto.
      eapply GI_ext with (w := put c (w_hup true (if empty then w_nreq 0 (conns w c) else conns w c)) w); [frame|].
      apply GI_put_same; auto.
      + apply CI_hup. destruct empty; [apply CI_nreq|]; apply G.
      + destruct empty; simpl; tauto.
      + destruct empty; reflexivity.
    - (* main-loop turn *)
      set (w' := if empty && negb shm then put c (w_nreq 0 (conns w c)) w else w).
      assert (G' : GI0 w').
      { unfold w'. destruct (empty && negb shm); auto. apply GI_put_same; auto. apply CI_nreq. apply G. simpl; tauto. }
      destruct (Nat.ltb c (next w') && c_reg (conns w' c)) eqn:Er; simpl; auto.
      apply andb_true_iff in Er. destruct Er as [_ Er].
      pose proof G' as (A' & _ & _).
      destruct (CI_reg_top _ _ _ _ (A' c) Er) as (L & S).
      destruct shm.
      + destruct (c_hup (conns w' c) || (0 <? c_nreq (conns w' c))); simpl; auto.
        apply safe_bind. eapply safe_mono; [| apply (dispatch_ok cb Hcb true Z0f Z0f Ff c _ w' G' L S)].
        intros w1 z1 G1. simpl. auto.
      + apply safe_bind.
        assert (S1 : safe (fun w1 _ => GI0 w1)
                      (if 0 <? c_nreq (conns w' c)
                       then bind (dispatch false true cb c false w') (fun w1 _ => Ok w1 1) else Ok w' 0)).
        { destruct (0 <? c_nreq (conns w' c)); simpl; auto.
          apply safe_bind. eapply safe_mono; [| apply (dispatch_ok cb Hcb false Z0f Z0f Ff c false w' G' L S)].
          intros w1 z1 G1. simpl. auto. }
        eapply safe_mono; [| exact S1]. intros w1 n1 G1. cbv beta.
        destruct (c_reg (conns w1 c) && c_hup (conns w1 c)) eqn:E2; simpl; auto.
        apply andb_true_iff in E2. destruct E2 as [E2 _].
        pose proof G1 as (A1 & _ & _). destruct (CI_reg_top _ _ _ _ (A1 c) E2) as (L1 & _).
        apply safe_bind. eapply safe_mono; [| apply (liveliness_ok cb Hcb Z0f Z0f Ff c w1 G1 L1)].
        intros w2 z2 G2. simpl. auto.
    - (* queued jobs *)
      apply safe_bind. eapply safe_mono; [| apply jobs_loop_ok; auto]. intros w1 z1 G1. simpl. auto.
    - (* application action outside callbacks *)
      apply (do_action_ok shm cb Hcb); auto.
  Qed.

  Theorem run_ok : forall ops w, GI0 w -> safe (fun w' _ => GI0 w') (run shm true depth ops w).
  Proof.
    induction ops; intros w G; simpl; auto.
    apply safe_bind. eapply safe_mono; [| apply step_ok; auto]. intros w1 z1 G1. cbv beta. auto.
  Qed.
End Whole.

(* what the invariant says about every connection between operations *)
Lemma CI_top_facts : forall nj inl x, CI 0 0 false nj inl x ->
  (c_alloc x = true -> live x /\ c_rc x = init_of (c_st x) + c_uref x + nj /\ 1 <= c_rc x /\ c_st x <> ACTIVE) /\
  (c_alloc x = false -> c_ph x = PNone \/ c_ph x = PDead) /\
  (c_ph x = PDead -> c_alloc x = false /\ c_uref x = 0 /\ c_reg x = false /\ inl = false /\ nj = 0).
Proof. intros. ci x. Qed.

Lemma service_facts : forall w, GI0 w ->
  (s_alloc w = false -> s_creator w = false /\ forall c, c_alloc (conns w c) = false) /\
  (s_alloc w = true -> 1 <= s_rc w /\ (if s_creator w then 1 else 0) + nalloc w <= s_rc w) /\
  (destroy_called w = false -> s_creator w = true /\ s_alloc w = true).
Proof.
  intros w G. pose proof G as (_ & _ & _ & (S1 & S2 & S3 & _)). split; [|split]; auto.
  - intros Hs. destruct (S2 Hs) as (Cr & N). split; auto. intros c.
    destruct (c_alloc (conns w c)) eqn:E; auto.
    pose proof (GI_svc_alive _ _ _ _ c G E). congruence.
  - intros Nd. apply (GI_not_destroyed_alive _ _ _ _ G Nd).
Qed.

Lemma lifecycle_all : forall shm depth ops,
  exists w z, run shm true depth ops world0 = Ok w z /\ GI0 w /\ TI w.
Proof.
  intros. pose proof (run_ok shm depth ops world0 GI_world0) as S.
  pose proof (run_T shm true depth ops world0 TI_world0) as T.
  destruct (run shm true depth ops world0) as [w z|e w]; simpl in S, T; [eauto | contradiction].
Qed.

(* the callback log of a run that ended in Fail, too, is consistent with the ghost phases up to the failing call: for
   the code as found this is what makes the refutation witnesses statements about callback traces *)
Lemma trace_consistent_any_variant : forall shm fixed depth ops,
  match run shm fixed depth ops world0 with Ok w _ => TI w | Fail _ _ => True end.
Proof. intros. exact (run_T shm fixed depth ops world0 TI_world0). Qed.

Lemma trace_example :
  tphs [ECb KDestroyed 0%nat 0; ECb KClosed 0%nat 0; ECb KClosed 0%nat 1; ECb KMsg 0%nat 0; ECb KCreated 0%nat 0;
        ECb KAccept 0%nat 0; ENew 0%nat] 0%nat = Some PDead /\
  tphs [ECb KMsg 0%nat 0; ECb KClosed 0%nat 0; ECb KCreated 0%nat 0; ECb KAccept 0%nat 0; ENew 0%nat] 0%nat = None /\
  tphs [ECb KDestroyed 0%nat 0; ECb KClosed 0%nat 1; ECb KCreated 0%nat 0; ECb KAccept 0%nat 0; ENew 0%nat] 0%nat = None /\
  tphs [ECb KClosed 0%nat 0; ECb KAccept 0%nat 0; ENew 0%nat] 0%nat = None.
Proof. vm_compute. repeat split; reflexivity. Qed.
