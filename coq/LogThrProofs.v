(* C16, sequential control histories: proofs about run_ctl (LogThrModel.v, part A). *)
From Coq Require Import ZArith List Bool Lia.
Import ListNotations.
Require Import Verif.gen.Consts_logthr Verif.LogThrModel.
Local Open Scope Z_scope.

(* ------------------------------------------------------------------------------------------
   The code as found: control histories that reach the error state. *)
Definition wit_null_ctl : list cop := [KInit; KOpen; KEnable 0 true; KThreaded 0 true; KCtl 0].
Definition wit_null_log : list cop := [KInit; KOpen; KEnable 0 true; KThreaded 0 true; KLog 1].
Definition wit_reinit_ctl : list cop :=
  [KInit; KOpen; KEnable 0 true; KThreaded 0 true; KStart; KLog 1; KFini; KInit; KOpen; KEnable 0 true].
Definition wit_reinit_start : list cop :=
  [KInit; KOpen; KEnable 0 true; KThreaded 0 true; KStart; KLog 1; KFini;
   KInit; KOpen; KThreaded 0 false; KEnable 0 true; KThreaded 0 true; KStart; KLog 2].
Definition wit_reinit_fini : list cop := [KInit; KStart; KFini; KInit; KFini].

Lemma unfixed_null_ctl : k_err (run_ctl false wit_null_ctl) = Some ENullLock.
Proof. vm_compute. reflexivity. Qed.
Lemma unfixed_null_log : k_err (run_ctl false wit_null_log) = Some ENullLock.
Proof. vm_compute. reflexivity. Qed.
Lemma unfixed_reinit_ctl : k_err (run_ctl false wit_reinit_ctl) = Some EFreedLock.
Proof. vm_compute. reflexivity. Qed.
Lemma unfixed_reinit_start : k_err (run_ctl false wit_reinit_start) = Some EFreedLock.
Proof. vm_compute. reflexivity. Qed.
Lemma unfixed_reinit_fini : k_err (run_ctl false wit_reinit_fini) = Some EFreedLock.
Proof. vm_compute. reflexivity. Qed.

Lemma ctl_safe_refuted : exists h, is_error (run_ctl false h) = true.
Proof. exists wit_null_ctl. vm_compute. reflexivity. Qed.

(* the same histories on the repaired code *)
Lemma fixed_witnesses_ok :
  Forall (fun h => is_error (run_ctl true h) = false)
         [wit_null_ctl; wit_null_log; wit_reinit_ctl; wit_reinit_start; wit_reinit_fini].
Proof. repeat constructor. Qed.

(* ------------------------------------------------------------------------------------------
   The repaired code: invariant of every control history. *)
Definition KInv (s : kst) : Prop :=
  k_err s = None /\
  ((k_lock s = LLive /\ k_active s = true) \/ (k_lock s = LNull /\ k_active s = false /\ k_flag s = false)).

Lemma kinv_init : KInv kinit.
Proof. split; [reflexivity|]. right. repeat split. Qed.

Lemma pause_err_fixed : forall s x, KInv s -> pause_err true s x = None.
Proof.
  intros s x [_ H]. unfold pause_err. destruct (t_thr x); [|reflexivity].
  destruct H as [[H _]|[H _]]; rewrite H; reflexivity.
Qed.

Lemma thread_stop_fixed : forall s, KInv s ->
  let s1 := thread_stop true s in
  k_err s1 = None /\ k_lock s1 = LNull /\ k_active s1 = false /\ k_flag s1 = false /\
  k_tg s1 = k_tg s /\ k_inited s1 = k_inited s.
Proof.
  intros s [He H]. unfold thread_stop.
  destruct H as [[Hl Ha]|[Hl [Ha Hf]]]; rewrite Hl, Ha; cbn; auto 10.
Qed.

Lemma kstep_inv : forall s o, KInv s -> KInv (fst (kstep true s o)).
Proof.
  intros s o I. pose proof I as [He H]. unfold kstep. rewrite He.
  destruct o as [| | |t|t b|t b|t| |m].
  - destruct (k_inited s); [exact I|]. split; [reflexivity|exact H].
  - destruct (k_inited s); cbn [negb]; [|exact I].
    pose proof (thread_stop_fixed s I) as (E1 & E2 & E3 & E4 & _). cbv zeta in *.
    rewrite E1. cbn [fst]. split; [reflexivity|]. right. cbn. auto.
  - destruct (k_inited s); cbn [negb]; [|exact I].
    destruct (first_unused 0 (k_tg s)); [|exact I].
    destruct (nth_error (k_tg s) n); exact I.
  - destruct (k_inited s); cbn [negb]; [|exact I].
    destruct (nth_error (k_tg s) t); [|exact I].
    destruct (is_unused t0); [exact I|]. rewrite pause_err_fixed by exact I. exact I.
  - destruct (ctl_target s t); [exact I|]. rewrite pause_err_fixed by exact I.
    destruct b; [exact I|]. destruct (is_enabled t0); exact I.
  - destruct (ctl_target s t); exact I.
  - destruct (ctl_target s t); [exact I|]. rewrite pause_err_fixed by exact I. exact I.
  - destruct (k_active s) eqn:Ha; [exact I|]. split; [reflexivity|]. left. split; reflexivity.
  - destruct (k_inited s); cbn [negb]; [|exact I].
    destruct (existsb _ (k_tg s)); [|exact I].
    destruct H as [[Hl _]|[Hl _]]; rewrite Hl; exact I.
Qed.

Lemma run_ctl_from_inv : forall h s, KInv s -> KInv (fst (run_ctl_from true s h)).
Proof.
  induction h as [|o r IH]; intros s I; [exact I|].
  cbn [run_ctl_from]. pose proof (kstep_inv s o I) as I1.
  destruct (kstep true s o) as [s1 e1]. cbn [fst] in I1.
  specialize (IH s1 I1). destruct (run_ctl_from true s1 r) as [s2 e2]. exact IH.
Qed.

Lemma run_ctl_inv : forall h, KInv (run_ctl true h).
Proof. intro h. apply run_ctl_from_inv. exact kinv_init. Qed.

Lemma ctl_safe : forall h, is_error (run_ctl true h) = false.
Proof. intro h. destruct (run_ctl_inv h) as [He _]. unfold is_error. rewrite He. reflexivity. Qed.

(* after qb_log_fini the thread statics are as at program start, so a re-initialised logging system
   behaves like a first one *)
Lemma fini_resets : forall h, k_inited (run_ctl true h) = true ->
  let s := fst (kstep true (run_ctl true h) KFini) in
  k_err s = None /\ k_lock s = LNull /\ k_active s = false /\ k_flag s = false /\ k_inited s = false /\
  Forall (fun t => is_enabled t = false) (k_tg s).
Proof.
  intros h Hi. pose proof (run_ctl_inv h) as I. set (s0 := run_ctl true h) in *.
  pose proof I as [He _]. unfold kstep. rewrite He, Hi. cbn [negb].
  pose proof (thread_stop_fixed s0 I) as (E1 & E2 & E3 & E4 & E5 & E6). cbv zeta in *.
  rewrite E1. cbn. repeat (split; auto).
  rewrite E5. unfold disable_all. apply Forall_forall. intros x Hx. apply in_map_iff in Hx.
  destruct Hx as (y & Hy & _). destruct (is_enabled y) eqn:E; subst x; [reflexivity|exact E].
Qed.

(* ------------------------------------------------------------------------------------------
   Delivery: a log call made on an initialised system is written exactly once to every enabled target
   and to no other, whatever the threaded flags and whether or not the thread exists. *)
Definition is_write_to (k : nat) (m : Z) (e : cev) : bool :=
  match e with EvWrite k' m' _ => Nat.eqb k k' && Z.eqb m m' | _ => false end.
Definition writes_to (k : nat) (m : Z) (evs : list cev) : nat := length (filter (is_write_to k m) evs).
Definition any_write (e : cev) : bool := match e with EvWrite _ _ _ => true | _ => false end.

Lemma writes_to_app : forall k m a b, writes_to k m (a ++ b) = (writes_to k m a + writes_to k m b)%nat.
Proof. intros. unfold writes_to. rewrite filter_app, app_length. reflexivity. Qed.

Lemma writes_from_count : forall l base k m thr via,
  writes_to k m (writes_from base l thr m via) =
  if Nat.leb base k then
    match nth_error l (k - base) with
    | Some t => if is_enabled t && Bool.eqb (t_thr t) thr then 1%nat else 0%nat
    | None => 0%nat
    end
  else 0%nat.
Proof.
  induction l as [|t r IH]; intros base k m thr via.
  - cbn. destruct (Nat.leb base k); [|reflexivity]. destruct (k - base)%nat; reflexivity.
  - cbn [writes_from]. rewrite writes_to_app, IH.
    destruct (Nat.leb base k) eqn:Lb.
    + apply Nat.leb_le in Lb. destruct (Nat.eq_dec base k) as [->|Ne].
      * rewrite Nat.sub_diag. cbn [nth_error].
        replace (Nat.leb (S k) k) with false by (symmetry; apply Nat.leb_gt; lia).
        destruct (is_enabled t && Bool.eqb (t_thr t) thr); cbn.
        -- unfold writes_to. cbn. rewrite Nat.eqb_refl, Z.eqb_refl. reflexivity.
        -- reflexivity.
      * replace (Nat.leb (S base) k) with true by (symmetry; apply Nat.leb_le; lia).
        replace (k - base)%nat with (S (k - S base)) by lia. cbn [nth_error].
        assert (writes_to k m (if is_enabled t && Bool.eqb (t_thr t) thr then [EvWrite base m via] else []) = 0%nat) as ->.
        { destruct (is_enabled t && Bool.eqb (t_thr t) thr); [|reflexivity].
          unfold writes_to. cbn. replace (Nat.eqb k base) with false by (symmetry; apply Nat.eqb_neq; lia). reflexivity. }
        reflexivity.
    + apply Nat.leb_gt in Lb.
      replace (Nat.leb (S base) k) with false by (symmetry; apply Nat.leb_gt; lia).
      assert (writes_to k m (if is_enabled t && Bool.eqb (t_thr t) thr then [EvWrite base m via] else []) = 0%nat) as ->.
      { destruct (is_enabled t && Bool.eqb (t_thr t) thr); [|reflexivity].
        unfold writes_to. cbn. replace (Nat.eqb k base) with false by (symmetry; apply Nat.eqb_neq; lia). reflexivity. }
      reflexivity.
Qed.

Lemma existsb_thr_nth : forall l k t, nth_error l k = Some t -> is_enabled t && t_thr t = true ->
  existsb (fun t => is_enabled t && t_thr t) l = true.
Proof.
  intros l k t H E. apply existsb_exists. exists t. split; [|exact E]. eapply nth_error_In; eassumption.
Qed.

Definition expect_writes (s : kst) (k : nat) : nat :=
  match nth_error (k_tg s) k with
  | Some t => if is_enabled t then 1%nat else 0%nat
  | None => 0%nat
  end.

Lemma log_exactly_once_state : forall s m k, KInv s -> k_inited s = true ->
  writes_to k m (snd (kstep true s (KLog m))) = expect_writes s k.
Proof.
  intros s m k [He H] Hi. unfold kstep, expect_writes. rewrite He, Hi. cbn [negb].
  assert (W : forall via1 via2,
    writes_to k m (writes_from 0 (k_tg s) false m via1 ++ writes_from 0 (k_tg s) true m via2 ++ [EvRc 0]) =
    match nth_error (k_tg s) k with Some t => if is_enabled t then 1%nat else 0%nat | None => 0%nat end).
  { intros. rewrite !writes_to_app, !writes_from_count. cbn [Nat.leb]. rewrite Nat.sub_0_r.
    destruct (nth_error (k_tg s) k) as [t|]; [|reflexivity].
    destruct (is_enabled t); [|reflexivity]. destruct (t_thr t); reflexivity. }
  destruct (existsb (fun t => is_enabled t && t_thr t) (k_tg s)) eqn:Ex.
  - destruct H as [[Hl _]|[Hl _]]; rewrite Hl; cbn [snd]; apply W.
  - cbn [snd]. rewrite writes_to_app, writes_from_count. cbn [Nat.leb]. rewrite Nat.sub_0_r.
    destruct (nth_error (k_tg s) k) as [t|] eqn:Hn; [|reflexivity].
    destruct (is_enabled t) eqn:En; [|reflexivity].
    destruct (t_thr t) eqn:Th; [|reflexivity].
    exfalso. rewrite (existsb_thr_nth _ _ _ Hn) in Ex; [discriminate|]. rewrite En, Th. reflexivity.
Qed.

Lemma log_exactly_once : forall h m k, k_inited (run_ctl true h) = true ->
  writes_to k m (snd (kstep true (run_ctl true h) (KLog m))) = expect_writes (run_ctl true h) k.
Proof. intros. apply log_exactly_once_state; [apply run_ctl_inv|assumption]. Qed.

(* ... and no other call invokes a logger *)
Lemma writes_only_in_log : forall s o, (forall m, o <> KLog m) ->
  existsb any_write (snd (kstep true s o)) = false.
Proof.
  intros s o Hn. unfold kstep. destruct (k_err s); [reflexivity|].
  destruct o as [| | |t|t b|t b|t| |m]; try (exfalso; eapply Hn; reflexivity).
  - destruct (k_inited s); reflexivity.
  - destruct (k_inited s); cbn [negb]; [|reflexivity].
    destruct (k_err (thread_stop true s)); [reflexivity|]. cbn [snd].
    rewrite existsb_app. cbn. rewrite orb_false_r.
    assert (forall l b, existsb any_write (closes_from b l) = false) as X.
    { induction l as [|x r IH]; intro b; [reflexivity|]. cbn [closes_from]. rewrite existsb_app, IH.
      destruct (is_enabled x); reflexivity. }
    apply X.
  - destruct (k_inited s); cbn [negb]; [|reflexivity].
    destruct (first_unused 0 (k_tg s)); [|reflexivity]. destruct (nth_error (k_tg s) n); reflexivity.
  - destruct (k_inited s); cbn [negb]; [|reflexivity].
    destruct (nth_error (k_tg s) t); [|reflexivity]. destruct (is_unused t0); [reflexivity|].
    destruct (pause_err true s t0); reflexivity.
  - destruct (ctl_target s t); [reflexivity|]. destruct (pause_err true s t0); [reflexivity|].
    destruct b; [reflexivity|]. destruct (is_enabled t0); reflexivity.
  - destruct (ctl_target s t); reflexivity.
  - destruct (ctl_target s t); [reflexivity|]. destruct (pause_err true s t0); reflexivity.
  - destruct (k_active s); reflexivity.
Qed.

(* when the thread exists, threaded targets are served by it; otherwise by the caller *)
Lemma writes_from_in : forall l base k t m via, nth_error l k = Some t -> is_enabled t = true -> t_thr t = true ->
  In (EvWrite (base + k) m via) (writes_from base l true m via).
Proof.
  induction l as [|x r IH]; intros base k t m via Hk En Th.
  - destruct k; discriminate.
  - cbn [writes_from]. apply in_or_app. destruct k.
    + left. cbn in Hk. injection Hk as ->. rewrite En, Th. cbn. rewrite Nat.add_0_r. left. reflexivity.
    + right. cbn in Hk. replace (base + S k)%nat with (S base + k)%nat by lia. eapply IH; eassumption.
Qed.

Lemma threaded_by_thread : forall s m k t, KInv s -> k_inited s = true ->
  nth_error (k_tg s) k = Some t -> is_enabled t = true -> t_thr t = true ->
  In (EvWrite k m (match k_lock s with LLive => true | _ => false end)) (snd (kstep true s (KLog m))).
Proof.
  intros s m k t [He H] Hi Hn En Th. unfold kstep. rewrite He, Hi. cbn [negb].
  rewrite (existsb_thr_nth _ _ _ Hn) by (rewrite En, Th; reflexivity).
  destruct H as [[Hl _]|[Hl _]]; rewrite Hl; cbn [snd]; apply in_or_app; right; apply in_or_app; left;
    apply (writes_from_in (k_tg s) 0%nat k t m _ Hn En Th).
Qed.
