(* C17 trie part, notifiers (1): the notifier lists trie_notify walks (the node of the key, then its ancestors up to
   the header) are the lists registered at the key itself and at its proper prefixes, longest first. *)
From Coq Require Import List ZArith Bool Arith Lia.
Import ListNotations.
Require Import Verif.gen.Consts_trie Verif.MapTrieModel Verif.MapTrieSpec Verif.MapTrieProofs Verif.MapTrieProofs2.

(* proper prefixes of k, shortest ([]) first *)
Fixpoint pinits (k : key) : list key :=
  match k with [] => [] | c :: k' => [] :: map (cons c) (pinits k') end.

Lemma pinits_app : forall a c b, pinits (a ++ c :: b) = pinits a ++ [a] ++ map (fun q => a ++ c :: q) (pinits b).
Proof.
  induction a; intros; simpl.
  - reflexivity.
  - rewrite IHa. rewrite map_app. simpl. rewrite map_map. reflexivity.
Qed.

Definition nonempty (l : list notifier) : bool := match l with [] => false | _ => true end.

Lemma nots_f_fget : forall f j p, nots_f f j p = match fget f j with Some t => nots_t t p | None => [] end.
Proof. induction f; simpl; intros; auto. destruct j; auto. Qed.

(* a proper prefix of the segment is no node *)
Lemma obs_inside_seg : forall i seg f q, In q (pinits seg) -> obs_t (TN i seg f) q = blank.
Proof.
  intros i seg f q H. cbn [obs_t].
  assert (X : exists c r, seg = q ++ c :: r).
  { revert q H. induction seg; simpl; intros; [destruct H|]. destruct H as [H|H].
    - subst q. exists a, seg. reflexivity.
    - apply in_map_iff in H. destruct H as [q' [E H]]. subst q. destruct (IHseg q' H) as [c [r E]].
      exists c, r. simpl. rewrite E at 1. reflexivity. }
  destruct X as [c [r E]]. rewrite E. rewrite strip_pre. simpl. rewrite app_length. simpl.
  replace (length q <? length q + S (length r)) with true; auto. symmetry. apply Nat.ltb_lt. lia.
Qed.

Lemma filter_map_blank : forall (A : Type) (g : A -> list notifier) l, (forall x, In x l -> g x = []) ->
  filter nonempty (map g l) = [].
Proof. induction l; simpl; intros; auto. rewrite H by auto. simpl. apply IHl. auto. Qed.

(* the lists on the path root .. node(k), without the empty ones: registered at the proper prefixes of k (shortest
   first), the last one at k itself *)
Lemma nots_path : forall sz n, size_t n <= sz -> forall k p, look_t n k true = Some p ->
  exists ups self, nots_t n p = ups ++ [self] /\ self = c_nots (obs_t n k) /\
    filter nonempty ups = filter nonempty (map (fun q => c_nots (obs_t n q)) (pinits k)).
Proof.
  induction sz; intros n Hsz k p H.
  { destruct n; simpl in Hsz; lia. }
  destruct n as [i seg f]. cbn [look_t] in H. 
  destruct (strip seg k 0) eqn:St; try discriminate.
  - apply strip_keyend in St. destruct St as [rest [S1 S2]]. simpl in S2. subst sc.
    destruct (length k <? length seg) eqn:E; simpl in H; [discriminate|]. inversion H; subst p; clear H.
    assert (rest = []).
    { destruct rest; auto. subst seg. rewrite app_length in E. simpl in E. apply Nat.ltb_ge in E. lia. }
    subst rest. rewrite app_nil_r in S1. subst seg.
    exists [], (n_nots i). split; [reflexivity|]. split.
    + cbn [obs_t]. rewrite strip_self. simpl. rewrite Nat.ltb_irrefl. reflexivity.
    + cbn [filter]. symmetry. apply filter_map_blank. intros q Hq. rewrite (obs_inside_seg i k f q Hq). reflexivity.
  - pose proof (strip_segend _ _ _ _ _ St) as Sk.
    rewrite look_f_fget in H. destruct (fget f (c2i c)) as [t0|] eqn:G; [|discriminate].
    destruct (look_t t0 k' true) as [p0|] eqn:L; [|discriminate]. inversion H; subst p; clear H.
    assert (Hst : size_t t0 <= sz). { apply size_fget in G. simpl in Hsz. lia. }
    destruct (IHsz t0 Hst k' p0 L) as [ups [self [N1 [N2 N3]]]].
    exists (n_nots i :: ups), self. split; [|split].
    + cbn [nots_t]. rewrite nots_f_fget, G, N1. reflexivity.
    + rewrite N2. cbn [obs_t]. rewrite St. rewrite obs_f_fget, G. reflexivity.
    + subst k. rewrite pinits_app. rewrite !map_app, !filter_app.
      rewrite (filter_map_blank _ (fun q => c_nots (obs_t (TN i seg f) q)) (pinits seg)).
      2:{ intros q Hq. rewrite obs_inside_seg; auto. }
      cbn [app map filter].
      assert (O : c_nots (obs_t (TN i seg f) seg) = n_nots i).
      { cbn [obs_t]. rewrite strip_self. simpl. rewrite Nat.ltb_irrefl. reflexivity. }
      rewrite O. rewrite map_map.
      assert (M : map (fun x => c_nots (obs_t (TN i seg f) (seg ++ c :: x))) (pinits k') =
                  map (fun q => c_nots (obs_t t0 q)) (pinits k')).
      { apply map_ext. intro q. cbn [obs_t]. rewrite strip_self_more. rewrite obs_f_fget, G. reflexivity. }
      rewrite M, <- N3. destruct (nonempty (n_nots i)); reflexivity.
Qed.
