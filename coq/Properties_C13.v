(* C13 property theorems (placeholder while the proofs are being written) *)
Require Import Verif.LogFmtModel.
