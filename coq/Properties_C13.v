(* C13 - log line formatting is bounded by the line limit and follows the format spec: property theorems.
   Statement + [exact] only; proofs are in LogFmtProofs.v, witnesses in LogFmtWitness.v.
   Model: LogFmtModel.v, a transcription of _strcpy_cutoff, qb_log_target_format,
   qb_log_target_format_static, qb_log_format_set (lib/log_format.c) and of the QB_LOG_CONF_MAX_LINE_LEN test of
   qb_log_ctl2 (lib/log.c).  [.. true ..] = the code with fixes/C13-*.patch applied; [.. false ..] = as found. *)
From Coq Require Import List ZArith Bool Lia.
Require Import Verif.gen.Consts_logfmt Verif.SerModel Verif.LogFmtModel Verif.LogFmtProofs Verif.LogFmtWitness.
Require Import Verif.LogFmtText.
Import ListNotations.
Open Scope Z_scope.

(* ---- nothing out of bounds, NUL inside the limit ----
   for ALL target formats (any bytes: any directive order, widths of any size, unknown directives, '%' last,
   empty), ALL messages and call-site data, every limit >= 1, ellipsis on/off, all oracle texts (time stamps,
   tags) and every prior content of the output buffer of exactly max_line_length bytes: no out-of-bounds
   state (every access of the model is bounds-checked, the format is not read past its NUL) and a NUL at an
   index < max_line_length. *)
Theorem C13_target_format_bounds : forall fmt cs msg L ell o garbage,
  1 <= L < SIZE_MOD -> zlen garbage = L ->
  exists buf, target_format true fmt cs msg L ell o garbage = FDone buf /\ zlen buf = L /\
              exists k, 0 <= k < L /\ rd buf k = 0.
Proof. exact target_format_bounds. Qed.
Print Assumptions C13_target_format_bounds.

(* ---- qb_log_format_set: the expansion of %P %N %H stays inside modified_format[] ---- *)
Theorem C13_format_set_bounds : forall fmt L o garbage,
  1 <= L < SIZE_MOD -> L <= zlen garbage ->
  exists buf, format_static true fmt L o garbage = FDone buf /\ zlen buf = zlen garbage /\
              exists k, 0 <= k < L /\ rd buf k = 0.
Proof. exact format_static_bounds. Qed.
Print Assumptions C13_format_set_bounds.

(* every limit the (repaired) control API accepts is covered by the two theorems above: it is >= 1 and does
   not exceed the size of modified_format[] *)
Theorem C13_ctl_range : forall v, ctl_accepts_line_len true v = true <-> 1 <= v <= LF_ABSOLUTE_MAX_LEN.
Proof. exact ctl_accepts_range. Qed.
Theorem C13_modified_format_fits : forall v, ctl_accepts_line_len true v = true -> v <= MODIFIED_FORMAT_SIZE true.
Proof. exact modified_format_fits. Qed.

(* ---- the statement is FALSE of the code as found (each witness replayed on the real library) ---- *)
Theorem C13_bounds_asfound_refuted :
  ~ (forall fmt cs msg L ell o garbage, 1 <= L < SIZE_MOD -> zlen garbage = L ->
       fres_oob (target_format false fmt cs msg L ell o garbage) = false).
Proof. exact asfound_bounds_false. Qed.

Example C13_asfound_empty_format_refuted : target_format false [] cs0 hello 512 false o0 (repeat 90 512) = FOob 2.
Proof. exact asfound_empty_format. Qed.
Example C13_fixed_empty_format_example : fres_text (target_format true [] cs0 hello 512 false o0 (repeat 90 512)) = [].
Proof. exact fixed_empty_format. Qed.

Example C13_asfound_percent_last_refuted : target_format false [97;98;99;37] cs0 hello 512 false o0 (repeat 90 512) = FOob 4.
Proof. exact asfound_percent_last. Qed.
Example C13_fixed_percent_last_example :
  fres_text (target_format true [97;98;99;37] cs0 hello 512 false o0 (repeat 90 512)) = [97;98;99].
Proof. exact fixed_percent_last. Qed.

Example C13_asfound_no_terminator_refuted :
  target_format false [97;97;97;97;10] cs0 hello 6 true o0 (repeat 90 6) = FDone [97;97;46;46;46;90].
Proof. exact asfound_no_terminator. Qed.
Example C13_fixed_terminator_example :
  target_format true [97;97;97;97;10] cs0 hello 6 true o0 (repeat 90 6) = FDone [97;97;46;46;46;0].
Proof. exact fixed_terminator. Qed.

Example C13_asfound_ellipsis_short_refuted : target_format false [37;98] cs0 abcdef 3 true o0 (repeat 90 3) = FOob 1.
Proof. exact asfound_ellipsis_short. Qed.
Example C13_asfound_limit_one_refuted : target_format false [120] cs0 hello 1 false o0 (repeat 90 1) = FOob 1.
Proof. exact asfound_limit_one. Qed.
Example C13_fixed_limit_one_example : target_format true [120] cs0 hello 1 false o0 (repeat 90 1) = FDone [0].
Proof. exact fixed_limit_one. Qed.

Example C13_asfound_format_set_overflow_refuted :
  format_set false long_fmt 512 o0 (repeat 190 (Z.to_nat (MODIFIED_FORMAT_SIZE false))) = FOob 1.
Proof. exact asfound_format_set_overflow. Qed.
Example C13_fixed_format_set_example :
  fres_text (format_set true long_fmt 512 o0 (repeat 190 (Z.to_nat (MODIFIED_FORMAT_SIZE true))))
  = [113;98;91;52;50;93;32] ++ repeat 120 399.
Proof. exact fixed_format_set. Qed.

Example C13_asfound_ctl_accepts_zero_refuted :
  ctl_accepts_line_len false 0 = true /\ ctl_accepts_line_len false (-1) = true /\
  ctl_accepts_line_len true 0 = false /\ ctl_accepts_line_len true (-1) = false.
Proof. exact asfound_ctl_accepts_zero. Qed.

(* ---- text = documented rendering, truncated ----
   for ALL target formats, messages, call-site data, limits 1 <= L < 2^32, ellipsis on/off, oracle texts and prior
   contents of the L-byte output buffer, inside the guard [line_guard] (every '-' field that is wider than its text
   lies entirely below the limit): the buffer holds exactly
        line_spec = truncate_spec L ell (render_spec ...)        (LogFmtModel.v: literal text and
        %[-][width]directive fields, cut to L-1 characters, trailing newline dropped, "..." over the last three
        characters when the line filled the room and the ellipsis option is on)
   followed by a NUL.  "_partial": outside the guard the formatter lays a '-' field out for the room that is left
   instead of cutting it from the full field (C13_text_ralign_clamped_refuted; finding C13-right-aligned-field-clamped).
   Proof: LogFmtText.v (induction over the format; _strcpy_cutoff's layout = first characters of pad_chop). *)
Theorem C13_text_partial : forall fmt cs msg L ell o garbage,
  1 <= L < 4294967296 -> zlen garbage = L ->
  line_guard fmt cs msg L o = true ->
  exists buf, target_format true fmt cs msg L ell o garbage = FDone buf /\ zlen buf = L /\
              takeZ (zlen (line_spec fmt cs msg L ell o)) buf = line_spec fmt cs msg L ell o /\
              rd buf (zlen (line_spec fmt cs msg L ell o)) = 0.
Proof. exact target_format_text. Qed.
Print Assumptions C13_text_partial.

(* the guard holds e.g. for "[%p] %-8n|%b" with a limit of 512, and fails for "ab%-10n" with a limit of 8 *)
Example C13_text_guard_example :
  line_guard [91;37;112;93;32;37;45;56;110;124;37;98] cs0 hello 512 o0 = true /\
  line_guard [97;98;37;45;49;48;110] (mkCS [97;98;99] [] 0 0 []) [] 8 o0 = false.
Proof. vm_compute. split; reflexivity. Qed.

Example C13_text_ralign_clamped_refuted :
  fres_text (target_format true [97;98;37;45;49;48;110] (mkCS [97;98;99] [] 0 0 []) [] 8 false o0 (repeat 90 8))
  <> line_spec [97;98;37;45;49;48;110] (mkCS [97;98;99] [] 0 0 []) [] 8 false o0.
Proof. exact ralign_clamped_differs. Qed.
Example C13_text_example :
  fres_text (target_format true [91;37;112;93;32;37;45;56;110;124;37;98] cs0 hello 512 false o0 (repeat 90 512))
  = line_spec [91;37;112;93;32;37;45;56;110;124;37;98] cs0 hello 512 false o0.
Proof. exact spec_example. Qed.
