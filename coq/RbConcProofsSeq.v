(* C01: the micro-step lists of RbConcModel.v, composed sequentially (one thread running a call to completion with
   the other thread idle), ARE the sequential ring-buffer model RbModel.v (C07), whose alloc / commit / reclaim /
   space_free / chunk_step are in turn proved equal to the Gallina text that tools/c2coq.py regenerates from
   lib/ringbuffer.c on every run (RbSrcEq.v, PropertiesSrc_C07.v).  So the order and content of the stores the
   interleaving model performs is tied to the source by proof, not only by the trace comparison. *)
From Coq Require Import ZArith List Bool Lia ZifyBool.
Import ListNotations.
Require Import Verif.gen.Consts_rb Verif.gen.Consts_rbconc Verif.RbModel Verif.RbMem Verif.RbConcModel.
Local Open Scope Z_scope.

Definition to_rb (h : shared) : rb :=
  {| rW := hW h; wpt := hwpt h; rpt := hrpt h; data := hmem h; sem := hsem h; ovw := false |}.

(* run the writer alone until its call returns *)
Fixpoint wrun (fuel : nat) (h : shared) (t : wthread) : option (shared * wthread * Z) :=
  match fuel with
  | O => None
  | S f =>
      match wstep h t with
      | None => None
      | Some r =>
          match s_ret r with
          | Some (rc, _) => Some (s_sh r, s_t r, rc)
          | None => wrun f (s_sh r) (s_t r)
          end
      end
  end.

(* run the reader alone until its call returns: (state, thread, return value, bytes) *)
Fixpoint rrun (fuel : nat) (h : shared) (t : rthread) : option (shared * rthread * Z * list Z) :=
  match fuel with
  | O => None
  | S f =>
      match rstep h t with
      | None => None
      | Some r =>
          match s_ret r with
          | Some (rc, b) => Some (s_sh r, s_t r, rc, b)
          | None => rrun f (s_sh r) (s_t r)
          end
      end
  end.

Lemma wrun_copy : forall rest f h prog kk wp k, rest <> [] ->
  wrun (length rest + f) h {| w_prog := prog; w_k := kk; w_pc := WCopy wp k rest |} =
  wrun f (set_mem h (write_bytes (hmem h) (4 * hW h) (4 * ((wp + RB_CHUNK_HEADER_WORDS) mod hW h) + k) rest))
       {| w_prog := prog; w_k := kk; w_pc := WRdWpt3 |}.
Proof.
  induction rest as [|x rest IH]; intros f h prog kk wp k Hne; [congruence|].
  change (length (x :: rest) + f)%nat with (S (length rest + f)).
  cbn [wrun]. unfold wstep at 1. cbn [w_pc hW hmem].
  destruct rest as [|y rest'].
  - unfold w_at. cbn [s_ret s_sh s_t w_prog w_k length plus write_bytes]. reflexivity.
  - unfold w_at. cbn [s_ret s_sh s_t w_prog w_k].
    rewrite IH by discriminate. cbn [hW hmem set_mem].
    cbn [write_bytes].
    replace (4 * ((wp + RB_CHUNK_HEADER_WORDS) mod hW h) + k + 1) with (4 * ((wp + RB_CHUNK_HEADER_WORDS) mod hW h) + (k + 1)) by lia.
    reflexivity.
Qed.

(* qb_rb_chunk_write: the micro-steps executed in sequence = RbModel.write *)
Theorem seq_write : forall h d prog kk,
  match wrun (length d + 12) h {| w_prog := WWrite d :: prog; w_k := kk; w_pc := WCall |} with
  | Some (h', t', rc) => write (to_rb h) d = WRet (to_rb h') rc /\ t' = {| w_prog := prog; w_k := kk + 1; w_pc := WCall |}
  | None => False
  end.
Proof.
  intros h d prog kk.
  replace (length d + 12)%nat with (S (S (length d + 10))) by lia.
  cbn [wrun]. unfold wstep at 1. unfold w_at, w_ret; cbn [w_pc w_prog s_ret s_sh s_t w_at w_k].
  unfold wstep at 1. cbn [w_pc w_prog wdata].
  unfold write, alloc_commit, alloc. cbn [ovw to_rb]. unfold space_free. cbn [rW wpt rpt to_rb].
  destruct (free_words (hW h) (hwpt h) (hrpt h) * RB_SIZEOF_WORD <? zlen d + RB_CHUNK_MARGIN) eqn:Et.
  - unfold w_at, w_ret; cbn [s_ret s_sh s_t w_ret w_prog w_k tl]. split; [|reflexivity].
    replace (- RB_EAGAIN <? 0) with true by (unfold RB_EAGAIN; lia). reflexivity.
  - unfold w_at, w_ret; cbn [s_ret s_sh s_t w_at w_prog w_k].
    replace (length d + 10)%nat with (S (S (S (length d + 7)))) by lia.
    cbn [wrun]. unfold wstep at 1. unfold w_at, w_ret; cbn [w_pc w_prog s_ret s_sh s_t w_at w_k wdata].
    unfold wstep at 1. unfold w_at, w_ret; cbn [w_pc w_prog s_ret s_sh s_t w_at w_k wdata hmem hW set_mem].
    unfold wstep at 1. unfold w_at, w_ret; cbn [w_pc w_prog s_ret s_sh s_t w_at w_k wdata hmem hW set_mem].
    unfold alloc_header. cbn [data wpt rW to_rb set_data].
    set (m2 := stw (stw (hmem h) (hwpt h) 0) ((hwpt h + 1) mod hW h) RB_CHUNK_MAGIC_ALLOC).
    assert (Hrest : forall m3,
      match wrun 7 (set_mem h m3) {| w_prog := WWrite d :: prog; w_k := kk; w_pc := WRdWpt3 |} with
      | Some (h', t', rc) =>
          (let '(b2, r) := commit (set_data {| rW := hW h; wpt := hwpt h; rpt := hrpt h; data := m2; sem := hsem h; ovw := false |} m3) (zlen d) in
           WRet b2 (if r <? 0 then r else zlen d)) = WRet (to_rb h') rc /\
          t' = {| w_prog := prog; w_k := kk + 1; w_pc := WCall |}
      | None => False
      end).
    { intros m3. cbn [wrun]. unfold wstep at 1. unfold w_at, w_ret; cbn [w_pc w_prog s_ret s_sh s_t w_at w_k wdata hmem hW hwpt set_mem].
      unfold wstep at 1. unfold w_at, w_ret; cbn [w_pc w_prog s_ret s_sh s_t w_at w_k wdata hmem hW hwpt set_mem].
      unfold wstep at 1. unfold w_at, w_ret; cbn [w_pc w_prog s_ret s_sh s_t w_at w_k wdata hmem hW hwpt set_mem].
      unfold wstep at 1. unfold w_at, w_ret; cbn [w_pc w_prog s_ret s_sh s_t w_at w_k wdata hmem hW hwpt set_mem set_wpt].
      unfold wstep at 1. unfold w_at, w_ret; cbn [w_pc w_prog s_ret s_sh s_t w_at w_k wdata hmem hW hwpt hsem set_mem set_wpt].
      unfold commit, set_data, sem_post, set_sem. cbn [rW wpt rpt data sem ovw].
      destruct (hsem h) as [c|] eqn:Es.
      - unfold w_at, w_ret; cbn [s_ret s_sh s_t w_at w_prog w_k].
        unfold wstep at 1. unfold w_at, w_ret; cbn [w_pc w_prog s_ret s_sh s_t w_ret w_k wdata tl].
        unfold post, to_rb. cbn [hsem hW hwpt hrpt hmem set_hsem set_mem set_wpt]. rewrite Es.
        cbn [hsem hW hwpt hrpt hmem set_hsem set_mem set_wpt].
        split; reflexivity.
      - unfold w_at, w_ret; cbn [s_ret s_sh s_t w_ret w_prog w_k tl]. unfold to_rb. cbn [hsem hW hwpt hrpt hmem set_mem set_wpt]. rewrite Es.
        split; reflexivity. }
    destruct d as [|x d'].
    + cbn [length plus write_bytes]. specialize (Hrest m2). cbn [zlen length] in *. exact Hrest.
    + replace (length (x :: d') + 7)%nat with (length (x :: d') + 7)%nat by reflexivity.
      rewrite wrun_copy by discriminate. cbn [hmem hW set_mem].
      replace (4 * ((hwpt h + RB_CHUNK_HEADER_WORDS) mod hW h) + 0) with (4 * ((hwpt h + RB_CHUNK_HEADER_WORDS) mod hW h)) by lia.
      fold m2.
      match goal with |- context [set_mem (set_mem h _) ?m] =>
        change (set_mem (set_mem h m2) m) with (set_mem h m) end.
      apply Hrest.
Qed.

(* qb_rb_chunk_reclaim (= _rb_chunk_reclaim): the micro-steps executed in sequence = RbModel.reclaim *)
Theorem seq_reclaim : forall h prog kk sz acc buf hv,
  match rrun 9 h {| r_prog := RReclaim :: prog; r_k := kk; r_pc := RCall; r_size := sz; r_acc := acc; r_buf := buf;
                    r_have := hv |} with
  | Some (h', t', rc, b) => to_rb h' = fst (reclaim (to_rb h)) /\ rc = 0 /\ b = [] /\ r_prog t' = prog /\ r_pc t' = RCall
  | None => False
  end.
Proof.
  intros h prog kk sz acc buf hv.
  cbn [rrun]. unfold rstep at 1. cbn [r_pc r_prog]. unfold act_rc_rd_rpt, rgo, r_at.
  cbn [s_ret s_sh s_t r_prog r_k r_pc r_size r_acc r_buf r_have].
  unfold rstep at 1. cbn [r_pc r_prog].
  unfold reclaim. cbn [rpt wpt rW data to_rb].
  destruct (hrpt h =? hwpt h) eqn:E1.
  - cbn [orb]. unfold rc_fail, rcur. cbn [r_prog is_read]. unfold rreturn, r_ret.
    cbn [s_ret s_sh s_t r_prog r_k r_pc tl fst]. repeat split; reflexivity.
  - cbn [orb]. unfold rgo, r_at. cbn [s_ret s_sh s_t r_prog r_k r_pc r_size r_acc r_buf r_have].
    unfold rstep at 1. cbn [r_pc r_prog].
    destruct (ldw (hmem h) ((hrpt h + 1) mod hW h) =? RB_CHUNK_MAGIC) eqn:E2.
    + cbn [negb]. unfold rgo, r_at. cbn [s_ret s_sh s_t r_prog r_k r_pc r_size r_acc r_buf r_have].
      unfold rstep at 1. cbn [r_pc r_prog]. unfold r_at. cbn [s_ret s_sh s_t r_prog r_k r_pc r_size r_acc r_buf r_have].
      unfold rstep at 1. cbn [r_pc r_prog]. unfold rgo, r_at. cbn [s_ret s_sh s_t r_prog r_k r_pc r_size r_acc r_buf r_have].
      unfold rstep at 1. cbn [r_pc r_prog]. unfold r_at. cbn [s_ret s_sh s_t r_prog r_k r_pc r_size r_acc r_buf r_have hmem hW set_mem].
      unfold rstep at 1. cbn [r_pc r_prog]. unfold r_at. cbn [s_ret s_sh s_t r_prog r_k r_pc r_size r_acc r_buf r_have hmem hW set_mem].
      unfold rstep at 1. cbn [r_pc r_prog]. unfold rcur. cbn [r_prog is_read s_ret s_sh s_t r_pc tl fst].
      unfold to_rb. cbn [hW hwpt hrpt hmem hsem set_mem set_rpt]. repeat split; reflexivity.
    + cbn [negb]. unfold rc_fail, rcur. cbn [r_prog is_read]. unfold rreturn, r_ret.
      cbn [s_ret s_sh s_t r_prog r_k r_pc tl fst]. repeat split; reflexivity.
Qed.

(* ------------------------------------------------------------------ the reader's calls *)
Definition r_with (t : rthread) (p : rpc) (size : Z) (acc buf : list Z) (hv : bool) : rthread :=
  {| r_prog := r_prog t; r_k := r_k t; r_pc := p; r_size := size; r_acc := acc; r_buf := buf; r_have := hv |}.

(* the reclaim part (from RcRdRpt), inside qb_rb_chunk_read or alone *)
Lemma rrun_rc : forall h t, r_pc t = RcRdRpt ->
  match rrun 8 h t with
  | Some (h', t', rc, b) =>
      to_rb h' = fst (reclaim (to_rb h)) /\
      (rc, b) = (if is_read (rcur t) then (r_size t, r_buf t) else (0, [])) /\ r_prog t' = tl (r_prog t) /\ r_pc t' = RCall
  | None => False
  end.
Proof.
  intros h t Epc. destruct t as [prog kk pc sz acc buf hv]. cbn [r_pc] in Epc. subst pc.
  cbn [rrun]. unfold rstep at 1. cbn [r_pc r_prog]. unfold act_rc_rd_rpt, rgo, r_at.
  cbn [s_ret s_sh s_t r_prog r_k r_pc r_size r_acc r_buf r_have].
  unfold rstep at 1. cbn [r_pc r_prog].
  unfold reclaim. cbn [rpt wpt rW data to_rb].
  unfold rcur at 1. cbn [r_prog].
  destruct (hrpt h =? hwpt h) eqn:E1.
  - cbn [orb]. unfold rc_fail. unfold rcur. cbn [r_prog r_size r_buf].
    destruct (is_read (match prog with [] => RReclaim | c :: _ => c end)); unfold rreturn, r_ret;
      cbn [s_ret s_sh s_t r_prog r_k r_pc tl fst]; repeat split; reflexivity.
  - cbn [orb]. unfold rgo, r_at. cbn [s_ret s_sh s_t r_prog r_k r_pc r_size r_acc r_buf r_have].
    unfold rstep at 1. cbn [r_pc r_prog].
    destruct (ldw (hmem h) ((hrpt h + 1) mod hW h) =? RB_CHUNK_MAGIC) eqn:E2.
    + cbn [negb]. unfold rgo, r_at. cbn [s_ret s_sh s_t r_prog r_k r_pc r_size r_acc r_buf r_have].
      unfold rstep at 1. cbn [r_pc r_prog]. unfold r_at. cbn [s_ret s_sh s_t r_prog r_k r_pc r_size r_acc r_buf r_have].
      unfold rstep at 1. cbn [r_pc r_prog]. unfold rgo, r_at. cbn [s_ret s_sh s_t r_prog r_k r_pc r_size r_acc r_buf r_have].
      unfold rstep at 1. cbn [r_pc r_prog]. unfold r_at. cbn [s_ret s_sh s_t r_prog r_k r_pc r_size r_acc r_buf r_have hmem hW set_mem].
      unfold rstep at 1. cbn [r_pc r_prog]. unfold r_at. cbn [s_ret s_sh s_t r_prog r_k r_pc r_size r_acc r_buf r_have hmem hW set_mem].
      unfold rstep at 1. cbn [r_pc r_prog]. unfold rcur. cbn [r_prog r_size r_buf s_ret s_sh s_t r_pc tl fst].
      unfold to_rb. cbn [hW hwpt hrpt hmem hsem set_mem set_rpt].
      destruct (is_read (match prog with [] => RReclaim | c :: _ => c end)); repeat split; reflexivity.
    + cbn [negb]. unfold rc_fail. unfold rcur. cbn [r_prog r_size r_buf].
      destruct (is_read (match prog with [] => RReclaim | c :: _ => c end)); unfold rreturn, r_ret;
        cbn [s_ret s_sh s_t r_prog r_k r_pc tl fst]; repeat split; reflexivity.
Qed.

(* the copy loop: cnt >= 1 bytes still to copy *)
Lemma rrun_copy : forall cnt f h t rp k, r_pc t = RCopy rp k -> r_size t = k + Z.of_nat (S cnt) ->
  rrun (S cnt + f) h t =
  let buf := rev (r_acc t) ++ read_bytes (hmem h) (4 * hW h) (4 * ((rp + RB_CHUNK_HEADER_WORDS) mod hW h) + k) (S cnt) in
  if is_read (rcur t) then rrun f h (r_with t RcRdRpt (r_size t) [] buf true)
  else Some (h, r_ret (r_with t RcRdRpt (r_size t) [] buf true), r_size t, buf).
Proof.
  induction cnt as [|cnt IH]; intros f h t rp k Epc Hsz; destruct t as [prog kk pc sz acc buf0 hv];
    cbn [r_pc r_size r_acc] in *; subst pc.
  - cbn [plus rrun]. unfold rstep at 1. cbn [r_pc r_size r_acc hW hmem].
    replace (k + 1 <? sz) with false by lia.
    unfold copy_done. cbn [read_bytes rev].
    unfold rcur; cbn [r_prog].
    destruct (is_read (match prog with [] => RReclaim | c :: _ => c end)); cbn [s_ret s_sh s_t]; unfold r_with; cbn [r_prog r_k r_size];
      reflexivity.
  - change (S (S cnt) + f)%nat with (S (S cnt + f)). cbn [rrun]. unfold rstep at 1. cbn [r_pc r_size r_acc hW hmem].
    replace (k + 1 <? sz) with true by lia.
    cbn [s_ret s_sh s_t].
    rewrite (IH f h _ rp (k + 1)); [|reflexivity|cbn [r_size]; lia].
    cbn [r_acc r_size rev]. unfold rcur, r_with; cbn [r_prog r_k r_size].
    cbn [read_bytes]. rewrite <- app_assoc. cbn [app].
    replace (4 * ((rp + RB_CHUNK_HEADER_WORDS) mod hW h) + k + 1) with (4 * ((rp + RB_CHUNK_HEADER_WORDS) mod hW h) + (k + 1)) by lia.
    reflexivity.
Qed.

Lemma to_rb_post : forall h, to_rb (post h) = sem_post (to_rb h).
Proof. intros h. unfold post, sem_post, to_rb, set_sem. cbn [sem]. destruct (hsem h) eqn:E; cbn [hW hwpt hrpt hmem hsem set_hsem]; rewrite ?E; reflexivity. Qed.

(* the part of RbModel.read after the semaphore has been taken (or there is none) *)
Definition read_tail (b1 : rb) (n : Z) : rb * Z * list Z :=
  if negb (chunk_ready b1) then
    match sem b1 with
    | None => (b1, - RB_ETIMEDOUT, [])
    | Some _ => (sem_post b1, - RB_EBADMSG, [])
    end
  else
    let size := ldw (data b1) (rpt b1) in
    if n <? size then (sem_post b1, - RB_ENOBUFS, [])
    else let bytes := chunk_bytes b1 size in
         let '(b2, _) := reclaim b1 in (b2, size, bytes).

Lemma read_unfold : forall b n, read b n = let '(b1, res) := sem_trywait b in if res <? 0 then (b1, res, []) else read_tail b1 n.
Proof. reflexivity. Qed.

Ltac rs := try (unfold rstep at 1); cbn [r_pc r_prog]; unfold act_rd_rpt, act_rc_rd_rpt, rgo, rreturn, r_at, r_ret;
           cbn [s_ret s_sh s_t r_prog r_k r_pc r_size r_acc r_buf r_have].

Lemma seq_read_tail : forall h n blk prog kk sz acc buf hv,
  exists fuel,
    match rrun fuel h {| r_prog := RRead n blk :: prog; r_k := kk; r_pc := RRdRpt; r_size := sz; r_acc := acc; r_buf := buf;
                         r_have := hv |} with
    | Some (h', t', rc, b) => (to_rb h', rc, b) = read_tail (to_rb h) n /\ r_pc t' = RCall /\ r_prog t' = prog
    | None => False
    end.
Proof.
  intros h n blk prog kk sz acc buf hv.
  unfold read_tail, chunk_ready. cbn [rpt wpt rW data sem to_rb].
  destruct (hrpt h =? hwpt h) eqn:E1.
  { (* pointers equal *)
    cbn [negb andb]. destruct (hsem h) eqn:Es.
    - exists 3%nat. cbn [rrun]. rs. rs. rewrite E1. unfold r_fail. rewrite Es. rs. rs.
      rewrite to_rb_post. repeat split; reflexivity.
    - exists 2%nat. cbn [rrun]. rs. rs. rewrite E1. unfold r_fail. rewrite Es. unfold rcur. cbn [r_prog is_read]. rs.
      repeat split; reflexivity. }
  cbn [negb andb].
  destruct (ldw (hmem h) ((hrpt h + 1) mod hW h) =? RB_CHUNK_MAGIC) eqn:E2.
  2:{ cbn [negb]. destruct (hsem h) eqn:Es.
      - exists 4%nat. cbn [rrun]. rs. rs. rewrite E1. rs. rs. rewrite E2. unfold r_fail. rewrite Es. rs. rs.
        rewrite to_rb_post. repeat split; reflexivity.
      - exists 3%nat. cbn [rrun]. rs. rs. rewrite E1. rs. rs. rewrite E2. unfold r_fail. rewrite Es. unfold rcur. cbn [r_prog is_read]. rs.
        repeat split; reflexivity. }
  cbn [negb].
  set (size := ldw (hmem h) (hrpt h)).
  destruct (n <? size) eqn:E3.
  { destruct (hsem h) eqn:Es.
    - exists 5%nat. cbn [rrun]. rs. rs. rewrite E1. rs. rs. rewrite E2. rs. rs. unfold rcur. cbn [r_prog]. fold size. rewrite E3, Es. rs. rs.
      rewrite to_rb_post. repeat split; reflexivity.
    - exists 4%nat. cbn [rrun]. rs. rs. rewrite E1. rs. rs. rewrite E2. rs. rs. unfold rcur. cbn [r_prog]. fold size. rewrite E3, Es. rs.
      rewrite <- to_rb_post. unfold post. rewrite Es. repeat split; reflexivity. }
  destruct (size <=? 0) eqn:E4.
  { (* empty chunk: no copy step *)
    remember 8%nat as F8 eqn:EF.
    exists (S (S (S (S F8)))). cbn [rrun]. rs. rs. rewrite E1. rs. rs. rewrite E2. rs. rs.
    unfold rcur at 1. cbn [r_prog]. fold size. rewrite E3, E4. unfold copy_done. unfold rcur at 1. cbn [r_prog is_read].
    cbn [s_ret s_sh s_t]. subst F8.
    pose proof (rrun_rc h {| r_prog := RRead n blk :: prog; r_k := kk; r_pc := RcRdRpt; r_size := size; r_acc := [];
                             r_buf := []; r_have := true |} eq_refl) as Hrc.
    destruct (rrun 8 h _) as [[[[h' t'] rc] b]|]; [|contradiction].
    destruct Hrc as (Hh & Hret & Hp & Hpc). unfold rcur in Hret. cbn [r_prog is_read r_size r_buf tl] in *.
    apply pair_equal_spec in Hret; destruct Hret as (-> & ->).
    unfold chunk_bytes. replace (Z.to_nat size) with 0%nat by lia. cbn [read_bytes].
    destruct (reclaim (to_rb h)) as [b2 rr] eqn:Er. cbn [fst] in Hh. rewrite Hh. repeat split; auto. }
  (* copy size bytes, then reclaim *)
  set (cnt := (Z.to_nat size - 1)%nat).
  remember (S cnt + 8)%nat as F8 eqn:EF.
  exists (S (S (S (S F8)))).
  cbn [rrun]. rs. rs. rewrite E1. rs. rs. rewrite E2. rs. rs.
  unfold rcur at 1. cbn [r_prog]. fold size. rewrite E3, E4. cbn [s_ret s_sh s_t]. subst F8.
  rewrite (rrun_copy cnt 8 h _ (hrpt h) 0); [|reflexivity|cbn [r_size]; unfold cnt; lia].
  cbn [r_acc rev app r_size]. unfold rcur at 1. cbn [r_prog is_read]. unfold r_with. cbn [r_prog r_k r_size].
  match goal with |- context [rrun 8 h ?t] => pose proof (rrun_rc h t eq_refl) as Hrc; destruct (rrun 8 h t) as [[[[h' t'] rc] b]|] end;
    [|contradiction].
  destruct Hrc as (Hh & Hret & Hp & Hpc). unfold rcur in Hret. cbn [r_prog is_read r_size r_buf tl] in *.
  apply pair_equal_spec in Hret; destruct Hret as (-> & ->).
  unfold chunk_bytes. cbn [data rW rpt to_rb].
  replace (Z.to_nat size) with (S cnt) by (unfold cnt; lia).
  replace (4 * ((hrpt h + RB_CHUNK_HEADER_WORDS) mod hW h) + 0) with (4 * ((hrpt h + RB_CHUNK_HEADER_WORDS) mod hW h)) by lia.
  destruct (reclaim (to_rb h)) as [b2 rr] eqn:Er. cbn [fst] in Hh. rewrite Hh. repeat split; auto.
Qed.

Lemma to_rb_set_hsem : forall h c, to_rb (set_hsem h c) = set_sem (to_rb h) c.
Proof. reflexivity. Qed.

(* qb_rb_chunk_read(timeout 0): the micro-steps executed in sequence = RbModel.read *)
Theorem seq_read : forall h n prog kk sz acc buf hv,
  exists fuel,
    match rrun fuel h {| r_prog := RRead n false :: prog; r_k := kk; r_pc := RCall; r_size := sz; r_acc := acc; r_buf := buf;
                         r_have := hv |} with
    | Some (h', t', rc, b) => (to_rb h', rc, b) = read (to_rb h) n /\ r_pc t' = RCall /\ r_prog t' = prog
    | None => False
    end.
Proof.
  intros h n prog kk sz acc buf hv. rewrite read_unfold. unfold sem_trywait. cbn [sem to_rb].
  destruct (hsem h) as [c|] eqn:Es.
  - destruct (0 <? c) eqn:Ec.
    + replace (0 <? 0) with false by reflexivity.
      destruct (seq_read_tail (set_hsem h (Some (c - 1))) n false prog kk sz acc buf hv) as (f & Hf).
      exists (S f). cbn [rrun]. unfold rstep at 1. cbn [r_pc r_prog]. rewrite Es. unfold act_wait. rewrite Ec.
      unfold r_at. cbn [s_ret s_sh s_t r_prog r_k r_pc r_size r_acc r_buf r_have].
      rewrite <- to_rb_set_hsem. fold (to_rb h). exact Hf.
    + exists 1%nat. cbn [rrun]. unfold rstep at 1. cbn [r_pc r_prog]. rewrite Es. unfold act_wait. rewrite Ec.
      unfold rreturn, r_ret, rcur. cbn [s_ret s_sh s_t r_prog r_k r_pc is_read tl].
      replace (- RB_ETIMEDOUT <? 0) with true by (unfold RB_ETIMEDOUT; lia).
      repeat split; reflexivity.
  - replace (0 <? 0) with false by reflexivity.
    destruct (seq_read_tail h n false prog kk sz acc buf hv) as (f & Hf).
    destruct f as [|f]; [cbn [rrun] in Hf; contradiction|].
    exists (S f). cbn [rrun] in Hf |- *. unfold rstep at 1 in Hf. unfold rstep at 1.
    cbn [r_pc r_prog] in Hf |- *. rewrite Es. fold (to_rb h). exact Hf.
Qed.

(* the part of RbModel.peek after the semaphore has been taken *)
Definition peek_tail (b1 : rb) : rb * Z * list Z :=
  if negb (chunk_ready b1) then (sem_post b1, - RB_EBADMSG, [])
  else let size := ldw (data b1) (rpt b1) in (b1, size, chunk_bytes b1 size).

Lemma peek_unfold : forall b, peek b = let '(b1, res) := sem_trywait b in if res <? 0 then (b1, 0, []) else peek_tail b1.
Proof. reflexivity. Qed.

Lemma sem_post_none : forall h, hsem h = None -> sem_post (to_rb h) = to_rb h.
Proof. intros h E. unfold sem_post, to_rb. cbn [sem]. rewrite E. reflexivity. Qed.

Lemma seq_peek_tail : forall h blk prog kk sz acc buf hv,
  exists fuel,
    match rrun fuel h {| r_prog := RPeek blk :: prog; r_k := kk; r_pc := RRdRpt; r_size := sz; r_acc := acc; r_buf := buf;
                         r_have := hv |} with
    | Some (h', t', rc, b) => (to_rb h', rc, b) = peek_tail (to_rb h) /\ r_pc t' = RCall /\ r_prog t' = prog
    | None => False
    end.
Proof.
  intros h blk prog kk sz acc buf hv.
  unfold peek_tail, chunk_ready. cbn [rpt wpt rW data sem to_rb].
  destruct (hrpt h =? hwpt h) eqn:E1.
  { cbn [negb andb]. destruct (hsem h) eqn:Es.
    - exists 3%nat. cbn [rrun]. rs. rs. rewrite E1. unfold r_fail. rewrite Es. rs. rs.
      rewrite to_rb_post. repeat split; reflexivity.
    - exists 2%nat. cbn [rrun]. rs. rs. rewrite E1. unfold r_fail. rewrite Es. unfold rcur. cbn [r_prog is_read]. rs.
      rewrite sem_post_none by assumption. repeat split; reflexivity. }
  cbn [negb andb].
  destruct (ldw (hmem h) ((hrpt h + 1) mod hW h) =? RB_CHUNK_MAGIC) eqn:E2.
  2:{ cbn [negb]. destruct (hsem h) eqn:Es.
      - exists 4%nat. cbn [rrun]. rs. rs. rewrite E1. rs. rs. rewrite E2. unfold r_fail. rewrite Es. rs. rs.
        rewrite to_rb_post. repeat split; reflexivity.
      - exists 3%nat. cbn [rrun]. rs. rs. rewrite E1. rs. rs. rewrite E2. unfold r_fail. rewrite Es. unfold rcur. cbn [r_prog is_read]. rs.
        rewrite sem_post_none by assumption. repeat split; reflexivity. }
  cbn [negb].
  set (size := ldw (hmem h) (hrpt h)).
  destruct (size <=? 0) eqn:E4.
  { exists 4%nat. cbn [rrun]. rs. rs. rewrite E1. rs. rs. rewrite E2. rs. rs.
    unfold rcur at 1. cbn [r_prog]. fold size. rewrite E4. unfold copy_done. unfold rcur at 1. cbn [r_prog is_read]. rs.
    unfold chunk_bytes. replace (Z.to_nat size) with 0%nat by lia. cbn [read_bytes]. repeat split; reflexivity. }
  set (cnt := (Z.to_nat size - 1)%nat).
  remember (S cnt + 0)%nat as F8 eqn:EF.
  exists (S (S (S (S F8)))).
  cbn [rrun]. rs. rs. rewrite E1. rs. rs. rewrite E2. rs. rs.
  unfold rcur at 1. cbn [r_prog]. fold size. rewrite E4. cbn [s_ret s_sh s_t]. subst F8.
  rewrite (rrun_copy cnt 0 h _ (hrpt h) 0); [|reflexivity|cbn [r_size]; unfold cnt; lia].
  cbn [r_acc rev app r_size]. unfold rcur at 1. cbn [r_prog is_read]. unfold r_with, r_ret. cbn [r_prog r_k r_size r_pc tl].
  unfold chunk_bytes. cbn [data rW rpt to_rb].
  replace (Z.to_nat size) with (S cnt) by (unfold cnt; lia).
  replace (4 * ((hrpt h + RB_CHUNK_HEADER_WORDS) mod hW h) + 0) with (4 * ((hrpt h + RB_CHUNK_HEADER_WORDS) mod hW h)) by lia.
  repeat split; reflexivity.
Qed.

(* qb_rb_chunk_peek(timeout 0) + the consumer's copy: the micro-steps executed in sequence = RbModel.peek *)
Theorem seq_peek : forall h prog kk sz acc buf hv,
  exists fuel,
    match rrun fuel h {| r_prog := RPeek false :: prog; r_k := kk; r_pc := RCall; r_size := sz; r_acc := acc; r_buf := buf;
                         r_have := hv |} with
    | Some (h', t', rc, b) => (to_rb h', rc, b) = peek (to_rb h) /\ r_pc t' = RCall /\ r_prog t' = prog
    | None => False
    end.
Proof.
  intros h prog kk sz acc buf hv. rewrite peek_unfold. unfold sem_trywait. cbn [sem to_rb].
  destruct (hsem h) as [c|] eqn:Es.
  - destruct (0 <? c) eqn:Ec.
    + replace (0 <? 0) with false by reflexivity.
      destruct (seq_peek_tail (set_hsem h (Some (c - 1))) false prog kk sz acc buf hv) as (f & Hf).
      exists (S f). cbn [rrun]. unfold rstep at 1. cbn [r_pc r_prog]. rewrite Es. unfold act_wait. rewrite Ec.
      unfold r_at. cbn [s_ret s_sh s_t r_prog r_k r_pc r_size r_acc r_buf r_have].
      rewrite <- to_rb_set_hsem. fold (to_rb h). exact Hf.
    + exists 1%nat. cbn [rrun]. unfold rstep at 1. cbn [r_pc r_prog]. rewrite Es. unfold act_wait. rewrite Ec.
      unfold rreturn, r_ret, rcur. cbn [s_ret s_sh s_t r_prog r_k r_pc is_read tl].
      replace (- RB_ETIMEDOUT <? 0) with true by (unfold RB_ETIMEDOUT; lia).
      repeat split; reflexivity.
  - replace (0 <? 0) with false by reflexivity.
    destruct (seq_peek_tail h false prog kk sz acc buf hv) as (f & Hf).
    destruct f as [|f]; [cbn [rrun] in Hf; contradiction|].
    exists (S f). cbn [rrun] in Hf |- *. unfold rstep at 1 in Hf. unfold rstep at 1.
    cbn [r_pc r_prog] in Hf |- *. rewrite Es. fold (to_rb h). exact Hf.
Qed.
