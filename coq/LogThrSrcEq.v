(* C16 - source tie: the decision cores of lib/log_thread.c as translated by tools/c2coq.py (gen/Src_logthr.v,
   regenerated from the working tree on every run) compute what the models of LogThrModel.v compute.
   Calls to qb_thread_lock / qb_thread_unlock / sem_post / qb_list_add_tail / qb_log_thread_log_write are oracle calls
   of the translation: their NUMBER on each path is an output (the cnt_ counters), their order is not expressed. *)
From Coq Require Import ZArith List Bool Lia.
Import ListNotations.
Require Import Verif.gen.Consts_logthr Verif.gen.Src_logthr Verif.C2CoqPrelude Verif.LogThrModel.
Local Open Scope Z_scope.

Definition b2z (b : bool) : Z := if b then 1 else 0.

Ltac zl := change (2 ^ 64) with 18446744073709551616 in *; change (2 ^ 31) with 2147483648 in *;
  change (2 ^ 20) with 1048576 in *; change (2 ^ 30) with 1073741824 in *; lia.

(* the wrap-arounds of the C types do not occur in the stated ranges; R = sizeof(struct qb_log_record), Lm = the limit.
   Generic in R and Lm, so that a different limit or record size in the source re-checks instead of breaking. *)
Lemma wrap_core : forall R Lm used len dropped,
  0 <= R <= 4096 -> 0 <= Lm <= 2 ^ 30 -> 0 <= len < 2 ^ 20 -> 0 <= used <= Lm -> 0 <= dropped < 2 ^ 31 - 1 ->
  u64 (u64 (R + u64 (u64 (u64 len + u64 1)))) = R + len + 1 /\
  s32 (u64 (u64 used + (R + len + 1))) = used + (R + len + 1) /\
  s32 (s32 (u64 (u64 (used + (R + len + 1)) - (R + len + 1)))) = used /\
  s32 (s32 (s32 dropped + 1)) = dropped + 1.
Proof.
  intros R Lm used len dropped HR HL Hlen Hu Hd.
  assert (B30 : 2 ^ 30 = 1073741824) by reflexivity.
  rewrite (u64_small len) by zl. rewrite (u64_small 1) by zl.
  rewrite (u64_small (len + 1)) by zl. rewrite (u64_small (len + 1)) by zl.
  rewrite (u64_small (R + (len + 1))) by zl. rewrite (u64_small (R + (len + 1))) by zl.
  rewrite (u64_small used) by zl.
  rewrite (u64_small (used + (R + len + 1))) by zl.
  rewrite (s32_small (used + (R + len + 1))) by zl.
  replace (used + (R + len + 1) - (R + len + 1)) with used by lia.
  rewrite (u64_small used) by zl. rewrite (s32_small used) by zl. rewrite (s32_small used) by zl.
  rewrite (s32_small dropped) by zl. rewrite (s32_small (dropped + 1)) by zl. rewrite (s32_small (dropped + 1)) by zl.
  repeat split; lia.
Qed.

(* ---- qb_log_thread_log_post, logging thread present, both allocations succeed ---- *)
Lemma src_post : forall cs ts buffer km ka kw kl ku kp ks dropped used lockp om oa ow ol ou op os rb rc,
  lockp <> 0 -> 0 <= lockp ->
  0 < om km < 2 ^ 64 -> 0 < om (km + 1) < 2 ^ 64 ->
  0 <= os ks < 2 ^ 20 ->          (* strlen of the formatted message (at most QB_LOG_ABSOLUTE_MAX_LEN) *)
  0 <= used <= LOGT_LIMIT -> 0 <= dropped < 2 ^ 31 - 1 ->
  match qb_log_thread_log_post cs ts buffer km ka kw kl ku kp ks dropped used lockp om oa ow ol ou op os rb rc with
  | (km', ka', kw', kl', ku', kp', ks', dropped', used', rb', rc') =>
      let '(m1, d1, acc) := post_decide used dropped (os ks) in
      used' = m1 /\ dropped' = d1 /\
      ka' = ka + b2z acc /\            (* appended exactly when accepted *)
      kp' = kp + b2z acc /\            (* sem_post exactly when accepted *)
      kl' = kl + 1 /\ ku' = ku + 1 /\  (* one lock, one unlock on every path *)
      kw' = kw                          (* nothing written by the caller *)
  end.
Proof.
  intros cs ts buffer km ka kw kl ku kp ks dropped used lockp om oa ow ol ou op os rb rc
         Hl Hl0 Hm1 Hm2 Hs Hu Hd.
  assert (HR : 0 <= LOGT_REC_SIZE <= 4096) by (unfold LOGT_REC_SIZE; lia).
  assert (HL : 0 <= LOGT_LIMIT <= 2 ^ 30) by (unfold LOGT_LIMIT; change (2 ^ 30) with 1073741824; lia).
  destruct (wrap_core LOGT_REC_SIZE LOGT_LIMIT used (os ks) dropped HR HL Hs Hu Hd) as (E1 & E2 & E3 & E4).
  unfold qb_log_thread_log_post, post_decide.
  unfold LOGT_REC_SIZE, LOGT_LIMIT in *.
  replace (lockp =? 0) with false by (symmetry; apply Z.eqb_neq; exact Hl).
  rewrite (u64_small (om km)) by zl. rewrite (u64_small (om km)) by zl.
  replace (om km =? 0) with false by (symmetry; apply Z.eqb_neq; zl).
  rewrite (u64_small (om (km + 1))) by zl. rewrite (u64_small (om (km + 1))) by zl.
  replace (om (km + 1) =? 0) with false by (symmetry; apply Z.eqb_neq; zl).
  rewrite E1, E2.
  match goal with |- context [?a >? ?b] => destruct (a >? b) eqn:G end.
  - match goal with |- context [?b <? ?a] => assert (b <? a = true) as -> by (apply Z.ltb_lt; apply Z.gtb_lt in G; lia) end.
    rewrite E3, E4. cbn [b2z]. repeat split; lia.
  - match goal with |- context [?b <? ?a] =>
      assert (b <? a = false) as -> by (apply Z.ltb_ge; destruct (Z.gtb_spec a b); [discriminate|lia]) end.
    cbn [b2z]. repeat split; lia.
Qed.

(* ---- no logging thread (fixes/C16-1): the caller writes, nothing else happens ---- *)
Lemma src_post_no_thread : forall cs ts buffer km ka kw kl ku kp ks dropped used om oa ow ol ou op os rb rc,
  qb_log_thread_log_post cs ts buffer km ka kw kl ku kp ks dropped used 0 om oa ow ol ou op os rb rc =
  (km, ka, kw + 1, kl, ku, kp, ks, dropped, used, rb, rc).
Proof. intros. reflexivity. Qed.

(* ---- the PLock step of the interleaving model computes post_decide ---- *)
Lemma model_plock_post_decide : forall b i sh gh p m sh' gh' p' l,
  p_pc p = PLock m -> prod_step b i sh gh p = Some (sh', gh', p', l) ->
  let '(m1, d1, acc) := post_decide (mem sh) (drop sh) (m_len m) in
  mem sh' = m1 /\ drop sh' = d1 /\ p_pc p' = PUnlock m acc /\
  q sh' = (if acc then q sh ++ [m] else q sh) /\ plog gh' = plog gh ++ [(m, acc, backlog (q sh))].
Proof.
  intros b i sh gh p m sh' gh' p' l PC H. unfold prod_step in H. rewrite PC in H.
  destruct (lock_free sh); [|discriminate]. unfold post_decide, msg_total in *.
  replace (LOGT_REC_SIZE + m_len m + 1) with (LOGT_REC_SIZE + m_len m + 1) by reflexivity.
  destruct (LOGT_LIMIT <? mem sh + (LOGT_REC_SIZE + m_len m + 1)); injection H as <- <- <- <-; cbn; auto.
Qed.

(* ---- qb_log_thread_pause / _resume (repaired): lock / unlock exactly when threaded and the lock exists ---- *)
Definition lock_ptr_of (l : lockst) (ptr : Z) : Prop := (ptr = 0 <-> l = LNull).

Lemma src_pause : forall t k lockp ol thr tg l,
  lock_ptr_of l lockp -> (thr <> 0 <-> t_thr tg = true) ->
  qb_log_thread_pause t k lockp ol thr = k + b2z (pause_takes_lock tg l).
Proof.
  intros t k lockp ol thr tg l [L1 L2] [T1 T2]. unfold qb_log_thread_pause, pause_takes_lock.
  destruct (t_thr tg) eqn:Th.
  - replace (thr =? 0) with false by (symmetry; apply Z.eqb_neq; apply T2; reflexivity).
    destruct l; cbn [lock_is_null negb andb b2z].
    + rewrite (proj2 (Z.eqb_eq lockp 0)) by (apply L2; reflexivity). cbn. lia.
    + replace (lockp =? 0) with false by (symmetry; apply Z.eqb_neq; intro E; specialize (L1 E); discriminate). cbn. lia.
    + replace (lockp =? 0) with false by (symmetry; apply Z.eqb_neq; intro E; specialize (L1 E); discriminate). cbn. lia.
  - assert (thr = 0) as -> by (destruct (Z.eq_dec thr 0); [assumption|specialize (T1 n); discriminate]).
    cbn. lia.
Qed.

Lemma src_resume : forall t k lockp ou thr tg l,
  lock_ptr_of l lockp -> (thr <> 0 <-> t_thr tg = true) ->
  qb_log_thread_resume t k lockp ou thr = k + b2z (pause_takes_lock tg l).
Proof. intros. unfold qb_log_thread_resume. eapply (src_pause t k lockp ou thr); eassumption. Qed.

(* the sequential model's pause_err (repaired code) uses the lock exactly when pause_takes_lock *)
Lemma model_pause_err : forall s t,
  pause_err true s t = if pause_takes_lock t (k_lock s) then use_lock (k_lock s) else None.
Proof. intros s t. unfold pause_err, pause_takes_lock. destruct (t_thr t); [|reflexivity]. destruct (k_lock s); reflexivity. Qed.

(* ---- qb_log_thread_start vs. the KStart step of the control-history model ---- *)
Definition active_of (s : kst) (a : Z) : Prop := (a <> 0 <-> k_active s = true).

Lemma src_start : forall s kc kq kl kp kw errno fn spq spp pol tidp lockp act sx oc oq ol op ow,
  k_err s = None -> active_of s act -> lock_ptr_of (k_lock s) lockp ->
  0 < ol kl < 2 ^ 64 ->                 (* qb_thread_lock_create succeeds *)
  oc kc = 0 ->                          (* pthread_create succeeds *)
  spq = 0 ->                            (* no scheduling parameters queued *)
  match qb_log_thread_start kc kq kl kp kw errno fn spq spp pol tidp lockp act sx oc oq ol op ow,
        kstep true s KStart with
  | (rc, kc', kq', kl', kp', kw', errno', spq', lockp', act', sx'), (s', evs) =>
      evs = [EvRc rc] /\ active_of s' act' /\ lock_ptr_of (k_lock s') lockp' /\ sx' = sx /\
      kc' = kc + b2z (negb (k_active s))        (* a thread is created exactly when none is active *)
  end.
Proof.
  intros s kc kq kl kp kw errno fn spq spp pol tidp lockp act sx oc oq ol op ow He HA LP Hl Hc ->.
  unfold qb_log_thread_start, kstep. rewrite He.
  destruct (k_active s) eqn:Ka.
  - assert (act <> 0) as Na by (apply HA; exact Ka).
    replace (act =? 0) with false by (symmetry; apply Z.eqb_neq; exact Na). cbn [negb b2z].
    split; [reflexivity|]. split; [exact HA|]. split; [exact LP|]. split; [reflexivity|lia].
  - assert (act = 0) as ->.
    { destruct (Z.eq_dec act 0) as [E|E]; [exact E|]. apply HA in E. congruence. }
    cbn [Z.eqb negb b2z].
    rewrite (u64_small (ol kl)) by zl. rewrite (u64_small (ol kl)) by zl.
    replace (ol kl =? 0) with false by (symmetry; apply Z.eqb_neq; lia).
    rewrite Hc. cbn.
    split; [reflexivity|]. split; [unfold active_of; cbn; split; [reflexivity|discriminate]|].
    split; [unfold lock_ptr_of; cbn; split; [lia|discriminate]|]. split; [reflexivity|lia].
Qed.
