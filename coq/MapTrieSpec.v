(* C17 / C18 trie part: the dictionary specification the trie model is proved to refine (local spec of builder
   maptrie; keys and values as in MapTrieModel.v).  No proofs about the trie here. *)
From Coq Require Import List ZArith Bool Arith Lia.
Import ListNotations.
Require Import Verif.gen.Consts_trie Verif.MapTrieModel.

Definition dict := list (key * val).
Definition key_dec := list_eq_dec Nat.eq_dec.

Fixpoint d_get (d : dict) (k : key) : option val :=
  match d with [] => None | (k', v) :: d' => if key_dec k' k then Some v else d_get d' k end.
Fixpoint d_rm (d : dict) (k : key) : dict :=
  match d with [] => [] | (k', v) :: d' => if key_dec k' k then d' else (k', v) :: d_rm d' k end.
Definition d_put (d : dict) (k : key) (v : val) : dict := (k, v) :: d_rm d k.

(* dictionary operations of the qb_map API *)
Inductive dop := DPut (k : key) (v : val) | DGet (k : key) | DRm (k : key) | DCount.

Definition to_op (o : dop) : op :=
  match o with DPut k v => OPut k v | DGet k => OGet k | DRm k => ORm k | DCount => OCount end.

Definition spec_step (d : dict) (o : dop) : dict * out :=
  match o with
  | DPut k v => (d_put d k v, RUnit)
  | DGet k => (d, RVal (d_get d k))
  | DRm k => (d_rm d k, RInt (match d_get d k with Some _ => TRIE_QB_TRUE | None => TRIE_QB_FALSE end))
  | DCount => (d, RInt (Z.of_nat (length d) mod 2 ^ (8 * TRIE_SIZEOF_LENGTH)))
  end.

Fixpoint spec_run (d : dict) (ops : list dop) : list out * dict :=
  match ops with
  | [] => ([], d)
  | o :: ops' => let '(d', r) := spec_step d o in let '(outs, fin) := spec_run d' ops' in (r :: outs, fin)
  end.

(* keys the C API can express and the trie accepts: non-empty C strings *)
Definition kvalid (k : key) : Prop := k <> [] /\ Forall (fun b => b <> 0) k.
Definition dop_valid (o : dop) : Prop :=
  match o with DPut k _ => kvalid k | DGet k => kvalid k | DRm k => kvalid k | DCount => True end.

Lemma d_get_rm_other : forall d k q, q <> k -> d_get (d_rm d k) q = d_get d q.
Proof.
  induction d as [|[k' v] d]; simpl; intros; auto.
  destruct (key_dec k' k).
  - subst. destruct (key_dec k q); [congruence|auto].
  - simpl. destruct (key_dec k' q); auto.
Qed.

Lemma d_get_in : forall d k v, d_get d k = Some v -> In k (map fst d).
Proof.
  induction d as [|[k' v'] d]; simpl; intros; [discriminate|].
  destruct (key_dec k' k); auto. right. eapply IHd; eauto.
Qed.

Lemma d_get_rm_same : forall d k, NoDup (map fst d) -> d_get (d_rm d k) k = None.
Proof.
  induction d as [|[k' v] d]; simpl; intros; auto. inversion H; subst.
  destruct (key_dec k' k).
  - subst. destruct (d_get d k) eqn:E; auto. exfalso. apply H2. eapply d_get_in; eauto.
  - simpl. destruct (key_dec k' k); [congruence|]. auto.
Qed.

Lemma d_rm_in : forall d k x, In x (map fst (d_rm d k)) -> In x (map fst d).
Proof.
  induction d as [|[k' v] d]; simpl; intros; auto.
  destruct (key_dec k' k); simpl in *; auto. destruct H; auto. right. eapply IHd; eauto.
Qed.

Lemma d_rm_nodup : forall d k, NoDup (map fst d) -> NoDup (map fst (d_rm d k)).
Proof.
  induction d as [|[k' v] d]; simpl; intros; auto. inversion H; subst.
  destruct (key_dec k' k); auto. simpl. constructor; auto. intro X. apply H2. eapply d_rm_in; eauto.
Qed.

Lemma d_rm_absent : forall d k, d_get d k = None -> d_rm d k = d.
Proof.
  induction d as [|[k' v] d]; simpl; intros; auto.
  destruct (key_dec k' k); [discriminate|]. f_equal. auto.
Qed.

Lemma d_rm_len : forall d k v, d_get d k = Some v -> S (length (d_rm d k)) = length d.
Proof.
  induction d as [|[k' v'] d]; simpl; intros; [discriminate|].
  destruct (key_dec k' k); auto. simpl. f_equal. eapply IHd; eauto.
Qed.

Lemma d_rm_notin : forall d k, NoDup (map fst d) -> ~ In k (map fst (d_rm d k)).
Proof.
  induction d as [|[k' v] d]; simpl; intros; auto. inversion H; subst.
  destruct (key_dec k' k).
  - subst. auto.
  - simpl. intros [X|X]; [congruence|]. eapply IHd; eauto.
Qed.
