(* Abstract specification of the chunk ring buffer: a FIFO queue of byte strings plus the count of
   unconsumed notifications.  Short enough to be read in a minute; RbProofs.v shows that the
   transcription of lib/ringbuffer.c (RbModel.v) behaves exactly like it for every operation list.
   No proofs in this file. *)
From Coq Require Import ZArith List Bool.
Import ListNotations.
Require Import Verif.gen.Consts_rb Verif.RbModel.
Local Open Scope Z_scope.

Definition chunk := list Z.

(* 32-bit words a chunk of n payload bytes occupies: two header words + payload rounded up *)
Definition cw (n : Z) : Z := 2 + (n + 3) / 4.
Fixpoint used (q : list chunk) : Z :=
  match q with [] => 0 | c :: t => cw (zlen c) + used t end.

(* what the property statements count: every chunk with 16 bytes of overhead *)
Fixpoint cost (q : list chunk) : Z :=
  match q with [] => 0 | c :: t => (zlen c + 16) + cost t end.

Record spec := { sq : list chunk;          (* unread chunks, oldest first *)
                 stok : option Z }.        (* pending notifications; None = ring without notifier *)

Definition has_token (s : spec) : bool :=
  match stok s with None => true | Some c => 0 <? c end.
Definition tok_add (s : spec) (d : Z) : option Z :=
  match stok s with None => None | Some c => Some (c + d) end.

(* the admission rule of a ring of W words: a reservation of rlen bytes is accepted iff
   rlen + margin bytes are free, where an empty ring has W words free and a non-empty one
   W - used - 1 *)
Definition free_bytes (W : Z) (q : list chunk) : Z :=
  4 * (if used q =? 0 then W else W - used q - 1).
Definition has_room (W : Z) (q : list chunk) (rlen : Z) : bool :=
  rlen + RB_CHUNK_MARGIN <=? free_bytes W q.

(* observable result of an operation: return value and delivered bytes; None = not specified
   (space queries and dumps are compared with the implementation, not specified here) *)
Definition obs := option (Z * list Z).

Definition spec_write (W : Z) (s : spec) (rlen : Z) (d : chunk) (okval : Z) : spec * obs :=
  if has_room W (sq s) rlen
  then ({| sq := sq s ++ [d]; stok := tok_add s 1 |}, Some (okval, []))
  else (s, Some (- RB_EAGAIN, [])).

Definition spec_step (W : Z) (s : spec) (o : op) : spec * obs :=
  match o with
  | OWrite d => spec_write W s (zlen d) d (zlen d)
  | OAllocCommit rlen d => spec_write W s rlen d 0
  | ORead n =>
      if negb (has_token s) then (s, Some (- RB_ETIMEDOUT, [])) else
      match sq s with
      | [] => (s, Some (match stok s with None => - RB_ETIMEDOUT | Some _ => - RB_EBADMSG end, []))
      | c :: t => if n <? zlen c then (s, Some (- RB_ENOBUFS, []))
                  else ({| sq := t; stok := tok_add s (-1) |}, Some (zlen c, c))
      end
  | OPeek =>
      if negb (has_token s) then (s, Some (0, [])) else
      match sq s with
      | [] => (s, Some (- RB_EBADMSG, []))
      | c :: _ => ({| sq := sq s; stok := tok_add s (-1) |}, Some (zlen c, c))
      end
  | OReclaim => ({| sq := tl (sq s); stok := stok s |}, Some (0, []))
  | OQuery => (s, None)
  | ODump => (s, None)
  end.

Fixpoint spec_run (W : Z) (s : spec) (ops : list op) : spec * list obs :=
  match ops with
  | [] => (s, [])
  | o :: t => let '(s1, x) := spec_step W s o in let '(s2, xs) := spec_run W s1 t in (s2, x :: xs)
  end.

Definition obs_of (x : out) : obs :=
  match x with ORet r bytes => Some (r, bytes) | _ => None end.

(* ------------------------------------------------------------------ overwrite mode (C11) *)
(* the writer drops oldest chunks until the reservation is accepted *)
Fixpoint drop_until (W : Z) (q : list chunk) (rlen : Z) : list chunk :=
  if has_room W q rlen then q else
  match q with [] => [] | _ :: t => drop_until W t rlen end.

Definition ow_spec_write (W : Z) (s : spec) (rlen : Z) (d : chunk) (okval : Z) : spec * obs :=
  let q1 := drop_until W (sq s) rlen in
  if has_room W q1 rlen
  then ({| sq := q1 ++ [d]; stok := tok_add s 1 |}, Some (okval, []))
  else ({| sq := q1; stok := stok s |}, Some (- RB_EINVAL, [])).

Definition ow_spec_step (W : Z) (s : spec) (o : op) : spec * obs :=
  match o with
  | OWrite d => ow_spec_write W s (zlen d) d (zlen d)
  | OAllocCommit rlen d => ow_spec_write W s rlen d 0
  | _ => spec_step W s o
  end.

Fixpoint ow_spec_run (W : Z) (s : spec) (ops : list op) : spec * list obs :=
  match ops with
  | [] => (s, [])
  | o :: t => let '(s1, x) := ow_spec_step W s o in let '(s2, xs) := ow_spec_run W s1 t in (s2, x :: xs)
  end.
