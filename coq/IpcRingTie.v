(* Cross-model tie: the bounded-FIFO abstraction of the shm rings in the IPC model (IpcDataModel.v, C02/C06:
   ring_words, chunk_words, used_words, space_free, ring_fits, the SHM branches of xsend / xrecv) IS the ring
   buffer of RbModel.v as characterised by C07 (RbProofs.Repr, RbRefine): the IPC theorems' "the ring's own space
   rule" is the C07-proved rule, not a second transcription of lib/ringbuffer.c. *)
From Coq Require Import ZArith List Bool Lia ZifyBool.
Import ListNotations.
Require Import Verif.gen.Consts_rb Verif.gen.Consts_ipcdata Verif.RbModel Verif.RbSpec Verif.RbMem Verif.RbProofs
               Verif.RbRefine Verif.IpcDataModel.
Local Open Scope Z_scope.

Ltac Zify.zify_post_hook ::= Z.div_mod_to_equations.
Ltac spl := repeat match goal with |- _ /\ _ => split end.

(* the two constant files are generated from the same sources and agree *)
Lemma ring_consts_agree :
  IPC_RB_CHUNK_MARGIN = RB_CHUNK_MARGIN /\ IPC_RB_CHUNK_HEADER_WORDS = RB_CHUNK_HEADER_WORDS /\
  IPC_RB_WORD = RB_SIZEOF_WORD /\ IPC_PAGE_SIZE = RB_PAGE_SIZE /\ RB_SIZE_EXTRA = 1 /\
  IPC_EAGAIN = RB_EAGAIN /\ IPC_ETIMEDOUT = RB_ETIMEDOUT /\ IPC_ENOBUFS = RB_ENOBUFS.
Proof. vm_compute. repeat split; reflexivity. Qed.

(* qb_rb_open's size computation *)
Theorem ring_words_is_open : forall mx ns ow, ring_words mx = rW (rb_open mx ns ow).
Proof.
  intros mx ns ow. unfold ring_words, IpcDataModel.roundup. cbn [rb_open rW]. unfold RbModel.roundup.
  destruct ring_consts_agree as (-> & _ & -> & -> & -> & _).
  replace (mx + RB_CHUNK_MARGIN + 1 + RB_PAGE_SIZE - 1) with (mx + RB_CHUNK_MARGIN + 1 + (RB_PAGE_SIZE - 1)) by lia.
  reflexivity.
Qed.

(* qb_rb_chunk_step's word count *)
Lemma chunk_words_is_cw : forall len, chunk_words len = cw len.
Proof.
  intros len. unfold chunk_words, cw. destruct ring_consts_agree as (_ & -> & -> & _). rbc.
  destruct (len mod 4 =? 0) eqn:E; lia.
Qed.

(* the IPC model's queue of message tokens stands for the ring's queue of chunks: same lengths, same order *)
Definition lens_agree (q : list chunk) (mq : list msg) : Prop := map zlen q = map m_len mq.

Lemma used_words_is_used : forall q mq, lens_agree q mq -> used_words mq = used q.
Proof.
  induction q as [|c t IH]; intros mq H; destruct mq as [|m mt]; cbn in H; try discriminate; cbn [used_words used]; [reflexivity|].
  inversion H. rewrite chunk_words_is_cw. rewrite (IH mt) by assumption. congruence.
Qed.

Lemma space_free_is_free_bytes : forall W q mq, lens_agree q mq -> IpcDataModel.space_free W mq = free_bytes W q.
Proof.
  intros W q mq H. unfold IpcDataModel.space_free, free_bytes. rewrite (used_words_is_used q mq H).
  destruct ring_consts_agree as (_ & _ & -> & _). rbc. destruct (used q =? 0); lia.
Qed.

Lemma ring_fits_is_has_room : forall W q mq len, lens_agree q mq -> ring_fits W mq len = has_room W q len.
Proof.
  intros W q mq len H. unfold ring_fits, has_room. rewrite (space_free_is_free_bytes W q mq H).
  destruct ring_consts_agree as (-> & _).
  destruct (free_bytes W q <? len + RB_CHUNK_MARGIN) eqn:E1; destruct (len + RB_CHUNK_MARGIN <=? free_bytes W q) eqn:E2;
    cbn [negb]; try reflexivity; lia.
Qed.

Lemma lens_agree_snoc : forall q mq d m, lens_agree q mq -> m_len m = zlen d -> lens_agree (q ++ [d]) (mq ++ [m]).
Proof. unfold lens_agree. intros q mq d m H Hm. rewrite !map_app. cbn [map]. rewrite Hm. f_equal. exact H. Qed.

(* ... and both are what the ring's own qb_rb_space_free reports in a state that represents q *)
Theorem ipc_space_free_is_rb_space_free : forall b q mq, Repr b q -> lens_agree q mq ->
  IpcDataModel.space_free (rW b) mq = RbModel.space_free b.
Proof. intros b q mq HR H. rewrite (space_free_repr b q HR). apply space_free_is_free_bytes; exact H. Qed.

(* THE TIE: ring_fits is true iff qb_rb_chunk_write of a chunk of that length is accepted, false iff it is refused
   with EAGAIN (and then nothing changes); an accepted chunk becomes the newest of the represented queue *)
Theorem ring_fits_iff_write_accepted : forall b s mq d, Inv b s -> ovw b = false -> lens_agree (sq s) mq ->
  (ring_fits (rW b) mq (zlen d) = true ->
     exists b', write b d = WRet b' (zlen d) /\ Inv b' {| sq := sq s ++ [d]; stok := tok_add s 1 |} /\ rW b' = rW b) /\
  (ring_fits (rW b) mq (zlen d) = false -> write b d = WRet b (- RB_EAGAIN)).
Proof.
  intros b s mq d HI Ho Hl. rewrite (ring_fits_is_has_room (rW b) (sq s) mq (zlen d) Hl).
  pose proof (zlen_nonneg d) as Hz.
  destruct (alloc_commit_nofuel b (zlen d) d Ho) as (b1 & r & Hac).
  destruct (spec_write (rW b) s (zlen d) d 0) as (s', y) eqn:Hsp.
  destruct (alloc_commit_refines b s (zlen d) d 0 HI Ho ltac:(lia) _ _ _ _ Hac Hsp) as (HI' & Hy & Hr & HW' & _ & Hsame).
  unfold spec_write in Hsp. unfold write. rewrite Hac.
  destruct neg_errno_lt0 as (_ & _ & _ & LtA & _).
  split; intros Hroom; rewrite Hroom in Hsp.
  - assert (Hs' : s' = {| sq := sq s ++ [d]; stok := tok_add s 1 |}) by (inversion Hsp; reflexivity).
    assert (Hy0 : y = Some (0, [])) by (inversion Hsp; reflexivity).
    assert (r = 0).
    { destruct (r =? 0) eqn:E; [lia|]. rewrite Hy0 in Hy. inversion Hy. lia. }
    subst r s'. change (0 <? 0) with false. cbv iota. exists b1. spl; try assumption; reflexivity.
  - assert (Hy0 : y = Some (- RB_EAGAIN, [])) by (inversion Hsp; reflexivity).
    assert (r = - RB_EAGAIN).
    { destruct Hr as [-> | ->]; [|reflexivity]. rewrite Hy0 in Hy. change (0 =? 0) with true in Hy. inversion Hy. }
    subst r. rewrite LtA. rewrite Hsame; [reflexivity|]. lia.
Qed.

(* the SHM branch of the IPC model's send is the ring's write, step for step *)
Theorem xsend_shm_is_rb_write : forall b s mq m d env, Inv b s -> ovw b = false -> lens_agree (sq s) mq ->
  m_len m = zlen d ->
  let '(mq', res, env') := xsend SHM (rW b) mq m env in
  exists b' s', write b d = WRet b' res /\ Inv b' s' /\ lens_agree (sq s') mq' /\ rW b' = rW b /\ env' = env /\
                (0 <= res -> sq s' = sq s ++ [d] /\ mq' = mq ++ [m]) /\ (res < 0 -> b' = b /\ s' = s /\ mq' = mq).
Proof.
  intros b s mq m d env HI Ho Hl Hm. cbn [xsend]. rewrite Hm.
  destruct (ring_fits_iff_write_accepted b s mq d HI Ho Hl) as (Hacc & Hrej).
  destruct ring_consts_agree as (_ & _ & _ & _ & _ & HE & _).
  pose proof (zlen_nonneg d) as Hz.
  destruct (ring_fits (rW b) mq (zlen d)) eqn:Ef.
  - destruct (Hacc eq_refl) as (b' & Hw & HI' & HW').
    exists b', {| sq := sq s ++ [d]; stok := tok_add s 1 |}. spl; try assumption; try reflexivity.
    + cbn [sq]. apply lens_agree_snoc; assumption.
    + intros _. split; reflexivity.
    + intros Hneg. lia.
  - rewrite HE. exists b, s. spl; try assumption; try reflexivity.
    + apply Hrej; reflexivity.
    + destruct consts_ok as (_ & _ & _ & _ & _ & _ & _ & _ & _ & _ & _ & _ & _ & Hpos & _). intros; lia.
    + intros _. spl; reflexivity.
Qed.

(* the SHM branch of the IPC model's receive is the ring's read (ms_timeout 0), when every queued chunk has its
   notification pending - the way ipc_shm.c uses the ring: one post per chunk, one wait per read *)
Definition tokens_match (s : spec) : Prop :=
  stok s = None \/ stok s = Some (Z.of_nat (length (sq s))).

Theorem xrecv_shm_is_rb_read : forall vr b s mq n, Inv b s -> tokens_match s -> lens_agree (sq s) mq ->
  let '(mq', res, om) := xrecv vr SHM mq n in
  exists b' s' bytes, read b n = (b', res, bytes) /\ Inv b' s' /\ tokens_match s' /\ lens_agree (sq s') mq' /\
                      rW b' = rW b /\
                      match om with
                      | Some m => exists c t mt, sq s = c :: t /\ mq = m :: mt /\ bytes = c /\ sq s' = t /\ mq' = mt
                      | None => s' = s /\ mq' = mq /\ bytes = []
                      end.
Proof.
  intros vr b s mq n HI Htok Hl.
  destruct ring_consts_agree as (_ & _ & _ & _ & _ & _ & HT & HB).
  destruct (read b n) as ((b', r), bytes) eqn:Hr.
  destruct (spec_step (rW b) s (ORead n)) as (s', y) eqn:Hsp.
  destruct (read_refines b s n HI _ _ _ _ _ Hr Hsp) as (HI' & Hy & HW' & _ & _).
  cbn [spec_step] in Hsp. unfold xrecv.
  destruct (sq s) as [|c t] eqn:Eq; destruct mq as [|m mt]; cbn in Hl; try discriminate.
  - (* empty *)
    assert (Hres : s' = s /\ y = Some (- RB_ETIMEDOUT, [])).
    { destruct Htok as [Hn | Hs0].
      - unfold has_token in Hsp. rewrite Hn in Hsp. cbn [negb] in Hsp. inversion Hsp; split; reflexivity.
      - unfold has_token in Hsp. rewrite Hs0, Eq in Hsp. cbn [length Z.of_nat] in Hsp. change (0 <? 0) with false in Hsp.
        cbn [negb] in Hsp. inversion Hsp; split; reflexivity. }
    destruct Hres as (-> & Hy'). rewrite Hy' in Hy. inversion Hy; subst r bytes. rewrite HT.
    exists b', s, []. spl; try assumption; try reflexivity. rewrite Eq. reflexivity.
  - (* a chunk is queued *)
    inversion Hl as [[Hlen Hrest]].
    assert (Hht : has_token s = true).
    { unfold has_token. destruct Htok as [-> | ->]; [reflexivity|]. rewrite Eq. cbn [length]. lia. }
    rewrite Hht in Hsp. cbn [negb] in Hsp.
    rewrite Hy in Hsp.
    destruct (n <? zlen c) eqn:En.
    + inversion Hsp; subst s' r bytes. rewrite HB.
      exists b', s, []. spl; try assumption; try reflexivity. rewrite Eq. cbn. congruence.
    + inversion Hsp; subst s' r bytes.
      exists b', {| sq := t; stok := tok_add s (-1) |}, c. spl; try assumption; try reflexivity.
      * unfold tokens_match, tok_add in *. cbn [sq stok]. destruct Htok as [-> | ->]; [left; reflexivity|].
        right. rewrite Eq. cbn [length]. f_equal. lia.
      * exists c, t, mt. spl; reflexivity.
Qed.

Lemma ring_tie_example :
  Inv (rb_open 8192 false false) (spec0 false) /\ tokens_match (spec0 false) /\ lens_agree (sq (spec0 false)) [] /\
  ring_words 8192 = rW (rb_open 8192 false false) /\ ring_fits (ring_words 8192) [] 12276 = true /\
  ring_fits (ring_words 8192) [] 12277 = false.
Proof.
  split; [apply open_inv; [lia | vm_compute; discriminate]|].
  split; [right; reflexivity|]. split; [reflexivity|]. split; [apply ring_words_is_open|]. split; vm_compute; reflexivity.
Qed.
