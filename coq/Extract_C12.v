(* Extraction of the C12 model.  ExtrOcamlBasic only: bool/option/unit/list/prod/sumbool map to the
   OCaml types of the same shape; Z, positive, nat stay inductive; no Extract Constant. *)
From Coq Require Import ExtrOcamlBasic.
Require Import Verif.LogRouteModel.
Extraction "model_C12.ml" orig fixed log_init step cfg_init cfg_step route tag_of abs G_log_lineno_range.
