(* C17 trie part, iteration (3): updates of one node's info leave find / next / the other nodes alone. *)
From Coq Require Import List ZArith Bool Arith Lia.
Import ListNotations.
Require Import Verif.gen.Consts_trie Verif.MapTrieModel Verif.MapTrieProofs Verif.MapTrieProofs2 Verif.MapTrieIter
               Verif.MapTrieIds.

Definition inc (i : ninfo) : ninfo := set_rc (S (n_rc i)) i.
Definition dec (i : ninfo) : ninfo := set_rc (n_rc i - 1) i.

Lemma dec_inc : forall i, dec (inc i) = i.
Proof. destruct i. unfold dec, inc, set_rc. simpl. f_equal. lia. Qed.

Lemma upd_f_nil_path : forall f j g, upd_f f j [] g = match fget f j with Some t => fset f j (Some (upd_t t [] g)) | None => f end.
Proof. intros. apply upd_f_fget. Qed.

(* updating with a function that is the identity on the node found there changes nothing *)
Lemma upd_id_at : forall p n g tn, get_at n p = Some tn -> g (t_info tn) = t_info tn -> upd_t n p g = n.
Proof.
  induction p; intros n g tn G E; destruct n as [i s f]; simpl in G; cbn [upd_t].
  - inversion G; subst. simpl in E. rewrite E. reflexivity.
  - f_equal. rewrite upd_f_fget. destruct (fget f a) as [c|] eqn:F; [|discriminate].
    rewrite (IHp c g tn G E). clear -F. revert a F. induction f; simpl; intros; [discriminate|].
    destruct a; simpl in *; [subst; reflexivity|]. f_equal. auto.
Qed.

Lemma upd_ext_at : forall p n g g' tn, get_at n p = Some tn -> g (t_info tn) = g' (t_info tn) ->
  upd_t n p g = upd_t n p g'.
Proof.
  induction p; intros n g g' tn G E; destruct n as [i s f]; simpl in G; cbn [upd_t].
  - inversion G; subst. simpl in E. rewrite E. reflexivity.
  - f_equal. rewrite !upd_f_fget. destruct (fget f a) as [c|] eqn:F; [|discriminate].
    rewrite (IHp c g g' tn G E). reflexivity.
Qed.

Lemma fset_comm : forall f j1 j2 x y, j1 <> j2 -> fset (fset f j1 x) j2 y = fset (fset f j2 y) j1 x.
Proof.
  induction f; simpl; intros; auto. destruct j1, j2; simpl; auto; try congruence. f_equal. apply IHf. congruence.
Qed.

(* updates at two different paths commute *)
Lemma upd_comm : forall p1 p2 n g1 g2, p1 <> p2 ->
  upd_t (upd_t n p1 g1) p2 g2 = upd_t (upd_t n p2 g2) p1 g1.
Proof.
  induction p1; intros p2 n g1 g2 H; destruct n as [i s f]; destruct p2 as [|b p2]; cbn [upd_t]; try congruence; auto.
  f_equal. rewrite (upd_f_fget f a), (upd_f_fget f b).
  destruct (fget f a) as [c|] eqn:F; destruct (fget f b) as [c'|] eqn:F'; rewrite !upd_f_fget.
  - pose proof (fget_some_lt _ _ _ F) as L. pose proof (fget_some_lt _ _ _ F') as L'.
    destruct (Nat.eq_dec a b) as [e|e].
    + subst b. rewrite !fget_fset_same by auto. rewrite !fset_fset.
      assert (c' = c) by congruence. subst c'. rewrite IHp1 by congruence. reflexivity.
    + rewrite (fget_fset_other f a b) by congruence. rewrite (fget_fset_other f b a) by congruence.
      rewrite F, F'. apply fset_comm. auto.
  - assert (a <> b) by congruence.
    rewrite (fget_fset_other f a b) by congruence. rewrite F', F. reflexivity.
  - assert (a <> b) by congruence.
    rewrite (fget_fset_other f b a) by congruence. rewrite F', F. reflexivity.
  - rewrite F, F'. reflexivity.
Qed.

(* the info found at another path is unchanged *)
Definition info_at (n : tnode) (p : path) : option ninfo :=
  match get_at n p with Some t => Some (t_info t) | None => None end.

Lemma info_at_upd_other : forall p q n g, p <> q -> info_at (upd_t n p g) q = info_at n q.
Proof.
  unfold info_at. induction p; intros q n g H; destruct n as [i s f]; destruct q as [|b q]; cbn [upd_t]; try congruence.
  - reflexivity.
  - simpl. destruct (fget f a); reflexivity || (rewrite upd_f_fget; simpl; reflexivity).
  - simpl. rewrite upd_f_fget. destruct (fget f a) as [c|] eqn:F.
    + destruct (Nat.eq_dec a b) as [e|e].
      * subst b. rewrite fget_fset_same by (eapply fget_some_lt; eauto). rewrite F. apply IHp. congruence.
      * rewrite fget_fset_other by auto. reflexivity.
    + reflexivity.
Qed.

Lemma info_at_upd_same : forall p n g i, info_at n p = Some i -> info_at (upd_t n p g) p = Some (g i).
Proof.
  unfold info_at. intros. destruct (get_at n p) as [[i0 sg fc]|] eqn:G; [|discriminate]. inversion H; subst.
  rewrite (get_at_upd _ _ g _ _ _ G). reflexivity.
Qed.

(* find and the traversal do not see info updates that keep the id / keep "present" *)
Lemma find_upd : (forall t p g id, (forall i, n_id (g i) = n_id i) -> find_t (upd_t t p g) id = find_t t id) /\
                 (forall f j p g id, (forall i, n_id (g i) = n_id i) -> find_f (upd_f f j p g) id = find_f f id).
Proof.
  apply tnode_forest_ind.
  - intros i s f IH p g id Hg. destruct p; cbn [upd_t find_t].
    + rewrite Hg. reflexivity.
    + rewrite IH by auto. reflexivity.
  - reflexivity.
  - intros f IH j p g id Hg. destruct j; cbn [upd_f find_f]; auto. rewrite IH by auto. reflexivity.
  - intros t f IHt IHf j p g id Hg. destruct j; cbn [upd_f find_f].
    + rewrite IHt by auto. reflexivity.
    + rewrite IHf by auto. reflexivity.
Qed.

Definition pres_at (t : tnode) (p : path) (g : ninfo -> ninfo) : Prop :=
  forall tn, get_at t p = Some tn -> present_i (g (t_info tn)) = present_i (t_info tn).

Lemma next_upd :
  (forall t p g, pres_at t p g ->
     alive (upd_t t p g) = alive t /\ first_t (upd_t t p g) = first_t t /\
     forall rel, next_t (upd_t t p g) rel = next_t t rel) /\
  (forall f j p g, (forall c, fget f j = Some c -> pres_at c p g) ->
     first_f (upd_f f j p g) = first_f f /\ forall jj rel, next_f (upd_f f j p g) jj rel = next_f f jj rel).
Proof.
  apply tnode_forest_ind.
  - intros i s f IH p g H. destruct p as [|j p']; cbn [upd_t].
    + split; [|split]; auto. unfold alive. simpl. apply (H (TN i s f)). reflexivity.
    + destruct (IH j p' g) as [F N].
      { intros c Fc tn G. apply H. simpl. rewrite Fc. exact G. }
      split; [reflexivity|]. split; [exact F|]. intro rel. cbn [next_t]. destruct rel; auto.
  - intros. split; reflexivity.
  - intros f IH j p g H. destruct j; cbn [upd_f]; [split; reflexivity|].
    destruct (IH j p g) as [F N]. { intros c Fc. apply H. exact Fc. }
    split.
    + cbn [first_f]. rewrite F. reflexivity.
    + intros jj rel. cbn [next_f]. destruct jj; auto. rewrite N. reflexivity.
  - intros t f IHt IHf j p g H. destruct j; cbn [upd_f].
    + destruct (IHt p g) as [A [F N]]. { apply H. reflexivity. }
      split.
      * cbn [first_f]. rewrite A, F. reflexivity.
      * intros jj rel. cbn [next_f]. destruct jj.
        -- rewrite N. reflexivity.
        -- unfold self_or_first. rewrite A, F. reflexivity.
    + destruct (IHf j p g) as [F N]. { intros c Fc. apply H. exact Fc. }
      split.
      * cbn [first_f]. rewrite F. reflexivity.
      * intros jj rel. cbn [next_f]. destruct jj; auto. rewrite N. reflexivity.
Qed.
