(* C14 - witnesses: the code AS FOUND ([fx = false]) violates the property (each was replayed on the real
   library, see props/C14.py corpus()), and concrete non-vacuity examples for the repaired code. *)
From Coq Require Import List ZArith Bool Lia.
Require Import Verif.gen.Consts_logfmt Verif.SerModel.
Import ListNotations.
Open Scope Z_scope.

(* toy renderings of one conversion, good enough to tell texts apart *)
Definition echo : list Z -> Z -> list Z -> list Z := fun _ _ a => a.          (* prints the argument bytes *)
Definition wide : list Z -> Z -> list Z -> list Z := fun _ _ _ => repeat 32 300.   (* a 300-column field *)

Definition s_abc := [97;98;99;100;101;102;103;104].                (* "abcdefgh" *)
Definition alphabet := [97;98;99;100;101;102;103;104;105;106;107;108;109;110;111;112;113;114;115;116;117;118;119;120;121;122].
Definition hello := [104;101;108;108;111].
Definition f_prec := [37;46;51;100;32;37;115].                     (* "%.3d %s" *)
Definition f_pct := [49;48;48;37;37;32;100;111;110;101].           (* "100%% done" *)
Definition f_sss := [37;115;37;115;37;115].                        (* "%s%s%s" *)
Definition f_xc := [120;37;100;7].                                 (* "x%d\a" *)

Definition roundtrip (fx : bool) (r1 : list Z -> Z -> list Z -> list Z) (max n : Z) (fmt : list Z) (args : list arg)
           (g1 g2 : list Z) : list Z :=
  out_text (deserialize fx (snp_of r1) (out_record max (serialize fx max fmt args g1)) SIZE_MAX n g2).

(* 1. precision state carried from "%.3d" into "%s": only "abc" is stored *)
Lemma asfound_precision_carried :
  roundtrip false echo 64 64 f_prec [AInt 7; AStr s_abc] (repeat 238 64) (repeat 90 64)
  <> printf_spec echo f_prec PLit [AInt 7; AStr s_abc].
Proof. vm_compute. discriminate. Qed.

Lemma fixed_precision_example :
  roundtrip true echo 64 64 f_prec [AInt 7; AStr s_abc] (repeat 238 64) (repeat 90 64)
  = printf_spec echo f_prec PLit [AInt 7; AStr s_abc].
Proof. vm_compute. reflexivity. Qed.

(* 2. "100%% done": the serializer treats the second '%' as a new directive ("% d" takes an int that was never
   passed), the decoder leaves no NUL after "%%" and strlcat searches the caller's uninitialised buffer *)
Lemma asfound_percent_record :
  out_ret (serialize false 64 f_pct [] (repeat 238 64)) = 16 /\
  out_ret (serialize true 64 f_pct [] (repeat 238 64)) = 11.
Proof. vm_compute. split; reflexivity. Qed.

Lemma asfound_percent_garbage :
  deserialize false (snp_of echo) (out_record 64 (serialize false 64 f_pct [] (repeat 238 64))) SIZE_MAX 64 (repeat 90 64)
  = OutOfBounds 5.
Proof. vm_compute. reflexivity. Qed.

Lemma fixed_percent_example :
  roundtrip true echo 64 64 f_pct [] (repeat 238 64) (repeat 90 64) = printf_spec echo f_pct PLit [].
Proof. vm_compute. reflexivity. Qed.

(* 3. a %s that finds the record exactly full is "copied" with size 0, location runs past max_len:
   the returned size exceeds the buffer, and the next %s writes outside it *)
Lemma asfound_ser_size :
  out_ret (serialize false 20 [37;115;37;115] [AStr alphabet; AStr hello] (repeat 238 20)) = 26.
Proof. vm_compute. reflexivity. Qed.

Lemma asfound_ser_overrun :
  serialize false 20 f_sss [AStr alphabet; AStr hello; AStr hello] (repeat 238 20) = OutOfBounds 1.
Proof. vm_compute. reflexivity. Qed.

Lemma fixed_ser_full_example :
  out_ret (serialize true 20 f_sss [AStr alphabet; AStr hello; AStr hello] (repeat 238 20)) = 20.
Proof. vm_compute. reflexivity. Qed.

(* 4. decoder: literal text is copied without a bound *)
Lemma asfound_des_literal :
  deserialize false (snp_of echo) (repeat 97 33 ++ [37; 100; 0; 1; 2; 3; 4]) SIZE_MAX 10 (repeat 90 10) = OutOfBounds 2.
Proof. vm_compute. reflexivity. Qed.

(* 5. decoder: flags / width digits overflow fmt[MINI_FORMAT_STR_LEN] *)
Lemma asfound_des_minifmt :
  deserialize false (snp_of echo) (37 :: repeat 48 28 ++ [100; 0; 1; 2; 3; 4]) SIZE_MAX 64 (repeat 90 64) = OutOfBounds 3.
Proof. vm_compute. reflexivity. Qed.

(* 6. decoder: snprintf's return value pushes location past str_len; str_len - location wraps *)
Lemma asfound_des_location :
  deserialize false (snp_of wide) ([37;100;37;100;37;100;0] ++ repeat 1 12) SIZE_MAX 512 (repeat 90 512) = OutOfBounds 2.
Proof. vm_compute. reflexivity. Qed.

Lemma fixed_des_hostile_examples :
  is_oob (deserialize true (snp_of echo) (repeat 97 33 ++ [37; 100; 0; 1; 2; 3; 4]) 40 10 (repeat 90 10)) = false /\
  is_oob (deserialize true (snp_of echo) (37 :: repeat 48 28 ++ [100; 0; 1; 2; 3; 4]) 35 64 (repeat 90 64)) = false /\
  is_oob (deserialize true (snp_of wide) ([37;100;37;100;37;100;0] ++ repeat 1 12) 19 512 (repeat 90 512)) = false.
Proof. vm_compute. repeat split; reflexivity. Qed.

(* 7. QB_XC as the last character: the format in the record becomes one byte shorter but the arguments
   stay where they were, so the decoder reads them one byte early *)
Lemma asfound_xc_last :
  roundtrip false echo 64 64 f_xc [AInt 1234567] (repeat 238 64) (repeat 90 64)
  <> printf_spec echo [120;37;100] PLit [AInt 1234567].
Proof. vm_compute. discriminate. Qed.

Lemma fixed_xc_last_example :
  roundtrip true echo 64 64 f_xc [AInt 1234567] (repeat 238 64) (repeat 90 64)
  = printf_spec echo [120;37;100] PLit [AInt 1234567].
Proof. vm_compute. reflexivity. Qed.

(* the full statements that are false of the code as found *)
Lemma asfound_ser_bounds_false :
  ~ (forall max fmt args garbage, 1 <= max < SIZE_MOD -> zlen garbage = max ->
       exists ret buf, serialize false max fmt args garbage = Done ret buf 0 /\ ret <= max).
Proof.
  intros H. destruct (H 20 f_sss [AStr alphabet; AStr hello; AStr hello] (repeat 238 20)) as [r [b [E _]]].
  - vm_compute. split; [discriminate | reflexivity].
  - reflexivity.
  - rewrite asfound_ser_overrun in E. discriminate.
Qed.

Lemma asfound_deser_bounds_false :
  ~ (forall snp rec n garbage, 1 <= n < SIZE_MOD -> zlen garbage = n -> snp_writes_at_most_n snp ->
       is_oob (deserialize false snp rec SIZE_MAX n garbage) = false).
Proof.
  intros H.
  specialize (H (snp_of echo) (repeat 97 33 ++ [37; 100; 0; 1; 2; 3; 4]) 10 (repeat 90 10)).
  rewrite asfound_des_literal in H. cbn in H.
  assert (true = false); [apply H|discriminate].
  - vm_compute. split; [discriminate | reflexivity].
  - reflexivity.
  - intros f k a n Hn0. unfold snp_of, echo. cbn [snd].
    destruct (n =? 0) eqn:E; [apply Z.eqb_eq in E; subst; cbn; lia|].
    apply Z.eqb_neq in E. unfold zlen. rewrite app_length. cbn [length].
    assert (forall l k, (length (takeZ k l) <= Z.to_nat (Z.max k 0))%nat).
    { induction l as [|x t IH]; intros; cbn [takeZ length]; [lia|].
      destruct (k0 <=? 0) eqn:E2; cbn [length]; [lia|]. apply Z.leb_gt in E2. specialize (IH (k0 - 1)). lia. }
    specialize (H0 a (n - 1)). lia.
Qed.
