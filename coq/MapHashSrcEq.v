(* MapHashSrcEq - source tie for the arithmetic / decision cores of the map models (C17 / C18).
   gen/Src_maphash.v and gen/Src_mapskip.v are regenerated from lib/hashtable.c / lib/skiplist.c by tools/c2coq.py on
   every run; here the hand-written model functions are proved equal to the translated C functions:
     qb_hashtable_create : order = max(bit length of max_size, 3), 2^order buckets, count 0  (= order_of / h_create)
     hashtable_node_deref, skiplist_node_deref : refcount - 1, the node is destroyed iff it reaches 0 (= node_deref)
     hashtable_count_get, skiplist_count_get : the stored count / length
   hash_fnv (pointer arithmetic over the key bytes) and skiplist_level_generate (local enum) are outside the
   translator's subset: they stay tied by the correspondence run only. *)
From Coq Require Import ZArith List Bool Lia Arith.
Require Import Verif.C2CoqPrelude Verif.gen.Src_maphash Verif.gen.Src_mapskip Verif.MapSpec Verif.MapHashModel Verif.MapSkipModel Verif.MapHashProofs2.
Local Open Scope Z_scope.

(* ---- node_deref ---- *)
Lemma src_hash_node_deref : forall map node cnt (r : nat) orc, Z.of_nat (S r) < 2 ^ 32 ->
  hashtable_node_deref map node cnt (Z.of_nat (S r)) orc = ((if Nat.eqb r 0 then cnt + 1 else cnt), Z.of_nat r).
Proof.
  intros. unfold hashtable_node_deref.
  replace (Z.of_nat (S r) - 1) with (Z.of_nat r) by lia. rewrite (u32_small (Z.of_nat r)) by lia. rewrite (u32_small 0) by lia.
  destruct r; simpl Nat.eqb.
  - reflexivity.
  - destruct (Z.of_nat (S r) >? 0) eqn:E; auto. rewrite Z.gtb_ltb in E. apply Z.ltb_ge in E. lia.
Qed.

Lemma src_skip_node_deref : forall node list cnt (r : nat) orc, Z.of_nat (S r) < 2 ^ 32 ->
  skiplist_node_deref node list cnt (Z.of_nat (S r)) orc = ((if Nat.eqb r 0 then cnt + 1 else cnt), Z.of_nat r).
Proof.
  intros. unfold skiplist_node_deref.
  replace (Z.of_nat (S r) - 1) with (Z.of_nat r) by lia. rewrite (u32_small (Z.of_nat r)) by lia. rewrite (u32_small 0) by lia.
  destruct r; simpl Nat.eqb.
  - reflexivity.
  - destruct (Z.of_nat (S r) =? 0) eqn:E; auto. apply Z.eqb_eq in E. lia.
Qed.

(* the model agrees: hashtable_node_deref (C) and node_deref (model) take the same decision and leave the same count *)
Theorem src_hash_node_deref_model : forall s id n r map node cnt orc,
  deref (h_heap s) id = Ok n -> hn_ref n = S r -> Z.of_nat (S r) < 2 ^ 32 ->
  exists s' ns, node_deref s id = Ok (s', ns) /\
    if fst (hashtable_node_deref map node cnt (Z.of_nat (hn_ref n)) orc) =? cnt + 1
    then deref (h_heap s') id = Err (UseAfterFree id)          (* destroyed: the cell is freed *)
    else exists n', deref (h_heap s') id = Ok n' /\           (* kept, with the C code's count *)
                    Z.of_nat (hn_ref n') = snd (hashtable_node_deref map node cnt (Z.of_nat (hn_ref n)) orc).
Proof.
  intros. rewrite H0. rewrite src_hash_node_deref by auto. cbn [fst snd].
  assert (Hlt : (id < length (h_heap s))%nat) by (eapply deref_lt; eauto).
  unfold node_deref. rewrite H. simpl. rewrite H0. destruct r; simpl Nat.eqb.
  - rewrite Z.eqb_refl. eexists _, _. split; [reflexivity|]. simpl.
    unfold deref, free_cell, store. rewrite nth_error_upd, Nat.eqb_refl. apply Nat.ltb_lt in Hlt. rewrite Hlt.
    rewrite nth_error_upd, Nat.eqb_refl, upd_length, Hlt. reflexivity.
  - eexists _, _. split; [reflexivity|]. simpl.
    replace (cnt =? cnt + 1) with false by (symmetry; apply Z.eqb_neq; lia). rewrite deref_store by auto. rewrite Nat.eqb_refl.
    eexists. split; [reflexivity|]. reflexivity.
Qed.

(* ---- count / length ---- *)
Lemma src_hash_count_get : forall map c, hashtable_count_get map c = c.
Proof. reflexivity. Qed.
Lemma src_skip_count_get : forall map c, skiplist_count_get map c = c.
Proof. reflexivity. Qed.

(* ---- qb_hashtable_create: order and number of buckets ---- *)
Lemma shiftr1_pos : forall p, Z.shiftr (Zpos p) 1 = match p with xH => 0 | xO q => Zpos q | xI q => Zpos q end.
Proof. intros. rewrite <- Z.div2_spec. destruct p; reflexivity. Qed.

Lemma bitlen_bound : forall p, Zpos p < 2 ^ Z.of_nat (bitlen_pos p).
Proof.
  induction p.
  - change (bitlen_pos p~1) with (S (bitlen_pos p)). rewrite Nat2Z.inj_succ, Z.pow_succ_r by lia. change (Z.pos p~1) with (2 * Z.pos p + 1). lia.
  - change (bitlen_pos p~0) with (S (bitlen_pos p)). rewrite Nat2Z.inj_succ, Z.pow_succ_r by lia. change (Z.pos p~0) with (2 * Z.pos p). lia.
  - reflexivity.
Qed.
Lemma bitlen_pos_ge1 : forall p, (1 <= bitlen_pos p)%nat.
Proof. destruct p; simpl; lia. Qed.
Lemma bitlen_lower : forall p, 2 ^ (Z.of_nat (bitlen_pos p) - 1) <= Zpos p.
Proof.
  induction p.
  - change (bitlen_pos p~1) with (S (bitlen_pos p)). rewrite Nat2Z.inj_succ.
    assert (H : 0 <= Z.of_nat (bitlen_pos p) - 1) by (generalize (bitlen_pos_ge1 p); lia).
    replace (Z.succ (Z.of_nat (bitlen_pos p)) - 1) with (Z.succ (Z.of_nat (bitlen_pos p) - 1)) by lia.
    rewrite Z.pow_succ_r by exact H. change (Z.pos p~1) with (2 * Z.pos p + 1). lia.
  - change (bitlen_pos p~0) with (S (bitlen_pos p)). rewrite Nat2Z.inj_succ.
    assert (H : 0 <= Z.of_nat (bitlen_pos p) - 1) by (generalize (bitlen_pos_ge1 p); lia).
    replace (Z.succ (Z.of_nat (bitlen_pos p)) - 1) with (Z.succ (Z.of_nat (bitlen_pos p) - 1)) by lia.
    rewrite Z.pow_succ_r by exact H. change (Z.pos p~0) with (2 * Z.pos p). lia.
  - simpl. lia.
Qed.

Lemma create_loop1 : forall p fuel i, (bitlen_pos p < fuel)%nat -> 0 <= i -> i + Z.of_nat (bitlen_pos p) < 2 ^ 31 -> Zpos p < 2 ^ 31 ->
  qb_hashtable_create_loop1 fuel i (Zpos p) = Some (i + Z.of_nat (bitlen_pos p), 0).
Proof.
  induction p; intros fuel i Hf Hi Hb Hp; (destruct fuel; [simpl in Hf; lia|]); cbn [qb_hashtable_create_loop1].
  - replace (negb (Z.pos p~1 =? 0)) with true by reflexivity.
    rewrite (s32_small (Z.pos p~1)) by lia. rewrite shiftr1_pos. rewrite (s32_small (Z.pos p)) by lia.
    simpl bitlen_pos in *. rewrite Nat2Z.inj_succ in *. rewrite (s32_small (i + 1)) by lia.
    rewrite IHp; try lia. f_equal. f_equal. lia.
  - replace (negb (Z.pos p~0 =? 0)) with true by reflexivity.
    rewrite (s32_small (Z.pos p~0)) by lia. rewrite shiftr1_pos. rewrite (s32_small (Z.pos p)) by lia.
    simpl bitlen_pos in *. rewrite Nat2Z.inj_succ in *. rewrite (s32_small (i + 1)) by lia.
    rewrite IHp; try lia. f_equal. f_equal. lia.
  - replace (negb (1 =? 0)) with true by reflexivity.
    rewrite (s32_small 1) by lia. rewrite shiftr1_pos. rewrite (s32_small 0) by lia. rewrite (s32_small (i + 1)) by (simpl in Hb; lia).
    destruct fuel; [simpl in Hf; lia|]. cbn [qb_hashtable_create_loop1]. simpl. reflexivity.
Qed.

Lemma create_loop2 : forall k fuel len i, 0 <= i -> len - i = Z.of_nat k -> len < 2 ^ 31 -> (k < fuel)%nat ->
  qb_hashtable_create_loop2 fuel len i = Some len.
Proof.
  induction k; intros fuel len i Hi Hk Hl Hf; (destruct fuel; [lia|]); cbn [qb_hashtable_create_loop2].
  - rewrite (u32_small i) by lia. replace (i <? len) with false by (symmetry; apply Z.ltb_ge; lia). f_equal. lia.
  - rewrite (u32_small i) by lia. replace (i <? len) with true by (symmetry; apply Z.ltb_lt; lia).
    rewrite (s32_small (i + 1)) by lia. apply IHk; lia.
Qed.

Definition create_order (r : option (Z * Z * Z * Z * Z * Z * Z * Z * Z * Z * Z * Z * Z * Z * Z)) : option (Z * Z * Z) :=
  match r with
  | Some (ht, _, count, len, _, _, _, _, _, _, _, _, _, _, order) => Some (count, len, order)
  | None => None
  end.

(* for every max_size the harness / model considers (0 <= max_size < 2^30), every allocator answer that is not NULL,
   enough fuel: the translated qb_hashtable_create sets count = 0, order = order_of max_size, 2^order buckets *)
Theorem src_hashtable_create : forall (m : N) fuel cc f1 f2 f3 f4 f5 f6 f7 f8 f9 f10 a1 a2 a3 a4 a5 a6 a7 a8 a9 a10 a11 a12 a13 orc,
  Z.of_N m < 2 ^ 30 -> 0 < orc cc < 2 ^ 64 -> (2 ^ order_of m + 40 < fuel)%nat ->
  create_order (qb_hashtable_create fuel (Z.of_N m) cc f1 f2 f3 f4 f5 f6 f7 f8 f9 f10 a1 a2 a3 a4 a5 a6 a7 a8 a9 a10 a11 a12 a13 orc) =
  Some (0, Z.of_nat (length (h_buckets (h_create m))), Z.of_nat (order_of m)).
Proof.
  intros m fuel cc f1 f2 f3 f4 f5 f6 f7 f8 f9 f10 a1 a2 a3 a4 a5 a6 a7 a8 a9 a10 a11 a12 a13 orc Hm Ho Hf.
  unfold qb_hashtable_create. rewrite (s32_small (Z.of_N m)) by lia. rewrite (s32_small (Z.of_N m)) by lia. rewrite (s32_small 0) by lia.
  assert (L1 : exists bl, qb_hashtable_create_loop1 fuel 0 (Z.of_N m) = Some (Z.of_nat bl, 0) /\ order_of m = Nat.max bl 3 /\ (bl <= 30)%nat).
  { destruct m as [|p]; simpl Z.of_N.
    - exists O. split. destruct fuel; [lia|]. reflexivity. split; auto. lia.
    - exists (bitlen_pos p). assert (bitlen_pos p <= 30)%nat.
      { generalize (bitlen_lower p). intro. destruct (le_lt_dec (bitlen_pos p) 30); auto.
        assert (2 ^ 30 <= 2 ^ (Z.of_nat (bitlen_pos p) - 1)) by (apply Z.pow_le_mono_r; lia). simpl Z.of_N in Hm. lia. }
      simpl Z.of_N in Hm.
      split. rewrite create_loop1 by lia. reflexivity. split; auto. }
  destruct L1 as [bl [L1 [L2 L3]]]. rewrite L1.
  set (ord := Z.of_nat (order_of m)).
  assert (Hord : (if Z.of_nat bl >? 3 then Z.of_nat bl else 3) = ord).
  { unfold ord. rewrite L2. destruct (Z.of_nat bl >? 3) eqn:E. apply Z.gtb_lt in E. lia. rewrite Z.gtb_ltb in E. apply Z.ltb_ge in E. lia. }
  rewrite Hord. assert (3 <= ord <= 30) by (unfold ord; lia).
  rewrite (s32_small ord) by lia.
  assert (P : 8 <= 2 ^ ord < 2 ^ 31).
  { split. change 8 with (2 ^ 3). apply Z.pow_le_mono_r; lia. apply Z.pow_lt_mono_r; lia. }
  rewrite Z.shiftl_1_l. rewrite (s32_small (2 ^ ord)) by lia.
  replace (u64 (u64 (orc cc)) =? 0) with false.
  2:{ symmetry. apply Z.eqb_neq. rewrite !u64_small; try lia. rewrite u64_small; lia. }
  rewrite !(u32_small (2 ^ ord)) by lia.
  rewrite (create_loop2 (Z.to_nat (2 ^ ord))); try lia.
  - simpl create_order. rewrite !(u32_small ord) by lia. rewrite !(u64_small 0) by lia. f_equal. f_equal. f_equal.
    unfold h_create. simpl. rewrite repeat_length. unfold ord. rewrite Nat2Z.inj_pow. reflexivity.
  - unfold ord. rewrite <- (Nat2Z.inj_pow 2). rewrite Nat2Z.id. lia.
Qed.

Lemma src_create_example :
  create_order (qb_hashtable_create 400 100 0 1 2 3 4 5 6 7 8 9 10 0 0 0 0 0 0 0 0 0 0 0 0 0 (fun _ => 4096)) = Some (0, 128, 7).
Proof. vm_compute. reflexivity. Qed.
