(* MapHashSrcEq - source tie for the arithmetic / decision cores of the map models (C17 / C18).
   gen/Src_maphash.v and gen/Src_mapskip.v are regenerated from lib/hashtable.c / lib/skiplist.c by tools/c2coq.py on
   every run; here the hand-written model functions are proved equal to the translated C functions:
     qb_hashtable_create : order = max(bit length of max_size, 3), 2^order buckets, count 0  (= order_of / h_create)
     hashtable_node_deref, skiplist_node_deref : refcount - 1, the node is destroyed iff it reaches 0 (= node_deref)
     hashtable_count_get, skiplist_count_get : the stored count / length
     skiplist_level_generate : the level = number of leading random() answers with (uint16_t)r < P_CEIL, capped at
                               SKIPLIST_LEVEL_MAX (= new_level on the list of answers the call consumed)
   hash_fnv is tied in coq/MapHashFnvSrcEq.v / coq/PropertiesSrcFnv_C17.v (lead). *)
From Coq Require Import ZArith List Bool Lia Arith.
Require Import Verif.C2CoqPrelude Verif.gen.Src_maphash Verif.gen.Src_mapskip Verif.MapSpec Verif.MapHashModel Verif.MapSkipModel Verif.MapHashProofs2.
Local Open Scope Z_scope.

(* ---- node_deref ---- *)
Lemma src_hash_node_deref : forall map node cnt (r : nat) orc, Z.of_nat (S r) < 2 ^ 32 ->
  hashtable_node_deref map node cnt (Z.of_nat (S r)) orc = ((if Nat.eqb r 0 then cnt + 1 else cnt), Z.of_nat r).
Proof.
  intros. unfold hashtable_node_deref.
  replace (Z.of_nat (S r) - 1) with (Z.of_nat r) by lia. rewrite (u32_small (Z.of_nat r)) by lia. rewrite (u32_small 0) by lia.
  destruct r; simpl Nat.eqb.
  - reflexivity.
  - destruct (Z.of_nat (S r) >? 0) eqn:E; auto. rewrite Z.gtb_ltb in E. apply Z.ltb_ge in E. lia.
Qed.

Lemma src_skip_node_deref : forall node list cnt (r : nat) orc, Z.of_nat (S r) < 2 ^ 32 ->
  skiplist_node_deref node list cnt (Z.of_nat (S r)) orc = ((if Nat.eqb r 0 then cnt + 1 else cnt), Z.of_nat r).
Proof.
  intros. unfold skiplist_node_deref.
  replace (Z.of_nat (S r) - 1) with (Z.of_nat r) by lia. rewrite (u32_small (Z.of_nat r)) by lia. rewrite (u32_small 0) by lia.
  destruct r; simpl Nat.eqb.
  - reflexivity.
  - destruct (Z.of_nat (S r) =? 0) eqn:E; auto. apply Z.eqb_eq in E. lia.
Qed.

(* the model agrees: hashtable_node_deref (C) and node_deref (model) take the same decision and leave the same count *)
Theorem src_hash_node_deref_model : forall s id n r map node cnt orc,
  deref (h_heap s) id = Ok n -> hn_ref n = S r -> Z.of_nat (S r) < 2 ^ 32 ->
  exists s' ns, node_deref s id = Ok (s', ns) /\
    if fst (hashtable_node_deref map node cnt (Z.of_nat (hn_ref n)) orc) =? cnt + 1
    then deref (h_heap s') id = Err (UseAfterFree id)          (* destroyed: the cell is freed *)
    else exists n', deref (h_heap s') id = Ok n' /\           (* kept, with the C code's count *)
                    Z.of_nat (hn_ref n') = snd (hashtable_node_deref map node cnt (Z.of_nat (hn_ref n)) orc).
Proof.
  intros. rewrite H0. rewrite src_hash_node_deref by auto. cbn [fst snd].
  assert (Hlt : (id < length (h_heap s))%nat) by (eapply deref_lt; eauto).
  unfold node_deref. rewrite H. simpl. rewrite H0. destruct r; simpl Nat.eqb.
  - rewrite Z.eqb_refl. eexists _, _. split; [reflexivity|]. simpl.
    unfold deref, free_cell, store. rewrite nth_error_upd, Nat.eqb_refl. apply Nat.ltb_lt in Hlt. rewrite Hlt.
    rewrite nth_error_upd, Nat.eqb_refl, upd_length, Hlt. reflexivity.
  - eexists _, _. split; [reflexivity|]. simpl.
    replace (cnt =? cnt + 1) with false by (symmetry; apply Z.eqb_neq; lia). rewrite deref_store by auto. rewrite Nat.eqb_refl.
    eexists. split; [reflexivity|]. reflexivity.
Qed.

(* ---- count / length ---- *)
Lemma src_hash_count_get : forall map c, hashtable_count_get map c = c.
Proof. reflexivity. Qed.
Lemma src_skip_count_get : forall map c, skiplist_count_get map c = c.
Proof. reflexivity. Qed.

(* ---- qb_hashtable_create: order and number of buckets ---- *)
Lemma shiftr1_pos : forall p, Z.shiftr (Zpos p) 1 = match p with xH => 0 | xO q => Zpos q | xI q => Zpos q end.
Proof. intros. rewrite <- Z.div2_spec. destruct p; reflexivity. Qed.

Lemma bitlen_bound : forall p, Zpos p < 2 ^ Z.of_nat (bitlen_pos p).
Proof.
  induction p.
  - change (bitlen_pos p~1) with (S (bitlen_pos p)). rewrite Nat2Z.inj_succ, Z.pow_succ_r by lia. change (Z.pos p~1) with (2 * Z.pos p + 1). lia.
  - change (bitlen_pos p~0) with (S (bitlen_pos p)). rewrite Nat2Z.inj_succ, Z.pow_succ_r by lia. change (Z.pos p~0) with (2 * Z.pos p). lia.
  - reflexivity.
Qed.
Lemma bitlen_pos_ge1 : forall p, (1 <= bitlen_pos p)%nat.
Proof. destruct p; simpl; lia. Qed.
Lemma bitlen_lower : forall p, 2 ^ (Z.of_nat (bitlen_pos p) - 1) <= Zpos p.
Proof.
  induction p.
  - change (bitlen_pos p~1) with (S (bitlen_pos p)). rewrite Nat2Z.inj_succ.
    assert (H : 0 <= Z.of_nat (bitlen_pos p) - 1) by (generalize (bitlen_pos_ge1 p); lia).
    replace (Z.succ (Z.of_nat (bitlen_pos p)) - 1) with (Z.succ (Z.of_nat (bitlen_pos p) - 1)) by lia.
    rewrite Z.pow_succ_r by exact H. change (Z.pos p~1) with (2 * Z.pos p + 1). lia.
  - change (bitlen_pos p~0) with (S (bitlen_pos p)). rewrite Nat2Z.inj_succ.
    assert (H : 0 <= Z.of_nat (bitlen_pos p) - 1) by (generalize (bitlen_pos_ge1 p); lia).
    replace (Z.succ (Z.of_nat (bitlen_pos p)) - 1) with (Z.succ (Z.of_nat (bitlen_pos p) - 1)) by lia.
    rewrite Z.pow_succ_r by exact H. change (Z.pos p~0) with (2 * Z.pos p). lia.
  - simpl. lia.
Qed.

Lemma create_loop1 : forall p fuel i, (bitlen_pos p < fuel)%nat -> 0 <= i -> i + Z.of_nat (bitlen_pos p) < 2 ^ 31 -> Zpos p < 2 ^ 31 ->
  qb_hashtable_create_loop1 fuel i (Zpos p) = Some (i + Z.of_nat (bitlen_pos p), 0).
Proof.
  induction p; intros fuel i Hf Hi Hb Hp; (destruct fuel; [simpl in Hf; lia|]); cbn [qb_hashtable_create_loop1].
  - replace (negb (Z.pos p~1 =? 0)) with true by reflexivity.
    rewrite (s32_small (Z.pos p~1)) by lia. rewrite shiftr1_pos. rewrite (s32_small (Z.pos p)) by lia.
    simpl bitlen_pos in *. rewrite Nat2Z.inj_succ in *. rewrite (s32_small (i + 1)) by lia.
    rewrite IHp; try lia. f_equal. f_equal. lia.
  - replace (negb (Z.pos p~0 =? 0)) with true by reflexivity.
    rewrite (s32_small (Z.pos p~0)) by lia. rewrite shiftr1_pos. rewrite (s32_small (Z.pos p)) by lia.
    simpl bitlen_pos in *. rewrite Nat2Z.inj_succ in *. rewrite (s32_small (i + 1)) by lia.
    rewrite IHp; try lia. f_equal. f_equal. lia.
  - replace (negb (1 =? 0)) with true by reflexivity.
    rewrite (s32_small 1) by lia. rewrite shiftr1_pos. rewrite (s32_small 0) by lia. rewrite (s32_small (i + 1)) by (simpl in Hb; lia).
    destruct fuel; [simpl in Hf; lia|]. cbn [qb_hashtable_create_loop1]. simpl. reflexivity.
Qed.

Lemma create_loop2 : forall k fuel len i, 0 <= i -> len - i = Z.of_nat k -> len < 2 ^ 31 -> (k < fuel)%nat ->
  qb_hashtable_create_loop2 fuel len i = Some len.
Proof.
  induction k; intros fuel len i Hi Hk Hl Hf; (destruct fuel; [lia|]); cbn [qb_hashtable_create_loop2].
  - rewrite (u32_small i) by lia. replace (i <? len) with false by (symmetry; apply Z.ltb_ge; lia). f_equal. lia.
  - rewrite (u32_small i) by lia. replace (i <? len) with true by (symmetry; apply Z.ltb_lt; lia).
    rewrite (s32_small (i + 1)) by lia. apply IHk; lia.
Qed.

Definition create_order (r : option (Z * Z * Z * Z * Z * Z * Z * Z * Z * Z * Z * Z * Z * Z * Z)) : option (Z * Z * Z) :=
  match r with
  | Some (ht, _, count, len, _, _, _, _, _, _, _, _, _, _, order) => Some (count, len, order)
  | None => None
  end.

(* for every max_size the harness / model considers (0 <= max_size < 2^30), every allocator answer that is not NULL,
   enough fuel: the translated qb_hashtable_create sets count = 0, order = order_of max_size, 2^order buckets *)
Theorem src_hashtable_create : forall (m : N) fuel cc f1 f2 f3 f4 f5 f6 f7 f8 f9 f10 a1 a2 a3 a4 a5 a6 a7 a8 a9 a10 a11 a12 a13 orc,
  Z.of_N m < 2 ^ 30 -> 0 < orc cc < 2 ^ 64 -> (2 ^ order_of m + 40 < fuel)%nat ->
  create_order (qb_hashtable_create fuel (Z.of_N m) cc f1 f2 f3 f4 f5 f6 f7 f8 f9 f10 a1 a2 a3 a4 a5 a6 a7 a8 a9 a10 a11 a12 a13 orc) =
  Some (0, Z.of_nat (length (h_buckets (h_create m))), Z.of_nat (order_of m)).
Proof.
  intros m fuel cc f1 f2 f3 f4 f5 f6 f7 f8 f9 f10 a1 a2 a3 a4 a5 a6 a7 a8 a9 a10 a11 a12 a13 orc Hm Ho Hf.
  unfold qb_hashtable_create. rewrite (s32_small (Z.of_N m)) by lia. rewrite (s32_small (Z.of_N m)) by lia. rewrite (s32_small 0) by lia.
  assert (L1 : exists bl, qb_hashtable_create_loop1 fuel 0 (Z.of_N m) = Some (Z.of_nat bl, 0) /\ order_of m = Nat.max bl 3 /\ (bl <= 30)%nat).
  { destruct m as [|p]; simpl Z.of_N.
    - exists O. split. destruct fuel; [lia|]. reflexivity. split; auto. lia.
    - exists (bitlen_pos p). assert (bitlen_pos p <= 30)%nat.
      { generalize (bitlen_lower p). intro. destruct (le_lt_dec (bitlen_pos p) 30); auto.
        assert (2 ^ 30 <= 2 ^ (Z.of_nat (bitlen_pos p) - 1)) by (apply Z.pow_le_mono_r; lia). simpl Z.of_N in Hm. lia. }
      simpl Z.of_N in Hm.
      split. rewrite create_loop1 by lia. reflexivity. split; auto. }
  destruct L1 as [bl [L1 [L2 L3]]]. rewrite L1.
  set (ord := Z.of_nat (order_of m)).
  assert (Hord : (if Z.of_nat bl >? 3 then Z.of_nat bl else 3) = ord).
  { unfold ord. rewrite L2. destruct (Z.of_nat bl >? 3) eqn:E. apply Z.gtb_lt in E. lia. rewrite Z.gtb_ltb in E. apply Z.ltb_ge in E. lia. }
  rewrite Hord. assert (3 <= ord <= 30) by (unfold ord; lia).
  rewrite (s32_small ord) by lia.
  assert (P : 8 <= 2 ^ ord < 2 ^ 31).
  { split. change 8 with (2 ^ 3). apply Z.pow_le_mono_r; lia. apply Z.pow_lt_mono_r; lia. }
  rewrite Z.shiftl_1_l. rewrite (s32_small (2 ^ ord)) by lia.
  replace (u64 (u64 (orc cc)) =? 0) with false.
  2:{ symmetry. apply Z.eqb_neq. rewrite !u64_small; try lia. rewrite u64_small; lia. }
  rewrite !(u32_small (2 ^ ord)) by lia.
  rewrite (create_loop2 (Z.to_nat (2 ^ ord))); try lia.
  - simpl create_order. rewrite !(u32_small ord) by lia. rewrite !(u64_small 0) by lia. f_equal. f_equal. f_equal.
    unfold h_create. simpl. rewrite repeat_length. unfold ord. rewrite Nat2Z.inj_pow. reflexivity.
  - unfold ord. rewrite <- (Nat2Z.inj_pow 2). rewrite Nat2Z.id. lia.
Qed.

Lemma src_create_example :
  create_order (qb_hashtable_create 400 100 0 1 2 3 4 5 6 7 8 9 10 0 0 0 0 0 0 0 0 0 0 0 0 0 (fun _ => 4096)) = Some (0, 128, 7).
Proof. vm_compute. reflexivity. Qed.

(* ---- skiplist_level_generate ---- *)
Import ListNotations.
Local Open Scope Z_scope.
Definition lvl_cond (r : Z) : bool := Z.ltb (r mod 65536) P_CEIL.

Lemma lvl_cond_src : forall r, 0 <= r < 2 ^ 63 -> (s32 (u16 (s64 r)) <? 16383) = lvl_cond r.
Proof.
  intros. rewrite s64_small by lia. unfold u16, uwrap. change (2 ^ 16) with 65536.
  assert (0 <= r mod 65536 < 65536) by (apply Z.mod_pos_bound; lia). rewrite s32_small by lia. reflexivity.
Qed.

Lemma s8_small' : forall x, -128 <= x < 128 -> s8 x = x.
Proof. intros. unfold s8, swrap. change (2 ^ (8 - 1)) with 128. change (2 ^ 8) with 256. rewrite Z.mod_small; lia. Qed.

(* the loop: [good] answers pass the test, [bad] fails it; the stream orc serves them from position cnt on *)
Lemma level_loop : forall good bad fuel orc cnt level,
  (forall i, (i < length good)%nat -> orc (cnt + Z.of_nat i) = nth i good 0) -> orc (cnt + Z.of_nat (length good)) = bad ->
  Forall (fun r => 0 <= r < 2 ^ 63 /\ lvl_cond r = true) good -> 0 <= bad < 2 ^ 63 -> lvl_cond bad = false ->
  0 <= level -> level + Z.of_nat (length good) < 128 -> (length good < fuel)%nat ->
  skiplist_level_generate_loop1 fuel orc cnt level = Some (cnt + Z.of_nat (length good) + 1, level + Z.of_nat (length good)).
Proof.
  induction good; intros bad fuel orc cnt level OG OB FG BR BC L0 L1 HF; (destruct fuel; [simpl in HF; lia|]); cbn [skiplist_level_generate_loop1].
  - simpl in OB. rewrite Z.add_0_r in OB. rewrite OB. rewrite lvl_cond_src by auto. rewrite BC. simpl. f_equal. f_equal; lia.
  - generalize (OG 0%nat). simpl. rewrite Z.add_0_r. intro O0. rewrite O0 by lia.
    assert (A := Forall_inv FG). assert (FG' := Forall_inv_tail FG). destruct A as [A1 A2]. rewrite lvl_cond_src by auto. rewrite A2.
    rewrite s8_small' by (simpl in L1; lia).
    rewrite (IHgood bad fuel orc (cnt + 1) (level + 1)); auto.
    + f_equal. f_equal; simpl length; lia.
    + intros i Hi. generalize (OG (S i)). simpl. intro Q. rewrite <- Q by lia. f_equal. lia.
    + rewrite <- OB. f_equal. simpl length. lia.
    + lia.
    + simpl in L1. lia.
    + simpl in HF. lia.
Qed.

Lemma level_generate_app : forall good bad acc, Forall (fun r => lvl_cond r = true) good -> lvl_cond bad = false ->
  level_generate (good ++ [bad]) acc = (acc + length good)%nat.
Proof.
  induction good; simpl; intros.
  - unfold lvl_cond in H0. rewrite H0. lia.
  - inversion H; subst. unfold lvl_cond in H3. rewrite H3. rewrite IHgood; auto. lia.
Qed.

(* translated skiplist_level_generate = the model's new_level on the answers the call consumed *)
Theorem src_skiplist_level_generate : forall good bad fuel orc cnt,
  (forall i, (i < length good)%nat -> orc (cnt + Z.of_nat i) = nth i good 0) -> orc (cnt + Z.of_nat (length good)) = bad ->
  Forall (fun r => 0 <= r < 2 ^ 63 /\ lvl_cond r = true) good -> 0 <= bad < 2 ^ 63 -> lvl_cond bad = false ->
  (length good < 128)%nat -> (length good < fuel)%nat ->
  skiplist_level_generate fuel cnt orc = Some (Z.of_nat (new_level (good ++ [bad])), cnt + Z.of_nat (length (good ++ [bad]))).
Proof.
  intros. unfold skiplist_level_generate. rewrite (s8_small' 0) by lia. rewrite (s8_small' 0) by lia.
  rewrite (level_loop good bad fuel orc cnt 0); auto; try lia. simpl Z.add.
  unfold new_level. rewrite level_generate_app; auto.
  2:{ eapply Forall_impl. 2: exact H1. simpl. intros a [_ Q]. exact Q. }
  simpl plus. rewrite app_length. simpl length.
  rewrite s32_small by lia. destruct (Z.of_nat (length good) <? 8) eqn:E.
  - apply Z.ltb_lt in E. rewrite Nat.min_l by (unfold LEVEL_MAX; lia). f_equal. f_equal. lia.
  - apply Z.ltb_ge in E. rewrite Nat.min_r by (unfold LEVEL_MAX; lia). rewrite s8_small' by lia. f_equal. f_equal. lia.
Qed.

Lemma src_level_example :
  skiplist_level_generate 10 0 (fun k => if k <? 3 then 5 else 65535) = Some (3, 4).
Proof. vm_compute. reflexivity. Qed.
