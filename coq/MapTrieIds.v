(* C17 / C18 trie part: node ids (what a raw pointer denotes in the model) are unique in every reachable tree, so
   find_t returns exactly the node an iterator was positioned on. *)
From Coq Require Import List ZArith Bool Arith Lia.
Import ListNotations.
Require Import Verif.gen.Consts_trie Verif.MapTrieModel Verif.MapTrieProofs Verif.MapTrieProofs2 Verif.MapTrieIter.

(* number of nodes carrying id *)
Fixpoint cnt_t (n : tnode) (id : nat) {struct n} : nat :=
  match n with TN i _ f => (if n_id i =? id then 1 else 0) + cnt_f f id end
with cnt_f (f : forest) (id : nat) {struct f} : nat :=
  match f with
  | FNil => 0
  | FCons c f' => match c with Some t => cnt_t t id | None => 0 end + cnt_f f' id
  end.

Definition cnt_o (c : option tnode) (id : nat) : nat := match c with Some t => cnt_t t id | None => 0 end.

Lemma cnt_fset : forall f j x id, j < flen f ->
  cnt_f (fset f j x) id + cnt_o (fget f j) id = cnt_f f id + cnt_o x id.
Proof.
  induction f; simpl; intros; [lia|]. destruct j; simpl.
  - unfold cnt_o. destruct o, x; lia.
  - assert (j < flen f) by lia. specialize (IHf j x id H0). unfold cnt_o in *. destruct o; lia.
Qed.

Lemma cnt_fnones : forall k id, cnt_f (fnones k) id = 0.
Proof. induction k; simpl; auto. Qed.

Lemma cnt_fapp : forall f g id, cnt_f (fapp f g) id = cnt_f f id + cnt_f g id.
Proof. induction f; simpl; intros; auto. rewrite IHf. lia. Qed.

Lemma cnt_new_child : forall f idx c id, fget f idx = None ->
  cnt_f (new_child f idx c) id = cnt_f f id + cnt_t c id.
Proof.
  intros. unfold new_child.
  set (f' := if flen f <=? idx then fapp f (fnones (Nat.max (idx + 1) 30 - flen f)) else f).
  assert (L : idx < flen f').
  { unfold f'. destruct (flen f <=? idx) eqn:E.
    - apply Nat.leb_le in E. rewrite flen_fapp, flen_fnones. lia.
    - apply Nat.leb_gt in E. lia. }
  assert (G : fget f' idx = None).
  { unfold f'. destruct (flen f <=? idx); auto. rewrite fget_fapp_nones. auto. }
  assert (C : cnt_f f' id = cnt_f f id).
  { unfold f'. destruct (flen f <=? idx); auto. rewrite cnt_fapp, cnt_fnones. lia. }
  pose proof (cnt_fset f' idx (Some c) id L) as X. rewrite G in X. simpl in X. lia.
Qed.

Lemma cnt_get : forall p n tn, get_at n p = Some tn -> 1 <= cnt_t n (n_id (t_info tn)).
Proof.
  induction p; intros n tn G; simpl in G.
  - inversion G; subst. destruct tn. simpl. rewrite Nat.eqb_refl. lia.
  - destruct n as [i s f]. simpl in *. destruct (fget f a) as [c|] eqn:F; [|discriminate].
    specialize (IHp c tn G). pose proof (fget_some_lt _ _ _ F) as L.
    pose proof (cnt_fset f a None (n_id (t_info tn)) L) as X. rewrite F in X. simpl in X. lia.
Qed.

Lemma find_none : (forall t id, cnt_t t id = 0 -> find_t t id = None) /\
                  (forall f id, cnt_f f id = 0 -> find_f f id = None).
Proof.
  apply tnode_forest_ind.
  - intros i s f IH id H. simpl in *. destruct (n_id i =? id); [lia|]. apply IH. lia.
  - reflexivity.
  - intros f IH id H. simpl in *. rewrite IH by lia. reflexivity.
  - intros t f IHt IHf id H. simpl in *. rewrite IHt by lia. rewrite IHf by lia. reflexivity.
Qed.

Lemma find_f_unique : forall f j c id p, (forall x, cnt_f f x <= 1) -> fget f j = Some c -> 1 <= cnt_t c id ->
  find_t c id = Some p -> find_f f id = Some (j :: p).
Proof.
  induction f; intros j c id p U G C F; simpl in G; [discriminate|].
  destruct j.
  - subst o. simpl. rewrite F. reflexivity.
  - simpl. assert (Hf : forall x, cnt_f f x <= 1).
    { intro x. specialize (U x). simpl in U. lia. }
    pose proof (IHf j c id p Hf G C F) as R.
    assert (Z : cnt_o o id = 0).
    { specialize (U id). simpl in U. pose proof (fget_some_lt _ _ _ G) as L.
      pose proof (cnt_fset f j None id L) as X. rewrite G in X. simpl in X. unfold cnt_o. destruct o; lia. }
    destruct o as [t|].
    + rewrite (proj1 find_none t id Z). rewrite R. reflexivity.
    + rewrite R. reflexivity.
Qed.

Lemma find_unique : forall p n tn, (forall x, cnt_t n x <= 1) -> get_at n p = Some tn ->
  find_t n (n_id (t_info tn)) = Some p.
Proof.
  induction p; intros n tn U G; simpl in G.
  - inversion G; subst. destruct tn. simpl. rewrite Nat.eqb_refl. reflexivity.
  - destruct n as [i s f]. simpl in *. destruct (fget f a) as [c|] eqn:F; [|discriminate].
    pose proof (cnt_get _ _ _ G) as C1. pose proof (fget_some_lt _ _ _ F) as L.
    set (id := n_id (t_info tn)) in *.
    pose proof (cnt_fset f a None id L) as X. rewrite F in X. simpl in X.
    pose proof (U id) as Ui. simpl in Ui.
    destruct (n_id i =? id) eqn:E; [lia|].
    assert (Uc : forall x, cnt_t c x <= 1).
    { intro x. pose proof (U x) as Ux. simpl in Ux. pose proof (cnt_fset f a None x L) as Y. rewrite F in Y. simpl in Y. lia. }
    apply find_f_unique with (c := c); auto.
    + intro x. specialize (U x). simpl in U. lia.
    + apply IHp; auto.
Qed.

(* ---------- trie_insert hands out each fresh id exactly once ---------- *)
Definition ind (a b id : nat) : nat := if (a <=? id) && (id <? b) then 1 else 0.

Ltac indt := unfold ind in *; repeat match goal with
  | |- context [?a <=? ?b] => destruct (Nat.leb_spec a b)
  | |- context [?a <? ?b] => destruct (Nat.ltb_spec a b)
  | |- context [?a =? ?b] => destruct (Nat.eqb_spec a b)
  | H : context [?a <=? ?b] |- _ => destruct (Nat.leb_spec a b)
  | H : context [?a <? ?b] |- _ => destruct (Nat.ltb_spec a b)
  | H : context [?a =? ?b] |- _ => destruct (Nat.eqb_spec a b)
  end; cbn [andb] in *; try lia.

Lemma cnt_leaf : forall i s id, cnt_t (TN i s FNil) id = if n_id i =? id then 1 else 0.
Proof. intros. simpl. lia. Qed.

Lemma ins_cnt : forall fx sz n, size_t n <= sz -> forall k hdr nid n' p nid',
  all_t wfi n -> ins_t fx n k hdr nid = (n', p, nid') ->
  nid <= nid' /\ forall id, cnt_t n' id = cnt_t n id + ind nid nid' id.
Proof.
  intro fx. induction sz; intros n Hsz k hdr nid n' p nid' Hwf H.
  { destruct n; simpl in Hsz; lia. }
  destruct n as [i seg f]. cbn [ins_t] in H.
  cbn [all_t] in Hwf. destruct Hwf as [[Hv [Hkn Hseg]] Hf].
  assert (SPLIT : forall (m : list byte) (s : byte) (rest : list byte) jx x, seg = m ++ s :: rest -> jx <> c2i s ->
            forall id, cnt_t x id = (if S nid =? id then 1 else 0) ->
            cnt_t (match split fx i seg f (length m) nid with
                   | TN i1 s1 f1 => TN i1 s1 (new_child f1 jx x) end) id
            = cnt_t (TN i seg f) id + ind nid (S (S nid)) id).
  { intros m s rest jx x E Hj id Hx. subst seg. unfold split.
    destruct (split_parts m s rest) as [A [B C]]. rewrite A, B, C.
    cbn [cnt_t]. rewrite cnt_new_child.
    2:{ rewrite new_child_other by auto. reflexivity. }
    rewrite cnt_new_child by reflexivity. cbn [cnt_t cnt_f]. rewrite Hx.
    destruct (f_split fx); cbn [n_id fresh_info set_id]; indt. }
  unfold key, byte in *.
  destruct (strip seg k 0) eqn:St.
  - apply strip_keyend in St. destruct St as [rest [S1 S2]]. simpl in S2. subst sc.
    match type of H with context [if ?b then _ else _] => destruct b eqn:E end.
    + destruct rest as [|r rest].
      { rewrite app_nil_r in S1. subst seg. apply Nat.ltb_lt in E. apply Nat.lt_irrefl in E. contradiction. }
      assert (Hr : r <> 0). { subst seg. apply Forall_app_r in Hseg. inversion Hseg; auto. }
      pose proof (SPLIT k r rest (c2i 0) (TN (fresh_info (S nid)) [] FNil) S1) as X.
      unfold split in X, H. cbv iota beta in X. inversion H; subst n' p nid'; clear H.
      split; [lia|]. intros id. apply X; [intro Y; apply c2i_inj in Y; congruence | cbn [cnt_t cnt_f n_id fresh_info]; lia].
    + inversion H; subst; clear H. split; [lia|]. intros. indt.
  - apply strip_mismatch in St. destruct St as [m [s [rest [S1 [S2 [S3 S4]]]]]]. simpl in S4. subst sc.
    pose proof (SPLIT m s rest (c2i c) (TN (fresh_info (S nid)) k' FNil) S2) as X.
    unfold split in X, H. cbv iota beta in X. inversion H; subst n' p nid'; clear H.
    split; [lia|]. intros id. apply X; [intro Y; apply c2i_inj in Y; congruence | cbn [cnt_t cnt_f n_id fresh_info]; lia].
  - rewrite ins_f_fget in H.
    destruct (fget f (c2i c)) as [t|] eqn:G.
    + destruct (ins_t fx t k' false nid) as [[t' p0] nid0] eqn:I.
      inversion H; subst n' p nid'; clear H.
      assert (Hst : size_t t <= sz). { apply size_fget in G. simpl in Hsz. lia. }
      destruct (IHsz t Hst k' false nid t' p0 nid0 (all_f_fget _ _ _ _ Hf G) I) as [IH1 IH2].
      split; auto. intros id. cbn [cnt_t].
      pose proof (fget_some_lt _ _ _ G) as L.
      pose proof (cnt_fset f (c2i c) (Some t') id L) as X. rewrite G in X. simpl in X.
      specialize (IH2 id). lia.
    + assert (NEW : forall nid0 id,
                cnt_t (TN i seg (new_child f (c2i c) (TN (fresh_info nid0) k' FNil))) id
                = cnt_t (TN i seg f) id + ind nid0 (S nid0) id).
      { intros. cbn [cnt_t]. rewrite cnt_new_child by auto. simpl. indt. }
      destruct hdr.
      * inversion H; subst; clear H. split; [lia|]. apply NEW.
      * destruct (n_val i) eqn:V; simpl in H.
        { inversion H; subst; clear H. split; [lia|]. apply NEW. }
        destruct (n_nots i) eqn:N; simpl in H.
        2:{ inversion H; subst; clear H. split; [lia|]. apply NEW. }
        destruct (flen f =? 0) eqn:FL.
        2:{ inversion H; subst; clear H. split; [lia|]. apply NEW. }
        inversion H; subst n' p nid'; clear H. split; [lia|]. intros. simpl. indt.
Qed.

Lemma upd_cnt : forall p n g id, (forall i, n_id (g i) = n_id i) -> cnt_t (upd_t n p g) id = cnt_t n id.
Proof.
  induction p; intros n g id Hg; destruct n as [i s f]; cbn [upd_t cnt_t].
  - rewrite Hg. reflexivity.
  - f_equal. rewrite upd_f_fget. destruct (fget f a) as [t|] eqn:G; auto.
    pose proof (fget_some_lt _ _ _ G) as L.
    pose proof (cnt_fset f a (Some (upd_t t p g)) id L) as X. rewrite G in X. simpl in X.
    rewrite IHp in X by auto. lia.
Qed.

Lemma upd_root_id : forall p n g, (forall i, n_id (g i) = n_id i) -> n_id (t_info (upd_t n p g)) = n_id (t_info n).
Proof. intros. destruct n, p; simpl; auto. Qed.

Lemma rel_cnt : forall p n hdr,
  match rel_t n p hdr with
  | Some n' => (forall id, cnt_t n' id <= cnt_t n id) /\ n_id (t_info n') = n_id (t_info n)
  | None => True
  end.
Proof.
  induction p; intros n hdr; destruct n as [i s f]; cbn [rel_t].
  - destruct (releasable i f hdr); auto.
  - rewrite rel_f_fget. destruct (fget f a) as [t|] eqn:G; [|auto].
    pose proof (fget_some_lt _ _ _ G) as L. specialize (IHp t false).
    destruct (rel_t t p false) as [t'|].
    + destruct IHp as [I1 I2]. split; auto. intro id. cbn [cnt_t].
      pose proof (cnt_fset f a (Some t') id L) as X. rewrite G in X. simpl in X. specialize (I1 id). lia.
    + assert (C : forall id, cnt_t (TN i s (fset f a None)) id <= cnt_t (TN i s f) id).
      { intro id. cbn [cnt_t]. pose proof (cnt_fset f a None id L) as X. rewrite G in X. simpl in X. lia. }
      destruct (releasable i (fset f a None) hdr); auto.
Qed.

(* ids of a map state: unique, below the allocation counter, header = 0 *)
Record ids_ok (t : trie) : Prop := {
  ids_uniq : forall id, cnt_t (t_root t) id <= 1;
  ids_below : forall id, t_next t <= id -> cnt_t (t_root t) id = 0;
  ids_hdr : n_id (t_info (t_root t)) = 0;
  ids_next : 1 <= t_next t
}.

Lemma ids_init : ids_ok trie_init.
Proof. constructor; simpl; intros; auto. - destruct id; simpl; lia. - destruct id; simpl; lia. Qed.

(* a tree obtained by inserting (fresh ids from the counter), updating infos (ids kept) and releasing nodes *)
Lemma ids_ins : forall fx t k hdr r1 p nid, ids_ok t -> all_t wfi (t_root t) ->
  ins_t fx (t_root t) k hdr (t_next t) = (r1, p, nid) -> t_seg (t_root t) = [] -> k <> [] -> hdr = true ->
  ids_ok {| t_root := r1; t_len := t_len t; t_next := nid; t_iters := t_iters t |}.
Proof.
  intros fx t k hdr r1 p nid [U B H N] W I Hs Hk Hh.
  destruct (ins_cnt fx _ _ (le_n _) _ _ _ _ _ _ W I) as [L C].
  constructor; simpl.
  - intro id. rewrite C. specialize (U id). unfold ind.
    destruct (Nat.leb_spec (t_next t) id); simpl; [rewrite B by auto; destruct (id <? nid); lia | lia].
  - intros id Hid. rewrite C. rewrite B by lia. unfold ind.
    destruct (Nat.leb_spec (t_next t) id); simpl; [|lia]. destruct (Nat.ltb_spec id nid); lia.
  - subst hdr. destruct (t_root t) as [i0 s0 f0]. simpl in Hs. subst s0. cbn [ins_t] in I.
    destruct k; [congruence|]. simpl in I.
    destruct (ins_f fx f0 (c2i b) k (t_next t)) as [[[f' p0] nid0]|]; inversion I; subst; exact H.
  - lia.
Qed.
