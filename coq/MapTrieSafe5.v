(* C18 trie part, safety (5): trie_iter_next of any open iterator (no prefix), at any position, in any state. *)
From Coq Require Import List ZArith Bool Arith Lia.
Import ListNotations.
Require Import Verif.gen.Consts_trie Verif.MapTrieModel Verif.MapTrieSpec Verif.MapTrieProofs Verif.MapTrieProofs2
               Verif.MapTrieIter Verif.MapTrieIds Verif.MapTrieIter3 Verif.MapTrieIter4 Verif.MapTrieIter6
               Verif.MapTrieSafe1 Verif.MapTrieSafe2 Verif.MapTrieSafe3 Verif.MapTrieSafe4 Verif.MapTrieView.

Lemma get_at_upd_other : forall p q n g tn, p <> q -> get_at n q = Some tn ->
  exists tn', get_at (upd_t n p g) q = Some tn' /\ t_info tn' = t_info tn.
Proof.
  intros p q n g tn H G. pose proof (info_at_upd_other p q n g H) as I. unfold info_at in I. rewrite G in I.
  destruct (get_at (upd_t n p g) q) as [tn'|]; [|discriminate]. inversion I. eauto.
Qed.

(* a node with a key, elsewhere, is still there (same path, same info) after a deref of the node at p *)
Lemma deref_keeps : forall r p q tn, get_at r q = Some tn -> n_key (t_info tn) <> None -> p <> q ->
  exists tn', get_at (fst (node_deref r p)) q = Some tn' /\ t_info tn' = t_info tn.
Proof.
  intros r p q tn G K Hne. unfold node_deref. destruct (get_at r p) as [[i sg fc]|] eqn:Gp; [|eauto].
  destruct (alive_i i); [|eauto].
  destruct (get_at_upd_other p q r (fun i0 => set_rc (n_rc i0 - 1) i0) tn Hne G) as [tn1 [G1 T1]].
  destruct (0 <? n_rc i - 1); simpl; [eauto|].
  unfold node_destroy. rewrite (get_at_upd _ _ _ _ _ _ Gp). cbn [set_rc n_val].
  destruct (n_val i); simpl; [|eauto].
  match goal with |- context [release ?x p] => set (r2 := x) end.
  destruct (get_at_upd_other p q _ (fun i0 => set_removed false (set_kv None None i0)) tn1 Hne G1) as [tn2 [G2 T2]].
  fold r2 in G2. unfold release.
  pose proof (rel_survive p r2 true q tn2 G2) as SV. rewrite T2, T1 in SV. specialize (SV K).
  destruct (rel_t r2 p true) as [r3|]; [|contradiction]. destruct SV as [tn3 [G3 T3]]. exists tn3. split; [exact G3|congruence].
Qed.

Lemma parked_set_same : forall its h it id, iters_get its h = Some it -> parked (iters_set its h it) id = parked its id.
Proof. intros. unfold iters_set. rewrite parked_cons. pose proof (parked_del _ _ _ id H). lia. Qed.

Lemma on_id_none : forall id h it, it_n it = None -> on_id id (h, it) = false.
Proof. intros. unfold on_id. simpl. rewrite H. reflexivity. Qed.

Lemma saf_iter_next : forall t h it, SafT t -> iters_get (t_iters t) h = Some it ->
  exists r it' kv evs, iter_next FX_ALL (t_root t) it = Ok (r, it', kv, evs) /\
                       Saf r (iters_set (t_iters t) h it') (t_next t) /\
                       forall q, dview (obs_t r q) = dview (obs_t (t_root t) q).
Proof.
  intros t h it HS G. unfold SafT in HS. pose proof (get_in _ _ _ G) as Hin.
  destruct (sf_plain _ _ _ HS _ _ Hin) as [PN PR].
  set (r := t_root t) in *. set (its := t_iters t) in *. set (next := t_next t) in *.
  set (mid := iters_del its h).
  destruct (del_nodup its h (sf_handles _ _ _ HS)) as [NDm NIm].
  assert (PLm : forall h' it', In (h', it') mid -> it_prefix it' = None /\ it_root it' = 0).
  { intros. apply del_in in H. eapply (sf_plain _ _ _ HS); eauto. }
  assert (WKm : Saf r mid next).
  { apply saf_weaken with (its := its); auto. intros id _. pose proof (parked_del _ _ _ id G). fold mid in H. lia. }
  assert (SETP : forall it', it_prefix it' = None -> it_root it' = 0 ->
            (forall h' it0, In (h', it0) (iters_set its h it') -> it_prefix it0 = None /\ it_root it0 = 0) /\
            NoDup (map fst (iters_set its h it'))).
  { intros it' A B. split.
    - apply set_plain; [apply (sf_plain _ _ _ HS)|split; auto].
    - apply set_nodup. apply (sf_handles _ _ _ HS). }
  destruct (sf_ids _ _ _ HS) as [U [_ [H0 _]]].
  assert (FR : find_t r 0 = Some []) by (pose proof (find_root r) as X; rewrite H0 in X; exact X).
  unfold iter_next. destruct (it_n it) as [pid|] eqn:N.
  2:{ exists r, it, None, []. split; auto. split; [|reflexivity]. destruct (SETP it PN PR) as [A B].
      apply saf_weaken with (its := its); auto. intros id _. rewrite parked_set_same; auto. }
  (* the node the iterator stands on *)
  assert (FP : exists pp tnp, find_t r pid = Some pp /\ get_at r pp = Some tnp /\ n_id (t_info tnp) = pid /\
                              (pid = 0 <-> pp = [])).
  { destruct (Nat.eq_dec pid 0) as [e|e].
    - subst pid. exists [], r. repeat split; auto.
    - assert (P1 : 1 <= parked its pid).
      { pose proof (parked_del _ _ _ pid G) as X. unfold on_id in X. simpl in X. rewrite N, Nat.eqb_refl in X. lia. }
      destruct (find_some _ _ U (sf_ex _ _ _ HS pid P1 e)) as [pp [tn [F [Gp Ei]]]].
      exists pp, tn. repeat split; auto; try congruence.
      intro Z. subst pp. simpl in Gp. inversion Gp; subst tn. congruence. }
  destruct FP as [pp [tnp [F [Gp [Eip Z0]]]]]. rewrite F.
  replace (match pp with [] => match it_prefix it with Some _ => true | None => false end | _ :: _ => false end) with false
    by (rewrite PN; destruct pp; reflexivity).
  unfold node_next. rewrite F, PR, FR. cbn [strip_prefix get_at].
  (* leaving pp: the tree after the deref, under the table without h *)
  assert (LEAVE : forall r1 tnp1, Saf r1 mid next -> get_at r1 pp = Some tnp1 -> t_info tnp1 = t_info tnp ->
            Saf (fst (node_deref r1 pp)) mid next /\
            forall q, dview (obs_t (fst (node_deref r1 pp)) q) = dview (obs_t r1 q)).
  { intros r1 tnp1 S1 G1 T1. destruct (Nat.eq_dec pid 0) as [e|e].
    - apply Z0 in e. subst pp. unfold node_deref. simpl in *. inversion G1; subst tnp1.
      destruct r1 as [i1 s1 f1]. simpl in *. pose proof (sf_hval _ _ _ S1) as HV. simpl in HV.
      unfold alive_i. rewrite HV. split; [exact S1|reflexivity].
    - assert (Hpp : pp <> []) by (intro X; apply Z0 in X; contradiction).
      destruct (pa_real _ _ _ _ _ HS Gp Hpp) as [PAi _]. rewrite Eip in PAi.
      pose proof (all_get_at _ _ _ _ (sf_wf _ _ _ HS) Gp) as [Wa _].
      pose proof (parked_del _ _ _ pid G) as X. unfold on_id in X. simpl in X. rewrite N, Nat.eqb_refl in X. fold mid in X.
      split.
      + apply saf_deref with (tn := tnp1); auto.
        * rewrite T1. intro V. destruct (Wa V) as [_ [R0 _]]. lia.
        * rewrite T1, Eip. lia.
      + intro q. apply deref_view with (tn := tnp1); auto; [apply (sf_wf _ _ _ S1)|]. rewrite T1. intro R1. lia. }
  pose proof (proj1 next_spec r pp) as NS.
  destruct (next_t r pp) as [pn|].
  - (* there is a next node *)
    destruct NS as [Hpn [tnn [Gn [An En]]]]. cbn [app].
    assert (Hne : pn <> pp). { intro X. subst pn. apply (after_cons_ne _ _ En). }
    unfold id_at. rewrite Gn. set (nid := n_id (t_info tnn)).
    rewrite node_ref_eq by auto.
    destruct tnn as [inn sgn fcn]. simpl in nid.
    destruct (pa_real _ _ _ _ _ HS Gn Hpn) as [PAn Nn]. simpl in PAn, Nn.
    pose proof (all_get_at _ _ _ _ (sf_wf _ _ _ HS) Gn) as Wn. simpl in Wn. destruct Wn as [Wna [Wnb Wnc]].
    assert (Vn : n_val inn <> None).
    { unfold alive, present_i, alive_i in An. simpl in An. destruct (n_val inn); [congruence|discriminate]. }
    assert (S1 : Saf (upd_t r pn inc) its next).
    { apply saf_upd with (tn := TN inn sgn fcn); auto.
      - unfold wfi, inc, set_rc. simpl. repeat split; auto; try tauto; try (intro V; contradiction).
      - right. cbn [t_info]. assert (PE : pres (inc inn) = pres inn) by reflexivity. rewrite PE. unfold inc, set_rc. simpl. lia. }
    assert (S1m : Saf (upd_t r pn inc) mid next).
    { apply saf_weaken with (its := its); auto. intros id _. pose proof (parked_del _ _ _ id G). fold mid in H. lia. }
    destruct (get_at_upd_other pn pp r inc tnp Hne Gp) as [tnp1 [Gp1 Tp1]].
    pose proof (LEAVE _ _ S1m Gp1 Tp1) as [S2 VW2].
    assert (Kn : n_key (t_info (TN (inc inn) sgn fcn)) <> None).
    { simpl. intro K. apply Vn. apply Wnb. exact K. }
    destruct (deref_keeps (upd_t r pn inc) pp pn (TN (inc inn) sgn fcn) (get_at_upd _ _ inc _ _ _ Gn) Kn (not_eq_sym Hne))
      as [tn2 [G2 T2]].
    destruct (node_deref (upd_t r pn inc) pp) as [r2 evs] eqn:ND. simpl in S2, G2, VW2.
    destruct (sf_ids _ _ _ S2) as [U2 _].
    pose proof (find_unique _ _ _ U2 G2) as F2. rewrite T2 in F2. simpl in F2. fold nid in F2. rewrite F2, G2.
    eexists r2, _, _, evs. split; [reflexivity|]. split.
    2:{ intro q. rewrite VW2. apply view_upd. intros. split; reflexivity. }
    destruct (SETP {| it_prefix := it_prefix it; it_n := Some nid; it_root := 0 |} PN eq_refl) as [A B].
    apply saf_arrive with (its := mid) (nid := nid) (pn := pn) (tn := tn2); auto.
    + rewrite T2. reflexivity.
    + rewrite T2. cbn [t_info]. assert (PE : pres (inc inn) = pres inn) by reflexivity. rewrite PE. unfold inc, set_rc. simpl.
      pose proof (parked_del _ _ _ nid G) as X. fold mid in X. unfold nid in *. destruct (on_id (n_id inn) (h, it)); lia.
    + intros id Hid. unfold iters_set. rewrite parked_cons. unfold on_id. simpl.
      replace (nid =? id) with false by (symmetry; apply Nat.eqb_neq; congruence). fold mid. lia.
    + unfold iters_set. rewrite parked_cons. fold mid. destruct (on_id nid _); lia.
  - (* the end: the iterator lets go of pp *)
    pose proof (LEAVE r tnp WKm Gp eq_refl) as [S2 VW2].
    destruct (node_deref r pp) as [r1 evs]. simpl in S2, VW2.
    eexists r1, _, _, evs. split; [reflexivity|]. split; [|exact VW2].
    destruct (SETP {| it_prefix := it_prefix it; it_n := None; it_root := 0 |} PN eq_refl) as [A B].
    apply saf_weaken with (its := mid); auto;
      try (intros id _; unfold iters_set; rewrite parked_cons, on_id_none by reflexivity; fold mid; lia).
Qed.
