(* C13 - source-tie obligations.  gen/Src_logfmt.v is regenerated from lib/log_format.c by tools/c2coq.py on every
   run.  Only qb_log_priority2str (the entry of prioritynames[] that %p prints: priorities above LOG_TRACE print as
   "trace") is inside the translator's subset; _strcpy_cutoff and the formatting loops are not (reasons in
   coq/LogFmtSrcEq.v) and stay tied by the correspondence run.  Statements only, closed by `exact'. *)
From Coq Require Import ZArith List Bool.
Import ListNotations.
Require Import Verif.gen.Consts_logfmt Verif.gen.Src_logfmt Verif.C2CoqPrelude Verif.LogFmtModel Verif.LogFmtSrcEq.
Local Open Scope Z_scope.

Theorem C13_src_priority2str : forall p names, 0 <= p < 256 ->
  qb_log_priority2str p names = names (Z.min p LF_PRIO_TRACE).
Proof. exact src_priority2str. Qed.
Print Assumptions C13_src_priority2str.

Example C13_src_priority2str_example :
  qb_log_priority2str 200 (fun i => i) = 8 /\ qb_log_priority2str 3 (fun i => i) = 3.
Proof. vm_compute. split; reflexivity. Qed.
