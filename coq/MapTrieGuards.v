(* C18 trie part: executable guards of the known findings (extracted; evaluated by ocaml/C17T_driver.ml before
   every operation of a script).  No proofs.  guard_split (parked node split) is in MapTrieModel.v. *)
From Coq Require Import List ZArith Bool Arith.
Import ListNotations.
Require Import Verif.MapTrieModel.

(* an open prefix iterator that has fixed its root node (first iter_next done, end not reached) has root id *)
Definition root_of (its : list (nat * iter)) (id : nat) : bool :=
  existsb (fun hi => match it_prefix (snd hi), it_n (snd hi) with
                     | Some _, Some n => negb (n =? 0) && (it_root (snd hi) =? id)
                     | _, _ => false
                     end) its.

(* true = the operation does not split the root node of an open prefix iterator
   (finding C18-trie-split-prefix-root: the upper part kept by the iterator then stands for a shorter string,
   and the iterator returns keys that lack the prefix) *)
Definition guard_split_root (t : trie) (o : op) : bool :=
  match (match o with OPut k _ => Some k | ONotifyAdd (Some k) _ _ _ => Some k | _ => None end) with
  | Some k => match spl_t (t_root t) k with Some id => negb (root_of (t_iters t) id) | None => true end
  | None => true
  end.
