(* C15 source tie: model functions = Gallina text regenerated from lib/ringbuffer.c by tools/c2coq.py on every run.
   Statements only.  (qb_rb_create_from_file and qb_log_blackbox_print_from_file are outside the translator's subset:
   struct-typed locals, pointer cursor into a malloc'ed buffer - see BbFileSrcEq.v; they stay tied by correspondence.) *)
From Coq Require Import ZArith List Bool.
Require Import Verif.gen.Consts_rb Verif.gen.Consts_bbfile Verif.C2CoqPrelude Verif.gen.Src_rb Verif.gen.Src_rbow
        Verif.RbModel Verif.RbSrcEq Verif.BbFileModel Verif.BbFileProofs Verif.BbFileSrcEq.
Import ListNotations.
Local Open Scope Z_scope.

(* qb_rb_chunk_read as the printer calls it (NO_SEMAPHORE ring: no notifier functions; len = 2 * QB_LOG_MAX_LEN), with
   _rb_chunk_reclaim and qb_rb_chunk_step inside: on every well-formed loaded ring (the invariant C15_print_total
   maintains) the C function's return value, new read_pt and data words are those of the model's bounds-checked
   `bread' (which therefore never faults there), and when a chunk is delivered the one memcpy it makes copies exactly
   `return value' bytes from &shared_data[(read_pt + 2) % word_size] *)
Theorem C15_src_chunk_read : forall b rbp dout tmo a0 a1 a2 cntm cntp cntr cntt errno orcm orcp orcr orct inst d ptr,
  rbp <> 0 -> sem b = None -> ring_ok b -> 0 <= wpt b < rW b -> rW b <= 2 ^ 30 -> agree d (data b) ->
  match Src_rbow.qb_rb_chunk_read rbp dout BBF_CHUNK_BUF tmo a0 a1 a2 cntm cntp cntr cntt errno orcm orcp orcr orct
          inst 0 0 0 d ptr (rpt b) (rW b) (wpt b), bread b BBF_CHUNK_BUF with
  | (rv, _, a1', a2', cntm', _, _, _, errno', d', r'), RdOk b' r bytes =>
      rv = r /\ errno' = errno /\ r' = rpt b' /\ agree d' (data b') /\
      (0 <= r -> cntm' = cntm + 1 /\ a1' cntm = ptr + 4 * ((rpt b + 2) mod rW b) /\ a2' cntm = r)
  | _, RdFault _ => False
  end.
Proof. exact src_bread. Qed.
Print Assumptions C15_src_chunk_read.

(* the two numbers of print_header ("=>free", "=>used"): qb_rb_space_free / qb_rb_space_used with their uint32_t
   arithmetic, for ALL 32-bit header values (also pointers outside the ring, as the code as found accepts them) *)
Theorem C15_src_space_free : forall W w r rbp cnt orc inst, rbp <> 0 ->
  0 <= W < 2 ^ 32 -> 0 <= w < 2 ^ 32 -> 0 <= r < 2 ^ 32 ->
  Src_rb.qb_rb_space_free rbp cnt orc inst 0 r W w = (free32 W w r, cnt).
Proof. exact src_free32. Qed.
Print Assumptions C15_src_space_free.

Theorem C15_src_space_used : forall W w r rbp cnt orc inst, rbp <> 0 ->
  0 <= W < 2 ^ 32 -> 0 <= w < 2 ^ 32 -> 0 <= r < 2 ^ 32 ->
  Src_rb.qb_rb_space_used rbp cnt orc inst 0 r W w = (used32 W w r, cnt).
Proof. exact src_used32. Qed.
Print Assumptions C15_src_space_used.
