(* C03 - proofs about coq/IpcDeathModel.v, part 1: the server cleans up after a client that dies anywhere. *)
Require Import ZArith List Bool Lia.
Require Import Verif.gen.Consts_ipcdeath Verif.IpcDeathModel.
Import ListNotations.
Open Scope Z_scope.

Definition auth_res : res := mkRes true false false true false false false false false false false false false true false.
Definition conn_res (tr : transport) : res :=
  match tr with
  | Shm => mkRes true false false false true false true true true false false false true false true
  | Sock => mkRes true true true false true true false false false true true true true false true
  end.

(* the three shapes a peer's callback log can have once everything is over: never admitted to a connection object;
   object made and dropped without ever being reported as created; accept created msg* closed destroyed *)
Definition good_log (l : list cb) : Prop :=
  l = [] \/ l = [CbAccept; CbDestroyed] \/
  exists n, 0 <= n /\ l = [CbAccept; CbCreated] ++ msgs_n n ++ [CbClosed; CbDestroyed].

Lemma consts_ok : 0 < D_AUTH_LEN /\ 0 < D_MAX_RECV_MSGS /\ 0 < D_MAX_WAIT_MS.
Proof. vm_compute. repeat split; reflexivity. Qed.

Lemma msgs_n_add : forall a b, 0 <= a -> 0 <= b -> msgs_n a ++ msgs_n b = msgs_n (a + b).
Proof.
  intros a b Ha Hb. unfold msgs_n. rewrite Z2Nat.inj_add by lia. rewrite repeat_app. reflexivity.
Qed.

Section Inv.
Context {Fr : Type}.
Variable tr : transport.
Variable acc : Z.
Variables r0 : Z.
Variable o : Fr.

Definition conn_inv (s : st Fr) : Prop :=
  acc = 0 /\ held s = conn_res tr /\ cst s = ESTABLISHED /\ refc s = 1 /\ notified s = false /\
  (exists n, 0 <= n /\ log s = [CbAccept; CbCreated] ++ msgs_n n) /\ svc_ref s = r0 + 1.

Definition Inv (s : st Fr) : Prop :=
  listening s = true /\ others s = o /\ 0 <= k_auth s /\ 0 <= k_notify s /\ 0 <= k_reqq s /\
  match ph s with
  | PNone => held s = no_res /\ log s = [] /\ svc_ref s = r0
  | PAuth got => 0 <= got < D_AUTH_LEN /\ held s = auth_res /\ log s = [] /\ svc_ref s = r0 + 1
  | PConn => conn_inv s
  | PStalled need => tr = Shm /\ conn_inv s
  | PDone => held s = no_res /\ good_log (log s) /\ svc_ref s = r0
  end.

Lemma init_inv : forall a0 c0, Inv (init r0 a0 c0 o).
Proof. intros. unfold Inv, init; cbn. repeat split; auto; lia. Qed.

Ltac crush_inv :=
  unfold Inv, conn_inv in *; cbn in *; repeat split; auto; try lia.

Ltac by_phase p := destruct p; unfold Inv, conn_inv in *; cbn in *; intuition (try lia).

Lemma client_step_inv : forall c s, Inv s -> Inv (client_step c s).
Proof.
  intros c [kc ko ka kn kq p h cs r nt lg sr ac cl li ot] H.
  unfold client_step; cbn [k_open negb].
  destruct ko; cbn [negb]; [|exact H].
  destruct c; try exact H; cbn [k_conn ph].
  - destruct kc; cbn [andb]; [|exact H].
    destruct (0 <=? n) eqn:E; [|exact H]. apply Z.leb_le in E.
    by_phase p.
  - by_phase p.
  - destruct kc; [|exact H]. by_phase p.
Qed.

Lemma die_inv : forall s, Inv s -> Inv (die s).
Proof. intros [kc ko ka kn kq p h cs r nt lg sr ac cl li ot] H. unfold die. by_phase p. Qed.

Ltac red_model :=
  lazy beta iota zeta delta [conn_disconnect conn_unref funcs_disconnect shm_disconnect us_disconnect remove_tempdir
    dir_empty with_held with_ph with_cst with_refc with_notified add_log with_svc with_kern
    handle_new_connection funcs_connect acceptor auth_cleanup die
    k_conn k_open k_auth k_notify k_reqq ph held cst refc notified log svc_ref active closedn listening others
    fd_setup fd_req fd_evt pe_auth pe_setup pe_req ring_req ring_rsp ring_evt ctl_map ctl_file names dir authrec connobj
    negb andb orb conn_res auth_res no_res].
Ltac fin := repeat split; auto; try lia; try discriminate; try reflexivity.

(* qb_ipcs_disconnect on an ESTABLISHED connection that nobody else references ends with everything released *)
Lemma disconnect_established : forall s,
  Inv s -> conn_inv s ->
  let s' := conn_disconnect tr s in
  ph s' = PDone /\ Inv s' /\ k_open s' = k_open s /\ k_conn s' = k_conn s.
Proof.
  intros [kc ko ka kn kq p h cs r nt lg sr ac cl li ot] HI HC.
  unfold conn_inv in HC; cbn in HC. destruct HC as (Hacc & Hh & Hcs & Hr & Hnt & (n & Hn & Hl) & Hsr).
  subst h cs r nt lg sr.
  unfold Inv in HI; cbn in HI. destruct HI as (Hli & Hot & Ha & Hk & Hq & _).
  destruct tr; unfold Inv, good_log; red_model; change (1 - 1 =? 0) with true; cbv iota; fin;
    right; right; exists n; split; auto; rewrite <- !app_assoc; reflexivity.
Qed.

Lemma msgs_log_ext : forall (lg : list cb) n a, 0 <= n -> 0 <= a ->
  lg = [CbAccept; CbCreated] ++ msgs_n n -> lg ++ msgs_n a = [CbAccept; CbCreated] ++ msgs_n (n + a).
Proof. intros. subst. rewrite <- app_assoc. rewrite msgs_n_add by lia. reflexivity. Qed.

(* the tail of the shm dispatch: read the wake-up bytes *)
Lemma finish_wakeup_inv : forall need s,
  tr = Shm -> Inv (with_ph s PConn) -> conn_inv s ->
  let s' := finish_wakeup_read tr need s in
  Inv s' /\ k_open s' = k_open s /\ k_conn s' = k_conn s /\
  (k_open s = false -> ph s' = PDone \/ ph s' = PConn).
Proof.
  intros need s Htr HI HC. unfold finish_wakeup_read.
  destruct (need <=? k_notify s) eqn:E.
  - apply Z.leb_le in E.
    destruct s as [kc ko ka kn kq p h cs r nt lg sr ac cl li ot].
    unfold Inv, conn_inv in *. red_model. cbn in HI, HC, E.
    destruct HI as (A1 & A2 & A3 & A4 & A5 & _). destruct HC as (B1 & B2 & B3 & B4 & B5 & B6 & B7). fin.
  - destruct (k_open s) eqn:Eo.
    + destruct s as [kc ko ka kn kq p h cs r nt lg sr ac cl li ot].
      unfold Inv, conn_inv in *. red_model. cbn in HI, HC, Eo.
      destruct HI as (A1 & A2 & A3 & A4 & A5 & _). destruct HC as (B1 & B2 & B3 & B4 & B5 & B6 & B7). fin.
    + assert (HC' : conn_inv (with_ph s PConn)) by (destruct s; unfold conn_inv in *; cbn in *; exact HC).
      pose proof (disconnect_established (with_ph s PConn) HI HC') as D.
      cbv zeta in D. destruct D as (D1 & D2 & D3 & D4).
      assert (W1 : k_open (with_ph s PConn) = k_open s) by (destruct s; reflexivity).
      assert (W2 : k_conn (with_ph s PConn) = k_conn s) by (destruct s; reflexivity).
      split; [exact D2|]. split; [congruence|]. split; [congruence|].
      intros _. left. exact D1.
Qed.

Definition same_k (s' s : st Fr) : Prop := k_open s' = k_open s /\ k_conn s' = k_conn s.

Lemma acceptor_inv : forall s, Inv s -> ph s = PNone ->
  Inv (acceptor s) /\ same_k (acceptor s) s /\ ph (acceptor s) = PAuth 0.
Proof.
  intros [kc ko ka kn kq p h cs r nt lg sr ac cl li ot] H Hp. cbn in Hp. subst p.
  pose proof consts_ok as (C1 & _).
  unfold Inv in H; cbn in H. destruct H as (Hli & Hot & Ha & Hn & Hq & Hh & Hl & Hs). subst h lg li ot sr.
  unfold Inv, same_k; red_model. fin.
Qed.

Lemma process_auth_inv : forall pin phup got s, Inv s -> ph s = PAuth got ->
  let s' := process_auth tr acc pin phup got s in
  Inv s' /\ same_k s' s /\ (phup = true -> ph s' = PDone).
Proof.
  intros pin phup got [kc ko ka kn kq p h cs r nt lg sr ac cl li ot] H Hp. cbn in Hp. subst p.
  unfold Inv in H; cbn in H. destruct H as (Hli & Hot & Ha & Hn & Hq & Hg & Hh & Hl & Hs). subst h lg li ot sr.
  unfold process_auth, same_k. destruct phup.
  { unfold Inv, good_log; red_model. fin. }
  destruct pin; cbv beta iota zeta delta [negb].
  2:{ unfold Inv; red_model. fin. }
  cbn [k_auth k_open k_conn k_notify k_reqq with_kern].
  set (take := Z.min ka (D_AUTH_LEN - got)).
  assert (Ht : 0 <= take <= ka /\ take <= D_AUTH_LEN - got) by (unfold take; lia).
  destruct (got + take =? D_AUTH_LEN) eqn:E.
  - (* whole request: handle_new_connection *)
    unfold handle_new_connection.
    destruct (acc =? 0) eqn:Ea.
    + apply Z.eqb_eq in Ea.
      destruct ko.
      * unfold Inv, conn_inv; destruct tr; red_model; change (1 + 1 - 1) with 1; fin;
          (exists 0; split; [lia| reflexivity]).
      * unfold Inv, good_log; destruct tr; red_model; change (1 - 1 =? 0) with true; lazy iota; fin.
    + unfold Inv, good_log; destruct tr; red_model; change (1 - 1 =? 0) with true; red_model; fin.
  - apply Z.eqb_neq in E. destruct ko.
    + unfold Inv; red_model. fin.
    + unfold Inv, good_log; red_model. fin.
Qed.

Ltac same_state := split; [assumption|]; split; [split; reflexivity|]; split; [discriminate| intros; assumption].

Lemma dispatch_request_inv : forall pin phup s, Inv s -> ph s = PConn ->
  let s' := dispatch_request tr pin phup s in
  Inv s' /\ same_k s' s /\ (phup = true -> ph s' = PDone) /\
  (tr = Sock -> phup = false -> ph s' = PConn).
Proof.
  intros pin phup s H Hp.
  assert (HC : conn_inv s) by (unfold Inv in H; rewrite Hp in H; tauto).
  unfold dispatch_request. destruct phup.
  { pose proof (disconnect_established s H HC) as D. cbv zeta in D. unfold same_k.
    destruct D as (D1 & D2 & D3 & D4).
    split; [exact D2|]; split; [split; assumption|]; split; [intros _; exact D1| discriminate]. }
  destruct pin; cbv beta iota zeta delta [negb].
  2:{ unfold same_k. same_state. }
  pose proof consts_ok as (_ & C2 & _).
  assert (Hq : 0 <= k_reqq s) by (unfold Inv in H; tauto).
  set (avail := Z.min (k_reqq s) D_MAX_RECV_MSGS).
  assert (Hav : 0 <= avail <= k_reqq s) by (unfold avail; lia).
  destruct tr eqn:Etr.
  - (* shm *)
    destruct (avail =? 0) eqn:E0.
    + destruct (1 <=? k_notify s) eqn:E1.
      * apply Z.leb_le in E1. destruct s as [kc ko ka kn kq p h cs r nt lg sr ac cl li ot]. cbn in Hp, E1, Hq. subst p.
        unfold Inv, conn_inv, same_k in *. red_model. cbn in H, HC.
        destruct H as (A1 & A2 & A3 & A4 & A5 & _). destruct HC as (B1 & B2 & B3 & B4 & B5 & B6 & B7). fin.
      * destruct (k_open s) eqn:Eo.
        { unfold same_k. same_state. }
        { pose proof (disconnect_established s H HC) as D. cbv zeta in D. unfold same_k.
          destruct D as (D1 & D2 & D3 & D4). rewrite Etr in D1, D2, D3, D4.
          split; [exact D2|]; split; [split; assumption|]; split; discriminate. }
    + apply Z.eqb_neq in E0.
      set (s1 := add_log (with_kern s (k_conn s) (k_open s) (k_auth s) (k_notify s) (k_reqq s - avail)) (msgs_n avail)).
      assert (HC1 : conn_inv s1).
      { destruct s as [kc ko ka kn kq p h cs r nt lg sr ac cl li ot]. unfold conn_inv in *. unfold s1. red_model. cbn in HC.
        destruct HC as (A1 & A2 & A3 & A4 & A5 & (n & Hn & Hl) & A7). repeat split; auto.
        exists (n + avail). split; [lia|]. apply msgs_log_ext; auto; lia. }
      assert (HI1 : Inv (with_ph s1 PConn)).
      { destruct s as [kc ko ka kn kq p h cs r nt lg sr ac cl li ot]. unfold conn_inv in HC1. unfold s1 in *.
        cbn in Hp, Hq, Hav. subst p.
        unfold Inv in *. unfold conn_inv. red_model. cbn in H, HC1. destruct H as (A1 & A2 & A3 & A4 & A5 & _).
        destruct HC1 as (B1 & B2 & B3 & B4 & B5 & B6 & B7). fin. }
      pose proof (finish_wakeup_inv avail s1 Etr HI1 HC1) as F. cbv zeta in F.
      destruct F as (F1 & F2 & F3 & F4). rewrite Etr in F1, F2, F3.
      assert (K : k_open s1 = k_open s /\ k_conn s1 = k_conn s) by (destruct s; split; reflexivity).
      destruct K as (K1 & K2).
      unfold same_k. split; [exact F1|]. split; [split; congruence|].
      split; discriminate.
  - (* socket *)
    destruct (avail =? 0) eqn:E0.
    + unfold same_k. same_state.
    + destruct s as [kc ko ka kn kq p h cs r nt lg sr ac cl li ot]. cbn in Hp, Hq. subst p.
      unfold conn_inv in HC; cbn in HC. destruct HC as (A1 & A2 & A3 & A4 & A5 & (n & Hn & Hl) & A7).
      unfold Inv in H; cbn in H. destruct H as (I1 & I2 & I3 & I4 & I5 & _).
      cbn in Hav.
      unfold Inv, conn_inv, same_k. red_model. fin;
        try (exists (n + avail); split; [lia | apply msgs_log_ext; auto; lia]).
Qed.

Lemma liveliness_inv : forall pin phup s, Inv s -> ph s = PConn ->
  let s' := liveliness tr pin phup s in
  Inv s' /\ same_k s' s /\ (phup = true -> ph s' = PDone).
Proof.
  intros pin phup s H Hp.
  assert (HC : conn_inv s) by (unfold Inv in H; rewrite Hp in H; tauto).
  pose proof (disconnect_established s H HC) as D. cbv zeta in D. destruct D as (D1 & D2 & D3 & D4).
  unfold liveliness, same_k. destruct phup.
  { split; [exact D2|]; split; [split; assumption|]; intros _; exact D1. }
  destruct pin; [destruct (k_open s) eqn:Eo|].
  - split; [assumption|]; split; [split; congruence| discriminate].
  - split; [exact D2|]; split; [split; congruence| discriminate].
  - split; [assumption|]; split; [split; reflexivity| discriminate].
Qed.

Lemma turn_at_inv : forall snap s, Inv s -> Inv (turn_at tr acc snap s) /\ same_k (turn_at tr acc snap s) s.
Proof.
  intros snap s H. unfold turn_at. destruct (ph s) eqn:Hp.
  - destruct (listening s && k_conn snap && k_conn s); [|unfold same_k; auto].
    pose proof (acceptor_inv s H Hp). tauto.
  - destruct (ph snap); try (unfold same_k; auto; fail).
    pose proof (process_auth_inv (setup_in snap) (setup_hup snap) got s H Hp). cbn zeta in *. tauto.
  - destruct (ph snap); try (unfold same_k; auto; fail).
    destruct tr eqn:Etr.
    + pose proof (dispatch_request_inv (setup_in snap) (setup_hup snap) s H Hp). cbn zeta in *. rewrite Etr in *. tauto.
    + pose proof (dispatch_request_inv (0 <? k_reqq snap) false s H Hp) as D. cbn zeta in D. rewrite Etr in D.
      destruct D as (D1 & D2 & _ & D4). specialize (D4 eq_refl eq_refl).
      rewrite D4.
      pose proof (liveliness_inv (setup_in snap) (setup_hup snap) _ D1 D4) as L. cbn zeta in L. rewrite Etr in L.
      unfold same_k in *. intuition congruence.
  - assert (HS : tr = Shm /\ conn_inv s) by (unfold Inv in H; rewrite Hp in H; tauto).
    destruct HS as (Htr & HC).
    assert (HI1 : Inv (with_ph s PConn)).
    { destruct s as [kc ko ka kn kq p h cs r nt lg sr ac cl li ot]. unfold Inv in *; cbn in *. subst p. intuition. }
    pose proof (finish_wakeup_inv need s Htr HI1 HC) as F. cbn zeta in F. unfold same_k. tauto.
  - unfold same_k; auto.
Qed.

Lemma turns_inv : forall n s, Inv s -> Inv (turns tr acc n s) /\ same_k (turns tr acc n s) s.
Proof.
  induction n; intros s H; cbn; [unfold same_k; auto|].
  pose proof (turn_at_inv s s H) as (T1 & T2). fold (turn tr acc s) in *.
  destruct (IHn _ T1) as (I1 & I2). unfold same_k in *. intuition congruence.
Qed.

Lemma run_inv : forall prog sched s, Inv s -> Inv (run tr acc prog sched s).
Proof.
  induction prog; intros sched s H; cbn; [exact H|].
  pose proof (client_step_inv a s H) as H1.
  destruct sched; [apply IHprog; exact H1|].
  apply IHprog. apply turns_inv. exact H1.
Qed.

(* ---- after the death: every pass makes progress until nothing is left *)
Definition rank (s : st Fr) : nat :=
  match ph s with
  | PDone => 0 | PNone => if k_conn s then 2 else 0 | PAuth _ => 1 | PConn => 1 | PStalled _ => 2
  end%nat.

Lemma progress : forall s, Inv s -> k_open s = false -> (rank (turn tr acc s) <= pred (rank s))%nat.
Proof.
  intros s H Ho. unfold turn, turn_at, rank at 2. destruct (ph s) eqn:Hp.
  - destruct (k_conn s) eqn:Ek.
    + assert (L : listening s = true) by (unfold Inv in H; tauto). rewrite L. cbn [andb].
      pose proof (acceptor_inv s H Hp) as (_ & _ & A). unfold rank. rewrite A. cbn. lia.
    + rewrite !andb_false_r. unfold rank. rewrite Hp, Ek. cbn. lia.
  - pose proof (process_auth_inv (setup_in s) (setup_hup s) got s H Hp) as (_ & _ & P). cbn zeta in P.
    unfold setup_hup in *. rewrite Ho in *. cbn [negb] in *. unfold rank. rewrite (P eq_refl). cbn. lia.
  - destruct tr eqn:Etr.
    + pose proof (dispatch_request_inv (setup_in s) (setup_hup s) s H Hp) as (_ & _ & P & _). cbn zeta in P.
      rewrite Etr in P. unfold setup_hup in *. rewrite Ho in *. cbn [negb] in *. unfold rank. rewrite (P eq_refl). cbn. lia.
    + pose proof (dispatch_request_inv (0 <? k_reqq s) false s H Hp) as D. cbn zeta in D. rewrite Etr in D.
      destruct D as (D1 & D2 & _ & D4). specialize (D4 eq_refl eq_refl). rewrite D4.
      pose proof (liveliness_inv (setup_in s) (setup_hup s) _ D1 D4) as (_ & _ & L). cbn zeta in L. rewrite Etr in L.
      unfold setup_hup in *. rewrite Ho in *. cbn [negb] in *. unfold rank. rewrite (L eq_refl). cbn. lia.
  - assert (HS : tr = Shm /\ conn_inv s) by (unfold Inv in H; rewrite Hp in H; tauto).
    destruct HS as (Htr & HC).
    assert (HI1 : Inv (with_ph s PConn)).
    { destruct s as [kc ko ka kn kq p h cs r nt lg sr ac cl li ot]. unfold Inv in *; cbn in *. subst p. intuition. }
    pose proof (finish_wakeup_inv need s Htr HI1 HC) as (_ & _ & _ & F). cbn zeta in F.
    destruct (F Ho) as [F1 | F1]; unfold rank; rewrite F1; cbn; lia.
  - unfold rank. rewrite Hp. cbn. lia.
Qed.

Definition settled (s : st Fr) : Prop := rank s = 0%nat.

Lemma settled_fix : forall s, settled s -> turn tr acc s = s.
Proof.
  intros s H. unfold settled, rank in H. unfold turn, turn_at.
  destruct (ph s); try discriminate; auto.
  destruct (k_conn s); [discriminate|]. rewrite !andb_false_r. reflexivity.
Qed.

Lemma quiesce_settles : forall s, Inv s -> k_open s = false ->
  let s' := quiesce tr acc s in Inv s' /\ settled s' /\ turn tr acc s' = s'.
Proof.
  intros s H Ho.
  assert (R : (rank s <= 2)%nat) by (unfold rank; destruct (ph s); try lia; destruct (k_conn s); lia).
  pose proof (turn_at_inv s s H) as (I1 & (O1 & _)). fold (turn tr acc s) in *.
  pose proof (progress s H Ho) as P1.
  assert (Ho1 : k_open (turn tr acc s) = false) by congruence.
  pose proof (turn_at_inv (turn tr acc s) (turn tr acc s) I1) as (I2 & (O2 & _)). fold (turn tr acc (turn tr acc s)) in *.
  pose proof (progress _ I1 Ho1) as P2.
  assert (S2 : settled (turn tr acc (turn tr acc s))) by (unfold settled; lia).
  unfold quiesce. cbn [turns]. rewrite (settled_fix _ S2). rewrite (settled_fix _ S2).
  cbn zeta. split; [exact I2|]. split; [exact S2|]. apply settled_fix; exact S2.
Qed.

(* ---- the cleaned-up state *)
Lemma settled_clean : forall s, Inv s -> settled s ->
  held s = no_res /\ good_log (log s) /\ svc_ref s = r0 /\ listening s = true /\ others s = o.
Proof.
  intros s H S. unfold settled, rank in S. unfold Inv in H.
  destruct (ph s); try discriminate; unfold good_log; intuition.
Qed.

End Inv.

(* ------------------------------------------------------------------ the theorem *)
Theorem client_death_cleanup :
  forall (Fr : Type) (tr : transport) (acc r0 a0 c0 : Z) (o : Fr) (prog : list cstep) (sched : list nat) (k : nat)
         (stale : bool),
  let s := client_dies_at tr acc prog sched k stale (init r0 a0 c0 o) in
  held s = no_res /\ good_log (log s) /\ svc_ref s = r0 /\ listening s = true /\ others s = o /\
  turn tr acc s = s.
Proof.
  intros. unfold s, client_dies_at.
  set (s1 := run tr acc (firstn k prog) sched (init r0 a0 c0 o)).
  assert (I1 : Inv tr acc r0 o s1) by (apply run_inv, init_inv).
  assert (I2 : Inv tr acc r0 o (die s1)) by (apply die_inv; exact I1).
  assert (O2 : k_open (die s1) = false) by (destruct s1; reflexivity).
  set (s3 := if stale then turn_at tr acc s1 (die s1) else die s1).
  assert (I3 : Inv tr acc r0 o s3 /\ k_open s3 = false).
  { unfold s3. destruct stale; [|auto].
    pose proof (turn_at_inv tr acc r0 o s1 (die s1) I2) as (A & (B & _)). split; [exact A | congruence]. }
  destruct I3 as (I3 & O3).
  pose proof (quiesce_settles tr acc r0 o s3 I3 O3) as (Q1 & Q2 & Q3). cbn zeta in *.
  pose proof (settled_clean tr acc r0 o _ Q1 Q2). tauto.
Qed.
