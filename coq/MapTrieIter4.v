(* C17 trie part, iteration (4): one trie_iter_next step of an iterator without prefix, on a tree nobody else
   modifies, moves the iterator's reference to the next present node and returns its key and value. *)
From Coq Require Import List ZArith Bool Arith Lia.
Import ListNotations.
Require Import Verif.gen.Consts_trie Verif.MapTrieModel Verif.MapTrieProofs Verif.MapTrieProofs2 Verif.MapTrieIter
               Verif.MapTrieIds Verif.MapTrieIter3.

Lemma node_ref_eq : forall r p, p <> [] -> node_ref r p = upd_t r p inc.
Proof. intros. destruct p; [congruence|]. reflexivity. Qed.

Lemma present_inc : forall i, present_i i = true -> present_i (inc i) = true /\ alive_i (inc i) = true /\ 1 <= n_rc i.
Proof.
  intros i H. unfold present_i, alive_i in *. unfold inc, set_rc. simpl.
  destruct (n_val i); [|discriminate]. destruct (n_rc i =? 0) eqn:E; [discriminate|]. apply Nat.eqb_neq in E.
  simpl in *. split; [exact H|]. split; [reflexivity|lia].
Qed.

Lemma pres_at_inc : forall r p tn, get_at r p = Some tn -> present_i (t_info tn) = true -> pres_at r p inc.
Proof.
  intros r p tn G P tn' G'. rewrite G in G'. inversion G'; subst. rewrite P. apply present_inc. exact P.
Qed.

(* trie_node_deref of the node the iterator's reference sits on gives back the original tree *)
Lemma deref_ref : forall r p tn, p <> [] -> get_at r p = Some tn -> present_i (t_info tn) = true ->
  node_deref (upd_t r p inc) p = (r, []).
Proof.
  intros r p tn Hp G P. destruct tn as [i sg fc]. simpl in P.
  destruct (present_inc i P) as [_ [A R]].
  unfold node_deref. rewrite (get_at_upd _ _ inc _ _ _ G). rewrite A.
  replace (0 <? n_rc (inc i) - 1) with true.
  2:{ symmetry. apply Nat.ltb_lt. unfold inc, set_rc. simpl. lia. }
  rewrite upd_upd. f_equal. apply upd_id_at with (tn := TN i sg fc); auto. simpl. apply dec_inc.
Qed.

Record iter_ctx (r0 : tnode) (cur : path) (tcur : tnode) : Prop := {
  ic_uniq : forall x, cnt_t r0 x <= 1;
  ic_hdr : n_id (t_info r0) = 0;
  ic_hval : n_val (t_info r0) = None;
  ic_get : get_at r0 cur = Some tcur;
  ic_cur : cur = [] \/ present_i (t_info tcur) = true
}.

Definition mk_iter (id : option nat) : iter := {| it_prefix := None; it_n := id; it_root := 0 |}.

Lemma find_ref : forall r0 cur id, find_t (node_ref r0 cur) id = find_t r0 id.
Proof.
  intros. destruct cur; auto. unfold node_ref. apply (proj1 find_upd). intros. reflexivity.
Qed.

Lemma next_ref : forall r0 cur tcur rel, get_at r0 cur = Some tcur -> cur = [] \/ present_i (t_info tcur) = true ->
  next_t (node_ref r0 cur) rel = next_t r0 rel.
Proof.
  intros. destruct cur as [|j c]; auto. destruct H0 as [H0|H0]; [discriminate|].
  unfold node_ref. apply (proj1 next_upd). eapply pres_at_inc; eauto.
Qed.

Lemma root_id_ref : forall r0 cur, n_id (t_info (node_ref r0 cur)) = n_id (t_info r0).
Proof. intros. destruct cur; auto. unfold node_ref. apply upd_root_id. reflexivity. Qed.

Lemma find_root : forall r, find_t r (n_id (t_info r)) = Some [].
Proof. destruct r. simpl. rewrite Nat.eqb_refl. reflexivity. Qed.

(* the reference moves from cur to pn *)
Lemma move_ref : forall r0 cur tcur pn tn, iter_ctx r0 cur tcur -> pn <> [] -> pn <> cur ->
  get_at r0 pn = Some tn -> present_i (t_info tn) = true ->
  node_deref (node_ref (node_ref r0 cur) pn) cur = (node_ref r0 pn, []).
Proof.
  intros r0 cur tcur pn tn C Hpn Hne G P. destruct C as [U H0 HV Gc Hc].
  rewrite (node_ref_eq _ pn) by auto. rewrite (node_ref_eq r0 pn) by auto.
  destruct cur as [|j c].
  - simpl. unfold node_deref. simpl.
    assert (X : info_at (upd_t r0 pn inc) [] = info_at r0 []) by (apply info_at_upd_other; auto).
    unfold info_at in X. simpl in X. inversion X as [X1].
    destruct (upd_t r0 pn inc) as [i' s' f'] eqn:E. simpl in X1. unfold alive_i. rewrite X1, HV. reflexivity.
  - destruct Hc as [Hc|Hc]; [discriminate|].
    rewrite (node_ref_eq r0 (j :: c)) by discriminate.
    rewrite upd_comm by auto.
    set (X := upd_t r0 pn inc).
    assert (GX : exists sg fc, get_at X (j :: c) = Some (TN (t_info tcur) sg fc)).
    { assert (I : info_at X (j :: c) = info_at r0 (j :: c)) by (apply info_at_upd_other; auto).
      unfold info_at in I. rewrite Gc in I. destruct (get_at X (j :: c)) as [[i' sg fc]|]; [|discriminate].
      inversion I; subst. eauto. }
    destruct GX as [sg [fc GX]].
    apply deref_ref with (tn := TN (t_info tcur) sg fc); auto. discriminate.
Qed.

Lemma id_at_ref : forall r0 cur p, p <> cur -> id_at (node_ref r0 cur) p = id_at r0 p.
Proof.
  intros. destruct cur as [|j c]; auto. unfold node_ref, id_at.
  change (upd_t r0 (j :: c) (fun i : ninfo => set_rc (S (n_rc i)) i)) with (upd_t r0 (j :: c) inc).
  assert (I : info_at (upd_t r0 (j :: c) inc) p = info_at r0 p) by (apply info_at_upd_other; congruence).
  unfold info_at in I. destruct (get_at (upd_t r0 (j :: c) inc) p), (get_at r0 p); inversion I; try congruence; auto.
Qed.

Lemma after_cons_ne : forall (l : list ninfo) x, l <> x :: l.
Proof. intros l x H. apply (f_equal (@length ninfo)) in H. simpl in H. lia. Qed.

Lemma iter_step : forall fx r0 cur tcur, iter_ctx r0 cur tcur ->
  iter_next fx (node_ref r0 cur) (mk_iter (Some (n_id (t_info tcur)))) =
  match next_t r0 cur with
  | None => Ok (r0, mk_iter None, None, [])
  | Some pn => match get_at r0 pn with
               | Some tn => Ok (node_ref r0 pn, mk_iter (Some (n_id (t_info tn))),
                                Some (n_key (t_info tn), n_val (t_info tn)), [])
               | None => Err Stray
               end
  end.
Proof.
  intros fx r0 cur tcur C. pose proof C as C0. destruct C as [U H0 HV Gc Hc].
  unfold iter_next, mk_iter. cbn [it_n it_prefix it_root].
  rewrite find_ref. rewrite (find_unique _ _ _ U Gc).
  replace (match cur with [] => false | _ :: _ => false end) with false by (destruct cur; reflexivity).
  unfold node_next. rewrite !find_ref. rewrite (find_unique _ _ _ U Gc).
  rewrite <- H0 at 1. rewrite find_root. cbn [strip_prefix get_at].
  rewrite (next_ref _ _ _ _ Gc Hc).
  pose proof (proj1 next_spec r0 cur) as NS.
  destruct (next_t r0 cur) as [pn|].
  - destruct NS as [Hpn [tn [G [A E]]]]. rewrite G. cbn [app].
    assert (Hne : pn <> cur).
    { intro X. subst pn. apply (after_cons_ne _ _ E). }
    rewrite id_at_ref by auto. unfold id_at. rewrite G.
    rewrite (move_ref _ _ _ _ _ C0 Hpn Hne G A).
    rewrite find_ref. rewrite (find_unique _ _ _ U G).
    rewrite node_ref_eq by auto. destruct tn as [itn sg fc].
    rewrite (get_at_upd _ _ inc _ _ _ G). reflexivity.
  - destruct cur as [|j c].
    + simpl. unfold node_deref. simpl. destruct r0 as [i0 s0 f0]. simpl in *. unfold alive_i. rewrite HV. reflexivity.
    + destruct Hc as [Hc|Hc]; [discriminate|]. rewrite node_ref_eq by discriminate.
      rewrite (deref_ref r0 (j :: c) tcur); auto; try discriminate; reflexivity.
Qed.

Lemma iter_free_step : forall r0 cur tcur, iter_ctx r0 cur tcur ->
  iter_free (node_ref r0 cur) (mk_iter (Some (n_id (t_info tcur)))) = Ok (r0, []).
Proof.
  intros r0 cur tcur [U H0 HV Gc Hc]. unfold iter_free, mk_iter. cbn [it_n].
  rewrite find_ref, (find_unique _ _ _ U Gc).
  destruct cur as [|j c].
  - simpl. unfold node_deref. simpl. destruct r0 as [i0 s0 f0]. simpl in *. unfold alive_i. rewrite HV. reflexivity.
  - destruct Hc as [Hc|Hc]; [discriminate|]. rewrite node_ref_eq by discriminate.
    rewrite (deref_ref r0 (j :: c) tcur); auto; try discriminate; reflexivity.
Qed.

Definition vis (i : ninfo) : ev := EVisit (n_key i) (n_val i).

(* qb_map_foreach from position cur: visits exactly the present nodes after cur, in order (the first stop - cnt of
   them when the callback ends the traversal), restores every reference count, never runs out of fuel *)
Lemma foreach_from : forall fx r0 l fuel cur tcur stop cnt acc, iter_ctx r0 cur tcur ->
  after_t r0 cur = l -> length l < fuel -> (stop = 0 \/ cnt < stop) ->
  foreach_loop fx fuel (node_ref r0 cur) (mk_iter (Some (n_id (t_info tcur)))) stop cnt acc
  = Ok (r0, acc ++ map vis (if stop =? 0 then l else firstn (stop - cnt) l)).
Proof.
  intros fx r0. induction l as [|x l' IH]; intros fuel cur tcur stop cnt acc C E L HS;
    (destruct fuel as [|fuel']; [simpl in L; lia|]); cbn [foreach_loop]; rewrite (iter_step fx _ _ _ C);
    pose proof (proj1 next_spec r0 cur) as NS; destruct (next_t r0 cur) as [pn|].
  - destruct NS as [_ [tn [_ [_ X]]]]. rewrite E in X. discriminate.
  - change (iter_free r0 (mk_iter None)) with (Ok (A := tnode * list ev) (r0, [])).
    cbv iota beta. f_equal. f_equal. destruct (stop =? 0); [|rewrite firstn_nil]; simpl; rewrite !app_nil_r; reflexivity.
  - destruct NS as [Hpn [tn [G [A X]]]]. rewrite G. rewrite E in X. inversion X as [[X1 X2]]. subst x.
    assert (C' : iter_ctx r0 pn tn).
    { destruct C. constructor; auto. }
    destruct (S cnt =? stop) eqn:Q.
    + apply Nat.eqb_eq in Q. rewrite (iter_free_step _ _ _ C'). f_equal. f_equal.
      replace (stop =? 0) with false by (symmetry; apply Nat.eqb_neq; lia).
      replace (stop - cnt) with 1 by lia. simpl. rewrite ?firstn_O. rewrite ?app_nil_r. reflexivity.
    + apply Nat.eqb_neq in Q. rewrite (IH fuel' pn tn stop (S cnt) (acc ++ [] ++ [EVisit (n_key (t_info tn)) (n_val (t_info tn))]) C');
        auto; [|simpl in L; lia | lia].
      f_equal. f_equal. simpl. rewrite <- app_assoc. f_equal.
      rewrite <- ?X2. destruct (stop =? 0) eqn:Z.
      * reflexivity.
      * apply Nat.eqb_neq in Z. replace (stop - cnt) with (S (stop - S cnt)) by lia. reflexivity.
  - rewrite E in NS. discriminate.
Qed.
