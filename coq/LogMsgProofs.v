(* C13 - a whole log call: cs_format and qb_do_extended (repaired) leave / hand over exactly the specified text, inside
   the line buffer, for every message text, every limit, every prior buffer content. *)
From Coq Require Import List ZArith Bool Lia.
Require Import Verif.gen.Consts_logfmt Verif.SerModel Verif.SerProofs Verif.SerLists Verif.SerRoundS Verif.SerRoundD
        Verif.LogFmtModel Verif.LogFmtText Verif.LogMsgModel.
Import ListNotations.
Open Scope Z_scope.

Lemma to_signed_int_small : forall x, 0 <= x < 2147483648 -> to_signed (8 * LF_SIZEOF_INT) x = x.
Proof.
  intros x H. unfold to_signed. change (2 ^ (8 * LF_SIZEOF_INT)) with 4294967296.
  rewrite Z.mod_small by lia. change (4294967296 / 2) with 2147483648.
  replace (x <? 2147483648) with true by (symmetry; apply Z.ltb_lt; lia). reflexivity.
Qed.

Lemma list_split_at : forall (l : list Z) i, 0 <= i < zlen l -> l = takeZ i l ++ rd l i :: dropZ (i + 1) l.
Proof.
  intros l i H. rewrite <- (takeZ_dropZ l i) at 1. f_equal.
  rewrite rd_dropZ by lia. replace (i + 1) with (1 + i) by lia. rewrite <- dropZ_dropZ by lia.
  assert (Hz : zlen (dropZ i l) = zlen l - i) by (apply zlen_dropZ; lia).
  destruct (dropZ i l) as [|x t]; [change (zlen (@nil Z)) with 0 in Hz; lia|].
  cbn [hd]. rewrite dropZ_cons_pos by lia. rewrite dropZ_nonpos by lia. reflexivity.
Qed.

(* ------------------------------------------------------------------ cs_format *)
Theorem cs_format_text : forall r maxlen garbage,
  1 <= maxlen < 2147483648 -> zlen r < 2147483648 -> zlen garbage = maxlen ->
  exists b, cs_format_m true r maxlen garbage = FDone b /\ zlen b = maxlen /\
            takeZ (zlen (cs_format_spec r maxlen)) b = cs_format_spec r maxlen /\
            rd b (zlen (cs_format_spec r maxlen)) = 0.
Proof.
  intros r maxlen garbage Hm Hr Hg. unfold cs_format_m, cs_format_spec. cbn [andb].
  pose proof (zlen_nonneg _ r) as Hr0.
  replace (maxlen =? 0) with false by (symmetry; apply Z.eqb_neq; lia).
  set (t := takeZ (maxlen - 1) r).
  assert (Ht : zlen t = Z.min (maxlen - 1) (zlen r)) by (unfold t; rewrite zlen_takeZ; lia).
  destruct (store_bytes_append_nul garbage 0 t) as [b [Eb [Lb [Tb Nb]]]]; [lia | lia |].
  rewrite Eb. rewrite (takeZ_nonpos garbage 0) in Tb by lia. cbn [app Z.add] in Tb, Nb.
  rewrite (to_signed_int_small (zlen r)) by lia.
  rewrite wrapsz_small by (rewrite SIZE_MOD_val; lia).
  destruct (zlen r <? maxlen) eqn:E.
  - (* the text fits *)
    apply Z.ltb_lt in E.
    replace (maxlen <? zlen r) with false by (symmetry; apply Z.ltb_ge; lia).
    assert (Htr : t = r) by (unfold t; apply takeZ_all; lia).
    rewrite Htr in *. unfold strip_nl.
    destruct (zlen r <=? 0) eqn:E0.
    + apply Z.leb_le in E0. exists b. split; [reflexivity|]. split; [lia|].
      replace (0 <? zlen r) with false by (symmetry; apply Z.ltb_ge; lia). cbn [andb]. split; assumption.
    + apply Z.leb_gt in E0.
      replace (zlen r - 1 <? 0) with false by (symmetry; apply Z.ltb_ge; lia).
      replace (zlen b <=? zlen r - 1) with false by (symmetry; apply Z.leb_gt; lia). cbn [orb].
      replace (0 <? zlen r) with true by (symmetry; apply Z.ltb_lt; lia). cbn [andb].
      assert (Hrd : rd b (zlen r - 1) = rd r (zlen r - 1)).
      { transitivity (rd (takeZ (zlen r) b) (zlen r - 1)); [symmetry; apply rd_takeZ; lia | rewrite Tb; reflexivity]. }
      rewrite Hrd. destruct (rd r (zlen r - 1) =? 10) eqn:E10.
      * destruct (store_some b (zlen r - 1) 0) as [b' [E' L']]; [lia|]. rewrite E'.
        exists b'. split; [reflexivity|]. split; [lia|].
        assert (Hz : zlen (takeZ (zlen r - 1) r) = zlen r - 1) by (rewrite zlen_takeZ; lia).
        rewrite Hz. split.
        -- rewrite (store_keeps_prefix _ _ _ _ (zlen r - 1) E') by lia.
           transitivity (takeZ (zlen r - 1) (takeZ (zlen r) b)); [symmetry; apply takeZ_takeZ; lia | rewrite Tb; reflexivity].
        -- eapply rd_store_same; eauto.
      * exists b. split; [reflexivity|]. split; [lia|]. split; assumption.
  - (* the text is cut *)
    apply Z.ltb_ge in E.
    assert (Hlen : (if maxlen <? zlen r then to_signed (8 * LF_SIZEOF_INT) maxlen else zlen r) = maxlen).
    { destruct (maxlen <? zlen r) eqn:E2; [apply to_signed_int_small; lia | apply Z.ltb_ge in E2; lia]. }
    rewrite Hlen.
    replace (maxlen <=? 0) with false by (symmetry; apply Z.leb_gt; lia).
    replace (maxlen - 1 <? 0) with false by (symmetry; apply Z.ltb_ge; lia).
    replace (zlen b <=? maxlen - 1) with false by (symmetry; apply Z.leb_gt; lia). cbn [orb].
    assert (Hk : zlen t = maxlen - 1) by lia. rewrite Hk in *.
    rewrite Nb. cbn. exists b. split; [reflexivity|]. split; [lia|]. fold t. rewrite ?Hk. split; assumption.
Qed.

Lemma cs_format_spec_nonzero : forall r maxlen, nonzero r -> nonzero (cs_format_spec r maxlen).
Proof.
  intros. unfold cs_format_spec, strip_nl. destruct (zlen r <? maxlen); [|apply nonzero_takeZ; assumption].
  destruct ((0 <? zlen r) && (rd r (zlen r - 1) =? 10)); [apply nonzero_takeZ|]; assumption.
Qed.

(* ------------------------------------------------------------------ qb_do_extended *)
Lemma strchr_index : forall m rest c i, nonzero m -> c <> 0 ->
  strchr_m (m ++ 0 :: rest) c i = Some (index_of c m i).
Proof.
  induction m as [|x t IH]; intros rest c i Hn Hc.
  - cbn [app strchr_m index_of]. replace (0 =? c) with false by (symmetry; apply Z.eqb_neq; lia). reflexivity.
  - inversion Hn; subst. cbn [app strchr_m index_of]. destruct (x =? c); [reflexivity|].
    replace (x =? 0) with false by (symmetry; apply Z.eqb_neq; assumption). apply IH; assumption.
Qed.

Lemma index_of_range : forall c m i j, index_of c m i = Some j -> i <= j < i + zlen m /\ rd m (j - i) = c.
Proof.
  induction m as [|x t IH]; intros i j H; [discriminate|].
  cbn [index_of] in H. rewrite zlen_cons. pose proof (zlen_nonneg _ t). destruct (x =? c) eqn:E.
  - inversion H; subst. apply Z.eqb_eq in E. rewrite Z.sub_diag. split; [lia|]. rewrite rd_nth by lia. exact E.
  - destruct (IH (i + 1) j H) as [Hr Hv]. split; [lia|].
    rewrite rd_nth in * by lia. replace (Z.to_nat (j - i)) with (S (Z.to_nat (j - (i + 1)))) by lia. exact Hv.
Qed.

Lemma nonzero_rd : forall m i, nonzero m -> 0 <= i < zlen m -> rd m i <> 0.
Proof.
  induction m as [|x t IH]; intros i Hn Hi; [change (zlen (@nil Z)) with 0 in Hi; lia|].
  inversion Hn; subst. rewrite zlen_cons in Hi. destruct (Z.eq_dec i 0) as [->|].
  - rewrite rd_nth by lia. assumption.
  - rewrite rd_nth by lia. replace (Z.to_nat i) with (S (Z.to_nat (i - 1))) by lia. cbn [nth].
    rewrite <- rd_nth by lia. apply IH; [assumption | lia].
Qed.

Lemma nonzero_dropZ : forall l k, nonzero l -> nonzero (dropZ k l).
Proof.
  induction l as [|x t IH]; intros k H; [constructor|]. inversion H; subst. cbn [dropZ].
  destruct (k <=? 0); [exact H | apply IH; assumption].
Qed.

Theorem do_extended_text : forall m rest extended, nonzero m ->
  do_extended_m (m ++ 0 :: rest) extended = Some (do_extended_spec m extended, m ++ 0 :: rest).
Proof.
  intros m rest extended Hn. unfold do_extended_m, do_extended_spec.
  rewrite strchr_index by (try assumption; vm_compute; discriminate).
  destruct (index_of LF_XC m 0) as [i|] eqn:Ei.
  - destruct (index_of_range _ _ _ _ Ei) as [Hr Hv]. rewrite Z.sub_0_r in Hv.
    set (b := m ++ 0 :: rest).
    pose proof (zlen_nonneg _ m) as Hm0.
    assert (Hzb : zlen b = zlen m + 1 + zlen rest) by (unfold b; rewrite zlen_app, zlen_cons; lia).
    pose proof (zlen_nonneg _ rest) as Hrest.
    assert (Hbi : rd b i = LF_XC).
    { unfold b. rewrite rd_dropZ by lia. rewrite dropZ_app_le by lia. rewrite <- Hv, rd_dropZ by lia.
      destruct (dropZ i m) eqn:Ed; [|reflexivity].
      pose proof (zlen_dropZ m i ltac:(lia)) as Hz. rewrite Ed in Hz. change (zlen (@nil Z)) with 0 in Hz. lia. }
    assert (Hnext : negb (rd b (i + 1) =? 0) = (i + 1 <? zlen m)).
    { destruct (i + 1 <? zlen m) eqn:E.
      - apply Z.ltb_lt in E. apply negb_true_iff, Z.eqb_neq.
        unfold b. rewrite rd_dropZ by lia. rewrite dropZ_app_le by lia.
        pose proof (nonzero_rd m (i + 1) Hn ltac:(lia)) as Hnz. rewrite rd_dropZ in Hnz by lia.
        destruct (dropZ (i + 1) m) eqn:Ed1; [|exact Hnz].
        pose proof (zlen_dropZ m (i + 1) ltac:(lia)) as Hz. rewrite Ed1 in Hz. change (zlen (@nil Z)) with 0 in Hz. lia.
      - apply Z.ltb_ge in E. apply negb_false_iff, Z.eqb_eq.
        unfold b. rewrite rd_dropZ by lia. replace (i + 1) with (zlen m) by lia. rewrite dropZ_app_exact. reflexivity. }
    destruct (negb (i =? 0) || extended) eqn:Ego.
    + assert (Hcond : (i =? 0) && negb extended = false).
      { destruct (i =? 0); destruct extended; cbn in *; congruence. }
      rewrite Hcond. rewrite Hnext.
      set (ch := if extended && (i + 1 <? zlen m) then 124 else 0).
      destruct (store_some b i ch) as [b1 [E1 L1]]; [lia|]. rewrite E1.
      destruct (store_some b1 i LF_XC) as [b2 [E2 L2]]; [lia|]. rewrite E2.
      pose proof (store_spec _ _ _ _ E1) as S1. pose proof (store_spec _ _ _ _ E2) as S2.
      assert (Htk : takeZ i b = takeZ i m) by (unfold b; apply takeZ_app_le; lia).
      assert (Hdr : dropZ (i + 1) b = dropZ (i + 1) m ++ 0 :: rest) by (unfold b; apply dropZ_app_le; lia).
      assert (Hb2 : b2 = b).
      { rewrite S2. rewrite (store_keeps_prefix _ _ _ _ i E1) by lia.
        assert (Hd1 : dropZ (i + 1) b1 = dropZ (i + 1) b).
        { rewrite S1. assert (zlen (takeZ i b) = i) by (rewrite zlen_takeZ; lia).
          rewrite dropZ_app_ge by lia. replace (i + 1 - zlen (takeZ i b)) with 1 by lia.
          rewrite dropZ_cons_pos by lia. apply dropZ_nonpos. lia. }
        rewrite Hd1. rewrite <- Hbi. symmetry. apply list_split_at. lia. }
      rewrite Hb2. f_equal. f_equal. f_equal.
      rewrite S1, Htk, Hdr. unfold ch.
      destruct (extended && (i + 1 <? zlen m)).
      * replace (takeZ i m ++ 124 :: dropZ (i + 1) m ++ 0 :: rest)
          with ((takeZ i m ++ [124] ++ dropZ (i + 1) m) ++ 0 :: rest) by (rewrite <- !app_assoc; reflexivity).
        apply cstr_app_nul. apply nonzero_app; [apply nonzero_takeZ; assumption|].
        apply nonzero_app; [repeat constructor; discriminate | apply nonzero_dropZ; assumption].
      * apply cstr_app_nul. apply nonzero_takeZ. assumption.
    + assert (Hcond : (i =? 0) && negb extended = true).
      { destruct (i =? 0); destruct extended; cbn in *; congruence. }
      rewrite Hcond. reflexivity.
  - f_equal. f_equal. f_equal. apply cstr_app_nul. assumption.
Qed.

(* ------------------------------------------------------------------ the whole call *)
Theorem log_call_text : forall r maxlen extended garbage,
  nonzero r -> 1 <= maxlen < 2147483648 -> zlen r < 2147483648 -> zlen garbage = maxlen ->
  log_call true r maxlen extended garbage = Some (log_call_spec r maxlen extended).
Proof.
  intros r maxlen extended garbage Hn Hm Hr Hg. unfold log_call, log_call_spec.
  destruct (cs_format_text r maxlen garbage Hm Hr Hg) as [b [E [Lb [Tb Nb]]]]. rewrite E.
  set (s := cs_format_spec r maxlen) in *.
  assert (Hs : 0 <= zlen s < maxlen).
  { pose proof (zlen_nonneg _ s). split; [lia|]. unfold s, cs_format_spec, strip_nl. pose proof (zlen_nonneg _ r).
    destruct (zlen r <? maxlen) eqn:E1; [apply Z.ltb_lt in E1 | rewrite zlen_takeZ; lia].
    destruct ((0 <? zlen r) && (rd r (zlen r - 1) =? 10)); [rewrite zlen_takeZ|]; lia. }
  assert (Hb : b = s ++ 0 :: dropZ (zlen s + 1) b).
  { rewrite (list_split_at b (zlen s)) at 1 by lia. rewrite Tb, Nb. reflexivity. }
  rewrite Hb. rewrite do_extended_text by (apply cs_format_spec_nonzero; assumption). reflexivity.
Qed.

(* the statement is false of cs_format as found: an empty message *)
Lemma asfound_cs_format_empty : cs_format_m false [] 512 (repeat 90 512) = FOob 2.
Proof. vm_compute. reflexivity. Qed.
Lemma fixed_cs_format_examples :
  log_call true [] 512 true (repeat 90 512) = Some (Some []) /\
  log_call true [104;105;10] 512 true (repeat 90 512) = Some (Some [104;105]) /\
  log_call true [97;98;99;100;101;102] 4 true (repeat 90 4) = Some (Some [97;98;99]) /\
  log_call true [97;7;98] 512 true (repeat 90 512) = Some (Some [97;124;98]) /\
  log_call true [97;7;98] 512 false (repeat 90 512) = Some (Some [97]) /\
  log_call true [7;98] 512 false (repeat 90 512) = Some None.
Proof. vm_compute. repeat split; reflexivity. Qed.
