(* C08 - the well-formedness invariant of the loop state (with its ghost log) and generic preservation lemmas. *)
Require Import ZArith List Bool Lia.
Require Import Verif.gen.Consts_loop Verif.LoopModel Verif.LoopProofs_C08a.
Import ListNotations.
Open Scope Z_scope.

(* ------------------------------------------------------------------ who is registered *)
Definition live_job st (u : Z) : Prop := exists key, In (QJob u key) (all_items st).
Definition live_timer st (u : Z) : Prop := exists i t, nth_error (timers st) i = Some t /\ t_uid t = u /\
  (t_state t = Active \/ (t_state t = Joblist /\ In (QTimer i) (all_items st))).
Definition plive (e : pslot) : Prop := p_state e = Active \/ p_state e = Joblist.
Definition live_fd st (u : Z) : Prop := exists i e, nth_error (polls st) i = Some e /\ p_uid e = u /\ plive e.
Definition live_sig st (u : Z) : Prop := exists s, In s (sigs st) /\ s_id s = u.
Definition live st (k u : Z) : Prop :=
  (k = 0 /\ live_job st u) \/ (k = 1 /\ live_timer st u) \/ (k = 2 /\ live_fd st u) \/ (k = 3 /\ live_sig st u).

(* a registration is gone once a delete succeeded for it (or its callback asked for removal); a job or
   a timer also once its callback has been entered *)
Definition gone (l : list ev) (k u : Z) : Prop :=
  In (EvDel k u) l \/ ((k = 0 \/ k = 1) /\ In (EvInv k u) l).
(* the log never shows a callback of a registration that is gone: newest event first *)
Fixpoint log_ok (l : list ev) : Prop :=
  match l with
  | [] => True
  | e :: r => log_ok r /\ match e with EvInv k u => ~ gone r k u | _ => True end
  end.

(* ------------------------------------------------------------------ the invariant, by component *)
Definition inv_t (ts : list tslot) (n : Z) : Prop :=
  (forall i t, nth_error ts i = Some t -> (t_exp t <> None <-> t_state t = Active)) /\
  (forall i t, nth_error ts i = Some t -> t_uid t < n) /\
  (forall i j ti tj, nth_error ts i = Some ti -> nth_error ts j = Some tj ->
                     t_state ti <> Empty -> t_state tj <> Empty -> t_uid ti = t_uid tj -> i = j).
Definition inv_p (ps : list pslot) (n : Z) : Prop :=
  (forall i e, nth_error ps i = Some e -> p_uid e < n) /\
  (forall i j ei ej, nth_error ps i = Some ei -> nth_error ps j = Some ej -> plive ei -> plive ej -> p_uid ei = p_uid ej -> i = j) /\
  (forall i e, nth_error ps i = Some e -> p_fn e = true -> p_state e <> Empty).
Definition inv_s (ss : list sigreg) (n : Z) : Prop := NoDup (map s_id ss) /\ (forall s, In s ss -> s_id s < n).
Definition inv_q (st : state) : Prop :=
  (forall x, occ_all x st <= 1) /\
  (forall i, In (QTimer i) (all_items st) -> exists t, nth_error (timers st) i = Some t /\ t_state t = Joblist) /\
  (forall i, In (QFd i) (all_items st) -> exists e, nth_error (polls st) i = Some e /\ p_state e = Joblist) /\
  (forall u f g k, In (QSig u f g k) (all_items st) -> live_sig st f) /\
  (forall u k, In (QJob u k) (all_items st) -> u < next_uid st) /\
  (forall u f g k, In (QSig u f g k) (all_items st) -> u < next_uid st) /\
  (forall p it, In it (wait (lv st p)) -> exists u k, it = QJob u k).
Definition inv_g (st : state) : Prop :=
  (forall k u, (In (EvDel k u) (out st) \/ In (EvInv k u) (out st)) -> u < next_uid st) /\
  (forall k u, gone (out st) k u -> ~ live st k u) /\
  log_ok (out st).
Definition inv_r (rs : list (Z * Z)) : Prop := forall r h, In (r, h) rs -> h = 0 \/ 0 < h / TWO32.
Definition rand_ok (st : state) : Prop := Forall (fun x => 0 < x) (rand st) /\ 0 <= randn st.
Definition inv (st : state) : Prop :=
  0 < next_uid st /\ inv_t (timers st) (next_uid st) /\ inv_p (polls st) (next_uid st) /\ inv_s (sigs st) (next_uid st) /\
  inv_q st /\ inv_g st /\ inv_r (regs st) /\ rand_ok st /\ fx_sigdel (fx st) = true.

(* ------------------------------------------------------------------ monotonicity in the uid bound *)
Lemma inv_t_mono : forall ts n n', inv_t ts n -> n <= n' -> inv_t ts n'.
Proof. intros ts n n' (A & B & C) H. split; [exact A|]. split; [|exact C]. intros i t E. specialize (B i t E). lia. Qed.
Lemma inv_p_mono : forall ps n n', inv_p ps n -> n <= n' -> inv_p ps n'.
Proof. intros ps n n' (A & B) H. split; [|exact B]. intros i e E. specialize (A i e E). lia. Qed.
Lemma inv_s_mono : forall ss n n', inv_s ss n -> n <= n' -> inv_s ss n'.
Proof. intros ss n n' (A & B) H. split; [exact A|]. intros s E. specialize (B s E). lia. Qed.

(* ------------------------------------------------------------------ states that agree on what the invariant reads *)
Record same_core (st st' : state) : Prop := {
  sc_lv : lv st' = lv st; sc_timers : timers st' = timers st; sc_polls : polls st' = polls st; sc_sigs : sigs st' = sigs st;
  sc_uid : next_uid st' = next_uid st; sc_out : out st' = out st; sc_regs : regs st' = regs st; sc_fx : fx st' = fx st;
  sc_rand : rand st' = rand st; sc_randn : randn st' = randn st }.
Lemma same_core_refl : forall st, same_core st st.
Proof. intros; constructor; reflexivity. Qed.
Lemma same_core_trans : forall a b c, same_core a b -> same_core b c -> same_core a c.
Proof. intros a b c [] []; constructor; congruence. Qed.

Lemma live_same : forall st st' k u, lv st' = lv st -> timers st' = timers st -> polls st' = polls st -> sigs st' = sigs st ->
  live st' k u -> live st k u.
Proof.
  intros st st' k u L T P S. unfold live, live_job, live_timer, live_fd, live_sig.
  rewrite (all_items_lv _ _ L), T, P, S. auto.
Qed.

Lemma inv_same_core : forall st st', same_core st st' -> inv st -> inv st'.
Proof.
  intros st st' [L T P S U O R F RA RN] (I0 & IT & IP & IS & IQ & IG & IR & IRA & IF).
  unfold inv. rewrite T, P, S, U, R, F.
  split; [exact I0|]. split; [exact IT|]. split; [exact IP|]. split; [exact IS|].
  split; [|split; [|split; [exact IR|split; [|exact IF]]]].
  - unfold inv_q, occ_all, live_sig in *. rewrite (all_items_lv _ _ L), T, P, S, U, L. exact IQ.
  - destruct IG as (G1 & G2 & G3). unfold inv_g. rewrite O, U. split; [exact G1|]. split; [|exact G3].
    intros k u Hg Hl. apply (G2 k u Hg). eapply live_same; eauto.
  - unfold rand_ok in *. rewrite RA, RN. exact IRA.
Qed.

(* ------------------------------------------------------------------ events that do not matter to the invariant *)
Definition neutral (e : ev) : Prop := match e with EvInv _ _ | EvDel _ _ => False | _ => True end.
Lemma gone_neutral : forall e l k u, neutral e -> gone (e :: l) k u -> gone l k u.
Proof.
  intros e l k u N [H|[K H]].
  - left. destruct H as [H|H]; [subst e; destruct N|exact H].
  - right. split; [exact K|]. destruct H as [H|H]; [subst e; destruct N|exact H].
Qed.
Lemma gone_cons : forall e l k u, gone l k u -> gone (e :: l) k u.
Proof. intros e l k u [H|[K H]]; [left; right; exact H|right; split; [exact K|right; exact H]]. Qed.

Lemma inv_emit_neutral : forall e st, neutral e -> inv st -> inv (emit e st).
Proof.
  intros e st N (I0 & IT & IP & IS & IQ & IG & IR & IRA & IF). unfold inv. cbn.
  split; [exact I0|]. split; [exact IT|]. split; [exact IP|]. split; [exact IS|]. split; [exact IQ|]. split; [|split; [assumption|split; assumption]].
  destruct IG as (G1 & G2 & G3). split; [|split].
  - intros k u [[H|H]|[H|H]]; try (subst e; destruct N); apply (G1 k u); auto.
  - intros k u Hg. apply (gone_neutral e) in Hg; auto. intros Hl. apply (G2 k u Hg). exact Hl.
  - cbn. split; [exact G3|]. destruct e; auto; destruct N.
Qed.
