(* C14 - bounds theorems about the repaired serializer / decoder of SerModel.v ([fx = true]). *)
From Coq Require Import List ZArith Bool Lia.
Require Import Verif.gen.Consts_logfmt Verif.SerModel.
Import ListNotations.
Open Scope Z_scope.

(* ------------------------------------------------------------------ constants *)
Lemma SIZE_MOD_val : SIZE_MOD = 18446744073709551616.
Proof. vm_compute. reflexivity. Qed.
Lemma location_is_32_bits : 2 ^ (8 * LF_SIZEOF_LOCATION) = 4294967296.
Proof. vm_compute. reflexivity. Qed.

Lemma wrap32_bounds : forall x, 0 <= x -> 0 <= wrap32 x <= x.
Proof.
  intros x H. unfold wrap32. split.
  - apply Z.mod_pos_bound. lia.
  - apply Z.mod_le; lia.
Qed.

Lemma wrap32_nonneg : forall x, 0 <= wrap32 x < 4294967296.
Proof. intros. unfold wrap32. apply Z.mod_pos_bound. lia. Qed.

Lemma wrapsz_small : forall x, 0 <= x < SIZE_MOD -> wrapsz x = x.
Proof. intros. unfold wrapsz. apply Z.mod_small. lia. Qed.

Lemma wrapsz_nonneg : forall x, 0 <= wrapsz x < SIZE_MOD.
Proof. intros. unfold wrapsz. apply Z.mod_pos_bound. rewrite SIZE_MOD_val. lia. Qed.

(* ------------------------------------------------------------------ lists and buffers *)
Lemma zlen_nonneg : forall A (l : list A), 0 <= zlen l.
Proof. intros. unfold zlen. lia. Qed.

Lemma zlen_cons : forall A (x : A) l, zlen (x :: l) = zlen l + 1.
Proof. intros. unfold zlen. cbn [length]. lia. Qed.

Lemma zlen_app : forall A (l1 l2 : list A), zlen (l1 ++ l2) = zlen l1 + zlen l2.
Proof. intros. unfold zlen. rewrite app_length. lia. Qed.

Lemma zlen_nil : forall A, zlen (@nil A) = 0.
Proof. reflexivity. Qed.

Lemma upd_length : forall l i v, length (upd l i v) = length l.
Proof. induction l; destruct i; cbn; intros; auto. Qed.

Lemma store_some : forall buf i v, 0 <= i < zlen buf -> exists b, store buf i v = Some b /\ zlen b = zlen buf.
Proof.
  intros. unfold store.
  replace (0 <=? i) with true by (symmetry; apply Z.leb_le; lia).
  replace (i <? zlen buf) with true by (symmetry; apply Z.ltb_lt; lia).
  cbn. eexists. split; [reflexivity|]. unfold zlen. rewrite upd_length. reflexivity.
Qed.

Lemma store_inv : forall buf i v b, store buf i v = Some b -> 0 <= i < zlen buf /\ zlen b = zlen buf /\ b = upd buf (Z.to_nat i) v.
Proof.
  intros buf i v b H. unfold store in H.
  destruct (0 <=? i) eqn:E1; destruct (i <? zlen buf) eqn:E2; cbn in H; try discriminate.
  inversion H; subst. apply Z.leb_le in E1. apply Z.ltb_lt in E2.
  repeat split; try lia. unfold zlen. rewrite upd_length. reflexivity.
Qed.

Lemma store_bytes_some : forall bs buf i, 0 <= i -> i + zlen bs <= zlen buf ->
  exists b, store_bytes buf i bs = Some b /\ zlen b = zlen buf.
Proof.
  induction bs as [|x t IH]; intros buf i Hi Hl.
  - exists buf. split; reflexivity.
  - rewrite zlen_cons in Hl. pose proof (zlen_nonneg _ t).
    destruct (store_some buf i x) as [b1 [E1 L1]]; [lia|].
    cbn [store_bytes]. rewrite E1.
    destruct (IH b1 (i + 1)) as [b2 [E2 L2]]; [lia | lia |].
    exists b2. split; [exact E2 | lia].
Qed.

Lemma nth_upd_same : forall l i v, (i < length l)%nat -> nth i (upd l i v) 0 = v.
Proof. induction l; destruct i; cbn; intros; try lia; auto. apply IHl. lia. Qed.

Lemma nth_upd_other : forall l i j v, i <> j -> nth j (upd l i v) 0 = nth j l 0.
Proof. induction l; destruct i; destruct j; cbn; intros; try congruence; auto. Qed.

Lemma dropZ_nth : forall l k, 0 <= k -> hd 0 (dropZ k l) = nth (Z.to_nat k) l 0.
Proof.
  induction l as [|x t IH]; intros k Hk.
  - cbn. destruct (Z.to_nat k); reflexivity.
  - cbn [dropZ]. destruct (k <=? 0) eqn:E.
    + apply Z.leb_le in E. replace k with 0 by lia. reflexivity.
    + apply Z.leb_gt in E. rewrite IH by lia.
      replace (Z.to_nat k) with (S (Z.to_nat (k - 1))) by lia. reflexivity.
Qed.

Lemma rd_nth : forall l i, 0 <= i -> rd l i = nth (Z.to_nat i) l 0.
Proof.
  intros. unfold rd. replace (i <? 0) with false by (symmetry; apply Z.ltb_ge; lia).
  apply dropZ_nth. exact H.
Qed.

Lemma rd_store_same : forall buf i v b, store buf i v = Some b -> rd b i = v.
Proof.
  intros buf i v b H. apply store_inv in H. destruct H as [Hi [_ Hb]]. subst b.
  rewrite rd_nth by lia. apply nth_upd_same. unfold zlen in Hi. lia.
Qed.

Lemma rd_store_other : forall buf i j v b, store buf i v = Some b -> 0 <= j -> i <> j -> rd b j = rd buf j.
Proof.
  intros buf i j v b H Hj Hne. apply store_inv in H. destruct H as [Hi [_ Hb]]. subst b.
  rewrite !rd_nth by lia. apply nth_upd_other. lia.
Qed.

(* a run of bytes ending in 0 leaves a 0 at its last position; earlier stores are not disturbed *)
Lemma store_bytes_rd_before : forall bs buf i b j, store_bytes buf i bs = Some b -> 0 <= j < i -> rd b j = rd buf j.
Proof.
  induction bs as [|x t IH]; intros buf i b j H Hj.
  - cbn in H. inversion H. reflexivity.
  - cbn [store_bytes] in H. destruct (store buf i x) as [b1|] eqn:E1; [|discriminate].
    rewrite (IH b1 (i + 1) b j H) by lia. eapply rd_store_other; eauto; lia.
Qed.

Lemma store_bytes_last0 : forall bs buf i b, store_bytes buf i (bs ++ [0]) = Some b -> 0 <= i -> rd b (i + zlen bs) = 0.
Proof.
  induction bs as [|x t IH]; intros buf i b H Hi.
  - cbn [app store_bytes] in H. destruct (store buf i 0) as [b1|] eqn:E1; [|discriminate].
    inversion H; subst. unfold zlen; cbn [length Z.of_nat]. rewrite Z.add_0_r. eapply rd_store_same; eauto.
  - cbn [app store_bytes] in H. destruct (store buf i x) as [b1|] eqn:E1; [|discriminate].
    rewrite zlen_cons. replace (i + (zlen t + 1)) with ((i + 1) + zlen t) by lia.
    eapply IH; eauto. lia.
Qed.

Lemma zlen_takeZ : forall l k, zlen (takeZ k l) = Z.min (Z.max k 0) (zlen l).
Proof.
  induction l as [|x t IH]; intros k.
  - cbn. lia.
  - cbn [takeZ]. destruct (k <=? 0) eqn:E.
    + apply Z.leb_le in E. change (zlen (@nil Z)) with 0. rewrite zlen_cons. pose proof (zlen_nonneg _ t). lia.
    + apply Z.leb_gt in E. rewrite !zlen_cons, IH. pose proof (zlen_nonneg _ t). lia.
Qed.

Lemma zlen_le_bytes : forall k v, zlen (le_bytes k v) = Z.of_nat k.
Proof. induction k; intros; cbn [le_bytes]; [reflexivity|]. rewrite zlen_cons, IHk. lia. Qed.

Lemma zlen_repeat : forall (x : Z) k, zlen (repeat x k) = Z.of_nat k.
Proof. intros. unfold zlen. rewrite repeat_length. reflexivity. Qed.

(* ------------------------------------------------------------------ strlcpy / my_strlcpy (repaired) *)
(* with room for [maxlen] bytes at [pos], my_strlcpy stores inside the buffer, NUL-terminates, and returns the
   number of characters stored (< maxlen) *)
Lemma my_strlcpy_ok : forall tag buf pos src maxlen,
  0 <= pos -> 0 <= maxlen < SIZE_MOD -> pos + maxlen <= zlen buf ->
  exists b k, my_strlcpy_m true tag buf pos src maxlen = (Some b, k) /\ zlen b = zlen buf /\
              0 <= k /\ (maxlen = 0 -> k = 0 /\ b = buf) /\ (0 < maxlen -> k < maxlen /\ rd b (pos + k) = 0) /\
              k <= zlen src.
Proof.
  intros tag buf pos src maxlen Hpos Hml Hroom. unfold my_strlcpy_m. cbn [andb].
  destruct (maxlen =? 0) eqn:E0.
  - apply Z.eqb_eq in E0. exists buf, 0. pose proof (zlen_nonneg _ src). repeat split; try lia; auto.
  - apply Z.eqb_neq in E0. unfold strlcpy_m.
    replace (maxlen =? 0) with false by (symmetry; apply Z.eqb_neq; lia).
    set (l2 := Z.min (maxlen - 1) (zlen src)).
    pose proof (zlen_nonneg _ src) as Hs.
    assert (Hl2 : zlen (takeZ l2 src) = l2) by (rewrite zlen_takeZ; unfold l2; lia).
    destruct (store_bytes_some (takeZ l2 src ++ [0]) buf pos) as [b [Eb Lb]]; [lia | |].
    { rewrite zlen_app, Hl2. change (zlen [0]) with 1. unfold l2. lia. }
    rewrite Eb. exists b, (Z.min (zlen src) (wrapsz (maxlen - 1))).
    rewrite wrapsz_small by lia.
    split; [reflexivity|]. split; [exact Lb|]. split; [lia|]. split; [intros; lia|]. split; [|lia].
    intros _. split; [lia|].
    replace (Z.min (zlen src) (maxlen - 1)) with l2 by (unfold l2; lia).
    rewrite <- Hl2 at 1. eapply store_bytes_last0; eauto.
Qed.

(* ------------------------------------------------------------------ serializer *)
Definition ser_good (max : Z) (o : outcome) : Prop :=
  exists ret buf, o = Done ret buf 0 /\ 0 <= ret <= max /\ zlen buf = max.

Definition sinv (max : Z) (st : sst) : Prop := zlen (s_buf st) = max /\ 0 <= s_loc st <= max.

Lemma ser_scalar_good : forall max sz st k,
  0 <= max -> 0 <= sz -> sinv max st ->
  (forall st', sinv max st' -> ser_good max (k st')) ->
  ser_good max (ser_scalar max sz st k).
Proof.
  intros max sz st k Hmax Hsz [Hb Hl] Hk. unfold ser_scalar.
  destruct (max <? s_loc st + sz) eqn:E.
  - exists max, (s_buf st). repeat split; auto; lia.
  - apply Z.ltb_ge in E. destruct (va_scalar (s_args st)) as [v args'].
    destruct (store_bytes_some (le_bytes (Z.to_nat sz) v) (s_buf st) (s_loc st)) as [b [Eb Lb]]; [lia | |].
    { rewrite zlen_le_bytes. lia. }
    rewrite Eb. apply Hk. split; cbn; [lia|].
    pose proof (wrap32_bounds (s_loc st + sz)). lia.
Qed.

Lemma sizes_nonneg :
  0 <= LF_SIZEOF_INT /\ 0 <= LF_SIZEOF_LONG /\ 0 <= LF_SIZEOF_LLONG /\ 0 <= LF_SIZEOF_DOUBLE /\
  0 <= LF_SIZEOF_UCHAR /\ 0 <= LF_SIZEOF_PTRDIFF /\ 0 <= LF_SIZEOF_VOIDP.
Proof. vm_compute. repeat split; discriminate. Qed.

Lemma ser_go_good : forall max, 0 <= max < SIZE_MOD ->
  forall n f m st, (length f <= n)%nat -> sinv max st -> ser_good max (ser_go true max f m st).
Proof.
  intros max Hmax. induction n as [|n IH]; intros f m st Hlen Hinv.
  { destruct f; [|cbn in Hlen; lia]. cbn. destruct Hinv as [Hb Hl]. exists (s_loc st), (s_buf st). auto. }
  destruct f as [|c f'].
  { cbn. destruct Hinv as [Hb Hl]. exists (s_loc st), (s_buf st). auto. }
  cbn [length] in Hlen. assert (Hlen' : (length f' <= n)%nat) by lia.
  pose proof sizes_nonneg as [Hz1 [Hz2 [Hz3 [Hz4 [Hz5 [Hz6 Hz7]]]]]].
  assert (Hdone : ser_good max (Done (s_loc st) (s_buf st) 0)).
  { destruct Hinv as [Hb Hl]. exists (s_loc st), (s_buf st). auto. }
  assert (Hsame : forall b p a, sinv max (mkS (s_buf st) (s_loc st) b p a)).
  { intros. destruct Hinv. split; cbn; auto. }
  cbn [ser_go]. destruct m as [|tl tll].
  - destruct (classify c); try (apply IH; auto); try exact Hdone.
  - destruct (classify c); try exact Hdone; try (apply IH; auto; fail).
    + (* CDigit *) apply IH; auto. destruct (s_prec st); auto.
    + (* CStar *)
      destruct (va_scalar (s_args st)) as [v args'].
      destruct (max <? s_loc st + LF_SIZEOF_INT) eqn:E.
      * destruct Hinv as [Hb Hl]. exists max, (s_buf st). repeat split; auto; lia.
      * apply Z.ltb_ge in E. destruct Hinv as [Hb Hl].
        destruct (store_bytes_some (le_bytes (Z.to_nat LF_SIZEOF_INT) v) (s_buf st) (s_loc st)) as [b [Eb Lb]]; [lia | |].
        { rewrite zlen_le_bytes. lia. }
        rewrite Eb. apply IH; auto. split; cbn; [lia|].
        pose proof (wrap32_bounds (s_loc st + LF_SIZEOF_INT)). lia.
    + (* CEll *)
      destruct f' as [|c2 f'']; [apply IH; auto|].
      destruct c2 as [|p|p]; try (apply IH; auto; fail).
      do 7 (destruct p as [p|p|]; try (apply IH; auto; fail)).
      apply IH; auto. cbn [length] in Hlen'. lia.
    (* CZee, CTee, CJay: solved by conversion above *)
    + (* CInt *) apply ser_scalar_good;
        [lia | destruct tl; [lia | destruct tll; lia] | exact Hinv | intros; apply IH; auto].
    + (* CDbl *) apply ser_scalar_good; [lia | lia | exact Hinv | intros; apply IH; auto].
    + (* CChr *) apply ser_scalar_good; [lia | lia | exact Hinv | intros; apply IH; auto].
    + (* CStr *)
      destruct (va_string (s_args st)) as [sv args'].
      destruct Hinv as [Hb Hl]. cbn [andb].
      destruct (max <? s_loc st + 1) eqn:E.
      * exists max, (s_buf st). repeat split; auto; lia.
      * apply Z.ltb_ge in E.
        assert (Hroom : wrapsz (max - s_loc st) = max - s_loc st) by (apply wrapsz_small; lia).
        rewrite Hroom.
        set (sn := match sv with
                   | Some s => if s_len st =? 0 then (s, Z.min (wrapsz (zlen s + 1)) (max - s_loc st))
                               else (s, Z.min (wrapsz (s_len st + 1)) (max - s_loc st))
                   | None => ([40; 110; 117; 108; 108; 41], Z.min (6 + 1) (max - s_loc st))
                   end).
        assert (Hn : 0 <= snd sn <= max - s_loc st).
        { unfold sn. destruct sv as [s|]; [destruct (s_len st =? 0)|]; cbn [snd];
            try (pose proof (wrapsz_nonneg (zlen s + 1))); try (pose proof (wrapsz_nonneg (s_len st + 1))); lia. }
        destruct sn as [src nn] eqn:Esn. cbn [snd] in Hn.
        destruct (my_strlcpy_ok 1 (s_buf st) (s_loc st) src nn) as [b [k [Ek [Lb [Hk0 [Hz [Hp Hks]]]]]]]; try lia.
        rewrite Ek. apply IH; auto. split; cbn; [lia|].
        pose proof (wrap32_bounds (s_loc st + k)).
        pose proof (wrap32_bounds (wrap32 (s_loc st + k) + 1)).
        assert (k + 1 <= max - s_loc st).
        { destruct (Z.eq_dec nn 0) as [Z0|NZ]; [destruct (Hz Z0); lia | destruct Hp; lia]. }
        lia.
    + (* CPtr *)
      destruct (va_scalar (s_args st)) as [v args'].
      destruct (max <? s_loc st + LF_SIZEOF_PTRDIFF) eqn:E.
      * destruct Hinv as [Hb Hl]. exists max, (s_buf st). repeat split; auto; lia.
      * apply Z.ltb_ge in E. destruct Hinv as [Hb Hl].
        destruct (store_bytes_some (le_bytes (Z.to_nat LF_SIZEOF_PTRDIFF) v) (s_buf st) (s_loc st)) as [b [Eb Lb]]; [lia | |].
        { rewrite zlen_le_bytes. lia. }
        rewrite Eb. apply IH; auto. split; cbn; [lia|].
        pose proof (wrap32_bounds (s_loc st + LF_SIZEOF_PTRDIFF)). lia.
Qed.

(* strchr on a buffer that holds a NUL at index [z] never runs off the buffer and finds nothing beyond it *)
Lemma strchr_m_ok : forall l c i z, 0 <= z < zlen l -> rd l z = 0 ->
  strchr_m l c i = Some None \/ exists j, strchr_m l c i = Some (Some j) /\ i <= j <= i + z.
Proof.
  induction l as [|x t IH]; intros c i z Hz H0.
  - rewrite zlen_nil in Hz. lia.
  - cbn [strchr_m]. destruct (x =? c) eqn:Ec.
    + right. exists i. split; [reflexivity | lia].
    + destruct (x =? 0) eqn:E0; [left; reflexivity|].
      assert (z <> 0).
      { intros ->. rewrite rd_nth in H0 by lia. cbn in H0. apply Z.eqb_neq in E0. lia. }
      rewrite zlen_cons in Hz.
      destruct (IH c (i + 1) (z - 1)) as [Hn | [j [Hj Hr]]]; try lia.
      { rewrite rd_nth in * by lia. replace (Z.to_nat z) with (S (Z.to_nat (z - 1))) in H0 by lia. exact H0. }
      * left. exact Hn.
      * right. exists j. split; [exact Hj | lia].
Qed.

Theorem serialize_bounds : forall max fmt args garbage,
  1 <= max < SIZE_MOD -> zlen garbage = max ->
  ser_good max (serialize true max fmt args garbage).
Proof.
  intros max fmt args garbage Hmax Hg. unfold serialize.
  destruct (my_strlcpy_ok 1 garbage 0 (cstr fmt) max) as [b0 [k [Ek [Lb [Hk0 [_ [Hp Hks]]]]]]]; try lia.
  rewrite Ek. destruct Hp as [Hkm H0]; [lia|]. cbn [Z.add] in H0.
  destruct (strchr_m_ok b0 LF_XC 0 k) as [Hn | [j [Hj Hr]]]; try lia; auto.
  - rewrite Hn. apply ser_go_good with (n := length fmt); try lia.
    split; cbn; [lia|]. pose proof (wrap32_bounds (k + 1)). lia.
  - rewrite Hj.
    destruct (store_some b0 j (if rd b0 (j + 1) =? 0 then 0 else 124)) as [b1 [E1 L1]]; [lia|].
    rewrite E1. apply ser_go_good with (n := length fmt); try lia.
    split; cbn; [lia|]. cbn [andb].
    pose proof (wrap32_bounds (k + 1)). pose proof (wrap32_bounds (j + 1)).
    destruct (rd b0 (j + 1) =? 0); lia.
Qed.
