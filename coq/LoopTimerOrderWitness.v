(* C09: witnesses for the expiry-order theorem (vm_compute). *)
From Coq Require Import ZArith List Sorted.
Import ListNotations.
Require Import Verif.HeapModel Verif.LoopTimerModel Verif.LoopTimerWitness Verif.LoopTimerOrder.
Local Open Scope Z_scope.

(* the code as found: the timer whose expiry wrapped is dispatched before one that expires 2^64 ns earlier *)
Definition w_order : list op :=
  [Cb (CAdd 2 18446744073709551610 3 9); Cb (CAdd 2 1000000 4 10); Run [-2; -2]; Cb (CTick 2000000); Run [-2; -2; -2]].

Lemma order_as_found_refuted :
  ev_exps 2 (rev (out (run as_found [] init0 w_order))) = [18446744073709552610; 1001000] /\
  ~ StronglySorted Z.le (ev_exps 2 (rev (out (run as_found [] init0 w_order)))).
Proof.
  assert (E : ev_exps 2 (rev (out (run as_found [] init0 w_order))) = [18446744073709552610; 1001000]) by (vm_compute; reflexivity).
  split; [exact E|]. rewrite E. intros S0. inversion S0 as [|? ? _ F]; subst. inversion F as [|? ? L _]; subst. vm_compute in L. apply L. reflexivity.
Qed.

Lemma order_example :
  ev_exps 1 (rev (out (run fixed ex_beh (lp_init (hz_of_res 4000000) 1000 3) ex_ops))) = [3001000; 4001006; 52001017] /\
  ev_exps 2 (rev (out (run fixed [] init0 w_order))) = [1001000].
Proof. vm_compute. split; reflexivity. Qed.
