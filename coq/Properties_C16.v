(* C16 - threaded logging: the property theorems.  Statements only; each is closed by `exact`.
   Models: LogThrModel.v (part A: control histories run_ctl; part B: interleavings exec).
   `true' = the repaired code (fixes/C16-1..4), `false' = the code as found. *)
From Coq Require Import ZArith List Bool.
Require Import Verif.gen.Consts_logthr Verif.LogThrModel Verif.LogThrProofs.
Import ListNotations.
Local Open Scope Z_scope.

(* ---------------- control histories (sequential) ---------------- *)

(* every order of init / open / enable / set-threaded / thread-start / ctl / close / log / fini / re-init is safe:
   no call ever locks logt_wthread_lock while it is NULL or destroyed *)
Theorem C16_ctl_safe : forall (h : list cop), is_error (run_ctl true h) = false.
Proof. exact ctl_safe. Qed.
Print Assumptions C16_ctl_safe.

(* the code as found: QB_LOG_CONF_THREADED before qb_log_thread_start, then any other qb_log_ctl, locks NULL *)
Theorem C16_ctl_safe_refuted : exists h, is_error (run_ctl false h) = true.
Proof. exact ctl_safe_refuted. Qed.
Print Assumptions C16_ctl_safe_refuted.

(* the five witnesses replayed on the real library (props/C16.py corpus): what each one hits *)
Theorem C16_ctl_witnesses_unfixed :
  k_err (run_ctl false wit_null_ctl) = Some ENullLock /\ k_err (run_ctl false wit_null_log) = Some ENullLock /\
  k_err (run_ctl false wit_reinit_ctl) = Some EFreedLock /\ k_err (run_ctl false wit_reinit_start) = Some EFreedLock /\
  k_err (run_ctl false wit_reinit_fini) = Some EFreedLock.
Proof. exact (conj unfixed_null_ctl (conj unfixed_null_log (conj unfixed_reinit_ctl
              (conj unfixed_reinit_start unfixed_reinit_fini)))). Qed.
Print Assumptions C16_ctl_witnesses_unfixed.

Example C16_ctl_witnesses_fixed :
  Forall (fun h => is_error (run_ctl true h) = false)
         [wit_null_ctl; wit_null_log; wit_reinit_ctl; wit_reinit_start; wit_reinit_fini].
Proof. exact fixed_witnesses_ok. Qed.

(* qb_log_fini leaves the thread statics as at program start and every target disabled: re-initialisation
   starts from the same state as a first initialisation *)
Theorem C16_ctl_fini_resets : forall h, k_inited (run_ctl true h) = true ->
  let s := fst (kstep true (run_ctl true h) KFini) in
  k_err s = None /\ k_lock s = LNull /\ k_active s = false /\ k_flag s = false /\ k_inited s = false /\
  Forall (fun t => is_enabled t = false) (k_tg s).
Proof. exact fini_resets. Qed.
Print Assumptions C16_ctl_fini_resets.

(* after any control history, a log call on the initialised system reaches every enabled target exactly once
   and no other target, whatever the threaded flags are and whether or not the thread exists ... *)
Theorem C16_ctl_log_exactly_once : forall h m k, k_inited (run_ctl true h) = true ->
  writes_to k m (snd (kstep true (run_ctl true h) (KLog m))) = expect_writes (run_ctl true h) k.
Proof. exact log_exactly_once. Qed.
Print Assumptions C16_ctl_log_exactly_once.

(* ... no other call invokes a logger ... *)
Theorem C16_ctl_writes_only_in_log : forall s o, (forall m, o <> KLog m) ->
  existsb any_write (snd (kstep true s o)) = false.
Proof. exact writes_only_in_log. Qed.
Print Assumptions C16_ctl_writes_only_in_log.

(* ... and a threaded target is served by the logging thread exactly when that thread exists *)
Theorem C16_ctl_threaded_by_thread : forall h m k t, k_inited (run_ctl true h) = true ->
  nth_error (k_tg (run_ctl true h)) k = Some t -> is_enabled t = true -> t_thr t = true ->
  In (EvWrite k m (match k_lock (run_ctl true h) with LLive => true | _ => false end))
     (snd (kstep true (run_ctl true h) (KLog m))).
Proof. exact (fun h m k t => threaded_by_thread (run_ctl true h) m k t (run_ctl_inv h)). Qed.
Print Assumptions C16_ctl_threaded_by_thread.

Example C16_ctl_example :
  ctl_events true [KInit; KOpen; KOpen; KEnable 0 true; KEnable 1 true; KThreaded 1 true; KLog 7; KStart; KLog 8; KFini] =
  [EvRc 0; EvRc 4; EvRc 5; EvRc 0; EvRc 0; EvRc 0; EvWrite 0 7 false; EvWrite 1 7 false; EvRc 0; EvRc 0;
   EvWrite 0 8 false; EvWrite 1 8 true; EvRc 0; EvClose 0; EvClose 1; EvRc 0].
Proof. vm_compute. reflexivity. Qed.
