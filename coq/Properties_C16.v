(* C16 - threaded logging: the property theorems.  Statements only; each is closed by `exact`.
   Models: LogThrModel.v (part A: control histories run_ctl; part B: interleavings exec).
   `true' = the repaired code (fixes/C16-1..5), `false' = the code as found. *)
From Coq Require Import ZArith List Bool Sorted.
Require Import Verif.gen.Consts_logthr Verif.LogThrModel Verif.LogThrProofs Verif.LogThrProofs2 Verif.LogThrProofs3 Verif.LogThrProofs4 Verif.LogThrProofs5.
Import ListNotations.
Local Open Scope Z_scope.

(* ---------------- control histories (sequential) ---------------- *)

(* every order of init / open / enable / set-threaded / thread-start / ctl / close / log / fini / re-init is safe:
   no call ever locks logt_wthread_lock while it is NULL or destroyed *)
Theorem C16_ctl_safe : forall (h : list cop), is_error (run_ctl true h) = false.
Proof. exact ctl_safe. Qed.
Print Assumptions C16_ctl_safe.

(* the code as found: QB_LOG_CONF_THREADED before qb_log_thread_start, then any other qb_log_ctl, locks NULL *)
Theorem C16_ctl_safe_refuted : exists h, is_error (run_ctl false h) = true.
Proof. exact ctl_safe_refuted. Qed.
Print Assumptions C16_ctl_safe_refuted.

(* the five witnesses replayed on the real library (props/C16.py corpus): what each one hits *)
Theorem C16_ctl_witnesses_unfixed :
  k_err (run_ctl false wit_null_ctl) = Some ENullLock /\ k_err (run_ctl false wit_null_log) = Some ENullLock /\
  k_err (run_ctl false wit_reinit_ctl) = Some EFreedLock /\ k_err (run_ctl false wit_reinit_start) = Some EFreedLock /\
  k_err (run_ctl false wit_reinit_fini) = Some EFreedLock.
Proof. exact (conj unfixed_null_ctl (conj unfixed_null_log (conj unfixed_reinit_ctl
              (conj unfixed_reinit_start unfixed_reinit_fini)))). Qed.
Print Assumptions C16_ctl_witnesses_unfixed.

Example C16_ctl_witnesses_fixed :
  Forall (fun h => is_error (run_ctl true h) = false)
         [wit_null_ctl; wit_null_log; wit_reinit_ctl; wit_reinit_start; wit_reinit_fini].
Proof. exact fixed_witnesses_ok. Qed.

(* qb_log_fini leaves the thread statics as at program start and every target disabled: re-initialisation
   starts from the same state as a first initialisation *)
Theorem C16_ctl_fini_resets : forall h, k_inited (run_ctl true h) = true ->
  let s := fst (kstep true (run_ctl true h) KFini) in
  k_err s = None /\ k_lock s = LNull /\ k_active s = false /\ k_flag s = false /\ k_inited s = false /\
  Forall (fun t => is_enabled t = false) (k_tg s).
Proof. exact fini_resets. Qed.
Print Assumptions C16_ctl_fini_resets.

(* after any control history, a log call on the initialised system reaches every enabled target exactly once
   and no other target, whatever the threaded flags are and whether or not the thread exists ... *)
Theorem C16_ctl_log_exactly_once : forall h m k, k_inited (run_ctl true h) = true ->
  writes_to k m (snd (kstep true (run_ctl true h) (KLog m))) = expect_writes (run_ctl true h) k.
Proof. exact log_exactly_once. Qed.
Print Assumptions C16_ctl_log_exactly_once.

(* ... no other call invokes a logger ... *)
Theorem C16_ctl_writes_only_in_log : forall s o, (forall m, o <> KLog m) ->
  existsb any_write (snd (kstep true s o)) = false.
Proof. exact writes_only_in_log. Qed.
Print Assumptions C16_ctl_writes_only_in_log.

(* ... and a threaded target is served by the logging thread exactly when that thread exists *)
Theorem C16_ctl_threaded_by_thread : forall h m k t, k_inited (run_ctl true h) = true ->
  nth_error (k_tg (run_ctl true h)) k = Some t -> is_enabled t = true -> t_thr t = true ->
  In (EvWrite k m (match k_lock (run_ctl true h) with LLive => true | _ => false end))
     (snd (kstep true (run_ctl true h) (KLog m))).
Proof. exact (fun h m k t => threaded_by_thread (run_ctl true h) m k t (run_ctl_inv h)). Qed.
Print Assumptions C16_ctl_threaded_by_thread.

Example C16_ctl_example :
  ctl_events true [KInit; KOpen; KOpen; KEnable 0 true; KEnable 1 true; KThreaded 1 true; KLog 7; KStart; KLog 8; KFini] =
  [EvRc 0; EvRc 4; EvRc 5; EvRc 0; EvRc 0; EvRc 0; EvWrite 0 7 false; EvWrite 1 7 false; EvRc 0; EvRc 0;
   EvWrite 0 8 false; EvWrite 1 8 true; EvRc 0; EvClose 0; EvClose 1; EvRc 0].
Proof. vm_compute. reflexivity. Qed.

(* ---------------- interleavings: producers, the logging thread, a control thread ---------------- *)
(* s = exec true sched (cinit mprog progs): the state after ANY schedule `sched' (list of thread ids; an entry naming a
   blocked or finished thread is skipped) of ANY control program (enable / disable / close ..., join + qb_log_fini) and
   ANY producer programs (message lengths), starting after qb_log_thread_start.  plog = records that entered the
   critical section of qb_log_thread_log_post; accepted / dropped = its two outcomes; popped = records the worker took
   off the list (each handed to the target's logger unless the target was disabled or closed at that moment). *)

(* order, exactly once, reporting: no error state (the worker never takes a record off an empty list; no close
   callback during a logger callback); the records taken by the worker, the one in flight and the queue are exactly
   the accepted records in order of acceptance (so nothing is written twice, skipped or reordered); each producer's
   records were accepted in the order of its log calls (strictly increasing sequence numbers); the sum of the
   "messages lost" reports plus the current counter is the number of dropped records; a record is dropped exactly when
   the bytes queued plus its own size exceed the limit measured from the source; logt_memory_used = bytes queued *)
Theorem C16_order_once : forall mprog progs sched, let s := exec true sched (cinit mprog progs) in
  c_error s = false /\
  accepted (c_gh s) = popped (c_gh s) ++ inflight (c_w s) ++ q (c_sh s) /\
  (forall i p, nth_error (c_prods s) i = Some p -> StronglySorted lt (tid_seqs i (c_gh s))) /\
  zsum (reported (c_gh s)) + drop (c_sh s) = Z.of_nat (length (dropped (c_gh s))) /\
  Forall decision_ok (plog (c_gh s)) /\ mem (c_sh s) = backlog (q (c_sh s)).
Proof. exact conc_order_once. Qed.
Print Assumptions C16_order_once.

(* when qb_log_fini has returned: the worker has exited, nothing is queued, every accepted record was taken off *)
Theorem C16_fini_complete : forall mprog progs sched, let s := exec true sched (cinit mprog progs) in
  stopped (c_gh s) = true ->
  popped (c_gh s) = accepted (c_gh s) /\ q (c_sh s) = [] /\ c_w s = WDone /\ mem (c_sh s) = 0.
Proof. exact conc_fini_complete. Qed.
Print Assumptions C16_fini_complete.

(* the code as found: qb_log_fini returns with a record still queued (15-step schedule, one producer, one message) *)
Theorem C16_fini_complete_refuted : exists mprog progs sched, let s := exec false sched (cinit mprog progs) in
  stopped (c_gh s) = true /\ c_error s = false /\ popped (c_gh s) <> accepted (c_gh s) /\ q (c_sh s) <> [].
Proof. exact conc_fini_complete_refuted. Qed.
Print Assumptions C16_fini_complete_refuted.

(* the code as found: qb_log_custom_close runs the close callback while the worker is inside the logger callback *)
Theorem C16_close_safe_refuted : exists mprog progs sched, c_error (exec false sched (cinit mprog progs)) = true.
Proof. exact conc_close_safe_refuted. Qed.
Print Assumptions C16_close_safe_refuted.

(* the lock is held by exactly one thread between its lock and unlock steps, in every reachable state *)
Theorem C16_mutex : forall mprog progs sched, let s := exec true sched (cinit mprog progs) in
  wsec (c_w s) + msec (c_m s) + psum fsec (c_prods s) = (if lock_free (c_sh s) then 0 else 1).
Proof. exact conc_mutex. Qed.
Print Assumptions C16_mutex.

(* FIFO holds for the code as found too: its defects are in shutdown, close and the thread lifecycle *)
Theorem C16_fifo_any_code : forall b mprog progs sched, let s := exec b sched (cinit mprog progs) in
  accepted (c_gh s) = popped (c_gh s) ++ inflight (c_w s) ++ q (c_sh s).
Proof. exact conc_fifo_any_code. Qed.
Print Assumptions C16_fifo_any_code.

(* the code as found: with two producers a log call made while the other producer is inside qb_log_real_va_ is turned
   away by the process-wide in_logger guard: it never reaches qb_log_thread_log_post, is not written and not counted as
   lost (repaired by fixes/C16-5: the guard is per thread; see C16_every_call_accounted) *)
Theorem C16_in_logger_guard_loss : let s := exec false guard_sched (cinit [MStop] guard_progs) in
  stopped (c_gh s) = true /\ c_error s = false /\ length (guarded (c_gh s)) = 1%nat /\
  length (plog (c_gh s)) = 1%nat /\ length (written (c_gh s)) = 1%nat /\ reported (c_gh s) = [] /\ drop (c_sh s) = 0.
Proof. exact conc_guard_loss. Qed.
Print Assumptions C16_in_logger_guard_loss.

(* with the per-thread guard (fixes/C16-5), for any number of producers and ALL schedules: no log call is turned away,
   and every log call begun by producer i is in the critical-section log (accepted, or dropped and then reported, see
   C16_order_once), or was made while the target was not enabled, or is the one about to take the lock *)
Theorem C16_every_call_accounted : forall mprog progs sched, let s := exec true sched (cinit mprog progs) in
  guarded (c_gh s) = [] /\
  forall i p, nth_error (c_prods s) i = Some p ->
    p_seq p = (count_tid i (plog_msgs (c_gh s)) + count_tid i (skipped (c_gh s)) + in_lock p)%nat.
Proof. exact conc_calls_accounted. Qed.
Print Assumptions C16_every_call_accounted.

(* deadlock freedom as an invariant: in every reachable state some thread can take a step, or everything has finished
   (all producers done, control program finished, and the worker has exited - or, when the control program never
   calls qb_log_fini, idles in sem_wait with semaphore 0 and the queue empty).  So no reachable state has all
   threads blocked while a record is queued, and qb_log_fini is never stuck in its join.  (Termination under a fair
   scheduler is liveness and is not stated.) *)
Theorem C16_no_deadlock : forall mprog progs sched, let s := exec true sched (cinit mprog progs) in
  (exists tid, cstep true s tid <> None) \/ quiescent s.
Proof. exact conc_no_deadlock. Qed.
Print Assumptions C16_no_deadlock.

Theorem C16_quiescent_queue_empty : forall mprog progs sched, let s := exec true sched (cinit mprog progs) in
  quiescent s -> q (c_sh s) = [].
Proof. exact quiescent_queue_empty. Qed.
Print Assumptions C16_quiescent_queue_empty.

(* "written exactly once" in full: when the control program never disables or closes the target (enabling, other
   control calls, join + qb_log_fini are allowed), every record the worker takes is handed to the target's logger, and
   when qb_log_fini has returned the sequence written to the target IS the sequence of accepted records *)
Theorem C16_written_all : forall mprog progs sched, forallb nondis mprog = true ->
  let s := exec true sched (cinit mprog progs) in
  written (c_gh s) = popped (c_gh s) /\
  (stopped (c_gh s) = true -> written (c_gh s) = accepted (c_gh s)).
Proof. exact conc_written_all. Qed.
Print Assumptions C16_written_all.

(* non-vacuity: a schedule on which the backlog limit is hit, a drop is reported and fini completes
   (message lengths derived from the regenerated constants, so that a different limit re-checks) *)
Example C16_conc_example :
  let k := LOGT_REC_SIZE + 1 + 10 in
  let s := exec true (repeat 2%nat 11 ++ repeat 1%nat 8 ++ repeat 2%nat 4 ++ repeat 0%nat 10 ++ repeat 1%nat 10 ++ [0%nat])
                (cinit [MStop] [[LOGT_LIMIT - (LOGT_REC_SIZE + 1) - k - 5; 10; 10; 10]]) in
  stopped (c_gh s) = true /\ map m_seq (written (c_gh s)) = [0; 1; 3]%nat /\ map m_seq (dropped (c_gh s)) = [2%nat] /\
  reported (c_gh s) = [1].
Proof. vm_compute. repeat split. Qed.
