(* C09: the consistency invariant of the loop-level model (repaired code, including
   fixes/C08-timer-del-forged-handle.patch): heap invariant, heap entries <-> ACTIVE slots, queued timer
   items <-> JOBLIST slots.  It holds in every state of every history; hence no assert() of tlist.h or of
   loop_timerlist.c ever fails and no model loop runs out of fuel (err stays false). *)
From Coq Require Import ZArith List Bool Lia.
Import ListNotations.
Require Import Verif.gen.Consts_looptimer Verif.HeapModel Verif.HeapProofs Verif.HeapSubset Verif.LoopTimerModel
               Verif.LoopTimerArith Verif.LoopTimerProofs.
Local Open Scope Z_scope.

Ltac fields := cbn [heap next_tid slots lv0 lv1 lv2 hz clk cstep stop issued out err].

(* ---------------------------------------------------------------- levels *)
Definition vp (p : Z) : Prop := 0 <= p <= 2.

Lemma vp_cases : forall p, vp p -> p = 0 \/ p = 1 \/ p = 2.
Proof. unfold vp. intros. lia. Qed.

Lemma get_set_lv : forall st p q l, vp p -> vp q -> get_lv (set_lv st p l) q = if q =? p then l else get_lv st q.
Proof.
  intros st p q l Hp Hq. destruct (vp_cases p Hp) as [->|[->| ->]]; destruct (vp_cases q Hq) as [->|[->| ->]]; reflexivity.
Qed.

Lemma set_lv_other : forall st p l,
  err (set_lv st p l) = err st /\ heap (set_lv st p l) = heap st /\ next_tid (set_lv st p l) = next_tid st /\
  slots (set_lv st p l) = slots st /\ stop (set_lv st p l) = stop st.
Proof. intros. unfold set_lv. destruct (p =? LT_LOOP_LOW); [|destruct (p =? LT_LOOP_MED)]; fields; auto. Qed.

Fixpoint count_t (i : Z) (l : list item) : nat :=
  match l with
  | [] => 0
  | ITimer j :: t => (if j =? i then 1 else 0) + count_t i t
  | IJob _ :: t => count_t i t
  end.

Lemma count_t_in : forall i l, In (ITimer i) l <-> (1 <= count_t i l)%nat.
Proof.
  induction l as [|[j|d] l]; simpl.
  - split; [intros []|lia].
  - destruct (j =? i) eqn:E; [apply Z.eqb_eq in E; subst|apply Z.eqb_neq in E].
    + split; [lia|auto].
    + rewrite <- IHl. split; [intros [X|X]; [inversion X; congruence|assumption]|auto].
  - rewrite <- IHl. split; [intros [X|X]; [discriminate|assumption]|auto].
Qed.

Lemma count_t_app : forall i a b, count_t i (a ++ b) = (count_t i a + count_t i b)%nat.
Proof. induction a as [|[j|d] a]; intros b; simpl; auto. rewrite IHa. lia. Qed.

Lemma count_t_jobs : forall i w, count_t i (map IJob w) = 0%nat.
Proof. induction w; simpl; auto. Qed.

Lemma count_t_remove : forall i j l,
  count_t i (remove_first (ITimer j) l) = (if i =? j then pred (count_t i l) else count_t i l).
Proof.
  induction l as [|[k|d] l]; simpl.
  - destruct (i =? j); reflexivity.
  - destruct (k =? j) eqn:E1; [apply Z.eqb_eq in E1; subst k|apply Z.eqb_neq in E1].
    + destruct (j =? i) eqn:E2; [apply Z.eqb_eq in E2; subst; rewrite Z.eqb_refl; simpl; lia|].
      apply Z.eqb_neq in E2. replace (i =? j) with false by (symmetry; apply Z.eqb_neq; congruence). simpl. lia.
    + simpl. rewrite IHl. destruct (i =? j) eqn:E2; [apply Z.eqb_eq in E2; subst i|]; auto.
      replace (k =? j) with false by (symmetry; apply Z.eqb_neq; assumption). simpl. reflexivity.
  - simpl. exact IHl.
Qed.

Lemma in_remove_first : forall x it l, In x (remove_first it l) -> In x l.
Proof.
  induction l as [|y l]; simpl; [auto|]. destruct (item_eqb y it); [auto|]. intros [<-|H]; auto.
Qed.

(* ---------------------------------------------------------------- slots *)
Lemma nth_slot_spec : forall st i s, nth_slot st i = Some s <-> (0 <= i /\ nth_error (slots st) (Z.to_nat i) = Some s).
Proof.
  intros st i s. unfold nth_slot. destruct (i <? 0) eqn:E1; cbn [orb].
  - apply Z.ltb_lt in E1. split; [discriminate|lia].
  - apply Z.ltb_ge in E1. destruct (i >=? Z.of_nat (length (slots st))) eqn:E2.
    + rewrite Z.geb_leb in E2. apply Z.leb_le in E2. split; [discriminate|].
      intros [_ H]. assert (Z.to_nat i < length (slots st))%nat by (apply nth_error_Some; congruence). lia.
    + tauto.
Qed.

Lemma nth_slot_ext : forall st st' i, slots st' = slots st -> nth_slot st' i = nth_slot st i.
Proof. intros st st' i E. unfold nth_slot. rewrite E. reflexivity. Qed.

Lemma nth_slot_lt : forall st i s, nth_slot st i = Some s -> 0 <= i < Z.of_nat (length (slots st)).
Proof.
  intros st i s H. apply nth_slot_spec in H. destruct H as [H0 H].
  assert (Z.to_nat i < length (slots st))%nat by (apply nth_error_Some; congruence). lia.
Qed.

Lemma nth_slot_put : forall st i s j, 0 <= i < Z.of_nat (length (slots st)) ->
  nth_slot (put_slot st i s) j = if j =? i then Some s else nth_slot st j.
Proof.
  intros st i s j Hi. destruct (nth_slot (put_slot st i s) j) as [x|] eqn:E.
  - apply nth_slot_spec in E. destruct E as [H0 E]. unfold put_slot, set_slots in E. fields.
    cbn [slots] in E. rewrite nth_error_upd in E.
    destruct (Nat.eqb (Z.to_nat j) (Z.to_nat i)) eqn:Q.
    + apply Nat.eqb_eq in Q. replace (j =? i) with true by (symmetry; apply Z.eqb_eq; lia).
      destruct (Nat.ltb _ _); congruence.
    + apply Nat.eqb_neq in Q. replace (j =? i) with false by (symmetry; apply Z.eqb_neq; intros ->; congruence).
      symmetry. apply nth_slot_spec. auto.
  - destruct (j =? i) eqn:Q.
    + apply Z.eqb_eq in Q. subst j. exfalso.
      assert (nth_slot (put_slot st i s) i = Some s); [|congruence].
      apply nth_slot_spec. split; [lia|]. unfold put_slot, set_slots. cbn [slots]. rewrite nth_error_upd, Nat.eqb_refl.
      replace (Nat.ltb (Z.to_nat i) (length (slots st))) with true by (symmetry; apply Nat.ltb_lt; lia). reflexivity.
    + apply Z.eqb_neq in Q. destruct (nth_slot st j) as [y|] eqn:F; [|reflexivity]. exfalso.
      assert (nth_slot (put_slot st i s) j = Some y); [|congruence].
      apply nth_slot_spec in F. destruct F as [F0 F]. apply nth_slot_spec. split; [assumption|].
      unfold put_slot, set_slots. cbn [slots]. rewrite nth_error_upd.
      replace (Nat.eqb (Z.to_nat j) (Z.to_nat i)) with false by (symmetry; apply Nat.eqb_neq; lia). assumption.
Qed.

Lemma nth_slot_app : forall st z j,
  nth_slot (set_slots st (slots st ++ [z])) j = if j =? Z.of_nat (length (slots st)) then Some z else nth_slot st j.
Proof.
  intros st z j. set (n := Z.of_nat (length (slots st))).
  assert (L : length (slots (set_slots st (slots st ++ [z]))) = S (length (slots st)))
    by (unfold set_slots; cbn [slots]; rewrite app_length; simpl; lia).
  destruct (j =? n) eqn:Q.
  - apply Z.eqb_eq in Q. apply nth_slot_spec. subst j. split; [unfold n; lia|].
    unfold set_slots. cbn [slots]. unfold n. rewrite Nat2Z.id, nth_error_app2, Nat.sub_diag by lia. reflexivity.
  - apply Z.eqb_neq in Q. unfold nth_slot. rewrite L. unfold set_slots. cbn [slots].
    destruct (j <? 0) eqn:E1; cbn [orb]; [reflexivity|]. apply Z.ltb_ge in E1.
    destruct (j >=? Z.of_nat (length (slots st))) eqn:E2.
    + rewrite Z.geb_leb in E2. apply Z.leb_le in E2.
      replace (j >=? Z.of_nat (S (length (slots st)))) with true; [reflexivity|].
      symmetry. rewrite Z.geb_leb. apply Z.leb_le. unfold n in Q. lia.
    + rewrite Z.geb_leb in E2. apply Z.leb_gt in E2.
      replace (j >=? Z.of_nat (S (length (slots st)))) with false by (symmetry; rewrite Z.geb_leb; apply Z.leb_gt; lia).
      apply nth_error_app1. lia.
Qed.

(* _get_empty_array_position_ *)
Lemma first_empty_spec : forall l k, k <= first_empty l k <= k + Z.of_nat (length l) /\
  (first_empty l k < k + Z.of_nat (length l) ->
   exists s, nth_error l (Z.to_nat (first_empty l k - k)) = Some s /\ s_state s = LT_ENTRY_EMPTY).
Proof.
  induction l as [|s l]; intros k; cbn [first_empty length].
  - split; [simpl; lia|simpl; lia].
  - destruct (s_state s =? LT_ENTRY_EMPTY) eqn:E.
    + apply Z.eqb_eq in E. split; [lia|]. intros _. exists s. rewrite Z.sub_diag. split; [reflexivity|assumption].
    + destruct (IHl (k + 1)) as [A B]. split; [lia|]. intros H.
      destruct B as [x [B1 B2]]; [lia|]. exists x. split; [|assumption].
      replace (Z.to_nat (first_empty l (k + 1) - k)) with (S (Z.to_nat (first_empty l (k + 1) - (k + 1)))) by lia.
      exact B1.
Qed.

(* ---------------------------------------------------------------- the invariant *)
Definition q_ok (st : lp) (p : Z) : Prop :=
  (forall i, In (ITimer i) (job_head (get_lv st p)) ->
     exists s, nth_slot st i = Some s /\ s_state s = LT_ENTRY_JOBLIST /\ s_prio s = p) /\
  (forall i, (count_t i (job_head (get_lv st p)) <= 1)%nat).

Definition in_q (st : lp) (i : Z) : Prop := exists p, vp p /\ In (ITimer i) (job_head (get_lv st p)).

(* `pend': timers already popped from the heap by timerlist_expire whose timer_fn has not run yet *)
Record Sp (pend : list tmr) (st : lp) : Prop := mkSp {
  s_err : err st = false;
  s_hinv : hinv (heap st);
  s_mem : forall tm, mem (ents (heap st)) tm \/ In tm pend ->
          t_id tm < next_tid st /\
          exists s, nth_slot st (t_data tm) = Some s /\ s_state s = LT_ENTRY_ACTIVE /\ s_th s = Some tm;
  s_thm : forall i s tm, nth_slot st i = Some s -> s_th s = Some tm ->
          s_state s = LT_ENTRY_ACTIVE /\ (mem (ents (heap st)) tm \/ In tm pend) /\ t_data tm = i;
  s_act : forall i s, nth_slot st i = Some s -> s_state s = LT_ENTRY_ACTIVE -> s_th s <> None;
  s_prio_ok : forall i s, nth_slot st i = Some s -> vp (s_prio s);
  s_q : forall p, vp p -> q_ok st p;
  s_pend : NoDup (map t_id pend) /\ forall tm, In tm pend -> ~ mem (ents (heap st)) tm }.

Definition S := Sp [].

(* states that differ only in fields the invariant does not mention *)
Lemma Sp_same : forall pend st st',
  Sp pend st -> err st' = err st -> heap st' = heap st -> next_tid st <= next_tid st' -> slots st' = slots st ->
  (forall p, vp p -> job_head (get_lv st' p) = job_head (get_lv st p)) -> Sp pend st'.
Proof.
  intros pend st st' [A B C D E F G H] Ee Eh En Es Eq. constructor.
  - congruence.
  - rewrite Eh. assumption.
  - intros tm Htm. rewrite Eh in Htm. destruct (C tm Htm) as [C1 [s C2]]. split; [lia|]. exists s.
    rewrite (nth_slot_ext st st' _ Es). assumption.
  - intros i s tm Hs Ht. rewrite (nth_slot_ext st st' _ Es) in Hs. rewrite Eh. eauto.
  - intros i s Hs. rewrite (nth_slot_ext st st' _ Es) in Hs. eauto.
  - intros i s Hs. rewrite (nth_slot_ext st st' _ Es) in Hs. eauto.
  - intros p Hp. destruct (G p Hp) as [G1 G2]. split.
    + intros i Hi. rewrite (Eq p Hp) in Hi. destruct (G1 i Hi) as [s X]. exists s. rewrite (nth_slot_ext st st' _ Es). assumption.
    + intros i. rewrite (Eq p Hp). apply G2.
  - rewrite Eh. assumption.
Qed.

Lemma Sp_advance : forall pend st n, Sp pend st -> Sp pend (advance st n).
Proof. intros. apply (Sp_same pend st); auto; unfold advance, set_clk; fields; auto; lia. Qed.

Lemma Sp_emit : forall pend st e, Sp pend st -> Sp pend (emit st e).
Proof. intros. apply (Sp_same pend st); auto; unfold emit; fields; auto; lia. Qed.

Lemma Sp_set_stop : forall pend st b, Sp pend st -> Sp pend (set_stop st b).
Proof. intros. apply (Sp_same pend st); auto; unfold set_stop; fields; auto; lia. Qed.

Lemma Sp_push_issued : forall pend st h, Sp pend st -> Sp pend (push_issued st h).
Proof. intros. apply (Sp_same pend st); auto; unfold push_issued; fields; auto; lia. Qed.

Lemma Sp_bump : forall pend st, Sp pend st -> Sp pend (bump_tid st).
Proof. intros. apply (Sp_same pend st); auto; unfold bump_tid; fields; auto; lia. Qed.

Lemma Sp_read_clock : forall pend st, Sp pend st -> Sp pend (snd (read_clock st)).
Proof. intros. unfold read_clock. cbn [snd]. apply Sp_advance. assumption. Qed.

(* a level rewritten with the same job list (wait list / todo counter changes) *)
Lemma Sp_set_lv_same : forall pend st p l, Sp pend st -> vp p -> job_head l = job_head (get_lv st p) -> Sp pend (set_lv st p l).
Proof.
  intros pend st p l H Hp Hl. destruct (set_lv_other st p l) as [A [B [C [D _]]]].
  apply (Sp_same pend st); auto; [lia|].
  intros q Hq. rewrite get_set_lv by assumption. destruct (q =? p) eqn:E; [apply Z.eqb_eq in E; subst; assumption|reflexivity].
Qed.

Lemma Sp_job_add : forall pend st p data, Sp pend st -> Sp pend (job_add st p data).
Proof.
  intros pend st p data H. unfold job_add.
  destruct ((p <? LT_LOOP_LOW) || (p >? LT_LOOP_HIGH)) eqn:E; [apply Sp_emit; assumption|].
  apply orb_false_iff in E. destruct E as [E1 E2]. apply Z.ltb_ge in E1. rewrite Z.gtb_ltb in E2. apply Z.ltb_ge in E2.
  apply Sp_emit. apply Sp_set_lv_same; [assumption|unfold vp, LT_LOOP_LOW, LT_LOOP_HIGH in *; lia|reflexivity].
Qed.

Lemma Sp_time_remaining : forall pend st h, Sp pend st -> Sp pend (snd (time_remaining fixed st h)).
Proof.
  intros pend st h H. unfold time_remaining. destruct (timer_from_handle fixed st h) as [e|i t]; [assumption|].
  destruct (negb (s_state t =? LT_ENTRY_ACTIVE)); [assumption|].
  pose proof (Sp_read_clock pend st H) as H2. destruct (read_clock st) as [now st2]. cbn [snd] in H2.
  destruct (_ <? now); assumption.
Qed.

Lemma Sp_msec : forall pend st, Sp pend st -> Sp pend (snd (msec_to_expire fixed st)).
Proof.
  intros pend st H. unfold msec_to_expire, tl_msec_to_expire.
  destruct (size (heap st) =? 0) eqn:E; [assumption|]. apply Z.eqb_neq in E.
  destruct (at_ex (ents (heap st)) 0) as [r Hr]; [unfold size in E; lia|].
  rewrite (proj2 (entry_get_at (heap st) 0 r) Hr).
  pose proof (Sp_read_clock pend st H) as H2. destruct (read_clock st) as [now st2]. cbn [snd] in H2.
  destruct (_ <? now); assumption.
Qed.

(* ---------------------------------------------------------------- qb_loop_timer_add *)
Definition wf2_cbop (c : cbop) : Prop := match c with CAdd p dur _ _ => vp p /\ u64 dur | _ => True end.

Lemma consts_states : LT_ENTRY_EMPTY <> LT_ENTRY_ACTIVE /\ LT_ENTRY_EMPTY <> LT_ENTRY_JOBLIST /\ LT_ENTRY_ACTIVE <> LT_ENTRY_JOBLIST /\
  LT_ENTRY_DELETED <> LT_ENTRY_ACTIVE /\ LT_ENTRY_DELETED <> LT_ENTRY_JOBLIST.
Proof. vm_compute. repeat split; congruence. Qed.

(* the state in which timer_add writes its slot: index i holds an EMPTY slot *)
Lemma add_slot_ready : forall st, S st ->
  let i := first_empty (slots st) 0 in
  let st1 := if i >=? Z.of_nat (length (slots st)) then set_slots st (slots st ++ [zero_slot]) else st in
  S st1 /\ (exists s0, nth_slot st1 i = Some s0 /\ s_state s0 = LT_ENTRY_EMPTY) /\
  heap st1 = heap st /\ next_tid st1 = next_tid st /\
  (forall j s, nth_slot st j = Some s -> nth_slot st1 j = Some s) /\
  (forall p, get_lv st1 p = get_lv st p).
Proof.
  intros st H i st1. destruct (first_empty_spec (slots st) 0) as [[F0 F1] F2]. fold i in F0, F1, F2.
  unfold st1. destruct (i >=? Z.of_nat (length (slots st))) eqn:E.
  - rewrite Z.geb_leb in E. apply Z.leb_le in E. assert (Ei : i = Z.of_nat (length (slots st))) by lia.
    split; [|split; [|split; [reflexivity|split; [reflexivity|split; [|reflexivity]]]]].
    + destruct H as [A B C D E' F G I]. constructor; unfold set_slots; fields; auto.
      * intros tm Htm. destruct (C tm Htm) as [C1 [s [C2 C3]]]. split; [assumption|]. exists s. split; [|assumption].
        pose proof (nth_slot_app st zero_slot (t_data tm)) as X. unfold set_slots in X. rewrite X.
        pose proof (nth_slot_lt _ _ _ C2). replace (t_data tm =? Z.of_nat (length (slots st))) with false by (symmetry; apply Z.eqb_neq; lia). assumption.
      * intros j s tm Hs Ht. pose proof (nth_slot_app st zero_slot j) as X. unfold set_slots in X. rewrite X in Hs.
        destruct (j =? Z.of_nat (length (slots st))); [inversion Hs; subst s; discriminate|eauto].
      * intros j s Hs. pose proof (nth_slot_app st zero_slot j) as X. unfold set_slots in X. rewrite X in Hs.
        destruct (j =? Z.of_nat (length (slots st))); [inversion Hs; subst s; vm_compute; congruence|eauto].
      * intros j s Hs. pose proof (nth_slot_app st zero_slot j) as X. unfold set_slots in X. rewrite X in Hs.
        destruct (j =? Z.of_nat (length (slots st))); [inversion Hs; subst s; vm_compute; split; congruence|eauto].
      * intros p Hp. destruct (G p Hp) as [G1 G2]. split; [|exact G2]. intros j Hj. destruct (G1 j Hj) as [s [X1 X2]].
        exists s. split; [|assumption]. pose proof (nth_slot_app st zero_slot j) as X. unfold set_slots in X. 
        change (get_lv _ p) with (get_lv st p) in *. rewrite X.
        pose proof (nth_slot_lt _ _ _ X1). replace (j =? Z.of_nat (length (slots st))) with false by (symmetry; apply Z.eqb_neq; lia). assumption.
    + exists zero_slot. rewrite nth_slot_app, Ei, Z.eqb_refl. split; reflexivity.
    + intros j s Hs. rewrite nth_slot_app. pose proof (nth_slot_lt _ _ _ Hs).
      replace (j =? Z.of_nat (length (slots st))) with false by (symmetry; apply Z.eqb_neq; lia). assumption.
  - rewrite Z.geb_leb in E. apply Z.leb_gt in E.
    split; [assumption|]. split; [|auto]. destruct F2 as [s [X1 X2]]; [lia|]. exists s. split; [|assumption].
    apply nth_slot_spec. rewrite Z.sub_0_r in X1. split; [lia|assumption].
Qed.

Lemma S_timer_add : forall st p dur data chk, S st -> vp p -> S (timer_add fixed st p dur data chk).
Proof.
  intros st p dur data chk H Hp. unfold timer_add.
  destruct (add_slot_ready st H) as [H1 [[s0 [N0 E0]] [Eh [En [Ek Eq]]]]].
  set (i := first_empty (slots st) 0) in *.
  set (st1 := if i >=? Z.of_nat (length (slots st)) then set_slots st (slots st ++ [zero_slot]) else st) in *.
  pose proof (Sp_read_clock [] st1 H1) as H2.
  assert (R : snd (read_clock st1) = advance st1 (cstep st1)) by reflexivity.
  destruct (read_clock st1) as [now st2] eqn:RC. cbn [snd] in H2, R.
  assert (N2 : nth_slot st2 i = Some s0) by (rewrite R; rewrite (nth_slot_ext st1); [assumption|reflexivity]).
  assert (Eh2 : heap st2 = heap st1) by (rewrite R; reflexivity).
  pose proof (Sp_bump [] st2 H2) as H3.
  set (timer := mkT (expire_of fixed now dur) (next_tid st2) i now dur).
  destruct (heap_add_ok (heap (bump_tid st2)) timer (s_hinv _ _ H3)) as [hp [A [I [L M]]]].
  { intros u Hu. destruct (s_mem _ _ H2 u (or_introl Hu)) as [X _].
    unfold timer. cbn [t_id]. lia. }
  rewrite A.
  set (ns := mkS LT_ENTRY_ACTIVE (to_i32 chk) p data (Some timer) now dur 0).
  apply Sp_emit. apply Sp_push_issued.
  pose proof (nth_slot_lt _ _ _ N2) as Li.
  assert (NS : forall j, nth_slot (put_slot (set_heap (bump_tid st2) hp) i ns) j = if j =? i then Some ns else nth_slot st2 j).
  { intros j. rewrite nth_slot_put; [|exact Li].
    destruct (j =? i); [reflexivity|]. apply nth_slot_ext. reflexivity. }
  set (st4 := put_slot (set_heap (bump_tid st2) hp) i ns) in *.
  assert (QE : forall q, get_lv st4 q = get_lv st2 q) by reflexivity.
  assert (E4h : heap st4 = hp) by reflexivity.
  assert (E4n : next_tid st4 = next_tid st2 + 1) by reflexivity.
  assert (E4e : err st4 = err st2) by reflexivity.
  clearbody st4.
  destruct H2 as [A2 B2 C2 D2 E2 F2 G2 I2].
  constructor.
  - congruence.
  - rewrite E4h. exact I.
  - intros tm [Htm|[]]. rewrite E4h in Htm. apply M in Htm. rewrite E4n.
    destruct Htm as [Htm| ->].
    + destruct (C2 tm (or_introl Htm)) as [X1 [s [X2 [X3 X4]]]]. split; [lia|]. exists s. split; [|split; assumption].
      rewrite NS.
      destruct (t_data tm =? i) eqn:Q; [|assumption]. apply Z.eqb_eq in Q. rewrite Q in X2. rewrite N2 in X2. inversion X2; subst s.
      destruct consts_states. congruence.
    + split; [unfold timer; cbn [t_id]; lia|]. exists ns. split; [|split; reflexivity].
      rewrite NS. unfold timer. cbn [t_data]. rewrite Z.eqb_refl. reflexivity.
  - intros j s tm Hs Ht. rewrite NS in Hs. rewrite E4h.
    destruct (j =? i) eqn:Q.
    + apply Z.eqb_eq in Q. inversion Hs; subst s. cbn [s_th s_state ns] in *. inversion Ht; subst tm.
      split; [reflexivity|]. split; [left; apply M; right; reflexivity|unfold timer; cbn [t_data]; congruence].
    + destruct (D2 j s tm Hs Ht) as [X1 [[X2|[]] X3]]. split; [assumption|]. split; [left; apply M; left; assumption|assumption].
  - intros j s Hs. rewrite NS in Hs. destruct (j =? i); [inversion Hs; subst s; discriminate|eauto].
  - intros j s Hs. rewrite NS in Hs. destruct (j =? i); [inversion Hs; subst s; exact Hp|eauto].
  - intros q Hq. destruct (G2 q Hq) as [G21 G22]. split.
    + intros j Hj. rewrite QE in Hj. destruct (G21 j Hj) as [s [X1 [X2 X3]]]. exists s. rewrite NS.
      destruct (j =? i) eqn:Q; [|auto]. apply Z.eqb_eq in Q. subst j. rewrite N2 in X1. inversion X1; subst s.
      destruct consts_states as [_ [? _]]. congruence.
    + intros j. rewrite QE. apply G22.
  - split; [constructor|intros tm []].
Qed.

(* ---------------------------------------------------------------- generic slot / level rewrites *)
Lemma Sp_set_lv_sub : forall pend st p l, Sp pend st -> vp p ->
  (forall j, In (ITimer j) (job_head l) -> In (ITimer j) (job_head (get_lv st p))) ->
  (forall j, (count_t j (job_head l) <= count_t j (job_head (get_lv st p)))%nat) ->
  Sp pend (set_lv st p l).
Proof.
  intros pend st p l [A B C D E F G I] Hp Hin Hc.
  destruct (set_lv_other st p l) as [Ee [Eh [En [Es _]]]].
  constructor.
  - congruence.
  - rewrite Eh. assumption.
  - intros tm Htm. rewrite Eh in Htm. destruct (C tm Htm) as [C1 [s C2]]. split; [rewrite En; assumption|]. exists s.
    rewrite (nth_slot_ext st _ _ Es). assumption.
  - intros i s tm Hs Ht. rewrite (nth_slot_ext st _ _ Es) in Hs. rewrite Eh. eauto.
  - intros i s Hs. rewrite (nth_slot_ext st _ _ Es) in Hs. eauto.
  - intros i s Hs. rewrite (nth_slot_ext st _ _ Es) in Hs. eauto.
  - intros q Hq. destruct (G q Hq) as [G1 G2]. unfold q_ok. rewrite get_set_lv by assumption.
    destruct (q =? p) eqn:Q.
    + apply Z.eqb_eq in Q. subst q. split.
      * intros i Hi. destruct (G1 i (Hin i Hi)) as [s X]. exists s. rewrite (nth_slot_ext st _ _ Es). assumption.
      * intros i. pose proof (Hc i). pose proof (G2 i). lia.
    + split; [|exact G2]. intros i Hi. destruct (G1 i Hi) as [s X]. exists s. rewrite (nth_slot_ext st _ _ Es). assumption.
  - rewrite Eh. assumption.
Qed.

Lemma in_q_set_lv : forall st p l i, vp p ->
  (In (ITimer i) (job_head l) -> In (ITimer i) (job_head (get_lv st p))) ->
  in_q (set_lv st p l) i -> in_q st i.
Proof.
  intros st p l i Hp Hin [q [Hq H]]. rewrite get_set_lv in H by assumption. exists q. split; [assumption|].
  destruct (q =? p) eqn:Q; [apply Z.eqb_eq in Q; subst q; auto|assumption].
Qed.

(* overwrite a slot that carries no heap object and is on no job list by an idle one *)
Lemma Sp_put_idle : forall pend st i t s', Sp pend st -> nth_slot st i = Some t -> s_th t = None -> ~ in_q st i ->
  s_th s' = None -> s_state s' <> LT_ENTRY_ACTIVE -> vp (s_prio s') -> Sp pend (put_slot st i s').
Proof.
  intros pend st i t s' [A B C D E F G I] N T Q T' A' P'.
  pose proof (nth_slot_lt _ _ _ N) as Li.
  assert (NS : forall j, nth_slot (put_slot st i s') j = if j =? i then Some s' else nth_slot st j)
    by (intros; apply nth_slot_put; assumption).
  constructor; try assumption.
  - intros tm Htm. destruct (C tm Htm) as [C1 [s [C2 [C3 C4]]]]. split; [assumption|]. exists s. rewrite NS.
    destruct (t_data tm =? i) eqn:X; [|auto]. apply Z.eqb_eq in X. rewrite X in C2. rewrite N in C2. inversion C2; subst s. congruence.
  - intros j s tm Hs Ht. rewrite NS in Hs. destruct (j =? i); [inversion Hs; subst s; congruence|]. exact (D j s tm Hs Ht).
  - intros j s Hs. rewrite NS in Hs. destruct (j =? i); [inversion Hs; subst s; intros; contradiction|eauto].
  - intros j s Hs. rewrite NS in Hs. destruct (j =? i); [inversion Hs; subst s; assumption|eauto].
  - intros q Hq. destruct (G q Hq) as [G1 G2]. split; [|exact G2]. intros j Hj. destruct (G1 j Hj) as [s X]. exists s. rewrite NS.
    destruct (j =? i) eqn:Y; [|assumption]. apply Z.eqb_eq in Y. subst j. exfalso. apply Q. exists q. split; assumption.
Qed.

Lemma in_q_put_slot : forall st i s j, in_q (put_slot st i s) j <-> in_q st j.
Proof. intros. unfold in_q. split; intros [p [Hp H]]; exists p; split; auto. Qed.

Lemma existsb_item : forall it l, existsb (item_eqb it) l = true <-> In it l.
Proof.
  intros it l. rewrite existsb_exists. split.
  - intros [x [Hx E]]. destruct it, x; simpl in E; try discriminate; apply Z.eqb_eq in E; subst; assumption.
  - intros H. exists it. split; [assumption|]. destruct it; simpl; apply Z.eqb_refl.
Qed.

(* qb_loop_level_item_del of a queued timer: afterwards it is on no list *)
Lemma lid_spec : forall pend st i t, Sp pend st -> nth_slot st i = Some t ->
  let st1 := level_item_del st (s_prio t) (ITimer i) in
  Sp pend st1 /\ ~ in_q st1 i /\ slots st1 = slots st /\ heap st1 = heap st /\ (forall j, in_q st1 j -> in_q st j).
Proof.
  intros pend st i t H N st1. pose proof (s_prio_ok _ _ H i t N) as Hp.
  assert (Other : forall q, vp q -> q <> s_prio t -> ~ In (ITimer i) (job_head (get_lv st q))).
  { intros q Hq Nq X. destruct (s_q _ _ H q Hq) as [G1 _]. destruct (G1 i X) as [s [Y1 [_ Y3]]]. rewrite N in Y1. inversion Y1; subst s. congruence. }
  unfold st1, level_item_del. destruct (existsb (item_eqb (ITimer i)) (job_head (get_lv st (s_prio t)))) eqn:E.
  - set (l := mkL (remove_first (ITimer i) (job_head (get_lv st (s_prio t)))) (wait_head (get_lv st (s_prio t))) (todo (get_lv st (s_prio t)) - 1)).
    destruct (set_lv_other st (s_prio t) l) as [_ [Eh [_ [Es _]]]].
    split; [|split; [|split; [assumption|split; [assumption|]]]].
    + apply Sp_set_lv_sub; auto.
      * intros j Hj. unfold l in Hj. cbn [job_head] in Hj. eapply in_remove_first; eauto.
      * intros j. unfold l. cbn [job_head]. rewrite count_t_remove. destruct (j =? i); lia.
    + intros [q [Hq X]]. rewrite get_set_lv in X by assumption. destruct (q =? s_prio t) eqn:Q.
      * unfold l in X. cbn [job_head] in X. apply count_t_in in X. rewrite count_t_remove, Z.eqb_refl in X.
        destruct (s_q _ _ H (s_prio t) Hp) as [_ G2]. pose proof (G2 i). lia.
      * apply Z.eqb_neq in Q. exact (Other q Hq Q X).
    + intros j. apply in_q_set_lv; [assumption|]. intros X. unfold l in X. cbn [job_head] in X. eapply in_remove_first; eauto.
  - split; [assumption|]. split; [|auto]. intros [q [Hq X]].
    destruct (Z.eq_dec q (s_prio t)) as [->|Nq]; [|exact (Other q Hq Nq X)].
    apply existsb_item in X. congruence.
Qed.

Lemma mem_same_id : forall h a b, hinv h -> mem (ents h) a -> mem (ents h) b -> t_id a = t_id b -> a = b.
Proof.
  intros h a b [_ B] [i Hi] [j Hj] E. pose proof (bp_inj h i j a b B Hi Hj E). subst j. eapply at_fun; eauto.
Qed.

(* _timer_from_handle_ with the zero-check test: only real slots with a non-zero check word *)
Lemma lookup_fixed : forall st h i t, timer_from_handle fixed st h = LOk i t -> nth_slot st i = Some t /\ s_check t <> 0.
Proof.
  intros st h i t. unfold timer_from_handle. destruct (h =? 0); [discriminate|].
  cbn [f_chk0 fixed andb]. destruct (to_i32 (h / two32) =? 0) eqn:C; [discriminate|]. apply Z.eqb_neq in C.
  destruct (to_i32 (h mod two32) <? 0); [discriminate|].
  destruct (nth_slot st (to_i32 (h mod two32))) as [s|] eqn:N.
  - destruct (s_check s =? to_i32 (h / two32)) eqn:Q; [|discriminate]. apply Z.eqb_eq in Q.
    intros X. inversion X; subst. split; [assumption|congruence].
  - destruct (_ >? _); [discriminate|]. replace (0 =? to_i32 (h / two32)) with false by (symmetry; apply Z.eqb_neq; congruence).
    discriminate.
Qed.

(* ---------------------------------------------------------------- qb_loop_timer_del *)
Lemma S_timer_del : forall st h, S st -> S (timer_del fixed st h).
Proof.
  intros st h H. unfold timer_del. destruct (timer_from_handle fixed st h) as [e|i t] eqn:L; [apply Sp_emit; assumption|].
  destruct (lookup_fixed _ _ _ _ L) as [N C].
  replace (s_check t =? 0) with false by (symmetry; apply Z.eqb_neq; assumption).
  destruct (s_state t =? LT_ENTRY_DELETED); [apply Sp_emit; assumption|].
  destruct (negb (s_state t =? LT_ENTRY_ACTIVE) && negb (s_state t =? LT_ENTRY_JOBLIST)) eqn:B; [apply Sp_emit; assumption|].
  pose proof (s_prio_ok _ _ H i t N) as Hp.
  destruct (s_state t =? LT_ENTRY_JOBLIST) eqn:J.
  - apply Z.eqb_eq in J.
    destruct (lid_spec [] st i t H N) as [H1 [Q1 [Es [Eh _]]]].
    set (st1 := level_item_del st (s_prio t) (ITimer i)) in *.
    assert (N1 : nth_slot st1 i = Some t) by (rewrite (nth_slot_ext st st1 _ Es); assumption).
    destruct (s_th t) as [tm|] eqn:T.
    + exfalso. destruct (s_thm _ _ H i t tm N T) as [X _]. destruct consts_states as [_ [_ [? _]]]. congruence.
    + apply Sp_emit. apply (Sp_put_idle [] st1 i t); auto; cbn [with_state s_th s_state s_prio]; auto.
      destruct consts_states as [? _]. assumption.
  - assert (A : s_state t = LT_ENTRY_ACTIVE).
    { apply andb_false_iff in B. destruct B as [B|B]; apply negb_false_iff in B; [apply Z.eqb_eq in B; assumption|congruence]. }
    destruct (s_th t) as [tm|] eqn:T.
    + destruct (s_thm _ _ H i t tm N T) as [_ [[M|[]] D]].
      destruct (heap_delete_ok (heap st) tm (s_hinv _ _ H) M) as [hp [E [I [Ln Mm]]]]. rewrite E.
      apply Sp_emit.
      set (s' := with_state (with_th t None) LT_ENTRY_EMPTY).
      pose proof (nth_slot_lt _ _ _ N) as Li.
      assert (NS : forall j, nth_slot (put_slot (set_heap st hp) i s') j = if j =? i then Some s' else nth_slot st j).
      { intros j. rewrite nth_slot_put; [|exact Li]. destruct (j =? i); [reflexivity|]. apply nth_slot_ext. reflexivity. }
      set (st4 := put_slot (set_heap st hp) i s') in *.
      assert (QE : forall q, get_lv st4 q = get_lv st q) by reflexivity.
      assert (E4h : heap st4 = hp) by reflexivity.
      assert (E4n : next_tid st4 = next_tid st) by reflexivity.
      assert (E4e : err st4 = err st) by reflexivity.
      clearbody st4.
      destruct H as [A2 B2 C2 D2 E2 F2 G2 I2].
      constructor.
      * congruence.
      * rewrite E4h. exact I.
      * intros u [Hu|[]]. rewrite E4h in Hu. apply Mm in Hu. destruct Hu as [Hu Nu]. rewrite E4n.
        destruct (C2 u (or_introl Hu)) as [X1 [s [X2 [X3 X4]]]]. split; [assumption|]. exists s. split; [|split; assumption].
        rewrite NS. destruct (t_data u =? i) eqn:Q; [|assumption]. apply Z.eqb_eq in Q. rewrite Q in X2. rewrite N in X2.
        inversion X2; subst s. rewrite T in X4. inversion X4; subst u. congruence.
      * intros j s u Hs Hu. rewrite NS in Hs. rewrite E4h. destruct (j =? i) eqn:Q; [inversion Hs; subst s; discriminate|].
        destruct (D2 j s u Hs Hu) as [X1 [[X2|[]] X3]]. split; [assumption|]. split; [|assumption]. left. apply Mm. split; [assumption|].
        intro X. assert (u = tm) by (exact (mem_same_id (heap st) u tm B2 X2 M X)). subst u. apply Z.eqb_neq in Q. congruence.
      * intros j s Hs. rewrite NS in Hs. destruct (j =? i); [inversion Hs; subst s; cbn [s' with_state s_state]; destruct consts_states; congruence|eauto].
      * intros j s Hs. rewrite NS in Hs. destruct (j =? i); [inversion Hs; subst s; exact Hp|eauto].
      * intros q Hq. destruct (G2 q Hq) as [G21 G22]. split.
        -- intros j Hj. rewrite QE in Hj. destruct (G21 j Hj) as [s [X1 [X2 X3]]]. exists s. rewrite NS.
           destruct (j =? i) eqn:Q; [|auto]. apply Z.eqb_eq in Q. subst j. rewrite N in X1. inversion X1; subst s.
           destruct consts_states as [_ [_ [? _]]]. congruence.
        -- intros j. rewrite QE. apply G22.
      * split; [constructor|intros u []].
    + exfalso. exact (s_act _ _ H i t N A T).
Qed.

(* ---------------------------------------------------------------- expiry *)
Lemma Sp_make_job : forall now pend st tm, Sp (tm :: pend) st -> Sp pend (make_job_from_tmo now st tm).
Proof.
  intros now pend st tm H. unfold make_job_from_tmo.
  destruct (s_mem _ _ H tm (or_intror (or_introl eq_refl))) as [Hid [t [N [A T]]]].
  rewrite N. replace (s_state t =? LT_ENTRY_ACTIVE) with true by (symmetry; apply Z.eqb_eq; assumption). cbn [negb].
  set (d := t_data tm) in *. pose proof (s_prio_ok _ _ H d t N) as Hp.
  set (ns := mkS LT_ENTRY_JOBLIST (s_check t) (s_prio t) (s_data t) None (t_add tm) (t_dur tm) now).
  set (st1 := level_item_add st (s_prio t) (ITimer d)).
  assert (NotIn : forall q, vp q -> ~ In (ITimer d) (job_head (get_lv st q))).
  { intros q Hq X. destruct (s_q _ _ H q Hq) as [G1 _]. destruct (G1 d X) as [s [Y1 [Y2 _]]]. rewrite N in Y1. inversion Y1; subst s.
    destruct consts_states as [_ [_ [? _]]]. congruence. }
  assert (E1 : err st1 = err st /\ heap st1 = heap st /\ next_tid st1 = next_tid st /\ slots st1 = slots st)
    by (unfold st1, level_item_add; destruct (set_lv_other st (s_prio t) (mkL (job_head (get_lv st (s_prio t)) ++ [ITimer d]) (wait_head (get_lv st (s_prio t))) (todo (get_lv st (s_prio t)) + 1))) as [? [? [? [? _]]]]; auto).
  destruct E1 as [Ee [Eh [En Es]]].
  assert (Q1 : forall q, vp q -> job_head (get_lv st1 q) = if q =? s_prio t then job_head (get_lv st q) ++ [ITimer d] else job_head (get_lv st q)).
  { intros q Hq. unfold st1, level_item_add. rewrite get_set_lv by assumption. destruct (q =? s_prio t) eqn:Q; [|reflexivity].
    apply Z.eqb_eq in Q. subst q. reflexivity. }
  pose proof (nth_slot_lt _ _ _ N) as Li.
  assert (NS : forall j, nth_slot (put_slot st1 d ns) j = if j =? d then Some ns else nth_slot st j).
  { intros j. rewrite nth_slot_put; [|rewrite Es; exact Li]. destruct (j =? d); [reflexivity|]. apply nth_slot_ext. assumption. }
  set (st4 := put_slot st1 d ns) in *.
  assert (QE : forall q, get_lv st4 q = get_lv st1 q) by reflexivity.
  assert (E4h : heap st4 = heap st) by (rewrite <- Eh; reflexivity).
  assert (E4n : next_tid st4 = next_tid st) by (rewrite <- En; reflexivity).
  assert (E4e : err st4 = err st) by (rewrite <- Ee; reflexivity).
  clearbody st4.
  destruct (s_pend _ _ H) as [ND NM]. cbn [map] in ND. inversion ND as [|x xs ND1 ND2]; subst.
  assert (Distinct : forall u, mem (ents (heap st)) u \/ In u pend -> t_data u <> d).
  { intros u Hu Q. destruct (s_mem _ _ H u (match Hu with or_introl a => or_introl a | or_intror b => or_intror (or_intror b) end)) as [_ [s [Y1 [_ Y3]]]].
    rewrite Q in Y1. rewrite N in Y1. inversion Y1; subst s. rewrite T in Y3. inversion Y3; subst u.
    destruct Hu as [Hu|Hu]; [exact (NM tm (or_introl eq_refl) Hu)|]. apply ND1. apply in_map. assumption. }
  destruct H as [A2 B2 C2 D2 E2 F2 G2 I2].
  constructor.
  - congruence.
  - rewrite E4h. exact B2.
  - intros u Hu. rewrite E4h in Hu. rewrite E4n.
    destruct (C2 u (match Hu with or_introl a => or_introl a | or_intror b => or_intror (or_intror b) end)) as [X1 [s X2]].
    split; [assumption|]. exists s. rewrite NS.
    replace (t_data u =? d) with false by (symmetry; apply Z.eqb_neq; apply Distinct; assumption). assumption.
  - intros j s u Hs Hu. rewrite NS in Hs. rewrite E4h. destruct (j =? d) eqn:Q; [inversion Hs; subst s; discriminate|].
    destruct (D2 j s u Hs Hu) as [X1 [X2 X3]]. split; [assumption|]. split; [|assumption].
    destruct X2 as [X2|[X2|X2]]; [left; assumption| |right; assumption].
    subst u. apply Z.eqb_neq in Q. unfold d in Q. congruence.
  - intros j s Hs. rewrite NS in Hs. destruct (j =? d); [inversion Hs; subst s; cbn [ns s_state]; destruct consts_states as [_ [_ [? _]]]; congruence|eauto].
  - intros j s Hs. rewrite NS in Hs. destruct (j =? d); [inversion Hs; subst s; exact Hp|eauto].
  - intros q Hq. destruct (G2 q Hq) as [G21 G22]. unfold q_ok. rewrite QE, (Q1 q Hq).
    destruct (q =? s_prio t) eqn:Q.
    + apply Z.eqb_eq in Q. subst q. split.
      * intros j Hj. apply in_app_or in Hj. rewrite NS. destruct Hj as [Hj|[Hj|[]]].
        -- destruct (G21 j Hj) as [s X]. exists s. destruct (j =? d) eqn:Y; [|assumption]. apply Z.eqb_eq in Y. subst j.
           exfalso. exact (NotIn _ Hq Hj).
        -- inversion Hj; subst j. rewrite Z.eqb_refl. exists ns. split; [reflexivity|split; reflexivity].
      * intros j. rewrite count_t_app. cbn [count_t]. pose proof (G22 j). destruct (d =? j) eqn:Y; [|lia].
        apply Z.eqb_eq in Y. subst j.
        assert (count_t d (job_head (get_lv st (s_prio t))) = 0)%nat; [|lia].
        destruct (count_t d (job_head (get_lv st (s_prio t)))) eqn:Cn; [reflexivity|]. exfalso. apply (NotIn _ Hq). apply count_t_in. lia.
    + split; [|exact G22]. intros j Hj. destruct (G21 j Hj) as [s X]. exists s. rewrite NS.
      destruct (j =? d) eqn:Y; [|assumption]. apply Z.eqb_eq in Y. subst j. exfalso. exact (NotIn _ Hq Hj).
  - split; [exact ND2|]. rewrite E4h. intros u Hu. apply NM. right. assumption.
Qed.

Lemma Sp_make_jobs : forall now l st, Sp l st -> S (fold_left (make_job_from_tmo now) l st).
Proof. induction l; intros st H; simpl; [exact H|]. apply IHl. apply Sp_make_job. assumption. Qed.

Lemma S_expire_timers : forall st, S st -> S (snd (expire_timers st)).
Proof.
  intros st H. unfold expire_timers. pose proof (Sp_read_clock [] st H) as H2.
  destruct (read_clock st) as [now st2]. cbn [snd] in H2.
  destruct (heap_expire_ok (heap st2) now (s_hinv _ _ H2)) as [hp [l [E [I [_ [P1 [P2 [_ [ND _]]]]]]]]].
  rewrite E. cbn [snd]. apply Sp_make_jobs.
  destruct H2 as [A2 B2 C2 D2 E2 F2 G2 I2].
  assert (OldMem : forall u, mem (ents hp) u \/ In u l -> mem (ents (heap st2)) u).
  { intros u [Hu|Hu]; [apply P2 in Hu; apply Hu|apply (P1 u Hu)]. }
  constructor; unfold set_heap; fields; auto.
  - intros u Hu. exact (C2 u (or_introl (OldMem u Hu))).
  - intros j s u Hs Hu. destruct (D2 j s u Hs Hu) as [X1 [[X2|[]] X3]]. split; [assumption|]. split; [|assumption].
    destruct (in_dec Z.eq_dec (t_id u) (map t_id l)) as [Y|Y].
    + right. apply in_map_iff in Y. destruct Y as [v [Y1 Y2]].
      assert (v = u) by (exact (mem_same_id (heap st2) v u B2 (proj2 (P1 v Y2)) X2 Y1)). subst v. assumption.
    + left. apply P2. split; [assumption|]. intros v Hv Q. apply Y. rewrite <- Q. apply in_map. assumption.
  - split; [exact ND|]. intros u Hu Mu. apply P2 in Mu. destruct Mu as [_ Mu]. exact (Mu u Hu eq_refl).
Qed.

Lemma S_get_more_jobs : forall st, S st -> S (snd (get_more_jobs st)).
Proof.
  intros st H. unfold get_more_jobs.
  assert (G : forall l acc, Forall vp l -> S (snd acc) -> S (snd (fold_left more_jobs_level l acc))).
  { induction l; intros acc Fl Ha; simpl; [assumption|]. inversion Fl; subst. apply IHl; [assumption|].
    unfold more_jobs_level. destruct acc as [n s]. cbn [snd] in *.
    destruct (wait_head (get_lv s a)) eqn:W; [assumption|]. cbn [snd]. apply Sp_set_lv_sub; auto; cbn [job_head].
    - intros j Hj. apply in_app_or in Hj. destruct Hj as [Hj|Hj]; [assumption|]. apply in_map_iff in Hj. destruct Hj as [x [Hx _]]. discriminate.
    - intros j. rewrite count_t_app, count_t_jobs. lia. }
  apply G; [|assumption].
  constructor; [vm_compute; split; congruence|]. constructor; [vm_compute; split; congruence|].
  constructor; [vm_compute; split; congruence|]. constructor.
Qed.

(* ---------------------------------------------------------------- callbacks *)
Lemma S_exec_cbop : forall st c, S st -> wf2_cbop c -> S (exec_cbop fixed st c).
Proof.
  intros st c H Hc. unfold exec_cbop. destruct (err st); [assumption|]. destruct c.
  - destruct Hc. apply S_timer_add; assumption.
  - apply S_timer_del; assumption.
  - apply Sp_emit; assumption.
  - pose proof (Sp_time_remaining [] st (resolve st r) H). destruct (time_remaining fixed st (resolve st r)). apply Sp_emit; assumption.
  - apply Sp_emit; assumption.
  - pose proof (Sp_msec [] st H). destruct (msec_to_expire fixed st). apply Sp_emit; assumption.
  - apply Sp_job_add; assumption.
  - apply Sp_set_stop; assumption.
  - apply Sp_advance; assumption.
Qed.

(* the slot of the timer whose callback is running: JOBLIST, check word 0, on no list.  No API call touches it. *)
Definition framed (st : lp) (i : Z) (s : slot) : Prop := nth_slot st i = Some s /\ ~ in_q st i.

Lemma framed_same : forall st st' i s, slots st' = slots st -> (forall p, vp p -> job_head (get_lv st' p) = job_head (get_lv st p)) ->
  framed st i s -> framed st' i s.
Proof.
  intros st st' i s Es Eq [N Q]. split; [rewrite (nth_slot_ext st st' _ Es); assumption|].
  intros [p [Hp X]]. apply Q. exists p. split; [assumption|]. rewrite <- (Eq p Hp). assumption.
Qed.

Lemma framed_exec_cbop : forall st c i s, S st -> wf2_cbop c -> s_state s = LT_ENTRY_JOBLIST -> s_check s = 0 ->
  framed st i s -> framed (exec_cbop fixed st c) i s.
Proof.
  intros st c i s H Hc J C [N Q]. unfold exec_cbop. destruct (err st); [split; assumption|]. destruct c.
  - (* timer_add: writes an EMPTY slot *)
    unfold timer_add.
    destruct (add_slot_ready st H) as [H1 [[s0 [N0 E0]] [Eh [En [Ek Eq]]]]].
    set (k := first_empty (slots st) 0) in *.
    set (st1 := if k >=? Z.of_nat (length (slots st)) then set_slots st (slots st ++ [zero_slot]) else st) in *.
    assert (Nk : k <> i).
    { intros ->. rewrite (Ek i s N) in N0. inversion N0; subst s0. destruct consts_states as [_ [? _]]. congruence. }
    assert (R : snd (read_clock st1) = advance st1 (cstep st1)) by reflexivity.
    destruct (read_clock st1) as [now st2] eqn:RC. cbn [snd] in R.
    destruct (heap_add (heap (bump_tid st2)) _) as [hp|]; [|split; [|intros [p0 [Hp X]]; apply Q; exists p0; split; [assumption|]]].
    + pose proof (nth_slot_lt _ _ _ N0) as Lk.
      split.
      * unfold emit, push_issued. rewrite (nth_slot_ext (put_slot (set_heap (bump_tid st2) hp) k (mkS LT_ENTRY_ACTIVE (to_i32 chk) p data
               (Some (mkT (expire_of fixed now dur) (next_tid st2) k now dur)) now dur 0))); [|reflexivity].
        rewrite nth_slot_put; [|rewrite R; exact Lk].
        replace (i =? k) with false by (symmetry; apply Z.eqb_neq; congruence).
        rewrite (nth_slot_ext st1); [apply Ek; assumption|rewrite R; reflexivity].
      * intros [q [Hq X]]. apply Q. exists q. split; [assumption|]. rewrite R in X.
        change (In (ITimer i) (job_head (get_lv st1 q))) in X. rewrite Eq in X. assumption.
    + unfold set_err, bump_tid. rewrite (nth_slot_ext st1); [apply Ek; assumption|rewrite R; reflexivity].
    + rewrite R in X. change (In (ITimer i) (job_head (get_lv st1 p0))) in X. rewrite Eq in X. assumption.
  - (* timer_del: needs a non-zero check word *)
    unfold timer_del. destruct (timer_from_handle fixed st (resolve st r)) as [e|j t] eqn:L; [split; assumption|].
    destruct (lookup_fixed _ _ _ _ L) as [Nj Cj].
    assert (Nji : j <> i) by (intros ->; rewrite N in Nj; inversion Nj; subst t; congruence).
    replace (s_check t =? 0) with false by (symmetry; apply Z.eqb_neq; assumption).
    destruct (s_state t =? LT_ENTRY_DELETED); [split; assumption|].
    destruct (negb (s_state t =? LT_ENTRY_ACTIVE) && negb (s_state t =? LT_ENTRY_JOBLIST)); [split; assumption|].
    destruct (lid_spec [] st j t H Nj) as [H1 [_ [Es [Eh Sub]]]].
    set (st1 := if s_state t =? LT_ENTRY_JOBLIST then level_item_del st (s_prio t) (ITimer j) else st).
    assert (F1 : framed st1 i s).
    { unfold st1. destruct (s_state t =? LT_ENTRY_JOBLIST); [|split; assumption].
      split; [rewrite (nth_slot_ext st _ _ Es); assumption|]. intros X. apply Q. apply Sub. assumption. }
    assert (Ls : length (slots st1) = length (slots st)) by (unfold st1; destruct (s_state t =? LT_ENTRY_JOBLIST); [rewrite Es|]; reflexivity).
    pose proof (nth_slot_lt _ _ _ Nj) as Lj.
    destruct F1 as [F1 F2].
    destruct (s_th t) as [tm|].
    + destruct (heap_delete (heap st1) tm) as [hp|]; [|split; assumption].
      split.
      * unfold emit. rewrite (nth_slot_ext (put_slot (set_heap st1 hp) j (with_state (with_th t None) LT_ENTRY_EMPTY))); [|reflexivity].
        rewrite nth_slot_put; [|unfold set_heap; cbn [slots]; rewrite Ls; exact Lj].
        replace (i =? j) with false by (symmetry; apply Z.eqb_neq; congruence). rewrite (nth_slot_ext st1); [assumption|reflexivity].
      * intros [q [Hq X]]. apply F2. exists q. split; assumption.
    + split.
      * unfold emit. rewrite (nth_slot_ext (put_slot st1 j (with_state t LT_ENTRY_EMPTY))); [|reflexivity].
        rewrite nth_slot_put; [|rewrite Ls; exact Lj].
        replace (i =? j) with false by (symmetry; apply Z.eqb_neq; congruence). assumption.
      * intros [q [Hq X]]. apply F2. exists q. split; assumption.
  - split; assumption.
  - unfold time_remaining. destruct (timer_from_handle fixed st (resolve st r)); [split; assumption|].
    destruct (negb _); [split; assumption|]. unfold read_clock. destruct (_ <? _); split; assumption.
  - split; assumption.
  - unfold msec_to_expire, tl_msec_to_expire. destruct (size (heap st) =? 0); [split; assumption|].
    destruct (entry_get (heap st) 0); [|split; assumption]. unfold read_clock. destruct (_ <? _); split; assumption.
  - unfold job_add. destruct ((p <? LT_LOOP_LOW) || (p >? LT_LOOP_HIGH)) eqn:E; [split; assumption|].
    apply orb_false_iff in E. destruct E as [E1 E2]. apply Z.ltb_ge in E1. rewrite Z.gtb_ltb in E2. apply Z.ltb_ge in E2.
    assert (Hp : vp p) by (unfold vp, LT_LOOP_LOW, LT_LOOP_HIGH in *; lia).
    apply (framed_same st); [apply (set_lv_other st)| |split; assumption].
    intros q Hq. change (job_head (get_lv (set_lv st p (mkL (job_head (get_lv st p)) (wait_head (get_lv st p) ++ [data]) (todo (get_lv st p)))) q) = job_head (get_lv st q)).
    rewrite get_set_lv by assumption. destruct (q =? p) eqn:Y; [apply Z.eqb_eq in Y; subst; reflexivity|reflexivity].
  - split; assumption.
  - split; assumption.
Qed.

Definition wf2_beh (b : behaviour) : Prop := forall d l, In (d, l) b -> Forall wf2_cbop l.
Definition wf2_op (o : op) : Prop := match o with Cb c => wf2_cbop c | Run _ => True end.

Lemma wf2_beh_of : forall b d, wf2_beh b -> Forall wf2_cbop (beh_of b d).
Proof.
  induction b as [|[d0 l0] b]; intros d H; simpl; [constructor|].
  destruct (d0 =? d); [apply (H d0 l0); left; reflexivity|]. apply IHb. intros d1 l1 X. apply (H d1 l1). right. assumption.
Qed.

Lemma S_exec_cbops : forall l st, S st -> Forall wf2_cbop l -> S (fold_left (exec_cbop fixed) l st).
Proof. induction l; intros st H F; simpl; [assumption|]. inversion F; subst. apply IHl; [apply S_exec_cbop|]; assumption. Qed.

Lemma S_framed_cbops : forall l st i s, S st -> Forall wf2_cbop l -> s_state s = LT_ENTRY_JOBLIST -> s_check s = 0 ->
  framed st i s -> S (fold_left (exec_cbop fixed) l st) /\ framed (fold_left (exec_cbop fixed) l st) i s.
Proof.
  induction l; intros st i s H F J C Fr; simpl; [split; assumption|]. inversion F; subst.
  apply IHl; auto; [apply S_exec_cbop|apply framed_exec_cbop]; assumption.
Qed.

Lemma S_dispatch_timer : forall beh st i t, S st -> wf2_beh beh ->
  nth_slot st i = Some t -> s_state t = LT_ENTRY_JOBLIST -> ~ in_q st i -> S (dispatch fixed beh st (ITimer i)).
Proof.
  intros beh st i t H Hb N J Q. unfold dispatch. rewrite N.
  replace (s_state t =? LT_ENTRY_JOBLIST) with true by (symmetry; apply Z.eqb_eq; assumption). cbn [negb].
  assert (T : s_th t = None).
  { destruct (s_th t) as [tm|] eqn:T; [|reflexivity]. destruct (s_thm _ _ H i t tm N T) as [X _].
    destruct consts_states as [_ [_ [? _]]]. congruence. }
  pose proof (s_prio_ok _ _ H i t N) as Hp.
  set (s1 := with_check t 0).
  assert (H1 : S (put_slot st i s1)).
  { apply (Sp_put_idle [] st i t); auto; cbn [s1 with_check s_th s_state s_prio]; auto.
    rewrite J. destruct consts_states as [_ [_ [? _]]]. congruence. }
  pose proof (nth_slot_lt _ _ _ N) as Li.
  assert (F1 : framed (put_slot st i s1) i s1).
  { split; [rewrite nth_slot_put, Z.eqb_refl by assumption; reflexivity|]. rewrite in_q_put_slot. assumption. }
  set (st1 := put_slot st i s1) in *.
  set (st2 := emit st1 (EFire (s_data t) (s_prio t) (g_add t) (g_dur t) (g_fire t) (clk st1))).
  set (st3 := emit st2 (ECb 0 (s_data t) (clk st2))).
  assert (H3 : S st3) by (apply Sp_emit; apply Sp_emit; assumption).
  assert (F3 : framed st3 i s1) by (apply (framed_same st1); auto).
  destruct (S_framed_cbops (beh_of beh (s_data t)) st3 i s1 H3 (wf2_beh_of beh _ Hb) J eq_refl F3) as [H4 [N4 Q4]].
  rewrite N4. apply (Sp_put_idle [] _ i s1); auto; cbn [s1 with_state with_check s_th s_state s_prio]; auto.
  destruct consts_states as [? _]. assumption.
Qed.

Lemma pop_spec : forall st p job rest w td, S st -> vp p -> job_head (get_lv st p) = job :: rest ->
  let st1 := set_lv st p (mkL rest w td) in
  S st1 /\ (forall i, job = ITimer i -> exists t, nth_slot st1 i = Some t /\ s_state t = LT_ENTRY_JOBLIST /\ ~ in_q st1 i).
Proof.
  intros st p job rest w td H Hp E st1.
  assert (H1 : S st1).
  { apply Sp_set_lv_sub; auto; cbn [job_head]; rewrite E.
    - intros j Hj. right. assumption.
    - intros j. destruct job as [k|k]; cbn [count_t]; lia. }
  split; [assumption|]. intros i ->.
  destruct (s_q _ _ H p Hp) as [G1 G2]. rewrite E in G1, G2.
  destruct (G1 i (or_introl eq_refl)) as [t [N [J P]]]. exists t.
  destruct (set_lv_other st p (mkL rest w td)) as [_ [_ [_ [Es _]]]].
  split; [unfold st1; rewrite (nth_slot_ext st _ _ Es); assumption|]. split; [assumption|].
  intros [q [Hq X]]. unfold st1 in X. rewrite get_set_lv in X by assumption. destruct (q =? p) eqn:Y.
  - cbn [job_head] in X. apply count_t_in in X. pose proof (G2 i) as Z0. cbn [count_t] in Z0. rewrite Z.eqb_refl in Z0. lia.
  - apply Z.eqb_neq in Y. destruct (s_q _ _ H q Hq) as [K1 _]. destruct (K1 i X) as [t' [N' [_ P']]].
    rewrite N in N'. inversion N'; subst t'. congruence.
Qed.

Lemma S_run_level : forall beh n st p, S st -> wf2_beh beh -> vp p -> S (run_level fixed beh n st p).
Proof.
  assert (Step : forall beh st p job rest, S st -> wf2_beh beh -> vp p -> job_head (get_lv st p) = job :: rest ->
     S (let st := set_lv st p (mkL rest (wait_head (get_lv st p)) (todo (get_lv st p))) in
        let st := dispatch fixed beh st job in
        let l' := get_lv st p in set_lv st p (mkL (job_head l') (wait_head l') (todo l' - 1)))).
  { intros beh st p job rest H Hb Hp E. cbv zeta.
    destruct (pop_spec st p job rest (wait_head (get_lv st p)) (todo (get_lv st p)) H Hp E) as [H1 X].
    apply Sp_set_lv_same; [|assumption|reflexivity].
    destruct job as [i|d].
    - destruct (X i eq_refl) as [t [N [J Q]]]. apply (S_dispatch_timer beh _ i t); assumption.
    - unfold dispatch. apply S_exec_cbops; [apply Sp_emit; assumption|apply wf2_beh_of; assumption]. }
  induction n; intros st p H Hb Hp; cbn [run_level].
  - destruct (err st); [assumption|]. destruct (job_head (get_lv st p)) as [|job rest] eqn:E; [assumption|].
    pose proof (Step beh st p job rest H Hb Hp E) as X. cbv zeta in X. destruct (stop _); assumption.
  - destruct (err st); [assumption|]. destruct (job_head (get_lv st p)) as [|job rest] eqn:E; [assumption|].
    pose proof (Step beh st p job rest H Hb Hp E) as X. cbv zeta in X. destruct (stop _); [assumption|].
    destruct n; [assumption|]. apply IHn; assumption.
Qed.

Lemma S_run_levels : forall beh ps st p_stop rem, S st -> wf2_beh beh -> Forall vp ps ->
  S (fst (fst (run_levels fixed beh ps st p_stop rem))).
Proof.
  induction ps; intros st p_stop rem H Hb F; cbn [run_levels]; [assumption|]. inversion F; subst.
  destruct (a >=? p_stop).
  - pose proof (S_run_level beh (Z.to_nat LT_TO_PROCESS) st a H Hb H2) as X.
    destruct (stop _); [assumption|]. apply IHps; assumption.
  - apply IHps; assumption.
Qed.

Lemma S_choose : forall st rem tt jt, S st -> S (snd (choose_timeout fixed st rem tt jt)).
Proof.
  intros. unfold choose_timeout. destruct (_ || _); [assumption|]. destruct (jt >? 0); [assumption|]. apply Sp_msec. assumption.
Qed.

Lemma prios_vp : Forall vp prios_desc.
Proof.
  unfold prios_desc. constructor; [vm_compute; split; congruence|]. constructor; [vm_compute; split; congruence|].
  constructor; [vm_compute; split; congruence|]. constructor.
Qed.

Lemma S_run_turns : forall beh dirs st p_stop rem, S st -> wf2_beh beh -> S (run_turns fixed beh dirs st p_stop rem).
Proof.
  induction dirs; intros st p_stop rem H Hb; cbn [run_turns]; [assumption|].
  destruct (err st); [assumption|].
  pose proof (S_get_more_jobs st H) as H1. destruct (get_more_jobs st) as [jt st1]. cbn [snd] in H1.
  pose proof (S_expire_timers st1 H1) as H2. destruct (expire_timers st1) as [tt st2]. cbn [snd] in H2.
  pose proof (S_choose st2 rem tt jt H2) as H3.
  destruct (choose_timeout fixed st2 rem tt jt) as [ms st3]. cbn [fst snd] in *.
  match goal with |- context [run_levels _ _ _ ?s _ _] => assert (S s) as H4 end.
  { destruct dirs; [apply Sp_set_stop|]; apply Sp_advance; apply Sp_emit; apply Sp_emit; assumption. }
  match goal with |- context [run_levels ?f ?b ?ps ?s ?q ?r] =>
    pose proof (S_run_levels b ps s q r H4 Hb prios_vp) as H5; destruct (run_levels f b ps s q r) as [[st5 rem5] ret5] end.
  cbn [fst] in H5. destruct ret5; [assumption|]. destruct (stop st5); [assumption|]. apply IHdirs; assumption.
Qed.

Lemma S_step : forall beh st o, S st -> wf2_beh beh -> wf2_op o -> S (step fixed beh st o).
Proof.
  intros beh st o H Hb Ho. unfold step. destruct (err st); [assumption|]. destruct o.
  - apply S_exec_cbop; assumption.
  - unfold loop_run. destruct dirs; [assumption|]. apply S_run_turns; [apply Sp_set_stop|]; assumption.
Qed.

Lemma S_run : forall beh ops st, S st -> wf2_beh beh -> Forall wf2_op ops -> S (run fixed beh st ops).
Proof.
  intros beh ops. unfold run. induction ops; intros st H Hb F; simpl; [assumption|].
  inversion F; subst. apply IHops; [apply S_step|assumption|]; assumption.
Qed.

Lemma S_init : forall hz0 clk0 cstep0, S (lp_init hz0 clk0 cstep0).
Proof.
  intros. assert (NS : forall i, nth_slot (lp_init hz0 clk0 cstep0) i = None).
  { intros i. unfold nth_slot, lp_init. fields. cbn [length Z.of_nat]. destruct (i <? 0) eqn:E; cbn [orb]; [reflexivity|].
    apply Z.ltb_ge in E. replace (i >=? 0) with true by (symmetry; rewrite Z.geb_leb; apply Z.leb_le; lia). reflexivity. }
  constructor.
  - reflexivity.
  - split; [intros i j t u [_ X]|intros i t [_ X]]; unfold lp_init in X; fields; cbn [tl_empty ents] in X; destruct (Z.to_nat i); discriminate.
  - intros tm [[i [_ X]]|[]]. unfold lp_init in X. fields. cbn [tl_empty ents] in X. destruct (Z.to_nat i); discriminate.
  - intros i s tm X. rewrite NS in X. discriminate.
  - intros i s X. rewrite NS in X. discriminate.
  - intros i s X. rewrite NS in X. discriminate.
  - intros p Hp. destruct (vp_cases p Hp) as [->|[->| ->]]; (split; [intros i []|intros i; cbn; lia]).
  - split; [constructor|intros tm []].
Qed.

(* ---------------------------------------------------------------- end to end *)
(* every history of the repaired loop: the heap invariant holds, heap entries and ACTIVE slots correspond one to
   one, queued timer items are JOBLIST slots, and no assert() of tlist.h / loop_timerlist.c ever fails *)
Theorem consistent_all_histories : forall beh ops hz0 clk0 cstep0,
  wf2_beh beh -> Forall wf2_op ops -> S (run fixed beh (lp_init hz0 clk0 cstep0) ops).
Proof. intros. apply S_run; auto. apply S_init. Qed.
