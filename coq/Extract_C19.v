(* Extraction of the C19 models.  ExtrOcamlBasic only: bool/option/unit/list/prod/sumbool/sum
   map to the OCaml types of the same shape; Z, N, positive, nat stay inductive; no Extract Constant. *)
From Coq Require Import ExtrOcamlBasic.
Require Import Verif.ArrayModel Verif.ArrayConcModel.
Extraction "model_C19.ml" create step run spec_init spec_step abs_out esize autog maxel num_bins
  cinit cstep exec c_log c_err c_w is_step_racy.
