(* C14 model runner.  Input = the script given to harness/h_ser.c, with the oracle answers the
   implementation recorded ("snp ..." lines of its log, renamed "O ...") inserted before the decode
   command they belong to.  Output = the lines h_ser.c prints ("ser", "des", "ref"), computed by the
   extracted Gallina model; "oob <tag>" when the model reaches its OutOfBounds state.
   argv[1] = "asfound" runs the model of the code as found (fx = false); default: repaired code. *)
let fx = not (Array.length Sys.argv > 1 && Sys.argv.(1) = "asfound")

let hexdig = "0123456789abcdef"
let bytes_of_hex (s : string) : z list =
  if s = "-" then [] else
    List.init (String.length s / 2) (fun i -> z_of_int (int_of_string ("0x" ^ String.sub s (2 * i) 2)))
let hex_of_bytes (l : z list) : string =
  if l = [] then "-" else begin
    let b = Buffer.create 64 in
    List.iter (fun x -> let v = (int_of_z x) land 255 in
                Buffer.add_char b hexdig.[v lsr 4]; Buffer.add_char b hexdig.[v land 15]) l;
    Buffer.contents b end

let parse_arg (t : string) : arg =
  let v () = z_of_string (String.sub t 1 (String.length t - 1)) in
  match t.[0] with
  | 'i' -> AInt (v ()) | 'l' -> ALong (v ()) | 'q' -> ALLong (v ()) | 'p' -> APtr (v ())
  | 'd' -> ADouble (z_of_string ("0x" ^ String.sub t 1 (String.length t - 1)))
  | 's' -> if t = "sN" then ANull else AStr (bytes_of_hex (String.sub t 1 (String.length t - 1)))
  | _ -> failwith ("bad arg " ^ t)

let rec firstn k l = if k <= 0 then [] else match l with [] -> [] | x :: t -> x :: firstn (k - 1) t
let rec fill n (g : z list) (pat : z list) acc =
  if n <= 0 then List.rev acc else
    match g with [] -> fill n pat pat acc | x :: t -> fill (n - 1) t pat (x :: acc)

exception Miss of string
let table : (string, z * z list) Hashtbl.t = Hashtbl.create 64
let full : (string, z list) Hashtbl.t = Hashtbl.create 64     (* untruncated renderings *)
(* integers are keyed by their size: "i" = 4 bytes, "q" = 8 bytes (long and long long alike) *)
let kind_letter k a = match int_of_z k with
  | 1 -> if List.length a = 4 then "i" else "q" | 4 -> "d" | 5 -> "c" | 6 -> "s" | 7 -> "p" | _ -> "?"
let snp (f : z list) (k : z) (a : z list) (n : z) : z * z list =
  let key = hex_of_bytes f ^ " " ^ kind_letter k a ^ hex_of_bytes a ^ " " ^ string_of_z n in
  match Hashtbl.find_opt table key with Some r -> r | None -> raise (Miss key)
let render1 (f : z list) (k : z) (a : z list) : z list =
  let key = hex_of_bytes f ^ " " ^ kind_letter k a ^ hex_of_bytes a in
  match Hashtbl.find_opt full key with Some r -> r | None -> raise (Miss key)

let () =
  let record = ref [] in
  let out = Buffer.create 65536 in
  let pr s = Buffer.add_string out s; Buffer.add_char out '\n' in
  (try
     while true do
       let line = input_line stdin in
       match split_ws line with
       | "#" :: _ -> record := []; Hashtbl.reset table; Hashtbl.reset full;
         print_string (Buffer.contents out); Buffer.clear out; flush stdout; pr line
       | "S" :: max :: fmt :: args ->
         Hashtbl.reset table; Hashtbl.reset full;
         let mx = z_of_string max in
         let garbage = List.init (int_of_z mx) (fun _ -> z_of_int 0xee) in
         (match serialize fx mx (bytes_of_hex fmt) (List.map parse_arg args) garbage with
          | Done (ret, buf, _) ->
            let keep = firstn (min (int_of_z ret) (int_of_z mx)) buf in
            record := keep;
            pr (Printf.sprintf "ser %s %s" (string_of_z ret) (hex_of_bytes keep))
          | OutOfBounds t -> record := []; pr ("oob " ^ string_of_z t))
       | ["R"; bytes] -> Hashtbl.reset table; Hashtbl.reset full; record := bytes_of_hex bytes
       | ["O"; f; ka; n; ret; w] ->
         let r = z_of_string ret and wb = bytes_of_hex w in
         Hashtbl.replace table (f ^ " " ^ ka ^ " " ^ n) (r, wb);
         let ri = int_of_z r in
         if ri >= 0 && List.length wb = ri + 1 then Hashtbl.replace full (f ^ " " ^ ka) (firstn ri wb)
       | [("D" | "N") as cmd; n; g] ->
         let nz = z_of_string n in
         let pat = bytes_of_hex g in
         let pat = if pat = [] then [z_of_int 0xa5] else pat in
         let garbage = fill (int_of_z nz) pat pat [] in
         let blen = if cmd = "N" then zlen !record else sIZE_MAX in
         (try
            match deserialize fx snp !record blen nz garbage with
            | Done (ret, buf, _) -> pr (Printf.sprintf "des %s %s" (string_of_z ret) (hex_of_bytes buf))
            | OutOfBounds t -> pr ("oob " ^ string_of_z t)
          with Miss key -> pr ("oracle-miss " ^ key))
       | "V" :: fmt :: args ->
         (* the hypothesis of C14_roundtrip_partial, evaluated by the extracted predicate: covered? record size? *)
         let fb = bytes_of_hex fmt and al = List.map parse_arg args in
         pr (Printf.sprintf "wf %d %d" (if wf_go fb PLit al then 1 else 0)
               (List.length fb + 1 + List.length (ser_data fb PLit al)));
         (try
            let t = printf_spec render1 (bytes_of_hex fmt) PLit (List.map parse_arg args) in
            pr (Printf.sprintf "ref %d %s" (List.length t) (hex_of_bytes t))
          with Miss key -> pr "ref ?")
       | _ -> ()
     done
   with End_of_file -> ());
  print_string (Buffer.contents out)
