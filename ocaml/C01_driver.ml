(* C01 model runner.  Input = the case script given to harness/h_rbconc.c (open / pre / w / r lines) followed by
   the scheduling decisions the implementation run actually took ("s <tid> ..." lines of its log) and its
   "end <rc>" line.  Output = the log in the harness' format as the extracted Gallina model (RbConcModel.v)
   produces it: for every step the label of the access, the return of a call that ends in this step, and the
   change the step made to the shared state (the location named by the label; semaphore count). *)
let zs = string_of_z
(* wcall has a single one-argument constructor: extraction represents it by its argument *)
let wwrite (d : z list) : wcall = d
let zi = z_of_int

let bytes_of_hex (s : string) : z list =
  if s = "-" || s = "" then []
  else List.init (String.length s / 2) (fun i -> zi (int_of_string ("0x" ^ String.sub s (2 * i) 2)))

let hex_of_bytes (l : z list) : string =
  let b = Buffer.create (2 * List.length l) in
  List.iter (fun x -> Buffer.add_string b (Printf.sprintf "%02x" (int_of_z x))) l;
  Buffer.contents b

let loc_str (l : loc) : string = match l with
  | HWpt -> "hdr[" ^ zs rBC_HDR_WPT_IDX ^ "]"
  | HRpt -> "hdr[" ^ zs rBC_HDR_RPT_IDX ^ "]"
  | DW i -> "d[" ^ zs i ^ "]"

let label_str (l : label) : string = match l with
  | LStart -> "start"
  | LRd x -> "R " ^ loc_str x
  | LWr x -> "W " ^ loc_str x
  | LARd (x, mo) -> "AR " ^ loc_str x ^ " mo=" ^ zs mo
  | LAWr (x, mo) -> "AW " ^ loc_str x ^ " mo=" ^ zs mo
  | LRdB a -> "RB b[" ^ zs a ^ "]"
  | LWrB a -> "WB b[" ^ zs a ^ "]"
  | LPost -> "post"
  | LTryWait -> "trywait"
  | LWait -> "wait"

let sem_int (h : shared) : int = match hsem h with Some c -> int_of_z c | None -> -1

let () =
  let st : state option ref = ref None in
  let pw : wcall list ref = ref [] in
  let pr : rcall list ref = ref [] in
  let loaded = ref false in
  (* the sequential prologue is pure model computation: states after identical (open, pre ...) prefixes are shared
     between consecutive cases (the enumerated schedules of one call mix have the same prologue) *)
  let prekey = ref "" in
  let cache : (string * (state * string)) list ref = ref [] in
  let out = Buffer.create (1 lsl 20) in
  let pr_line s = Buffer.add_string out s; Buffer.add_char out '\n' in
  let parse_rcall (ws : string list) (pre : bool) : rcall option = match ws with
    | "read" :: n :: rest -> Some (RRead (z_of_string n, (not pre) && (match rest with b :: _ -> b <> "0" | [] -> false)))
    | "peek" :: rest -> Some (RPeek ((not pre) && (match rest with b :: _ -> b <> "0" | [] -> false)))
    | "reclaim" :: _ -> Some RReclaim
    | _ -> None in
  let ret_str (rc, bytes) = if bytes = [] then zs rc else zs rc ^ " " ^ hex_of_bytes bytes in
  (* the change a step made, at the location its label names *)
  let changes (h0 : shared) (h1 : shared) (l : label) =
    let word i = if ldw (hmem h0) i <> ldw (hmem h1) i then pr_line (Printf.sprintf "c d[%s]=%s" (zs i) (zs (ldw (hmem h1) i))) in
    (match l with
     | LWr HWpt -> if hwpt h0 <> hwpt h1 then pr_line (Printf.sprintf "c %s=%s" (loc_str HWpt) (zs (hwpt h1)))
     | LWr HRpt -> if hrpt h0 <> hrpt h1 then pr_line (Printf.sprintf "c %s=%s" (loc_str HRpt) (zs (hrpt h1)))
     | LWr (DW i) | LAWr (DW i, _) -> word i
     | LWrB a -> word (zi (int_of_z a / 4))
     | _ -> ());
    if sem_int h0 <> sem_int h1 then pr_line (Printf.sprintf "c sem=%d" (sem_int h1)) in
  let ensure_loaded () =
    if not !loaded then begin
      (match !st with Some s -> st := Some (load s (List.rev !pw) (List.rev !pr)) | None -> ());
      loaded := true
    end in
  let finished (s : state) = w_prog (g_w s) = [] && r_prog (g_r s) = [] in
  (try
     while true do
       let line = input_line stdin in
       match split_ws line with
       | "#" :: _ -> st := None; pw := []; pr := []; loaded := false; prekey := ""; pr_line line
       | ["open"; s; ns; _] ->
         let h = open_shared (z_of_string s) (ns <> "0") in
         prekey := Digest.string ("open " ^ s ^ " " ^ ns);
         st := Some (init h [] []);
         pr_line (Printf.sprintf "open 0 %s" (zs (hW h)))
       | "pre" :: kind :: rest ->
         (match !st with
          | None -> ()
          | Some s ->
            prekey := Digest.string (!prekey ^ line);
            (match List.assoc_opt !prekey !cache with
             | Some (s1, outl) -> st := Some s1; pr_line outl
             | None ->
               let (t, s0) =
                 if kind = "w" then (TW, load s [wwrite (bytes_of_hex (match rest with h :: _ -> h | [] -> "-"))] [])
                 else (TR, load s [] (match parse_rcall rest true with Some c -> [c] | None -> [])) in
               let cur = ref s0 and res = ref None and fuel = ref 100000 in
               while !res = None && !fuel > 0 do
                 decr fuel;
                 (match step t !cur with
                  | Some (s1, (_, r)) -> cur := s1; res := r
                  | None -> fuel := 0)
               done;
               st := Some !cur;
               let outl = (match !res with Some r -> "pre " ^ ret_str r | None -> "pre <no return in the model>") in
               pr_line outl;
               let rec take n l = if n <= 0 then [] else match l with [] -> [] | x :: t -> x :: take (n - 1) t in
               cache := (!prekey, (!cur, outl)) :: take 11 !cache))
       | "drain" :: _ ->
         (match !st with
          | None -> ()
          | Some s ->
            let h = g_sh s in
            let h1 = (match hsem h with Some c -> set_hsem h (Some (zi (int_of_z c + 64))) | None -> h) in
            let cur = ref { s with g_sh = h1 } and stop = ref false and n = ref 0 in
            while not !stop && !n < 100 do
              incr n;
              let c = ref (load !cur [] [RRead (zi 8192, false)]) and res = ref None and fuel = ref 100000 in
              while !res = None && !fuel > 0 do
                decr fuel;
                (match step TR !c with
                 | Some (s1, (_, r)) -> c := s1; res := r
                 | None -> fuel := 0)
              done;
              cur := !c;
              (match !res with
               | Some ((rc, _) as r) -> pr_line ("drain " ^ ret_str r); if int_of_z rc < 0 then stop := true
               | None -> pr_line "drain <no return in the model>"; stop := true)
            done;
            st := Some !cur)
       | "w" :: rest -> pw := wwrite (bytes_of_hex (match rest with h :: _ -> h | [] -> "-")) :: !pw
       | "r" :: rest -> (match parse_rcall rest false with Some c -> pr := c :: !pr | None -> ())
       | "s" :: tid :: _ ->
         ensure_loaded ();
         (match !st with
          | None -> ()
          | Some s ->
            let t = if tid = "0" then TW else TR in
            (match step t s with
             | None -> pr_line (Printf.sprintf "s %s <not enabled in the model>" tid)
             | Some (s1, (l, r)) ->
               pr_line (Printf.sprintf "s %s %s" tid (label_str l));
               (match r with
                | Some rv ->
                  let k = if t = TW then z_of_int (int_of_z (w_k (g_w s))) else r_k (g_r s) in
                  pr_line (Printf.sprintf "ret %s %s %s" tid (zs k) (ret_str rv))
                | None -> ());
               changes (g_sh s) (g_sh s1) l;
               st := Some s1))
       | ["end"; _] ->
         ensure_loaded ();
         (match !st with
          | None -> ()
          | Some s ->
            let en t = match step t s with Some _ -> true | None -> false in
            pr_line (if finished s then "end 0" else if en TW || en TR then "end 2" else "end 1");
            let h = g_sh s in
            let w = int_of_z (hW h) in
            let hash = ref 0 in
            for i = 0 to w - 1 do hash := (!hash * 31 + int_of_z (ldw (hmem h) (zi i))) mod 1000000007 done;
            pr_line (Printf.sprintf "fin %s %s %d %d" (zs (hwpt h)) (zs (hrpt h)) (sem_int h) !hash);
            if g_err s then pr_line "note model-error-state")
       | _ -> ()
     done
   with End_of_file -> ());
  print_string (Buffer.contents out)
