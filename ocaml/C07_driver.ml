(* C07/C11 model runner: reads the same script the implementation harness (harness/h_rb.c) reads and
   prints what the extracted Gallina ring-buffer model answers, in the harness' output format.
     O <S> <flags>   W <hex|->   A <rlen> <hex|->   R <n>   P   X   Q   D
   After every operation a query line "q free used chunks" is printed (the harness does the same). *)
let bytes_of_hex (s : string) : z list =
  if s = "-" then [] else begin
    let n = String.length s / 2 in
    let rec go i acc = if i < 0 then acc
      else go (i - 1) (z_of_int (int_of_string ("0x" ^ String.sub s (2 * i) 2)) :: acc) in
    go (n - 1) []
  end

let hex_of_bytes (l : z list) : string =
  if l = [] then "-" else begin
    let b = Buffer.create (2 * List.length l) in
    List.iter (fun x -> Buffer.add_string b (Printf.sprintf "%02x" ((int_of_z x) land 0xff))) l;
    Buffer.contents b
  end

let () =
  let st = ref None in
  let out = Buffer.create 65536 in
  let pr s = Buffer.add_string out s; Buffer.add_char out '\n' in
  let flush_out () = print_string (Buffer.contents out); Buffer.clear out in
  let query () =
    match !st with
    | None -> ()
    | Some b ->
      (match snd (step b OQuery) with
       | OQ (f, u, c) -> pr (Printf.sprintf "q %s %s %s" (string_of_z f) (string_of_z u) (string_of_z c))
       | _ -> ()) in
  let do_op (o : op) =
    match !st with
    | None -> pr "r noring"
    | Some b ->
      let (b', r) = step b o in
      st := Some b';
      (match r with
       | ORet (v, bytes) -> pr (Printf.sprintf "r %s %s" (string_of_z v) (hex_of_bytes bytes))
       | OQ (f, u, c) -> ()
       | OD words ->
         let b = Buffer.create 8192 in
         List.iter (fun w -> Buffer.add_string b (Printf.sprintf "%x." (int_of_z w))) words;
         pr ("d " ^ Buffer.contents b)
       | OFuel -> pr "r OUT-OF-FUEL");
      query () in
  (try
     while true do
       let line = input_line stdin in
       (match split_ws line with
        | "#" :: _ -> st := None; pr line
        | ["O"; s; fl] ->
          let has c = String.contains fl c in
          st := Some (rb_open (z_of_string s) (has 'n') (has 'o'));
          pr "o 1"; query ()
        | ["W"; h] -> do_op (OWrite (bytes_of_hex h))
        | ["A"; rl; h] -> do_op (OAllocCommit (z_of_string rl, bytes_of_hex h))
        | ["R"; n] -> do_op (ORead (z_of_string n))
        | ["P"] -> do_op OPeek
        | ["X"] -> do_op OReclaim
        | ["Q"] -> do_op OQuery
        | ["D"] -> do_op ODump
        | [] -> ()
        | _ -> failwith ("bad script line: " ^ line));
       if Buffer.length out > 60000 then flush_out ()
     done
   with End_of_file -> ());
  flush_out ()
