(* C04 model runner: reads the implementation's log (harness/h_ipclife.c), re-executes every "op" / "beh" line on the
   extracted Gallina model and prints what the model answers in the same format. *)
let kind_of = function "a" -> KAccept | "c" -> KCreated | "m" -> KMsg | "l" -> KClosed | "d" -> KDestroyed
  | s -> failwith ("kind " ^ s)
let kname = function KAccept -> "accept" | KCreated -> "created" | KMsg -> "msg" | KClosed -> "closed" | KDestroyed -> "destroyed"
let letters = "?DRUSPXLIK"
let target_of s = if s = "s" then TSelf else TConn (nat_of_int (int_of_string s))
let action_of tok =
  let op = tok.[0] in
  let arg = if String.length tok > 2 && tok.[1] = ':' then String.sub tok 2 (String.length tok - 2) else "s" in
  match op with
  | 'D' -> ADisc (target_of arg) | 'R' -> ARef (target_of arg) | 'U' -> AUnref (target_of arg)
  | 'S' -> ASend (target_of arg) | 'P' -> AResp (target_of arg)
  | 'X' -> ADestroy | 'L' -> ARate (z_of_string arg) | 'I' -> AIter | 'K' -> AKill
  | _ -> failwith ("action " ^ tok)
let st_num = function INACTIVE -> 0 | ACTIVE -> 1 | ESTABLISHED -> 2 | SHUTTING_DOWN -> 3
let err_name = function
  | UseAfterFree c -> Printf.sprintf "UseAfterFree %d" (int_of_nat c)
  | ServiceUseAfterFree -> "ServiceUseAfterFree"
  | RefUnderflow c -> Printf.sprintf "RefUnderflow %d" (int_of_nat c)
  | ServiceRefUnderflow -> "ServiceRefUnderflow"
  | OrderViolation (k, c) -> Printf.sprintf "OrderViolation %s %d" (kname k) (int_of_nat c)
  | DestroyedWhileHeld c -> Printf.sprintf "DestroyedWhileHeld %d" (int_of_nat c)
  | OutOfFuel -> "OutOfFuel"
  | TransportGone c -> Printf.sprintf "TransportGone %d" (int_of_nat c)

let () =
  let out = Buffer.create 65536 in
  let pr s = Buffer.add_string out s; Buffer.add_char out '\n' in
  let w = ref world0 and shm = ref true and fixed = ref true and depth = ref 6 and dead = ref false in
  (match Sys.getenv_opt "C04_VARIANT" with Some "orig" -> fixed := false | _ -> ());
  let print_events wld =
    List.iter (function
      | ECb (k, c, r) -> pr (Printf.sprintf "cb %s %d %s" (kname k) (int_of_nat c) (string_of_z r))
      | EAct (code, c) | ESkip (code, c) as e ->
        let pre = (match e with EAct _ -> "a" | _ -> "skip") in
        let l = letters.[int_of_z code] in
        (match l with
         | 'X' | 'I' | 'K' -> pr (Printf.sprintf "%s %c" pre l)
         | 'L' -> if pre = "a" then pr (Printf.sprintf "a L %s" (string_of_z c)) else pr "skip L"
         | _ -> pr (Printf.sprintf "%s %c %s" pre l (string_of_z c)))
      | EIt c -> pr (Printf.sprintf "it %d" (int_of_nat c))
      | ENew _ -> ()) (List.rev (log wld)) in
  let print_state wld =
    let b = Buffer.create 64 in
    Buffer.add_string b (if s_alloc wld then "st svc=" ^ string_of_z (s_rc wld) else "st svc=freed");
    let n = int_of_nat (next wld) in
    for i = 0 to n - 1 do
      let x = conns wld (nat_of_int i) in
      (match c_ph x with
       | PNone | PDead -> ()
       | _ -> Buffer.add_string b (Printf.sprintf " %d:%d:%s:%s" i (st_num (c_st x)) (string_of_z (c_rc x)) (string_of_z (c_uref x))))
    done;
    Buffer.add_string b (Printf.sprintf " jobs=%d" (List.length (jobs wld)));
    pr (Buffer.contents b) in
  let exec line o fmt_r =
    pr line;
    if not !dead then begin
      match step !shm !fixed (nat_of_int !depth) o (clear_log !w) with
      | Ok (w', z) -> print_events w'; pr (fmt_r z); print_state w'; w := w'
      | Fail (e, w') -> print_events w'; pr ("ERR " ^ err_name e); dead := true
    end in
  let num z = "r " ^ string_of_z z in
  let skip_or f z = if string_of_z z = "-1000" then "r skip" else if string_of_z z = "-999" then "r err" else f z in
  let all = ref [] in
  (try while true do all := input_line stdin :: !all done with End_of_file -> ());
  let arr = Array.of_list (List.rev !all) in
  let pos = ref 0 in
  let next_result i =      (* the implementation's "r ..." line answering the op at line i *)
    let j = ref (i + 1) and res = ref "" in
    while !res = "" && !j < Array.length arr do
      let l = arr.(!j) in
      if String.length l > 2 && String.sub l 0 2 = "r " then res := l
      else if String.length l > 3 && String.sub l 0 3 = "op " then j := Array.length arr;
      incr j
    done; !res in
  (try
     while true do
       if !pos >= Array.length arr then raise End_of_file;
       let here = !pos in
       let line = arr.(here) in
       incr pos;
       match split_ws line with
       | "#" :: _ -> w := world0; dead := false; depth := 6; pr line
       | ["op"; "svc"; t] -> shm := (t = "shm"); pr line; pr "r 0"; print_state !w
       | ["depth"; n] -> depth := int_of_string n; pr line
       | "beh" :: k :: ret :: acts ->
         pr line;
         let b = { b_ret = z_of_string ret; b_acts = List.map action_of acts } in
         (match step !shm !fixed (nat_of_int !depth) (OBeh (kind_of k, b)) !w with Ok (w', _) -> w := w' | Fail _ -> ())
       | ["op"; "conn"; s] -> exec line (OConn (nat_of_int (int_of_string s), true)) (skip_or num)
       | ["op"; "connx"; s] -> exec line (OConn (nat_of_int (int_of_string s), false)) (skip_or num)
       | ["op"; "req"; s] ->
         exec line (OReq (nat_of_int (int_of_string s), next_result here = "r ok"))
           (skip_or (fun z -> if string_of_z z = "1" then "r ok" else "r fail"))
       | ["op"; ("hup" | "kill"); s] ->
         let empty = (next_result here = "r 0 e") in
         exec line (OHup (nat_of_int (int_of_string s), empty)) (skip_or (fun _ -> if empty then "r 0 e" else "r 0 q"))
       | ["op"; "t"; s] -> let i = int_of_string s in
         let empty = (here + 1 < Array.length arr && arr.(here + 1) = "kq e") in
         let kq = if empty then "kq e" else "kq q" in
         if i < 0 then (pr line; pr kq; if not !dead then (pr "r 0"; print_state !w))
         else (pr line; exec kq (OTurn (nat_of_int i, empty)) num)
       | ["op"; "jobs"] -> exec line OJobs num
       | ["op"; "app"; a] -> exec line (OApp (action_of a)) (fun _ -> "r 0")
       | ["op"; "end"] -> pr line; dead := true
       | _ -> ()
     done
   with End_of_file -> ());
  print_string (Buffer.contents out)
