(* Event-loop model runner (C10 and C08 use the same text): reads the script the implementation harness
   reads and prints what the extracted Gallina model observes.

   script lines:   rand v1 v2 ...            stream for random()
                   beh <key> <n> <ret> : <op> ; <op> ...     n-th invocation of callbacks with user data <key>
                   op <op>                    API call from outside the loop
                   run <env> | <env> ...      qb_loop_run; env = <adv_ns> <stop 0/1> [s <signo>...] [r <fd>:<bits>...]
   ops: ja p key | jd p key | ta p dur key reg | td reg | tr reg | pa p fd events key | pm p fd events key | pd fd
        | sa p signo key reg | sm p signo key reg | sd reg | stop | close fd | raise signo
   output: "r <op text> = <res>", "cb <kind> <key> <a> <b>", "w <timeout> <nevents>", "usleep", "runret",
           "uaf <n>", and after each run "ti <pstop> <adm qlen disp>x3 <returned>" per turn (model only). *)
let prio_of s = match s with "0" -> Low | "1" -> Med | "2" -> High | _ -> failwith ("bad priority " ^ s)
let int_of_prio p = match p with Low -> 0 | Med -> 1 | High -> 2
let z = z_of_string
let parse_op (w : string list) : op =
  match w with
  | ["ja"; p; k] -> OJobAdd (prio_of p, z k)
  | ["jd"; p; k] -> OJobDel (prio_of p, z k)
  | ["ta"; p; d; k; r] -> OTimerAdd (prio_of p, z d, z k, z r)
  | ["td"; r] -> OTimerDel (z r)
  | ["tr"; r] -> OTimerRunning (z r)
  | ["pa"; p; fd; e; k] -> OPollAdd (prio_of p, z fd, z e, z k)
  | ["pm"; p; fd; e; k] -> OPollMod (prio_of p, z fd, z e, z k)
  | ["pd"; fd] -> OPollDel (z fd)
  | ["sa"; p; s; k; r] -> OSigAdd (prio_of p, z s, z k, z r)
  | ["sm"; p; s; k; r] -> OSigMod (prio_of p, z s, z k, z r)
  | ["sd"; r] -> OSigDel (z r)
  | ["stop"] -> OStop
  | ["close"; fd] -> OClose (z fd)
  | ["raise"; s] -> ORaise (z s)
  | _ -> failwith ("bad op: " ^ String.concat " " w)
let op_text (o : op) : string =
  let p x = string_of_int (int_of_prio x) and s = string_of_z in
  match o with
  | OJobAdd (a, k) -> Printf.sprintf "ja %s %s" (p a) (s k)
  | OJobDel (a, k) -> Printf.sprintf "jd %s %s" (p a) (s k)
  | OTimerAdd (a, d, k, r) -> Printf.sprintf "ta %s %s %s %s" (p a) (s d) (s k) (s r)
  | OTimerDel r -> "td " ^ s r
  | OTimerRunning r -> "tr " ^ s r
  | OPollAdd (a, fd, e, k) -> Printf.sprintf "pa %s %s %s %s" (p a) (s fd) (s e) (s k)
  | OPollMod (a, fd, e, k) -> Printf.sprintf "pm %s %s %s %s" (p a) (s fd) (s e) (s k)
  | OPollDel fd -> "pd " ^ s fd
  | OSigAdd (a, g, k, r) -> Printf.sprintf "sa %s %s %s %s" (p a) (s g) (s k) (s r)
  | OSigMod (a, g, k, r) -> Printf.sprintf "sm %s %s %s %s" (p a) (s g) (s k) (s r)
  | OSigDel r -> "sd " ^ s r
  | OStop -> "stop" | OClose fd -> "close " ^ s fd | ORaise g -> "raise " ^ s g

(* split a word list at a separator word *)
let rec split_at sep (w : string list) : string list list =
  let rec go cur acc = function
    | [] -> List.rev (List.rev cur :: acc)
    | x :: r when x = sep -> go [] (List.rev cur :: acc) r
    | x :: r -> go (x :: cur) acc r in
  go [] [] w

let parse_env (w : string list) : env =
  match w with
  | adv :: stp :: rest ->
    let sigs = ref [] and ready = ref [] and mode = ref 0 in
    List.iter (fun t ->
        if t = "s" then mode := 1 else if t = "r" then mode := 2
        else if !mode = 1 then sigs := z t :: !sigs
        else if !mode = 2 then
          (match String.split_on_char ':' t with
           | [fd; b] -> ready := (z fd, z b) :: !ready
           | _ -> failwith ("bad ready " ^ t))
        else failwith ("bad env token " ^ t)) rest;
    { e_adv = z adv; e_sigs = List.rev !sigs; e_ready = List.rev !ready; e_stop = (stp = "1") }
  | _ -> failwith "bad env"

let () =
  let b = Buffer.create 65536 in
  let st = ref None and tbl = ref [] and rnd = ref [] and printed = ref 0 in
  (* tag -> ops are logged by the model as EvRet(tag,res) in order; we need the op text: keep a queue of op texts
     is impossible for ops inside callbacks, so the text is rebuilt from the behaviour table: instead the model
     logs only the tag; the driver prints "r <tag> = res" and the harness prints the same tag form. *)
  let flush_out s =
    let evs = List.rev (out s) in
    let n = List.length evs in
    List.iteri (fun i e ->
        if i >= !printed then
          Buffer.add_string b
            (match e with
             | EvOp o -> "o " ^ op_text o ^ "\n"
             | EvRet (t, r) -> Printf.sprintf "r %s = %s\n" (string_of_z t) (string_of_z r)
             | EvCb (k, key, a, c) -> Printf.sprintf "cb %s %s %s %s\n" (string_of_z k) (string_of_z key) (string_of_z a) (string_of_z c)
             | EvWait (t, n) -> Printf.sprintf "w %s %s\n" (string_of_z t) (string_of_z n)
             | EvUsleep -> "usleep\n"
             | EvRunRet -> "runret\n"
             | EvUaf w -> Printf.sprintf "uaf %s\n" (string_of_z w)
             | EvAdd _ | EvInv _ | EvDel _ -> "")) evs;
    printed := n in
  let get () = match !st with
    | Some s -> s
    | None -> let s = loop_create !rnd in st := Some s; flush_out s; s in
  let li l = Printf.sprintf "%d %s %s" (if l.li_admitted then 1 else 0) (string_of_z l.li_qlen) (string_of_z l.li_disp) in
  (try
     while true do
       let line = input_line stdin in
       match split_ws line with
       | "#" :: _ -> st := None; tbl := []; rnd := []; printed := 0; Buffer.add_string b line; Buffer.add_char b '\n'
       | "rand" :: vs -> rnd := List.map z vs
       | "beh" :: key :: n :: r :: ":" :: rest ->
         let ops = List.filter (fun w -> w <> []) (split_at ";" rest) in
         tbl := ((z key, z n), (List.map parse_op ops, z r)) :: !tbl
       | "op" :: w -> let s = exec_op (parse_op w) (get ()) in st := Some s; flush_out s
       | "run" :: w ->
         let envs = List.map parse_env (List.filter (fun w -> w <> []) (split_at "|" w)) in
         let (s, tis) = loop_run (beh_of !tbl) envs (get ()) in
         st := Some s; flush_out s;
         List.iter (fun t ->
             Buffer.add_string b (Printf.sprintf "ti %d %s %s %s %d\n" (int_of_prio t.ti_pstop)
                                    (li (ti_lv t High)) (li (ti_lv t Med)) (li (ti_lv t Low))
                                    (if t.ti_returned then 1 else 0))) tis
       | _ -> ()
     done
   with End_of_file -> ());
  print_string (Buffer.contents b)
