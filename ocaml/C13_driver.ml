(* C13 model runner.  Input = the script given to harness/h_logfmt.c with the implementation's oracle lines
   ("orc ..." / "orc2 ...", renamed "O ...") inserted before the command they belong to.  Output = the lines
   h_logfmt.c prints ("ctl", "out", "fmt") computed by the extracted Gallina model, plus "spec <text>" = the
   independent line_spec for every T command.  argv[1] = "asfound": model of the code as found. *)
let fx = not (Array.length Sys.argv > 1 && Sys.argv.(1) = "asfound")
let hexdig = "0123456789abcdef"
let bytes_of_hex (s : string) : z list =
  if s = "-" then [] else
    List.init (String.length s / 2) (fun i -> z_of_int (int_of_string ("0x" ^ String.sub s (2 * i) 2)))
let hex_of_bytes (l : z list) : string =
  if l = [] then "-" else begin
    let b = Buffer.create 64 in
    List.iter (fun x -> let v = (int_of_z x) land 255 in
                Buffer.add_char b hexdig.[v lsr 4]; Buffer.add_char b hexdig.[v land 15]) l;
    Buffer.contents b end
let rec fill n (g : z list) (pat : z list) acc =
  if n <= 0 then List.rev acc else
    match g with [] -> fill n pat pat acc | x :: t -> fill (n - 1) t pat (x :: acc)

let () =
  let orc = ref [] in
  let out = Buffer.create 65536 in
  let pr s = Buffer.add_string out s; Buffer.add_char out '\n' in
  (try
     while true do
       let line = input_line stdin in
       match split_ws line with
       | "#" :: _ -> print_string (Buffer.contents out); Buffer.clear out; flush stdout; pr line
       | "O" :: rest -> orc := List.map bytes_of_hex rest
       | ["C"; v] ->
         pr (if ctl_accepts_line_len fx (z_of_string v) then "ctl 0" else "ctl -22")
       | ["T"; l; ell; fmt; msg; fn; file; lineno; prio; tag; _; _; g] ->
         let lz = z_of_string l in
         let (tt, tT) = match !orc with [a; b] -> (a, b) | _ -> ([], []) in
         let cs = { cs_function = bytes_of_hex fn; cs_filename = bytes_of_hex file; cs_lineno = z_of_string lineno;
                    cs_priority = z_of_string prio; cs_tagtext = (if tag = "N" then [] else bytes_of_hex tag) } in
         let o = { o_time_t = tt; o_time_T = tT; o_pid = []; o_host = []; o_name = [] } in
         let pat = bytes_of_hex g in
         let pat = if pat = [] then [z_of_int 0xa5] else pat in
         let garbage = fill (int_of_z lz) pat pat [] in
         (match target_format fx (bytes_of_hex fmt) cs (bytes_of_hex msg) lz (ell <> "0") o garbage with
          | FDone b -> pr ("out " ^ hex_of_bytes b)
          | FOob t -> pr ("oob " ^ string_of_z t));
         pr ("spec " ^ hex_of_bytes (line_spec (bytes_of_hex fmt) cs (bytes_of_hex msg) lz (ell <> "0") o));
         (* the hypothesis of C13_text_partial, evaluated by the extracted predicate *)
         pr (if line_guard (bytes_of_hex fmt) cs (bytes_of_hex msg) lz o then "guard 1" else "guard 0")
       | ["F"; l; fmt] ->
         let (pid, host, name) = match !orc with [a; b; c] -> (a, b, c) | _ -> ([], [], []) in
         let o = { o_time_t = []; o_time_T = []; o_pid = pid; o_host = host; o_name = name } in
         let garbage = List.init (int_of_z (mODIFIED_FORMAT_SIZE fx)) (fun _ -> z_of_int 0xbe) in
         (match format_static fx (bytes_of_hex fmt) (z_of_string l) o garbage with
          | FDone b -> pr ("fmt " ^ hex_of_bytes (cstr b))
          | FOob t -> pr ("oob " ^ string_of_z t))
       | _ -> ()
     done
   with End_of_file -> ());
  print_string (Buffer.contents out)
