(* C19 model runner: reads the concrete call log ("op <letter> <args>") produced by the
   implementation harness h_array and prints what the extracted Gallina model answers, in
   the harness' output format.  Beside the concrete model it runs the abstract specification
   (spec_step) on the same calls and prints "SPEC-MISMATCH" if abs_out of the model's output
   differs from the specification's - a run-time cross-check of the refinement theorem's
   statement on the extracted code. *)
let n_of_int (i : int) : n = match z_of_int i with Zpos p -> Npos p | _ -> N0
let string_of_n (x : n) : string = match x with N0 -> "0" | Npos p -> string_of_pos p

let label_str (l : label) : string = match l with
  | LStart -> "start" | LCall -> "call" | LRdGrowLock -> "R a.grow_lock" | LLock -> "lock L0" | LUnlock -> "unlock L0"
  | LRdCb -> "R a.new_bin_cb" | LRdBin -> "R a.bin" | LRdTbl b -> "R tbl[" ^ string_of_z b ^ "]"
  | LRdEsize -> "R a.element_size"

let () =
  let w : world option ref = ref None in
  let sp : spec option ref = ref None in
  (* concurrent part *)
  let progs : call list array = Array.make 4 [] in
  let cs : cstate option ref = ref None in
  let fixed = ref true in
  let out = Buffer.create 65536 in
  let pr s = Buffer.add_string out s; Buffer.add_char out '\n' in
  let zs = string_of_z in
  let addr_str rc addr = match addr with
    | Some (b, off) -> Printf.sprintf "%s %s %s" (zs rc) (zs b) (zs off)
    | None -> if rc = Z0 then "0 ? ?" else zs rc in
  let seq_index tag idx =
    match !w with
    | None -> ()
    | Some w0 ->
      let (w1, x) = step w0 (Index idx) in
      (match x with
       | OIndex (rc, addr, _) -> pr (Printf.sprintf "%s %s %s" tag (zs idx) (addr_str rc addr))
       | _ -> ());
      w := Some w1 in
  let start_conc () =
    match !cs, !w with
    | None, Some w0 ->
      let n = ref 0 in
      Array.iteri (fun i p -> if p <> [] then n := i + 1) progs;
      let pl = Array.to_list (Array.sub progs 0 !n) in
      cs := Some (cinit w0 (List.map List.rev pl))
    | _ -> () in
  let print_events (evs : event list) =
    List.iter (fun e -> match e with
        | EStep (t, l) -> pr (Printf.sprintf "s %s %s" (zs t) (label_str l))
        | ERet (t, k, c, rc, addr) ->
          (match c with
           | CIndex _ -> pr (Printf.sprintf "ret %s %s %s" (zs t) (zs k) (addr_str rc addr))
           | CGrow _ -> pr (Printf.sprintf "ret %s %s %s" (zs t) (zs k) (zs rc)))
        | EUaf (t, b) -> pr (Printf.sprintf "uaf %s R tbl[%s]" (zs t) (zs b))) evs in
  (try
     while true do
       let line = input_line stdin in
       match split_ws line with
       | "#" :: _ -> w := None; sp := None; cs := None; Array.fill progs 0 4 []; pr line
       | ["model"; "unfixed"] -> fixed := false
       | ["model"; "fixed"] -> fixed := true
       | "op" :: "c" :: mx :: es :: au :: rest ->
         pr line;
         let cb = match rest with c :: _ -> c <> "0" | [] -> false in
         (match create (z_of_string mx) (z_of_string es) (z_of_string au) cb with
          | None -> w := None; sp := None; pr "r -22"
          | Some w0 -> w := Some w0; sp := Some (spec_init (z_of_string mx)); pr "r 0")
       | ["op"; "pre"; "i"; x] -> pr line; seq_index "pre" (z_of_string x)
       | ["op"; "pre"; "g"; x] ->
         pr line;
         (match !w with
          | Some w0 -> let (w1, r) = step w0 (Grow (z_of_string x)) in
            (match r with ORc rc -> pr (Printf.sprintf "pre %s %s" x (zs rc)) | _ -> ()); w := Some w1
          | None -> ())
       | ["op"; "t"; tid; k; x] ->
         pr line;
         let t = int_of_string tid in
         progs.(t) <- (if k = "i" then CIndex (z_of_string x) else CGrow (z_of_string x)) :: progs.(t)
       | "s" :: tid :: _ ->
         start_conc ();
         (match !cs with
          | Some s0 ->
            let before = List.length (c_log s0) in
            let s1 = cstep !fixed s0 (nat_of_int (int_of_string tid)) in
            let nnew = List.length (c_log s1) - before in
            let rec take n l = if n <= 0 then [] else match l with [] -> [] | x :: t -> x :: take (n - 1) t in
            if nnew = 0 then pr (Printf.sprintf "s %s <not enabled in the model>" tid)
            else print_events (List.rev (take nnew (c_log s1)));
            cs := Some s1
          | None -> ())
       | ["end"; rc] ->
         start_conc ();
         pr line;
         (match !cs with Some s1 -> w := Some (c_w s1) | None -> ())
       | "fin" :: idx :: _ -> seq_index "fin" (z_of_string idx)
       | "finbins" :: _ -> (match !w with Some w0 -> pr ("finbins " ^ zs (num_bins w0)) | None -> ())
       | "op" :: l :: args ->
         (match !w, !sp with
          | Some w0, Some s0 ->
            let a k = z_of_string (List.nth args k) in
            let o = match l with
              | "i" -> Index (a 0) | "g" -> Grow (a 0) | "n" -> NumBins
              | "s" -> Store (a 0, a 1, n_of_int (int_of_string (List.nth args 2)))
              | "l" -> Load (a 0, a 1)
              | _ -> failwith ("bad op " ^ l) in
            pr line;
            let (w1, x) = step w0 o in
            let (s1, sx) = spec_step (esize w0) (autog w0) s0 o in
            (match x with
             | OIndex (rc, addr, cbs) ->
               List.iter (fun b -> pr ("cb " ^ zs b)) cbs;
               (match addr with
                | Some (b, off) -> pr (Printf.sprintf "r %s %s %s" (zs rc) (zs b) (zs off))
                | None -> if rc = Z0 then pr "r 0 NULL" else pr ("r " ^ zs rc))
             | ORc rc -> pr ("r " ^ zs rc)
             | OVal None -> pr "v none"
             | OVal (Some v) -> pr ("v " ^ string_of_n v));
            if abs_out o x <> sx && sx <> SAny then pr "SPEC-MISMATCH";
            w := Some w1; sp := Some s1
          | _ -> ())
       | _ -> ()
     done
   with End_of_file -> ());
  print_string (Buffer.contents out)
