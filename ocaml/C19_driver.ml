(* C19 model runner: reads the concrete call log ("op <letter> <args>") produced by the
   implementation harness h_array and prints what the extracted Gallina model answers, in
   the harness' output format.  Beside the concrete model it runs the abstract specification
   (spec_step) on the same calls and prints "SPEC-MISMATCH" if abs_out of the model's output
   differs from the specification's - a run-time cross-check of the refinement theorem's
   statement on the extracted code. *)
let n_of_int (i : int) : n = match z_of_int i with Zpos p -> Npos p | _ -> N0
let string_of_n (x : n) : string = match x with N0 -> "0" | Npos p -> string_of_pos p

let () =
  let w : world option ref = ref None in
  let sp : spec option ref = ref None in
  let out = Buffer.create 65536 in
  let pr s = Buffer.add_string out s; Buffer.add_char out '\n' in
  let zs = string_of_z in
  (try
     while true do
       let line = input_line stdin in
       match split_ws line with
       | "#" :: _ -> w := None; sp := None; pr line
       | "op" :: "c" :: mx :: es :: au :: cb :: _ ->
         pr line;
         (match create (z_of_string mx) (z_of_string es) (z_of_string au) (cb <> "0") with
          | None -> w := None; sp := None; pr "r -22"
          | Some w0 -> w := Some w0; sp := Some (spec_init (z_of_string mx)); pr "r 0")
       | "op" :: l :: args ->
         (match !w, !sp with
          | Some w0, Some s0 ->
            let a k = z_of_string (List.nth args k) in
            let o = match l with
              | "i" -> Index (a 0) | "g" -> Grow (a 0) | "n" -> NumBins
              | "s" -> Store (a 0, a 1, n_of_int (int_of_string (List.nth args 2)))
              | "l" -> Load (a 0, a 1)
              | _ -> failwith ("bad op " ^ l) in
            pr line;
            let (w1, x) = step w0 o in
            let (s1, sx) = spec_step (esize w0) (autog w0) s0 o in
            (match x with
             | OIndex (rc, addr, cbs) ->
               List.iter (fun b -> pr ("cb " ^ zs b)) cbs;
               (match addr with
                | Some (b, off) -> pr (Printf.sprintf "r %s %s %s" (zs rc) (zs b) (zs off))
                | None -> if rc = Z0 then pr "r 0 NULL" else pr ("r " ^ zs rc))
             | ORc rc -> pr ("r " ^ zs rc)
             | OVal None -> pr "v none"
             | OVal (Some v) -> pr ("v " ^ string_of_n v));
            if abs_out o x <> sx && sx <> SAny then pr "SPEC-MISMATCH";
            w := Some w1; sp := Some s1
          | _ -> ())
       | _ -> ()
     done
   with End_of_file -> ());
  print_string (Buffer.contents out)
