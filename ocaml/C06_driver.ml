(* C06 model runner (superset of ocaml/C02_driver.ml: the same data-path ops plus the raw handshake ops).  Reads the implementation's log (harness/h_ipcdata.c): for every call an
   "op ..." line followed by "e <class> <len> <result>" kernel outcomes, callback lines and the "r ..." result.
   The concrete call and the kernel outcomes are the model's inputs; everything else is ignored.  Prints what
   the extracted Gallina model answers, in the same line format ("e" lines are not echoed).
   argv[1] = "orig" runs the model of the code as found (default: with the proposed fixes). *)
let vr = if Array.length Sys.argv > 1 && Sys.argv.(1) = "orig" then orig else fixed

let zs = string_of_z
let zi = z_of_int
let num s = z_of_string s

let kres_of len res =
  let l = int_of_string len and r = int_of_string res in
  if r = l then KOk else if r = -11 then KAgain else if r < 0 then KErr (zi (-r)) else KErr (zi 0)

let mkmsg id len hsz tag = { m_id = num id; m_len = num len; m_hsize = num hsz; m_tag = num tag }

let b2i b = if b then 1 else 0

let unhex (h : string) : z list =
  let n = String.length h / 2 in
  List.init n (fun i -> zi (int_of_string ("0x" ^ String.sub h (2 * i) 2)))

let state_line (s : st) =
  if s.closed || s.blocked then "st closed" else
    Printf.sprintf "st rq=%s rs=%s ev=%s sr=%s rr=%s fs=%s fn=%s eq=%s po=%d crd=%d srd=%d"
      (zs s.sv.n_req) (zs s.sv.n_resp) (zs s.sv.n_evt) (zs s.sv.n_sretry) (zs s.sv.n_rretry)
      (zs s.sv.fc_en) (zs s.sv.n_fc) (zs (evq_len s)) (b2i s.nt.pollout)
      (b2i (client_fd_readable s)) (b2i (server_fd_pollin s))

let describe (m : msg) = Printf.sprintf "%s %s %s 1" (zs m.m_tag) (zs m.m_id) (zs m.m_hsize)

let () =
  let out = Buffer.create 65536 in
  let pr s = Buffer.add_string out s; Buffer.add_char out '\n' in
  let state : st option ref = ref None in
  let hs : hsvc option ref = ref None in            (* the service as seen by raw handshake peers *)
  let cur_hb : (int * z list) option ref = ref None in   (* "hb <k> <hex>": bytes raw peer k wrote during this op *)
  let cur_census : string ref = ref "" in
  (* one block = op tokens, env (in order), the implementation's r line tokens *)
  let cur_op : string list ref = ref [] in
  let cur_env : kres list ref = ref [] in
  let cur_r : string list ref = ref [] in
  let flush_block () =
    (match !cur_op with
     | [] -> ()
     | toks ->
       pr ("op " ^ String.concat " " toks);
       let env = List.rev !cur_env in
       let api (o : op) (with_msg : bool) =
         match !state with
         | None -> pr "r closed"; pr "st closed"
         | Some s ->
           let (s', x) = step vr s o env in
           state := Some s';
           if x.o_dead then (pr "r closed"; pr "st closed")
           else begin
             List.iter (fun ((sz, m) : cb) -> pr (Printf.sprintf "M %s %s" (zs sz) (describe m))) x.o_cbs;
             if s'.closed && not s.closed then (pr "cb closed"; pr "cb destroyed");
             if s'.blocked && not s.blocked then pr "HANG";
             (match x.o_msg with
              | Some m when with_msg -> pr (Printf.sprintf "r %s %s" (zs x.o_res) (describe m))
              | _ -> pr ("r " ^ zs x.o_res));
             if x.o_envleft <> Z0 then pr ("envleft " ^ zs x.o_envleft);
             pr (state_line s')
           end in
       (match toks with
        | ["serve"; t] ->
          state := None;
          hs := Some (hs_init (if t = "shm" then SHM else SOCK));
          pr "r 0"
        | "hs" :: _ :: _ when !cur_r = ["r"; "-7"] -> pr "r -7"     (* the lab refused to deliver (absurd buffer size) *)
        | "hs" :: kind :: _ ->
          (match !hs, !cur_hb with
           | Some h, Some (k, bytes) ->
             let o = if kind = "a" || kind = "b" then HApp (nat_of_int k, bytes) else HNew bytes in
             let (h', x) = hs_step true h o in
             hs := Some h';
             (match x with
              | Some x ->
                pr (Printf.sprintf "r %s sock=%s accept=%s msgproc=%s created=%s closed=%s destroyed=%s"
                      (zs x.ho_k) (zs x.ho_sock) (zs x.ho_accept) (zs x.ho_msgproc) (zs x.ho_created) (zs x.ho_closed)
                      (zs x.ho_destroyed))
              | None -> pr "r -9")
           | _ -> pr "r -9")
        | [("hx" | "hh") as o; k] ->
          (match !hs with
           | Some h ->
             let ki = int_of_string k in
             let (h', x) = hs_step true h (if o = "hx" then HClose (nat_of_int ki) else HShut (nat_of_int ki)) in
             hs := Some h';
             (match x with
              | Some x ->
                pr (Printf.sprintf "r %s sock=%s msgproc=%s closed=%s destroyed=%s"
                      (zs x.ho_k) (if o = "hx" then "-2" else zs x.ho_sock) (zs x.ho_msgproc) (zs x.ho_closed) (zs x.ho_destroyed))
              | None -> pr "r -9")
           | None -> pr "r -9")
        | ["census"] ->
          (match !hs, !state with
           | Some h, None ->
             let (((t, f), m), r) = census h in
             pr (Printf.sprintf "r table=%s fds=%s shm=%s ref=%s" (zs t) (zs f) (zs m) (zs r))
           | _ ->
             (* with the in-process client connected the absolute numbers also count that client's own descriptors:
                not modelled; the monitor checks that they return to their earlier values (vlib/ipcdata.py) *)
             pr !cur_census)
        | ["open"; t; mx; enf] ->
          let neg = negotiate_enforced (num mx) (num enf) in
          hs := Some (hs_init (if t = "shm" then SHM else SOCK));
          state := Some (init (if t = "shm" then SHM else SOCK) neg);
          pr (Printf.sprintf "r 0 %s" (zs neg));
          (match !state with Some s -> pr (state_line s) | None -> ())
        | ["open"; t; mx] ->
          let neg = negotiate (num mx) in
          hs := Some (hs_init (if t = "shm" then SHM else SOCK));
          state := Some (init (if t = "shm" then SHM else SOCK) neg);
          pr (Printf.sprintf "r 0 %s" (zs neg));
          (match !state with Some s -> pr (state_line s) | None -> ())
        | ["close"] ->
          (match !state with
           | Some s when not s.closed -> pr "cb closed"; pr "cb destroyed"
           | _ -> ());
          state := None; hs := None;
          pr "r 0 shm_left=0 fds_delta=0"
        | ["ctl"] -> pr "r 1"                      (* the server must still serve a well-behaved client *)
        | "mr" :: l ->
          (match !state with
           | Some s -> let (s', _) = step vr s (SMret (List.map num l)) [] in state := Some s'
           | None -> ());
          pr "r 0"
        | [o] when List.mem o ["cs"; "cv"; "cx"; "cr"; "ce"; "cf"; "sr"; "sv"; "se"; "sw"; "rl"; "rq"] ->
          pr "r closed"; pr "st closed"            (* the harness no longer calls libqb on a closed connection *)
        | ["cs"; len; tag; id; hsz] -> api (CSend (false, mkmsg id len hsz tag)) false
        | ["cv"; len; tag; _] -> api (CSend (true, mkmsg "1" len len tag)) false
        | ["cx"; len; tag; bl] -> api (CSendRecv (mkmsg "1" len len tag, num bl)) true
        | ["cr"; bl] -> api (CRecv (num bl)) true
        | ["ce"; bl] -> api (CEvRecv (num bl)) true
        | ["cf"; n] -> api (CFcMax (num n)) false
        | ["t"] ->
          (* the kernel's answer "writable" is read off the revents the implementation was given *)
          let rev = match !cur_r with _ :: r :: _ -> (try int_of_string r with _ -> 0) | _ -> 0 in
          api (STurn (rev land 4 <> 0)) false
        | ["sr"; len; tag] -> api (SResp (false, mkmsg "2" len len tag)) false
        | ["sv"; len; tag; _] -> api (SResp (true, mkmsg "2" len len tag)) false
        | ["se"; len; tag] -> api (SEvt (false, mkmsg "2" len len tag)) false
        | ["sw"; len; tag; _] -> api (SEvt (true, mkmsg "2" len len tag)) false
        | ["rl"; n] -> api (SRate (num n)) false
        | ["rq"; len; hsz; id; tag] -> api (CRaw (mkmsg id len hsz tag)) false
        | _ -> pr "r unknown-op"));
    cur_op := []; cur_env := []; cur_r := []; cur_hb := None in
  (try
     while true do
       let line = input_line stdin in
       match split_ws line with
       | "#" :: _ -> flush_block (); state := None; hs := None; pr line
       | "op" :: toks -> flush_block (); cur_op := toks
       | ["e"; _; len; res] -> cur_env := kres_of len res :: !cur_env
       | ["hb"; k] -> cur_hb := Some (int_of_string k, [])
       | ["hb"; k; hex] -> cur_hb := Some (int_of_string k, unhex hex)
       | "r" :: _ as l -> if !cur_r = [] then (cur_r := l; cur_census := line)
       | _ -> ()
     done
   with End_of_file -> ());
  flush_block ();
  print_string (Buffer.contents out)
