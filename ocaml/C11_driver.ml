(* C11 model runner.  Two modes, chosen by the environment variable C11_MODE:

   ring (default): reads the script the ring harness (harness/h_rb.c) reads and prints what the extracted Gallina
     ring-buffer model answers, in the harness' output format (as ocaml/C07_driver.ml does; here the rings are
     opened with the OVERWRITE flag):   O <S> <flags>   W <hex|->   A <rlen> <hex|->   R <n>   P   X   Q   D

   split: reads the ring commands of harness/h_rbow.c (lower case: o w a f c r p x d) - alloc / copy / commit as separate
     calls (coq/RbOwSplitModel.v: xstep) and reads / peeks with ms_timeout <> 0 (coq/RbOwWaitModel.v: read_wait /
     peek_wait, the notifier answering what a single-threaded run sees) - and prints the harness' output lines.

   bb: reads the LOG of the blackbox harness (harness/h_rbow.c) - the echoed concrete calls, the serializer's answers
     (oracle) and the time stamps - and prints what the extracted blackbox model (coq/BbModel.v) predicts for every
     observable line: the reservation, the limit of each serializer call, the committed chunk, the dump read back. *)
let bytes_of_hex (s : string) : z list =
  if s = "-" then [] else begin
    let n = String.length s / 2 in
    let rec go i acc = if i < 0 then acc
      else go (i - 1) (z_of_int (int_of_string ("0x" ^ String.sub s (2 * i) 2)) :: acc) in
    go (n - 1) []
  end

let hex_of_bytes (l : z list) : string =
  if l = [] then "-" else begin
    let b = Buffer.create (2 * List.length l) in
    List.iter (fun x -> Buffer.add_string b (Printf.sprintf "%02x" ((int_of_z x) land 0xff))) l;
    Buffer.contents b
  end

let out = Buffer.create 65536
let pr s = Buffer.add_string out s; Buffer.add_char out '\n'
let flush_out () = print_string (Buffer.contents out); Buffer.clear out

(* ------------------------------------------------------------------ ring mode *)
let ring_mode () =
  let st = ref None in
  let query () =
    match !st with
    | None -> ()
    | Some b ->
      (match snd (step b OQuery) with
       | OQ (f, u, c) -> pr (Printf.sprintf "q %s %s %s" (string_of_z f) (string_of_z u) (string_of_z c))
       | _ -> ()) in
  let do_op (o : op) =
    match !st with
    | None -> pr "r noring"
    | Some b ->
      let (b', r) = step b o in
      st := Some b';
      (match r with
       | ORet (v, bytes) -> pr (Printf.sprintf "r %s %s" (string_of_z v) (hex_of_bytes bytes))
       | OQ (f, u, c) -> ()
       | OD words ->
         let b = Buffer.create 8192 in
         List.iter (fun w -> Buffer.add_string b (Printf.sprintf "%x." (int_of_z w))) words;
         pr ("d " ^ Buffer.contents b)
       | OFuel -> pr "r OUT-OF-FUEL");
      query () in
  (try
     while true do
       let line = input_line stdin in
       (match split_ws line with
        | "#" :: _ -> st := None; pr line
        | ["O"; s; fl] ->
          let has c = String.contains fl c in
          st := Some (rb_open (z_of_string s) (has 'n') (has 'o'));
          pr "o 1"; query ()
        | ["W"; h] -> do_op (OWrite (bytes_of_hex h))
        | ["A"; rl; h] -> do_op (OAllocCommit (z_of_string rl, bytes_of_hex h))
        | ["R"; n] -> do_op (ORead (z_of_string n))
        | ["P"] -> do_op OPeek
        | ["X"] -> do_op OReclaim
        | ["Q"] -> do_op OQuery
        | ["D"] -> do_op ODump
        | [] -> ()
        | _ -> failwith ("bad script line: " ^ line));
       if Buffer.length out > 60000 then flush_out ()
     done
   with End_of_file -> ());
  flush_out ()

(* ------------------------------------------------------------------ blackbox mode *)
let le_bytes (v : int) (n : int) : z list =          (* two's complement little endian, n bytes *)
  let rec go k v acc = if k = n then List.rev acc else go (k + 1) (v asr 8) (z_of_int (v land 0xff) :: acc) in
  go 0 v []

let readback_buf = z_of_int 16384

let bb_mode () =
  let lines = ref [] in
  (try while true do lines := input_line stdin :: !lines done with End_of_file -> ());
  let lines = Array.of_list (List.rev !lines) in
  let n = Array.length lines in
  let st : rb option ref = ref None in          (* t->instance *)
  let inited = ref false in
  let maxline = ref bb_default_maxline in
  let is_op l = l <> "" && (l.[0] = '#' || l.[0] = 'B' || l.[0] = 'L' || l.[0] = 'D') in
  let i = ref 0 in
  while !i < n do
    let line = lines.(!i) in
    incr i;
    (* the lines the implementation printed for this operation *)
    let blk = ref [] in
    if is_op line then begin
      while !i < n && not (is_op lines.(!i)) do blk := lines.(!i) :: !blk; incr i done
    end;
    let blk = List.rev !blk in
    (match split_ws line with
     | "#" :: _ -> st := None; inited := false; pr line
     | ["B"; size; ml] ->
       pr line;
       inited := true;
       st := bb_open (z_of_string size);
       maxline := (if ml = "0" then bb_default_maxline else z_of_string ml);
       pr "b 0 0 0 0"
     | ["L"; _seq; lineno; tags; prio; fnhex; _kind; _arg] ->
       pr line;
       if !inited then begin
         let oracle = List.filter_map (fun l -> match split_ws l with
             | ["s"; lim; ret; hex] -> Some (lim, ret, hex) | _ -> None) blk in
         let ts = List.fold_left (fun acc l -> match split_ws l with
             | ["t"; sec; nsec] -> Some (sec, nsec) | _ -> acc) None blk in
         let (sec, nsec) = match ts with Some x -> x | None -> ("0", "0") in
         (match !st with
          | None -> pr "t 0 0"
          | Some _ ->
            let half = (int_of_z bb_timespec_size) / 2 in
            let tsb = le_bytes (int_of_string sec) half @ le_bytes (int_of_string nsec) half in
            let hdr = { r_lineno = z_of_string lineno; r_tags = z_of_string tags; r_prio = z_of_string prio;
                        r_fn = bytes_of_hex fnhex @ [z_of_int 0]; r_ts = tsb; r_msg = [] } in
            let (ret1, hex1) = match oracle with (_, r, h) :: _ -> (r, h) | [] -> ("0", "-") in
            let second = match oracle with _ :: (_, r, h) :: _ -> Some (r, h) | _ -> None in
            let m2 = match second with Some (_, h) -> bytes_of_hex h | None -> [] in
            let (st', o) = bb_step !st (BLog (!maxline, hdr, z_of_string ret1, bytes_of_hex hex1, m2)) in
            st := st';
            (match o with
             | BoLog (rlen, lim2, r, chunk) ->
               pr (Printf.sprintf "a %s 0" (string_of_z rlen));
               pr (Printf.sprintf "s %s %s %s" (string_of_z !maxline) ret1 hex1);
               (match lim2 with
                | Some l ->
                  (match second with
                   | Some (r2, h2) -> pr (Printf.sprintf "s %s %s %s" (string_of_z l) r2 h2)
                   | None -> pr (Printf.sprintf "s %s MISSING" (string_of_z l)))
                | None -> ());
               pr (Printf.sprintf "c %d %s" (List.length chunk) (hex_of_bytes chunk));
               pr (Printf.sprintf "t %s %s" sec nsec)
             | BoAbort (rlen, e) ->
               pr (Printf.sprintf "a %s %s" (string_of_z rlen) (string_of_z e));
               pr (Printf.sprintf "t %s %s" sec nsec)
             | BoFuel -> pr "a OUT-OF-FUEL"
             | _ -> pr "?"))
       end
     | ["D"] ->
       pr "D";
       if !inited then begin
         pr (Printf.sprintf "w %s" (string_of_z (bb_dump_file_size !st)));
         (match !st with
          | None -> ()
          | Some b ->
            pr "h 1";
            (* qb_rb_chunk_read until it fails, on the ring rebuilt from the file *)
            let rec loop (fb : rb) (acc : z list list) =
              match step fb (ORead readback_buf) with
              | (fb', ORet (r, bytes)) ->
                if int_of_z r < 0 then begin pr (Printf.sprintf "e %s" (string_of_z r)); List.rev acc end
                else begin
                  pr (Printf.sprintf "k %s %s" (string_of_z r) (hex_of_bytes bytes));
                  loop fb' (bytes :: acc)
                end
              | _ -> pr "e ?"; List.rev acc in
            let got = loop (rb_of_file b) [] in
            (* the definition the theorems speak about gives the same list *)
            if got <> readback b readback_buf then pr "READBACK-MISMATCH";
            (* ... and so does the read-back through the words of the dump file (qb_rb_write_to_file ;
               qb_rb_create_from_file, coq/RbOwDumpModel.v) *)
            if got <> readback_words b readback_buf then pr "READBACK-WORDS-MISMATCH")
       end
     | _ -> ());
    if Buffer.length out > 60000 then flush_out ()
  done;
  flush_out ()

(* ------------------------------------------------------------------ split mode *)
let split_mode () =
  let st : xst option ref = ref None in
  let alloc_res = ref Z0 in           (* result printed for the last `a' *)
  let alloc_ok = ref false in
  let query () =
    match !st with
    | None -> ()
    | Some s ->
      (match snd (step s.xb OQuery) with
       | OQ (f, u, c) -> pr (Printf.sprintf "q %s %s %s" (string_of_z f) (string_of_z u) (string_of_z c))
       | _ -> ()) in
  let show (r : out) =
    match r with
    | ORet (v, bytes) -> pr (Printf.sprintf "r %s %s" (string_of_z v) (hex_of_bytes bytes))
    | OD words ->
      let b = Buffer.create 8192 in
      List.iter (fun w -> Buffer.add_string b (Printf.sprintf "%x." (int_of_z w))) words;
      pr ("d " ^ Buffer.contents b)
    | OFuel -> pr "r OUT-OF-FUEL"
    | OQ _ -> () in
  let xdo (o : xop) (print : bool) =
    match !st with
    | None -> pr "r noring"; None
    | Some s ->
      let (s', r) = xstep s o in
      st := Some s';
      if print then (show r; query ());
      Some r in
  (try
     while true do
       let line = input_line stdin in
       (match split_ws line with
        | "#" :: _ -> st := None; alloc_ok := false; pr line
        | ["o"; s; fl] ->
          let has c = String.contains fl c in
          st := Some { xb = rb_open (z_of_string s) (has 'n') (has 'o'); xpend = None };
          alloc_ok := false;
          pr "o 1"; query ()
        | ["w"; h] -> ignore (xdo (XOp (OWrite (bytes_of_hex h))) true)
        | ["a"; rl] ->
          (match xdo (XAlloc (z_of_string rl)) false with
           | Some (ORet (v, _)) ->
             alloc_res := v; alloc_ok := (int_of_z v = 0);
             if !alloc_ok then pr "ra 0" else begin pr (Printf.sprintf "r %s -" (string_of_z v)); query () end
           | Some OFuel -> pr "ra OUT-OF-FUEL"
           | _ -> ())
        | ["f"; h] -> if !alloc_ok then ignore (xdo (XFill (bytes_of_hex h)) false)
        | ["c"; len] ->
          if !alloc_ok then ignore (xdo (XCommit (z_of_string len)) true)
          else if !st = None then pr "r noring";
          alloc_ok := false
        | ["r"; n; ms] ->
          if ms = "0" then ignore (xdo (XOp (ORead (z_of_string n))) true)
          else (match !st with
              | None -> pr "r noring"
              | Some s ->
                let ((b', r), bytes) = read_wait s.xb (z_of_string n) in
                st := Some { xb = b'; xpend = s.xpend };
                show (ORet (r, bytes)); query ())
        | ["p"; ms] ->
          if ms = "0" then ignore (xdo (XOp OPeek) true)
          else (match !st with
              | None -> pr "r noring"
              | Some s ->
                let ((b', r), bytes) = peek_wait s.xb in
                st := Some { xb = b'; xpend = s.xpend };
                show (ORet (r, bytes)); query ())
        | ["x"] -> ignore (xdo (XOp OReclaim) true)
        | ["d"] -> ignore (xdo (XOp ODump) true)
        | [] -> ()
        | _ -> failwith ("bad script line: " ^ line));
       if Buffer.length out > 60000 then flush_out ()
     done
   with End_of_file -> ());
  flush_out ()

let () =
  match Sys.getenv_opt "C11_MODE" with
  | Some "bb" -> bb_mode ()
  | Some "split" -> split_mode ()
  | _ -> ring_mode ()
