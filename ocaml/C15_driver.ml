(* C15 model runner.  Input (one case after each "# case" line):
     fix <fxh> <fxr>        which repairs the implementation under test contains (0/1 each)
     heap <byte>            fill byte of the uninitialised malloc buffer (ASan: 0xbe);  stk <byte> likewise
     errno <n>              the stale errno
     orc <hex> <hex> ...    decoder answers, one per decoded entry (bytes string[0..r), hex, "-" = empty)
     file <rle>             the file (hex strings and *count:byte runs), then the model prints the run:
         hdr W wp rp free used | cr r | ds off len | rec prio sec nsec fnhex line tags msghex | err kind arg
         ret rc | fault kind idx ;  shm n
   Round-trip side:
     ring <S>               open an overwrite ring of requested size S (the blackbox)
     put <rlen> <hex>       alloc(rlen) + commit(bytes)      (what _blackbox_vlogger does; bytes = enc of the entry)
     mkrec <line> <tags> <prio> <fnhex> <sec> <nsec> <msghex>  -> put of the encoded entry, rlen = |enc| - |msg| + maxline
     dumpfile               file := bb_dump ring ; prints "dumped <len>"
     print                  run the printer on the current file *)
let hexdig c = match c with
  | '0'..'9' -> Char.code c - 48 | 'a'..'f' -> Char.code c - 87 | 'A'..'F' -> Char.code c - 55
  | _ -> failwith "bad hex"

(* small-integer table so that byte conversion is cheap *)
let ztab = Array.init 256 (fun i -> z_of_int i)

let bytes_of_hex (s : string) : z list =
  if s = "-" || s = "x" then [] else begin
    let s = if String.length s > 0 && s.[0] = 'x' then String.sub s 1 (String.length s - 1) else s in
    let n = String.length s / 2 in
    let rec go i acc = if i < 0 then acc
      else go (i - 1) (ztab.(hexdig s.[2*i] * 16 + hexdig s.[2*i+1]) :: acc) in
    go (n - 1) []
  end

let hex_of_bytes (l : z list) : string =
  let b = Buffer.create (2 * List.length l + 1) in
  Buffer.add_char b 'x';
  List.iter (fun x -> Buffer.add_string b (Printf.sprintf "%02x" ((int_of_z x) land 0xff))) l;
  Buffer.contents b

let bytes_of_rle (toks : string list) : z list =
  let parts = List.map (fun t ->
      if String.length t > 0 && t.[0] = '*' then begin
        match String.split_on_char ':' (String.sub t 1 (String.length t - 1)) with
        | [c; b] -> let v = ztab.(int_of_string ("0x" ^ b)) in List.init (int_of_string c) (fun _ -> v)
        | _ -> failwith "bad rle"
      end else bytes_of_hex t) toks in
  List.concat parts

let fault_str f = match f with
  | OobRing i -> "ring " ^ string_of_z i
  | OobChunk i -> "chunk " ^ string_of_z i
  | OobMsg i -> "msg " ^ string_of_z i
  | Abort -> "abort 0"
  | OutOfFuel -> "fuel 0"

let () =
  let fxh = ref true and fxr = ref true in
  let heap = ref 0xbe and stk = ref 0 and errno0 = ref Z0 in
  let orc = ref [] in
  let file = ref [] in
  let ring = ref None in
  let maxline = ref 512 in
  let out = Buffer.create 65536 in
  let pr s = Buffer.add_string out s; Buffer.add_char out '\n' in
  let flush_out () = print_string (Buffer.contents out); Buffer.clear out in
  let zs = string_of_z in
  let run () =
    let r = print_from_file !fxh !fxr !orc (List.init 1024 (fun _ -> ztab.(!heap)))
        (List.init 512 (fun _ -> ztab.(!stk))) !errno0 !file in
    List.iter (fun e -> match e with
        | EHdr (w, wp, rp, fr, us) -> pr (Printf.sprintf "hdr %s %s %s %s %s" (zs w) (zs wp) (zs rp) (zs fr) (zs us))
        | ERead r -> pr ("cr " ^ zs r)
        | EDec (o, l) -> pr (Printf.sprintf "ds %s %s" (zs o) (zs l))
        | ERec (p, s, n, fn, ln, tg, m) ->
          pr (Printf.sprintf "rec %s %s %s %s %s %s %s" (zs p) (zs s) (zs n) (hex_of_bytes fn) (zs ln) (zs tg) (hex_of_bytes m))
        | EErr (k, a) -> pr (Printf.sprintf "err %s %s" (zs k) (zs a))) r.evs;
    (match r.out with
     | Ret rc -> pr ("ret " ^ zs rc)
     | Fault f -> pr ("fault " ^ fault_str f));
    pr (Printf.sprintf "shm %d" (List.length r.shm_left)) in
  (try
     while true do
       let line = input_line stdin in
       (match split_ws line with
        | "#" :: _ -> pr line; orc := []; file := []; ring := None
        | ["fix"; a; b] -> fxh := (a = "1"); fxr := (b = "1")
        | ["heap"; b] -> heap := int_of_string b
        | ["stk"; b] -> stk := int_of_string b
        | ["errno"; n] -> errno0 := z_of_string n
        | "orc" :: l -> orc := List.map bytes_of_hex l
        | "file" :: l -> file := bytes_of_rle l; run ()
        | ["ring"; s] -> ring := Some (rb_open (z_of_string s) false true)
        | ["maxline"; n] -> maxline := int_of_string n
        | ["put"; rl; h] ->
          (match !ring with
           | None -> pr "r noring"
           | Some b -> (match alloc_commit b (z_of_string rl) (bytes_of_hex h) with
               | WRet (b', r) -> ring := Some b'; pr ("r " ^ zs r)
               | WFuel -> pr "r OUT-OF-FUEL"))
        | ["mkrec"; ln; tg; p; fn; s; n; m] ->
          (match !ring with
           | None -> pr "r noring"
           | Some b ->
             let msg = bytes_of_hex m in
             let e = enc { b_line = z_of_string ln; b_tags = z_of_string tg; b_prio = z_of_string p;
                           b_fn = bytes_of_hex fn; b_sec = z_of_string s; b_nsec = z_of_string n; b_msg = msg } in
             let rl = List.length e - List.length msg + !maxline in
             (match alloc_commit b (z_of_int rl) e with
              | WRet (b', r) -> ring := Some b'; pr ("r " ^ zs r)
              | WFuel -> pr "r OUT-OF-FUEL"))
        | ["dumpfile"] ->
          (match !ring with
           | None -> pr "dumped 0"
           | Some b -> file := bb_dump b; pr (Printf.sprintf "dumped %d" (List.length !file)))
        | ["print"] -> run ()
        | [] -> ()
        | _ -> failwith ("bad script line: " ^ line));
       if Buffer.length out > 60000 then flush_out ()
     done
   with End_of_file -> ());
  flush_out ()
