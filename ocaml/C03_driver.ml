(* C03 model runner.  Input lines:
     cut <shm|sock> <none|backlog|auth|conn> <a> <b> <stale 0|1>
         auth: a = request bytes the client has sent, b = 1 when the server had already looked at them
         conn: a = requests queued, b = wake-up bytes unread
       -> the extracted model reaches that class with a canonical client prefix, the client dies, the server
          quiesces:  "pred log=<letters> fds=<n> entries=<n> files=<n> dirs=<n> svcref=<d> active=<d> closed=<d>"
     sweep <shm|sock> <scenario> -> every cut point k of the scenario program, both schedules, stale or not: number of
          runs and how many end with resources held (must be 0)
     client <fixed 0|1> <rq 0|1> <eq 0|1> <conn 0|1> <call> <timeout>
          the client-side decision logic on a dead server -> "cres <rc> conn=<0|1> waited=<ms>" or "cres HANG" *)
let cbchar = function CbAccept -> 'A' | CbCreated -> 'C' | CbMsg -> 'M' | CbClosed -> 'L' | CbDestroyed -> 'D'
let zi = z_of_int
let () =
  let out = Buffer.create 65536 in
  (try
     while true do
       let line = input_line stdin in
       match split_ws line with
       | "#" :: _ -> Buffer.add_string out line; Buffer.add_char out '\n'
       | ["cut"; tr; cls; a; b; stale] ->
         let t = if tr = "shm" then Shm else Sock in
         let c = (match cls with
             | "none" -> CutNone | "backlog" -> CutBacklog
             | "auth" -> CutAuth (z_of_string a, b = "1")
             | _ -> CutConn (z_of_string a, z_of_string b)) in
         let s0 = init (zi 0) (zi 0) (zi 0) () in
         let s = predict t c (stale = "1") s0 in
         let l = String.concat "" (List.map (fun x -> String.make 1 (cbchar x)) (log s)) in
         Buffer.add_string out
           (Printf.sprintf "pred log=%s fds=%s entries=%s files=%s dirs=%s svcref=%s active=%s closed=%s\n" l
              (string_of_z (fds_of (held s))) (string_of_z (entries_of (held s))) (string_of_z (files_of (held s)))
              (string_of_z (dirs_of (held s))) (string_of_z (svc_ref s)) (string_of_z (active s))
              (string_of_z (closedn s)))
       | ["sweep"; tr; sc] ->
         let t = if tr = "shm" then Shm else Sock in
         let prog = scenario t (nat_of_int (int_of_string sc)) in
         let n = List.length prog in
         let runs = ref 0 and bad = ref 0 in
         for k = 0 to n + 1 do
           List.iter (fun stale ->
               List.iter (fun passes ->
                   let sched = List.init n (fun _ -> nat_of_int passes) in
                   let s = client_dies_at t (zi 0) prog sched (nat_of_int k) stale (init (zi 0) (zi 0) (zi 0) ()) in
                   incr runs;
                   if int_of_z (held_count (held s)) <> 0 || int_of_z (svc_ref s) <> 0 then incr bad)
                 [0; 1; 2]) [false; true]
         done;
         Buffer.add_string out (Printf.sprintf "swept runs=%d bad=%d steps=%d\n" !runs !bad n)
       | ["client"; fixed; rq; eq; conn; call; tmo] ->
         let e = dead_env_shm (rq = "1") (eq = "1") in
         let fx = fixed = "1" and cn = conn = "1" and t = z_of_string tmo in
         let show = function
           | None -> "cres HANG\n"
           | Some ((r, c), w) -> Printf.sprintf "cres %s conn=%d waited=%s\n" (string_of_z r) (if c then 1 else 0) (string_of_z w) in
         let r = (match call with
             | "recv" -> show (ipcc_recv fx e cn t)
             | "sendv_recv" -> show (ipcc_sendv_recv (nat_of_int 8) fx e cn t)
             | "event_recv" -> show (ipcc_event_recv e cn t)
             | "send" -> let (r, c) = ipcc_send e cn in show (Some ((r, c), zi 0))
             | "disconnect" ->
               (match ipcc_disconnect_forces e cn true true with
                | None -> "cres HANG\n" | Some b -> Printf.sprintf "cres force=%d\n" (if b then 1 else 0))
             | _ -> "cres ?\n") in
         Buffer.add_string out r
       | _ -> ()
     done
   with End_of_file -> ());
  print_string (Buffer.contents out)
