(* C12 model runner: reads the concrete call log produced by harness/h_log.c ("op ..." lines, plus the
   "oracle ..." lines that carry regcomp/regexec answers) and prints what the extracted Gallina model
   answers, in the harness' own output format.  For every log call it also prints a line
   "spec <targets> tag <g>": the routing and the tag the *specification* (route / tag_of over the
   configuration, no call sites) prescribes for that call.
   LOGRF_VARIANT = four characters 0/1: replay_all, reapply, fnkey, close_clears (default 1111 = fixed). *)
let unhex (s : string) : z list option =
  if s = "N" then None
  else begin
    let n = (String.length s - 1) / 2 in
    let rec go i acc = if i < 0 then acc else go (i - 1) (z_of_int (int_of_string ("0x" ^ String.sub s (1 + 2 * i) 2)) :: acc) in
    Some (go (n - 1) [])
  end

let hex (l : z list) : string =
  let b = Buffer.create 64 in
  Buffer.add_char b 'x';
  List.iter (fun c -> Buffer.add_string b (Printf.sprintf "%02x" (int_of_z c))) l;
  Buffer.contents b

let str_of o = match o with Some l -> l | None -> []

let () =
  let vs = match Sys.getenv_opt "LOGRF_VARIANT" with Some s when String.length s = 4 -> s | _ -> "1111" in
  let v = { v_replay_all = vs.[0] = '1'; v_reapply = vs.[1] = '1'; v_fnkey = vs.[2] = '1'; v_close_clears = vs.[3] = '1' } in
  let rc_tab : (string, bool) Hashtbl.t = Hashtbl.create 64 in
  let re_tab : (string * string, bool) Hashtbl.t = Hashtbl.create 256 in
  let missing = ref false in
  let re_ok p = match Hashtbl.find_opt rc_tab (hex p) with Some b -> b | None -> missing := true; false in
  let re_match p s = match Hashtbl.find_opt re_tab (hex p, hex s) with Some b -> b | None -> missing := true; false in
  let st = ref (log_init (z_of_int 6)) in
  let cf = ref (cfg_init (z_of_int 6)) in
  let out = Buffer.create 65536 in
  let pr s = Buffer.add_string out s; Buffer.add_char out '\n' in
  let zi s = z_of_string s in
  (try
     while true do
       let line = input_line stdin in
       match split_ws line with
       | "#" :: _ -> st := log_init (z_of_int 6); cf := cfg_init (z_of_int 6);
         Hashtbl.reset rc_tab; Hashtbl.reset re_tab; pr line
       | ["oracle"; "rc"; p; a] -> Hashtbl.replace rc_tab p (a = "1")
       | ["oracle"; "re"; p; s; a] -> Hashtbl.replace re_tab (p, s) (a = "1")
       | "op" :: rest ->
         let o = match rest with
           | ["O"] -> OOpen
           | ["X"; t] -> OClose (zi t)
           | ["E"; t; on] -> OEnable (zi t, on <> "0")
           | ["F"; t; c; ty; tx; hi; lo] -> OFilter (zi t, zi c, zi ty, unhex tx, zi hi, zi lo)
           | ["L"; fn; file; fmt; prio; ln; tags] ->
             OLog (str_of (unhex fn), str_of (unhex file), str_of (unhex fmt), zi prio, zi ln, zi tags)
           | _ -> failwith ("bad op: " ^ line) in
         pr line;
         missing := false;
         (* what the specification says about this call, from the configuration before it *)
         (match o with
          | OLog (fn, file, fmt, prio, ln, tags) ->
            let s = { cs_fn = fn; cs_file = file; cs_fmt = fmt; cs_prio = prio; cs_line = ln; cs_targets = []; cs_tags = Z0 } in
            let ts = route re_match !cf s in
            pr (Printf.sprintf "spec %s tag %s" (String.concat "," (List.map string_of_z ts)) (string_of_z (tag_of re_match !cf s)))
          | _ -> ());
         let (st', r) = step re_ok re_match v !st o in
         cf := cfg_step re_ok !cf o;
         (match r with
          | ORc rc -> pr ("r " ^ string_of_z rc)
          | ODeliv (id, tags, ts) ->
            pr ("s " ^ string_of_z id);
            let fmt = match o with OLog (_, _, fmt, _, _, _) -> fmt | _ -> [] in
            List.iter (fun t -> pr (Printf.sprintf "d %s %s %s %s" (string_of_z t) (string_of_z id) (string_of_z tags)
                                    (if t = Z0 then "-" else hex fmt))) ts;
            pr "r 0"
          | OAbort -> pr "abort");
         if !missing then pr "oracle-miss";
         st := st'
       | _ -> ()
     done
   with End_of_file -> ());
  print_string (Buffer.contents out)
