(* C05 model runner.  Reads the implementation harness' log (only its "# case" and "op ..." lines matter), interprets
   the lab ops over the extracted Gallina model (coq/IpcAdmitModel.v) and prints the lines the implementation is
   expected to print.  Environment C05_VARIANT = "asfound" | "fixed" selects the variant of the transcription.
   The lab bookkeeping here (slots, listen queue, behaviour FIFO, which client is alive) is glue; every line that
   speaks about the file system, the accept callback, the channel, the connect result or msg_process comes from
   lexec / admission_ops / teardown_ops / connect_result. *)
let variant = if Sys.getenv_opt "C05_VARIANT" = Some "fixed" then Fixed else AsFound
(* C05_INJECT = "filtered": the tree drops request datagrams that the connection's peer did not send *)
let filtered = Sys.getenv_opt "C05_INJECT" = Some "filtered"

let n_of_int i = Z.to_N (z_of_int i)
let int_of_n x = int_of_z (Z.of_N x)
let oct i = Printf.sprintf "%o" i

type slot = {
  mutable started : bool; mutable real : cred; mutable eff : cred; mutable raw : bool;
  mutable kacc : bool;                (* accept(2) done by the server *)
  mutable authed : bool;
  mutable peer : peer option; mutable ord : int;
  mutable alive : bool;               (* client process alive *)
  mutable client_up : bool;           (* client still holds its side open *)
  mutable finned : bool;
  mutable connected : bool;           (* client library connected *)
  mutable established : bool;         (* server side connection exists *)
  mutable pending_sends : int;
  mutable pending_foreign : int;
  mutable ctl_sent : int;
}
let fresh_slot () = { started = false; real = { c_uid = Z0; c_gid = Z0 }; eff = { c_uid = Z0; c_gid = Z0 }; raw = false;
                      kacc = false; authed = false; peer = None; ord = -1; alive = false; client_up = false;
                      finned = false; connected = false; established = false; pending_sends = 0; pending_foreign = 0; ctl_sent = 0 }

let maxs = 8
let slots = Array.init maxs (fun _ -> fresh_slot ())
let tr = ref Shm
let envr = ref { umask = n_of_int 0o22; srv = { c_uid = Z0; c_gid = Z0 } }
let states : (int, lstate) Hashtbl.t = Hashtbl.create 16
let nord = ref 0
let pend : int list ref = ref []
let behs : (z * auth option) list ref = ref []
let out = Buffer.create 65536
let pr fmt = Printf.ksprintf (fun s -> Buffer.add_string out s; Buffer.add_char out '\n') fmt

let reset () =
  Array.iteri (fun i _ -> slots.(i) <- fresh_slot ()) slots;
  Hashtbl.reset states; nord := 0; pend := []; behs := []

let st k = try Hashtbl.find states k with Not_found -> l_empty

let tagname = function
  | TDir -> "" | TReqH -> "/request-header" | TReqD -> "/request-data" | TRspH -> "/response-header"
  | TRspD -> "/response-data" | TEvtH -> "/event-header" | TEvtD -> "/event-data" | TCtl -> "/control"
let pname k t = Printf.sprintf "d%d%s" k (tagname t)

let census () =
  let b = Buffer.create 256 in
  Buffer.add_string b "fs";
  for k = 0 to !nord - 1 do
    let f = (st k).l_fs in
    (match lookup TDir f with
     | None -> ()
     | Some _ ->
       List.iter (fun t ->
           match lookup t f with
           | None -> ()
           | Some e ->
             Buffer.add_string b (Printf.sprintf " %s:%s:%s:%s:%s" (pname k t) (string_of_z e.e_uid) (string_of_z e.e_gid)
                                    (oct (int_of_n e.e_mode)) (if e.e_isdir then "d" else "f"))) all_tags)
  done;
  pr "%s" (Buffer.contents b)

let res_s r = match r with Z0 -> "0" | _ -> "-" ^ string_of_z r

let chan_count () = Hashtbl.fold (fun _ s n -> if s.l_chan then n + 1 else n) states 0

let cbname = function CbCreated -> "created" | CbClosed -> "closed" | CbDestroyed -> "destroyed"

let exec_op k o =
  let s = st k in
  let (s', r) = lexec !envr s o in
  Hashtbl.replace states k s';
  (match o with
   | LMkdtemp -> pr "sys mkdtemp d%d pids=ok = %s" k (res_s r); census ()
   | LOpen (t, m) -> pr "sys open %s creat-excl %s = %s" (pname k t) (oct (int_of_n m)) (if r = Z0 then "fd" else res_s r); census ()
   | LChmod (t, m) -> pr "sys chmod %s %s = %s" (pname k t) (oct (int_of_n m)) (res_s r); census ()
   | LChown (t, u, g) -> pr "sys chown %s %s %s = %s" (pname k t) (string_of_z u) (string_of_z g) (res_s r); census ()
   | LUnlink t -> pr "sys unlink %s = %s" (pname k t) (res_s r); census ()
   | LRmdir -> pr "sys rmdir d%d = %s" k (res_s r); census ()
   | LAccept (u, g) -> pr "cb accept %d %s %s" k (string_of_z u) (string_of_z g)
   | LRespond _ -> ()
   | LChanAdd | LChanDel -> ()
   | LPeerSend | LForeign (_, _) -> if List.length s'.l_log > List.length s.l_log then pr "cb msg %d" k
   | LCb c -> pr "cb %s %d" (cbname c) k)

let deliver sl =
  if !tr = Shm then begin
    for _ = 1 to sl.pending_sends do exec_op sl.ord LPeerSend done;
    for _ = 1 to sl.pending_foreign do exec_op sl.ord (LForeign (!tr, filtered)) done
  end else begin
    (* socket transport, lab bookkeeping: the server handles as many datagrams per look as the shared counter
       ctl->sent says (at least one); the counter is incremented by the peer's library on every send and
       decremented on every datagram the server takes.  A foreign datagram that gets through is taken like any
       other but was never counted, so afterwards the counter is one short; a dropped one is not counted. *)
    let own = ref sl.pending_sends and foreign = ref sl.pending_foreign in
    if filtered then begin
      for _ = 1 to !foreign do exec_op sl.ord (LForeign (!tr, true)) done; foreign := 0
    end;
    let avail = ref sl.ctl_sent in
    let go = ref true in
    while !go do
      (* datagrams are taken in arrival order; the generator queues foreign ones before the peer's own *)
      if !foreign > 0 then begin
        exec_op sl.ord (LForeign (!tr, false)); decr foreign; sl.ctl_sent <- sl.ctl_sent - 1; decr avail
      end else if !own > 0 then begin
        exec_op sl.ord LPeerSend; decr own; sl.ctl_sent <- sl.ctl_sent - 1; decr avail
      end else go := false;
      if !avail <= 0 then go := false
    done;
    sl.pending_sends <- !own; sl.pending_foreign <- !foreign
  end;
  if !tr = Shm then begin sl.pending_sends <- 0; sl.pending_foreign <- 0 end

let look_at sl =
  (* one server look at the slot's connection *)
  if sl.established then begin
    if not sl.client_up then begin
      (* socket transport: the request socket is looked at before the setup socket reports the hang-up, so what
         is queued there is still delivered; shm: the hang-up on the one descriptor comes first *)
      if !tr = Sock then deliver sl;
      List.iter (exec_op sl.ord) (teardown_ops !tr);
      sl.established <- false; sl.pending_sends <- 0; sl.pending_foreign <- 0
    end else deliver sl
  end else begin
    (* no channel: whatever was sent goes nowhere *)
    if sl.ord >= 0 then begin
      for _ = 1 to sl.pending_sends do exec_op sl.ord LPeerSend done;
      for _ = 1 to sl.pending_foreign do exec_op sl.ord (LForeign (!tr, filtered)) done
    end;
    sl.pending_sends <- 0; sl.pending_foreign <- 0
  end

let cred_of a b = { c_uid = z_of_string a; c_gid = z_of_string b }

let () =
  (try
     while true do
       let line = input_line stdin in
       match split_ws line with
       | "#" :: _ -> reset (); pr "%s" line
       | "op" :: rest ->
         pr "%s" line;
         (match rest with
          | ["svc"; t; um] ->
            reset ();
            tr := (if t = "shm" then Shm else Sock);
            envr := { umask = n_of_int (int_of_string ("0o" ^ um)); srv = { c_uid = Z0; c_gid = Z0 } };
            pr "r 0"
          | ["beh"; r] -> behs := !behs @ [(z_of_string r, None)]
          | ["beh"; r; u; g; m] ->
            behs := !behs @ [(z_of_string r, Some { a_uid = z_of_string u; a_gid = z_of_string g;
                                                    a_mode = n_of_int (int_of_string ("0o" ^ m)) })]
          | "start" :: s :: ru :: rg :: eu :: eg :: more ->
            let i = int_of_string s in
            let sl = fresh_slot () in
            sl.started <- true; sl.real <- cred_of ru rg; sl.eff <- cred_of eu eg; sl.raw <- (more = ["raw"]);
            sl.alive <- true; sl.client_up <- true;
            slots.(i) <- sl;
            pend := !pend @ [i];
            pr "started %d 0" i
          | ["acc"] ->
            (match !pend with
             | [] -> pr "r none-pending"
             | i :: r -> pend := r; slots.(i).kacc <- true)
          | ["auth"; s] | ["t"; s] when (let sl = slots.(int_of_string s) in sl.started && sl.kacc && not sl.authed)
                                     || List.hd rest = "auth" ->
            (* the server looks at the slot's descriptors: a pending handshake is answered (whatever the op is called) *)
            let sl = slots.(int_of_string s) in
            if sl.started && sl.kacc && not sl.authed then begin
              sl.authed <- true;
              let (dec, au) = match !behs with [] -> (Z0, None) | b :: r -> behs := r; b in
              let p = { p_real = sl.real; p_eff = sl.eff; p_decision = dec; p_auth = au; p_raw = sl.raw } in
              let k = !nord in
              incr nord;
              sl.peer <- Some p; sl.ord <- k;
              List.iter (exec_op k) (admission_ops variant !tr p);
              sl.established <- (st k).l_chan
            end;
            pr "chan %d" (chan_count ())
          | ["fin"; s] ->
            let i = int_of_string s in
            let sl = slots.(i) in
            if not sl.alive then pr "connect %d dead" i
            else (match sl.peer with
                | None ->
                  (* the server has not answered: the client's read gives up with EAGAIN *)
                  sl.client_up <- sl.raw;
                  pr "connect %d -%s" i (string_of_z aDM_EAGAIN)
                | Some p ->
                  let r = connect_result !tr p (st sl.ord) in
                  sl.finned <- true;
                  sl.connected <- (r = Z0);
                  (* a library client whose connect failed has closed its socket; a raw one keeps it *)
                  if r <> Z0 && not sl.raw then sl.client_up <- false;
                  pr "connect %d %s" i (string_of_z r))
          | ["req"; s] ->
            let i = int_of_string s in
            let sl = slots.(i) in
            if not sl.alive then pr "sent %d dead" i
            else begin
              let ok = if sl.raw then sl.established || not sl.authed
                else sl.connected && sl.established in
              if ok && not sl.raw then begin
                sl.pending_sends <- sl.pending_sends + 1; sl.ctl_sent <- sl.ctl_sent + 1
              end;
              pr "sent %d %s" i (if ok then "ok" else "fail")
            end
          | ["t"; s] -> look_at slots.(int_of_string s); pr "chan %d" (chan_count ())
          | ["tall"] ->
            let l = List.filter (fun sl -> sl.ord >= 0) (Array.to_list slots) in
            List.iter look_at (List.sort (fun a b -> compare a.ord b.ord) l);
            pr "chan %d" (chan_count ())
          | ["inject"; a; b] ->
            (* socket transport: the request address of an established connection is an abstract-namespace datagram
               socket; a datagram from ANY local process arrives there like the peer's own (the server cannot tell) *)
            let i = int_of_string a in
            let sa = slots.(i) and sb = slots.(int_of_string b) in
            if not sa.alive then pr "injected %d dead" i
            else if !tr = Sock && sb.established then begin
              sb.pending_foreign <- sb.pending_foreign + 1; pr "injected %d ok" i
            end else pr "injected %d none" i
          | ["kill"; s] ->
            let sl = slots.(int_of_string s) in
            sl.alive <- false; sl.client_up <- false
          | ["end"] ->
            (* the tear-down of whatever is left is monitored, not modelled: expected final state only *)
            Hashtbl.reset states;
            pr "fs"; pr "end 0 0"
          | _ -> pr "r bad-op")
       | _ -> ()
     done
   with End_of_file -> ());
  print_string (Buffer.contents out)
