(* C09 model runner: reads the same script as harness/h_looptimer.c and prints what the extracted
   Gallina models (HeapModel.v, LoopTimerModel.v) answer, in the harness' output format.
   argv[1] = "orig" selects the model of the code as found (no fixes), default = repaired code. *)
let fx = if Array.length Sys.argv > 1 && Sys.argv.(1) = "orig" then as_found else fixed

let out = Buffer.create 65536
let pr s = Buffer.add_string out s; Buffer.add_char out '\n'
let zs = string_of_z

let parse_ref (s : string) : href =
  if String.length s > 0 && s.[0] = '@' then RIssued (z_of_string (String.sub s 1 (String.length s - 1)))
  else if String.length s > 0 && s.[0] = 'L' then RLit (z_of_string (String.sub s 1 (String.length s - 1)))
  else RLit Z0

let parse_cbop (toks : string list) : cbop option =
  match toks with
  | ["A"; p; d; data; chk] -> Some (CAdd (z_of_string p, z_of_string d, z_of_string data, z_of_string chk))
  | ["D"; r] -> Some (CDel (parse_ref r))
  | ["X"; r] -> Some (CExp (parse_ref r))
  | ["R"; r] -> Some (CRem (parse_ref r))
  | ["U"; r] -> Some (CRun (parse_ref r))
  | ["M"] -> Some CMsec
  | ["J"; p; d] -> Some (CJob (z_of_string p, z_of_string d))
  | ["S"] -> Some CStop
  | ["T"; n] -> Some (CTick (z_of_string n))
  | _ -> None

let print_ev (e : ev) =
  match e with
  | ERet (r, v) -> pr (Printf.sprintf "r %s %s" (zs r) (zs v))
  | ECb (k, d, n) -> pr (Printf.sprintf "cb %s %s %s" (zs k) (zs d) (zs n))
  | EPoll (t, n) -> pr (Printf.sprintf "poll %s %s" (zs t) (zs n))
  | ENote c -> if int_of_z c = 2 then () else pr (Printf.sprintf "note model-error %s" (zs c))
  | EFire _ | EDecide _ -> ()      (* ghost events of the proofs, not observables *)

let flush_events (st : lp) : lp =
  List.iter print_ev (List.rev st.out);
  { st with out = [] }

let dump_heap (hs : hstate) =
  let h = hs.hs_tl in
  let b = Buffer.create 256 in
  Buffer.add_string b (Printf.sprintf "hs %d" (List.length h.ents));
  List.iter (fun t -> Buffer.add_string b (Printf.sprintf " %s:%s:%s" (zs t.t_id) (zs t.t_exp) (zs (h.hpos t.t_id)))) h.ents;
  pr (Buffer.contents b);
  pr (Printf.sprintf "hv %d" (if is_valid_heap h then 1 else 0));
  if hs.hs_err then pr "note model-error heap"

let () =
  let st = ref (lp_init (z_of_int 1000000000) (z_of_int 1) Z0) in
  let hs = ref hs_init in
  let uclk = ref (z_of_int 1) and ustep = ref Z0 in
  let beh : (z * cbop list) list ref = ref [] in
  let inited = ref false in
  (try
     while true do
       let line = String.trim (input_line stdin) in
       if line = "" then ()
       else if line.[0] = '#' then begin
         pr line; inited := false; beh := []; hs := hs_init
       end else
         match split_ws line with
         | ["I"; r; c; s] ->
           st := lp_init (hz_of_res (z_of_string r)) (z_of_string c) (z_of_string s);
           hs := hs_init; uclk := z_of_string c; ustep := z_of_string s; beh := []; inited := true
         | _ when not !inited -> pr "note no-init"
         | "B" :: d :: rest ->
           let groups = List.map split_ws (String.split_on_char ';' (String.concat " " rest)) in
           let ops = List.filter_map (fun g -> if g = [] then None else parse_cbop g) groups in
           beh := (z_of_string d, ops) :: !beh
         | "RUN" :: ds ->
           if ds <> [] then begin
             st := step fx !beh !st (Run (List.map z_of_string ds));
             st := flush_events !st
           end
         | ["HA"; d] ->
           let e = expire_of fx !uclk (z_of_string d) in
           uclk := sat64 (Z.add !uclk !ustep);
           pr ("hop A " ^ zs e);
           hs := hstep !hs (HAdd e); dump_heap !hs
         | ["HD"; k] ->
           let id = Z.add (z_of_string k) (z_of_int 1) in
           pr ("hop D " ^ zs id);
           hs := hstep !hs (HDel id); dump_heap !hs
         | ["HE"; n] ->
           let now = z_of_string n in
           uclk := sat64 (Z.add now !ustep);
           pr ("hop E " ^ zs now);
           let before = List.length !hs.hs_fired in
           hs := hstep !hs (HExpire now);
           List.iteri (fun i t -> if i >= before then pr ("hf " ^ zs t.t_id)) !hs.hs_fired;
           dump_heap !hs
         | toks ->
           (match parse_cbop toks with
            | Some c -> st := step fx !beh !st (Cb c); st := flush_events !st
            | None -> pr ("note bad-op " ^ line))
     done
   with End_of_file -> ());
  print_string (Buffer.contents out)
