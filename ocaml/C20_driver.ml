(* C20 model runner: reads the concrete call log ("op <letter> <arg>") produced by the
   implementation harness and prints what the extracted Gallina model answers. *)
let () =
  let d = ref hdb_init in
  let out = Buffer.create 65536 in
  (try
     while true do
       let line = input_line stdin in
       match split_ws line with
       | "#" :: _ -> d := hdb_init; Buffer.add_string out line; Buffer.add_char out '\n'
       | ["op"; "B"; a] ->
         Buffer.add_string out line; Buffer.add_char out '\n';
         Buffer.add_string out (Printf.sprintf "r 0 %s\n" (string_of_z (base_convert (z_of_string a))))
       | ["op"; "V"; a] ->
         Buffer.add_string out line; Buffer.add_char out '\n';
         Buffer.add_string out (Printf.sprintf "r 0 %s\n" (string_of_z (nocheck_convert (z_of_string a))))
       | ["op"; l; a] ->
         let o = match l with
           | "C" -> Create (z_of_string a) | "G" | "A" -> Get (z_of_string a) | "P" -> Put (z_of_string a)
           | "D" -> Destroy (z_of_string a) | "R" -> Refcount (z_of_string a)
           | "F" -> CreateFail | "X" -> IterReset | "N" -> IterNext | _ -> failwith ("bad op " ^ l) in
         let before = List.length (dlog !d) in
         let (d', r) = step !d o in
         Buffer.add_string out line; Buffer.add_char out '\n';
         (* destructor calls made by this step, oldest first *)
         let nnew = List.length (dlog d') - before in
         let rec take n l = if n <= 0 then [] else match l with [] -> [] | x :: t -> x :: take (n - 1) t in
         List.iter (fun x -> Buffer.add_string out ("d " ^ string_of_z x ^ "\n")) (List.rev (take nnew (dlog d')));
         (match r with
          | ORes (res, v) -> Buffer.add_string out (Printf.sprintf "r %s %s\n" (string_of_z res) (string_of_z v))
          | OIter (res, i, h) ->
            Buffer.add_string out (Printf.sprintf "i %s %s %s\n" (string_of_z res) (string_of_z i) (string_of_z h)));
         d := d'
       | _ -> ()   (* result lines of the implementation log are ignored *)
     done
   with End_of_file -> ());
  print_string (Buffer.contents out)
