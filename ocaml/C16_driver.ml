(* C16 model runner.
   Sequential part: reads the concrete call log ("op <letter> <args>") of harness/h_logthr.c and prints what the
   extracted model (fixed code) answers, in the harness' output format. *)
let zs = string_of_z
let nat_s n = string_of_int (int_of_nat n)
let () =
  let fixed = ref true in
  let ks = ref kinit in
  let out = Buffer.create 65536 in
  let pr s = Buffer.add_string out s; Buffer.add_char out '\n' in
  let pr_cev e = match e with
    | EvRc rc -> pr ("r " ^ zs rc)
    | EvWrite (t, m, th) -> pr (Printf.sprintf "w %s %s %s" (nat_s t) (zs m) (if th then "T" else "S"))
    | EvClose t -> pr ("close " ^ nat_s t) in
  let kop o line =
    let (s1, evs) = kstep !fixed !ks o in
    pr line;
    List.iter pr_cev evs;
    (match k_err s1 with
     | Some ENullLock -> pr "error null-lock"
     | Some EFreedLock -> pr "error freed-lock"
     | None -> ());
    ks := s1 in
  let nat_of s = nat_of_int (int_of_string s) in
  (try
     while true do
       let line = input_line stdin in
       match split_ws line with
       | "#" :: _ -> ks := kinit; pr line
       | ["model"; "unfixed"] -> fixed := false
       | ["model"; "fixed"] -> fixed := true
       | ["op"; "I"] -> kop KInit line
       | ["op"; "F"] -> kop KFini line
       | ["op"; "O"] -> kop KOpen line
       | ["op"; "S"] -> kop KStart line
       | ["op"; "X"; k] -> kop (KClose (nat_of k)) line
       | ["op"; "C"; k] -> kop (KCtl (nat_of k)) line
       | ["op"; "E"; k; b] -> kop (KEnable (nat_of k, b <> "0")) line
       | ["op"; "T"; k; b] -> kop (KThreaded (nat_of k, b <> "0")) line
       | ["op"; "L"; m] -> kop (KLog (z_of_string m)) line
       | _ -> ()
     done
   with End_of_file -> ());
  print_string (Buffer.contents out)
