(* C16 model runner.
   Sequential part: reads the concrete call log ("op <letter> <args>") of harness/h_logthr.c and prints what the
   extracted model (fixed code) answers, in the harness' output format.
   Concurrent part: "conc <script line>" lines give the programs; after "begin" every "s <tid> ..." line of the
   implementation trace is one schedule entry, executed on the interleaving model (cstep); printed: the model's
   label for the step and what the thread prints during it. *)
let zs = string_of_z
let nat_s n = string_of_int (int_of_nat n)
let () =
  let fixed = ref true in
  let ks = ref kinit in
  let obuf = Buffer.create 65536 in
  let pr s = Buffer.add_string obuf s; Buffer.add_char obuf '\n' in
  let pr_cev e = match e with
    | EvRc rc -> pr ("r " ^ zs rc)
    | EvWrite (t, m, th) -> pr (Printf.sprintf "w %s %s %s" (nat_s t) (zs m) (if th then "T" else "S"))
    | EvClose t -> pr ("close " ^ nat_s t) in
  let kop o line =
    let (s1, evs) = kstep !fixed !ks o in
    pr line;
    List.iter pr_cev evs;
    (match k_err s1 with
     | Some ENullLock -> pr "error null-lock"
     | Some EFreedLock -> pr "error freed-lock"
     | None -> ());
    ks := s1 in
  let nat_of s = nat_of_int (int_of_string s) in
  (* ---- concurrent part ---- *)
  let mprog : mop list ref = ref [] in
  let progs : z list array = Array.make 8 [] in
  let cs : cstate option ref = ref None in
  let last_ctl = ref false in
  let label_str (l : clabel) : string = match l with
    | LbLog -> "log" | LbCtl -> "ctl" | LbLock -> "lock L0" | LbUnlock -> "unlock L0" | LbPost -> "post S1"
    | LbWait -> "wait S1" | LbGetval v -> "getvalue S1 = " ^ zs v | LbWrite -> "write" | LbExit -> "exit"
    | LbJoinProd k -> "join T" ^ string_of_int (int_of_nat k + 2) | LbJoinWorker -> "join T1" in
  let rec last_of l = match l with [] -> None | [x] -> Some x | _ :: r -> last_of r in
  let conc_step tid =
    match !cs with
    | None -> ()
    | Some s0 ->
      (match cstep !fixed s0 (nat_of_int tid) with
       | None -> pr (Printf.sprintf "s %d <not enabled in the model>" tid)
       | Some (s1, l) ->
         pr (Printf.sprintf "s %d %s" tid (label_str l));
         let g0 = c_gh s0 and g1 = c_gh s1 in
         if List.length (reported g1) > List.length (reported g0) then
           (match last_of (reported g1) with Some n -> pr (zs n ^ " messages lost") | None -> ());
         if List.length (out g1) > List.length (out g0) then
           (match last_of (out g1) with
            | Some (m, true) -> pr (Printf.sprintf "w %s %s" (nat_s (m_tid m)) (nat_s (m_seq m)))
            | _ -> ());
         if int_of_nat (closes g1) > int_of_nat (closes g0) then pr "close";
         (match err g0, err g1 with
          | None, Some EPopEmpty -> pr "error pop-from-empty-list"
          | None, Some ECloseDuringWrite -> pr "note close-callback-during-logger-callback"
          | _ -> ());
         (* return of qb_log_ctl *)
         (if tid = 0 then
            match c_m s0, c_mprog s0, l with
            | MIdle, MCtl _ :: _, LbCtl ->
              if closed (c_sh s0) then pr ("rc " ^ zs (Z.opp lOGT_EBADF)) else last_ctl := true
            | MIdle, _, LbCtl -> last_ctl := false
            | MUnlock, _, _ -> if !last_ctl then pr "rc 0"; last_ctl := false
            | _ -> ());
         if stopped g1 && not (stopped g0) then pr "stopped";
         cs := Some s1) in
  (try
     while true do
       let line = input_line stdin in
       match split_ws line with
       | "#" :: _ -> ks := kinit; mprog := []; Array.fill progs 0 8 []; cs := None; last_ctl := false; pr line
       | ["conc"; "m"; "c"; b] -> mprog := !mprog @ [MCtl (b <> "0")]
       | ["conc"; "m"; "x"] -> mprog := !mprog @ [MClose]
       | ["conc"; "m"; "stop"] -> mprog := !mprog @ [MStop]
       | ["conc"; "p"; i; len] -> let i = int_of_string i in progs.(i) <- progs.(i) @ [z_of_string len]
       | ["begin"] ->
         let n = ref 0 in
         Array.iteri (fun i p -> if p <> [] then n := i + 1) progs;
         cs := Some (cinit !mprog (Array.to_list (Array.sub progs 0 !n)));
         pr line
       | "s" :: tid :: _ when !cs <> None -> conc_step (int_of_string tid)
       | ["end"; rc] ->
         pr line;
         (match !cs with
          | Some s when rc = "0" ->
            pr (Printf.sprintf "final %s %s %d" (zs (mem (c_sh s))) (zs (drop (c_sh s))) (List.length (q (c_sh s))))
          | _ -> ())
       | ["model"; "unfixed"] -> fixed := false
       | ["model"; "fixed"] -> fixed := true
       | ["op"; "I"] -> kop KInit line
       | ["op"; "F"] -> kop KFini line
       | ["op"; "O"] -> kop KOpen line
       | ["op"; "S"] -> kop KStart line
       | ["op"; "X"; k] -> kop (KClose (nat_of k)) line
       | ["op"; "C"; k] -> kop (KCtl (nat_of k)) line
       | ["op"; "E"; k; b] -> kop (KEnable (nat_of k, b <> "0")) line
       | ["op"; "T"; k; b] -> kop (KThreaded (nat_of k, b <> "0")) line
       | ["op"; "L"; m] -> kop (KLog (z_of_string m)) line
       | _ -> ()
     done
   with End_of_file -> ());
  print_string (Buffer.contents obuf)
