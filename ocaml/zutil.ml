(* Glue between text and the extracted inductive number types (positive / z / n / nat).
   Textually included after `open Model_<pid>` in every model driver (see vlib/common.py).
   No arithmetic of the extracted code is used here: conversions go through bit lists. *)

let rec pos_bits (p : positive) : bool list =   (* LSB first *)
  match p with XH -> [true] | XO q -> false :: pos_bits q | XI q -> true :: pos_bits q

let pos_of_bits_msb (bits : bool list) : positive option =
  List.fold_left (fun acc b ->
      match acc with
      | None -> if b then Some XH else None
      | Some p -> Some (if b then XI p else XO p)) None bits

let int_of_pos (p : positive) : int =
  List.fold_right (fun b acc -> (acc lsl 1) lor (if b then 1 else 0)) (pos_bits p) 0

let pos_fits_int (p : positive) : bool = List.length (pos_bits p) <= 61

let pos_of_int (i : int) : positive option =
  let rec bits i acc = if i = 0 then acc else bits (i lsr 1) ((i land 1 = 1) :: acc) in
  pos_of_bits_msb (bits i [])

let hex_of_pos (p : positive) : string =
  let bits = Array.of_list (pos_bits p) in
  let n = Array.length bits in
  let nd = (n + 3) / 4 in
  let b = Buffer.create (nd + 2) in
  Buffer.add_string b "0x";
  for d = nd - 1 downto 0 do
    let v = ref 0 in
    for k = 3 downto 0 do
      let i = d * 4 + k in
      v := (!v lsl 1) lor (if i < n && bits.(i) then 1 else 0)
    done;
    Buffer.add_char b "0123456789abcdef".[!v]
  done;
  Buffer.contents b

let pos_of_hex (s : string) : positive option =   (* s without 0x *)
  let bits = ref [] in
  String.iter (fun c ->
      let v = match c with
        | '0'..'9' -> Char.code c - 48
        | 'a'..'f' -> Char.code c - 87
        | 'A'..'F' -> Char.code c - 55
        | _ -> failwith ("bad hex digit in " ^ s) in
      for k = 3 downto 0 do bits := ((v lsr k) land 1 = 1) :: !bits done) s;
  pos_of_bits_msb (List.rev !bits)

let z_of_string (s0 : string) : z =
  let neg, s = if String.length s0 > 0 && s0.[0] = '-' then true, String.sub s0 1 (String.length s0 - 1) else false, s0 in
  let p =
    if String.length s > 2 && s.[0] = '0' && (s.[1] = 'x' || s.[1] = 'X')
    then pos_of_hex (String.sub s 2 (String.length s - 2))
    else pos_of_int (int_of_string s) in
  match p with None -> Z0 | Some p -> if neg then Zneg p else Zpos p

let string_of_pos p = if pos_fits_int p then string_of_int (int_of_pos p) else hex_of_pos p

let string_of_z (x : z) : string =
  match x with Z0 -> "0" | Zpos p -> string_of_pos p | Zneg p -> "-" ^ string_of_pos p

let z_of_int (i : int) : z =
  if i = 0 then Z0 else if i > 0 then (match pos_of_int i with Some p -> Zpos p | None -> Z0)
  else (match pos_of_int (- i) with Some p -> Zneg p | None -> Z0)

let int_of_z (x : z) : int = match x with Z0 -> 0 | Zpos p -> int_of_pos p | Zneg p -> - (int_of_pos p)

let rec nat_of_int (i : int) : nat = if i <= 0 then O else S (nat_of_int (i - 1))
let rec int_of_nat (n : nat) : int = match n with O -> 0 | S m -> 1 + int_of_nat m

let split_ws (s : string) : string list =
  List.filter (fun x -> x <> "") (String.split_on_char ' ' (String.trim s))
