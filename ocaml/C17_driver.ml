(* C17 / C18 model runner.  Reads the implementation harness' log (harness/h_map.c): "op <script line>" lines,
   each followed by the oracle answers "o <v>" the implementation drew, and prints what the extracted Gallina
   model answers in the harness' own output format ("n ..." notifier calls, "e ..." traversal callback calls,
   "r ..." result).  argv[1] = "orig" selects the model of the unrepaired code (diagnosis only). *)
let mode = match Sys.getenv_opt "MAP_MODEL" with Some m -> m | None -> if Array.length Sys.argv > 1 then Sys.argv.(1) else "fixed"
let fixed = mode <> "orig"
let use_ref = mode = "ref"     (* layer A (MapRefModel) instead of the pointer-level models *)

let n_of_int (i : int) : n = match pos_of_int i with Some p -> Npos p | None -> N0
let int_of_n (x : n) : int = match x with N0 -> 0 | Npos p -> int_of_pos p
let string_of_n (x : n) : string = match x with N0 -> "0" | Npos p -> string_of_pos p

let key_of_string (s : string) : n list option =
  if s = "-" then None
  else begin
    let h = String.sub s 1 (String.length s - 1) in
    let l = ref [] in
    for i = (String.length h / 2) - 1 downto 0 do
      l := n_of_int (int_of_string ("0x" ^ String.sub h (2 * i) 2)) :: !l
    done;
    Some !l
  end
let key_exn s = match key_of_string s with Some k -> k | None -> []
let string_of_key (k : n list) : string =
  if (match k with [b] -> int_of_n b = 256 | _ -> false) then "-" else
  "k" ^ String.concat "" (List.map (fun b -> Printf.sprintf "%02x" (int_of_n b)) k)

type st = NoMap | Hash of n * hstate | Skip of kstate | RefH of n * rstate | RefS of rstate | Failed

let out = Buffer.create 65536
let pr s = Buffer.add_string out s; Buffer.add_char out '\n'

let print_notifs ns =
  List.iter (fun x ->
      pr (Printf.sprintf "n %s %s %s %s %s %s" (string_of_n x.n_fn) (string_of_n x.n_ud) (string_of_n x.n_event)
            (string_of_key x.n_key) (string_of_n x.n_old) (string_of_n x.n_new))) ns

let print_out (o : out) =
  match o with
  | ONone -> pr "r"
  | OVal v -> pr ("r " ^ string_of_n v)
  | OBool b -> pr (if b then "r 1" else "r 0")
  | OCount c -> pr ("r " ^ string_of_n c)
  | OEntries l -> pr "r"
  | ORc z -> pr ("r " ^ string_of_z z)
  | ONext None -> pr "r end"
  | ONext (Some (k, v)) -> pr (Printf.sprintf "r %s %s" (string_of_key k) (string_of_n v))
  | OIgnored -> pr "r ignored"

let string_of_error e =
  match e with
  | UseAfterFree i -> Printf.sprintf "UseAfterFree node %d" (int_of_nat i)
  | OutOfBounds i -> Printf.sprintf "OutOfBounds node %d" (int_of_nat i)
  | OutOfFuel -> "OutOfFuel"
  | RefUnderflow i -> Printf.sprintf "RefUnderflow node %d" (int_of_nat i)
  | UseAfterFreeArr i -> Printf.sprintf "UseAfterFree forward-array %d" (int_of_nat i)
  | NullDeref -> "NullDeref"

let parse_op (w : string list) : op option =
  match w with
  | ["P"; k; v] -> Some (Put (key_exn k, n_of_int (int_of_string v)))
  | ["G"; k] -> Some (Get (key_exn k))
  | ["R"; k] -> Some (Rm (key_exn k))
  | ["C"] -> Some Count
  | ["F"; s] -> Some (Foreach (nat_of_int (int_of_string s)))
  | ["I"; i] -> Some (IterCreate (nat_of_int (int_of_string i), None))
  | ["N"; i] -> Some (IterNext (nat_of_int (int_of_string i)))
  | ["X"; i] -> Some (IterFree (nat_of_int (int_of_string i)))
  | ["A"; k; f; e; u] -> Some (NotifyAdd (key_of_string k, n_of_int ((int_of_string f) land 3), n_of_int (int_of_string e), n_of_int (int_of_string u)))
  | ["D"; k; f; e] -> Some (NotifyDel (key_of_string k, n_of_int ((int_of_string f) land 3), n_of_int (int_of_string e), None))
  | ["E"; k; f; e; u] -> Some (NotifyDel (key_of_string k, n_of_int ((int_of_string f) land 3), n_of_int (int_of_string e), Some (n_of_int (int_of_string u))))
  | ["Z"] -> Some Destroy
  | _ -> None

let () =
  let state = ref NoMap in
  let lines = ref [] in
  (try while true do lines := input_line stdin :: !lines done with End_of_file -> ());
  let lines = Array.of_list (List.rev !lines) in
  let nl = Array.length lines in
  let i = ref 0 in
  while !i < nl do
    let line = lines.(!i) in
    incr i;
    if String.length line > 0 && line.[0] = '#' then begin
      state := NoMap; pr line
    end else if String.length line > 3 && String.sub line 0 3 = "op " then begin
      (* oracle answers drawn by the implementation during this op *)
      let oracle = ref [] in
      let j = ref !i in
      while !j < nl && not (String.length lines.(!j) > 0 && (lines.(!j).[0] = '#' || (String.length lines.(!j) > 2 && String.sub lines.(!j) 0 3 = "op "))) do
        (match split_ws lines.(!j) with ["o"; v] -> oracle := z_of_string v :: !oracle | _ -> ());
        incr j
      done;
      let oracle = List.rev !oracle in
      let w = split_ws (String.sub line 3 (String.length line - 3)) in
      (match !state with
       | Failed -> ()
       | _ ->
         pr line;
         (match w, !state with
          | ["M"; "h"; sz], _ -> let m = n_of_int (int_of_string sz) in
            state := (if use_ref then RefH (m, r_init) else Hash (m, h_create m)); pr "r ok"
          | ["M"; "s"], _ -> state := (if use_ref then RefS r_init else Skip k_create); pr "r ok"
          | ["L"; _], _ -> pr "r ok"
          | _, NoMap -> pr "r ignored"
          | _, Hash (m, s) ->
            (match parse_op w with
             | None -> pr "r ignored"
             | Some o ->
               (match hash_exec_step fixed m s o with
                | Err e -> pr ("r ERROR " ^ string_of_error e); state := Failed
                | Ok ((s', r), ns) ->
                  (match r with OEntries l -> List.iter (fun (k, v) -> pr (Printf.sprintf "e %s %s" (string_of_key k) (string_of_n v))) l | _ -> ());
                  print_notifs ns;
                  (match o, r with IterCreate _, ONone -> pr "r ok" | _ -> print_out r);
                  (* a destroyed map is gone: the harness forgets it *)
                  state := (match o with Destroy -> NoMap | _ -> Hash (m, s'))))
          | _, Skip s ->
            (match parse_op w with
             | None -> pr "r ignored"
             | Some o ->
               (match skip_exec_step fixed s o oracle with
                | Err e -> pr ("r ERROR " ^ string_of_error e); state := Failed
                | Ok ((s', r), ns) ->
                  (match r with OEntries l -> List.iter (fun (k, v) -> pr (Printf.sprintf "e %s %s" (string_of_key k) (string_of_n v))) l | _ -> ());
                  print_notifs ns;
                  (match o, r with IterCreate _, ONone -> pr "r ok" | _ -> print_out r);
                  state := (match o with Destroy -> NoMap | _ -> Skip s')))
          | _, RefH (_, _) | _, RefS _ ->
            (match parse_op w with
             | None -> pr "r ignored"
             | Some o ->
               let ((s', r), ns) = (match !state with RefH (m, s) -> ref_hash_step m s o | RefS s -> ref_skip_step s o | _ -> assert false) in
               (match r with OEntries l -> List.iter (fun (k, v) -> pr (Printf.sprintf "e %s %s" (string_of_key k) (string_of_n v))) l | _ -> ());
               print_notifs ns;
               (match o, r with IterCreate _, ONone -> pr "r ok" | _ -> print_out r);
               state := (match o, !state with Destroy, _ -> NoMap | _, RefH (m, _) -> RefH (m, s') | _, _ -> RefS s'))
          | _, Failed -> ()))
    end
  done;
  print_string (Buffer.contents out)
