(* C17/C18 trie model runner: reads the same operation script as harness/h_trie.c and prints what the extracted
   Gallina model (coq/MapTrieModel.v) answers, in the harness' output format.  argv[1] = three characters 0/1
   selecting the code variant: trie_rm node test (C17-trie-rm-alive), removed flag (C18-trie-removed-parked),
   split keeps the node (C18-trie-split-keeps-node); default "111". *)
let hex_to_key (s : string) : nat list =
  let n = String.length s / 2 in
  List.init n (fun i -> nat_of_int (int_of_string ("0x" ^ String.sub s (2 * i) 2)))
let key_to_hex (k : nat list) : string =
  String.concat "" (List.map (fun b -> Printf.sprintf "%02x" (int_of_nat b)) k)
let okey s = if s = "-" then None else Some (hex_to_key s)
let okey_str = function None -> "-" | Some k -> key_to_hex k
let oval_str = function None -> "0" | Some v -> string_of_int (int_of_nat v)
let ni s = nat_of_int (int_of_string s)

let () =
  let v = if Array.length Sys.argv > 1 && String.length Sys.argv.(1) = 3 then Sys.argv.(1) else "111" in
  let fixed = { f_rm = (v.[0] = '1'); f_removed = (v.[1] = '1'); f_split = (v.[2] = '1') } in
  let st = ref trie_init in
  let dead = ref false in
  let out = Buffer.create 65536 in
  let pr s = Buffer.add_string out s; Buffer.add_char out '\n' in
  let ev_line = function
    | ECb (e, k, o, n, fn, ud) ->
      pr (Printf.sprintf "cb %s %s %s %s %d %d" (string_of_z e) (okey_str k) (oval_str o) (oval_str n) (int_of_nat fn) (int_of_nat ud))
    | EVisit (k, v) -> pr (Printf.sprintf "v %s %s" (okey_str k) (oval_str v)) in
  (try
     while true do
       let line = input_line stdin in
       match split_ws line with
       | "#" :: _ -> st := trie_init; dead := false; pr line
       | [] -> ()
       | toks when !dead -> ignore toks
       | toks ->
         let o = match toks with
           | ["P"; k; v] -> OPut (hex_to_key k, ni v)
           | ["G"; k] -> OGet (hex_to_key k)
           | ["R"; k] -> ORm (hex_to_key k)
           | ["C"] -> OCount
           | ["F"; s] -> OForeach (ni s)
           | ["I"; h; p] -> OIterCreate (ni h, okey p)
           | ["N"; h] -> OIterNext (ni h)
           | ["X"; h] -> OIterFree (ni h)
           | ["A"; k; fn; e; ud] -> ONotifyAdd (okey k, ni fn, z_of_string e, ni ud)
           | ["D"; k; fn; e] -> ONotifyDel (okey k, ni fn, z_of_string e)
           | ["E"; k; fn; e; ud] -> ONotifyDel2 (okey k, ni fn, z_of_string e, ni ud)
           | ["Z"] -> ODestroy
           | _ -> failwith ("bad script line: " ^ line) in
         pr ("op " ^ line);
         if not (guard_split !st o) then pr "g split";
         if not (guard_split_root !st o) then pr "g splitroot";
         (match step fixed !st o with
          | Err e ->
            dead := true;
            pr (match e with
                | UseAfterFree id -> Printf.sprintf "err UseAfterFree %d" (int_of_nat id)
                | OutOfFuel -> "err OutOfFuel" | BadHandle -> "err BadHandle" | Stray -> "err Stray")
          | Ok ((st', r), evs) ->
            List.iter ev_line evs;
            st := st';
            (match r with
             | RUnit -> pr "r"
             | RVal v -> pr ("r " ^ oval_str v)
             | RInt z -> pr ("r " ^ string_of_z z)
             | RKV None -> pr "r end"
             | RKV (Some (k, v)) -> pr (Printf.sprintf "r %s %s" (okey_str k) (oval_str v))))
     done
   with End_of_file -> ());
  print_string (Buffer.contents out)
