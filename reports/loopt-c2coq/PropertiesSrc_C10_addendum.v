(* append to coq/PropertiesSrc_C10.v after c2coq2.diff is applied to tools/c2coq.py, harness/c2coq/loop.json has
   "object_locals": ["job"] and "oracle_havoc": {"job_source_dispatch_and_take_back": ["level_todo", "level_l_stop_requested"]},
   and LoopSrcEq_addendum.v is appended to coq/LoopSrcEq.v *)
(* qb_loop_run_level = LoopModel.run_level: when qb_list_empty and the values of level->todo / l->stop_requested after
   each dispatch are those of the model's execution (agree), the translated C function makes the same number of
   dispatches - the to_process quota, the empty list and a requested stop end the loop in the same iteration - and
   leaves the same todo counter and stop flag *)
Theorem C10_src_run_level : forall beh p oe od hvS hvT st lvl ce cd sv prio_,
  agree beh p oe hvS hvT (Datatypes.S (Z.to_nat LOOP_TO_PROCESS)) 0 st ce cd -> (sv =? 0) = negb (stop st) ->
  exists cd' ce' sv' tv',
    qb_loop_run_level (Datatypes.S (Z.to_nat LOOP_TO_PROCESS)) lvl cd ce hvS hvT sv prio_ LOOP_TO_PROCESS (todo (lv st p)) od oe
      = Some (cd', ce', sv', tv') /\
    let '(st', n) := run_level beh p st in
    tv' = todo (lv st' p) /\ (sv' =? 0) = negb (stop st') /\ cd' - cd = n.
Proof. exact src_run_level. Qed.
Print Assumptions C10_src_run_level.
