Lemma s32_to_i32 : forall x, s32 x = to_i32 x.
Proof.
  intros x. unfold s32, swrap, to_i32, two32, two31. change (2 ^ 32) with 4294967296. change (2 ^ (32 - 1)) with 2147483648.
  destruct (x mod 4294967296 <? 2147483648) eqn:E; [apply Z.ltb_lt in E|apply Z.ltb_ge in E]; lia.
Qed.

(* the int32_t narrowing of the repaired qb_loop_timer_msec_duration_to_expire, on any uint64_t value *)
Lemma src_narrow : forall left, 0 <= left < 2 ^ 64 ->
  s32 (let l := u64 left in if negb (l =? u64 (s32 (- 1))) && (l >? u64 2147483647) then u64 (u64 2147483647) else l)
  = narrow_timeout fixed left.
Proof.
  intros left H. change (2 ^ 64) with 18446744073709551616 in H.
  rewrite (u64_small left) by (change (2 ^ 64) with 18446744073709551616; lia).
  assert (A : u64 (s32 (- 1)) = LT_UINT64_MAX) by (vm_compute; reflexivity).
  assert (B : u64 2147483647 = LT_INT32_MAX) by (vm_compute; reflexivity).
  rewrite A, B. unfold narrow_timeout. cbn [f_clamp fixed].
  destruct (negb (left =? LT_UINT64_MAX) && (left >? LT_INT32_MAX)).
  - rewrite (u64_small LT_INT32_MAX) by (vm_compute; split; congruence). vm_compute. reflexivity.
  - apply s32_to_i32.
Qed.

Theorem src_loop_msec_to_expire : forall st ts c1 c2 c3 c4 olock onow oepoch oget r tp,
  olock c1 = 0 -> onow c2 = clk st -> at_ (ents (heap st)) 0 r ->
  0 <= clk st < 2 ^ 64 -> 0 <= t_exp r < 2 ^ 64 -> 0 < hz st < 2 ^ 63 ->
  fst (fst (fst (fst (qb_loop_timer_msec_duration_to_expire ts c1 c2 c3 c4 (hz st) olock onow oepoch oget (t_exp r) 0 tp (size (heap st))))))
  = fst (msec_to_expire fixed st).
Proof.
  intros st ts c1 c2 c3 c4 olock onow oepoch oget r tp Hl Hn Hr Hc He Hz.
  pose proof (src_msec_to_expire st tp c1 c2 c3 c4 olock onow oepoch oget r Hl Hn Hr Hc He Hz) as X.
  unfold qb_loop_timer_msec_duration_to_expire.
  destruct (timerlist_msec_duration_to_expire tp c1 c2 c3 c4 (hz st) olock onow oepoch oget (t_exp r) 0 (size (heap st))) as [[[[r1 a] b] c] d].
  cbn [fst] in *. unfold msec_to_expire. destruct (tl_msec_to_expire st) as [left st'] eqn:T. cbn [fst] in *. subst r1.
  apply src_narrow.
  destruct (LoopTimerArith.tl_msec_value st r Hr) as [_ [R _]]; [unfold LoopTimerArith.u64, LT_UINT64_MAX; change (2 ^ 64) with 18446744073709551616 in *; lia|unfold LoopTimerArith.u64, LT_UINT64_MAX; change (2 ^ 64) with 18446744073709551616 in *; lia|lia|].
  rewrite T in R. cbn [fst] in R. unfold LT_UINT64_MAX in R. change (2 ^ 64) with 18446744073709551616. lia.
Qed.
