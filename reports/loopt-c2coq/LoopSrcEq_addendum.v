Section RunLevel.
Variable beh : behaviour.
Variable p : prio.
(* answers of the environment of the translated function: qb_list_empty(&level->job_head), and the values of
   level->todo / level->l->stop_requested after the k-th dispatch_and_take_back call *)
Variables oe od hvS hvT : Z -> Z.

Definition popped (st : state) (rest : list qitem) : state :=
  upd_level p (fun l => {| wait := wait l; jobq := rest; todo := todo l |}) st.

(* the environment answers as the model's execution does *)
Fixpoint agree (fuel : nat) (processed : Z) (st : state) (ce cd : Z) : Prop :=
  match fuel with
  | O => True
  | Datatypes.S f =>
    match jobq (lv st p) with
    | [] => s32 (oe ce) <> 0
    | it :: rest =>
      s32 (oe ce) = 0 /\
      let st2 := dispatch beh it (popped st rest) in
      hvT cd = todo (lv st2 p) /\ (hvS cd =? 0) = negb (stop st2) /\
      - 2 ^ 31 <= todo (lv st2 p) - 1 < 2 ^ 31 /\
      (if stop st2 then True
       else if processed + 1 <? LOOP_TO_PROCESS then agree f (processed + 1) (dec_todo p st2) (ce + 1) (cd + 1) else True)
    end
  end.

Lemma stop_dec_todo : forall s, stop (dec_todo p s) = stop s.
Proof. reflexivity. Qed.
Lemma todo_dec_todo : forall s, todo (lv (dec_todo p s) p) = todo (lv s p) - 1.
Proof. intros s. unfold dec_todo, upd_level, set_lv, set_lv_f. cbn [lv]. destruct p; reflexivity. Qed.

(* result of the translated loop, in both of its exit forms, as (dispatch count, empty-test count, stop flag, todo, processed) *)
Definition view (r : (Z * Z * Z * Z * Z * Z) + (Z * Z * Z * Z)) : Z * Z * Z * Z :=
  match r with
  | inl (cd', ce', _, sv', tv', _) => (cd', ce', sv', tv')
  | inr (cd', ce', sv', tv') => (cd', ce', sv', tv')
  end.

Lemma loop_eq : forall f processed st ce cd job sv tv,
  agree (Datatypes.S f) processed st ce cd -> (sv =? 0) = negb (stop st) -> tv = todo (lv st p) ->
  0 <= processed <= 2 ^ 30 -> LOOP_TO_PROCESS - processed <= Z.of_nat (Datatypes.S f) ->
  exists r, qb_loop_run_level_loop1 (Datatypes.S f) hvS hvT LOOP_TO_PROCESS od oe cd ce job sv tv processed = Some r /\
    let '(st', n) := run_level_go beh p (Datatypes.S f) processed st in
    let '(cd', _, sv', tv') := view r in
    tv' = todo (lv st' p) /\ (sv' =? 0) = negb (stop st') /\ cd' - cd = n - processed.
Proof.
  induction f; intros processed st ce cd job sv tv A Hs Ht Hp Hf.
  - (* fuel 1 *)
    cbn [qb_loop_run_level_loop1 run_level_go agree] in *. change (negb (1 =? 0)) with true. cbv iota.
    destruct (jobq (lv st p)) as [|it rest] eqn:Q; rewrite ?Q in A.
    + replace (s32 (oe ce) =? 0) with false by (symmetry; apply Z.eqb_neq; assumption). cbn [negb].
      eexists. split; [reflexivity|]. cbn [view]. repeat split; auto; lia.
    + destruct A as [A1 [A2 [A3 [A4 A5]]]]. rewrite A1. change (0 =? 0) with true. cbn [negb].
      fold (popped st rest). set (st2 := dispatch beh it (popped st rest)) in *.
      rewrite A2. rewrite (s32_small (todo (lv st2 p) - 1)) by exact A4.
      rewrite (s32_small (processed + 1)) by (change (2 ^ 31) with 2147483648; change (2 ^ 30) with 1073741824 in Hp; lia).
      rewrite stop_dec_todo. rewrite <- (negb_involutive (stop st2)), <- A3.
      destruct (hvS cd =? 0) eqn:E; cbn [negb];
        (assert (S2 : stop st2 = negb (hvS cd =? 0)) by (rewrite E; destruct (stop st2) eqn:X; rewrite ?X in A3; simpl in A3; simpl; congruence)); rewrite E in S2; cbn [negb] in S2.
      * (* not stopped: quota reached, since the fuel is 1 *)
        replace (processed + 1 <? LOOP_TO_PROCESS) with false by (symmetry; apply Z.ltb_ge; change (Z.of_nat 1) with 1 in Hf; lia).
        eexists. split; [reflexivity|]. cbn [view]. rewrite todo_dec_todo, stop_dec_todo.
        repeat split; auto; [rewrite S2; exact E|lia].
      * eexists. split; [reflexivity|]. cbn [view]. rewrite todo_dec_todo, stop_dec_todo.
        repeat split; auto; [rewrite S2; exact E|lia].
  - (* fuel >= 2 *)
    remember (Datatypes.S f) as f1.
    cbn [qb_loop_run_level_loop1 run_level_go agree] in *. change (negb (1 =? 0)) with true. cbv iota.
    destruct (jobq (lv st p)) as [|it rest] eqn:Q; rewrite ?Q in A.
    + replace (s32 (oe ce) =? 0) with false by (symmetry; apply Z.eqb_neq; assumption). cbn [negb].
      eexists. split; [reflexivity|]. cbn [view]. repeat split; auto; lia.
    + destruct A as [A1 [A2 [A3 [A4 A5]]]]. rewrite A1. change (0 =? 0) with true. cbn [negb].
      fold (popped st rest). set (st2 := dispatch beh it (popped st rest)) in *.
      rewrite A2. rewrite (s32_small (todo (lv st2 p) - 1)) by exact A4.
      rewrite (s32_small (processed + 1)) by (change (2 ^ 31) with 2147483648; change (2 ^ 30) with 1073741824 in Hp; lia).
      rewrite stop_dec_todo. rewrite <- (negb_involutive (stop st2)), <- A3.
      destruct (hvS cd =? 0) eqn:E; cbn [negb];
        (assert (S2 : stop st2 = negb (hvS cd =? 0)) by (rewrite E; destruct (stop st2) eqn:X; rewrite ?X in A3; simpl in A3; simpl; congruence)); rewrite E in S2; cbn [negb] in S2.
      * rewrite S2 in A5.
        destruct (processed + 1 <? LOOP_TO_PROCESS) eqn:L.
        -- apply Z.ltb_lt in L.
           destruct (IHf (processed + 1) (dec_todo p st2) (ce + 1) (cd + 1) job (hvS cd) (todo (lv st2 p) - 1)) as [r [R1 R2]].
           ++ exact A5.
           ++ rewrite stop_dec_todo, S2. exact E.
           ++ symmetry. apply todo_dec_todo.
           ++ change (2 ^ 30) with 1073741824 in *. assert (LOOP_TO_PROCESS = 4) by reflexivity. lia.
           ++ rewrite Heqf1 in *. rewrite !Nat2Z.inj_succ in *. lia.
           ++ exists r. split; [exact R1|].
              destruct (run_level_go beh p f1 (processed + 1) (dec_todo p st2)) as [st' n].
              destruct (view r) as [[[cd' ce'] sv'] tv']. destruct R2 as [X1 [X2 X3]]. repeat split; auto. lia.
        -- eexists. split; [reflexivity|]. cbn [view]. rewrite todo_dec_todo, stop_dec_todo.
           repeat split; auto; [rewrite S2; exact E|lia].
      * eexists. split; [reflexivity|]. cbn [view]. rewrite todo_dec_todo, stop_dec_todo.
        repeat split; auto; [rewrite S2; exact E|lia].
Qed.

(* qb_loop_run_level(&l->level[p]) = LoopModel.run_level: same number of dispatches (the to_process quota, the
   empty list and a requested stop end the loop in the same iteration), same level->todo, same stop flag *)
Theorem src_run_level : forall st lvl ce cd sv prio_,
  agree (Datatypes.S (Z.to_nat LOOP_TO_PROCESS)) 0 st ce cd -> (sv =? 0) = negb (stop st) ->
  exists cd' ce' sv' tv',
    qb_loop_run_level (Datatypes.S (Z.to_nat LOOP_TO_PROCESS)) lvl cd ce hvS hvT sv prio_ LOOP_TO_PROCESS (todo (lv st p)) od oe
      = Some (cd', ce', sv', tv') /\
    let '(st', n) := run_level beh p st in
    tv' = todo (lv st' p) /\ (sv' =? 0) = negb (stop st') /\ cd' - cd = n.
Proof.
  intros st lvl ce cd sv prio_ A Hs. unfold qb_loop_run_level, run_level. change (s32 0) with 0.
  destruct (loop_eq (Z.to_nat LOOP_TO_PROCESS) 0 st ce cd 0 sv (todo (lv st p)) A Hs eq_refl) as [r [R1 R2]].
  - change (2 ^ 30) with 1073741824. lia.
  - rewrite Nat2Z.inj_succ, Z2Nat.id by (vm_compute; congruence). lia.
  - rewrite R1. destruct (run_level_go beh p (Datatypes.S (Z.to_nat LOOP_TO_PROCESS)) 0 st) as [st' n].
    destruct r as [[[[[[cd' ce'] j'] sv'] tv'] n']|[[[cd' ce'] sv'] tv']]; cbn [view] in R2;
      exists cd', ce', sv', tv'; (split; [reflexivity|]); destruct R2 as [X1 [X2 X3]]; repeat split; auto; lia.
Qed.
End RunLevel.
