(* append to coq/PropertiesSrc_C09.v after tools/c2coq.py has c2coq.diff applied and
   HeapSrcEq_addendum.v is appended to coq/HeapSrcEq.v (which additionally needs `Require Verif.LoopTimerArith.') *)
(* qb_loop_timer_msec_duration_to_expire, including the uint64_t -> int32_t narrowing with the INT32_MAX clamp *)
Theorem C09_src_loop_msec_to_expire : forall st ts c1 c2 c3 c4 olock onow oepoch oget r tp,
  olock c1 = 0 -> onow c2 = clk st -> at_ (ents (heap st)) 0 r ->
  0 <= clk st < 2 ^ 64 -> 0 <= t_exp r < 2 ^ 64 -> 0 < hz st < 2 ^ 63 ->
  fst (fst (fst (fst (qb_loop_timer_msec_duration_to_expire ts c1 c2 c3 c4 (hz st) olock onow oepoch oget (t_exp r) 0 tp (size (heap st))))))
  = fst (msec_to_expire fixed st).
Proof. exact src_loop_msec_to_expire. Qed.
Print Assumptions C09_src_loop_msec_to_expire.
