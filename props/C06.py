"""C06 - IPC: bytes from a peer never corrupt the other side, whatever they say.  DESIGN.md section 5 / C06.

Two generated streams, both run in the in-process IPC lab (harness/h_ipcdata.c: the real lib/*.c, ASan+UBSan):
 (a) raw handshake peers: stream sockets connected to the service that write every prefix of a valid connection
     request, requests with each field mutated, garbage, one-byte dribbles, nothing at all; that shut down or close at
     any point; several at once, on both transports; a well-behaved control client connects in between ("ctl"), and a
     census of what the service holds (poll-table entries, descriptors, /dev/shm entries, service references) is taken;
 (b,c) an accepted client that bypasses qb_ipcc_send and writes raw requests (ring chunk + notification byte, or a
     datagram): header size field in {-1, 0, 15, real-1, real, real+1, max, max+1, 2^31-1, ...} x real sizes around a
     bare header and around / above the negotiated maximum, mixed with ordinary traffic.
The implementation's log (concrete bytes written, kernel outcomes, callbacks, results, census) is replayed on the
extracted Gallina models (coq/IpcHostileModel.v, coq/IpcDataModel.v) and diffed line by line; an independent Python
monitor (vlib/ipcdata.py: monitor_c06) states C06 over the implementation's log; ASan/UBSan watch the buffers."""
import os
import re
from vlib import common as C
from vlib import ipcdata as L

ID = "C06"
CONNRESP = 12328


def prebuild():
    L.build()


def consts():
    """sizeof(struct qb_ipc_connection_request) and QB_IPC_MSG_AUTHENTICATE as regenerated from the tree."""
    txt = open(os.path.join(C.COQ, "gen", "Consts_ipcdata.v")).read()

    def get(n):
        m = re.search(r"Definition %s : Z := \((-?\d+)\)" % n, txt)
        return int(m.group(1))
    return get("IPC_CONNREQ_SIZE"), get("IPC_MSG_AUTHENTICATE")


# ------------------------------------------------------------------------------------------------ generators
class HsGen:
    """Raw handshake peers against a service (optionally with the scripted client connected)."""

    def __init__(self, rng, first, connreq):
        self.rng = rng
        self.ops = [first, "census"]
        self.n = 0                 # raw peers so far
        self.state = {}            # k -> [bytes of a valid request delivered so far or None if garbage, open, extra]
        self.connreq = connreq

    def new(self, kind=None):
        r = self.rng
        if self.n >= 15:
            return
        k = self.n
        self.n += 1
        kind = kind or r.choice(["v", "v", "p", "p", "p", "i", "z", "g", "g", "x", "n"])
        mx = r.choice([8192, 8192, 0, 1, 15, 16, 100, 4096, 12328, 65536, 1 << 20])
        if kind == "v":
            self.ops.append("hs v %d" % mx)
            self.state[k] = [self.connreq, True, 0]
        elif kind == "p":
            n = r.choice([1, 2, 3, 4, 7, 8, 11, 12, 15, 16, 17, 20, self.connreq - 1, self.connreq - 1, r.randint(1, self.connreq - 1)])
            self.ops.append("hs p %d %d" % (n, 8192))
            self.state[k] = [n, True, 0]
        elif kind == "i":
            self.ops.append("hs i %d %d" % (r.choice([0, 1, -2, -3, -11, 5, 2147483647, -2147483648, 255, 0xffff]), mx))
            self.state[k] = [None, True, 0]
        elif kind == "z":
            self.ops.append("hs z %d %d" % (r.choice([0, -1, 1, 23, 25, 5000, 2147483647, -2147483648]), mx))
            self.state[k] = [self.connreq, True, 0]
        elif kind == "g":
            n = r.choice([1, 3, 4, 8, 16, self.connreq - 1, self.connreq, self.connreq + 1, 40, 200, 4096, r.randint(1, 300)])
            self.ops.append("hs g %d %d" % (n, r.randint(0, 250)))
            self.state[k] = [None, True, 0]
        elif kind == "x":
            extra = r.choice([1, 2, 5, 9, 10, 11, 30])
            self.ops.append("hs x %d %d" % (extra, r.randint(0, 250)))
            self.state[k] = [self.connreq, True, extra]
        else:
            self.ops.append("hs n")
            self.state[k] = [0, True, 0]

    def more(self):
        r = self.rng
        live = [k for k, v in self.state.items() if v[1]]
        if not live:
            return self.new()
        k = r.choice(live)
        got, _, extra = self.state[k]
        if got is not None and got < self.connreq and r.random() < 0.8:
            n = r.choice([1, 1, 2, 3, self.connreq - got, self.connreq - got, max(1, self.connreq - got - 1)])
            n = min(n, self.connreq - got)
            self.ops.append("hs a %d %d %d" % (k, n, got))
            self.state[k][0] = got + n
        else:
            # garbage after whatever was there; an accepted shm peer swallows one byte per turn: keep it short
            n = r.choice([1, 2, 5, 9, 10, 11])
            if extra + n > 40:
                return
            self.ops.append("hs b %d %d %d" % (k, n, r.randint(0, 250)))
            if got is not None and got < self.connreq:
                self.state[k][0] = None if got + n < self.connreq else None
            self.state[k][2] = extra + n

    def shut(self):
        live = [k for k, v in self.state.items() if v[1]]
        if live:
            self.ops.append("hh %d" % self.rng.choice(live))

    def close(self, k=None):
        live = [k2 for k2, v in self.state.items() if v[1]]
        if not live:
            return
        k = self.rng.choice(live) if k is None else k
        self.ops.append("hx %d" % k)
        self.state[k][1] = False

    def finish(self):
        for k, v in sorted(self.state.items()):
            if v[1]:
                self.ops.append("hx %d" % k)
                v[1] = False
        self.ops += ["census", "ctl", "census", "close"]


def gen_handshake(rng, tr, nops, connreq):
    g = HsGen(rng, "serve %s" % tr, connreq)
    for _ in range(nops):
        r = rng.random()
        if r < 0.35: g.new()
        elif r < 0.65: g.more()
        elif r < 0.72: g.shut()
        elif r < 0.84: g.close()
        elif r < 0.94: g.ops.append("census")
        else: g.ops.append("ctl")
    g.finish()
    return g.ops


def size_fields(rng, real, mx):
    return rng.choice([-1, 0, 1, 15, 16, 17, real - 1, real, real, real + 1, real + 4, mx - 1, mx, mx + 1, 2 * mx, 65536, 1 << 20,
                       2147483647, -2147483648, -real, real // 2])


def real_sizes(rng, mx):
    return rng.choice([0, 1, 4, 8, 12, 15, 16, 17, 20, 24, 100, 120, 1000, mx - 17, mx - 1, mx, mx + 1, mx + 16, mx + 1000, 2 * mx,
                       rng.randint(16, 400), rng.randint(16, mx)])


def gen_rawreq(rng, tr, connreq, hostile_first=False):
    """ordinary traffic, then raw requests; the server drops the client at the first one it refuses, so a case holds
    only a few of them; the service must stay usable (ctl) and a later raw handshake peer changes nothing."""
    req_max = rng.choice([8192, 8192, 13000, 20000, 16384 - 13])
    enforced = rng.choice([0, 0, 0, req_max + 1, 2 * req_max, 4096, 65536]) if rng.random() < 0.5 else 0
    mx = max(req_max, CONNRESP, enforced)
    ops = ["open %s %d" % (tr, req_max) + (" %d" % enforced if enforced > 0 else ""), "census"]
    tag = 0
    if not hostile_first:
        for _ in range(rng.randint(0, 6)):
            tag += 1
            r = rng.random()
            if r < 0.5:
                ops.append("cs %d %d" % (rng.choice([16, 17, 64, 1000, mx - 1, mx]), tag))
            elif r < 0.7:
                ops.append("t")
            elif r < 0.8:
                ops.append("sr %d %d" % (rng.choice([16, 100, mx]), tag))
            elif r < 0.9:
                ops.append("cr %d" % rng.choice([mx, 16, 15, 0, 300]))
            else:
                ops.append("rl %d" % rng.randint(0, 2))
    nraw = rng.choice([1, 1, 2, 3, 6])
    for i in range(nraw):
        tag += 1
        real = real_sizes(rng, mx)
        truthful = rng.random() < 0.3
        hsz = real if truthful else size_fields(rng, real, mx)
        mid = rng.choice([1, 1, 1, 0, 5, -3, -1, 2147483647])        # -3 = QB_IPC_MSG_DISCONNECT
        ops.append("rq %d %d %d %d" % (real, hsz, mid, tag))
        if rng.random() < 0.7:
            ops.append("t")
    ops += ["t", "t"]
    if rng.random() < 0.5:
        ops += ["hs g %d %d" % (rng.choice([3, connreq, 100]), rng.randint(0, 99)), "hs v 8192", "hx 0", "hx 1"]
    ops += ["ctl", "cs 32 %d" % (tag + 1), "t", "close"]
    return ops


def corpus(connreq):
    cs = []
    for tr in ("shm", "sock"):
        # every prefix of a valid request, then EOF / close / the rest
        for n in range(0, connreq + 1):
            end = ["hx 0"] if n % 3 == 0 else (["hh 0", "hx 0"] if n % 3 == 1 else ["hs a 0 %d %d" % (connreq - n, n), "census", "hx 0"])
            cs.append(["serve %s" % tr, "census", ("hs p %d 8192" % n) if n else "hs n", "census"] + end + ["census", "ctl", "close"])
        # one byte at a time
        cs.append(["serve %s" % tr, "census", "hs p 1 8192"] + ["hs a 0 1 %d" % i for i in range(1, connreq)] + ["census", "hx 0", "census", "close"])
        # each field mutated
        b = ["serve %s" % tr, "census"]
        for i, idv in enumerate([0, 1, -2, -3, 5, 2147483647, -2147483648]):
            b.append("hs i %d 8192" % idv)
        b += ["census"]
        for hsz in [0, -1, 23, 25, 2147483647]:
            b.append("hs z %d 8192" % hsz)
        b += ["census"] + ["hx %d" % k for k in range(12)] + ["census", "ctl", "close"]
        cs.append(b)
        # requested buffer sizes 0 / tiny / big
        b = ["serve %s" % tr, "census"] + ["hs v %d" % m for m in (0, 1, 15, 16, 4096, 65536, 1 << 20)]
        b += ["census", "ctl"] + ["hx %d" % k for k in range(7)] + ["census", "close"]
        cs.append(b)
        # garbage of all lengths around a request; garbage after a valid request; silent peers; many at once
        b = ["serve %s" % tr, "census"] + ["hs g %d %d" % (n, n) for n in (1, connreq - 1, connreq, connreq + 1, 4096)]
        b += ["hs x 1 3", "hs x 10 4", "hs x 11 5", "hs n", "hs n", "census", "ctl", "hh 5", "hh 8", "census"]
        b += ["hx %d" % k for k in range(10)] + ["census", "ctl", "close"]
        cs.append(b)
        # the findings of the design round: a 120-byte request whose header says 5000 / -1; a datagram above the maximum
        cs.append(["open %s 8192" % tr, "cs 100 1", "t", "rq 120 5000 1 2", "t", "ctl", "close"])
        cs.append(["open %s 8192" % tr, "rq 120 -1 1 1", "t", "ctl", "close"])
        cs.append(["open %s 8192" % tr, "rq 20000 20000 1 1", "t", "ctl", "close"])
        cs.append(["open %s 8192" % tr, "rq 14000 14000 1 1", "t", "ctl", "close"])
        cs.append(["open %s 8192" % tr, "rq 14000 100 1 1", "t", "t", "ctl", "close"])
        cs.append(["open %s 8192" % tr, "rq 12328 12328 1 1", "rq 12329 12329 1 2", "t", "ctl", "close"])
        cs.append(["open %s 8192" % tr, "rq 100 99 1 1", "t", "rq 100 16 1 2", "t", "rq 100 15 1 3", "t", "rq 100 0 1 4", "t", "rq 100 101 1 5", "t",
                   "ctl", "close"])
        cs.append(["open %s 8192" % tr, "rq 15 15 1 1", "t", "ctl", "close"])
        cs.append(["open %s 8192" % tr, "rq 1 1 1 1", "t", "ctl", "close"])
        cs.append(["open %s 8192" % tr, "rq 0 0 1 1", "t", "t", "ctl", "close"])
        cs.append(["open %s 8192" % tr, "rq 16 16 -3 1", "t", "ctl", "close"])
        # a client-side receive buffer smaller than the queued message / than a header
        cs.append(["open %s 8192" % tr, "sr 200 1", "cr 0", "cr 1", "cr 15", "cr 16", "cr 199", "cr 200", "se 300 2", "ce 0", "ce 15", "ce 299",
                   "ce 300", "close"])
        # raw handshake peers while a client is connected and has requests queued: nothing of it is touched
        cs.append(["open %s 8192" % tr, "census", "cs 100 1", "cs 200 2", "hs g 50 1", "hs p 10 8192", "hs v 8192", "hs a 1 14 10", "t", "hx 0", "hx 1",
                   "hx 2", "census", "cs 64 3", "t", "ctl", "close"])
        # server-enforced buffer size above the figure in the client's handshake: every connection buffer must be sized by the
        # negotiated maximum, truthful requests between the two figures stay inside them
        cs.append(["open %s 16384 65536" % tr, "census", "cs 16385 1", "t", "cs 32768 2", "t", "cs 65535 3", "t", "cs 65536 4", "t",
                   "rq 65536 65536 1 5", "t", "rq 65537 65537 1 6", "t", "t", "ctl", "close"])
    return cs


# ------------------------------------------------------------------------------------------------ run
def execute(cases, exe, model):
    impl = L.run_impl(exe, cases)
    mod = L.run_model(model, impl)
    return impl, mod


def unmodelled(lines):
    """A zero-length chunk written straight into the request ring: qb_rb_chunk_peek consumes the semaphore count but
    the chunk is never reclaimed, which wedges that client's own request channel for good.  The model (queue length =
    number of chunks) does not represent the semaphore separately: such cases are judged by the monitor and the
    sanitizers only."""
    shm = any(l.startswith("op open shm") for l in lines[:2])
    return shm and any(l.startswith("op rq 0 ") for l in lines)


def judge(impl, mod, cq):
    lines, crash = impl
    if crash:
        return ("impl-monitor", "implementation crashed, hung or reported a sanitizer error (rc=%s)" % crash[0], crash[1][-1500:])
    m = L.monitor_c06(lines, cq[0], cq[1])
    if not m and unmodelled(lines):
        return None
    d = C.first_diff(L.comparable(lines), L.comparable(mod[0]))
    if m:
        return ("impl-monitor", m, {"first_model_difference": d})
    if mod[1]:
        return ("correspondence", "model runner failed", mod[1][1])
    if d:
        return ("correspondence", "observable %d differs: impl %r model %r" % d, {"first_difference": d})
    return None


def run(ctx):
    res = C.Result()
    exe = L.build()
    model = C.build_model(ID)
    rng = ctx.rng
    cq = consts()
    connreq = cq[0]
    thorough = ctx.tier == "thorough" or not ctx.proof_ok
    n_hs = 1200 if thorough else 150
    n_rq = 1600 if thorough else 220
    cases = corpus(connreq)
    kinds = {"corpus": len(cases)}
    for i in range(n_hs):
        cases.append(gen_handshake(rng, "shm" if i % 2 == 0 else "sock", rng.choice([6, 12, 25, 40]), connreq))
    for i in range(n_rq):
        cases.append(gen_rawreq(rng, "shm" if i % 2 == 0 else "sock", connreq, hostile_first=(i % 5 == 0)))
    kinds["random_handshake"] = n_hs
    kinds["random_raw_request"] = n_rq
    impl, mod = execute(cases, exe, model)
    opcount, hs_kinds, outcomes, rq_classes = {}, {}, {}, {}
    for ci, case in enumerate(cases):
        lines = impl[ci][0]
        accepted = refused = cbs = 0
        mx = None
        for b in L.parse_blocks(lines):
            name = b.op[0]
            opcount[name] = opcount.get(name, 0) + 1
            if name == "open" and b.res and b.res[0] == "0":
                mx = int(b.res[1])
            if name == "hs" and len(b.op) > 1:
                hs_kinds[b.op[1]] = hs_kinds.get(b.op[1], 0) + 1
                if b.res and len(b.res) > 2:
                    kv = dict(x.split("=") for x in b.res[1:] if "=" in x)
                    key = "sock=%s accept=%s" % (kv.get("sock"), kv.get("accept"))
                    outcomes[key] = outcomes.get(key, 0) + 1
                    accepted += int(kv.get("accept", "0"))
                    refused += 1 if kv.get("sock") == "-1" else 0
            if name == "rq" and mx is not None and len(b.op) >= 3:
                real, hsz = int(b.op[1]), int(b.op[2])
                cls = ("real<hdr" if real < 16 else "real>max" if real > mx else "real ok") + " / " + \
                      ("size<0" if hsz < 0 else "size<hdr" if hsz < 16 else "size>max" if hsz > mx else
                       "size>real" if hsz > real else "size=real" if hsz == real else "size<real")
                rq_classes[cls] = rq_classes.get(cls, 0) + 1
            cbs += len(b.cbs)
            if b.closed:
                refused += 1
        res.add_case(tuple(case), (accepted + refused + cbs) >= 2)
        v = judge(impl[ci], mod[ci], cq)
        if v is None:
            res.traces_validated += 1
            continue
        kind, what, detail = v

        def fails(sub):
            if not sub or not (sub[0].startswith("open") or sub[0].startswith("serve")):
                return False
            # raw peers are numbered in order of appearance: dropping an "hs" op renumbers the later ones, which is
            # still a legal script (ops on missing peers are answered "r -9" by both sides)
            im, mo = execute([sub], exe, model)
            j = judge(im[0], mo[0], cq)
            return j is not None and j[0] == kind
        small = C.shrink_list(case, fails, budget=60) if len(res.violations) < 2 else case
        im, mo = execute([small], exe, model)
        j = judge(im[0], mo[0], cq) or v
        res.violation(j[0], j[1], {"script": small, "shrunk_from_ops": len(case), "impl_out": im[0][0], "model_out": mo[0][0],
                                   "detail": j[2], "replay_cmd": "./check C06 --replay <this file>"})
        if len(res.violations) >= 6:
            break
    res.rule = ("(a) raw handshake peers against a libqb service: prefixes of a valid connection request, mutated id / size / "
                "max_msg_size, garbage, dribbles, silence, shutdown and close at any point, up to 15 peers at once, control client and "
                "resource census in between; (b,c) an accepted client writing raw requests (real size x header size field matrix "
                "around a bare header and the negotiated maximum) mixed with ordinary traffic; both transports; hand-made corpus first "
                "(every prefix length, every field, the design round's findings); a case is non-trivial when at least two of "
                "{peer accepted, peer/client refused, msg_process call} happened")
    nc = len(corpus(connreq))
    res.samples = [{"script": c[:30]} for c in cases[:2] + cases[nc:nc + 2] + cases[nc + n_hs:nc + n_hs + 2]]
    res.extra = {"case_kinds": kinds, "ops_by_kind": opcount, "handshake_kinds": hs_kinds, "handshake_outcomes": outcomes,
                 "raw_request_classes": rq_classes,
                 "monitor": "independent Python statement of C06 over the implementation log (vlib/ipcdata.py: monitor_c06) + ASan/UBSan"}
    res.assumptions = [
        "the model and the check describe lib/*.c WITH fix commits 'ipc_socket: qb_ipc_us_recv_at_most must not write past the caller's "
        "buffer' and 'ipcs: validate the request header's size field before calling msg_process' (fixes/C06-*.patch)",
        "kernel behaviour of unix stream sockets is an oracle: bytes in order, POLLHUP after the peer's close, recvmsg 0 at end of "
        "stream, SCM_CREDENTIALS attached; the model's chunking is quantified over in the theorems and is one piece per write here",
        "raw requests go through qb_rb_chunk_write / send(): the ring's own shared header is not attacked (C01/C07/C15 territory)",
        "requested buffer sizes stay <= 1 MiB: an unprivileged peer asking for gigabytes makes the server allocate them "
        "(resource exhaustion is outside C06's statement; see reports/ipcdata.md)",
        "a hostile ACCEPTED shm client can still stall the server's blocking read of notification bytes (not claimed by C06)",
        "single thread; the server is driven by explicit turns; connection_accept always returns 0 (admission is C05)"]
    return res


def replay(ctx, payload):
    exe = L.build()
    model = C.build_model(ID)
    cq = consts()
    case = payload["script"]
    im, mo = execute([case], exe, model)
    j = judge(im[0], mo[0], cq)
    print("impl :", im[0][0])
    print("model:", mo[0][0])
    if im[0][1]:
        print("crash:", im[0][1])
    if j:
        print("VIOLATION property=%s replay=%s" % (ID, "<replayed>"))
        print("DETAIL: %s: %s" % (j[0], j[1]))
        return 1
    print("replay: property holds on this script now")
    return 0
