"""C13 - log line formatting is bounded by the line limit and follows the format spec
(qb_log_target_format / qb_log_format_set / _strcpy_cutoff in lib/log_format.c, QB_LOG_CONF_MAX_LINE_LEN in lib/log.c).
See DESIGN.md section 5.2 / C13.

Stages: generated scripts -> the real functions under ASan/UBSan with an output buffer of exactly max_line_length
bytes (harness/h_logfmt.c) -> extracted Gallina model (coq/LogFmtModel.v, repaired code) on the same scripts and
oracle answers (time-stamp texts, pid, host name) -> line diff; plus an independent Python statement of the
documented format (monitor): NUL inside the limit, text == the directives' rendering truncated to the limit."""
from vlib import common as C
from vlib import logfmt as L_

ID = "C13"
hx = L_.hx
LONG_MAX = 2 ** 63 - 1
ABS_MAX = 4096
F_RALIGN = "C13-right-aligned-field-clamped"
PRIO = ["emerg", "alert", "crit", "error", "warning", "notice", "info", "debug", "trace"]


def prebuild():
    lib = C.build_lib()
    C.build_harness("h_logfmt", ["h_logfmt.c"], lib=lib)


# ------------------------------------------------------------------ independent statement of the format
def width_of(digits):
    if not digits:
        return 0
    v = min(int(digits), LONG_MAX) & 0xFFFFFFFF          # atoi: strtol saturates, the cast keeps 32 bits
    if v >= 2 ** 31:
        return 10 ** 9                                   # negative int -> huge size_t: "as wide as possible"
    return v


def pad_chop(src, w, dash):
    if w == 0:
        return src
    if w <= len(src):
        return src[:w]
    w = min(w, 20000)                                    # (anything beyond the largest limit is cut anyway)
    pad = b" " * (w - len(src))
    return pad + src if dash else src + pad


def parse(fmt):
    """-> list of ('lit', bytes) | ('dir', dash, digits, conv or None, text)"""
    items = []
    i, n = 0, len(fmt)
    while i < n:
        if fmt[i] != 0x25:
            j = i
            while j < n and fmt[j] != 0x25:
                j += 1
            items.append(("lit", fmt[i:j]))
            i = j
            continue
        j = i + 1
        dash = False
        if j < n and fmt[j] == 0x2d:
            dash = True
            j += 1
        k = j
        while k < n and 0x30 <= fmt[k] <= 0x39:
            k += 1
        conv = fmt[k] if k < n else None
        items.append(("dir", dash, fmt[j:k].decode(), conv, fmt[i:k + 1]))
        i = k + 1
    return items


def dyn_field(c, m):
    if c is None:
        return b""
    ch = chr(c)
    if ch == "g":
        return m["tag"] or b""
    if ch == "n":
        return m["fn"]
    if ch == "f":
        return m["file"]
    if ch == "l":
        return b"%d" % m["lineno"]
    if ch == "t":
        return m["time_t"]
    if ch == "T":
        return m["time_T"]
    if ch == "b":
        return m["msg"]
    if ch == "p":
        return PRIO[min(m["prio"], 8)].encode()
    return b""


def line_spec(m):
    """The documented meaning: literal text and %[-][width]directive fields, cut to limit-1 characters; a
    trailing newline is dropped; a line that filled the room ends in "..." when the ellipsis option is on."""
    r = b""
    ralign_clamped = False
    for it in parse(m["fmt"]):
        if it[0] == "lit":
            r += it[1]
        else:
            _, dash, digits, conv, _ = it
            f = pad_chop(dyn_field(conv, m), width_of(digits), dash)
            if dash and len(r) < m["L"] - 1 < len(r) + len(f):
                ralign_clamped = True
            r += f
    L = m["L"]
    t = r[:max(L - 1, 0)]
    if m["ell"] and len(t) >= L - 1 and len(t) >= 3:
        t = t[:-3] + b"..."
    elif t.endswith(b"\n"):
        t = t[:-1]
    return t, ralign_clamped


def static_spec(m):
    r = b""
    ralign_clamped = False
    for it in parse(m["fmt"]):
        if it[0] == "lit":
            r += it[1]
            continue
        _, dash, digits, conv, text = it
        if conv in (0x50, 0x4e, 0x48):
            src = {0x50: m["pid"], 0x4e: m["name"], 0x48: m["host"]}[conv]
            f = pad_chop(src, width_of(digits), dash)
            if dash and len(r) < m["L"] - 1 < len(r) + len(f):
                ralign_clamped = True
        else:
            f = text + (b" " if conv is None else b"")     # an unfinished directive at the end gains a blank
        r += f
    return r[:max(m["L"] - 1, 0)], ralign_clamped


def monitor(m, lines):
    """-> (None | message, finding | None)"""
    if m["kind"] == "ctl":
        rc = [l for l in lines if l.startswith("ctl ")]
        if not rc:
            return "no result of qb_log_ctl", None
        ok = int(rc[0].split()[1]) == 0
        should = 1 <= m["value"] <= ABS_MAX
        if ok and not should:
            return "QB_LOG_CONF_MAX_LINE_LEN accepted %d: no line of that length can be formatted" % m["value"], None
        if should and not ok:
            return "QB_LOG_CONF_MAX_LINE_LEN refused %d" % m["value"], None
        return None, None
    if m["kind"] == "M":
        # a whole log call ("%s", msg): delivered exactly once, truncated to the limit, trailing newline dropped
        got = [L_.unhx(l.split(" ")[1]) for l in lines if l.startswith("msg ")]
        if len(got) != 1:
            return "log call delivered %d times to the one enabled target" % len(got), None
        msg, L = m["msg"], m["L"]
        want = msg[:L - 1] if len(msg) >= L else (msg[:-1] if msg.endswith(b"\n") else msg)
        if got[0] != want:
            return "log call with a %d-byte message, limit %d: logger got %r, expected %r" % (
                len(msg), L, got[0][-60:], want[-60:]), None
        return None, None
    if m["kind"] == "T":
        o = [l for l in lines if l.startswith("orc ")]
        out = [l for l in lines if l.startswith("out ")]
        if not o or not out:
            return "no output of qb_log_target_format in the log", None
        m["time_t"], m["time_T"] = [L_.unhx(x) for x in o[0].split(" ")[1:3]]
        buf = L_.unhx(out[0].split(" ")[1])
        k = buf.find(b"\0")
        if k < 0 or k >= m["L"]:
            return "line not NUL-terminated within max_line_length = %d" % m["L"], None
        want, clamped = line_spec(m)
        if buf[:k] == want:
            return None, None
        return ("format %r limit %d ellipsis %d: got %r, the directives prescribe %r" % (
            m["fmt"][:60], m["L"], m["ell"], buf[:k][-70:], want[-70:])), (F_RALIGN if clamped else None)
    if m["kind"] == "F":
        o = [l for l in lines if l.startswith("orc2 ")]
        out = [l for l in lines if l.startswith("fmt ")]
        if not o or not out:
            return "no output of qb_log_format_set in the log", None
        m["pid"], m["host"], m["name"] = [L_.unhx(x) for x in o[0].split(" ")[1:4]]
        got = L_.unhx(out[0].split(" ")[1])
        want, clamped = static_spec(m)
        if got == want:
            return None, None
        return ("format_set %r limit %d: target format became %r, expected %r" % (
            m["fmt"][:60], m["L"], got[-70:], want[-70:])), (F_RALIGN if clamped else None)
    return None, None


# ------------------------------------------------------------------ generator
LIT = b"abcXYZ 0189_-:;,.[](){}<>=/!?#&+*|~\t"
LIMITS = [1, 2, 3, 4, 5, 6, 8, 16, 33, 64, 200, 511, 512, 513, 1000, 4095, 4096]


def gen_fmt(rng, convs, wild):
    n = rng.choice([0, 1, 1, 2, 3, 4, 6, 9])
    f = b""
    for _ in range(n):
        r = rng.random()
        if r < 0.45:
            f += bytes(rng.choice(LIT) for _ in range(rng.choice([1, 1, 2, 3, 5, 10, 30])))
            if rng.random() < 0.08:
                f += b"\n"
        else:
            f += b"%"
            if rng.random() < 0.3:
                f += b"-"
            r2 = rng.random()
            if r2 < 0.45:
                pass
            elif r2 < 0.9:
                f += b"%d" % rng.choice([0, 1, 2, 3, 5, 8, 12, 20, 40, 64, 100])
            else:
                f += b"%d" % rng.choice([511, 512, 5000, 4294967296, 4294967301, 99999999999, 2147483648,
                                          9223372036854775807, 99999999999999999999])
            f += bytes([rng.choice(convs)])
    if wild:
        f += rng.choice([b"%", b"%-", b"%12", b"%-7", b"\n", b"%%", b"x" * 300, b"y" * 5000, b"", b"%b\n"])
    return f


def gen_T(rng, wild):
    L = rng.choice(LIMITS) if rng.random() < 0.8 else rng.randint(1, 600)
    m = {"kind": "T", "L": L, "ell": rng.choice([0, 1]),
         "fmt": gen_fmt(rng, b"nflptTbgbbpqx%ZNPH", wild),
         "fn": rng.choice([b"main", b"", b"a_rather_long_function_name_for_a_field", b"f"]),
         "file": rng.choice([b"file.c", b"/usr/src/lib/log.c", b"dir/sub/", b"", b"x" * 70]),
         "lineno": rng.choice([0, 1, 42, 65535, 4294967295, 123456]),
         "prio": rng.choice([0, 3, 6, 7, 8, 9, 200, 255]),
         "tag": rng.choice([None, b"", b"TAG", b"a|b|c", b"t" * 40]),
         "sec": rng.choice([0, 1, 86399, 1700000000, 2147483647, 951782400, 4102444800]),
         "nsec": rng.choice([0, 1, 999999, 1000000, 123456789, 999999999]),
         "garbage": rng.choice(["5a", "00", "0a", "2e", "ff00", "0a00"])}
    q = rng.random()
    if q < 0.35:
        ml = rng.choice([0, 1, 2, 5, 17])
    elif q < 0.85:
        ml = max(0, L + rng.choice([-12, -5, -4, -3, -2, -1, 0, 1, 2, 7]))
    else:
        ml = rng.choice([600, 5000])
    msg = bytes(rng.choice(b"abcdefghij klmnop.") for _ in range(ml))
    if rng.random() < 0.15 and ml:
        msg = msg[:-1] + b"\n"
    if rng.random() < 0.05 and ml > 2:
        k = rng.randrange(ml)
        msg = msg[:k] + b"\a" + msg[k + 1:]
    m["msg"] = msg
    return m


def gen_F(rng, wild):
    L = rng.choice([1, 2, 3, 8, 64, 255, 256, 257, 300, 400, 512, 4096])
    m = {"kind": "F", "L": L, "fmt": gen_fmt(rng, b"PNHPNHbpntq", wild)}
    if rng.random() < 0.25:
        m["fmt"] += bytes(rng.choice(b"abc %-12") for _ in range(rng.choice([250, 256, 300, 399, 600, 5000])))
    return m


def gen_M(rng):
    L = rng.choice([1, 2, 3, 8, 64, 511, 512, 513, 600, 4096])
    q = rng.random()
    if q < 0.3:
        ml = rng.choice([0, 0, 1, 2, 5])
    elif q < 0.85:
        ml = max(0, L + rng.choice([-3, -2, -1, 0, 1, 2]))
    else:
        ml = rng.choice([600, 5000])
    msg = bytes(rng.choice(b"abcdefghij klmnop.%") for _ in range(ml))
    if rng.random() < 0.3 and ml:
        msg = msg[:-1] + b"\n"
    return {"kind": "M", "L": L, "prio": rng.choice([0, 3, 6, 7]), "msg": msg}


def corpus():
    base = {"kind": "T", "ell": 0, "fn": b"main", "file": b"f.c", "lineno": 7, "prio": 6, "tag": None, "sec": 0,
            "nsec": 0, "garbage": "5a", "msg": b"hello"}
    cs = []

    def T(**kw):
        m = dict(base)
        m.update(kw)
        cs.append(m)
    T(L=512, fmt=b"")                                       # output_buffer[idx-1] with idx = 0
    T(L=512, fmt=b"%b", msg=b"")                            # the same through an empty message
    T(L=512, fmt=b"[%p] %b")
    T(L=512, fmt=b"abc%")                                   # '%' last: the scan steps over the NUL
    T(L=512, fmt=b"%-12")
    T(L=6, fmt=b"aaaa\n", ell=1, garbage="5a")               # stripped newline + ellipsis: no terminator
    T(L=3, fmt=b"%b", ell=1, msg=b"abcdef")                 # ellipsis with idx < 3
    T(L=2, fmt=b"%b", ell=1, msg=b"abcdef")
    T(L=1, fmt=b"%b", ell=0, msg=b"abcdef")
    T(L=1, fmt=b"x", ell=1)
    T(L=16, fmt=b"%-10n|%b", fn=b"abc", msg=b"0123456789")
    T(L=8, fmt=b"ab%-10n", fn=b"abc")                       # right-aligned field clamped by the limit
    T(L=64, fmt=b"%t|%T|%l|%g|%f|%n|%p|%b|%q|%5q|", tag=b"TG", sec=1700000000, nsec=123456789)
    T(L=512, fmt=b"%b", msg=b"m" * 511)
    T(L=512, fmt=b"%b", msg=b"m" * 510 + b"\n", ell=1)
    cs.append({"kind": "F", "L": 512, "fmt": b"%N[%P] " + b"x" * 399})      # modified_format[256] overflow
    cs.append({"kind": "F", "L": 512, "fmt": b"%-8P %5N %H %b %p abc%"})
    cs.append({"kind": "F", "L": 4096, "fmt": b"y" * 5000})
    cs.append({"kind": "M", "L": 512, "prio": 6, "msg": b""})               # cs_format: str[len - 1] with len = 0
    cs.append({"kind": "M", "L": 512, "prio": 6, "msg": b"\n"})
    cs.append({"kind": "M", "L": 8, "prio": 6, "msg": b"0123456789"})
    cs.append({"kind": "M", "L": 600, "prio": 6, "msg": b"m" * 5000})
    for v in (0, -1, -2147483648, 1, 2, 512, 4096, 4097, 2147483647):
        cs.append({"kind": "ctl", "value": v})
    return cs


def script_of(m):
    if m["kind"] == "ctl":
        return ["C %d" % m["value"]]
    if m["kind"] == "F":
        return ["F %d %s" % (m["L"], hx(m["fmt"]))]
    if m["kind"] == "M":
        return ["M %d %d %s" % (m["L"], m["prio"], hx(m["msg"]))]
    return ["T %d %d %s %s %s %s %d %d %s %d %d %s" % (
        m["L"], m["ell"], hx(m["fmt"]), hx(m["msg"]), hx(m["fn"]), hx(m["file"]), m["lineno"], m["prio"],
        "N" if m["tag"] is None else hx(m["tag"]), m["sec"], m["nsec"], m["garbage"])]


def model_input(case, impl_lines):
    out = []
    for l in impl_lines:
        if l.startswith(("orc ", "orc2 ")):
            out.append("O " + l.split(" ", 1)[1])
    return "\n".join(out + case) + "\n"


def build():
    lib = C.build_lib()
    exe = C.build_harness("h_logfmt", ["h_logfmt.c"], lib=lib)
    model = C.build_model(ID)
    return exe, model


def execute(cases, exe, model):
    impl = C.run_cases(exe, ["\n".join(c) + "\n" for c in cases], timeout=900)
    mod = C.run_cases(model, [model_input(cases[i], impl[i][0]) for i in range(len(cases))], timeout=900)
    return impl, mod


def judge(m, impl, mod):
    lines, crash = impl
    if crash:
        return ("impl-monitor", "sanitizer report / crash in the implementation (rc=%s): %s" % (
            crash[0], " ".join(x for x in crash[1].split("\n") if "ERROR" in x or "runtime error" in x)[:300]),
            crash[1][-1500:], None)
    msg, finding = monitor(m, lines)
    il = [l for l in lines if l.split(" ")[0] in ("ctl", "out", "fmt")]
    ml = [l for l in mod[0] if l.split(" ")[0] in ("ctl", "out", "fmt", "oob")]
    if m["kind"] == "ctl":
        il = ["ctl 0" if l == "ctl 0" else "ctl -22" for l in il]
    d = C.first_diff(il, ml)
    # the guard of C13_text_partial decides what is a known finding: inside the guard the text must be the spec
    gl = [l for l in mod[0] if l.startswith("guard ")]
    if msg and m["kind"] == "T" and gl:
        finding = F_RALIGN if gl[0] == "guard 0" else None
    if msg:
        return ("impl-monitor", msg, {"first_model_difference": d}, finding)
    if mod[1]:
        return ("correspondence", "model runner failed", str(mod[1])[-600:], None)
    if d:
        return ("correspondence", "observable %d differs: impl %r model %r" % (d[0], d[1][:200], d[2][:200]),
                {"first_difference": d}, None)
    # the Coq line_spec against the Python statement (two independent readings of the documented format)
    sp = [l for l in mod[0] if l.startswith("spec ")]
    if m["kind"] == "T" and sp:
        want, clamped = line_spec(m)
        if L_.unhx(sp[0].split(" ")[1]) != want:
            return ("correspondence", "line_spec of the model differs from the monitor's statement of the format: %r vs %r"
                    % (sp[0][:160], want[:80]), {}, None)
    return None


def run(ctx):
    res = C.Result()
    exe, model = build()
    rng = ctx.rng
    thorough = ctx.tier == "thorough" or not ctx.proof_ok
    metas = corpus()
    nT, nF = (6000, 1500) if thorough else (900, 250)
    for i in range(nT):
        metas.append(gen_T(rng, i % 5 == 4))
    for i in range(nF):
        metas.append(gen_F(rng, i % 5 == 4))
    for i in range(nF):
        metas.append(gen_M(rng))
    for i in range(30):
        metas.append({"kind": "ctl", "value": rng.choice([rng.randint(-5, 5), rng.randint(4090, 4100),
                                                          rng.randint(-2 ** 31, 2 ** 31 - 1), rng.randint(1, 4096)])})
    cases = [script_of(m) for m in metas]
    impl, mod = execute(cases, exe, model)
    kinds = {}
    stats = {"truncated_lines": 0, "ellipsis_applied": 0, "newline_stripped": 0, "limit_le_4": 0}
    for ci, (m, case) in enumerate(zip(metas, cases)):
        kinds[m["kind"]] = kinds.get(m["kind"], 0) + 1
        res.add_case(tuple(case), len(impl[ci][0]) >= 1)
        if m["kind"] == "T":
            if m["L"] <= 4:
                stats["limit_le_4"] += 1
        v = judge(m, impl[ci], mod[ci])
        if m["kind"] == "T" and "time_t" in m:
            want, _ = line_spec(m)
            if len(want) >= m["L"] - 1:
                stats["truncated_lines"] += 1
            if want.endswith(b"...") and m["ell"]:
                stats["ellipsis_applied"] += 1
        if v is None:
            res.traces_validated += 1
            continue
        kind, what, detail, finding = v
        if finding:
            res.known_hits[finding] = res.known_hits.get(finding, 0) + 1
            il = [l for l in impl[ci][0] if l.split(" ")[0] in ("out", "fmt")]
            ml = [l for l in mod[ci][0] if l.split(" ")[0] in ("out", "fmt", "oob")]
            d = C.first_diff(il, ml)
            if d:
                res.violation("correspondence", "on a known-finding input, observable %d differs: impl %r model %r" % (
                    d[0], d[1][:160], d[2][:160]), {"script": case})
            continue
        res.violation(kind, what, {"script": case, "meta": {k: (v2.hex() if isinstance(v2, bytes) else v2)
                                                             for k, v2 in m.items()},
                                   "impl_out": [l[:400] for l in impl[ci][0][-3:]],
                                   "model_out": [l[:400] for l in mod[ci][0][-3:]], "detail": detail,
                                   "replay_cmd": "./check C13 --replay <this file>"})
        if len(res.violations) >= 8:
            break
    res.rule = ("one call per case: qb_log_target_format with a format from the directive grammar (all directives, '-', "
                "widths 0..huge, unknown directives, '%' at the end, empty, 300- and 5000-byte literals), messages of "
                "length {0,1,L-2..L+1,5000} with/without trailing newline, limits {1..6, 16, 64, 511..513, 4096, random}, "
                "ellipsis on/off, garbage-filled output buffer of exactly the limit; qb_log_format_set with formats up to "
                "5000 bytes; QB_LOG_CONF_MAX_LINE_LEN values around 0 and 4096; non-trivial = the call returned; "
                "distinct = distinct scripts")
    res.samples = [{"script": c} for c in cases[:2] + cases[len(corpus()):len(corpus()) + 3]]
    res.extra = {"case_kinds": kinds, "stats": stats,
                 "monitor": "props/C13.py: line_spec / static_spec (independent Python statement of the documented "
                            "directives) + NUL inside the limit; ASan with an exact-size output buffer",
                 "presupposes_fixes": ["fixes/C13-1-target-format-edges.patch", "fixes/C13-2-format-set-buffer.patch",
                                       "fixes/C13-3-max-line-len-range.patch", "fixes/C13-4-cs-format-empty.patch"]}
    res.assumptions = ["time-stamp texts (%t, %T), pid, host name and the tags text are oracles recorded from the run",
                       "the output buffer has exactly max_line_length bytes (callers allocate at least that)",
                       "cs_format (message expansion in lib/log.c) is not modelled in Coq: whole log calls are checked on the "
                       "implementation only (monitor + sanitizer, 'M' cases); qb_do_extended is not covered"]
    return res


def replay(ctx, payload):
    exe, model = build()
    case = payload["script"]
    impl, mod = execute([case], exe, model)
    print("impl :", [l[:300] for l in impl[0][0]], impl[0][1] and impl[0][1][1][-600:])
    print("model:", [l[:300] for l in mod[0][0]])
    m = payload.get("meta")
    bad = impl[0][1] is not None
    if m and not bad:
        for k in ("fmt", "msg", "fn", "file", "tag"):
            if isinstance(m.get(k), str):
                m[k] = bytes.fromhex(m[k])
        j = judge(m, impl[0], mod[0])
        bad = j is not None and not j[3]
    if bad:
        print("VIOLATION property=%s replay=%s" % (ID, "<replayed>"))
        return 1
    print("replay: property holds on this script now")
    return 0
