"""C04 - IPC server: callback order accept, created, msg*, closed+, destroyed; no use after free
(lib/ipcs.c, lib/ipc_setup.c, lib/ipc_shm.c, lib/ipc_socket.c).  See DESIGN.md section 5 / C04.

Stages: symbolic histories (connects, requests, client disconnects / deaths, main-loop turns, queued jobs, application
actions from outside and - through behaviour tables - from inside every callback) -> the real library in the
in-process IPC lab under ASan/UBSan (harness/h_ipclife.c) -> its log -> the extracted Gallina model
(coq/IpcLifeModel.v) on the same concrete ops -> line diff; plus an independent Python monitor that states the
property over the implementation's log (vlib/ipclife.py: monitor)."""
from vlib import common as C
from vlib import ipclife as L

ID = "C04"


def prebuild():
    L.build()


def run(ctx):
    res = C.Result()
    exe = L.build()
    model = C.build_model(ID)
    fixed = L.tree_is_fixed()
    variant = "fixed" if fixed else "orig"
    rng = ctx.rng
    thorough = ctx.tier == "thorough" or not ctx.proof_ok
    ncases = 3000 if thorough else 500
    ndeep = 800 if thorough else 0
    cases = L.corpus()
    ncorp = len(cases)
    for i in range(ncases):
        cases.append(L.gen_case(rng, rng.choice([6, 12, 25, 50, 90])))
    for i in range(ndeep):
        # thorough only: more connections, deeper callback nesting, longer histories, denser behaviour tables
        cases.append(L.gen_case(rng, rng.choice([40, 90, 160, 300]), deep=True))
    impl, mod = L.execute(cases, exe, model, variant)
    opcount, cbcount, skipped = {}, {}, 0
    for ci, case in enumerate(cases):
        lines = impl[ci][0]
        ncb = 0
        for l in lines:
            if l.startswith("op "):
                k = l.split()[1]
                opcount[k] = opcount.get(k, 0) + 1
            elif l.startswith("cb "):
                k = l.split()[1]
                cbcount[k] = cbcount.get(k, 0) + 1
                ncb += 1
            elif l.startswith("skip "):
                skipped += 1
        res.add_case(tuple(case), ncb >= 3)
        v = L.judge(impl[ci], mod[ci])
        if v is None:
            res.traces_validated += 1
            continue
        kind, what, detail = v

        def fails(sub):
            if not sub or not sub[0].startswith("svc "):
                return False
            im, mo = L.execute([sub], exe, model, variant)
            j = L.judge(im[0], mo[0])
            return j is not None and j[0] == kind
        small = C.shrink_list(case, fails, budget=40) if len(res.violations) < 2 else case
        im, mo = L.execute([small], exe, model, variant)
        j = L.judge(im[0], mo[0]) or v
        res.violation(j[0], j[1], {"script": small, "shrunk_from_ops": len(case), "impl_out": im[0][0][-60:],
                                   "model_out": mo[0][0][-60:], "detail": j[2], "model_variant": variant,
                                   "replay_cmd": "./check C04 --replay <this file>"})
        if len(res.violations) >= 6:
            break
    res.rule = ("histories over {service on shm|socket transport; behaviour-table entries for the five callbacks (return value + "
                "up to 3 actions: disconnect/ref/unref/event_send/response_send on self or any connection, qb_ipcs_destroy, "
                "rate limit 0..4, iterate, iterate-and-disconnect); connect / request / client disconnect / client death on up "
                "to 4 client slots; main-loop turn per connection; run queued jobs; the same actions from outside callbacks; "
                "optional callback-nesting cut 0..3}; thorough adds 'deep' histories (up to 6 slots, up to 300 ops, nesting cut up to "
                "12, up to 7 actions per entry); hand-made corpus first (boundary histories of DESIGN C04 and the five "
                "findings, both transports), then random; a case is non-trivial when >= 3 callbacks were invoked; distinct = "
                "distinct scripts")
    res.samples = [{"script": c} for c in cases[:2] + cases[ncorp:ncorp + 2]]
    res.extra = {"case_kinds": {"corpus": ncorp, "random": ncases, "random_deep": ndeep}, "ops_by_kind": opcount, "callbacks_by_kind": cbcount,
                 "actions_skipped_by_guard": skipped, "model_variant": variant,
                 "tree_carries_fix_C04": fixed,
                 "monitor": "independent Python statement of C04 over the implementation log (vlib/ipclife.py: monitor) + ASan/UBSan"}
    res.assumptions = [
        "kernel: whether a client's send is accepted is an oracle recorded from the run; POLLHUP / readability of the "
        "connection's descriptors follow the client's last action (hup/kill => HUP on the setup socket)",
        "handshake (acceptor, process_auth) is one step here; its byte-level behaviour is C06's model",
        "application guards: actions on a connection the application has no right to touch (destroyed and no reference "
        "held, unref without a held reference, service after qb_ipcs_destroy) are skipped by harness and model alike",
        "single-threaded server (the atomics are plain updates)"]
    if not fixed:
        res.assumptions.append("the working tree does not carry fixes/C04-connection-lifecycle.patch: the model variant "
                               "'as found' is used for correspondence and the monitor reports the known defects")
    return res


def replay(ctx, payload):
    exe = L.build()
    model = C.build_model(ID)
    variant = "fixed" if L.tree_is_fixed() else "orig"
    case = payload["script"]
    im, mo = L.execute([case], exe, model, variant)
    j = L.judge(im[0], mo[0])
    print("impl :", im[0][0][-40:])
    print("model:", mo[0][0][-40:])
    if im[0][1]:
        print("stderr tail:", im[0][1][1][-1500:])
    if j:
        print("VIOLATION property=%s replay=%s" % (ID, "<replayed>"))
        print("DETAIL: %s: %s" % (j[0], j[1]))
        return 1
    print("replay: property holds on this script now")
    return 0
