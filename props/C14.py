"""C14 - blackbox records (qb_vsnprintf_serialize / qb_vsnprintf_deserialize in lib/log_format.c) reproduce printf.
See DESIGN.md section 5 / C14.

Stages: generated scripts -> the real functions under ASan/UBSan with exact-size heap buffers (harness/h_ser.c, which
also records every single-directive snprintf answer) -> extracted Gallina model (coq/SerModel.v, repaired code) on the
same scripts and oracle answers -> line diff; plus an independent monitor stating the property on the
implementation's log: returned sizes within the buffers, NUL inside the caller's buffer, and decoded text ==
vsnprintf(format, arguments) of the same process whenever the record and the text fit."""
import struct
from vlib import common as C
from vlib import logfmt as L

ID = "C14"
hx = L.hx
MINI = 20            # MINI_FORMAT_STR_LEN (checked against the regenerated constant in run())
LDFLAGS = ["-Wl,--wrap=snprintf"]

# ASan's own printf-argument checker mis-parses unusual (but harmless) directives and then dereferences an
# integer argument: switched off; the buffers are still red-zoned and every access of the library is checked
ENV = {"ASAN_OPTIONS": C.IMPL_ENV["ASAN_OPTIONS"] + ":check_printf=0"}

F_MINIFMT = "C14-directive-longer-than-minifmt"
F_NEGPREC = "C14-negative-star-precision"


def prebuild():
    lib = C.build_lib()
    C.build_harness("h_ser", ["h_ser.c"], lib=lib, ldflags=LDFLAGS)


# ------------------------------------------------------------------ generator
INT_EXT = [0, 1, -1, 7, 42, -42, 2147483647, -2147483648, 65535, 1000000]
LONG_EXT = [0, 1, -1, 9223372036854775807, -9223372036854775808, 4294967296, -4294967297, 123456789012]
DBL_EXT = [0.0, -0.0, 1.0, -1.5, 3.141592653589793, 1e300, -1e-300, 5e-324, float("inf"), float("-inf"),
           float("nan"), 123456.789, 1e21, 0.1]
LIT_ALPHA = "abcXYZ 0129_-:;,.[](){}<>=/\\'\"!?#&+*|~^\t\n"


def num(v):
    return str(v) if -2 ** 31 <= v < 2 ** 31 else ("-0x%x" % -v if v < 0 else "0x%x" % v)


def gen_string(rng):
    r = rng.random()
    if r < 0.10:
        return b""
    if r < 0.55:
        return bytes(rng.choice(b"abcdefgh XYZ01239.,:%-") for _ in range(rng.randint(1, 12)))
    if r < 0.70:
        return b"100% %s %d %%" [:rng.randint(1, 13)]
    if r < 0.85:
        return bytes(rng.choice(b"abcdefghijklmnopqrstuvwxyz ") for _ in range(rng.choice([30, 63, 64, 100, 255, 256])))
    if r < 0.95:
        return bytes(rng.randint(1, 255) for _ in range(rng.randint(1, 40)))
    return bytes(rng.choice(b"pqrs") for _ in range(rng.choice([500, 511, 512, 600, 1200])))


def gen_directive(rng, wild):
    """-> dict(text, args(tokens), need(bytes of record data), supported, dlen(rebuilt directive length), negprec)"""
    d = {"args": [], "need": 0, "supported": True, "negprec": False, "nullprec": False}
    if rng.random() < 0.06:
        d.update(text="%%", dlen=2)
        return d
    conv = rng.choice("diouxXdiuxcsspeEfFgGaAdsdsx")
    t = "%"
    nflags = rng.choice([0, 0, 0, 1, 1, 2, 3]) if not wild else rng.choice([0, 1, 2, 4, 9, 21])
    for _ in range(nflags):
        t += rng.choice("-+ #0'") if rng.random() < 0.97 else "I"
    dl = len(t)
    # width
    r = rng.random()
    if r < 0.25:
        w = str(rng.choice([1, 2, 5, 7, 12, 20, 40, 300] if not wild else [5, 70000, 10 ** 17, 10 ** 25]))
        if wild and rng.random() < 0.3:
            w = "0" * rng.randint(1, 25) + w
        t += w
        dl += len(w)
    elif r < 0.37:
        v = rng.choice([0, 1, 5, 8, -8, 12, -12, 30, 300] if not wild else [-100000, 100000, 5, 99999, -12345])
        t += "*"
        d["args"].append("i%d" % v)
        d["need"] += 4
        dl += len(str(v))
    # precision
    plit = None
    r = rng.random()
    if r < 0.10:
        t += "."
        dl += 1
        plit = 0
    elif r < 0.30:
        p = rng.choice([0, 1, 2, 3, 5, 9, 12, 30] if not wild else [3, 10 ** 10, 18446744073709551615, 10 ** 30])
        t += ".%d" % p
        dl += 1 + len(str(p))
        plit = p
    elif r < 0.40:
        v = rng.choice([0, 1, 3, 5, 10, 17] if rng.random() < 0.85 else [-1, -5, -100000])
        t += ".*"
        d["args"].append("i%d" % v)
        d["need"] += 4
        dl += 1 + len(str(v))
        if v < 0:
            d["negprec"] = True
    # length modifier
    lm = ""
    if conv in "diouxX":
        lm = rng.choice(["", "", "", "l", "ll", "z", "t", "j"])
        if rng.random() < 0.03:
            lm = rng.choice(["h", "hh", "q", "L"])
            d["supported"] = False
    elif rng.random() < 0.03 and conv not in "cs":
        lm = rng.choice(["L", "h"])
        d["supported"] = False
    t += lm + conv
    dl += len(lm) + 1
    d["text"] = t
    d["dlen"] = dl
    if not d["supported"] and lm in ("h", "hh", "q", "L"):
        # the scanners leave the directive at the unknown letter: no argument is taken
        return d
    if conv in "diouxX":
        if lm == "":
            v = rng.choice(INT_EXT) if rng.random() < 0.7 else rng.randint(-2 ** 31, 2 ** 31 - 1)
            d["args"].append("i%d" % v)
            d["need"] += 4
        else:
            v = rng.choice(LONG_EXT) if rng.random() < 0.7 else rng.randint(-2 ** 63, 2 ** 63 - 1)
            d["args"].append(("l" if lm == "l" else "q") + num(v))
            d["need"] += 8
    elif conv in "eEfFgGaA":
        v = rng.choice(DBL_EXT) if rng.random() < 0.8 else struct.unpack("<d", struct.pack("<Q", rng.getrandbits(64)))[0]
        bits = struct.unpack("<Q", struct.pack("<d", v))[0]
        if (bits >> 52) & 0x7ff == 0x7ff and bits & ((1 << 52) - 1):
            bits = 0x7ff8000000000000          # one canonical NaN (payload printing is not at issue)
        d["args"].append("d%016x" % bits)
        d["need"] += 8
    elif conv == "c":
        v = rng.choice([65, 97, 48, 32, 37, 126, 127, 128, 255, 1]) if rng.random() < 0.95 else 0
        d["args"].append("i%d" % v)
        d["need"] += 1
    elif conv == "p":
        v = rng.choice([0, 1, 4096, 0x7ffdeadbeef0, 2 ** 64 - 1])
        d["args"].append("p" + num(v))
        d["need"] += 8
    elif conv == "s":
        if rng.random() < 0.06:
            d["args"].append("sN")
            d["need"] += 7
            if plit is not None or ".*" in t:
                d["nullprec"] = True       # glibc prints "" for a NULL string with a precision < 6: not ISO C
        else:
            s = gen_string(rng).replace(b"\0", b"")
            d["args"].append("s" + hx(s))
            stored = len(s) if not plit else min(len(s), plit)
            d["need"] += stored + 1
    return d


def gen_roundtrip(rng, wild=False):
    nd = rng.choice([1, 1, 2, 2, 3, 4, 6]) if rng.random() < 0.95 else rng.choice([0, 12, 30])
    fmt = ""
    args = []
    meta = {"kind": "roundtrip", "supported": True, "negprec": False, "nullprec": False, "maxdlen": 0, "need": 0}
    xc = rng.random() < 0.05
    for _ in range(nd):
        if rng.random() < 0.7:
            fmt += "".join(rng.choice(LIT_ALPHA) for _ in range(rng.choice([0, 1, 1, 2, 3, 5, 8, 20])))
        if xc and rng.random() < 0.3 and "\a" not in fmt:
            fmt += "\a"        # the extended-information marker, between directives
        d = gen_directive(rng, wild and rng.random() < 0.5)
        fmt += d["text"]
        args += d["args"]
        meta["need"] += d["need"]
        meta["supported"] = meta["supported"] and d["supported"]
        meta["negprec"] = meta["negprec"] or d["negprec"]
        meta["nullprec"] = meta["nullprec"] or d["nullprec"]
        meta["maxdlen"] = max(meta["maxdlen"], d["dlen"])
    if rng.random() < 0.6:
        fmt += "".join(rng.choice(LIT_ALPHA) for _ in range(rng.choice([1, 2, 5, 12, 40])))
    if rng.random() < 0.03:
        fmt += "".join(rng.choice("abc ") for _ in range(rng.choice([200, 480, 505, 520])))
    if xc and "\a" not in fmt:
        fmt += "\a" + ("" if rng.random() < 0.5 else "ext %d")[:rng.choice([0, 3])]
    meta["need"] += len(fmt) + 1
    meta["fmt"] = fmt
    meta["args"] = args
    return meta


def xc_subst(fmt):
    """What the serializer stores for a format with the extended-information marker (QB_XC)."""
    k = fmt.find("\a")
    if k < 0:
        return fmt
    return fmt[:k] if k == len(fmt) - 1 else fmt[:k] + "|" + fmt[k + 1:]


def scan_args(fmt, rng):
    """Arguments a format consumes according to the (repaired) serializer's scanner: 'i' for '*', sized integers,
    doubles, strings.  Used for arbitrary byte formats so that the call is type-correct."""
    toks = []
    i, n = 0, len(fmt)
    while i < n:
        if fmt[i] == 0:
            break
        if fmt[i] != 0x25:
            i += 1
            continue
        i += 1
        tl = tll = False
        while i < n:
            c = chr(fmt[i])
            if c in "#- +'I.0123456789":
                i += 1
            elif c == "*":
                toks.append("i%d" % rng.choice([0, 3, -3, 40, 70000, -70000]))
                i += 1
            elif c == "l":
                i += 1
                if i < n and fmt[i] == 0x6c:
                    tl, tll = False, True
                    i += 1
                else:
                    tl = True
            elif c in "ztj":
                tll = True
                i += 1
            elif c in "diouxX":
                if tl or tll:
                    toks.append("q" + num(rng.choice(LONG_EXT)))
                else:
                    toks.append("i%d" % rng.choice(INT_EXT))
                i += 1
                break
            elif c in "eEfFgGaA":
                toks.append("d%016x" % rng.choice([0, 0x3ff8000000000000, 0x7ff0000000000000, 0xc08f400000000000]))
                i += 1
                break
            elif c == "c":
                toks.append("i%d" % rng.choice([65, 0, 255]))
                break
            elif c == "s":
                toks.append("sN" if rng.random() < 0.1 else "s" + hx(gen_string(rng).replace(b"\0", b"")))
                break
            elif c == "p":
                toks.append("p" + num(rng.choice([0, 4096, 2 ** 64 - 1])))
                break
            elif c == "%":
                i += 1
                break
            else:
                break
    return toks


HOSTILE_ALPHA = b"%%%%%%%.**0123456789lzjtdsxcpfg- +#abc \a\x00\x00"


def gen_hostile_fmt(rng):
    n = rng.choice([1, 3, 8, 20, 45, 90, 300])
    return bytes(rng.choice(HOSTILE_ALPHA) for _ in range(n))


def gen_hostile_record(rng):
    r = rng.random()
    if r < 0.5:
        f = gen_hostile_fmt(rng).replace(b"\a", b"")
        data = bytes(rng.choice([0, 0, 1, 2, 0x25, 0x41, 0x73, 0xff, rng.randrange(256)]) for _ in range(rng.choice([0, 1, 3, 4, 7, 8, 9, 16, 40])))
        return f.split(b"\0")[0] + (b"\0" if rng.random() < 0.9 else b"") + data
    if r < 0.7:
        return bytes(rng.randrange(256) for _ in range(rng.choice([0, 1, 2, 5, 30, 200])))
    if r < 0.85:
        # long literal text / huge widths: output longer than the caller's buffer
        return rng.choice([b"x" * rng.choice([5, 63, 64, 65, 600]) + b"%d", b"%300d%300d%d", b"%*d%s", b"%0600u-%c",
                           b"ab%%cd%%%%", b"%" + b"0" * rng.randint(10, 30) + b"d", b"%" + b"*" * rng.randint(1, 6) + b"d"]) \
            + b"\0" + bytes(rng.randrange(256) for _ in range(rng.choice([0, 4, 12, 30])))
    # a well-formed record cut short
    return b"a=%d b=%s c=%lld\0" + (b"\x05\0\0\0hello\0\x01\x02\x03\x04\x05\x06\x07\x08")[:rng.randint(0, 18)]


def garbage(rng):
    return rng.choice(["5a", "00", "ff", "2500", "0041", "25", "7300ff", "a5"])


def corpus():
    """Witnesses of the defects found (each is a _refuted example in coq/Properties_C14.v) and hand-made boundaries."""
    cs = []

    def rt(fmt, args, max_len=512, n=512, g="5a", **kw):
        m = {"kind": "roundtrip", "supported": True, "negprec": False, "nullprec": False, "maxdlen": 0,
             "need": 0, "fmt": fmt, "args": args, "max_len": max_len, "n": n, "garbage": g, "fits_record": True}
        m.update(kw)
        cs.append(m)
    rt("%.3d %s", ["i7", "s" + hx("abcdefgh")])
    rt("100%% done", [], g="5a")
    rt("100%% done", [], g="00")
    rt("%% %d", ["i5"])
    rt("a%cb%dc", ["i0", "i5"])
    rt("%s%s%s", ["s" + hx("abcdefghijklmnopqrstuvwxyz"), "s" + hx("hello"), "s" + hx("world")], max_len=20, n=64,
       fits_record=False)
    rt("%.18446744073709551615s|%s", ["s" + hx("x" * 40), "s" + hx("y" * 40)], max_len=40, n=64, fits_record=False,
       maxdlen=24)
    rt(":%*d:", ["i8", "i96"])
    rt("%.*d|", ["i-1", "i5"], negprec=True)
    rt("%0000000000000000000000005d", ["i7"], maxdlen=27)
    rt("%*.*lld", ["i-100000", "i100000", "q5"], n=8, maxdlen=19)
    rt("%-+#0 '*.*lld", ["i-100000", "i100000", "q5"], maxdlen=25)
    rt("%300d%300d%d", ["i1", "i2", "i3"], n=512)
    rt("x" * 100 + "%d", ["i1"], n=64)
    rt("Client %s.%.9s wants to fence (%s) '%s' with device '%s'",
       ["s" + hx("bla"), "s" + hx("foooooooooooooooooo"), "s" + hx("action-longer-than-nine"), "s" + hx("target"),
        "s" + hx("hoop")])
    rt("%s", ["sN"])
    rt("%-+#0 '12.5lld|%zx|%ju|%ti", ["q-123456789012", "q0xffffffffffffffff", "q7", "q-7"], maxdlen=16)
    for m in cs:
        m["need"] = m["need"] or 10 ** 6 if not m["fits_record"] else 0
    return cs


def script_of(m):
    fmt = m["fmt"]
    fb = fmt.encode("latin1") if isinstance(fmt, str) else fmt
    lines = ["S %d %s %s" % (m["max_len"], hx(fb), " ".join(m["args"]))]
    # the classic entry point has no record length: only a complete record may be handed to it
    dcmd = m.get("dcmd", "D") if m["need"] <= m["max_len"] and m["kind"] == "roundtrip" else "N"
    lines.append("%s %d %s" % (dcmd, m["n"], m["garbage"]))
    if m["kind"] == "roundtrip" and m["supported"]:
        # (the reference call would be undefined behaviour for a directive the serializer does not know)
        sf = xc_subst(fmt)
        lines.append("V %s %s" % (hx(sf.encode("latin1")), " ".join(m["args"])))
    return [l.rstrip() for l in lines]


# ------------------------------------------------------------------ monitor (independent of the model)
def monitor(m, lines):
    """Executable statement of C14 over the implementation log of one case.
    -> (None | message, finding id | None)"""
    ser = des = ref = None
    for l in lines:
        p = l.split(" ")
        if p[0] == "ser":
            ser = (int(p[1]), L.unhx(p[2]))
        elif p[0] == "des":
            des = (int(p[1]), L.unhx(p[2]))
        elif p[0] == "ref":
            ref = (int(p[1]), L.unhx(p[2]))
        elif p[0] == "note":
            return "harness: " + l, None
    if m["kind"] in ("roundtrip", "serbounds"):
        if ser is None:
            return "no result of qb_vsnprintf_serialize in the log", None
        if ser[0] > m["max_len"]:
            return "qb_vsnprintf_serialize returned %d for a record buffer of %d bytes" % (ser[0], m["max_len"]), None
    if des is None:
        return "no result of qb_vsnprintf_deserialize in the log", None
    ret, out = des
    n = m["n"]
    if not (1 <= ret <= n):
        return "qb_vsnprintf_deserialize returned %d for a buffer of %d bytes" % (ret, n), None
    if out[ret - 1] != 0:
        return "decoded text is not NUL-terminated at index ret-1 = %d (buffer of %d bytes)" % (ret - 1, n), None
    if m["kind"] != "roundtrip" or not m["supported"] or m["nullprec"]:
        return None, None
    if ref is None or ref[0] < 0:
        return None, None
    fits = m["need"] <= m["max_len"] and ref[0] < n
    if not fits:
        return None, None
    if ret - 1 == ref[0] and out[:ret - 1] == ref[1]:
        return None, None
    what = "format %r args %s: decoded %r but vsnprintf gives %r (record %d <= %d bytes, text %d < %d bytes)" % (
        m["fmt"], m["args"], out[:ret - 1][:80], ref[1][:80], m["need"], m["max_len"], ref[0], n)
    if m["maxdlen"] > MINI - 1:
        return what, F_MINIFMT
    if m["negprec"]:
        return what, F_NEGPREC
    return what, None


# ------------------------------------------------------------------ run
def build():
    lib = C.build_lib()
    exe = C.build_harness("h_ser", ["h_ser.c"], lib=lib, ldflags=LDFLAGS)
    model = C.build_model(ID)
    return exe, model


def judge(m, impl, mod):
    """-> (kind, what, detail, finding) or None"""
    lines, crash = impl
    if crash:
        return ("impl-monitor", "sanitizer report / crash in the implementation (rc=%s): %s" % (
            crash[0], " ".join(x for x in crash[1].split("\n") if "ERROR" in x or "runtime error" in x)[:300]),
            crash[1][-1500:], None)
    msg, finding = monitor(m, lines)
    ilines = [l for l in lines if l.split(" ")[0] in ("ser", "des")]
    mlines = [l for l in mod[0] if l.split(" ")[0] in ("ser", "des", "oob", "oracle-miss")]
    d = C.first_diff(ilines, mlines)
    # the model's own printf_spec against the process's vsnprintf (when the model could compute it)
    iref = [l for l in lines if l.startswith("ref ")]
    mref = [l for l in mod[0] if l.startswith("ref ")]
    specdiff = None
    if m["kind"] == "roundtrip" and m["supported"] and not m["nullprec"] and not m["negprec"] and iref and mref \
            and mref[0] != "ref ?" and iref[0] != mref[0]:
        specdiff = (iref[0][:200], mref[0][:200])
    # the theorem's own hypothesis (extracted wf_go / ser_data): covered format, record fits, text fits => text equal
    wf = [l for l in mod[0] if l.startswith("wf ")]
    des = [l for l in lines if l.startswith("des ")]
    if not msg and m["kind"] == "roundtrip" and wf and iref and des and not m["negprec"] and not m["nullprec"] \
            and "\a" not in m["fmt"]:
        covered, need = int(wf[0].split()[1]), int(wf[0].split()[2])
        rl, rt = int(iref[0].split(" ")[1]), L.unhx(iref[0].split(" ")[2])
        ret, out = int(des[0].split(" ")[1]), L.unhx(des[0].split(" ")[2])
        if covered and need <= m["max_len"] and 0 <= rl < m["n"] and (ret - 1 != rl or out[:ret - 1] != rt):
            msg = "format %r is covered by wf_go, record %d <= %d and text %d < %d fit, but decoded %r != vsnprintf %r" % (
                m["fmt"], need, m["max_len"], rl, m["n"], out[:ret - 1][:60], rt[:60])
        if covered and m["supported"] and m["need"] not in (0, 10 ** 6) and need != m["need"]:
            return ("correspondence", "record size by ser_data (%d) differs from the generator's (%d) for %r" % (
                need, m["need"], m["fmt"]), {}, None)
    if msg:
        return ("impl-monitor", msg, {"first_model_difference": d}, finding)
    if mod[1]:
        return ("correspondence", "model runner failed", str(mod[1])[-800:], None)
    if d:
        return ("correspondence", "observable %d differs: impl %r model %r" % (d[0], d[1][:160], d[2][:160]),
                {"first_difference": d}, None)
    if specdiff:
        return ("correspondence", "printf_spec of the model differs from vsnprintf: impl %r model %r" % specdiff,
                {"spec": specdiff}, None)
    return None


def gen_cases(rng, thorough, exe):
    metas = corpus()
    nrt = 2600 if thorough else 420
    for i in range(nrt):
        metas.append(gen_roundtrip(rng, wild=(i % 9 == 8)))
    # pass 1: reference lengths, to place the buffer sizes on the boundaries
    pre = [[("V %s %s" % (hx(xc_subst(m["fmt"]).encode("latin1")), " ".join(m["args"]))).rstrip()] if m["supported"]
           else [] for m in metas]
    refs = C.run_cases(exe, ["\n".join(c) + "\n" for c in pre], timeout=600, env=ENV)
    for m, r in zip(metas, refs):
        if "max_len" in m:
            continue
        rl = 0
        for l in r[0]:
            if l.startswith("ref "):
                rl = max(0, int(l.split(" ")[1]))
        q = rng.random()
        if q < 0.45:
            m["max_len"] = 512
        elif q < 0.85:
            m["max_len"] = min(6000, max(1, m["need"] + rng.choice([-9, -8, -5, -4, -2, -1, 0, 0, 1, 2, 4, 8])))
        else:
            m["max_len"] = rng.choice([1, 2, 3, 8, 64, 4096])
        q = rng.random()
        if q < 0.4:
            m["n"] = 512
        elif q < 0.85:
            m["n"] = min(6000, max(1, rl + rng.choice([-8, -3, -2, -1, 0, 1, 1, 2, 3, 9])))
        else:
            m["n"] = rng.choice([1, 2, 3, 4, 16, 64, 4096])
        m["garbage"] = garbage(rng)
        m["dcmd"] = rng.choice(["D", "N"])
    nh = 1500 if thorough else 260
    for i in range(nh):
        f = gen_hostile_fmt(rng)
        m = {"kind": "serbounds", "fmt": f, "args": scan_args(f, rng), "supported": False, "negprec": False,
             "nullprec": False, "maxdlen": 0, "need": 0,
             "max_len": rng.choice([1, 2, 5, 8, 16, 33, 64, 512]), "n": rng.choice([1, 2, 7, 16, 64, 512]),
             "garbage": garbage(rng), "dcmd": "N"}
        metas.append(m)
    for i in range(nh):
        rec = gen_hostile_record(rng)
        metas.append({"kind": "hostile", "record": rec, "n": rng.choice([1, 2, 3, 8, 16, 64, 512]),
                      "garbage": garbage(rng), "supported": False, "negprec": False, "nullprec": False, "maxdlen": 0,
                      "need": 0})
    cases = []
    for m in metas:
        if m["kind"] == "hostile":
            cases.append(["R %s" % hx(m["record"]), "N %d %s" % (m["n"], m["garbage"])])
        else:
            cases.append(script_of(m))
    return metas, cases


def run(ctx):
    res = C.Result()
    exe, model = build()
    rng = ctx.rng
    thorough = ctx.tier == "thorough" or not ctx.proof_ok
    consts = open(C.COQ + "/gen/Consts_logfmt.v").read()
    if "LF_MINI_FORMAT_STR_LEN : Z := (%d)" % MINI not in consts:
        res.violation("correspondence", "MINI_FORMAT_STR_LEN is no longer %d: the finding guard of the plugin is stale" % MINI, {})
    metas, cases = gen_cases(rng, thorough, exe)
    impl, mod = L.run_both(cases, exe, model, env=ENV)
    kinds = {}
    stats = {"record_fits": 0, "text_fits": 0, "compared_with_vsnprintf": 0, "unsupported_directive": 0,
             "decoder_truncated": 0, "bounded_entry_point": 0, "missing_deserialize_n": 0}
    for ci, (m, case) in enumerate(zip(metas, cases)):
        kinds[m["kind"]] = kinds.get(m["kind"], 0) + 1
        lines = impl[ci][0]
        if any(l == "nodesn" for l in lines):
            stats["missing_deserialize_n"] += 1
        if m["kind"] == "roundtrip":
            if not m["supported"]:
                stats["unsupported_directive"] += 1
            if m["need"] <= m["max_len"]:
                stats["record_fits"] += 1
        if case[-1].startswith("N") or (len(case) > 1 and case[1].startswith("N")):
            stats["bounded_entry_point"] += 1
        for l in lines:
            if l.startswith("des ") and int(l.split(" ")[1]) == m["n"]:
                stats["decoder_truncated"] += 1
        res.add_case(tuple(case), len(lines) >= 2)
        v = judge(m, impl[ci], mod[ci])
        if v is None:
            res.traces_validated += 1
            if m["kind"] == "roundtrip" and m["supported"]:
                stats["compared_with_vsnprintf"] += 1
            continue
        kind, what, detail, finding = v
        if finding:
            res.known_hits[finding] = res.known_hits.get(finding, 0) + 1
            # a known finding must still behave like the model says
            d = C.first_diff([l for l in lines if l.split(" ")[0] in ("ser", "des")],
                             [l for l in mod[ci][0] if l.split(" ")[0] in ("ser", "des", "oob", "oracle-miss")])
            if d:
                res.violation("correspondence", "on a known-finding input, observable %d differs: impl %r model %r" % (
                    d[0], d[1][:160], d[2][:160]), {"script": case})
            continue
        res.violation(kind, what, {"script": case, "meta": {k: (v2 if not isinstance(v2, bytes) else v2.hex())
                                                             for k, v2 in m.items()},
                                   "impl_out": lines[-6:], "model_out": mod[ci][0][-6:], "detail": detail,
                                   "replay_cmd": "./check C14 --replay <this file>"})
        if len(res.violations) >= 8:
            break
    if stats["missing_deserialize_n"]:
        res.violation("impl-monitor", "the tree has no qb_vsnprintf_deserialize_n: the decoder cannot be told where the "
                      "record ends, so its reads are unbounded on damaged records (fixes/C14-4-deserialize-bounds.patch)",
                      {"script": ["R %s" % hx(b"%s"), "N 8 5a"]})
    res.rule = ("one serialize / deserialize / vsnprintf triple per case: grammar-driven formats (1-6 directives, all "
                "conversions x flags x width {none, digits, *} x precision {none, ., digits, *} x length modifiers, "
                "extreme integers, special doubles, empty/long/NULL/'%'-containing strings, QB_XC), record and text "
                "buffer sizes placed around the exact need; arbitrary-byte formats with type-correct arguments; "
                "arbitrary-byte records through the bounded entry point; a case is non-trivial when both calls "
                "returned; distinct = distinct scripts")
    res.samples = [{"script": c} for c in cases[:2] + cases[len(corpus()):len(corpus()) + 3]]
    res.extra = {"case_kinds": kinds, "stats": stats,
                 "monitor": "props/C14.py: monitor (return ranges, NUL, decoded text == vsnprintf of the same process "
                            "when record and text fit); ASan/UBSan with exact-size heap buffers for every byte "
                            "outside the buffers",
                 "presupposes_fixes": ["fixes/C14-1-serialize-directive-state.patch", "fixes/C14-2-serialize-string-room.patch",
                                       "fixes/C14-3-serialize-xc-last.patch", "fixes/C14-4-deserialize-bounds.patch"]}
    res.assumptions = ["libc's rendering of one conversion (snprintf with a one-directive format) is an oracle recorded "
                       "from the implementation run; contract used by the bounds theorems: at most n bytes are written",
                       "va_arg with a mismatching type is undefined in C: the round-trip theorem assumes the arguments "
                       "match the format (args_match); the bounds theorems do not",
                       "x86-64 SysV: the harness builds va_list values by hand (self-tested at start-up)",
                       "%s of a NULL pointer is taken to print (null) (glibc; with a precision < 6 glibc prints "
                       "nothing - such cases are excluded from the text comparison)"]
    return res


def replay(ctx, payload):
    exe, model = build()
    case = payload["script"]
    impl, mod = L.run_both([case], exe, model, env=ENV)
    print("impl :", impl[0])
    print("model:", mod[0][0])
    m = payload.get("meta")
    bad = impl[0][1] is not None
    if m and not bad:
        if isinstance(m.get("fmt"), str) and m.get("kind") == "serbounds":
            m["fmt"] = bytes.fromhex(m["fmt"])
        j = judge(m, impl[0], mod[0])
        bad = j is not None and not j[3]
    if bad:
        print("VIOLATION property=%s replay=%s" % (ID, "<replayed>"))
        return 1
    print("replay: property holds on this script now")
    return 0
