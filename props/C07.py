"""C07 - ring buffer capacity contract and loss-free sequential FIFO (lib/ringbuffer.c).
See DESIGN.md section 5.0 / C07.

Stages: generated scripts -> real ringbuffer.c under ASan (harness/h_rb.c, public API only) and the
extracted Gallina model (coq/RbModel.v) on the same script -> line diff; plus an independent Python
monitor (a reference deque) that states the property over the implementation's log."""
from vlib import common as C
from vlib import rb as R

ID = "C07"


def prebuild():
    R.build()


# ------------------------------------------------------------------ monitor (independent of the model)
def monitor(script, lines):
    """Executable statement of C07 over the implementation log.  None or a message.
    Reference: a deque of the successfully written chunks; in semaphore mode additionally the
    number of notifications not yet consumed (`tok'), because the API hands a chunk to a
    reader only together with a notification."""
    ops, used = R.parse_ops(script, lines)
    if used != len(lines):
        return "unexpected extra output line %r" % lines[used]
    q = []
    S = None
    sem_mode = False
    tok = 0
    last_q = None
    for op, r, ql in ops:
        c = op[0]
        if c == "O":
            parts = op.split()
            S = int(parts[1])
            sem_mode = "n" not in parts[2]
            q, tok = [], 0
            if r is None or r.strip() != "o 1":
                return "open of a ring of size %d failed" % S
            if ql is None:
                return "no query line after open"
            f, u, ch = [int(x) for x in ql.split()[1:4]]
            if f < S + R.MARGIN + 1:
                return "fresh ring for S=%d reports only %d bytes free" % (S, f)
            last_q = ql
            continue
        if S is None:
            continue
        if c in "WARPX" and r is None:
            return "no result line for %r" % op[:40]
        if c in "WA":
            parts = op.split()
            if c == "W":
                body = bytes.fromhex(parts[1]) if parts[1] != "-" else b""
                rlen = len(body)
                okval = len(body)
            else:
                rlen = int(parts[1])
                body = bytes.fromhex(parts[2]) if parts[2] != "-" else b""
                okval = 0
            ret = int(r.split()[1])
            fits = R.cost(q) + rlen + R.OVERHEAD <= S
            if ret == okval and not (c == "W" and ret < 0):
                q.append(body)
                tok += 1
            elif ret == -R.EAGAIN:
                if not q and rlen <= S:
                    return "empty ring of size %d refused a chunk of %d bytes" % (S, rlen)
                if fits:
                    return ("write of %d bytes refused although the %d unread chunk(s) plus the new one fit in S=%d "
                            "(sum of len+16 = %d)" % (rlen, len(q), S, R.cost(q) + rlen + R.OVERHEAD))
                if ql != last_q:
                    return "refused write changed the ring: before %r after %r" % (last_q, ql)
            else:
                return "write/commit returned %d (neither success nor -EAGAIN)" % ret
        elif c == "R":
            n = int(op.split()[1])
            rp = r.split()
            ret = int(rp[1])
            body = bytes.fromhex(rp[2]) if len(rp) > 2 and rp[2] != "-" else b""
            if "CLOBBER" in r:
                return "read modified the caller's buffer beyond the %d bytes it reported" % max(ret, 0)
            if sem_mode and tok <= 0:
                if ret >= 0:
                    return "read returned %d without a pending notification" % ret
            elif not q:
                if ret >= 0:
                    return "read on an empty ring returned a chunk of %d bytes that was never written" % ret
                if ql != last_q:
                    return "failed read on an empty ring changed the ring: before %r after %r" % (last_q, ql)
            elif n < len(q[0]):
                if ret != -R.ENOBUFS:
                    return "read with a %d-byte buffer of a %d-byte chunk returned %d, expected -ENOBUFS" % (n, len(q[0]), ret)
                if ql != last_q:
                    return "-ENOBUFS read changed the ring: before %r after %r" % (last_q, ql)
            else:
                if ret != len(q[0]) or body != q[0]:
                    return ("read returned %d bytes %s..., expected the oldest unread chunk: %d bytes %s..." %
                            (ret, body[:12].hex(), len(q[0]), q[0][:12].hex()))
                q.pop(0)
                tok -= 1
        elif c == "P":
            rp = r.split()
            ret = int(rp[1])
            body = bytes.fromhex(rp[2]) if len(rp) > 2 and rp[2] != "-" else b""
            if sem_mode and tok <= 0:
                if ret != 0:
                    return "peek returned %d without a pending notification" % ret
            elif not q:
                if ret > 0:
                    return "peek on an empty ring returned a chunk of %d bytes that was never written" % ret
            else:
                if ret != len(q[0]) or body != q[0]:
                    return ("peek returned %d bytes %s..., expected the oldest unread chunk: %d bytes %s..." %
                            (ret, body[:12].hex(), len(q[0]), q[0][:12].hex()))
                tok -= 1
        elif c == "X":
            if q:
                q.pop(0)
            elif ql != last_q:
                return "reclaim on an empty ring changed it: before %r after %r" % (last_q, ql)
        if ql is not None:
            f, u, ch = [int(x) for x in ql.split()[1:4]]
            if sem_mode and ch != tok:
                return "chunks_used reports %d, expected %d pending notifications" % (ch, tok)
            if f < 0 or u < 0:
                return "negative space_free/space_used: %r" % ql
            last_q = ql
    return None


# ------------------------------------------------------------------ corpus
def corpus():
    alt = (b"\x08\x00\x00\x00" + R.MAGIC.to_bytes(4, "little")) * 375          # 3000 B of words 8, MAGIC, 8, MAGIC ...
    c = []
    # the design-round finding: stale payload equal to the chunk marker on an empty NO_SEMAPHORE ring
    c.append(["O 100 n", "W " + alt.hex(), "R 70000", "W " + (b"\x07" * 1096).hex(), "R 70000"] + ["R 70000"] * 8 +
             ["P", "X", "P", "D"])
    # same shape, then the writer continues: phantom reclaims must not move read_pt
    c.append(["O 100 n", "W " + alt.hex(), "R 70000", "W " + (b"\x07" * 1096).hex(), "R 70000", "X", "X", "P",
              "W 0102030405", "R 70000", "R 70000", "D"])
    # semaphore mode: reclaim without a read leaves the count above the number of chunks; an empty ring must still accept
    c.append(["O 100 -", "W 01020304", "X", "W 05060708", "R 64", "R 64", "W 09", "P", "X", "R 64", "D"])
    # capacity boundaries of a one-page ring: S = 4083 is the largest size that fits one page
    c.append(["O 4083 n", "W " + "ab" * 4083, "R 70000", "W " + "cd" * 4084, "W " + "ef" * 4085, "W " + "01" * 4083, "W -",
              "R 4082", "R 4083", "R 0", "D"])
    c.append(["O 4084 n", "W " + "ab" * 4084, "R 70000", "W " + "cd" * 8180, "W " + "ce" * 8181, "R 70000", "D"])
    # zero-length chunks, lengths not divisible by 4, ENOBUFS leaves the chunk in place
    c.append(["O 200 -", "W -", "W 01", "W 0102", "W 010203", "W 0102030405", "P", "X", "R 0", "R 1", "R 1", "R 2", "R 3", "R 4",
              "R 5", "R 5", "D"])
    # fill to refusal with 16-byte-overhead accounting, refused write is pure, drain in order
    fill = ["O 1000 n"] + ["W " + ("%02x" % i) * 84 for i in range(12)] + ["D"] + ["R 70000"] * 13 + ["D"]
    c.append(fill)
    # alloc more than committed (blackbox pattern)
    c.append(["O 2000 -", "A 600 " + "11" * 40, "A 600 " + "22" * 41, "A 600 " + "33" * 599, "A 600 -", "R 70000", "P", "X",
              "A 1900 " + "44" * 10, "A 2000 55", "R 70000", "R 70000", "R 70000", "R 70000", "D"])
    # wrap-around with marker-valued payload at the seam
    seam = []
    for k in range(6):
        seam += ["W " + (R.MAGIC.to_bytes(4, "little") * 255).hex(), "W " + (R.DEAD.to_bytes(4, "little") * 254 + b"\xa1").hex(),
                 "R 70000", "R 70000", "R 70000"]
    c.append(["O 3000 n"] + seam + ["D"])
    return c


# ------------------------------------------------------------------ run
def run(ctx):
    res = C.Result()
    exe = R.build()
    model = C.build_model(ID)
    rng = ctx.rng
    thorough = ctx.tier == "thorough" or not ctx.proof_ok
    ncases = 2500 if thorough else 260
    cases = corpus()
    kinds = {"corpus": len(cases), "random_disciplined": 0, "random_any_order": 0, "long": 0}
    for i in range(ncases):
        disciplined = (i % 4 != 3)
        if i % 40 == 39:
            nops = 400
            kinds["long"] += 1
        else:
            nops = rng.choice([6, 12, 25, 50, 90])
        cases.append(R.gen_case(rng, False, nops, seqbase=i * 1000, disciplined=disciplined))
        kinds["random_disciplined" if disciplined else "random_any_order"] += 1
    impl, mod = R.execute(cases, exe, model)
    R.cleanup_shm()
    stats = {"ops": 0, "writes_ok": 0, "writes_refused": 0, "reads_ok": 0, "reads_enobufs": 0, "reads_empty": 0,
             "peeks": 0, "reclaims": 0, "dumps": 0, "sem_mode_cases": 0, "nosem_cases": 0}
    sizes = {}
    for ci, case in enumerate(cases):
        lines = impl[ci][0]
        w_ok = r_ok = 0
        ops, _ = R.parse_ops(case, lines)
        for op, r, ql in ops:
            stats["ops"] += 1
            c = op[0]
            if c == "O":
                S = int(op.split()[1])
                b = "S<=100" if S <= 100 else "S<=4083" if S <= 4083 else "S<=8179" if S <= 8179 else "S>8179"
                sizes[b] = sizes.get(b, 0) + 1
                stats["nosem_cases" if "n" in op.split()[2] else "sem_mode_cases"] += 1
            if r is None:
                continue
            if c in "WA":
                ret = int(r.split()[1])
                if ret >= 0:
                    stats["writes_ok"] += 1
                    w_ok += 1
                else:
                    stats["writes_refused"] += 1
            elif c == "R":
                ret = int(r.split()[1])
                if ret >= 0:
                    stats["reads_ok"] += 1
                    r_ok += 1
                elif ret == -R.ENOBUFS:
                    stats["reads_enobufs"] += 1
                else:
                    stats["reads_empty"] += 1
            elif c == "P":
                stats["peeks"] += 1
            elif c == "X":
                stats["reclaims"] += 1
            elif c == "D":
                stats["dumps"] += 1
        res.add_case(tuple(case), w_ok >= 2 and r_ok >= 1)
        v = R.judge(case, impl[ci], mod[ci], monitor)
        if v is None:
            res.traces_validated += 1
            continue
        kind, what, detail = v

        def fails(sub, kind=kind):
            if not sub or not sub[0].startswith("O "):
                return False
            im, mo = R.execute([sub], exe, model)
            j = R.judge(sub, im[0], mo[0], monitor)
            return j is not None and j[0] == kind
        small = C.shrink_list(case, fails, budget=80) if len(res.violations) < 3 else case
        im, mo = R.execute([small], exe, model)
        j = R.judge(small, im[0], mo[0], monitor) or v
        res.violation(j[0], j[1], {"script": small, "shrunk_from_ops": len(case), "impl_out": [l[:300] for l in im[0][0]],
                                   "model_out": [l[:300] for l in mo[0][0]], "detail": j[2],
                                   "replay_cmd": "./check C07 --replay <this file>"})
        if len(res.violations) >= 8:
            break
    R.cleanup_shm()
    res.rule = ("scripts over open(S, sem|nosem) / write / alloc+commit(reserve >= commit) / read(n) / peek / reclaim / "
                "dump-to-file on a non-overwriting ring; S from the page-boundary set {.., 4083, 4084, 4085, 8179, 8180, "
                "8181, ..} and random; chunk lengths aimed at the admission boundary (free-12-{0..8}, free-12+{1..5}), at S, "
                "at the wrap point, and 0..16; payload words from {0, MAGIC, DEAD, ALLOC, small ints, random}; read buffer "
                "sizes at len, len-1, 0, large; 3/4 of the random cases pair every peek with a reclaim, 1/4 use any order "
                "(naked reclaims, repeated peeks); a case is non-trivial when >= 2 writes and >= 1 read succeed; "
                "distinct = distinct scripts")
    res.samples = [{"script": [l[:120] for l in c[:12]]} for c in cases[:2] + cases[len(corpus()):len(corpus()) + 2]]
    res.extra = {"case_kinds": kinds, "operation_outcomes": stats, "requested_size_classes": sizes,
                 "monitor": "independent Python reference deque stating C07 over the implementation log (props/C07.py: monitor)",
                 "presupposes_fixes": ["fixes/C07-empty-ring-marker.patch", "fixes/C11-overwrite-sem-stuck.patch"]}
    res.assumptions = ["chunk lengths < 2^32 and notifier count < SEM_VALUE_MAX (not modelled beyond)",
                       "reads and peeks use ms_timeout = 0 (sem_trywait); blocking waits are covered by C01",
                       "single-threaded use of one handle (concurrent reader/writer is C01)",
                       "the double mapping of qb_sys_circular_mmap is modelled as byte address mod 4*word_size; "
                       "confirmed on every run by the dump-file comparison"]
    return res


def replay(ctx, payload):
    exe = R.build()
    model = C.build_model(ID)
    case = payload["script"]
    im, mo = R.execute([case], exe, model)
    R.cleanup_shm()
    j = R.judge(case, im[0], mo[0], monitor)
    print("impl :", [l[:200] for l in im[0][0]])
    print("model:", [l[:200] for l in mo[0][0]])
    if j:
        print("VIOLATION property=%s replay=%s" % (ID, "<replayed>"))
        print("DETAIL: %s: %s" % (j[0], j[1]))
        return 1
    print("replay: property holds on this script now")
    return 0
