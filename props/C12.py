"""C12 - log routing (lib/log.c, lib/log_dcs.c).  See DESIGN.md section 5.2 / C12.

Stages: generated scripts -> real library under ASan (harness/h_log.c: custom targets record
(target, call site, tags, text)) -> concrete call log -> extracted Gallina model (coq/LogRouteModel.v)
on the same calls -> line diff; plus an independent Python monitor that states the property itself
(routing is a function of the *configuration* at the time of the call: enabled targets x stored
filters, no call-site state) over the implementation's log; plus a cross-check that the Coq
specification (`route`/`tag_of`, printed by the model runner) and the Python monitor agree.

The model carries one boolean per proposed repair (fixes/C12-*.patch).  Which code the tree under test
contains is determined by running the four witness scripts first; the model then runs as that variant.
A witness that still fails is a genuine defect: it is reported as a violation with the witness as replay,
unless known_findings.json lists it, in which case histories outside its guard are counted as
KNOWN-FINDING (the guards are evaluated by the monitor on every history)."""
import os
from vlib import common as C

ID = "C12"

ADD, REMOVE, CLEAR_ALL, TAG_SET, TAG_CLEAR, TAG_CLEAR_ALL = range(6)
T_FILE, T_FUNCTION, T_FORMAT, T_FILE_RE, T_FUNCTION_RE, T_FORMAT_RE = range(6)
NTARGETS = 32
TOKEN_MAX = 498
ARRAY_MAX = 65536

# finding letter -> (known-finding id, guard name, which model flag)
FINDINGS = {
    "A": ("C12-replay-disabled", "G_log_enabled_first"),
    "B": ("C12-remove-overlap", "G_log_no_overlap_remove"),
    "C": ("C12-callsite-function", "G_log_sites_distinct_by_key"),
    "D": ("C12-close-keeps-filters", "G_log_close_without_filters"),
    "L": ("C12-lineno-range", "G_log_lineno_range"),
}
FLAG_ORDER = "ABCD"      # LOGRF_VARIANT character positions: replay_all, reapply, fnkey, close_clears


def hx(s):
    if s is None:
        return "N"
    return "x" + s.encode("latin-1").hex()


def unhx(h):
    if h == "N":
        return None
    return bytes.fromhex(h[1:]).decode("latin-1")


def harness():
    lib = C.build_lib()
    return C.build_harness("h_log", ["h_log.c"], lib=lib, ldflags=["-Wl,--wrap=syslog"])


def prebuild():
    harness()


# ------------------------------------------------------------------ script vocabulary
FNS = ["f", "g", "main"]
FILES = ["a.c", "b.c", "dir/a.c", ""]
FMTS = ["a", "ab", "a,b", "*", "b", "ba"]
PRIOS = [0, 3, 6, 7, 8]
LINES = [10, 11, 12]
TEXTS = {
    T_FILE: ["*", "a.c", "b.c", "a.c,b.c", "dir/a.c", ",a.c", "a.c,", "", "a", "b.c,x,a.c"],
    T_FUNCTION: ["*", "f", "g", "f,g", "main", "", ",f", "g,"],
    T_FORMAT: ["*", "a", "b", "ab", "a,b", "", "ba", ","],
    T_FILE_RE: ["*", "^a", "a.*c", "c$", "[", "\\(", "^$"],
    T_FUNCTION_RE: ["*", "^f", "f\\|g", "n$", "[", "."],
    T_FORMAT_RE: ["*", "^a", "b$", "a.*b", "\\(", "^.$"],
}
WINDOWS = [(0, 7), (0, 7), (0, 6), (0, 8), (3, 6), (6, 6), (0, 0), (0, 255), (7, 8), (4, 3)]
STATIC_SITES = [  # must match st_tab in harness/h_log.c
    ("st_alpha", "vstatic.c", "alpha info", 6, 1004, 0), ("st_alpha", "vstatic.c", "alpha error", 3, 1005, 0),
    ("st_alpha", "vstatic.c", "ab", 7, 1006, 0), ("st_alpha", "vstatic.c", "tagged five", 5, 1007, 5),
    ("st_beta", "vstatic.c", "alpha info", 6, 2004, 0), ("st_beta", "vstatic.c", "a,b", 8, 2005, 0),
    ("st_beta", "vstatic.c", "a", 4, 2006, 0), ("st_beta", "vstatic.c", "a", 4, 2006, 0),
]


def L(fn, file, fmt, prio, line, tags=0, mode=0):
    return "L %s %s %s %d %d %d %d" % (hx(fn), hx(file), hx(fmt), prio, line, tags, mode)


def F(t, c, ty, text, hi, lo):
    return "F %d %d %d %s %d %d" % (t, c, ty, hx(text), hi, lo)


# the four witnesses: each tells which code the tree contains and is the replay of the defect when it fails
WITNESS = {
    "A": ["E 0 0", "O", F(4, ADD, T_FILE, "*", 0, 7), L("f", "a.c", "a", 6, 10), "E 4 1", L("f", "a.c", "a", 6, 10)],
    "B": ["E 0 0", "O", "E 4 1", F(4, ADD, T_FILE, "*", 0, 7), F(4, ADD, T_FORMAT, "a", 0, 7), L("f", "a.c", "a", 6, 10),
          F(4, REMOVE, T_FORMAT, "a", 0, 7), L("f", "a.c", "a", 6, 10)],
    "C": ["E 0 0", "O", "E 4 1", F(4, ADD, T_FUNCTION, "g", 0, 7), L("f", "a.c", "a", 6, 10), L("g", "a.c", "a", 6, 10)],
    "D": ["E 0 0", "O", F(4, ADD, T_FILE, "*", 0, 7), "X 4", "O", "E 4 1", L("f", "a.c", "a", 6, 10)],
}
WITNESS_L = ["E 0 0", "O", "E 4 1", L("f", "a.c", "a", 6, 0), F(4, ADD, T_FILE, "*", 0, 7), L("f", "a.c", "a", 6, 0)]
WITNESS_L2 = ["E 0 0", L("f", "a.c", "a", 6, 65536)]


def corpus(line_cases):
    cs = [WITNESS[k] for k in "ABCD"]
    cs += [
        # regex filter removed: known call sites must lose the target (second half of finding B)
        ["E 0 0", "O", "E 4 1", F(4, ADD, T_FILE_RE, "^a", 0, 7), L("f", "a.c", "a", 6, 10), F(4, REMOVE, T_FILE_RE, "^a", 0, 7),
         L("f", "a.c", "a", 6, 10), L("f", "a.c", "b", 6, 11)],
        # REMOVE that matches no stored filter must not change routing
        ["E 0 0", "O", "E 4 1", F(4, ADD, T_FORMAT, "a", 0, 7), L("f", "a.c", "ab", 6, 10), F(4, REMOVE, T_FILE, "a.c", 0, 7),
         L("f", "a.c", "ab", 6, 10), L("g", "a.c", "ab", 6, 11)],
        # REMOVE with "*" text removes the first stored filter of that type only
        ["E 0 0", "O", "E 4 1", F(4, ADD, T_FILE, "a.c", 0, 7), F(4, ADD, T_FILE, "b.c", 0, 7), L("f", "a.c", "a", 6, 10),
         L("f", "b.c", "a", 6, 10), F(4, REMOVE, T_FILE, "*", 0, 7), L("f", "a.c", "a", 6, 10), L("f", "b.c", "a", 6, 10)],
        # tag rules: last stored matching rule wins, before and after first use; TAG_CLEAR of the later one
        ["E 0 0", "O", "E 4 1", F(4, ADD, T_FILE, "*", 0, 7), F(7, TAG_SET, T_FILE, "*", 0, 7), F(9, TAG_SET, T_FILE, "a.c", 0, 7),
         L("f", "a.c", "a", 6, 10), L("f", "b.c", "a", 6, 10), F(9, TAG_CLEAR, T_FILE, "a.c", 0, 7), L("f", "a.c", "a", 6, 10),
         L("f", "a.c", "b", 6, 11), F(0, TAG_CLEAR_ALL, T_FILE, "", 0, 7), L("f", "a.c", "a", 6, 10)],
        # explicit tags are sticky (test_zero_tags) and override tag rules
        ["E 0 0", "O", "E 4 1", F(4, ADD, T_FILE, "*", 0, 8), F(7, TAG_SET, T_FILE, "*", 0, 7), L("f", "a.c", "a", 6, 10, 2),
         L("f", "a.c", "a", 6, 10, 0), L("f", "a.c", "a", 6, 10, 3), "Q 3", "Q 3"],
        # priority window edges, LOG_TRACE, window with hi > lo rejected
        ["E 0 0", "O", "E 4 1", F(4, ADD, T_FILE, "a.c", 3, 6), F(4, ADD, T_FILE, "*", 4, 3)] +
        [L("f", "a.c", "a", p, 10) for p in (2, 3, 6, 7, 8, 255)],
        # comma alternatives: leading empty alternative, trailing comma, exactness (no substring for FILE/FUNCTION)
        ["E 0 0", "O", "E 4 1", F(4, ADD, T_FILE, ",a.c", 0, 7), L("f", "", "a", 6, 10), L("f", "a.c", "a", 6, 10),
         L("f", "dir/a.c", "a", 6, 10), F(4, CLEAR_ALL, T_FILE, "x", 0, 7), F(4, ADD, T_FILE, "a.c,", 0, 7), L("f", "", "a", 6, 10),
         L("f", "a.c", "a", 6, 10), F(4, CLEAR_ALL, T_FILE, "x", 0, 7), F(4, ADD, T_FUNCTION, "f,g", 0, 7), L("f", "b.c", "b", 6, 11),
         L("g", "b.c", "b", 6, 12), L("main", "b.c", "b", 6, 12)],
        # several targets, exactly-once, ascending order; disable one in between
        ["E 0 0", "O", "O", "O", "E 4 1", "E 5 1", "E 6 1", F(4, ADD, T_FILE, "*", 0, 7), F(5, ADD, T_FORMAT, "a", 0, 7),
         F(6, ADD, T_FILE, "*", 0, 7), F(6, ADD, T_FORMAT, "ab", 0, 7), L("f", "a.c", "ab", 6, 10), "E 5 0",
         L("f", "a.c", "ab", 6, 10), "E 5 1", L("f", "a.c", "ab", 6, 10, 0, 1)],
        # control API validation
        ["E 0 0", "O", F(-1, ADD, T_FILE, "*", 0, 7), F(32, ADD, T_FILE, "*", 0, 7), F(9, ADD, T_FILE, "*", 0, 7),
         "F 4 0 0 N 0 7", F(4, 6, T_FILE, "*", 0, 7), F(4, ADD, 6, "*", 0, 7), F(4, ADD, T_FILE, "*", 0, 7),
         F(4, ADD, T_FILE, "*", 0, 7), F(4, ADD, T_FILE_RE, "[", 0, 7), "E 9 1", "E -1 1", "E 32 0", "X 9", "X -1",
         F(9, TAG_SET, T_FILE, "*", 0, 7), F(9, TAG_SET, T_FILE, "*", 0, 7), "E 4 1", L("f", "a.c", "a", 6, 10)],
        # all dynamic slots: 28 opens succeed, the 29th gives -EMFILE
        ["E 0 0"] + ["O"] * 29 + ["E 31 1", F(31, ADD, T_FILE, "*", 0, 7), L("f", "a.c", "a", 6, 10), "X 31", L("f", "a.c", "a", 6, 10)],
        # static qb_log() statements, same text in two functions, two statements on one line
        ["E 0 0", "O", "E 4 1", F(4, ADD, T_FUNCTION, "st_beta", 0, 8)] + ["Q %d" % k for k in range(8)] +
        [F(4, ADD, T_FORMAT, "alpha", 0, 6)] + ["Q %d" % k for k in range(8)],
        # log before anything is configured; syslog still enabled at first
        [L("f", "a.c", "a", 8, 10), "E 0 0", "O", F(4, ADD, T_FILE, "*", 0, 8), "E 4 1", L("f", "a.c", "a", 8, 10)],
    ]
    if line_cases:
        cs += [WITNESS_L, WITNESS_L2, ["E 0 0", L("f", "a.c", "a", 6, 65535), L("f", "a.c", "a", 6, 4294967295)]]
    return cs


class Gen:
    def __init__(self, rng, line_cases):
        self.rng = rng
        self.line_cases = line_cases

    def site(self):
        r = self.rng
        line = r.choice(LINES)
        if self.line_cases and r.random() < 0.03:
            line = r.choice([0, 0, 65535, 65536, 70000, 2147483648])
        tags = 0 if r.random() < 0.85 else r.choice([3, 5, 1])
        return (r.choice(FNS), r.choice(FILES), r.choice(FMTS), r.choice(PRIOS), line, tags)

    def target(self, opened, loose=0.1):
        r = self.rng
        if opened and r.random() > loose:
            return r.choice(opened)
        return r.choice([0, 1, 3, 4, 5, 9, 31, -1, 32])

    def filt(self, opened, sites):
        r = self.rng
        x = r.random()
        c = ADD if x < 0.45 else REMOVE if x < 0.68 else CLEAR_ALL if x < 0.75 else TAG_SET if x < 0.87 else \
            TAG_CLEAR if x < 0.94 else TAG_CLEAR_ALL if x < 0.97 else r.choice([6, 7, -1])
        ty = r.choice([T_FILE, T_FILE, T_FUNCTION, T_FORMAT, T_FORMAT, r.choice([3, 4, 5])]) if r.random() < 0.97 else r.choice([6, -1])
        texts = TEXTS.get(ty, ["*"])
        text = r.choice(texts)
        if r.random() < 0.35:
            text = "*"
        if r.random() < 0.01:
            text = None
        hi, lo = r.choice(WINDOWS)
        if c in (TAG_SET, TAG_CLEAR, TAG_CLEAR_ALL):
            t = r.choice([1, 2, 7, 9, 0]) if r.random() < 0.95 else r.choice([-1, 4294967295])
        else:
            t = self.target(opened)
        return "F %d %d %d %s %d %d" % (t, c, ty, hx(text), hi, lo)

    def case(self, n_ops, style):
        r = self.rng
        ops = []
        opened = []
        pool = [self.site() for _ in range(r.randint(2, 5))]
        syslog_on = r.random() >= 0.9
        self.max_prio = 7 if syslog_on else 255     # syslog(3) is not called for LOG_TRACE: keep what target 0 gets observable
        if syslog_on:
            pool = [s[:3] + (min(s[3], 7),) + s[4:] for s in pool]
        else:
            ops.append("E 0 0")
        if style == "configure-first":
            k = r.randint(1, 3)
            for i in range(k):
                ops.append("O")
                opened.append(4 + i)
                ops.append("E %d 1" % (4 + i))
        elif style == "log-first":
            for s in pool:
                ops.append(L(*s))
        for _ in range(n_ops):
            x = r.random()
            if x < 0.10 and len(opened) < 5:
                ops.append("O")
                # first free slot: assume 4.. in order unless something was closed (the model tells the truth anyway)
                free = [i for i in range(4, 32) if i not in opened]
                opened.append(free[0])
            elif x < 0.14 and opened:
                t = self.target(opened, 0.15)
                ops.append("X %d" % t)
                if t in opened:
                    opened.remove(t)
            elif x < 0.30:
                t = self.target(opened, 0.08)
                if t in (0, 1, 2, 3):
                    ops.append("E %d 0" % t)      # static targets are only ever disabled here
                else:
                    ops.append("E %d %d" % (t, 1 if r.random() < 0.65 else 0))
            elif x < 0.62:
                ops.append(self.filt(opened, pool))
            elif x < 0.66:
                k = r.randrange(len(STATIC_SITES))
                if STATIC_SITES[k][3] <= self.max_prio:
                    ops.append("Q %d" % k)
            else:
                s = r.choice(pool) if r.random() < 0.8 else self.site()
                if r.random() < 0.15:     # same key, other function
                    s = (r.choice(FNS),) + s[1:]
                s = s[:3] + (min(s[3], self.max_prio),) + s[4:]
                ops.append(L(*s, mode=(1 if r.random() < 0.3 else 0)))
        return ops


def with_oracle(ops):
    """Prepend the regcomp/regexec questions this script can raise (asked to libc by the harness itself)."""
    pats = set()
    subj = set()
    for o in ops:
        p = o.split()
        if p[0] == "F" and p[3] in ("3", "4", "5") and p[4] != "N":
            pats.add(p[4])
        elif p[0] == "L":
            subj.update(p[1:4])
        elif p[0] == "Q":
            k = int(p[1])
            if 0 <= k < len(STATIC_SITES):
                subj.update(hx(x) for x in STATIC_SITES[k][:3])
    pre = []
    for p in sorted(pats):
        pre.append("oracle? rc %s" % p)
        for s in sorted(subj):
            pre.append("oracle? re %s %s" % (p, s))
    return pre + list(ops)


# ------------------------------------------------------------------ parsing the implementation log
def parse_log(lines):
    """-> (oracle dict, records).  record: dict(op=[...], s=int|None, d=[(t,id,tags,text)], r=int|None, spec=None)"""
    oracle = {}
    recs = []
    cur = None
    for l in lines:
        p = l.split()
        if not p:
            continue
        if p[0] == "oracle":
            if p[1] == "rc":
                oracle[("rc", p[2])] = p[3] == "1"
            else:
                oracle[("re", p[2], p[3])] = p[4] == "1"
        elif p[0] == "op":
            cur = {"op": p[1:], "s": None, "d": [], "r": None, "spec": None, "abort": False, "miss": False}
            recs.append(cur)
        elif cur is None:
            continue
        elif p[0] == "s":
            cur["s"] = int(p[1])
        elif p[0] == "d":
            cur["d"].append((int(p[1]), int(p[2]), int(p[3]), p[4]))
        elif p[0] == "r":
            cur["r"] = int(p[1])
        elif p[0] == "spec":
            cur["spec"] = ([int(x) for x in p[1].split(",")] if p[1] != "tag" else [], int(p[-1]))
        elif p[0] == "abort":
            cur["abort"] = True
        elif p[0] == "oracle-miss":
            cur["miss"] = True
    return oracle, recs


# ------------------------------------------------------------------ the monitor: the property itself, from the API documentation
class Monitor:
    """Configuration = (state of each target, its stored filters, the stored tag rules).  A log call goes to target t
    iff t is enabled and one of its stored filters selects the call's (function, file, priority, format); once each.
    Independent of the Coq development (its agreement with the Coq `route`/`tag_of` is checked separately)."""

    def __init__(self, oracle, flags):
        self.oracle = oracle
        self.flags = flags                   # dict letter -> True when the tree contains that repair
        self.state = ["U"] * NTARGETS
        for i in range(4):
            self.state[i] = "D"
        self.state[0] = "E"
        self.filters = [[] for _ in range(NTARGETS)]
        self.filters[0].append((T_FILE, "*", 0, 6, 0))
        self.tagf = []
        self.taints = set()
        self.known_sites = []                # full tuples (fn, file, fmt, prio, line) seen so far
        self.missed = set()                  # (lookup key, target): created while the target was in use but not enabled
        self.explicit_keys = set()           # lookup keys that ever carried an explicit tag word

    # -- matching, as the header documents it
    @staticmethod
    def alternatives(text):
        alts = text.split(",")
        if len(alts) > 1 and alts[-1] == "":
            alts = alts[:-1]
        return [a[:TOKEN_MAX] for a in alts]

    def selects(self, f, site, regex_ok=True):
        ty, text, hi, lo = f[0], f[1], f[2], f[3]
        fn, file, fmt, prio = site[0], site[1], site[2], site[3]
        if prio > lo or prio < hi:
            return False
        if text == "*":
            return True
        if ty == T_FILE:
            return file in self.alternatives(text)
        if ty == T_FUNCTION:
            return fn in self.alternatives(text)
        if ty == T_FORMAT:
            return text in fmt
        subj = {T_FILE_RE: file, T_FUNCTION_RE: fn, T_FORMAT_RE: fmt}[ty]
        if not regex_ok:
            return False
        return self.oracle.get(("re", hx(text), hx(subj)), False)

    def route(self, site):
        return [t for t in range(NTARGETS) if self.state[t] == "E" and any(self.selects(f, site) for f in self.filters[t])]

    def tag_of(self, site):
        g = 0
        for f in self.tagf:
            if self.selects(f, site):
                g = f[4]
        return g

    def libqb_key(self, site):
        return (site[4], site[3], site[1], site[2]) + ((site[0],) if self.flags["C"] else ())

    def bad_target(self, t):
        return t < 0 or t >= NTARGETS or self.state[t] == "U"

    # -- configuration changes
    def filter_ctl(self, t, c, ty, text, hi, lo):
        if c in (ADD, REMOVE, CLEAR_ALL) and self.bad_target(t):
            return
        if text is None or lo < hi or not (0 <= ty <= 5) or not (0 <= c <= 5):
            return
        tgt = c in (ADD, REMOVE, CLEAR_ALL)
        lst = self.filters[t] if tgt else self.tagf
        val = t if tgt else t % (1 << 32)
        if c in (ADD, TAG_SET):
            if (ty, text, hi, lo, val) in lst:
                return
            if ty >= 3 and not self.oracle.get(("rc", hx(text)), False):
                return
            lst.append((ty, text, hi, lo, val))
        elif c in (REMOVE, TAG_CLEAR):
            old = list(lst)
            for i, f in enumerate(lst):
                if f[0] == ty and f[3] <= lo and f[2] >= hi and (f[1] == text or text == "*"):
                    del lst[i]
                    break
            if not self.flags["B"]:
                self.guard_remove(tgt, old, lst, (ty, text, hi, lo))
        else:
            del lst[:]

    def guard_remove(self, tgt, old, new, args):
        """G_log_no_overlap_remove: what the unrepaired code leaves on the call sites it knows differs from what the
        remaining stored filters prescribe (it clears the sites matching the REMOVE arguments - never for a regex type,
        whose compiled pattern is gone - and looks at nothing else)."""
        for s in self.known_sites:
            if s[4] <= 0:
                continue
            hit = self.selects(args, s, regex_ok=False)
            if tgt:
                before = any(self.selects(f, s) for f in old)
                after_code = False if hit else before
                after_spec = any(self.selects(f, s) for f in new)
            else:
                if self.libqb_key(s) in self.explicit_keys:
                    continue
                before = 0
                for f in old:
                    if self.selects(f, s):
                        before = f[4]
                after_code = 0 if hit else before
                after_spec = 0
                for f in new:
                    if self.selects(f, s):
                        after_spec = f[4]
            if after_code != after_spec:
                self.taints.add("B")
                return

    def enable(self, t, on):
        if self.bad_target(t):
            return
        self.state[t] = "E" if on else "D"

    def open(self):
        for i in range(NTARGETS):
            if self.state[i] == "U":
                self.state[i] = "D"
                return

    def close(self, t):
        if self.bad_target(t):
            return
        if not self.flags["D"] and self.filters[t]:
            self.taints.add("D")          # G_log_close_without_filters
            # the unrepaired code keeps the filters in the slot: follow it, so that later expectations are those of
            # "this slot still has these filters" only if the finding is accepted; the taint marks the history anyway
        self.state[t] = "U"
        self.filters[t] = []

    # -- one record of the implementation log; returns a failure message or None
    def check(self, rec):
        op = rec["op"]
        k = op[0]
        if k == "O":
            self.open()
        elif k == "X":
            self.close(int(op[1]))
        elif k == "E":
            self.enable(int(op[1]), op[2] != "0")
        elif k == "F":
            self.filter_ctl(int(op[1]), int(op[2]), int(op[3]), unhx(op[4]), int(op[5]), int(op[6]))
        elif k == "L":
            site = (unhx(op[1]), unhx(op[2]), unhx(op[3]), int(op[4]), int(op[5]))
            tags = int(op[6])
            if not (0 < site[4] < ARRAY_MAX):
                self.taints.add("L")              # G_log_lineno_range
            key = self.libqb_key(site)
            new = all(self.libqb_key(s) != key for s in self.known_sites)
            if not self.flags["C"]:
                if any(self.libqb_key(s) == key and s[0] != site[0] for s in self.known_sites):
                    self.taints.add("C")          # G_log_sites_distinct_by_key
            if not self.flags["A"]:
                # G_log_enabled_first: the call site was created while a target that is enabled now was not
                for t in range(NTARGETS):
                    if new and self.state[t] == "D" and any(self.selects(f, site) for f in self.filters[t]):
                        self.missed.add((key, t))
                    if self.state[t] == "E" and (key, t) in self.missed:
                        self.taints.add("A")
            if site not in self.known_sites:
                self.known_sites.append(site)
            if tags:
                self.explicit_keys.add(key)
            if rec["r"] is None:
                return "the log call from %r did not return (process died)" % (site,)
            want = self.route(site)
            got = [d[0] for d in rec["d"]]
            if got != want:
                return "log call from (fn=%r file=%r fmt=%r prio=%d line=%d) was delivered to targets %s; enabled targets " \
                       "whose stored filters select it: %s" % (site + (got, want))
            for d in rec["d"]:
                if d[1] != rec["s"]:
                    return "logger of target %d was handed call site #%d, the call was made from #%s" % (d[0], d[1], rec["s"])
                if d[0] != 0 and unhx(d[3]) != site[2]:
                    return "logger of target %d received text %r for a call with format %r" % (d[0], unhx(d[3]), site[2])
            if rec["d"]:
                g = rec["d"][0][2]
                if any(d[2] != g for d in rec["d"]):
                    return "one call reported different tag words to different targets: %s" % ([d[2] for d in rec["d"]],)
                if tags:
                    if g != tags:
                        return "call made with explicit tags %d reported tags %d" % (tags, g)
                elif key not in self.explicit_keys:
                    wantg = self.tag_of(site)
                    if g != wantg:
                        return "call from (fn=%r file=%r fmt=%r prio=%d line=%d) reported tags %d; last stored tag rule " \
                               "selecting it gives %d" % (site + (g, wantg))
        return None

    def expected(self, rec):
        """(route, tag) for the cross-check with the Coq specification; call before check()."""
        op = rec["op"]
        site = (unhx(op[1]), unhx(op[2]), unhx(op[3]), int(op[4]), int(op[5]))
        return self.route(site), self.tag_of(site)


def run_monitor(ilines, mlines, flags):
    """-> dict(fail=(index, msg)|None, taints=set, spec_mismatch=msg|None)"""
    oracle, recs = parse_log(ilines)
    _, mrecs = parse_log(mlines)
    mon = Monitor(oracle, flags)
    spec_mismatch = None
    fail = None
    for i, rec in enumerate(recs):
        if rec["op"][0] == "L" and i < len(mrecs) and mrecs[i]["spec"] is not None and spec_mismatch is None:
            # the Coq spec's configuration never keeps filters in a closed slot; the monitor's does not either
            e = mon.expected(rec)
            if (list(e[0]), e[1]) != (list(mrecs[i]["spec"][0]), mrecs[i]["spec"][1]):
                spec_mismatch = "op %d %s: Coq route/tag_of = %s, Python monitor = %s" % (i, " ".join(rec["op"]), mrecs[i]["spec"], e)
        m = mon.check(rec)
        if m and fail is None:
            fail = (i, m, set(mon.taints))
    return {"fail": fail, "taints": set(mon.taints), "spec_mismatch": spec_mismatch}


# ------------------------------------------------------------------ running
def execute(cases, exe, model, variant):
    texts = ["\n".join(with_oracle(c)) + "\n" for c in cases]
    impl = C.run_cases(exe, texts, timeout=900)
    mcases = []
    for lines, crash in impl:
        mcases.append("\n".join(l for l in lines if l.startswith("op ") or l.startswith("oracle ")) + "\n")
    mod = C.run_cases(model, mcases, timeout=900, env={"LOGRF_VARIANT": variant})
    return impl, mod


def detect_variant(exe):
    """Which of the four repairs does the tree under test contain?  (Run the witnesses on the implementation.)"""
    texts = ["\n".join(WITNESS[k]) + "\n" for k in FLAG_ORDER]
    impl = C.run_cases(exe, texts, timeout=120)
    flags = {}
    for k, (lines, crash) in zip(FLAG_ORDER, impl):
        _, recs = parse_log(lines)
        last = recs[-1] if recs else {"d": []}
        delivered = [d[0] for d in last["d"]] == [4]
        flags[k] = (not delivered) if k == "D" else delivered
    return flags


def judge(impl, mod, flags, known_ids):
    """-> None | (kind, what, detail) | ("known", [finding ids])"""
    lines, crash = impl
    mlines = mod[0]
    ilines_cmp = [C.norm_nums(l) for l in lines if not l.startswith("oracle ")]
    mlines_cmp = [C.norm_nums(l) for l in mlines if not l.startswith("spec ")]
    res = run_monitor(lines, mlines, flags)
    taints = res["taints"]
    model_aborts = bool(mlines_cmp) and mlines_cmp[-1] == "abort"
    explained = []
    if crash:
        ids = sorted(FINDINGS[t][0] for t in taints)
        if model_aborts and "L" in taints and FINDINGS["L"][0] in known_ids and "SUMMARY: AddressSanitizer" not in crash[1] \
                and "runtime error" not in crash[1] and ilines_cmp == mlines_cmp[:-1]:
            # assert(rc == 0) of log_dcs.c, exactly where the model aborts
            explained = [FINDINGS["L"][0]]
            mlines_cmp = mlines_cmp[:-1]
            if res["fail"] and res["fail"][0] == len([l for l in ilines_cmp if l.startswith("op ")]) - 1:
                res["fail"] = None        # "did not return" of the aborting call itself
        else:
            return ("impl-monitor", "implementation died (rc=%s) %s" % (crash[0], "[history outside guards: %s]" % ids if ids else ""),
                    crash[1][-1500:])
    d = C.first_diff(ilines_cmp, mlines_cmp)
    if res["fail"]:
        i, msg, t_at = res["fail"]
        ids = sorted(FINDINGS[t][0] for t in t_at)
        if ids and all(x in known_ids for x in ids) and not d:
            return ("known", sorted(set(ids + explained)))
        extra = " [history is outside %s]" % ", ".join(FINDINGS[t][1] for t in sorted(t_at)) if t_at else ""
        return ("impl-monitor", "op %d: %s%s" % (i, msg, extra), {"first_model_difference": d})
    if mod[1]:
        return ("correspondence", "model runner failed", mod[1][1][-800:])
    if d:
        return ("correspondence", "observable %d differs: impl %r model %r" % d, {"first_difference": d})
    if any(l == "oracle-miss" for l in mlines):
        return ("correspondence", "the model asked regcomp/regexec something the harness was not asked", {})
    if res["spec_mismatch"]:
        return ("correspondence", "specification cross-check: " + res["spec_mismatch"], {})
    if explained:
        return ("known", explained)
    return None


def variant_string(flags):
    return "".join("1" if flags[k] else "0" for k in FLAG_ORDER)


def run(ctx):
    res = C.Result()
    exe = harness()
    model = C.build_model(ID)
    rng = ctx.rng
    known_ids = set(k.get("id") for k in ctx.known)
    flags = detect_variant(exe)
    variant = variant_string(flags)
    thorough = ctx.tier == "thorough" or not ctx.proof_ok
    ncases = 5000 if thorough else 500
    line_cases = FINDINGS["L"][0] in known_ids
    gen = Gen(rng, line_cases)
    cases = corpus(line_cases)
    ncorpus = len(cases)
    kinds = {"corpus": ncorpus}
    for i in range(ncases):
        style = ["configure-first", "log-first", "mixed"][i % 3]
        n_ops = rng.choice([6, 10, 16, 25, 40]) if i % 40 else 150
        cases.append(gen.case(n_ops, style))
        kinds[style] = kinds.get(style, 0) + 1
    impl, mod = execute(cases, exe, model, variant)
    opcount = {}
    deliveries = 0
    rcs = {}
    taint_hist = {}
    for ci, case in enumerate(cases):
        lines = impl[ci][0]
        nlog = 0
        for l in lines:
            if l.startswith("op "):
                opcount[l[3]] = opcount.get(l[3], 0) + 1
                nlog += l[3] == "L"
            elif l.startswith("d "):
                deliveries += 1
            elif l.startswith("r -"):
                rcs[l[2:]] = rcs.get(l[2:], 0) + 1
        res.add_case(tuple(case), nlog >= 1 and len(case) >= 4)
        v = judge(impl[ci], mod[ci], flags, known_ids)
        if v is None:
            res.traces_validated += 1
            continue
        if v[0] == "known":
            res.traces_validated += 1
            for fid in v[1]:
                res.known_hits[fid] = res.known_hits.get(fid, 0) + 1
                taint_hist[fid] = taint_hist.get(fid, 0) + 1
            continue
        kind, what, detail = v

        def fails(sub):
            im, mo = execute([sub], exe, model, variant)
            j = judge(im[0], mo[0], flags, known_ids)
            return j is not None and j[0] == kind
        small = C.shrink_list(case, fails, budget=80) if len(res.violations) < 3 else case
        im, mo = execute([small], exe, model, variant)
        j = judge(im[0], mo[0], flags, known_ids)
        if j is None or j[0] == "known":
            j, small = v, case
            im, mo = execute([small], exe, model, variant)
        res.violation(j[0], j[1], {"script": small, "shrunk_from_ops": len(case), "model_variant": variant,
                                   "impl_out": im[0][0], "model_out": mo[0][0], "detail": j[2],
                                   "replay_cmd": "./check C12 --replay <this file>"})
        if len(res.violations) >= 8:
            break
    res.rule = ("scripts over qb_log_custom_open/close, qb_log_ctl(ENABLED), qb_log_filter_ctl2 (all six operations, six filter "
                "types, small overlapping text alphabet, priority windows) and log calls (qb_log_callsite_get+qb_log_real_, "
                "qb_log_from_external_source, static qb_log statements) in three orders: configure-then-log, log-then-configure, "
                "mixed; hand-made corpus (incl. the four refutation witnesses) first; a case is non-trivial when it has >= 4 "
                "operations and at least one log call; distinct = distinct scripts")
    res.samples = [{"script": c} for c in cases[:2] + cases[ncorpus:ncorpus + 2]]
    res.extra = {"case_kinds": kinds, "api_calls_by_kind": opcount, "logger_invocations": deliveries,
                 "error_results_seen": rcs, "repairs_detected_in_tree": {FINDINGS[k][0]: flags[k] for k in FLAG_ORDER},
                 "model_variant": variant, "known_finding_histories": taint_hist,
                 "monitor": "independent Python statement of C12 over the implementation log (props/C12.py: Monitor), "
                            "cross-checked against the Coq route/tag_of on every log call"}
    res.assumptions = ["regcomp/regexec are oracles: asked to libc by the harness, answers fed to model and monitor",
                       "message ids are NULL, no custom filter callback, no threaded targets, one qb_log_init per history",
                       "static targets stderr/blackbox/stdout are never enabled by the scripts; syslog only disabled",
                       "formats contain no % directive and are not empty (C13 covers message expansion)"]
    return res


def replay(ctx, payload):
    exe = harness()
    model = C.build_model(ID)
    known_ids = set(k.get("id") for k in ctx.known)
    flags = detect_variant(exe)
    variant = variant_string(flags)
    case = payload["script"]
    im, mo = execute([case], exe, model, variant)
    j = judge(im[0], mo[0], flags, known_ids)
    print("variant:", variant)
    print("impl :", im[0][0])
    print("model:", mo[0][0])
    if j and j[0] != "known":
        print("VIOLATION property=%s replay=%s" % (ID, "<replayed>"))
        print("DETAIL: %s: %s" % (j[0], j[1]))
        return 1
    print("replay: property holds on this script now" + (" (known finding %s)" % j[1] if j else ""))
    return 0
