"""C01 - ring buffer: one writer + one reader get FIFO, exactly-once, untorn chunks in every interleaving.
See DESIGN.md section 5 / C01.

Proof: coq/RbConcModel.v (micro-step interleaving model of qb_rb_chunk_write / read / peek / reclaim),
coq/RbConcProofs*.v (invariant preserved by every micro-step of either thread), coq/Properties_C01.v.
Tie: lib/ringbuffer.c + ringbuffer_helper.c of the working tree compiled with tsan instrumentation only and run
under the controlled scheduler (harness/h_rbconc.c, sched_rt.c, sched_wrap_rb.c): every access to write_pt,
read_pt, a data word, every byte of a payload copy and every semaphore operation is a scheduling point; the
extracted model follows the same scheduling decisions and the two traces (access kind, location, memory order,
effect on the shared state, return values, bytes delivered) are compared line by line.  An independent monitor
states the property over the implementation's call returns (vlib/rbconc.py: monitor)."""
import time
from concurrent.futures import ThreadPoolExecutor
from vlib import common as C
from vlib import rbconc as R

ID = "C01"


def prebuild():
    R.build()


def _run_batches(cases, exe, model, nb=4):
    """split into nb batches executed concurrently (each: implementation run, then model run)"""
    idx = [list(range(i, len(cases), nb)) for i in range(nb)]

    def one(k):
        sub = [cases[i] for i in idx[k]]
        if not sub:
            return [], []
        return R.execute(sub, exe, model, tag="p%d-%d" % (__import__("os").getpid(), k))
    with ThreadPoolExecutor(nb) as ex:
        outs = list(ex.map(one, range(nb)))
    impl = [None] * len(cases)
    mod = [None] * len(cases)
    for k in range(nb):
        for j, i in enumerate(idx[k]):
            impl[i] = outs[k][0][j]
            mod[i] = outs[k][1][j]
    return impl, mod


def run(ctx):
    res = C.Result()
    exe = R.build()
    model = C.build_model(ID)
    rng = ctx.rng
    thorough = ctx.tier == "thorough" or not ctx.proof_ok
    t0 = time.time()
    cases = R.corpus()
    kinds = {"corpus": len(cases)}
    enum = R.enum_cases(rng, thorough)
    kinds["enumerated_schedules"] = len(enum)
    cases += enum
    nrand = 4000 if thorough else 450
    for i in range(nrand):
        cases.append(R.gen_case(rng, big_ok=(i % 3 == 0) if thorough else (i % 3 != 2)))
    kinds["random"] = nrand
    impl, mod = _run_batches(cases, exe, model, nb=6 if thorough else 4)
    steps = 0
    labels = {}
    rets = {}
    switches_hist = {}
    found = []
    skipped = 0
    for ci, case in enumerate(cases):
        lines = impl[ci][0]
        seq = []
        consumed = 0
        for l in lines:
            if l.startswith("s "):
                p = l.split(" ", 3)
                seq.append(p[1])
                lab = p[2] + (" " + p[3].split("[")[0] if len(p) > 3 else "")
                labels[lab] = labels.get(lab, 0) + 1
            elif l.startswith("ret "):
                p = l.split()
                key = ("write" if p[1] == "0" else "reader") + (" ok" if int(p[3]) >= 0 else " %s" % p[3])
                rets[key] = rets.get(key, 0) + 1
                if p[1] == "1" and int(p[3]) >= 0 and len(p) > 4:
                    consumed += 1
        steps += len(seq)
        sw = sum(1 for a, b in zip(seq, seq[1:]) if a != b)
        b = min(sw, 8)
        switches_hist[b] = switches_hist.get(b, 0) + 1
        res.add_case(tuple(case), sw >= 2 and consumed >= 1)
        if any(l.startswith("open -") for l in lines[:2]):
            skipped += 1            # the ring files could not be created (environment: /dev/shm), not a verdict
            continue
        v = R.judge(case, impl[ci], mod[ci])
        if v is None:
            res.traces_validated += 1
        else:
            found.append((ci, v))
    if skipped > len(cases) // 4:
        raise C.BrokenInput("qb_rb_open failed for %d of %d cases: cannot create ring files under /dev/shm" % (skipped, len(cases)))
    # every failing case has been seen; monitor failures (concrete failing inputs) first, then correspondence breaks
    found.sort(key=lambda x: (0 if x[1][0] == "impl-monitor" else 1, x[0]))
    nkind = {}
    for ci, v in found:
        kind = v[0]
        nkind[kind] = nkind.get(kind, 0) + 1
        if nkind[kind] > 3:
            continue
        case = cases[ci]
        if nkind[kind] == 1:
            case = R.shrink(case, kind, exe, model)
        im, mo = R.execute([case], exe, model)
        j = R.judge(case, im[0], mo[0]) or v
        res.violation(j[0], j[1], {"script": case, "impl_out": [l[:300] for l in im[0][0][-400:]],
                                   "model_out": [l[:300] for l in mo[0][0][-400:]],
                                   "detail": j[2], "failing_cases_of_this_kind": len([1 for _, w in found if w[0] == kind]),
                                   "replay_cmd": "./check C01 --replay <this file>"})
    res.rule = ("one writer thread and one reader thread (second handle on the same ring files, or the same handle) "
                "executing 1-4 qb_rb_chunk_write and 1-6 read / peek / reclaim calls on the real lib/ringbuffer.c under a "
                "controlled schedule; hand-made corpus, all schedules with a bounded number of pre-emptions for small "
                "call mixes, random window-directed schedules over boundary-directed call mixes (pointers next to the "
                "end of the buffer, ring nearly full, payloads made of marker words / fake headers, lengths "
                "0,1,3,4,5,..,4083,4084,4085, undersized read buffers, with and without semaphore); non-trivial = at "
                "least 2 context switches and one chunk delivered during the run; distinct = distinct (script, schedule)")
    res.samples = [{"script": [x[:80] for x in c]} for c in cases[:1] + cases[-2:]]
    res.extra = {"case_kinds": kinds, "scheduled_steps": steps, "steps_by_access_kind": labels,
                 "call_returns": rets, "context_switches_per_case(capped 8)": switches_hist,
                 "monitor": "independent Python statement of C01 over the implementation's call returns "
                            "(vlib/rbconc.py: monitor) + ASan/UBSan + whole-shared-state diff after every step",
                 "cases_skipped_ring_files_not_creatable": skipped, "run_wall_s": round(time.time() - t0, 1)}
    res.assumptions = ["sequential consistency at the granularity of the instrumented accesses (uint32_t loads/stores of "
                       "write_pt, read_pt, data words; payload copies byte by byte); compiler / hardware reordering is "
                       "not modelled - the memory order of every acquire/release access is compared with the model's",
                       "two processes are represented by two threads with separate mappings of the same files",
                       "positive semaphore timeouts (virtual time), chunk lengths >= 2^32 and SEM_VALUE_MAX overflow "
                       "are not modelled", "ring sizes exercised on the implementation: one page (1024 words); the "
                       "theorems hold for every word_size"]
    return res


def replay(ctx, payload):
    exe = R.build()
    model = C.build_model(ID)
    case = payload["script"]
    im, mo = R.execute([case], exe, model)
    j = R.judge(case, im[0], mo[0])
    for tag, out in (("impl ", im[0][0]), ("model", mo[0][0])):
        print("%s: ... %d lines, the last 25:" % (tag, len(out)))
        for l in out[-25:]:
            print("   ", l[:140] + (" ...[%d chars]" % len(l) if len(l) > 140 else ""))
    if j:
        print("VIOLATION property=%s replay=%s" % (ID, "<replayed>"))
        print("DETAIL: %s: %s" % (j[0], j[1]))
        return 1
    print("replay: property holds on this script now")
    return 0
