"""C20 - handle database (lib/hdb.c).  See DESIGN.md section 5 / C20.

Stages: symbolic scripts -> real hdb.c under ASan (h_hdb) -> concrete call log ->
extracted Gallina model on the same concrete calls -> line diff; plus an independent
Python monitor that states the property over the implementation's log."""
import os
from vlib import common as C

ID = "C20"
EBADF = 9
NOCHK = 0xFFFFFFFF


def prebuild():
    lib = C.build_lib()
    C.build_harness("h_hdb", ["h_hdb.c"], lib=lib, ldflags=["-Wl,--wrap=random"])


# ------------------------------------------------------------------ generator
def corpus():
    """Minimised / hand-made boundary cases (run first, every time)."""
    return [
        # the design-round finding: check-0 value naming an EMPTY slot (never issued)
        ["C 11", "D @0=", "P @0z", "R @0z", "D @0z", "C 12", "R @1=", "G @1="],
        # double destroy acts as an extra put; destructor exactly once
        ["C 21", "G @0=", "G @0=", "D @0=", "R @0=", "D @0=", "R @0=", "P @0=", "P @0=", "G @0=", "R @0="],
        # stale handle after slot reuse, and no-check form of it
        ["C 31", "D @0=", "C 32", "G @0=", "P @0=", "D @0=", "R @0=", "G @0n", "R @1=", "P @0n", "R @1=", "D @1=", "P @1="],
        # put down to zero without destroy
        ["C 41", "P @0=", "G @0=", "R @0=", "C 42", "R @1="],
        # iteration over a mix of active / pending / empty slots, takes references
        ["C 51", "C 52", "C 53", "C 54", "G @1=", "D @1=", "D @2=", "X", "N", "N", "N", "N", "R @0=", "R @3=",
         "X", "N", "D @3=", "N", "N"],
        # out-of-range / negative index halves, literal garbage
        ["C 61", "G L0x8000000000000000", "P L0xffffffffffffffff", "D L0x00000000ffffffff", "R L0x3d00000001",
         "G @0i1", "P @0i-1", "R @0c1", "D @0c-1", "R @0="],
        # never-issued values on a fresh database
        ["G L0", "P L0", "D L0", "R L0", "N", "X", "N", "C 71", "G L0", "P L0", "R @0="],
        # check value collision on a reused slot (freshness hypothesis false): stale handle resolves again
        ["C 81", "D @0=", "C 81", "G @0=", "R @1="],
        # a create whose allocation fails leaves a reservation behind (slot stays EMPTY); the next create reuses it
        ["F", "C 91", "R @1=", "G @1=", "R @1=", "P @1=", "D @1=", "P @1=", "R @1="],
        ["C 92", "D @0=", "F", "F", "C 93", "R @3=", "D @3=", "G @3=", "P @3=", "X", "N"],
        ["C 94", "F", "P @1z", "R @1z", "D @1n", "C 95", "R @2=", "D @2=", "R @2="],
        # random() returning 0 two hundred times: check 0 issued
        ["C 0", "G @0=", "R @0=", "D @0=", "P @0=", "R @0=", "G @0="],
    ]


def gen_case(rng, n_ops, fresh_counter, collide=False):
    ops = []
    k = 0  # creates so far
    for _ in range(n_ops):
        r = rng.random()
        if r < 0.04:
            ops.append("F")
            k += 1
        elif k == 0 or r < 0.22:
            if collide and rng.random() < 0.5:
                chk = rng.choice([5, 6, 7])
            else:
                fresh_counter[0] += 1
                chk = fresh_counter[0]
            if rng.random() < 0.03:
                chk = rng.choice([0x7FFFFFFF, 1, 0x40000000 + fresh_counter[0]])
            ops.append("C %d" % chk)
            k += 1
        elif r < 0.30:
            ops.append("X")
            if rng.random() < 0.7:
                ops.extend(["N"] * rng.randint(1, k + 2))
        elif r < 0.36:
            ops.append("N")
        else:
            j = rng.randrange(k) if rng.random() < 0.9 else rng.randrange(k + 3)
            m = rng.random()
            if m < 0.70:
                ref = "@%d=" % j
            elif m < 0.78:
                ref = "@%dn" % j
            elif m < 0.86:
                ref = "@%dz" % j
            elif m < 0.90:
                ref = "@%dc%d" % (j, rng.choice([1, -1, 0x10000]))
            elif m < 0.94:
                ref = "@%di%d" % (j, rng.choice([1, -1, 2, 0x10000, 0x7fffffff]))
            else:
                ref = "L" + hex(rng.choice([0, 1, 2, rng.getrandbits(64), rng.getrandbits(33), NOCHK << 32 | rng.randrange(6),
                                            (1 << 63) | rng.randrange(4), rng.randrange(8) << 32 | rng.randrange(8)]))
            o = rng.random()
            letter = "G" if o < 0.25 else "A" if o < 0.31 else "P" if o < 0.6 else "D" if o < 0.8 else \
                "R" if o < 0.94 else "B" if o < 0.97 else "V"
            ops.append("%s %s" % (letter, ref))
    return ops


# ------------------------------------------------------------------ monitor (independent of the model)
def i32(x):
    x &= 0xFFFFFFFF
    return x - (1 << 32) if x >= (1 << 31) else x


def monitor(lines):
    """Executable statement of C20 over the implementation log. Returns None or a message."""
    objs = {}      # id -> dict(handle, refs, destroyed, alive)
    slot = {}      # idx -> id of the object alive there
    nslots = 0
    cursor = 0
    next_id = 1
    pending_create = None
    i = 0
    n = len(lines)
    while i < n:
        parts = lines[i].split()
        if parts[0] == "note":
            return "line %d: %s" % (i, lines[i])
        if parts[0] != "op":
            return "line %d: unexpected %r" % (i, lines[i])
        letter, arg = parts[1], int(parts[2], 0)
        i += 1
        dtors = []
        while i < n and lines[i].startswith("d "):
            dtors.append(int(lines[i].split()[1], 0))
            i += 1
        if i >= n:
            return "log ends inside op %s" % letter
        rp = lines[i].split()
        i += 1
        res = int(rp[1], 0)

        def resolve(h):
            chk, idx = (h >> 32) & 0xFFFFFFFF, i32(h)
            if idx < 0 or idx not in slot:
                return None
            o = objs[slot[idx]]
            if chk == NOCHK or o["handle"] == h:
                return o
            return None

        def expect_drop(o, what):
            o["refs"] -= 1
            if o["refs"] == 0:
                if dtors != [o["id"]]:
                    return "%s drove the count of object %d to zero but destructor calls were %s" % (what, o["id"], dtors)
                o["alive"] = False
                del slot[i32(o["handle"])]
            elif dtors:
                return "%s: destructor ran %s while object %d still has %d reference(s)" % (what, dtors, o["id"], o["refs"])
            return None

        if letter == "C":
            if dtors:
                return "create ran a destructor"
            if res != 0:
                if nslots < 65536:
                    return "create failed with %d" % res
                continue
            h = int(rp[2], 0)
            idx = i32(h)
            if idx < 0 or idx in slot:
                return "create returned handle 0x%x whose slot %d is in use by a live object" % (h, idx)
            if (h >> 32) != (arg & 0xFFFFFFFF):
                return "create: check half of handle 0x%x is not the random value %d" % (h, arg)
            o = {"id": next_id, "handle": h, "refs": 1, "destroyed": False, "alive": True}
            objs[next_id] = o
            slot[idx] = next_id
            nslots = max(nslots, idx + 1)
            next_id += 1
        elif letter == "F":
            if res != -12:
                return "create with failing allocation returned %d, expected -ENOMEM" % res
            if dtors:
                return "failed create ran a destructor"
            # the failed call still reserved a slot: the lowest unoccupied one, or a new one (the
            # iterator cursor runs over reserved slots as well)
            if all(ix in slot for ix in range(nslots)):
                nslots += 1
        elif letter == "B":
            if int(rp[2], 0) != (arg & 0xFFFFFFFF) or dtors:
                return "base_convert(0x%x) returned %s" % (arg, rp[2])
        elif letter == "V":
            if int(rp[2], 0) != ((0xFFFFFFFF << 32) | (arg & 0xFFFFFFFF)) or dtors:
                return "nocheck_convert(0x%x) returned %s" % (arg, rp[2])
        elif letter in ("G", "A"):
            o = resolve(arg)
            if o and not o["destroyed"]:
                if res != 0 or int(rp[2], 0) != o["id"]:
                    return "get 0x%x should resolve to object %d, got res=%d inst=%s" % (arg, o["id"], res, rp[2])
                o["refs"] += 1
            else:
                if res != -EBADF:
                    return "get 0x%x on a stale/destroyed/never-issued handle returned %d (inst %s)" % (arg, res, rp[2])
            if dtors:
                return "get ran a destructor"
        elif letter in ("P", "D"):
            o = resolve(arg)
            if o:
                if res != 0:
                    return "%s 0x%x names live object %d but returned %d" % (letter, arg, o["id"], res)
                if letter == "D":
                    o["destroyed"] = True
                m = expect_drop(o, "%s 0x%x" % (letter, arg))
                if m:
                    return m
            else:
                if res != -EBADF:
                    return "%s 0x%x on a stale or never-issued handle returned %d" % (letter, arg, res)
                if dtors:
                    return "%s 0x%x on a stale handle ran destructor %s" % (letter, arg, dtors)
        elif letter == "R":
            o = resolve(arg)
            if o:
                if res != o["refs"]:
                    return "refcount 0x%x reported %d, expected 1+gets-puts-destroys = %d" % (arg, res, o["refs"])
            elif res != -EBADF:
                return "refcount 0x%x on a stale or never-issued handle returned %d" % (arg, res)
        elif letter == "X":
            cursor = 0
        elif letter == "N":
            cand = sorted(ix for ix in slot if ix >= cursor and not objs[slot[ix]]["destroyed"])
            if cand:
                o = objs[slot[cand[0]]]
                if res != 0 or int(rp[2], 0) != o["id"] or int(rp[3], 0) != o["handle"]:
                    return "iterator should visit object %d next, got %s" % (o["id"], " ".join(rp))
                o["refs"] += 1
                cursor = cand[0] + 1
            else:
                if res == 0:
                    return "iterator returned %s but no undestroyed object is left" % " ".join(rp)
                cursor = nslots
            if dtors:
                return "iterator ran a destructor"
    return None


# ------------------------------------------------------------------ run
def execute(cases, exe, model):
    texts = ["\n".join(c) + "\n" for c in cases]
    impl = C.run_cases(exe, texts, timeout=600)
    # model consumes the concrete calls of the implementation log
    mcases = []
    for lines, crash in impl:
        mcases.append("\n".join(l for l in lines if l.startswith("op ")) + "\n")
    mod = C.run_cases(model, mcases, timeout=600)
    return impl, mod


def judge(case, impl, mod):
    """-> (kind, what, detail) or None"""
    lines, crash = impl
    if crash:
        return ("impl-monitor", "implementation crashed / sanitizer report (rc=%s)" % crash[0], crash[1][-1500:])
    m = monitor(lines)
    mlines = [C.norm_nums(l) for l in mod[0]]
    ilines = [C.norm_nums(l) for l in lines]
    d = C.first_diff(ilines, mlines)
    if m:
        return ("impl-monitor", m, {"first_model_difference": d})
    if mod[1]:
        return ("correspondence", "model runner failed", mod[1][1])
    if d:
        return ("correspondence", "observable %d differs: impl %r model %r" % d, {"first_difference": d})
    return None


def run(ctx):
    res = C.Result()
    lib = C.build_lib()
    exe = C.build_harness("h_hdb", ["h_hdb.c"], lib=lib, ldflags=["-Wl,--wrap=random"])
    model = C.build_model(ID)
    rng = ctx.rng
    thorough = ctx.tier == "thorough" or not ctx.proof_ok
    ncases = 6000 if thorough else 600
    fresh = [100]
    cases = corpus()
    kinds = {"corpus": len(cases)}
    for i in range(ncases):
        collide = (i % 10 == 9)
        n_ops = rng.choice([4, 8, 15, 30, 60]) if i % 50 else 300
        cases.append(gen_case(rng, n_ops, fresh, collide))
    kinds["random_fresh_checks"] = ncases - ncases // 10
    kinds["random_colliding_checks"] = ncases // 10
    if thorough:
        # slot table growth beyond the first array bins, and mass reuse
        big = ["C %d" % (1000 + j) for j in range(700)] + ["D @%d=" % j for j in range(0, 700, 3)] + \
              ["C %d" % (5000 + j) for j in range(300)] + ["X"] + ["N"] * 720 + ["R @%d=" % j for j in range(0, 1000, 7)]
        cases.append(big)
        kinds["big"] = 1
    impl, mod = execute(cases, exe, model)
    opcount = {}
    errs = 0
    for ci, case in enumerate(cases):
        lines = impl[ci][0]
        nontrivial = len([l for l in lines if l.startswith("op ")]) >= 3
        res.add_case(tuple(case), nontrivial)
        for l in lines:
            if l.startswith("op "):
                opcount[l[3]] = opcount.get(l[3], 0) + 1
            elif l.startswith("r -") or l.startswith("i -"):
                errs += 1
        v = judge(case, impl[ci], mod[ci])
        if v is None:
            res.traces_validated += 1
            continue
        kind, what, detail = v

        # shrink: same kind of failure
        def fails(sub):
            im, mo = execute([sub], exe, model)
            j = judge(sub, im[0], mo[0])
            return j is not None and j[0] == kind
        small = C.shrink_list(case, fails, budget=60) if len(res.violations) < 3 else case
        im, mo = execute([small], exe, model)
        j = judge(small, im[0], mo[0]) or v
        res.violation(j[0], j[1], {"script": small, "shrunk_from_ops": len(case), "impl_out": im[0][0], "model_out": mo[0][0],
                                   "detail": j[2], "replay_cmd": "./check C20 --replay <this file>"})
        if len(res.violations) >= 8:
            break
    res.rule = ("symbolic op scripts over create/get/put/destroy/refcount/iterate with handle references "
                "{as issued, no-check form, check:=0, check+-d, index+-d, literal}; hand-made corpus first, then random "
                "(90% with fresh check words, 10% with deliberately colliding ones); a case is non-trivial when it "
                "performs >= 3 API calls; distinct = distinct scripts")
    res.samples = [{"script": c} for c in cases[:2] + cases[len(corpus()):len(corpus()) + 2]]
    res.extra = {"case_kinds": kinds, "api_calls_by_kind": opcount, "error_results_seen": errs,
                 "monitor": "independent Python statement of C20 over the implementation log (props/C20.py: monitor)"}
    res.assumptions = ["random() is an oracle: the harness wraps it and returns the script's value; freshness of check words "
                       "is a hypothesis of C20_stale_rejected", "ref_count does not reach 2^31 (int32 wrap not modelled)",
                       "single-threaded use (the atomics are modelled as plain updates)"]
    return res


def replay(ctx, payload):
    lib = C.build_lib()
    exe = C.build_harness("h_hdb", ["h_hdb.c"], lib=lib, ldflags=["-Wl,--wrap=random"])
    model = C.build_model(ID)
    case = payload["script"]
    im, mo = execute([case], exe, model)
    j = judge(case, im[0], mo[0])
    print("impl :", im[0][0])
    print("model:", mo[0][0])
    if j:
        print("VIOLATION property=%s replay=%s" % (ID, "<replayed>"))
        print("DETAIL: %s: %s" % (j[0], j[1]))
        return 1
    print("replay: property holds on this script now")
    return 0
