"""C05 - IPC admission: credentials handed to accept, refusal leaves nothing, files and directories stay private at any
moment (lib/ipc_setup.c, lib/ipcs.c, lib/ipc_shm.c, lib/ipc_socket.c, lib/ringbuffer.c, lib/unix.c).
See DESIGN.md section 5 / C05.

Stages: generated lab scripts (peers with chosen real / effective ids connecting concurrently, behaviour table of the
accept callback: decision + auth_set(uid, gid, mode), umask of the daemon, refused peers that keep sending, peers that
die) -> the real server code (ASan/UBSan) in harness/h_ipcadmit.c with forked clients; every file-system call of the
library is logged (-Wl,--wrap) and followed by an lstat census of everything the connections created -> the extracted
Gallina model (coq/IpcAdmitModel.v) on the same ops -> line diff of syscall sequence + census after every call +
callbacks + connect results; plus an independent Python monitor stating C05 over the census log
(vlib/ipcadmit.py: monitor)."""
from vlib import common as C
from vlib import ipcadmit as L

ID = "C05"
import os
FINDING_IDS = ("C05-dir-0770-peer-owned", "C05-sock-dir-owner", "C05-mode-window", "C05-sock-dgram-injection")
INJECT_ID = "C05-sock-dgram-injection"


def prebuild():
    L.build()


def _known_ids(ctx):
    ids = set()
    for k in (ctx.known or []):
        if isinstance(k, dict) and k.get("id") in FINDING_IDS:
            ids.add(k["id"])
    return tuple(sorted(ids))


def run(ctx):
    res = C.Result()
    exe = L.build()
    model = C.build_model(ID)
    variant = L.tree_variant(exe)
    inj = L.tree_inject_variant(exe)
    known_ids = _known_ids(ctx)
    rng = ctx.rng
    thorough = ctx.tier == "thorough" or not ctx.proof_ok
    ncases = 4000 if thorough else 500
    # The injection stream (a process that is not the peer writes to an accepted connection's abstract request
    # address, socket transport) fails the monitor on a tree without fixes/C05-sock-request-sender-check.patch: there
    # it is generated only when that finding is listed in known_findings.json (then counted under KNOWN-FINDING) or
    # when VERIF_C05_INJECT=1 forces it.  On a tree with the sender check it is always generated and must be silent.
    inject = inj == "filtered" or INJECT_ID in known_ids or os.environ.get("VERIF_C05_INJECT") == "1"
    cases = L.corpus(inject)
    ncorp = len(cases)
    for i in range(ncases):
        cases.append(L.gen_case(rng, inject=inject and i % 4 == 0))
    impl, mod = L.execute(cases, exe, model, variant, inj)
    stats = {"peers": 0, "accepted": 0, "refused": 0, "auth_set": 0, "eff_differs_from_real": 0, "fs_calls": 0,
             "census_lines": 0, "msg_callbacks": 0, "raw_clients": 0, "connect_eacces": 0}
    by_tr, by_umask, by_mode, by_dec = {}, {}, {}, {}
    scm = {"real": 0, "effective_only": 0, "neither": 0}
    for ci, case in enumerate(cases):
        lines = impl[ci][0]
        nacc = 0
        slots = {}
        cur = None
        for l in lines:
            w = l.split()
            if l.startswith("sys "):
                stats["fs_calls"] += 1
            elif l.startswith("fs"):
                stats["census_lines"] += 1
            elif l.startswith("cb msg"):
                stats["msg_callbacks"] += 1
            elif l.startswith("connect ") and w[2] == "-13":
                stats["connect_eacces"] += 1
            elif l.startswith("op svc"):
                by_tr[w[2]] = by_tr.get(w[2], 0) + 1
                by_umask[w[3]] = by_umask.get(w[3], 0) + 1
            elif l.startswith("op beh"):
                d = int(w[2])
                by_dec[str(d)] = by_dec.get(str(d), 0) + 1
                stats["accepted" if d == 0 else "refused"] += 1
                if len(w) == 6:
                    stats["auth_set"] += 1
                    by_mode[w[5]] = by_mode.get(w[5], 0) + 1
            elif l.startswith("op start"):
                stats["peers"] += 1
                slots[int(w[2])] = (int(w[3]), int(w[4]), int(w[5]), int(w[6]))
                if (w[3], w[4]) != (w[5], w[6]):
                    stats["eff_differs_from_real"] += 1
                if len(w) > 7:
                    stats["raw_clients"] += 1
            elif l.startswith("op auth"):
                cur = int(w[2])
            elif l.startswith("cb accept"):
                nacc += 1
                s = slots.get(cur)
                if s and (s[0], s[1]) != (s[2], s[3]):
                    got = (int(w[3]), int(w[4]))
                    scm["real" if got == (s[0], s[1]) else "effective_only" if got == (s[2], s[3]) else "neither"] += 1
        res.add_case(tuple(case), nacc >= 1)
        v = L.judge(impl[ci], mod[ci], known_ids)
        if v is None:
            res.traces_validated += 1
            continue
        kind, what, detail, hits = v
        for h in hits:
            res.known_hits[h] = res.known_hits.get(h, 0) + 1
        if kind == "known":
            res.traces_validated += 1
            continue

        def fails(sub):
            if not sub or not sub[0].startswith("svc ") or sub[-1] != "end":
                return False
            im, mo = L.execute([sub], exe, model, variant, inj)
            j = L.judge(im[0], mo[0], known_ids)
            return j is not None and j[0] == kind
        small = C.shrink_list(case, fails, budget=40) if len(res.violations) < 2 else case
        im, mo = L.execute([small], exe, model, variant, inj)
        j = L.judge(im[0], mo[0], known_ids) or v
        res.violation(j[0], j[1], {"script": small, "shrunk_from_ops": len(case), "impl_out": im[0][0][-80:],
                                   "model_out": mo[0][0][-80:], "detail": j[2], "model_variant": variant,
                                   "replay_cmd": "./check C05 --replay <this file>"})
        if len(res.violations) >= 6:
            break
    # fault sweep: implementation side only (the model has no failing open/mkdtemp/chmod; see report)
    fcases = L.fault_cases([5, 28, 1] if thorough else [28])
    fimpl = C.run_cases(exe, ["\n".join(c) + "\n" for c in fcases], timeout=900)
    fstats = {}
    for ci, case in enumerate(fcases):
        msg, what = L.monitor_fault(fimpl[ci][0], fimpl[ci][1])
        fstats[what] = fstats.get(what, 0) + 1
        res.add_case(tuple(case), what != "no-failure")
        if msg is None:
            res.traces_validated += 1
        elif len(res.violations) < 6:
            res.violation("impl-monitor", "fault sweep: " + msg, {"script": case, "impl_out": fimpl[ci][0][-60:],
                                                                  "fault_sweep": True,
                                                                  "replay_cmd": "./check C05 --replay <this file>"})
    res.rule = ("lab scripts over {transport shm|socket; daemon umask 022 077 0 027 002 0277; 1..8 peers per case with real "
                "and effective uid/gid drawn from {0, 1, 1000, 65534} (30% with effective != real); accept behaviour = "
                "decision in {0, -EACCES, -EAGAIN, -1, -ENOMEM, 1, -EIO, -ENOTCONN, 7} and optional auth_set(uid, gid, mode) with "
                "uid/gid from the same set, the peer's own or -1 and mode in {600 660 666 400 0 640 060 604 200 700 644 006}; "
                "peers connect in waves (start*, accept(2)*, handshakes answered in shuffled order, results read in "
                "shuffled order); library clients and raw clients (handshake by hand, keep sending after a refusal); "
                "requests, server looks, SIGKILL of clients + server-side tear-down}; hand-made corpus first (the "
                "refutation witnesses of Properties_C05.v on both transports and three umasks), then random; a case is "
                "non-trivial when the accept callback ran at least once; distinct = distinct scripts")
    res.samples = [{"script": c} for c in cases[:2] + cases[ncorp:ncorp + 2]]
    res.extra = {"case_kinds": {"corpus": ncorp, "random": ncases}, "model_variant": variant,
                 "tree_carries_fix_C05": variant == "fixed", "injection_stream_generated": inject, "fault_sweep_outcomes": fstats, "foreign_datagrams": inj,
                 "tree_carries_fix_C05_sender_check": inj == "filtered", "by_transport": by_tr, "by_umask": by_umask,
                 "auth_set_modes": by_mode, "decisions": by_dec, "totals": stats,
                 "kernel_oracle_when_effective_differs_from_real": scm,
                 "monitor": "independent Python statement of C05 over the syscall/census log (vlib/ipcadmit.py: monitor) "
                            "+ ASan/UBSan; clients really are separate processes with the stated ids"}
    res.assumptions = [
        "kernel oracle: the auto-filled SCM_CREDENTIALS of the handshake carry the REAL uid/gid of the sender (Linux "
        "current_uid_gid); the property text says 'effective' - on this platform a peer with real uid 0 and effective uid "
        "65534 is presented to the accept callback as uid 0 (counted in kernel_oracle_when_effective_differs_from_real); the "
        "model's oracle scm_creds = real ids, the monitor accepts either",
        "the server runs as root (chown succeeds); theorem C05_private_at_any_moment has srv_root as hypothesis, the "
        "model's non-root branch (chown EPERM) is not exercised by the harness",
        "mkdtemp yields a fresh name per connection (connection ordinal = ordinal of the mkdtemp call); abstract-namespace "
        "sockets (Linux default), so the socket transport creates no socket files",
        "only success paths of the file-system calls plus rmdir/ENOTEMPTY are modelled (no ENOSPC/EMFILE/ENOMEM)",
        "the server is single-threaded: the ops of one handle_new_connection run without interleaving in the implementation; "
        "the theorems allow interleaving at op granularity (stronger)",
        "what the harness does at 'end' (tear-down of whatever is left) is monitored (census, residue, descriptors) but not "
        "compared with the model"]
    if variant != "fixed":
        res.assumptions.append("the working tree does not carry fixes/C05-private-until-handed-over.patch: the 'as found' "
                               "transcription is used for correspondence; the monitor reports the genuine defects "
                               "(refuted theorem C05_private_at_any_moment_asfound_refuted) unless they are listed as known")
    return res


def replay(ctx, payload):
    exe = L.build()
    model = C.build_model(ID)
    variant = L.tree_variant(exe)
    inj = L.tree_inject_variant(exe)
    case = payload["script"]
    if payload.get("fault_sweep"):
        r = C.run_cases(exe, ["\n".join(case) + "\n"], timeout=120)
        msg, what = L.monitor_fault(r[0][0], r[0][1])
        print("impl :", r[0][0][-40:])
        if msg:
            print("VIOLATION property=%s replay=%s" % (ID, "<replayed>"))
            print("DETAIL: impl-monitor: fault sweep: %s" % msg)
            return 1
        print("replay: property holds on this script now (%s)" % what)
        return 0
    im, mo = L.execute([case], exe, model, variant, inj)
    j = L.judge(im[0], mo[0], _known_ids(ctx))
    print("impl :", im[0][0][-60:])
    print("model:", mo[0][0][-60:])
    if im[0][1]:
        print("stderr tail:", im[0][1][1][-1500:])
    if j and j[0] != "known":
        print("VIOLATION property=%s replay=%s" % (ID, "<replayed>"))
        print("DETAIL: %s: %s" % (j[0], j[1]))
        return 1
    print("replay: property holds on this script now")
    return 0
