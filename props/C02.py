"""C02 - IPC: requests, responses and events arrive exactly once, in order, intact; failed sends have no
effect; the client's descriptor is readable while an event is queued.  DESIGN.md section 5 / C02.

Stages: generated call scripts -> the in-process IPC lab (harness/h_ipcdata.c: real lib/*.c, ASan+UBSan, one
thread, explicit server turns) -> log of concrete calls, kernel outcomes, callbacks, results, API-level
state digest -> the extracted Gallina model (coq/IpcDataModel.v) on the same calls and kernel outcomes ->
line diff; plus an independent Python monitor (vlib/ipcdata.py: monitor_c02) stating C02 over the
implementation's log."""
from vlib import common as C
from vlib import ipcdata as L

ID = "C02"
CONNRESP = 12328          # informational only (the generator aims message sizes at the negotiated maximum)


def prebuild():
    L.build()


# ------------------------------------------------------------------------------------------------ generator
class Gen:
    def __init__(self, rng, tr, req_max, enforced=0):
        self.rng = rng
        self.tr = tr
        self.mx = max(req_max, CONNRESP, enforced)
        self.ops = ["open %s %d" % (tr, req_max) + (" %d" % enforced if enforced > 0 else "")]
        self.tag = 0
        self.n = {"req": 0, "resp": 0, "evt": 0}

    def t(self):
        self.tag += 1
        return self.tag

    def length(self, kind=None):
        r = self.rng
        mx = self.mx
        kind = kind or r.choice(["small"] * 5 + ["medium"] * 3 + ["edge"] * 2 + ["large"])
        if kind == "small":
            return r.randint(16, 80)
        if kind == "medium":
            return r.randint(81, 2000)
        if kind == "edge":
            return r.choice([16, 17, 18, 19, 20, mx - 1, mx, mx + 1, mx + 4, mx + 1000, mx - 3])
        return r.randint(mx // 3, mx)

    def csend(self, ln=None):
        ln = ln if ln is not None else self.length()
        r = self.rng.random()
        self.n["req"] += 1
        if r < 0.5:
            self.ops.append("cs %d %d" % (ln, self.t()))
        elif r < 0.9:
            self.ops.append("cv %d %d %d" % (ln, self.t(), self.rng.randint(1, 4)))
        else:
            self.n["resp"] += 0
            self.ops.append("cx %d %d %d" % (ln, self.t(), self.rng.choice([16, 64, self.mx, self.mx + 200])))

    def ssend(self, chan, ln=None):
        ln = ln if ln is not None else self.length()
        self.n[chan] += 1
        v = self.rng.random() < 0.5
        letter = {("resp", False): "sr", ("resp", True): "sv", ("evt", False): "se", ("evt", True): "sw"}[(chan, v)]
        if v:
            self.ops.append("%s %d %d %d" % (letter, ln, self.t(), self.rng.randint(1, 4)))
        else:
            self.ops.append("%s %d %d" % (letter, ln, self.t()))

    def recv(self, chan, buf=None):
        if buf is None:
            buf = self.rng.choice([self.mx + 200] * 6 + [self.mx, 16, 15, 40, 300, 0])
        self.ops.append("%s %d" % ("cr" if chan == "resp" else "ce", buf))

    def inject(self, cls=None, n=None):
        r = self.rng
        if cls is None:
            cls = r.choice(["cset", "sset", "sset"]) if self.tr == "shm" else r.choice(["creq", "sreq", "sevt"])
        self.ops.append("inj %s %d" % (cls, n if n is not None else r.randint(1, 3)))

    def drain(self):
        big = self.mx + 200
        self.ops += ["rl 1", "cf 1"]
        for _ in range(self.n["req"] // 5 + 3):
            self.ops.append("t")
        for _ in range(self.n["resp"] + 1):
            self.ops.append("cr %d" % big)
        for rnd in range(3):
            for _ in range(self.n["evt"] + 1):
                self.ops.append("ce %d" % big)
            self.ops.append("t")
        self.ops.append("ce %d" % big)
        self.ops.append("close")


def gen_random(rng, tr, nops):
    req_max = rng.choice([8192, 8192, 13000, 20000, 16384 - 13])
    # one case in four: the server enforces its own buffer size (qb_ipcs_enforce_buffer_size), above or below the
    # figure in the client's handshake, so that negotiated maximum != requested maximum
    enforced = rng.choice([0, 0, 0, req_max + 1, 2 * req_max, 4096, 65536]) if rng.random() < 0.5 else 0
    g = Gen(rng, tr, req_max, enforced)
    prof = rng.choice(["mixed", "mixed", "req", "evt", "fc", "full"])
    for _ in range(nops):
        r = rng.random()
        if prof == "mixed":
            if r < 0.25: g.csend()
            elif r < 0.40: g.ops.append("t")
            elif r < 0.52: g.ssend("resp")
            elif r < 0.62: g.recv("resp")
            elif r < 0.77: g.ssend("evt")
            elif r < 0.87: g.recv("evt")
            elif r < 0.91: g.inject()
            elif r < 0.95: g.ops.append("rl %d" % rng.randint(0, 4))
            elif r < 0.97: g.ops.append("cf %d" % rng.randint(0, 3))
            else: g.ops.append("mr " + " ".join(str(rng.choice([0, -1, 1, -5])) for _ in range(rng.randint(1, 4))))
        elif prof == "req":
            if r < 0.55: g.csend(g.length(rng.choice(["small", "small", "medium", "edge"])))
            elif r < 0.75: g.ops.append("t")
            elif r < 0.85: g.ops.append("rl %d" % rng.randint(0, 4))
            elif r < 0.90: g.inject("cset" if tr == "shm" else "creq")
            elif r < 0.95: g.ops.append("mr " + " ".join(str(rng.choice([0, -1])) for _ in range(rng.randint(1, 6))))
            else: g.ops.append("cf %d" % rng.randint(0, 2))
        elif prof == "evt":
            if r < 0.50: g.ssend("evt", g.length(rng.choice(["small", "small", "medium", "edge"])))
            elif r < 0.70: g.recv("evt")
            elif r < 0.82: g.inject("sset" if tr == "shm" else "sevt", rng.randint(1, 4))
            elif r < 0.94: g.ops.append("t")
            else: g.csend(g.length("small"))
        elif prof == "fc":
            if r < 0.30: g.ops.append("rl %d" % rng.randint(0, 4))
            elif r < 0.45: g.ops.append("cf %d" % rng.randint(0, 2))
            elif r < 0.80: g.csend(g.length("small"))
            elif r < 0.92: g.ops.append("t")
            else: g.ssend(rng.choice(["resp", "evt"]))
        else:  # full: few large messages until the channel refuses
            if r < 0.30: g.csend(g.length("large"))
            elif r < 0.50: g.ssend("resp", g.length("large"))
            elif r < 0.70: g.ssend("evt", g.length("large"))
            elif r < 0.80: g.ops.append("t")
            elif r < 0.90: g.recv("resp")
            else: g.recv("evt")
    g.drain()
    return g.ops


def corpus():
    """Hand-made boundary cases (run first, every time).  Both transports for each."""
    cs = []
    for tr in ("shm", "sock"):
        mx = CONNRESP
        # the finding of the design round: over-size event/response accepted by the *v calls
        cs.append(["open %s 8192" % tr, "se 14000 1", "sw 14000 2 2", "sr 14000 3", "sv 14000 4 2",
                   "ce %d" % mx, "cr %d" % mx, "se 100 5", "ce %d" % mx, "close"])
        # lengths around a bare header and around the maximum, every send call
        b = ["open %s 8192" % tr]
        tag = 0
        for ln in (16, 17, 19, mx - 1, mx, mx + 1):
            for o in ("cs %d %d", "cv %d %d 3", "sr %d %d", "sv %d %d 2", "se %d %d", "sw %d %d 2"):
                tag += 1
                b.append(o % (ln, tag))
            b += ["t", "t", "cr %d" % (mx + 8), "cr %d" % (mx + 8), "ce %d" % (mx + 8), "ce %d" % (mx + 8)]
        cs.append(b + ["close"])
        # batches per priority: 5 at NORMAL, 50 at FAST, 1 at SLOW
        b = ["open %s 8192" % tr] + ["cs 32 %d" % i for i in range(1, 61)]
        b += ["t", "rl 0", "t", "rl 2", "t", "t", "rl 1", "t", "t", "close"]
        cs.append(b)
        # flow control: OFF blocks fc_enable_max >= 1, OFF_2 only fc_enable_max 2, fc_enable_max 0 never blocks
        cs.append(["open %s 8192" % tr, "cs 20 1", "rl 3", "cs 20 2", "cv 20 3 2", "cx 20 4 64", "t", "cf 0", "cs 20 5", "t",
                   "cf 1", "rl 4", "cs 20 6", "cf 2", "cs 20 7", "t", "rl 1", "t", "t", "cs 20 8", "t", "close"])
        # msg_process refusing (negative return): the message is consumed once, the batch stops
        cs.append(["open %s 8192" % tr, "mr -1 0 -1", "cs 20 1", "cs 20 2", "cs 20 3", "cs 20 4", "t", "t", "t", "t", "close"])
        # receive buffers too small: the message stays queued and arrives intact later
        cs.append(["open %s 8192" % tr, "sr 200 1", "cr 0", "cr 15", "cr 16", "cr 199", "cr 200", "se 200 2", "ce 0", "ce 15", "ce 199",
                   "ce 200", "cr 200", "ce 200", "close"])
        # sendv_recv picks up an already queued response
        cs.append(["open %s 8192" % tr, "sr 40 1", "cx 24 2 100", "cx 24 3 100", "t", "close"])
    # shm: deferred event notifications (notification socket reports EAGAIN), re-sent on POLLOUT
    cs.append(["open shm 8192", "inj sset 1", "se 20 1", "se 20 2", "ce 100", "t", "ce 100", "ce 100", "ce 100", "close"])
    cs.append(["open shm 8192", "inj sset 3", "se 20 1", "se 20 2", "sw 20 3 2", "t", "ce 100", "inj sset 1", "t", "se 24 4", "t", "ce 100",
               "ce 100", "ce 100", "ce 100", "close"])
    # shm: deferred notification + ring full: the failed send flushes notifications but queues nothing
    cs.append(["open shm 8192", "se 8000 1", "inj sset 1", "se 4000 2", "se 8000 3", "ce 9000", "se 8000 4", "t", "ce 9000", "ce 9000",
               "ce 9000", "close"])
    # shm: the client spins on EAGAIN for its notification byte
    cs.append(["open shm 8192", "inj cset 3", "cs 20 1", "inj cset 1", "cv 20 2 2", "t", "close"])
    # shm: ring exactly full / one byte short (16384-byte ring: free - 1 word - margin)
    cs.append(["open shm 8192", "cs 12328 1", "cs 4028 2", "cs 4027 3", "cs 4024 4", "cs 4021 5", "cs 4020 6", "t", "t", "close"])
    cs.append(["open shm 8192"] + ["sr 1000 %d" % i for i in range(1, 20)] + ["cr 2000"] * 3 + ["sr 1000 %d" % i for i in range(20, 26)] +
              ["cr 2000"] * 22 + ["close"])
    # sock: kernel refuses datagrams (EAGAIN) on each channel: nothing queued, counters untouched
    cs.append(["open sock 8192", "inj creq 2", "cs 20 1", "cv 20 2 2", "cs 20 3", "t", "inj sreq 1", "sr 20 4", "sr 20 5", "cr 100", "cr 100",
               "inj sevt 2", "se 20 6", "sw 20 7 2", "se 20 8", "ce 100", "ce 100", "close"])
    # the server enforces a buffer size above the client's handshake figure (qb_ipcs_enforce_buffer_size): the negotiated
    # maximum is the enforced one on every channel, messages between the two figures travel intact in both directions
    for tr in ("shm", "sock"):
        cs.append(["open %s 16384 65536" % tr, "cs 16385 1", "t", "cs 32768 2", "t", "cs 65536 3", "cs 65537 4", "t", "sr 65536 5", "cr 65536",
                   "se 16385 6", "se 65536 7", "se 65537 8", "ce 65536", "ce 65536", "close"])
        cs.append(["open %s 20000 4096" % tr, "cs 20000 1", "cs 20001 2", "t", "sr 20000 3", "cr 20000", "close"])
    return cs


def storm(n=420):
    """shm: events until the notification socket itself reports EAGAIN (no injection), then drain."""
    b = ["open shm 40000"] + ["se 16 %d" % i for i in range(1, n + 1)]
    # the client drains everything it was notified of while the server does not get a turn: the deferred
    # notifications leave a window with events queued and the descriptor not readable (POLLOUT armed)
    b += ["ce 100"] * 300 + ["t"]
    for k in range(n // 50 + 2):
        b += ["ce 100"] * 60 + ["t"]
    b += ["ce 100", "close"]
    return b


# ------------------------------------------------------------------------------------------------ run
def execute(cases, exe, model):
    impl = L.run_impl(exe, cases)
    mod = L.run_model(model, impl)
    return impl, mod


def judge(case, impl, mod, drained=True):
    lines, crash = impl
    if crash:
        return ("impl-monitor", "implementation crashed, hung or reported a sanitizer error (rc=%s)" % crash[0], crash[1][-1500:])
    m = L.monitor_c02(lines)
    if not m and drained:
        left = L.leftovers(lines)
        if any(x > 0 for x in left):
            m = "after draining with large buffers, accepted messages were never delivered: requests %d, responses %d, events %d" % left
    d = C.first_diff(L.comparable(lines), L.comparable(mod[0]))
    if m:
        return ("impl-monitor", m, {"first_model_difference": d})
    if mod[1]:
        return ("correspondence", "model runner failed", mod[1][1])
    if d:
        return ("correspondence", "observable %d differs: impl %r model %r" % d, {"first_difference": d})
    return None


def run(ctx):
    res = C.Result()
    exe = L.build()
    model = C.build_model(ID)
    rng = ctx.rng
    thorough = ctx.tier == "thorough" or not ctx.proof_ok
    ncases = 2400 if thorough else 260
    cases = corpus()
    kinds = {"corpus": len(cases)}
    if thorough:
        cases.append(storm())
        kinds["natural_storm"] = 1
    for i in range(ncases):
        tr = "shm" if i % 2 == 0 else "sock"
        nops = rng.choice([10, 25, 40, 80]) if i % 40 else 400
        cases.append(gen_random(rng, tr, nops))
    kinds["random_shm"] = (ncases + 1) // 2
    kinds["random_sock"] = ncases // 2
    impl, mod = execute(cases, exe, model)
    opcount, errs, envs = {}, {}, {}
    for ci, case in enumerate(cases):
        lines = impl[ci][0]
        delivered = 0
        for b in L.parse_blocks(lines):
            opcount[b.op[0]] = opcount.get(b.op[0], 0) + 1
            delivered += len(b.cbs)
            if b.res and b.res[0].lstrip("-").isdigit():
                r = int(b.res[0])
                if r < 0:
                    errs[str(r)] = errs.get(str(r), 0) + 1
                elif b.op[0] in ("cr", "ce", "cx"):
                    delivered += 1
            for (k, n, r) in b.env:
                key = "%s:%s" % (k, "ok" if r == n else r)
                envs[key] = envs.get(key, 0) + 1
        res.add_case(tuple(case), delivered >= 2)
        v = judge(case, impl[ci], mod[ci])
        if v is None:
            res.traces_validated += 1
            continue
        kind, what, detail = v

        def fails(sub):
            if not sub or not sub[0].startswith("open"):
                return False
            im, mo = execute([sub], exe, model)
            j = judge(sub, im[0], mo[0], drained=False)
            return j is not None and j[0] == kind
        small = C.shrink_list(case, fails, budget=80) if len(res.violations) < 2 else case
        im, mo = execute([small], exe, model)
        j = judge(small, im[0], mo[0], drained=False) or v
        res.violation(j[0], j[1], {"script": small, "shrunk_from_ops": len(case), "impl_out": im[0][0], "model_out": mo[0][0],
                                   "detail": j[2], "replay_cmd": "./check C02 --replay <this file>"})
        if len(res.violations) >= 6:
            break
    res.rule = ("call scripts for one established connection (client send/sendv/sendv_recv/recv/event_recv/fc_enable_max, server "
                "turn/response_send(v)/event_send(v)/rate_limit, msg_process return values, forced EAGAIN answers of the "
                "connection's sockets), alternating shm and socket transport, each ending in a drain with large buffers; "
                "hand-made boundary corpus first; a case is non-trivial when at least two messages were delivered")
    nc = len(corpus())
    res.samples = [{"script": c[:40]} for c in cases[:2] + cases[nc + 1:nc + 3]]
    res.extra = {"case_kinds": kinds, "api_calls_by_kind": opcount, "error_results_seen": errs, "kernel_outcomes_seen": envs,
                 "monitor": "independent Python statement of C02 over the implementation log (vlib/ipcdata.py: monitor_c02, leftovers)"}
    res.assumptions = [
        "the model and the check describe lib/*.c WITH fixes/C02-server-send-size-check.patch and fixes/C06-recv-at-most-bounds.patch applied",
        "kernel outcomes of send()/writev() on the connection's sockets are an oracle recorded from the run (and forced to EAGAIN "
        "by the script in places); partial writes of notification bytes are not modelled",
        "single thread, all timeouts 0: interleavings are at call granularity; the ring's own concurrency is C01's subject",
        "message payload is represented by a tag in the model; byte equality is checked by the harness and the monitor",
        "the negotiated maximum is taken as max(requested, sizeof(struct qb_ipc_connection_response)) (with and without qb_ipcs_enforce_buffer_size)"]
    return res


def replay(ctx, payload):
    exe = L.build()
    model = C.build_model(ID)
    case = payload["script"]
    im, mo = execute([case], exe, model)
    j = judge(case, im[0], mo[0], drained=False)
    print("impl :", im[0][0])
    print("model:", mo[0][0])
    if im[0][1]:
        print("crash:", im[0][1])
    if j:
        print("VIOLATION property=%s replay=%s" % (ID, "<replayed>"))
        print("DETAIL: %s: %s" % (j[0], j[1]))
        return 1
    print("replay: property holds on this script now")
    return 0
