"""C11 - overwrite ring / blackbox always keeps the newest records, intact (lib/ringbuffer.c, lib/log_blackbox.c).
See DESIGN.md section 5.0 / C11.

Stages:
  ring   generated overwrite-mode scripts -> real ringbuffer.c under ASan (harness/h_rb.c, public API only) and the
         extracted Gallina model (coq/RbModel.v, ovw = true) on the same script -> line diff; independent monitor
         (vlib/rbow.py: monitor_ring) = "what is read back or dumped is the newest k chunks written, unbroken and
         byte-identical, k >= 1, k >= the newest that fit".
  bb     generated log-call scripts -> the real qb_log blackbox target (harness/h_rbow.c: qb_log_ctl SIZE /
         MAX_LINE_LEN / ENABLED, qb_log_from_external_source, qb_log_blackbox_write_to_file, read back with
         qb_rb_create_from_file + qb_rb_chunk_read) -> the extracted blackbox model (coq/BbModel.v) run on the
         implementation's concrete call log (serializer answers = oracle) -> line diff; independent monitor
         (vlib/rbow.py: monitor_bb)."""
from vlib import common as C
from vlib import rb as R
from vlib import rbow as W

ID = "C11"


def prebuild():
    R.build()
    W.build_bb()


# ------------------------------------------------------------------ corpus
def ring_corpus():
    c = []
    # repaired in /repo (f545f17): overwrite + semaphore, the second write has to reclaim everything
    c.append(["O 3000 o", "W " + "07" * 3000, "W " + "09" * 3000, "D", "R 70000", "R 70000", "W " + "0a" * 2999, "D"])
    # Coq example C11_example_overwrite_state: the last two must be kept, the last three are
    c.append(["O 4000 o", "W " + "01" * 4000, "W " + "02" * 3, "W " + "03" * 3960, "W " + "04" * 8, "D", "R 5000", "R 5000",
              "R 5000", "R 5000"])
    # tiny / near-capacity alternation around the one-page boundary (S = 4083 is the largest size with one page)
    c.append(["O 4083 on", "W " + "ab" * 4083, "W 01", "D", "W " + "cd" * 4083, "W -", "D", "W " + "ef" * 4082, "P", "D",
              "R 70000", "R 70000", "R 70000"])
    c.append(["O 4084 on", "W " + "ab" * 4084, "W 01", "W " + "cd" * 4084, "D", "W " + "ee" * 8179, "D"])
    # the reclaim loop must stop exactly when free == len + margin: 37 chunks of 100 bytes leave 96 bytes free
    fill = ["O 1000 on"] + ["W " + ("%02x" % (i + 1)) * 100 for i in range(37)]
    c.append(fill + ["W " + "aa" * 84, "D", "W " + "bb" * 100, "D", "W " + "cc" * 193, "D", "W " + "dd" * 194, "D",
                     "W " + "ee" * 1000, "D"] + ["R 70000"] * 5)
    # a write that must reclaim 0 / 1 / k / all chunks
    c.append(["O 2000 o"] + ["W " + ("%02x" % (i + 1)) * 500 for i in range(7)] +
             ["D", "W " + "a1" * 4, "D", "W " + "a2" * 600, "D", "W " + "a3" * 1500, "D", "W " + "a4" * 2000, "D"] +
             ["R 70000"] * 4)
    # payload words equal to the marker constants, chunks wrap around the end of the data area
    seam = []
    for k in range(8):
        seam += ["W " + (R.MAGIC.to_bytes(4, "little") * 300).hex(), "W " + (R.DEAD.to_bytes(4, "little") * 299 + b"\xa1").hex(),
                 "W " + (b"\x08\x00\x00\x00" + R.MAGIC.to_bytes(4, "little")).hex() * 40, "D"]
    c.append(["O 3000 on"] + seam + ["R 70000"] * 6)
    # owner operations interleaved: peek / reclaim / short read buffer, reservations larger than the commit
    c.append(["O 2000 o", "A 600 " + "11" * 40, "A 600 " + "22" * 41, "A 2000 " + "33" * 10, "D", "P", "X", "A 1900 44",
              "R 0", "R 70000", "A 600 -", "A 2000 55", "D", "R 70000", "R 70000"])
    # more than the requested size: may fail, must not damage anything that follows
    c.append(["O 100 on", "W " + "01" * 100, "W " + "02" * 5000, "W 03", "D", "W " + "04" * 4090, "W 05", "D", "R 70000"])
    return c


def bb_corpus():
    c = []
    fn = b"main".hex()
    # the Coq witness C11_unrepaired_blackbox_loses_all_refuted: size 1024, max line length 32
    w = ["B 1024 32"]
    for i in range(41):
        if i % 3 == 0:
            w.append("L %d %d 0 6 %s t %s" % (i + 1, i + 1, fn, b"short 1".hex()))
        else:
            w.append("L %d %d 0 6 %s t %s" % (i + 1, i + 1, fn, (b"this message does not fit in thirty-two bytes %03d" % i).hex()))
        if i >= 39:
            w.append("D")
    c.append(w)
    # ... and far enough for the unrepaired blackbox to close itself
    w = ["B 1024 32"]
    for i in range(200):
        w.append("L %d %d 0 6 %s t %s" % (i + 1, i + 1, fn, (b"x" * (8 if i % 3 == 0 else 90)).hex()))
    c.append(w + ["D"])
    # default configuration, enough records to lap the ring several times, dumps on the way
    w = ["B 1024 0"]
    for i in range(150):
        w.append("L %d %d %d 6 %s t %s" % (i + 1, i + 1, i, fn, (b"record %04d " % i + b"y" * (i % 97)).hex()))
        if i % 37 == 36:
            w.append("D")
    c.append(w + ["D"])
    # line limit 1 and 5; limit just around the length of the notice
    for ml in (1, 5, 77, 78, 79):
        w = ["B 1024 %d" % ml]
        for i in range(90):
            w.append("L %d %d 0 6 %s t %s" % (i + 1, i + 1, fn, (b"z" * (i % 7 if i % 2 else 120)).hex() or "-"))
        c.append(w + ["D"])
    # reservation larger than the blackbox (max line length 4096, size 1024): it may give up, nothing else
    c.append(["B 1024 4096", "L 1 1 0 6 %s t %s" % (fn, b"hello".hex()), "D", "L 2 2 0 6 %s t %s" % (fn, b"again".hex()), "D"])
    return c


def split_corpus():
    c = []
    # Coq example C07_example_split: reserve 600, read the older chunk in between, copy 90 bytes, peek, commit, read
    c.append(["o 100 -", "w " + "07" * 3000, "a 600", "r 70000 0", "f " + "03" * 90, "p 0", "c 90", "r 70000 0", "d"])
    # overwrite ring: the reservation drops the oldest chunks, the owner reads in between, timed waits
    c.append(["o 3000 o", "w " + "07" * 1000, "w " + "08" * 1000, "w " + "09" * 900, "a 2000", "r 70000 5", "p 1000", "x",
              "f " + "0a" * 2000, "d", "c 2000", "r 70000 -1", "r 70000 3", "d"])
    # an alloc that fails (plain ring), then life goes on
    c.append(["o 100 n", "w " + "01" * 4000, "a 200", "f 0202", "c 2", "r 70000 0", "a 200", "f 0303", "c 2", "r 70000 7",
              "r 70000 7", "d"])
    # copy twice, commit less than reserved, zero-length commit
    c.append(["o 2000 -", "a 600", "f " + "11" * 600, "f " + "22" * 40, "c 40", "a 16", "f -", "c 0", "p 2", "x", "r 10 1",
              "r 0 1", "d"])
    return c


def judge_split(case, impl, mod):
    """-> (kind, what, detail) or None"""
    lines, crash = impl
    if crash:
        return ("impl-monitor", "implementation crashed / sanitizer report (rc=%s)" % crash[0], crash[1][-1500:])
    vs, vl = W.split_to_composite(case, lines)
    mon = W.monitor_ring if "o" in case[0].split()[2] else _c07_monitor()
    m = mon(vs, vl)
    d = C.first_diff(lines, mod[0])
    if m:
        return ("impl-monitor", "split: " + m, {"first_model_difference": d})
    if mod[1]:
        return ("correspondence", "model runner failed", mod[1][1])
    if d:
        return ("correspondence", "split: observable %d differs: impl %r model %r" % (d[0], d[1][:200], d[2][:200]),
                {"first_difference": [d[0], d[1][:400], d[2][:400]]})
    return None


def _c07_monitor():
    import importlib
    return importlib.import_module("props.C07").monitor


# ------------------------------------------------------------------ run
def _ring_stats(cases, impl, stats, sizes):
    for ci, case in enumerate(cases):
        ops, _ = R.parse_ops(case, impl[ci][0])
        for op, r, ql in ops:
            stats["ring_ops"] += 1
            c = op[0]
            if c == "O":
                S = int(op.split()[1])
                b = "S<=100" if S <= 100 else "S<=4083" if S <= 4083 else "S<=8179" if S <= 8179 else "S>8179"
                sizes[b] = sizes.get(b, 0) + 1
                stats["nosem_cases" if "n" in op.split()[2] else "sem_mode_cases"] += 1
            if r is None:
                continue
            if c in "WA":
                stats["writes_ok" if int(r.split()[1]) >= 0 else "writes_failed_oversize"] += 1
            elif c == "R":
                ret = int(r.split()[1])
                stats["reads_ok" if ret >= 0 else "reads_enobufs" if ret == -R.ENOBUFS else "reads_empty"] += 1
            elif c == "P":
                stats["peeks"] += 1
            elif c == "X":
                stats["reclaims"] += 1
            elif c == "D":
                stats["ring_dumps"] += 1


BATCH_RING = 600
BATCH_BB = 130


def run(ctx):
    res = C.Result()
    exe = R.build()
    bbexe = W.build_bb()
    model = C.build_model(ID)
    rng = ctx.rng
    thorough = ctx.tier == "thorough" or not ctx.proof_ok
    n_ring = 1800 if thorough else 260
    n_bb = 460 if thorough else 60
    stats = {"ring_ops": 0, "writes_ok": 0, "writes_failed_oversize": 0, "reads_ok": 0, "reads_enobufs": 0, "reads_empty": 0,
             "peeks": 0, "reclaims": 0, "ring_dumps": 0, "sem_mode_cases": 0, "nosem_cases": 0,
             "bb_log_calls": 0, "bb_fallback_notices": 0, "bb_dumps": 0, "bb_records_read_back": 0, "bb_gave_up_oversize": 0}
    sizes = {}
    maxlines = {}
    samples = []

    # ---------------------------------------------------------------- ring scripts (in batches: outputs are large)
    rcorpus = ring_corpus()
    kinds = {"ring_corpus": len(rcorpus), "ring_random": 0, "ring_long": 0, "ring_dump_after_every_write": 0,
             "bb_corpus": 0, "bb_random": 0, "bb_long": 0, "bb_dump_after_every_call": 0}
    samples += [{"script": [l[:120] for l in c[:10]]} for c in rcorpus[:1]]

    def ring_batches():
        batch = list(rcorpus)
        for i in range(n_ring):
            disciplined = (i % 4 != 3)
            if i % 30 == 29:
                nops = 400
                kinds["ring_long"] += 1
            else:
                nops = rng.choice([8, 15, 30, 60, 100])
                kinds["ring_random"] += 1
            case = R.gen_case(rng, True, nops, seqbase=i * 1000, disciplined=disciplined)
            if i % 8 == 5:
                # read-back at EVERY point: a (non-destructive) dump after every write
                case = [x for op in case for x in ([op, "D"] if op[0] in "WA" else [op])]
                kinds["ring_dump_after_every_write"] += 1
            batch.append(case)
            if len(batch) >= BATCH_RING:
                yield batch
                batch = []
        if batch:
            yield batch

    stop = False
    for bi, rcases in enumerate(ring_batches()):
        if bi == 0:
            samples += [{"script": [l[:120] for l in c[:10]]} for c in rcases[len(rcorpus):len(rcorpus) + 2]]
        impl, mod = R.execute(rcases, exe, model)
        _ring_stats(rcases, impl, stats, sizes)
        for ci, case in enumerate(rcases):
            ops, _ = R.parse_ops(case, impl[ci][0])
            w_ok = sum(1 for op, r, q in ops if op[0] in "WA" and r and int(r.split()[1]) >= 0)
            back = sum(1 for op, r, q in ops if (op[0] == "R" and r and int(r.split()[1]) >= 0) or op[0] == "D")
            res.add_case(("ring",) + tuple(case), w_ok >= 3 and back >= 1)
            v = R.judge(case, impl[ci], mod[ci], W.monitor_ring)
            if v is None:
                res.traces_validated += 1
                continue
            kind = v[0]

            def fails(sub, kind=kind):
                if not sub or not sub[0].startswith("O "):
                    return False
                im, mo = R.execute([sub], exe, model)
                j = R.judge(sub, im[0], mo[0], W.monitor_ring)
                return j is not None and j[0] == kind
            small = C.shrink_list(case, fails, budget=60) if len(res.violations) < 2 else case
            im, mo = R.execute([small], exe, model)
            j = R.judge(small, im[0], mo[0], W.monitor_ring) or v
            res.violation(j[0], j[1], {"stage": "ring", "script": small, "shrunk_from_ops": len(case),
                                       "impl_out": [l[:300] for l in im[0][0]], "model_out": [l[:300] for l in mo[0][0]],
                                       "detail": j[2], "replay_cmd": "./check C11 --replay <this file>"})
            if len(res.violations) >= 6:
                stop = True
                break
        del impl, mod
        R.cleanup_shm()
        if stop:
            break

    # ---------------------------------------------------------------- split stage (C07 gaps: alloc / copy / commit apart, timed waits)
    n_split = 320 if thorough else 30
    kinds["split_cases"] = 0
    stats.update({"split_ops": 0, "split_allocs": 0, "split_allocs_failed": 0, "split_timed_waits": 0})
    scases = split_corpus()
    for i in range(n_split):
        scases.append(W.gen_split_case(rng, rng.choice([10, 25, 50, 90]), seqbase=i * 1000))
    kinds["split_cases"] = len(scases)
    samples += [{"script": [l[:120] for l in c[:12]]} for c in scases[len(split_corpus()):len(split_corpus()) + 1]]
    stexts = ["\n".join(c) + "\n" for c in scases]
    simpl = W.run_sharded_env(bbexe, stexts, max(1, C.NCPU // 4), None)
    smod = W.run_sharded_env(model, stexts, max(1, C.NCPU // 2), {"C11_MODE": "split"})
    for ci, case in enumerate(scases):
        stats["split_ops"] += len(case)
        stats["split_allocs"] += sum(1 for o in case if o.startswith("a "))
        stats["split_allocs_failed"] += sum(1 for k, o in enumerate(case) if o.startswith("a ")) - \
            sum(1 for l in simpl[ci][0] if l.startswith("ra "))
        stats["split_timed_waits"] += sum(1 for o in case if o[0] in "rp" and o.split()[-1] != "0")
        res.add_case(("split",) + tuple(case), sum(1 for l in simpl[ci][0] if l.startswith("ra ")) >= 1)
        v = judge_split(case, simpl[ci], smod[ci])
        if v is None:
            res.traces_validated += 1
            continue
        kind = v[0]

        def sfails(sub, kind=kind):
            if not sub or not sub[0].startswith("o "):
                return False
            t = ["\n".join(sub) + "\n"]
            j = judge_split(sub, C.run_cases(bbexe, t)[0], C.run_cases(model, t, env={"C11_MODE": "split"})[0])
            return j is not None and j[0] == kind
        small = C.shrink_list(case, sfails, budget=60) if len(res.violations) < 2 else case
        t = ["\n".join(small) + "\n"]
        im, mo = C.run_cases(bbexe, t)[0], C.run_cases(model, t, env={"C11_MODE": "split"})[0]
        j = judge_split(small, im, mo) or v
        res.violation(j[0], j[1], {"stage": "split", "script": small, "shrunk_from_ops": len(case),
                                   "impl_out": [l[:200] for l in im[0]][-60:], "model_out": [l[:200] for l in mo[0]][-60:],
                                   "detail": j[2], "replay_cmd": "./check C11 --replay <this file>"})
        if len(res.violations) >= 8:
            break
    del simpl, smod

    # ---------------------------------------------------------------- blackbox scripts
    bcorpus = bb_corpus()
    kinds["bb_corpus"] = len(bcorpus)
    samples += [{"script": [l[:120] for l in c[:10]]} for c in bcorpus[:1]]

    def bb_batches():
        batch = list(bcorpus)
        for i in range(n_bb):
            if i % 6 == 5:
                nlogs = rng.choice([300, 500])
                kinds["bb_long"] += 1
            else:
                nlogs = rng.choice([10, 40, 90, 150])
                kinds["bb_random"] += 1
            case = W.gen_bb_case(rng, nlogs)
            if i % 8 == 3 and nlogs <= 150:
                # a dump taken at EVERY moment: after every log call
                case = [x for op in case for x in ([op, "D"] if op[0] == "L" else [op])]
                kinds["bb_dump_after_every_call"] += 1
            batch.append(case)
            if len(batch) >= BATCH_BB:
                yield batch
                batch = []
        if batch:
            yield batch

    stop = False
    for bi, bcases in enumerate(bb_batches()):
        if bi == 0:
            samples += [{"script": [l[:120] for l in c[:10]]} for c in bcases[len(bcorpus):len(bcorpus) + 2]]
        bimpl, bmod = W.execute_bb(bcases, bbexe, model)
        for ci, case in enumerate(bcases):
            ops = W.parse_bb(bimpl[ci][0])
            nlog = sum(1 for o in ops if o["op"] == "L" and o["c"] is not None)
            nback = sum(len(o["k"]) for o in ops if o["op"] == "D")
            stats["bb_log_calls"] += nlog
            stats["bb_fallback_notices"] += sum(1 for o in ops if o["op"] == "L" and len(o["s"]) > 1)
            stats["bb_dumps"] += sum(1 for o in ops if o["op"] == "D")
            stats["bb_records_read_back"] += nback
            stats["bb_gave_up_oversize"] += sum(1 for o in ops if o["op"] == "L" and o["a"] and o["a"][1] != 0)
            ml = case[0].split()[2]
            maxlines[ml] = maxlines.get(ml, 0) + 1
            res.add_case(("bb",) + tuple(case), nlog >= 5 and nback >= 1)
            v = W.judge_bb(bimpl[ci], bmod[ci])
            if v is None:
                res.traces_validated += 1
                continue
            kind = v[0]

            def bfails(sub, kind=kind):
                if not sub or not sub[0].startswith("B "):
                    return False
                im, mo = W.execute_bb([sub], bbexe, model)
                j = W.judge_bb(im[0], mo[0])
                return j is not None and j[0] == kind
            small = C.shrink_list(case, bfails, budget=50) if len(res.violations) < 2 else case
            im, mo = W.execute_bb([small], bbexe, model)
            j = W.judge_bb(im[0], mo[0]) or v
            res.violation(j[0], j[1], {"stage": "bb", "script": small, "shrunk_from_ops": len(case),
                                       "impl_out": [l[:200] for l in im[0][0]][-60:], "model_out": [l[:200] for l in mo[0][0]][-60:],
                                       "detail": j[2], "replay_cmd": "./check C11 --replay <this file>"})
            if len(res.violations) >= 8:
                stop = True
                break
        del bimpl, bmod
        if stop:
            break

    res.rule = ("ring: scripts over open(S, OVERWRITE, sem|nosem) / write / alloc+commit(reserve >= commit) / read(n) / peek / "
                "reclaim / dump-to-file; S from the page-boundary set {.., 4083, 4084, 4085, 8179, 8180, ..} and random; chunk "
                "lengths aimed at the admission boundary (free-12-{0..8} = no reclaim, free-12+{1..5} = must reclaim), at S, "
                "above S, at the wrap point, 0..16; payload words from {0, MAGIC, DEAD, ALLOC, small ints, random}; the "
                "contents are read back at random points (dump = non-destructive, parsed by the monitor; reads; peeks) and, in "
                "one case of eight, after EVERY write / log call. "
                "split (C07 gaps): the same API with alloc / copy / commit as separate calls, the owner's reads / peeks / reclaims / dumps "
                "in between, reads and peeks with ms_timeout in {0, 1, 3, 50, 1000, -1}, plain and overwrite rings; "
                "bb: B(size, max_line_length) then log calls (function names 1..40 / 100..400 bytes, message lengths around "
                "the line limit, tiny, long; plain text, %s and %d formats) with dumps at random points and at the end. "
                "A ring case is non-trivial when >= 3 writes succeed and the contents are read back at least once; a bb "
                "case when >= 5 records are stored and >= 1 record is read back from a dump; distinct = distinct scripts")
    res.samples = samples
    res.extra = {"case_kinds": kinds, "operation_outcomes": stats, "requested_size_classes": sizes,
                 "bb_max_line_length_classes": maxlines,
                 "monitor": "independent Python monitors stating C11 over the implementation log (vlib/rbow.py: monitor_ring, "
                            "monitor_bb); the ring monitor parses every dump itself",
                 "presupposes_fixes": ["fixes/C11-blackbox-fallback-reserve.patch"],
                 "already_in_repo": ["38445f6", "6c47408", "f545f17"]}
    res.assumptions = ["chunk lengths < 2^32 and notifier count < SEM_VALUE_MAX (not modelled beyond)",
                       "reads and peeks use ms_timeout = 0 (sem_trywait); single-threaded use of one handle (concurrency is C01)",
                       "the dump file transports word_size, write_pt, read_pt and the data bytes unchanged (qb_rb_write_to_file + "
                       "qb_rb_create_from_file modelled as the identity on them; checked on every run by the read-back "
                       "comparison; header validation of damaged files is C15)",
                       "qb_vsnprintf_serialize is an oracle: its answers are recorded from the implementation run; the theorems "
                       "assume only that it produces at most `limit' bytes (C14 is about the serializer itself)",
                       "1 <= max_line_length and header + function name + max_line_length <= blackbox size for the blackbox "
                       "theorem (a larger reservation makes the blackbox give up: configuration corner, DESIGN C11 R)"]
    return res


def replay(ctx, payload):
    model = C.build_model(ID)
    case = payload["script"]
    if payload.get("stage") == "split" or case[0].startswith("o "):
        bbexe = W.build_bb()
        t = ["\n".join(case) + "\n"]
        im, mo = [C.run_cases(bbexe, t)[0]], [C.run_cases(model, t, env={"C11_MODE": "split"})[0]]
        j = judge_split(case, im[0], mo[0])
    elif payload.get("stage") == "bb" or case[0].startswith("B "):
        bbexe = W.build_bb()
        im, mo = W.execute_bb([case], bbexe, model)
        j = W.judge_bb(im[0], mo[0])
    else:
        exe = R.build()
        im, mo = R.execute([case], exe, model)
        R.cleanup_shm()
        j = R.judge(case, im[0], mo[0], W.monitor_ring)
    print("impl :", [l[:160] for l in im[0][0]][-40:])
    print("model:", [l[:160] for l in mo[0][0]][-40:])
    if j:
        print("VIOLATION property=%s replay=%s" % (ID, "<replayed>"))
        print("DETAIL: %s: %s" % (j[0], j[1]))
        return 1
    print("replay: property holds on this script now")
    return 0
