"""C19 - growable array (lib/array.c).  See DESIGN.md section 5 / C19.

Sequential part: symbolic scripts -> real array.c under ASan/UBSan (h_array; calloc/realloc wrapped so that
every table growth moves the table and frees the old one) -> concrete call log -> extracted Gallina model
(and, inside the model runner, the abstract specification) on the same calls -> line diff; plus an
independent Python monitor that states the property over the implementation's log (raw pointers).

Concurrent part (props/C19.py: conc_*): see the second half of this file."""
import bisect
import os
from vlib import common as C

ID = "C19"
ERANGE, EINVAL = 34, 22
MAXEL = 65536
INT32_MAX = 2147483647
WRAPS = ["-Wl,--wrap=calloc", "-Wl,--wrap=realloc"]


def build_seq():
    lib = C.build_lib()
    return C.build_harness("h_array", ["h_array.c"], lib=lib, ldflags=WRAPS)


def prebuild():
    build_seq()
    from vlib import arrconc
    arrconc.build()


# ------------------------------------------------------------------ generator
def corpus():
    """Hand-made boundary cases and witnesses of past findings (run first, every time)."""
    return [
        # bin boundaries, range errors without autogrow, explicit growth keeps pointers and content
        ["c 20 8 0 1", "i 0", "i 15", "i 16", "i 19", "i 20", "i 31", "s 19 7 200", "g 40", "n", "l 19 7", "i 19",
         "i 39", "i 40", "s 39 0 1", "g 65536", "n", "l 39 0", "l 19 7", "i 65535", "i 65536", "g 65537", "i -1"],
        # autogrow: any index in [0, 65536) succeeds, outside fails
        ["c 10 4 1 1", "i 100", "i 65535", "i 65536", "i -5", "l 100 3", "s 100 3 9", "l 100 3", "l 100 4", "n",
         "i 99", "l 99 3", "i 100"],
        # finding: idx + 1 overflows int for INT32_MAX when autogrow is on (UBSan) - fixes/C19-index-int-overflow.patch
        ["c 16 8 16 0", "i %d" % INT32_MAX, "i 0", "i %d" % (INT32_MAX - 1), "i 65536"],
        ["c 16 8 0 0", "i %d" % INT32_MAX, "i -%d" % (INT32_MAX + 1)],
        # invalid create arguments
        ["c 65537 8 0 0", "i 0"], ["c 16 0 0 0"], ["c 16 8 17 0"], ["c 65536 1 16 1", "n", "i 65535", "i 0", "n"],
        # zero-sized array
        ["c 0 3 0 0", "n", "i 0", "g 1", "i 0", "i 1", "s 0 2 5", "g 33", "l 0 2", "i 32", "i 33", "n"],
        # neighbours do not overlap: write every byte of two adjacent elements and of the last/first of adjacent bins
        ["c 64 3 0 0", "i 14", "i 15", "i 16", "i 17"] + ["s %d %d %d" % (i, k, (16 * i + k) % 251 + 1) for i in (14, 15, 16, 17)
                                                          for k in (0, 1, 2)] +
        ["g 5000"] + ["l %d %d" % (i, k) for i in (14, 15, 16, 17) for k in (0, 1, 2)],
        # many table growths in a row (each moves the table)
        ["c 1 2 0 1", "i 0", "s 0 1 42"] + [x for n in (17, 18, 100, 1000, 1001, 5000, 40000, 65536)
                                            for x in ("g %d" % n, "n", "i %d" % (n - 1), "l 0 1", "i 0")],
    ]


MAXES = [0, 1, 15, 16, 17, 31, 32, 33, 100, 255, 256, 1000, 4095, 4096, 65519, 65520, 65535, 65536]
ESIZES = [1, 2, 3, 4, 7, 8, 12, 16, 24, 40, 100, 1000]


def gen_case(rng, n_ops):
    r = rng.random()
    mx = rng.choice(MAXES) if r < 0.8 else rng.randrange(0, MAXEL + 1)
    es = rng.choice(ESIZES)
    au = rng.choice([0, 0, 1, 16, rng.randrange(1, 17)])
    cb = rng.randrange(2)
    if rng.random() < 0.03:
        mx, es, au = rng.choice([(MAXEL + 1, es, au), (mx, 0, au), (mx, es, 17), (1 << 40, es, au)])
    ops = ["c %d %d %d %d" % (mx, es, au, cb)]
    cur = mx
    seen = []
    for _ in range(n_ops):
        r = rng.random()
        if r < 0.45:
            m = rng.random()
            if m < 0.35:
                idx = cur + rng.choice([-2, -1, 0, 1, 2])
            elif m < 0.55:
                idx = 16 * rng.randrange(0, max(1, min(cur, MAXEL) // 16 + 2)) + rng.choice([-1, 0, 15, 16])
            elif m < 0.65:
                idx = rng.choice([0, 1, MAXEL - 1, MAXEL, MAXEL + 1, -1, -2, INT32_MAX, -INT32_MAX - 1, 65535 + 16, 1 << 20])
            elif m < 0.8 and seen:
                idx = rng.choice(seen)
            else:
                idx = rng.randrange(0, max(1, min(cur + 20, MAXEL)))
            ops.append("i %d" % idx)
            if 0 <= idx < MAXEL and (idx < cur or au):
                seen.append(idx)
                cur = max(cur, idx + 1)
        elif r < 0.60:
            m = rng.random()
            if m < 0.5:
                n = cur + rng.choice([0, 1, 2, 15, 16, 17, 33, 100])
            elif m < 0.7:
                n = rng.choice([0, 1, 16, MAXEL - 1, MAXEL, MAXEL + 1, 1 << 33])
            else:
                n = rng.randrange(0, MAXEL + 1)
            ops.append("g %d" % n)
            if n <= MAXEL:
                cur = max(cur, n)
        elif r < 0.65:
            ops.append("n")
        elif seen or rng.random() < 0.3:
            idx = rng.choice(seen) if seen and rng.random() < 0.93 else rng.randrange(0, 70)
            k = rng.choice([0, max(es, 1) - 1, rng.randrange(0, max(es, 1))]) if rng.random() < 0.95 else rng.choice([es, -1, es + 5])
            if rng.random() < 0.5:
                ops.append("s %d %d %d" % (idx, k, rng.randrange(1, 256)))
            else:
                ops.append("l %d %d" % (idx, k))
        else:
            ops.append("n")
    return ops


# ------------------------------------------------------------------ monitor (independent of the model)
def monitor(lines):
    """Executable statement of C19 (sequential part) over the implementation log; raw pointers.
    Returns None or a message."""
    es = au = mx = None
    live = False
    ptr = {}        # idx -> raw pointer
    starts = []     # sorted raw element start addresses
    owner = {}      # start -> idx
    mem = {}        # (idx, k) -> byte
    i, n = 0, len(lines)
    while i < n:
        ln = lines[i]
        if ln.startswith("note"):
            return "line %d: %s" % (i, ln)
        if not ln.startswith("op "):
            return "line %d: unexpected %r" % (i, ln)
        parts = ln.split()
        letter, args = parts[1], [int(x) for x in parts[2:]]
        i += 1
        cbs = []
        while i < n and lines[i].startswith("cb "):
            cbs.append(int(lines[i].split()[1]))
            i += 1
        if i >= n:
            return "log ends inside %r" % ln
        rp = lines[i].split()
        i += 1
        praw = None
        if i < n and lines[i].startswith("p "):
            praw = int(lines[i].split()[2], 16)
            i += 1
        if i < n and lines[i].startswith("note"):
            return "%s: %s" % (ln, lines[i])
        if letter == "c":
            mx, es, au = args[0], args[1], args[2]
            valid = mx <= MAXEL and es >= 1 and au <= 16
            rc = int(rp[1])
            if valid != (rc == 0):
                return "create(%d,%d,%d) returned %d" % (mx, es, au, rc)
            live = rc == 0
            ptr, starts, owner, mem = {}, [], {}, {}
            continue
        if not live:
            return "call on a failed create: %r" % ln
        if letter == "i":
            idx = args[0]
            rc = int(rp[1])
            if idx < 0 or idx >= MAXEL:
                if rc == 0:
                    return "index %d outside [0,65536) succeeded" % idx
                if cbs:
                    return "failed index ran a callback"
                continue
            if idx >= mx and not au:
                if rc != -ERANGE:
                    return "index %d beyond the size %d without autogrow returned %d, expected -ERANGE" % (idx, mx, rc)
                continue
            if rc != 0:
                return "index %d (size %d, autogrow %d) failed with %d" % (idx, mx, au, rc)
            mx = max(mx, idx + 1)
            if praw is None:
                return "index %d: no pointer reported" % idx
            if idx in ptr:
                if ptr[idx] != praw:
                    return "address of index %d changed: first 0x%x, now 0x%x" % (idx, ptr[idx], praw)
                if cbs:
                    return "new_bin_cb ran for an index whose bin already existed"
            else:
                k = bisect.bisect_left(starts, praw)
                if k < len(starts) and starts[k] < praw + es:
                    return "storage of index %d [0x%x,+%d) overlaps index %d at 0x%x" % (idx, praw, es, owner[starts[k]], starts[k])
                if k > 0 and starts[k - 1] + es > praw:
                    return "storage of index %d [0x%x,+%d) overlaps index %d at 0x%x" % (idx, praw, es, owner[starts[k - 1]], starts[k - 1])
                starts.insert(k, praw)
                owner[praw] = idx
                ptr[idx] = praw
            if cbs and cbs != [idx >> 4]:
                return "index %d: new_bin_cb called with %s" % (idx, cbs)
        elif letter == "g":
            rc = int(rp[1])
            if args[0] > MAXEL:
                if rc == 0:
                    return "grow(%d) beyond the maximum succeeded" % args[0]
            else:
                if rc != 0:
                    return "grow(%d) failed with %d" % (args[0], rc)
                mx = max(mx, args[0])
        elif letter == "n":
            pass
        elif letter in ("s", "l"):
            idx, k = args[0], args[1]
            usable = idx in ptr and 0 <= k < es
            if letter == "s":
                if usable:
                    mem[(idx, k)] = args[2]
            else:
                if usable:
                    want = mem.get((idx, k), 0)
                    if rp[1] == "none" or int(rp[1]) != want:
                        return ("element %d byte %d reads %s, expected %d (%s)" %
                                (idx, k, rp[1], want, "last value written" if (idx, k) in mem else "never written: zero"))
    return None


# ------------------------------------------------------------------ run
def execute(cases, exe, model):
    texts = ["\n".join(c) + "\n" for c in cases]
    impl = C.run_cases(exe, texts, timeout=900)
    mcases = ["\n".join(l for l in lines if l.startswith("op ")) + "\n" for lines, crash in impl]
    mod = C.run_cases(model, mcases, timeout=900)
    return impl, mod


def judge(case, impl, mod):
    lines, crash = impl
    if crash:
        return ("impl-monitor", "implementation crashed / sanitizer report (rc=%s): %s" %
                (crash[0], _san_summary(crash[1])), crash[1][-1500:])
    m = monitor(lines)
    ilines = [l for l in lines if not l.startswith("p ")]
    d = C.first_diff(ilines, mod[0])
    if m:
        return ("impl-monitor", m, {"first_model_difference": d})
    if mod[1]:
        return ("correspondence", "model runner failed", mod[1][1])
    if any(l == "SPEC-MISMATCH" for l in mod[0]):
        return ("correspondence", "extracted model contradicts its abstract specification (C19_refines_spec)", mod[0])
    if d:
        return ("correspondence", "observable %d differs: impl %r model %r" % d, {"first_difference": d})
    return None


def _san_summary(err):
    for l in err.split("\n"):
        if "runtime error" in l or "ERROR: AddressSanitizer" in l or "SUMMARY" in l:
            return l.strip()[:200]
    return err.strip().split("\n")[-1][:200] if err.strip() else ""


def run_seq(ctx, res, thorough):
    exe = build_seq()
    model = C.build_model(ID)
    rng = ctx.rng
    ncases = 8000 if thorough else 1500
    cases = corpus()
    kinds = {"corpus": len(cases), "random": ncases}
    for i in range(ncases):
        n_ops = rng.choice([5, 10, 20, 40, 80]) if i % 40 else 400
        cases.append(gen_case(rng, n_ops))
    if thorough:
        # every index of a small-element array, in a scattered order, content checked at the end
        order = list(range(0, MAXEL, 7)) + list(range(3, MAXEL, 1001))
        rng.shuffle(order)
        big = ["c 16 2 1 1"] + [x for j in order for x in ("i %d" % j, "s %d 1 %d" % (j, j % 251 + 1))] + \
              ["l %d 1" % j for j in order] + ["l %d 0" % j for j in order[:500]] + ["n"]
        cases.append(big)
        kinds["sweep"] = 1
    impl, mod = execute(cases, exe, model)
    opcount, errs, grows = {}, 0, 0
    for ci, case in enumerate(cases):
        lines = impl[ci][0]
        nops = len([l for l in lines if l.startswith("op ")])
        okidx = len([l for l in lines if l.startswith("p ")])
        res.add_case(("seq",) + tuple(case), nops >= 3 and okidx >= 1)
        for l in lines:
            if l.startswith("op "):
                opcount[l[3]] = opcount.get(l[3], 0) + 1
            elif l.startswith("r -"):
                errs += 1
        v = judge(case, impl[ci], mod[ci])
        if v is None:
            res.traces_validated += 1
            continue
        kind = v[0]

        def fails(sub):
            if not sub or not sub[0].startswith("c "):
                return False
            im, mo = execute([sub], exe, model)
            j = judge(sub, im[0], mo[0])
            return j is not None and j[0] == kind
        small = C.shrink_list(case, fails, budget=60) if len(res.violations) < 3 else case
        im, mo = execute([small], exe, model)
        j = judge(small, im[0], mo[0]) or v
        res.violation(j[0], j[1], {"part": "sequential", "script": small, "shrunk_from_ops": len(case),
                                   "impl_out": im[0][0], "model_out": mo[0][0], "detail": j[2]})
        if len(res.violations) >= 6:
            break
    res.extra.update({"seq_case_kinds": kinds, "seq_api_calls_by_kind": opcount, "seq_error_results_seen": errs})
    return cases


def run(ctx):
    res = C.Result()
    thorough = ctx.tier == "thorough" or not ctx.proof_ok
    cases = run_seq(ctx, res, thorough)
    samples = [{"part": "sequential", "script": c} for c in cases[:1] + cases[len(corpus()):len(corpus()) + 2]]
    rule = ("sequential: scripts create/index/grow/num_bins/store/load over boundary-directed configurations "
            "(sizes around multiples of 16 and 65536, element sizes 1..1000, autogrow on/off, callback on/off); "
            "non-trivial = at least 3 API calls and one successful index; distinct = distinct scripts")
    from vlib import arrconc
    crule, csamples = arrconc.run_conc(ctx, res, thorough)
    rule += "; " + crule
    samples += csamples
    res.rule = rule
    res.samples = samples
    res.extra["monitor"] = ("independent Python statement of C19 over the implementation log with raw pointers "
                            "(props/C19.py: monitor): stability, pairwise disjointness, zero/last-write content, range errors")
    res.assumptions = ["allocation failure (ENOMEM) paths are not exercised or modelled",
                       "realloc is forced to move on every table growth (harness wrapper); the model treats every "
                       "realloc as moving", "size_t arguments are non-negative (C type)",
                       "concurrent part: sequential consistency at the granularity of lock-protected sections and of "
                       "individual unlocked accesses (see DESIGN.md section 7)"]
    return res


def replay(ctx, payload):
    if payload.get("part") == "concurrent":
        from vlib import arrconc
        return arrconc.replay(ctx, payload)
    exe = build_seq()
    model = C.build_model(ID)
    case = payload["script"]
    im, mo = execute([case], exe, model)
    j = judge(case, im[0], mo[0])
    print("impl :", im[0][0])
    print("model:", mo[0][0])
    if j:
        print("VIOLATION property=%s replay=%s" % (ID, "<replayed>"))
        print("DETAIL: %s: %s" % (j[0], j[1]))
        return 1
    print("replay: property holds on this script now")
    return 0
